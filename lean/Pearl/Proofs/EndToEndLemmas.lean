import Pearl.Proofs.EndToEndBlobOps
import Pearl.Proofs.EndToEndCont
import Pearl.Props.C01
import Pearl.Props.C03
/-
End-to-end composition, part 5: the storage.  The invariant `CInv` of the concrete state (every blob satisfies
`BlobInv`, the container satisfies `Container.Inv` with push-time filters that cover the keys of the children,
the abstraction is a well-formed L2 store), the read path under the invariant (`getLatestEntry_rr`: C10 makes
the pruning a `prune` predicate that `Pearl.prune_transparent` removes), and the refinement of every operation.
-/
namespace Pearl.E2E
open Pearl Pearl.BPTree Pearl.Container

/-! ### the abstraction, component by component -/

theorem abs_slots (cfg : Cfg) (c : CState) :
    (c.abs cfg).slots = (slotsOf c.cont).map (Option.map CBlob.abs) := by
  simp only [CState.abs, slotsOf, List.map_map]
  apply List.map_congr_left
  intro o _
  cases o <;> rfl

theorem closedBlobs_eq (c : Container Combined CBlob) : closedBlobs c = (slotsOf c).filterMap id := by
  simp only [closedBlobs, slotsOf, List.filterMap_map]
  rfl

theorem filterMap_id_map {α β : Type} (f : α → β) : ∀ (l : List (Option α)),
    (l.map (Option.map f)).filterMap id = (l.filterMap id).map f
  | [] => rfl
  | none :: l => by simp [filterMap_id_map f l]
  | some a :: l => by simp [filterMap_id_map f l]

theorem abs_closed (cfg : Cfg) (c : CState) : (c.abs cfg).closed = (closedBlobs c.cont).map CBlob.abs := by
  unfold Store.closed
  rw [abs_slots, closedBlobs_eq, filterMap_id_map]

theorem abs_active (cfg : Cfg) (c : CState) : (c.abs cfg).active = c.active.map CBlob.abs := rfl

theorem abs_blobs (cfg : Cfg) (c : CState) : (c.abs cfg).blobs = c.blobs.map CBlob.abs := by
  unfold Store.blobs CState.blobs
  rw [abs_closed, abs_active, List.map_append]
  cases c.active <;> rfl

theorem abs_visit (cfg : Cfg) (c : CState) :
    (c.abs cfg).visit = (c.active.toList ++ (closedBlobs c.cont).reverse).map CBlob.abs := by
  unfold Store.visit
  rw [abs_closed, abs_active, List.map_append, List.map_reverse]
  cases c.active <;> rfl

theorem mem_closedBlobs {c : Container Combined CBlob} {b : CBlob} :
    b ∈ closedBlobs c ↔ some b ∈ slotsOf c := by
  rw [closedBlobs_eq]
  simp [List.mem_filterMap]

/-! ### the invariant of the storage -/

/-- the invariant, for a blob-level invariant `I` -/
structure CInvG (I : CBlob → Prop) (cfg : Cfg) (c : CState) : Prop where
  /-- blob ids increase along the container, then the active blob, and are below `nextId` -/
  wf : (c.abs cfg).WF
  /-- the active blob is the image of its records and keeps its index in memory -/
  active : ∀ a, c.active = some a → I a ∧ a.index.onDisk = false
  /-- every closed blob is the image of its records -/
  closed : ∀ b, some b ∈ slotsOf c.cont → I b
  /-- `Container.Inv` for the push-time filters `g`, and `g[j]` covers every key of the child in slot `j`
      (delete markers appended to a closed blob repeat a key the blob already holds) -/
  cont : ∃ g, Container.Inv (fops cfg) Combined.WF c.cont g ∧
    ∀ j b, (slotsOf c.cont)[j]? = some (some b) → ∀ r ∈ b.ghost, (fops cfg).coversOpt (g.getD j none) r.key

/-- the invariant of the storage -/
abbrev CInv (cfg : Cfg) (c : CState) : Prop := CInvG (BlobInv cfg) cfg c

/-- the invariant without the size conditions on the blob files -/
abbrev CInv0 (cfg : Cfg) (c : CState) : Prop := CInvG (BlobInv0 cfg) cfg c

/-- range side-conditions on the inputs of an operation: the key fits `K::LEN` bytes, the timestamp a `u64` -/
def COp.OK (cfg : Cfg) : COp → Prop
  | .write k ts _ => k < 256 ^ cfg.klen ∧ ts < 2 ^ 64
  | .delete k ts _ => k < 256 ^ cfg.klen ∧ ts < 2 ^ 64
  | _ => True

instance (cfg : Cfg) (op : COp) : Decidable (op.OK cfg) := by
  cases op <;> unfold COp.OK <;> infer_instance

theorem CInvG.blobInv {I : CBlob → Prop} {cfg : Cfg} {c : CState} (hinv : CInvG I cfg c) {b : CBlob}
    (hb : b ∈ c.blobs) : I b := by
  unfold CState.blobs at hb
  rcases List.mem_append.mp hb with h | h
  · exact hinv.closed b (mem_closedBlobs.mp h)
  · cases ha : c.active with
    | none => rw [ha] at h; cases h
    | some a =>
      rw [ha] at h
      simp only [Option.toList_some, List.mem_singleton] at h
      subst h
      exact (hinv.active b ha).1

theorem CInv.toCInv0 {cfg : Cfg} {c : CState} (h : CInv cfg c) : CInv0 cfg c :=
  ⟨h.wf, fun a ha => ⟨(h.active a ha).1.toBlobInv0, (h.active a ha).2⟩, fun b hb => (h.closed b hb).toBlobInv0, h.cont⟩

/-- the size conditions follow from the L2 state: every blob of the abstraction has an L5 image shorter than
    `2^64` bytes -/
theorem CInv0.toCInv {cfg : Cfg} {c : CState} (h : CInv0 cfg c)
    (hsz : ∀ ab ∈ (c.abs cfg).blobs, (blobBytes cfg.klen (full ab.recs)).length < 2 ^ 64) : CInv cfg c := by
  have hb : ∀ b ∈ c.blobs, BlobInv cfg b := by
    intro b hb
    have h0 : BlobInv0 cfg b := CInvG.blobInv h hb
    refine ⟨h0, ?_⟩
    rw [h0.file]
    exact hsz b.abs (by rw [abs_blobs]; exact List.mem_map.mpr ⟨b, hb, rfl⟩)
  refine ⟨h.wf, fun a ha => ⟨hb a ?_, (h.active a ha).2⟩, fun b hbs => hb b ?_, h.cont⟩
  · unfold CState.blobs; rw [ha]; simp
  · unfold CState.blobs
    exact List.mem_append_left _ (mem_closedBlobs.mpr hbs)

/-! ### merging answers -/

theorem RR.ts {a : ReadResult Rec} {c : ReadResult CEntry} (h : RR a c) : entryTs? c = a.ts? := by
  cases a <;> cases c <;> simp_all [RR, entryTs?, ReadResult.ts?, Serves]

theorem RR.latest {a a' : ReadResult Rec} {c c' : ReadResult CEntry} (h1 : RR a c) (h2 : RR a' c') :
    RR (a.latest a') (entryLatest c c') := by
  unfold ReadResult.latest entryLatest
  rw [h1.ts, h2.ts]
  split
  · exact h2
  · exact h1

theorem RR.map_ts {a : ReadResult Rec} {c : ReadResult CEntry} (h : RR a c) :
    c.map (·.hdr.timestamp) = a.map (·.ts) := by
  cases a <;> cases c <;> simp_all [RR, ReadResult.map, Serves]

/-- the loop over the consulted blobs, against the L2 fold -/
theorem fold_sim (f : CBlob → Except CErr (ReadResult CEntry)) (A : CBlob → ReadResult Rec) :
    ∀ (l : List CBlob) (accA : ReadResult Rec) (accC : ReadResult CEntry), RR accA accC →
      (∀ b ∈ l, ∃ x, f b = .ok x ∧ RR (A b) x) →
      ∃ y, foldEntries f l accC = .ok y ∧ RR (l.foldl (fun acc b => acc.latest (A b)) accA) y
  | [], accA, accC, hacc, _ => ⟨accC, rfl, hacc⟩
  | b :: l, accA, accC, hacc, hl => by
    obtain ⟨x, hx, hr⟩ := hl b (by simp)
    simp only [foldEntries, hx, List.foldl_cons]
    exact fold_sim f A l _ _ (hacc.latest hr) (fun b' hb' => hl b' (by simp [hb']))

theorem foldl_pruned (p : CBlob → Bool) (B : CBlob → ReadResult Rec) : ∀ (l : List CBlob) (acc : ReadResult Rec),
    l.foldl (fun acc b => acc.latest (if p b then B b else .notFound)) acc =
      (l.filter p).foldl (fun acc b => acc.latest (B b)) acc
  | [], _ => rfl
  | b :: l, acc => by
    simp only [List.foldl_cons]
    by_cases hp : p b = true
    · rw [List.filter_cons_of_pos hp, List.foldl_cons, if_pos hp]
      exact foldl_pruned p B l _
    · rw [List.filter_cons_of_neg hp, if_neg hp, ReadResult.latest_notFound]
      exact foldl_pruned p B l _

/-! ### the read path -/

theorem visit_nodup {s : Store} (hwf : s.WF) : s.visit.Nodup := by
  rw [Store.visit_eq]
  unfold List.Nodup
  rw [List.pairwise_reverse]
  have := List.pairwise_map.mp hwf.1
  exact this.imp (fun h e => by subst e; omega)

theorem filterMap_congr' {α β : Type} {f g : α → Option β} : ∀ {l : List α}, (∀ x ∈ l, f x = g x) →
    l.filterMap f = l.filterMap g
  | [], _ => rfl
  | a :: l, h => by
    rw [List.filterMap_cons, List.filterMap_cons, h a (by simp),
      filterMap_congr' (fun x hx => h x (by simp [hx]))]

theorem consulted_sublist (cfg : Cfg) (c : CState) (g : List (Option Combined))
    (hci : Container.Inv (fops cfg) Combined.WF c.cont g) (k : Key) :
    (c.consulted cfg k).Sublist (c.active.toList ++ (closedBlobs c.cont).reverse) := by
  unfold CState.consulted
  apply List.Sublist.append (List.Sublist.refl _)
  have hsub := (C10.possible_rev_complete_stack c.cont g k hci).1
  have hcl : (closedBlobs c.cont).reverse =
      (List.range c.cont.children.length).reverse.filterMap (fun j => (c.cont.getChild j).map (·.data)) := by
    rw [List.filterMap_reverse]
    congr 1
    unfold closedBlobs
    rw [← filterMap_range]
    apply filterMap_congr'
    intro j _
    unfold Container.getChild
    cases c.cont.children[j]? with
    | none => rfl
    | some o => cases o <;> rfl
  rw [hcl]
  exact hsub.filterMap _

/-- **the read path, composed**: under the invariant the concrete `get_latest_entry` does not fail and its
    answer represents the L2 answer.  Layers used: C10 (`possible_rev_complete_stack`, blob `check_filter`) to
    turn the filter pruning into a predicate that never prunes a blob holding the key; C01 `prune_transparent`
    to remove it; C09 / C05 inside `BlobInv.indexLatest_rr`. -/
theorem getLatestEntry_rr {cfg : Cfg} {c : CState} (hcfg : cfg.OK) (hinv : CInv cfg c) (k : Key) :
    ∃ x, c.getLatestEntry cfg k = .ok x ∧ RR ((c.abs cfg).getLatestEntry k none) x := by
  obtain ⟨g, hci, hcov⟩ := hinv.cont
  have hspec := C10.possible_rev_complete_stack c.cont g k hci
  -- the blobs in visiting order, and the consulted ones among them
  have hsub := consulted_sublist cfg c g hci k
  have hfull : ∀ b ∈ c.active.toList ++ (closedBlobs c.cont).reverse, BlobInv cfg b := by
    intro b hb
    apply CInvG.blobInv hinv
    unfold CState.blobs
    rcases List.mem_append.mp hb with h | h
    · exact List.mem_append_right _ h
    · exact List.mem_append_left _ (List.mem_reverse.mp h)
  have hcons : ∀ b ∈ c.consulted cfg k, BlobInv cfg b := fun b hb => hfull b (hsub.subset hb)
  -- concrete fold against the L2 fold with explicit pruning
  let pass : CBlob → Bool := fun b => !(b.checkFilter cfg k == .notContains)
  obtain ⟨y, hy, hrr⟩ := fold_sim (fun b => b.getLatestEntry cfg k)
    (fun b => if pass b then b.abs.getLatest k else .notFound) (c.consulted cfg k) .notFound .notFound trivial
    (by
      intro b hb
      obtain ⟨x, hx, hxr⟩ := (hcons b hb).indexLatest_rr hcfg k
      unfold CBlob.getLatestEntry
      by_cases hp : (b.checkFilter cfg k == .notContains) = true
      · rw [if_pos hp]
        refine ⟨_, rfl, ?_⟩
        simp only [pass, hp, Bool.not_true, Bool.false_eq_true, if_false]
        trivial
      · rw [if_neg hp]
        refine ⟨x, hx, ?_⟩
        have : pass b = true := by simp only [pass]; simpa using hp
        rw [if_pos this]; exact hxr)
  refine ⟨y, hy, ?_⟩
  rw [foldl_pruned] at hrr
  -- the surviving blobs are a filter of the L2 visiting order
  let P := (c.consulted cfg k).filter pass
  have hPsub : (P.map CBlob.abs).Sublist (c.abs cfg).visit := by
    rw [abs_visit]
    exact ((List.filter_sublist (l := c.consulted cfg k)).trans hsub).map _
  have hPeq := sublist_eq_filter hPsub (visit_nodup hinv.wf)
  let prune : Blob → Key → Bool := fun ab _ => !(P.map CBlob.abs).contains ab
  have hP : (c.abs cfg).getLatestEntryP prune k none =
      P.foldl (fun acc b => acc.latest (b.abs.getLatest k)) .notFound := by
    unfold Store.getLatestEntryP
    have : (fun b => !prune b k) = fun x => (P.map CBlob.abs).contains x := by
      funext x; simp [prune]
    rw [this, ← hPeq, List.foldl_map]
    rfl
  rw [← hP, Pearl.prune_transparent] at hrr
  · exact hrr
  -- C10: a pruned blob does not hold the key
  intro ab hab hpr r hr hk
  have habv : ab ∈ (c.abs cfg).visit := Store.mem_visit.mpr hab
  rw [abs_visit] at habv
  obtain ⟨b, hbfull, rfl⟩ := List.mem_map.mp habv
  have hbinv := hfull b hbfull
  have hnotP : b ∉ P := by
    intro hbP
    simp [prune] at hpr
    exact hpr b hbP rfl
  apply hnotP
  have hr' : r ∈ b.ghost := hr
  rw [List.mem_filter]
  refine ⟨?_, ?_⟩
  · -- the blob is consulted
    unfold CState.consulted
    rcases List.mem_append.mp hbfull with h | h
    · exact List.mem_append_left _ h
    · apply List.mem_append_right
      have hsl := mem_closedBlobs.mp (List.mem_reverse.mp h)
      obtain ⟨j, hj⟩ := List.mem_iff_getElem?.mp hsl
      obtain ⟨lf, hlf, hdata⟩ := slots_some_getChild hj
      have hc := hcov j b hj r hr'
      rw [hk] at hc
      have hjit := hspec.2.2.2 j lf hlf hc
      exact List.mem_filterMap.mpr ⟨j, hjit, by rw [hlf]; simp [hdata]⟩
  · -- and passes its own filter check
    have := hbinv.checkFilter_no_fn k ⟨r, hr', hk⟩
    simp only [pass]
    cases hcf : b.checkFilter cfg k with
    | notContains => exact absurd hcf this
    | needAdditionalCheck => rfl

theorem contains_eq {cfg : Cfg} {c : CState} (hcfg : cfg.OK) (hinv : CInv cfg c) (k : Key) :
    c.contains cfg k = .ok ((c.abs cfg).contains k) := by
  obtain ⟨x, hx, hrr⟩ := getLatestEntry_rr hcfg hinv k
  unfold CState.contains Store.contains
  rw [hx]
  simp only [hrr.map_ts]

theorem read_eq {cfg : Cfg} {c : CState} (hcfg : cfg.OK) (hinv : CInv cfg c) (k : Key) :
    c.read cfg k = .ok (((c.abs cfg).read k none).map (fun r => dataOf r.data)) := by
  obtain ⟨x, hx, hrr⟩ := getLatestEntry_rr hcfg hinv k
  unfold CState.read Store.read
  rw [hx]
  cases ha : (c.abs cfg).getLatestEntry k none with
  | notFound =>
    rw [ha] at hrr
    cases x <;> simp_all [RR, ReadResult.map]
  | deleted t =>
    rw [ha] at hrr
    cases x <;> simp_all [RR, ReadResult.map]
  | found r =>
    rw [ha] at hrr
    cases x with
    | found e =>
      obtain ⟨_, _, hload⟩ := hrr
      simp only [hload, ReadResult.map]
    | deleted t => exact absurd hrr (by simp [RR])
    | notFound => exact absurd hrr (by simp [RR])

end Pearl.E2E
