import Pearl.Model.EndToEndMeta
import Pearl.Proofs.EndToEndSteps
/-
End-to-end composition with metadata, part 1: one blob.  Under `BlobInv`
* `get_all_with_deletion_marker` through the vector or the index file is the cut, reversed, sorted vector of
  the key (`index_getAllMarked`, C09 `ondisk_all_eq`);
* `Entry::load_meta` of an entry of the blob returns the entries of the meta that was written (C05);
* `Blob::get_entry_with_meta` represents the L2 answer `Blob.getWithMeta` (`getEntryWithMeta_rr`);
* `Blob::delete` with a meta refines `Store.blobDelete` (`deleteM_spec0`).
-/
namespace Pearl.E2E
open Pearl Pearl.BPTree

/-! ### the range condition on metadata -/

/-- the value of the one entry of a meta map is a byte string -/
def MetaOK (m : Meta) : Prop := ∀ v, m = some v → ∀ x ∈ v, x < 256

instance (m : Meta) : Decidable (MetaOK m) := by
  unfold MetaOK
  cases m with
  | none => exact isTrue (by intro v h; cases h)
  | some w =>
    exact decidable_of_iff (∀ x ∈ w, x < 256)
      ⟨fun h v hv => by cases hv; exact h, fun h => h w rfl⟩

theorem metaOK_none : MetaOK none := by intro v h; cases h

theorem metaOK_getD {m : Option Meta} (h : ∀ x, m = some x → MetaOK x) : MetaOK (m.getD none) := by
  cases m with
  | none => exact metaOK_none
  | some x => exact h x rfl

theorem metaVal_inj : ∀ (v w : List Nat), (∀ x ∈ v, x < 256) → (∀ x ∈ w, x < 256) → metaVal v = metaVal w → v = w
  | [], [], _, _, _ => rfl
  | [], _ :: _, _, _, h => by simp [metaVal] at h
  | _ :: _, [], _, _, h => by simp [metaVal] at h
  | a :: v, b :: w, hv, hw, h => by
    simp only [metaVal, List.map_cons, List.cons.injEq] at h
    have ha := hv a (by simp)
    have hb := hw b (by simp)
    have hab : a = b := by
      have := congrArg UInt8.toNat h.1
      simp only [UInt8.toNat_ofNat'] at this
      omega
    rw [hab, metaVal_inj v w (fun x hx => hv x (by simp [hx])) (fun x hx => hw x (by simp [hx])) h.2]

theorem metaEntries_eq_iff {m m' : Meta} (h : MetaOK m) (h' : MetaOK m') : metaEntries m = metaEntries m' ↔ m = m' := by
  constructor
  · intro he
    cases m with
    | none =>
      cases m' with
      | none => rfl
      | some w => simp [metaEntries] at he
    | some v =>
      cases m' with
      | none => simp [metaEntries] at he
      | some w =>
        simp only [metaEntries, List.cons.injEq, Prod.mk.injEq, true_and, and_true] at he
        rw [metaVal_inj v w (h v rfl) (h' w rfl) he]
  · intro he; rw [he]

/-! ### cutting after the first marker, generically -/

/-- through the first element satisfying `d` -/
def cutBy {α : Type} (d : α → Bool) : List α → List α
  | [] => []
  | x :: xs => if d x then [x] else x :: cutBy d xs

theorem cutDel_eq (l : List RecHeader) : cutDel l = cutBy RecHeader.isDeleted l := by
  induction l with
  | nil => rfl
  | cons x xs ih => simp only [cutDel, cutBy, ih]

theorem cutHdrs_eq (l : List Rec) : cutHdrs l = cutBy Rec.del l := by
  induction l with
  | nil => rfl
  | cons x xs ih => simp only [cutHdrs, cutBy, ih]

theorem cutEntries_eq (l : List CEntry) : cutEntries l = cutBy (fun e => e.hdr.isDeleted) l := by
  induction l with
  | nil => rfl
  | cons x xs ih => simp only [cutEntries, cutBy, ih]

theorem cutBy_map {α β : Type} (g : α → β) (d : β → Bool) : ∀ (l : List α),
    cutBy d (l.map g) = (cutBy (fun a => d (g a)) l).map g
  | [] => rfl
  | x :: xs => by
    simp only [List.map_cons, cutBy]
    split
    · rfl
    · rw [List.map_cons, cutBy_map g d xs]

theorem cutBy_sublist {α : Type} (d : α → Bool) : ∀ (l : List α), (cutBy d l).Sublist l
  | [] => List.Sublist.slnil
  | x :: xs => by
    simp only [cutBy]
    split
    · exact (List.nil_sublist xs).cons_cons x
    · exact (cutBy_sublist d xs).cons_cons x

theorem mem_of_mem_cutBy {α : Type} {d : α → Bool} {l : List α} {x : α} (h : x ∈ cutBy d l) : x ∈ l :=
  (cutBy_sublist d l).subset h

/-- only the last element of a cut list can be a marker -/
theorem cutBy_dropLast {α : Type} (d : α → Bool) : ∀ (l : List α), ∀ x ∈ (cutBy d l).dropLast, d x = false
  | [], x, hx => by simp [cutBy] at hx
  | y :: ys, x, hx => by
    simp only [cutBy] at hx
    split at hx
    · simp at hx
    · rename_i hy
      cases hc : cutBy d ys with
      | nil => rw [hc] at hx; simp at hx
      | cons c cs =>
        rw [hc, List.dropLast_cons_cons] at hx
        rcases List.mem_cons.mp hx with rfl | hx
        · simpa using hy
        · exact cutBy_dropLast d ys x (by rw [hc]; exact hx)

theorem cutBy_all_of_last {α : Type} (d : α → Bool) (l : List α) (y : α) (hl : (cutBy d l).getLast? = some y)
    (hy : d y = false) : ∀ x ∈ cutBy d l, d x = false := by
  intro x hx
  have hne : cutBy d l ≠ [] := by intro h; rw [h] at hl; simp at hl
  rw [← List.dropLast_concat_getLast hne] at hx
  rcases List.mem_append.mp hx with h | h
  · exact cutBy_dropLast d l x h
  · simp only [List.mem_singleton] at h
    have : (cutBy d l).getLast hne = y := by
      rw [List.getLast?_eq_some_getLast hne] at hl
      exact Option.some.inj hl
    rw [h, this]; exact hy

/-! ### `get_all_with_deletion_marker` of a blob -/

/-- the cut, newest-first vector of key `k` as (record, offset) pairs -/
def ocut (klen : Nat) (recs : List Rec) (k : Key) : List (Rec × Nat) :=
  cutBy (fun p => p.1.del) (ovecOf klen recs k).reverse

theorem mem_ocut {klen : Nat} {recs : List Rec} {k : Key} {p : Rec × Nat} (hp : p ∈ ocut klen recs k) :
    p ∈ withOff klen blobHeaderSize recs ∧ p.1.key = k :=
  mem_ovecOf (List.mem_reverse.mp (mem_of_mem_cutBy hp))

/-- **C09** for `find_by_key`: through memory or through the file image, the cut list of headers -/
theorem BlobInv.index_getAllMarked {cfg : Cfg} {b : CBlob} (hcfg : cfg.OK) (hb : BlobInv cfg b) (k : Key) :
    b.index.getAllMarked k = some (cutDel (hvecOf (hdrsOf cfg b.ghost) k).reverse) := by
  have hidx := hb.index
  unfold IndexInv at hidx
  have hmem : (memAll (indexOf (hdrsOf cfg b.ghost)) k).getD [] = (hvecOf (hdrsOf cfg b.ghost) k).reverse := by
    rw [← indexOf_lookup]
    unfold memAll
    cases (indexOf (hdrsOf cfg b.ghost)).lookup k <;> rfl
  cases hi : b.index with
  | mem m =>
    rw [hi] at hidx
    simp only [] at hidx
    subst hidx
    simp only [CIndex.getAllMarked, hmem]
  | disk f metaBuf off =>
    rw [hi] at hidx
    simp only [] at hidx
    obtain ⟨hne, _, rfl⟩ := hidx
    simp only [CIndex.getAllMarked]
    rw [C09.ondisk_all_eq (Params.real cfg.klen) (C09.valid_real cfg.klen hcfg.klen) metaBuf.length
      (indexOf (hdrsOf cfg b.ghost)) (indexOf_WF _)
      (by rw [Ne, indexOf_eq_nil_iff, hdrsOf_eq_nil_iff]; exact hne) k]
    simp only [Option.map_some]
    exact congrArg (fun l => some (cutDel l)) hmem

theorem BlobInv.getAllMarked_ocut {cfg : Cfg} {b : CBlob} (hcfg : cfg.OK) (hb : BlobInv cfg b) (k : Key) :
    b.index.getAllMarked k = some ((ocut cfg.klen b.ghost k).map (fun p => hdrOf cfg.klen p.1 p.2)) := by
  rw [hb.index_getAllMarked hcfg k]
  unfold hdrsOf
  rw [← ovecOf_hdr cfg.klen b.ghost k hb.key, ← List.map_reverse, cutDel_eq, cutBy_map]
  unfold ocut
  have : (fun a : Rec × Nat => (hdrOf cfg.klen a.1 a.2).isDeleted) = fun p => p.1.del := by
    funext p; exact hdrOf_isDeleted _ _ _
  rw [this]

theorem getAllCut_ocut (klen : Nat) (b : CBlob) (k : Key) :
    b.abs.getAllCut k = (ocut klen b.ghost k).map (·.1) := by
  unfold Blob.getAllCut allCutOfVec Blob.vec ocut
  show cutHdrs (vecOf b.ghost k).reverse = _
  rw [cutHdrs_eq, ← ovecOf_fst klen b.ghost k, ← List.map_reverse, cutBy_map]

/-! ### `Entry::load_meta` (C05) -/

theorem loadMeta_of_entryLoad {file : List UInt8} {h : RecHeader} {mt : Meta} {d : List UInt8}
    (hl : entryLoad file h = .ok (serMeta mt, d)) (hlen : file.length < 2 ^ 64) :
    loadMeta file h = .ok (metaEntries mt) := by
  obtain ⟨h1, h2, _⟩ := entryLoad_ok hl
  have hr : readExactAt file h.metaSize h.metaOffset = some (serMeta mt) := readExactAt_some_iff.mpr ⟨h1, h2⟩
  have hm : (serMeta mt).length < 2 ^ 64 := by
    have : (serMeta mt).length ≤ file.length := by
      rw [h1, List.length_take, List.length_drop]; omega
    omega
  have hd := deserMeta_serMeta mt hm []
  rw [List.append_nil] at hd
  unfold loadMeta
  rw [hr]
  simp only [hd]

theorem loadMeta_of_mem (klen : Nat) (recs : List Rec) (hlen : (blobBytes klen (full recs)).length < 2 ^ 64)
    (p : Rec × Nat) (hp : p ∈ withOff klen blobHeaderSize recs) :
    loadMeta (blobBytes klen (full recs)) (hdrOf klen p.1 p.2) = .ok (metaEntries p.1.mt) :=
  loadMeta_of_entryLoad (load_of_mem klen recs hlen p hp) hlen

/-! ### `filter_entries` and `get_entry_with_meta` -/

/-- the body of `get_entry_with_meta` on (record, offset) pairs -/
def withMetaP (m : Meta) (X : List (Rec × Nat)) : ReadResult (Rec × Nat) :=
  let delTs : Option Nat :=
    match X.getLast? with
    | some p => if p.1.del then some p.1.ts else none
    | none => none
  let X' := if delTs.isSome then X.dropLast else X
  match X'.find? (fun p => p.1.mt == m) with
  | some p => .found p
  | none =>
    match delTs with
    | some t => .deleted t
    | none => .notFound

theorem find?_map_fst (m : Meta) (X : List (Rec × Nat)) :
    (X.map (·.1)).find? (fun r => r.mt == m) = (X.find? (fun p => p.1.mt == m)).map (·.1) := by
  rw [List.find?_map]; rfl

theorem withMetaList_map_fst (m : Meta) (X : List (Rec × Nat)) :
    withMetaList m (X.map (·.1)) = (withMetaP m X).map (·.1) := by
  unfold withMetaList withMetaP
  simp only [List.getLast?_map]
  cases hl : X.getLast? with
  | none =>
    simp only [Option.map_none, Option.isSome_none, Bool.false_eq_true, if_false, find?_map_fst]
    cases X.find? (fun p => p.1.mt == m) <;> rfl
  | some p =>
    simp only [Option.map_some]
    by_cases hd : p.1.del = true
    · simp only [hd, if_true, Option.isSome_some, ← List.map_dropLast, find?_map_fst]
      cases X.dropLast.find? (fun p => p.1.mt == m) <;> rfl
    · simp only [hd, Bool.false_eq_true, if_false, Option.isSome_none, find?_map_fst]
      cases X.find? (fun p => p.1.mt == m) <;> rfl

theorem filterEntries_map (m : Meta) (file : List UInt8) (hd : Rec × Nat → RecHeader) :
    ∀ (X : List (Rec × Nat)), (∀ p ∈ X, loadMeta file (hd p) = .ok (metaEntries p.1.mt)) →
      (∀ p ∈ X, MetaOK p.1.mt) → MetaOK m →
      CBlob.filterEntries m (X.map (fun p => (⟨hd p, file⟩ : CEntry)))
        = .ok ((X.find? (fun p => p.1.mt == m)).map (fun p => (⟨hd p, file⟩ : CEntry)))
  | [], _, _, _ => rfl
  | p :: X, hload, hok, hm => by
    simp only [List.map_cons, CBlob.filterEntries, hload p (by simp), List.find?_cons]
    by_cases he : p.1.mt = m
    · have : metaEntries p.1.mt = metaEntries m := by rw [he]
      simp [he]
    · have : ¬ metaEntries p.1.mt = metaEntries m := fun h =>
        he ((metaEntries_eq_iff (hok p (by simp)) hm).mp h)
      have hb : (p.1.mt == m) = false := by simpa using he
      rw [if_neg this, hb]
      exact filterEntries_map m file hd X (fun q hq => hload q (by simp [hq])) (fun q hq => hok q (by simp [hq])) hm

/-- **`Blob::get_entry_with_meta`** represents the L2 answer: C09 (`find_by_key`), C05 (`load_meta` per
    candidate, `load` of the match) -/
theorem BlobInv.getEntryWithMeta_rr {cfg : Cfg} {b : CBlob} (hcfg : cfg.OK) (hb : BlobInv cfg b)
    (hmeta : ∀ r ∈ b.ghost, MetaOK r.mt) (k : Key) (m : Meta) (hm : MetaOK m) :
    ∃ x, b.getEntryWithMeta k m = .ok x ∧ RR (b.abs.getWithMeta k m) x := by
  have hlen : (blobBytes cfg.klen (full b.ghost)).length < 2 ^ 64 := by rw [← hb.file]; exact hb.size
  let X := ocut cfg.klen b.ghost k
  let hd : Rec × Nat → RecHeader := fun p => hdrOf cfg.klen p.1 p.2
  have hX : ∀ p ∈ X, p ∈ withOff cfg.klen blobHeaderSize b.ghost := fun p hp => (mem_ocut hp).1
  -- the L2 side
  have hA : b.abs.getWithMeta k m = (withMetaP m X).map (·.1) := by
    rw [Blob.getWithMeta_def, getAllCut_ocut cfg.klen, withMetaList_map_fst]
  -- the concrete side
  have hlast : ((X.map hd).getLast?.filter (fun h => h.isDeleted)).map (fun h => h.timestamp)
      = (match X.getLast? with
        | some p => if p.1.del then some p.1.ts else none
        | none => none) := by
    rw [List.getLast?_map]
    cases X.getLast? with
    | none => rfl
    | some p =>
      simp only [Option.map_some, Option.filter, hd, hdrOf_isDeleted]
      cases p.1.del
      · rfl
      · simp only [if_true, Option.map_some, hdrOf_timestamp]
  have htake : ∀ (l : List RecHeader), l.take (l.length - 1) = l.dropLast := fun l => (List.dropLast_eq_take).symm
  have hC : b.getEntryWithMeta k m = .ok ((withMetaP m X).map (fun p => (⟨hd p, b.file⟩ : CEntry))) := by
    unfold CBlob.getEntryWithMeta
    rw [hb.getAllMarked_ocut hcfg k,
      show List.map (fun p => hdrOf cfg.klen p.1 p.2) (ocut cfg.klen b.ghost k) = X.map hd from rfl]
    simp only [hlast, htake]
    unfold withMetaP
    generalize hdt : (match X.getLast? with
        | some p => if p.1.del then some p.1.ts else none
        | none => none) = delTs
    have hsel : (if delTs.isSome = true then (X.map hd).dropLast else X.map hd)
        = (if delTs.isSome = true then X.dropLast else X).map hd := by
      split
      · exact List.map_dropLast.symm
      · rfl
    rw [hsel]
    have hsub : ∀ p ∈ (if delTs.isSome = true then X.dropLast else X), p ∈ X := by
      intro p hp
      split at hp
      · exact List.dropLast_subset _ hp
      · exact hp
    have hfe := filterEntries_map m b.file hd (if delTs.isSome = true then X.dropLast else X)
      (fun p hp => by rw [hb.file]; exact loadMeta_of_mem cfg.klen b.ghost hlen p (hX p (hsub p hp)))
      (fun p hp => hmeta p.1 (mem_withOff_fst (hX p (hsub p hp)))) hm
    unfold CBlob.toEntries
    rw [List.map_map]
    rw [show ((fun h => (⟨h, b.file⟩ : CEntry)) ∘ hd) = fun p => (⟨hd p, b.file⟩ : CEntry) from rfl, hfe]
    simp only []
    cases (if delTs.isSome = true then X.dropLast else X).find? (fun p => p.1.mt == m) with
    | some p => rfl
    | none => cases delTs <;> rfl
  refine ⟨_, hC, ?_⟩
  rw [hA]
  -- the answer, case by case
  cases hw : withMetaP m X with
  | notFound => trivial
  | deleted t => exact rfl
  | found p =>
    -- the match is a record of the blob above the local marker
    have hp : p ∈ X ∧ p.1.del = false := by
      unfold withMetaP at hw
      simp only [] at hw
      generalize hdt : (match X.getLast? with
          | some p => if p.1.del then some p.1.ts else none
          | none => none) = delTs at hw
      cases hf : (if delTs.isSome = true then X.dropLast else X).find? (fun p => p.1.mt == m) with
      | none => rw [hf] at hw; cases delTs <;> cases hw
      | some q =>
        rw [hf] at hw
        simp only [ReadResult.found.injEq] at hw
        subst hw
        have hq := List.mem_of_find?_eq_some hf
        cases hds : delTs.isSome with
        | true =>
          rw [hds] at hq
          simp only [if_true] at hq
          exact ⟨List.dropLast_subset _ hq, cutBy_dropLast _ _ q hq⟩
        | false =>
          rw [hds] at hq
          simp only [Bool.false_eq_true, if_false] at hq
          refine ⟨hq, ?_⟩
          cases hl : X.getLast? with
          | none =>
            have : X = [] := List.getLast?_eq_none_iff.mp hl
            rw [this] at hq; cases hq
          | some y =>
            rw [hl] at hdt
            have hy : y.1.del = false := by
              cases hyd : y.1.del with
              | false => rfl
              | true => simp only [hyd, if_true] at hdt; rw [← hdt] at hds; cases hds
            exact cutBy_all_of_last _ _ y hl hy q hq
    show Serves ⟨hd p, b.file⟩ p.1
    refine ⟨hdrOf_timestamp _ _ _, hp.2, ?_⟩
    have := load_of_mem cfg.klen b.ghost hlen p (hX p hp.1)
    rw [hp.2] at this
    simp only [Bool.false_eq_true, if_false] at this
    rw [hb.file]; exact this

/-- the per-blob answer with or without a meta -/
theorem BlobInv.entryM_rr {cfg : Cfg} {b : CBlob} (hcfg : cfg.OK) (hb : BlobInv cfg b)
    (hmeta : ∀ r ∈ b.ghost, MetaOK r.mt) (k : Key) (m : Option Meta) (hm : ∀ x, m = some x → MetaOK x) :
    ∃ x, (match m with
          | some m => b.getEntryWithMeta k m
          | none => b.indexLatest k) = .ok x ∧ RR (b.abs.getLatestEntry k m) x := by
  cases m with
  | none => exact hb.indexLatest_rr hcfg k
  | some m => exact hb.getEntryWithMeta_rr hcfg hmeta k m (hm m rfl)

/-! ### `Blob::delete` with a meta -/

theorem deleteM_none (cfg : Cfg) (b : CBlob) (k : Key) (ts : Nat) (oip : Bool) :
    b.deleteM cfg k ts none oip = b.delete cfg k ts oip := rfl

/-- `Blob::delete(key, ts, meta, only_if_presented)` against `Store.blobDelete`, without a size condition -/
theorem deleteM_spec0 {cfg : Cfg} {b : CBlob} (hcfg : cfg.OK) (hb : BlobInv cfg b) (k : Key) (ts : Nat)
    (m : Option Meta) (oip : Bool) (hk : k < 256 ^ cfg.klen) (hts : ts < 2 ^ 64) :
    BlobInv0 cfg (b.deleteM cfg k ts m oip).1 ∧
      (b.deleteM cfg k ts m oip).1.abs = (Store.blobDelete b.abs k ts m oip).1 ∧
      (b.deleteM cfg k ts m oip).2 = (Store.blobDelete b.abs k ts m oip).2 := by
  obtain ⟨x, hx, hrr⟩ := hb.indexLatest_rr hcfg k
  unfold CBlob.deleteM
  unfold Store.blobDelete
  simp only [hx, hrr.isFound]
  by_cases hgo : (!oip || (b.abs.getLatest k).isFound) = true
  · rw [if_pos hgo, if_pos hgo]
    obtain ⟨hl, hlid, hlg, hlm, hlf⟩ := loadIndex_inv hcfg hb
    obtain ⟨hw, hwid, hwg, hwm, _⟩ := writeRec_inv0 hl.toBlobInv0 hlm ⟨k, ts, true, m.getD none, ⟨0, 0⟩⟩ hk hts
    refine ⟨hw, ?_, rfl⟩
    simp only [CBlob.abs, hwid, hwg, hwm, hlid, hlg]
  · rw [if_neg hgo, if_neg hgo]
    exact ⟨hb.toBlobInv0, rfl, rfl⟩

/-- the liveness test `Blob::delete` performs through the concrete index is the one of the specification -/
theorem deleteM_live {cfg : Cfg} {b : CBlob} (hcfg : cfg.OK) (hb : BlobInv cfg b) (k : Key) (ts : Nat)
    (m : Option Meta) :
    (b.deleteM cfg k ts m true).2 = Spec.liveIn b.id b.ghost k := by
  obtain ⟨x, hx, hrr⟩ := hb.indexLatest_rr hcfg k
  have h1 : (b.deleteM cfg k ts m true).2 = x.isFound := by
    unfold CBlob.deleteM
    simp only [hx, Bool.not_true, Bool.false_or]
    cases x.isFound <;> rfl
  rw [h1, hrr.isFound]
  exact (Blob.liveIn_eq b.abs k).symm

end Pearl.E2E
