import Pearl.Proofs.EndToEndMetaBytesImage
import Pearl.Proofs.EndToEndMetaBytesCont
import Pearl.Proofs.EndToEndMetaRun
/-
Byte image of the index file, part 5: one blob.  For a blob that satisfies `BlobInv` and whose index file (if it is
on disk) is shorter than `2^64` bytes, every access to the index gives the same result through the byte image as
through the structured file: `get_latest`, `get_all_with_deletion_marker`, `check_filter` (`read_meta_at`),
`load_index` (`get_records_headers`, `read_meta`), and with them every blob operation (`toB` commutes).
-/
namespace Pearl.E2E
open Pearl Pearl.BPTree Pearl.Container

/-- standing hypotheses of the byte-level composition: the configuration side-conditions and a 32-byte hash -/
structure BytesOK (cfg : Cfg) (sha : List Nat → List Nat) : Prop where
  ok : cfg.OK
  shaLen : ∀ l, (sha l).length = 32

/-- the index file of the blob, if there is one, is shorter than `2^64` bytes (its header fields and the offsets in
    its nodes are `u64`) -/
def CBlob.IdxSized (b : CBlob) : Prop := ∀ f mb off, b.index = .disk f mb off → f.fileSize < 2 ^ 64

def CState.IdxSized (c : CState) : Prop := ∀ b ∈ c.blobs, b.IdxSized

/-! ### the map of a blob: keys and headers are well formed -/

theorem foldl_memPush_all (Q : RecHeader → Prop) : ∀ (hs : List RecHeader) (acc : InMem RecHeader),
    (∀ kv ∈ acc, ∀ x ∈ kv.2, Q x) → (∀ h ∈ hs, Q h) →
    ∀ kv ∈ hs.foldl (fun m h => memPush (hdrKey h) h m) acc, ∀ x ∈ kv.2, Q x
  | [], _, hacc, _ => hacc
  | h :: hs, acc, hacc, hq => by
    simp only [List.foldl_cons]
    apply foldl_memPush_all Q hs _ _ (fun y hy => hq y (by simp [hy]))
    have := memPush_vecs (hdrKey h) h (fun _ v => ∀ x ∈ v, Q x)
      (by intro x hx; simp at hx; subst hx; exact hq _ (by simp))
      (by
        intro v hv x hx
        rcases mem_ins.mp hx with rfl | hx
        · exact hq _ (by simp)
        · exact hv x hx)
      acc hacc
    exact this

theorem indexOf_all (Q : RecHeader → Prop) (hs : List RecHeader) (hq : ∀ h ∈ hs, Q h) :
    ∀ kv ∈ indexOf hs, ∀ x ∈ kv.2, Q x :=
  foldl_memPush_all Q hs [] (by intro kv hkv; cases hkv) hq

theorem indexOf_leaf_ok {K : Nat} (hs : List RecHeader) (hq : ∀ h ∈ hs, HdrOK K h) :
    ∀ h ∈ leafArray (indexOf hs), HdrOK K h := by
  intro h hh
  obtain ⟨kv, hkv, hmem⟩ := mem_leafArray hh
  exact indexOf_all (HdrOK K) hs hq kv hkv h hmem

theorem indexOf_keys_lt {K : Nat} (hs : List RecHeader) (hq : ∀ h ∈ hs, HdrOK K h) :
    ∀ kv ∈ indexOf hs, kv.1 < 256 ^ K := by
  intro kv hkv
  have hwf := indexOf_WF hs
  have hne := hwf.nonempty kv hkv
  obtain ⟨x, hx⟩ := List.exists_mem_of_ne_nil _ hne
  have hk : hkey x = kv.1 := hwf.keys kv hkv x hx
  rw [← hk]
  exact hdrKey_lt (indexOf_all (HdrOK K) hs hq kv hkv x hx).key

/-! ### the on-disk index of a blob through its bytes -/

section Disk
variable {cfg : Cfg} {sha : List Nat → List Nat}

/-- the index file of a blob with its index on disk: its image is opened, and the opened image simulates it -/
theorem BlobInv.disk_sim (hB : BytesOK cfg sha) {b : CBlob} (hb : BlobInv cfg b) (hs : b.IdxSized)
    {f : IndexFile RecHeader} {mb : List Nat} {off : Nat} (hi : b.index = .disk f mb off) :
    ∃ x, BIdx.fromFile (imageOf sha f mb b.file.length) = some x ∧ Sim cfg.klen b.file.length mb f x := by
  have hidx := hb.index
  unfold IndexInv at hidx
  rw [hi] at hidx
  obtain ⟨_, _, hf⟩ := hidx
  have hsz := hs f mb off hi
  subst hf
  have hok := hdrsOf_ok hb
  refine ⟨_, fromFile_image cfg.klen mb _ hB.ok.klen _ (hB.shaLen _) b.file.length hsz, ?_⟩
  exact image_sim cfg.klen mb _ hB.ok.klen (indexOf_WF _) _ (hB.shaLen _) b.file.length hb.size
    (indexOf_keys_lt _ hok) (indexOf_leaf_ok _ hok) hsz

theorem index_getLatest_toB (hB : BytesOK cfg sha) {b : CBlob} (hb : BlobInv cfg b) (hs : b.IdxSized) (k : Key) :
    (b.toB sha).index.getLatest cfg.klen k = b.index.getLatest k := by
  cases hi : b.index with
  | mem m => simp only [CBlob.toB, hi, CIndex.toB, BIndex.getLatest, CIndex.getLatest]
  | disk f mb off =>
    obtain ⟨x, hx, sim⟩ := hb.disk_sim hB hs hi
    have hst := hb.index_getLatest hB.ok k
    rw [hi] at hst
    simp only [CBlob.toB, hi, CIndex.toB, BIndex.getLatest, CIndex.getLatest, hx, Option.bind_some] at hst ⊢
    rw [hst]
    exact getLatest_sim sim k _ hst

theorem index_getAllMarked_toB (hB : BytesOK cfg sha) {b : CBlob} (hb : BlobInv cfg b) (hs : b.IdxSized) (k : Key) :
    (b.toB sha).index.getAllMarked cfg.klen k = b.index.getAllMarked k := by
  cases hi : b.index with
  | mem m => simp only [CBlob.toB, hi, CIndex.toB, BIndex.getAllMarked, CIndex.getAllMarked]
  | disk f mb off =>
    obtain ⟨x, hx, sim⟩ := hb.disk_sim hB hs hi
    have hidx := hb.index
    unfold IndexInv at hidx
    rw [hi] at hidx
    obtain ⟨hne, _, hf⟩ := hidx
    have hst : f.findByKey k = some (((indexOf (hdrsOf cfg b.ghost)).lookup k).map List.reverse) := by
      rw [hf]
      exact C09.ondisk_all_eq (Params.real cfg.klen) (C09.valid_real cfg.klen hB.ok.klen) mb.length
        (indexOf (hdrsOf cfg b.ghost)) (indexOf_WF _)
        (by rw [Ne, indexOf_eq_nil_iff, hdrsOf_eq_nil_iff]; exact hne) k
    simp only [CBlob.toB, hi, CIndex.toB, BIndex.getAllMarked, CIndex.getAllMarked, hx, Option.bind_some]
    rw [findByKey_sim sim k _ hst, hst]

theorem checkFilter_toB (hB : BytesOK cfg sha) {b : CBlob} (hb : BlobInv cfg b) (hs : b.IdxSized) (k : Key) :
    (b.toB sha).checkFilter cfg k = b.checkFilter cfg k := by
  cases hi : b.index with
  | mem m => simp only [CBlob.toB, hi, CIndex.toB, BBlob.checkFilter, CBlob.checkFilter]
  | disk f mb off =>
    obtain ⟨x, hx, sim⟩ := hb.disk_sim hB hs hi
    simp only [CBlob.toB, hi, CIndex.toB, BBlob.checkFilter, CBlob.checkFilter, hx, Option.bind_some]
    congr 1
    funext i
    rw [readMetaAt_sim sim]
    rfl

theorem loadIndex_toB (hB : BytesOK cfg sha) {b : CBlob} (hb : BlobInv cfg b) (hs : b.IdxSized) :
    (b.toB sha).loadIndex cfg = (b.loadIndex cfg).toB sha := by
  cases hi : b.index with
  | mem m =>
    have h1 : b.loadIndex cfg = b := by unfold CBlob.loadIndex; rw [hi]
    rw [h1]
    simp only [CBlob.toB, hi, CIndex.toB, BBlob.loadIndex]
  | disk f mb off =>
    obtain ⟨x, hx, sim⟩ := hb.disk_sim hB hs hi
    have hidx := hb.index
    unfold IndexInv at hidx
    rw [hi] at hidx
    obtain ⟨_, _, hf⟩ := hidx
    have hload : f.load = some (indexOf (hdrsOf cfg b.ghost)) := by
      rw [hf]; exact C09.load_build _ _ _ (indexOf_WF _)
    have hR : (b.loadIndex cfg).toB sha =
        (match combinedOfFile cfg.bloomIsOn mb with
          | some (flt, _) => ({ b with index := .mem (indexOf (hdrsOf cfg b.ghost)), filter := flt } : CBlob).toB sha
          | none => b.toB sha) := by
      unfold CBlob.loadIndex
      simp only [hi, hload]
      cases combinedOfFile cfg.bloomIsOn mb with
      | none => rfl
      | some p => rfl
    rw [hR]
    unfold BBlob.loadIndex
    simp only [CBlob.toB, hi, CIndex.toB, hx]
    rw [load_sim sim _ hload, readMeta_sim sim, Option.bind_some]
    cases combinedOfFile cfg.bloomIsOn mb with
    | none => rfl
    | some p => rfl

end Disk

/-! ### operations that do not read an on-disk index -/

theorem indexPush_toB (cfg : Cfg) (sha : List Nat → List Nat) (b : CBlob) (k : Key) (h : RecHeader) :
    (b.toB sha).indexPush cfg k h = (b.indexPush cfg k h).map (CBlob.toB sha) := by
  cases hi : b.index with
  | mem m => simp only [CBlob.toB, hi, CIndex.toB, BBlob.indexPush, CBlob.indexPush, Option.map_some]
  | disk f mb off => simp only [CBlob.toB, hi, CIndex.toB, BBlob.indexPush, CBlob.indexPush, Option.map_none]

theorem writeRec_toB (cfg : Cfg) (sha : List Nat → List Nat) (b : CBlob) (r : Rec) (hm : b.index.onDisk = false) :
    (b.toB sha).writeRec cfg r = (b.writeRec cfg r).toB sha := by
  cases hi : b.index with
  | disk f mb off => rw [hi] at hm; cases hm
  | mem m =>
    simp only [BBlob.writeRec, CBlob.writeRec, CBlob.toB, hi, CIndex.toB, BBlob.indexPush, CBlob.indexPush]

theorem dump_toB (cfg : Cfg) (sha : List Nat → List Nat) (b : CBlob) :
    (b.toB sha).dump cfg sha = (b.dump cfg).toB sha := by
  cases hi : b.index with
  | disk f mb off =>
    have : b.dump cfg = b := by unfold CBlob.dump; rw [hi]
    rw [this]
    simp only [BBlob.dump, CBlob.toB, hi, CIndex.toB]
  | mem m =>
    unfold CBlob.dump BBlob.dump
    simp only [CBlob.toB, hi, CIndex.toB]
    by_cases he : m.isEmpty = true
    · simp only [he, if_true, hi]
    · simp only [he, Bool.false_eq_true, if_false]
      cases serializeFilters cfg.klen b.filter with
      | none => simp only [hi]
      | some p =>
        obtain ⟨metaBuf, off⟩ := p
        simp only []

theorem foldl_indexPush_toB (cfg : Cfg) (sha : List Nat → List Nat) : ∀ (hs : List RecHeader) (b : CBlob),
    hs.foldl (fun b h => (b.indexPush cfg (hdrKey h) h).getD b) (b.toB sha)
      = (hs.foldl (fun b h => (b.indexPush cfg (hdrKey h) h).getD b) b).toB sha
  | [], _ => rfl
  | h :: hs, b => by
    simp only [List.foldl_cons]
    have : ((b.toB sha).indexPush cfg (hdrKey h) h).getD (b.toB sha)
        = ((b.indexPush cfg (hdrKey h) h).getD b).toB sha := by
      rw [indexPush_toB]
      cases b.indexPush cfg (hdrKey h) h <;> rfl
    rw [this]
    exact foldl_indexPush_toB cfg sha hs _

theorem regen_toB (cfg : Cfg) (sha : List Nat → List Nat) (b : CBlob) :
    regenB cfg (b.toB sha) = (regen cfg b).map (CBlob.toB sha) := by
  unfold regenB regen
  have hfile : (b.toB sha).file = b.file := rfl
  rw [hfile]
  cases blobHeaderFromFile b.file with
  | error e => rfl
  | ok _ =>
    simp only []
    split
    · cases rawRecordsLoad cfg.klen cfg.validateData b.file with
      | error e => rfl
      | ok hs =>
        simp only [Option.map_some]
        exact congrArg some (foldl_indexPush_toB cfg sha hs { b with index := .mem [], filter := newFilter cfg })
    · rfl

/-! ### the read path of one blob -/

section Reads
variable {cfg : Cfg} {sha : List Nat → List Nat}

theorem indexLatest_toB (hB : BytesOK cfg sha) {b : CBlob} (hb : BlobInv cfg b) (hs : b.IdxSized) (k : Key) :
    (b.toB sha).indexLatest cfg k = b.indexLatest k := by
  unfold BBlob.indexLatest CBlob.indexLatest
  rw [index_getLatest_toB hB hb hs k]
  rfl

theorem readAllEntriesMarked_toB (hB : BytesOK cfg sha) {b : CBlob} (hb : BlobInv cfg b) (hs : b.IdxSized) (k : Key) :
    (b.toB sha).readAllEntriesMarked cfg k = b.readAllEntriesMarked k := by
  unfold BBlob.readAllEntriesMarked CBlob.readAllEntriesMarked
  rw [index_getAllMarked_toB hB hb hs k]
  rfl

theorem getEntryWithMeta_toB (hB : BytesOK cfg sha) {b : CBlob} (hb : BlobInv cfg b) (hs : b.IdxSized) (k : Key)
    (m : Meta) : (b.toB sha).getEntryWithMeta cfg k m = b.getEntryWithMeta k m := by
  unfold BBlob.getEntryWithMeta CBlob.getEntryWithMeta
  rw [index_getAllMarked_toB hB hb hs k]
  rfl

theorem getLatestEntryM_toB (hB : BytesOK cfg sha) {b : CBlob} (hb : BlobInv cfg b) (hs : b.IdxSized) (k : Key)
    (m : Option Meta) : (b.toB sha).getLatestEntryM cfg k m = b.getLatestEntryM cfg k m := by
  unfold BBlob.getLatestEntryM CBlob.getLatestEntryM
  rw [checkFilter_toB hB hb hs k]
  cases m with
  | none => simp only [indexLatest_toB hB hb hs k]
  | some m => simp only [getEntryWithMeta_toB hB hb hs k m]

theorem deleteM_toB (hB : BytesOK cfg sha) {b : CBlob} (hb : BlobInv cfg b) (hs : b.IdxSized) (k : Key) (ts : Nat)
    (m : Option Meta) (oip : Bool) :
    (b.toB sha).deleteM cfg k ts m oip = ((b.deleteM cfg k ts m oip).1.toB sha, (b.deleteM cfg k ts m oip).2) := by
  unfold BBlob.deleteM CBlob.deleteM
  rw [indexLatest_toB hB hb hs k]
  have key : ∀ present : Bool,
      (if (!oip || present) = true then
          (((b.toB sha).loadIndex cfg).writeRec cfg ⟨k, ts, true, m.getD none, ⟨0, 0⟩⟩, true)
        else (b.toB sha, false))
      = ((if (!oip || present) = true then
          ((b.loadIndex cfg).writeRec cfg ⟨k, ts, true, m.getD none, ⟨0, 0⟩⟩, true)
        else (b, false)).1.toB sha,
        (if (!oip || present) = true then
          ((b.loadIndex cfg).writeRec cfg ⟨k, ts, true, m.getD none, ⟨0, 0⟩⟩, true)
        else (b, false)).2) := by
    intro present
    by_cases hgo : (!oip || present) = true
    · rw [if_pos hgo, if_pos hgo]
      simp only []
      rw [loadIndex_toB hB hb hs, writeRec_toB cfg sha _ _ (loadIndex_inv hB.ok hb).2.2.2.1]
    · rw [if_neg hgo, if_neg hgo]
  cases b.indexLatest k with
  | error e => exact key false
  | ok r => exact key r.isFound

end Reads

end Pearl.E2E
