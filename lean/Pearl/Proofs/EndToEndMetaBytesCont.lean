import Pearl.Model.EndToEndMeta
import Pearl.Proofs.ContainerLemmas
/-
Byte image of the index file, part 4: the arena container does not look into its children.  `mapData g c` replaces
the data of every child by its image under `g`; every container operation commutes with it as soon as the two
`ChildOps` hand out the same filter (`push_mapData`, `extend_mapData`, `pop_mapData`, `iterPossibleStack_mapData`).
(The heterogeneous version of the lemmas of `Pearl/Proofs/EndToEndGhost.lean`.)
-/
namespace Pearl.E2E
open Pearl Pearl.Container

section
variable {C C' : Type} (g : C → C')

theorem getChild_mapData (c : Container Combined C) (j : Nat) :
    (mapData g c).getChild j = (c.getChild j).map (fun lf => { parent := lf.parent, data := g lf.data }) := by
  unfold Container.getChild mapData
  simp only [List.getElem?_map]
  cases c.children[j]? with
  | none => rfl
  | some o => cases o <;> rfl

theorem getInner_mapData (c : Container Combined C) (id : Nat) : (mapData g c).getInner id = c.getInner id := rfl

theorem iterNext_mapData (ops : FilterOps Combined) (c : Container Combined C) (rev : Bool) (k : Key) :
    ∀ (fuel : Nat) (st : List (Nat × Nat)),
      Container.iterNext ops (mapData g c) rev k fuel st = Container.iterNext ops c rev k fuel st
  | 0, _ => rfl
  | fuel + 1, [] => rfl
  | fuel + 1, (index, id) :: rest => by
    simp only [Container.iterNext, getInner_mapData, getChild_mapData, Option.isNone_map,
      iterNext_mapData ops c rev k fuel]
    cases c.getInner id with
    | none => rfl
    | some x =>
      cases x with
      | node n => rfl
      | leaf p j =>
        simp only []
        cases c.getChild j <;> rfl

theorem iterStackCollect_mapData (ops : FilterOps Combined) (c : Container Combined C) (rev : Bool) (k : Key) :
    ∀ (fuel : Nat) (st : List (Nat × Nat)),
      Container.iterStackCollect ops (mapData g c) rev k fuel st = Container.iterStackCollect ops c rev k fuel st
  | 0, _ => rfl
  | fuel + 1, st => by
    simp only [Container.iterStackCollect, iterNext_mapData]
    have : (mapData g c).inner.length = c.inner.length := rfl
    rw [this]
    cases Container.iterNext ops c rev k (4 * (c.inner.length + 2)) st with
    | none => rfl
    | some x => simp only [iterStackCollect_mapData ops c rev k fuel]

theorem iterPossibleStack_mapData (ops : FilterOps Combined) (c : Container Combined C) (rev : Bool) (k : Key) :
    Container.iterPossibleStack ops (mapData g c) rev k = Container.iterPossibleStack ops c rev k := by
  unfold Container.iterPossibleStack
  rw [iterStackCollect_mapData]
  simp [mapData]

theorem mergeUp_mapData (ops : FilterOps Combined) (item : Option Combined) :
    ∀ (fuel : Nat) (c : Container Combined C) (p : Option Nat),
      mergeUp ops item fuel (mapData g c) p = mapData g (mergeUp ops item fuel c p)
  | 0, _, _ => rfl
  | _ + 1, _, none => rfl
  | fuel + 1, c, some id => by
    simp only [mergeUp]
    exact mergeUp_mapData ops item fuel (c.modifyNode id _) _

theorem children_length_mapData (c : Container Combined C) : (mapData g c).children.length = c.children.length := by
  simp [mapData]

theorem addChild_mapData (ops : FilterOps Combined) (cops : ChildOps Combined C) (cops' : ChildOps Combined C')
    (hf : ∀ b, cops'.filterOf (g b) = cops.filterOf b) (c : Container Combined C) (node : Nat) (child : C) :
    addChild ops cops' (mapData g c) node (g child) =
      (mapData g (addChild ops cops c node child).1, (addChild ops cops c node child).2) := by
  rw [addChild_eq, addChild_eq, hf, children_length_mapData]
  have hX : ((mapData g c).appendInner (.leaf node c.children.length)).modifyNode node
        (addUpd ops (cops.filterOf child) (mapData g c).inner.length)
      = mapData g ((c.appendInner (.leaf node c.children.length)).modifyNode node
        (addUpd ops (cops.filterOf child) c.inner.length)) := rfl
  rw [hX]
  have hP : ((mapData g c).appendInner (.leaf node c.children.length)).getNode node
      = (c.appendInner (.leaf node c.children.length)).getNode node := rfl
  rw [hP, mergeUp_mapData]
  simp [mapData, appendChild]

theorem push_mapData (ops : FilterOps Combined) (cops : ChildOps Combined C) (cops' : ChildOps Combined C')
    (hf : ∀ b, cops'.filterOf (g b) = cops.filterOf b) (c : Container Combined C) (child : C) :
    Container.push ops cops' (mapData g c) (g child) =
      (mapData g (Container.push ops cops c child).1, (Container.push ops cops c child).2) := by
  unfold Container.push
  rw [children_length_mapData]
  have hg : (mapData g c).groupSize = c.groupSize := rfl
  have hr : (mapData g c).root = c.root := rfl
  rw [hg, hr]
  by_cases h1 : c.children.length < c.groupSize
  · rw [if_pos h1, if_pos h1, addChild_mapData g ops cops cops' hf]
    simp only []
    rw [children_length_mapData]
    have hg2 : (mapData g (addChild ops cops c c.root child).1).groupSize
        = (addChild ops cops c c.root child).1.groupSize := rfl
    rw [hg2]
    by_cases h2 : (addChild ops cops c c.root child).1.children.length ≥ (addChild ops cops c c.root child).1.groupSize
    · rw [if_pos h2, if_pos h2]
      rfl
    · rw [if_neg h2, if_neg h2]
  · rw [if_neg h1, if_neg h1]
    have hl : (mapData g c).lastInnerNode = c.lastInnerNode := rfl
    rw [hl]
    cases c.lastInnerNode with
    | none => rfl
    | some id =>
      simp only []
      have hn : (mapData g c).getNode id = c.getNode id := rfl
      rw [hn]
      by_cases h3 : ((c.getNode id).getD {}).children.length ≥ c.groupSize
      · rw [if_pos h3, if_pos h3]
        have : (mapData g c).newInnerNode = (mapData g c.newInnerNode.1, c.newInnerNode.2) := rfl
        rw [this]
        exact addChild_mapData g ops cops cops' hf _ _ _
      · rw [if_neg h3, if_neg h3]
        exact addChild_mapData g ops cops cops' hf _ _ _

theorem extend_mapData (ops : FilterOps Combined) (cops : ChildOps Combined C) (cops' : ChildOps Combined C')
    (hf : ∀ b, cops'.filterOf (g b) = cops.filterOf b) : ∀ (xs : List C) (c : Container Combined C),
    Container.extend ops cops' (mapData g c) (xs.map g) = mapData g (Container.extend ops cops c xs)
  | [], _ => rfl
  | x :: xs, c => by
    simp only [Container.extend, List.map_cons, List.foldl_cons]
    rw [push_mapData g ops cops cops' hf]
    exact extend_mapData ops cops cops' hf xs _

theorem lastSomeIdx_map'' {α β : Type} (h : α → β) : ∀ (l : List (Option α)),
    lastSomeIdx (l.map (Option.map h)) = lastSomeIdx l
  | [] => rfl
  | o :: rest => by
    simp only [List.map_cons, lastSomeIdx, lastSomeIdx_map'' h rest]
    cases o <;> rfl

theorem lastId_mapData (c : Container Combined C) : (mapData g c).lastId = c.lastId := by
  unfold Container.lastId mapData
  exact lastSomeIdx_map'' _ _

theorem pop_mapData (c : Container Combined C) :
    (mapData g c).pop = (mapData g c.pop.1, c.pop.2.map g) := by
  unfold Container.pop
  rw [lastId_mapData]
  cases c.lastId with
  | none => rfl
  | some i =>
    simp only []
    unfold Container.remove
    rw [getChild_mapData]
    cases c.getChild i with
    | none => rfl
    | some lf =>
      simp only [Option.map_some]
      congr 1
      simp [mapData, List.map_set]

theorem new_mapData (gs l : Nat) : mapData g (Container.new gs l : Container Combined C) = Container.new gs l := rfl

end

/-! ### in-place access to the children -/

theorem closedBlobsB_mapData (sha : List Nat → List Nat) (c : Container Combined CBlob) :
    closedBlobsB (mapData (CBlob.toB sha) c) = (closedBlobs c).map (CBlob.toB sha) := by
  simp only [closedBlobsB, closedBlobs, mapData, List.filterMap_map, List.map_filterMap]
  congr 1
  funext o
  cases o <;> rfl

/-- updating every child in place commutes with the translation when the two updates commute on the children
    that are there -/
theorem mapChildrenB_mapData (sha : List Nat → List Nat) (c : Container Combined CBlob) (fB : BBlob → BBlob)
    (fC : CBlob → CBlob) (h : ∀ b ∈ closedBlobs c, fB (b.toB sha) = (fC b).toB sha) :
    mapChildrenB (mapData (CBlob.toB sha) c) fB = mapData (CBlob.toB sha) (mapChildren c fC) := by
  simp only [mapChildrenB, mapData, mapChildren, List.map_map]
  congr 1
  apply List.map_congr_left
  intro o ho
  cases o with
  | none => rfl
  | some lf =>
    have : lf.data ∈ closedBlobs c := by
      unfold closedBlobs
      exact List.mem_filterMap.mpr ⟨some lf, ho, rfl⟩
    simp [h lf.data this]

theorem modifyChildB_mapData (sha : List Nat → List Nat) (c : Container Combined CBlob) (i : Nat)
    (fB : BBlob → BBlob) (fC : CBlob → CBlob) (h : ∀ b ∈ closedBlobs c, fB (b.toB sha) = (fC b).toB sha) :
    modifyChildB (mapData (CBlob.toB sha) c) i fB = mapData (CBlob.toB sha) (modifyChild c i fC) := by
  simp only [modifyChildB, mapData, modifyChild]
  congr 1
  apply List.ext_getElem?
  intro j
  simp only [List.getElem?_map, List.getElem?_modify]
  by_cases hij : i = j
  · subst hij
    cases hc : c.children[i]? with
    | none => rfl
    | some o =>
      cases o with
      | none => simp
      | some lf =>
        have : lf.data ∈ closedBlobs c := by
          unfold closedBlobs
          exact List.mem_filterMap.mpr ⟨some lf, List.mem_of_getElem? hc, rfl⟩
        simp [h lf.data this]
  · simp [hij]

end Pearl.E2E
