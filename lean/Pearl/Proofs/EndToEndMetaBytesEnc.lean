import Pearl.Model.EndToEndMeta
import Pearl.Proofs.EndToEndBlob
import Pearl.Proofs.IndexValidateLemmas
import Pearl.Proofs.ToolsLemmas
/-
Byte image of the index file, part 1: encodings.
* the L4 byte serializer (`BPTree.leBytes`, bytes as `Nat`) and the L5 one (`Pearl.leBytes`, bytes as `UInt8`)
  agree: the image of a record header in the index file is `serHeader` of L5 (`rawBytes_eq_serHeader`), so the L5
  deserializer reads it back (`deserHdr_rawBytes`);
* every header a blob pushes into its index is well formed (`hdrsOf_ok`): magic, key length, `u64` ranges;
* big-endian keys and little-endian words read back (`beNat_beBytes`, `leNat_leBytes_lt`).
-/
namespace Pearl.E2E
open Pearl Pearl.BPTree

/-! ### `Nat` bytes and `UInt8` bytes -/

theorem ofNat_mod_256 (n : Nat) : UInt8.ofNat (n % 256) = UInt8.ofNat n := by
  apply UInt8.toNat_inj.mp
  simp only [UInt8.toNat_ofNat']
  omega

theorem leBytes_map_ofNat : ∀ (w n : Nat), (BPTree.leBytes w n).map UInt8.ofNat = Pearl.leBytes w n
  | 0, _ => rfl
  | w + 1, n => by
    simp only [BPTree.leBytes, Pearl.leBytes, List.map_cons, ofNat_mod_256, leBytes_map_ofNat w]

theorem beBytes_map_ofNat (w n : Nat) : (beBytes w n).map UInt8.ofNat = keyBytes w n := by
  unfold beBytes keyBytes
  rw [List.map_reverse, leBytes_map_ofNat]

theorem leBytes_lt : ∀ (w n : Nat), ∀ b ∈ BPTree.leBytes w n, b < 256
  | 0, _, b, hb => by simp [BPTree.leBytes] at hb
  | w + 1, n, b, hb => by
    simp only [BPTree.leBytes, List.mem_cons] at hb
    rcases hb with rfl | hb
    · exact Nat.mod_lt _ (by decide)
    · exact leBytes_lt w _ b hb

/-- big-endian value of the reverse = little-endian value -/
theorem beNat_reverse (l : List Nat) : beNat l.reverse = leNat l := by
  unfold beNat leNat
  rw [List.foldl_reverse]
  congr 1
  funext b acc
  omega

theorem beNat_beBytes (w n : Nat) : beNat (beBytes w n) = n % 256 ^ w := by
  unfold beBytes
  rw [beNat_reverse, leNat_leBytes]

theorem leNat_leBytes_lt {w n : Nat} (h : n < 256 ^ w) : leNat (BPTree.leBytes w n) = n := by
  rw [leNat_leBytes, Nat.mod_eq_of_lt h]

/-! ### the image of one record header -/

/-- a header as `Record::create` + `set_offset_checksum` produce it for `K`-byte keys -/
structure HdrOK (K : Nat) (h : RecHeader) : Prop where
  magic : h.magicByte = RECORD_MAGIC_BYTE
  key : h.key.length = K
  range : h.InRange

theorem keyBytes_hdrKey {K : Nat} {h : RecHeader} (hk : h.key.length = K) : keyBytes K (hdrKey h) = h.key := by
  unfold keyBytes hdrKey
  have : (Pearl.leBytes K (fromLe h.key.reverse)) = h.key.reverse := by
    have := leBytes_fromLe h.key.reverse
    rwa [List.length_reverse, hk] at this
  rw [this, List.reverse_reverse]

/-- the L4 image of a header is its L5 serialisation -/
theorem rawBytes_eq_serHeader {K : Nat} {h : RecHeader} (ok : HdrOK K h) :
    ((toRaw h).bytes K).map UInt8.ofNat = serHeader h := by
  have hmagic : BPTree.magicByte = h.magicByte := by rw [ok.magic]; rfl
  simp only [RawHeader.bytes, toRaw, List.map_append, leBytes_map_ofNat, beBytes_map_ofNat,
    keyBytes_hdrKey ok.key, hmagic]
  simp only [serHeader, serHeaderPre, serVec, le64, le32, ok.key, List.append_assoc]
  congr 5
  simp [Pearl.leBytes]

theorem rawBytes_lt (K : Nat) (h : RawHeader) : ∀ b ∈ h.bytes K, b < 256 := by
  intro b hb
  simp only [RawHeader.bytes, beBytes, List.mem_append, List.mem_reverse, or_assoc] at hb
  rcases hb with hb | hb | hb | hb | hb | hb | hb | hb | hb | hb <;>
    exact leBytes_lt _ _ b hb

/-- `deserialize::<RecordHeader>` of the image of a header (trailing bytes allowed) gives the header back -/
theorem deserHdr_rawBytes {K : Nat} {h : RecHeader} (ok : HdrOK K h) (rest : List Nat) :
    deserHdr ((toRaw h).bytes K ++ rest) = some h := by
  unfold deserHdr
  rw [List.map_append, rawBytes_eq_serHeader ok]
  exact deserHeader_serHeader h _ ok.range

theorem hdrKey_lt {K : Nat} {h : RecHeader} (hk : h.key.length = K) : hdrKey h < 256 ^ K := by
  unfold hdrKey
  have := fromLe_lt h.key.reverse
  rwa [List.length_reverse, hk] at this

/-! ### the headers of a blob are well formed -/

theorem scanOf_ok (klen : Nat) : ∀ (Rs : List Record) (pre : List UInt8) (file : List UInt8),
    file = pre ++ tailOf pre.length Rs → file.length < 2 ^ 64 →
    (∀ R ∈ Rs, R.WF klen ∧ R.header.timestamp < 2 ^ 64) →
    ∀ x ∈ scanOf pre.length Rs, HdrOK klen x.2
  | [], _, _, _, _, _, x, hx => by simp [scanOf] at hx
  | R :: Rs, pre, file, hf, hlen, hall, x, hx => by
    obtain ⟨hwf, hts⟩ := hall R (by simp)
    simp only [tailOf] at hf
    simp only [scanOf, List.mem_cons] at hx
    rcases hx with rfl | hx
    · refine ⟨hwf.magic, hwf.key, ?_⟩
      apply final_inRange hwf _ hts
      have : pre.length + (R.image pre.length).length ≤ file.length := by
        rw [hf]; simp only [List.length_append]; omega
      omega
    · have := scanOf_ok klen Rs (pre ++ R.image pre.length) file
        (by rw [hf, List.length_append, List.append_assoc]) hlen (fun R' hR' => hall R' (by simp [hR']))
      rw [List.length_append] at this
      exact this x hx

/-- every header pushed into the index of a blob (C05: `Record::create`, `set_offset_checksum`) is well formed -/
theorem hdrsOf_ok {cfg : Cfg} {b : CBlob} (hb : BlobInv cfg b) : ∀ h ∈ hdrsOf cfg b.ghost, HdrOK cfg.klen h := by
  intro h hh
  unfold hdrsOf blobHeaders at hh
  rw [writtenHeaders_eq, recordsOf_full] at hh
  obtain ⟨x, hx, rfl⟩ := List.mem_map.mp hh
  have hlen : (blobBytes cfg.klen (full b.ghost)).length < 2 ^ 64 := by rw [← hb.file]; exact hb.size
  refine scanOf_ok cfg.klen (b.ghost.map (recOf cfg.klen)) serBlobHeader (blobBytes cfg.klen (full b.ghost)) ?_ hlen ?_ x hx
  · rw [blobBytes_eq, serBlobHeader_length]
  · intro R hR
    obtain ⟨r, hr, rfl⟩ := List.mem_map.mp hR
    exact ⟨recordOf_WF _ _ _, by rw [show (recOf cfg.klen r).header.timestamp = r.ts from recordOf_timestamp _ _ _]; exact hb.ts r hr⟩

end Pearl.E2E
