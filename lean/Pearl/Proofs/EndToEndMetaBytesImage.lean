import Pearl.Proofs.EndToEndMetaBytesSim
/-
Byte image of the index file, part 3: the image `from_records` writes for a built file is opened by `from_file`,
and the opened index simulates the structured file (`image_sim`).  Ingredients: the layout of `indexFileBytes`
(`indexFileBytes_length`, C09 `bytes_length`), the header / tree-meta parsers of C03b (`readIndexHeader_image`,
`readTreeMeta_image`), `key_offset_serialized` on the bytes of a node (`keyOffset_bytes`), the keys of the nodes
`build_tree` writes are keys of the map (`buildTree_keys`).
-/
namespace Pearl.E2E
open Pearl Pearl.BPTree

/-! ### slices of a concatenation of equally long pieces -/

theorem flatMap_drop_const {α : Type} (g : α → List Nat) (c : Nat) : ∀ (l : List α) (i : Nat),
    (∀ x ∈ l, (g x).length = c) → ∀ h, l[i]? = some h →
    (l.flatMap g).drop (i * c) = g h ++ (l.drop (i + 1)).flatMap g
  | [], i, _, h, hh => by simp at hh
  | a :: l, 0, _, h, hh => by
    simp only [List.getElem?_cons_zero, Option.some.injEq] at hh
    subst hh
    simp
  | a :: l, i + 1, hc, h, hh => by
    simp only [List.getElem?_cons_succ] at hh
    have ha : (g a).length = c := hc a (by simp)
    rw [List.flatMap_cons, Nat.add_mul, Nat.one_mul, Nat.add_comm, List.drop_append,
      List.drop_of_length_le (by omega), List.nil_append]
    have : c + i * c - (g a).length = i * c := by omega
    rw [this, flatMap_drop_const g c l i (fun x hx => hc x (by simp [hx])) h hh]
    simp

theorem flatMap_length_const' {α : Type} (g : α → List Nat) (c : Nat) (l : List α) (h : ∀ x ∈ l, (g x).length = c) :
    (l.flatMap g).length = l.length * c := flatMap_length_const g c l h

/-! ### `key_offset_serialized` on the bytes of a node -/

/-- `key_offset_serialized` on a buffer `meta | keys | offsets ++ rest`, in terms of the three regions -/
theorem keyOffset_parts (K : Nat) (hK : 0 < K) (A B D : List Nat) (len k : Nat) (hA : A.length = 8)
    (hAv : leNat A = len) (hB : B.length = len * K) :
    BIdx.keyOffset K (A ++ (B ++ D)) k =
      if len = 0 then none
      else
        match binSearch (fun i => if (i + 1) * K ≤ len * K then some (beNat ((B.drop (i * K)).take K)) else none)
            len k with
        | none => none
        | some res =>
          let ind := match res with
            | .found pos => pos + 1
            | .notFound pos => pos
          if D.length < ind * 8 + 8 then none else some (leNat ((D.drop (ind * 8)).take 8)) := by
  unfold BIdx.keyOffset
  have hlen : (A ++ (B ++ D)).length = 8 + (len * K + D.length) := by
    simp only [List.length_append, hA, hB]
  rw [hlen, if_neg (by omega), List.take_left' hA, hAv]
  simp only []
  rw [if_neg (by omega), if_neg (by omega)]
  have hkeys : ((A ++ (B ++ D)).take (8 + len * K)).drop 8 = B := by
    rw [List.take_append, List.take_of_length_le (by omega), hA, List.drop_left' hA,
      show 8 + len * K - 8 = len * K from by omega, ← hB, List.take_left' rfl]
  rw [hkeys, hB, Nat.mul_div_cancel _ hK]
  by_cases h0 : len = 0
  · rw [if_pos h0, if_pos h0]
  · rw [if_neg h0, if_neg h0]
    cases binSearch (fun i => if (i + 1) * K ≤ len * K then some (beNat ((B.drop (i * K)).take K)) else none)
        len k with
    | none => rfl
    | some res =>
      have hd : ∀ ind, (A ++ (B ++ D)).drop (8 + len * K + ind * 8) = D.drop (ind * 8) := by
        intro ind
        rw [show 8 + len * K + ind * 8 = 8 + (len * K + ind * 8) from by omega, ← List.drop_drop,
          List.drop_left' hA, ← List.drop_drop, List.drop_left' hB]
      cases res with
      | found pos =>
        simp only []
        rw [hd]
        by_cases hc : D.length < (pos + 1) * 8 + 8
        · rw [if_pos hc, if_pos (by omega)]
        · rw [if_neg hc, if_neg (by omega)]
      | notFound pos =>
        simp only []
        rw [hd]
        by_cases hc : D.length < pos * 8 + 8
        · rw [if_pos hc, if_pos (by omega)]
        · rw [if_neg hc, if_neg (by omega)]

/-- on a buffer that starts with the bytes of `n`, `key_offset_serialized` answers as `Node.keyOffset` -/
theorem keyOffset_bytes (K : Nat) (hK : 0 < K) (n : Node) (rest : List Nat) (k r : Nat)
    (hkeys : ∀ key ∈ n.keys, key < 256 ^ K) (hlen : n.keys.length < 2 ^ 64)
    (h : n.keyOffset k = some r) (hr : r < 2 ^ 64) : BIdx.keyOffset K (n.bytes K ++ rest) k = some r := by
  have hkl : (n.keys.flatMap (beBytes K)).length = n.keys.length * K :=
    flatMap_length_const _ K _ (fun x _ => beBytes_length _ _)
  have hsplit : n.bytes K ++ rest = BPTree.leBytes 8 n.keys.length ++ (n.keys.flatMap (beBytes K) ++
      (n.offsets.flatMap (BPTree.leBytes 8) ++ rest)) := by
    simp [Node.bytes, List.append_assoc]
  rw [hsplit, keyOffset_parts K hK _ _ _ n.keys.length k (BPTree.leBytes_length _ _)
    (leNat_leBytes_lt (by rw [show (256 : Nat) ^ 8 = 2 ^ 64 from by decide]; exact hlen)) hkl]
  unfold Node.keyOffset at h
  split at h
  · cases h
  · rename_i hne
    rw [if_neg hne]
    have hmono : ∀ i v, n.keys[i]? = some v →
        (if (i + 1) * K ≤ n.keys.length * K then
          some (beNat (((n.keys.flatMap (beBytes K)).drop (i * K)).take K)) else none) = some v := by
      intro i v hv
      have hi : i < n.keys.length := (List.getElem?_eq_some_iff.mp hv).1
      rw [if_pos (Nat.mul_le_mul_right _ (by omega)),
        flatMap_drop_const (beBytes K) K n.keys i (fun x _ => beBytes_length _ _) v hv,
        List.take_left' (beBytes_length _ _), beNat_beBytes,
        Nat.mod_eq_of_lt (hkeys v (List.mem_of_getElem? hv))]
    have hoff : ∀ ind, n.offsets[ind]? = some r →
        (if (n.offsets.flatMap (BPTree.leBytes 8) ++ rest).length < ind * 8 + 8 then none
          else some (leNat (((n.offsets.flatMap (BPTree.leBytes 8) ++ rest).drop (ind * 8)).take 8))) = some r := by
      intro ind hind
      have hi : ind < n.offsets.length := (List.getElem?_eq_some_iff.mp hind).1
      have hol : (n.offsets.flatMap (BPTree.leBytes 8)).length = n.offsets.length * 8 :=
        flatMap_length_const _ 8 _ (fun x _ => BPTree.leBytes_length _ _)
      rw [List.length_append, hol, if_neg (by omega), List.drop_append,
        flatMap_drop_const (BPTree.leBytes 8) 8 n.offsets ind (fun x _ => BPTree.leBytes_length _ _) r hind,
        List.append_assoc, List.take_left' (BPTree.leBytes_length _ _),
        leNat_leBytes_lt (by rw [show (256 : Nat) ^ 8 = 2 ^ 64 from by decide]; exact hr)]
    cases hbs : binSearch (fun i => n.keys[i]?) n.keys.length k with
    | none => rw [hbs] at h; cases h
    | some res =>
      rw [hbs] at h
      rw [binSearch_mono _ _ _ _ hmono res hbs]
      simp only []
      cases res with
      | found pos => exact hoff _ h
      | notFound pos => exact hoff _ h

/-! ### locating a node in the bytes -/

theorem nodeAtRel_some (p : Params) : ∀ (ns : List Node) (rel : Nat) (n : Node),
    IndexFile.nodeAtRel p ns rel = some n → ∃ A R, ns = A ++ n :: R ∧ nodesBytes p A = rel
  | [], _, _, h => by simp [IndexFile.nodeAtRel] at h
  | a :: ns, rel, n, h => by
    simp only [IndexFile.nodeAtRel] at h
    split at h
    · rename_i h0
      simp only [Option.some.injEq] at h
      subst h
      exact ⟨[], ns, rfl, by rw [h0]; rfl⟩
    · split at h
      · cases h
      · rename_i h0 h1
        obtain ⟨A, R, hA, hrel⟩ := nodeAtRel_some p ns _ n h
        refine ⟨a :: A, R, by rw [hA]; rfl, ?_⟩
        rw [nodesBytes_cons, hrel]
        omega

/-- the bytes of the node region from the start of a node on -/
theorem nodes_bytes_drop (p : Params) (A : List Node) (n : Node) (R : List Node)
    (hwf : ∀ a ∈ A, a.offsets.length = a.keys.length + 1) :
    ((A ++ n :: R).flatMap (Node.bytes p.K)).drop (nodesBytes p A) = n.bytes p.K ++ R.flatMap (Node.bytes p.K) := by
  rw [List.flatMap_append, List.flatMap_cons, List.drop_left' (nodes_bytes_length p A hwf)]

/-! ### the keys of the nodes are keys of the entries -/

theorem mem_of_mem_portions {α : Type} (mn mx : Nat) (xs : List α) {P : List α} (hP : P ∈ portions mn mx xs)
    {y : α} (hy : y ∈ P) : y ∈ xs := by
  rw [← portions_flatten mn mx xs]
  exact List.mem_flatten.mpr ⟨P, hP, hy⟩

theorem buildTree_keys (p : Params) (hfan : 3 ≤ maxAmount p) (S : Nat → Prop) (to : Nat) :
    ∀ (fuel : Nat) (es : List Entry), (∀ e ∈ es, S e.1) →
      ∀ n ∈ buildTree p fuel es to, ∀ key ∈ n.keys, S key := by
  intro fuel
  induction fuel with
  | zero => intro es _ n hn; simp [buildTree] at hn
  | succ fuel ih =>
    intro es hes n hn key hkey
    by_cases hsmall : es.length ≤ 1
    · rw [buildTree_small _ _ _ _ hsmall] at hn; simp at hn
    · rw [buildTree_succ p fuel es to (by omega)] at hn
      rcases List.mem_append.1 hn with hn | hn
      · refine ih _ ?_ n hn key hkey
        intro e he
        have hk : e.1 ∈ (collectNext p (portions (minAmount p) (maxAmount p) es) 0).1.map (·.1) :=
          List.mem_map.mpr ⟨e, he, rfl⟩
        rw [collectNext_keys] at hk
        obtain ⟨P, hP, hPe⟩ := List.mem_map.mp hk
        have hsz := (portions_sizes p hfan es (by omega) P hP).1
        cases P with
        | nil => simp at hsz
        | cons x xs =>
          simp only [List.headD_cons] at hPe
          rw [← hPe]
          exact hes x (mem_of_mem_portions _ _ es hP (by simp))
      · obtain ⟨P, hP, rfl⟩ := List.mem_map.1 hn
        simp only [mkNode, List.mem_map] at hkey
        obtain ⟨e, he, rfl⟩ := hkey
        exact hes e (mem_of_mem_portions _ _ es hP (List.mem_of_mem_tail he))

/-- every key of every node of a built file is a key of the map -/
theorem build_node_keys (p : Params) (hv : p.Valid) (metaLen : Nat) (m : InMem RecHeader) :
    ∀ n ∈ (build p metaLen m).nodes, ∀ key ∈ n.keys, ∃ kv ∈ m, kv.1 = key := by
  intro n hn key hkey
  refine buildTree_keys p hv.fan (fun key => ∃ kv ∈ m, kv.1 = key) _ _ (leafTable p m) ?_ n hn key hkey
  intro e he
  obtain ⟨m1, k, v, m2, hm, rfl⟩ := leafTable_boundary p hv.rhs_le m e he
  exact ⟨(k, v), by rw [hm]; simp, rfl⟩

/-! ### reading record headers and nodes from a byte string with the layout of an index file -/

theorem leaf_read (K : Nat) (F : IndexFile RecHeader) (img pre : List Nat)
    (h1 : img = pre ++ (F.leaves.map toRaw).flatMap (RawHeader.bytes K)) (h2 : pre.length = F.leavesStart)
    (hrhs : F.p.rhs = 57 + K) (hok : ∀ h ∈ F.leaves, HdrOK K h) :
    ∀ i h, F.leaves[i]? = some h → ∀ n, F.p.rhs ≤ n →
      deserHdr ((img.drop (F.leavesStart + i * F.p.rhs)).take n) = some h := by
  intro i h hi n hn
  have hi' : (F.leaves.map toRaw)[i]? = some (toRaw h) := by rw [List.getElem?_map, hi]; rfl
  rw [h1, ← h2, ← List.drop_drop, List.drop_left' rfl, hrhs,
    flatMap_drop_const (RawHeader.bytes K) (57 + K) _ i (fun x _ => RawHeader.bytes_length K x) _ hi',
    List.take_append, List.take_of_length_le (by rw [RawHeader.bytes_length]; omega)]
  exact deserHdr_rawBytes (hok h (List.mem_of_getElem? hi)) _

theorem take_prefix (a t : List Nat) (n : Nat) (h : a.length ≤ n) : (a ++ t).take n = a ++ t.take (n - a.length) := by
  rw [List.take_append, List.take_of_length_le h]

theorem node_read (K : Nat) (F : IndexFile RecHeader) (hK0 : 0 < K ∨ F.nodes = []) (img pre tail root : List Nat)
    (h1 : img = pre ++ (F.nodes.flatMap (Node.bytes K) ++ tail)) (h2 : pre.length = F.treeOffset)
    (hts : F.treeStart = F.treeOffset) (hpK : F.p.K = K) (hpB : F.p.B = 4096)
    (hlen : img.length = F.fileSize)
    (hwf : ∀ n ∈ F.nodes, n.offsets.length = n.keys.length + 1)
    (hkeys : ∀ n ∈ F.nodes, ∀ key ∈ n.keys, key < 256 ^ K)
    (hroot : root = (img.drop F.treeOffset).take (min (img.length - F.treeOffset) 4096)
      ++ List.replicate (4096 - min (img.length - F.treeOffset) 4096) 0) :
    ∀ off n, F.readNode off = some n →
      ∃ buf, (if off = F.treeOffset then some root else BPTree.readExactAt img off 4096) = some buf ∧
        ∀ k r, n.keyOffset k = some r → r < 2 ^ 64 → BIdx.keyOffset K buf k = some r := by
  intro off n hn
  unfold IndexFile.readNode at hn
  split at hn
  · cases hn
  · rename_i hge
    split at hn
    · cases hn
    · rename_i hfit
      cases hat : IndexFile.nodeAtRel F.p F.nodes (off - F.treeStart) with
      | none => rw [hat] at hn; cases hn
      | some n' =>
        rw [hat] at hn
        simp only [] at hn
        split at hn
        · rename_i hsz
          simp only [Option.some.injEq] at hn
          subst hn
          obtain ⟨A, R, hAR, hrel⟩ := nodeAtRel_some F.p F.nodes _ n' hat
          have hmemn : n' ∈ F.nodes := by rw [hAR]; simp
          have hK0 : 0 < K := by
            rcases hK0 with h | h
            · exact h
            · rw [h] at hmemn; cases hmemn
          have hAwf : ∀ a ∈ A, a.offsets.length = a.keys.length + 1 :=
            fun a ha => hwf a (by rw [hAR]; simp [ha])
          have hnb : (n'.bytes K).length = n'.size F.p := by
            have := Node.bytes_length F.p n' (hwf n' hmemn)
            rwa [hpK] at this
          have hoff : off = F.treeOffset + nodesBytes F.p A := by rw [hts] at hge hrel; omega
          -- the bytes from `off` on start with the bytes of the node
          have hdrop : img.drop off = n'.bytes K ++ (R.flatMap (Node.bytes K) ++ tail) := by
            have hAB : (A.flatMap (Node.bytes K)).length = nodesBytes F.p A := by
              have := nodes_bytes_length F.p A hAwf
              rwa [hpK] at this
            rw [hoff, h1, ← h2, ← List.drop_drop, List.drop_left' rfl, hAR, List.flatMap_append, List.flatMap_cons,
              List.append_assoc, List.drop_left' hAB, List.append_assoc]
          have hkl : n'.keys.length < 2 ^ 64 := by
            have : n'.size F.p ≤ 4096 := by rw [← hpB]; exact hsz
            simp only [Node.size, nodeSize, nodeMetaSize, offsetSize] at this
            omega
          have hdl : (img.drop off).length = img.length - off := List.length_drop
          have hnle : n'.size F.p ≤ img.length - off := by
            rw [← hdl, hdrop, List.length_append, hnb]; omega
          have hB : n'.size F.p ≤ 4096 := by rw [← hpB]; exact hsz
          by_cases hroot' : off = F.treeOffset
          · rw [if_pos hroot']
            refine ⟨root, rfl, ?_⟩
            intro k r hk hr
            rw [hroot, ← hroot', hdrop, take_prefix _ _ _ (by rw [hnb]; omega), List.append_assoc]
            exact keyOffset_bytes K hK0 n' _ k r (hkeys n' hmemn) hkl hk hr
          · rw [if_neg hroot']
            have hfit' : off + 4096 ≤ img.length := by
              have : ¬ F.fileSize < off + F.p.B := fun hc => hfit ⟨hroot', hc⟩
              rw [hlen, ← hpB]; omega
            refine ⟨_, readExactAt_eq _ _ _ hfit', ?_⟩
            intro k r hk hr
            rw [hdrop, take_prefix _ _ _ (by rw [hnb]; omega)]
            exact keyOffset_bytes K hK0 n' _ k r (hkeys n' hmemn) hkl hk hr
        · cases hn

/-! ### the image of a built file -/

section Image
variable (K : Nat) (metaBuf : List Nat) (m : InMem RecHeader)

/-- the structured file a dump builds -/
abbrev builtFile : IndexFile RecHeader := build (Params.real K) metaBuf.length m

theorem rawFile_fileSize (f : IndexFile RecHeader) : (rawFile f).fileSize = f.fileSize := by
  simp [rawFile, IndexFile.fileSize, IndexFile.leavesStart, IndexFile.treeStart]

theorem builtFile_nodes_wf (hK : K ≤ 2032) :
    ∀ n ∈ (builtFile K metaBuf m).nodes, n.offsets.length = n.keys.length + 1 :=
  buildTree_nodes_wf _ (valid_real K hK).fan _ _ _

theorem rawFile_bytes_length (hK : K ≤ 2032) (hash : List Nat) (hhash : hash.length = 32) (blobSize : Nat) :
    (indexFileBytes (rawFile (builtFile K metaBuf m)) metaBuf hash blobSize).length = (builtFile K metaBuf m).fileSize ∧
    (indexHeaderBytes (rawFile (builtFile K metaBuf m)) hash true blobSize ++ metaBuf
      ++ treeMetaBytes (rawFile (builtFile K metaBuf m))).length = (builtFile K metaBuf m).treeOffset ∧
    (indexHeaderBytes (rawFile (builtFile K metaBuf m)) hash true blobSize ++ metaBuf
      ++ treeMetaBytes (rawFile (builtFile K metaBuf m))
      ++ (builtFile K metaBuf m).nodes.flatMap (Node.bytes K)).length = (builtFile K metaBuf m).leavesStart := by
  have := indexFileBytes_length (rawFile (builtFile K metaBuf m)) metaBuf hash blobSize
    (builtFile_nodes_wf K metaBuf m hK) rfl rfl hhash
  rw [rawFile_fileSize] at this
  exact this

theorem rawFile_imageOK (hK : K ≤ 2032) (hash : List Nat) (hhash : hash.length = 32)
    (hsize : (builtFile K metaBuf m).fileSize < 2 ^ 64) :
    ImageOK (rawFile (builtFile K metaBuf m)) metaBuf hash := by
  have hlen := (rawFile_bytes_length K metaBuf m hK hash hhash 0).1
  rw [indexFileBytes_eq_V, List.length_append, indexHeaderBytesV_length _ _ _ _ hhash] at hlen
  have hrc : (builtFile K metaBuf m).recordsCount = (leafArray m).length := build_recordsCount _ _ _
  have hfs : (builtFile K metaBuf m).fileSize
      = (builtFile K metaBuf m).leavesOffset + (leafArray m).length * (57 + K) := rfl
  have hle : (leafArray m).length ≤ (leafArray m).length * (57 + K) := Nat.le_mul_of_pos_right _ (by omega)
  refine ⟨hhash, rfl, ?_, ?_, ?_, ?_, ?_, ?_⟩
  · show K < 256 ^ 2
    rw [pow_256_2]; omega
  · show (builtFile K metaBuf m).recordsCount < 256 ^ 8
    rw [hrc, pow_256_8]; omega
  · show 57 + K < 256 ^ 8
    rw [pow_256_8]; omega
  · show (builtFile K metaBuf m).treeOffset ≤ (builtFile K metaBuf m).leavesOffset
    rw [build_leavesOffset']; exact Nat.le_add_right _ _
  · show (builtFile K metaBuf m).recordsCount * (57 + K) + (builtFile K metaBuf m).leavesOffset = _
    rw [hlen, hfs, hrc]
    omega
  · rw [hlen, pow_256_8]; omega

/-- a key length of zero bytes leaves room for one key only: one leaf, no inner node (so `binary_search_serialized`,
    which divides by `K::LEN`, is never reached) -/
theorem nodes_of_klen_zero (hwf : WF m) (hkeys : ∀ kv ∈ m, kv.1 < 256 ^ K) :
    0 < K ∨ (builtFile K metaBuf m).nodes = [] := by
  by_cases hK0 : 0 < K
  · exact Or.inl hK0
  · right
    have hK : K = 0 := by omega
    subst hK
    have hk0 : ∀ kv ∈ m, kv.1 = 0 := by
      intro kv hkv
      have := hkeys kv hkv
      simp only [Nat.pow_zero] at this
      omega
    apply buildTree_small
    cases m with
    | nil => simp [leafTable]
    | cons kv rest =>
      obtain ⟨k0, v0⟩ := kv
      cases rest with
      | nil =>
        rw [leafTable_cons (Params.real 0) (by decide)]
        simp [packLeaves]
      | cons kv' rest' =>
        exfalso
        have h1 := hk0 (k0, v0) (by simp)
        have h2 := hk0 kv' (by simp)
        have hs := hwf.sorted
        rw [List.pairwise_cons] at hs
        have := hs.1 kv' (by simp)
        simp only at h1
        omega

/-- the opened image: what `from_file` returns on the image of a built file -/
def openedImage (hash : List Nat) (blobSize : Nat) : BIdx :=
  let F := builtFile K metaBuf m
  let img := indexFileBytes (rawFile F) metaBuf hash blobSize
  { file := img
    header := headerV (rawFile F) hash 13 blobSize
    metadata := ⟨F.leavesOffset, F.treeOffset⟩
    root := (img.drop F.treeOffset).take (min (img.length - F.treeOffset) 4096)
      ++ List.replicate (4096 - min (img.length - F.treeOffset) 4096) 0 }

theorem fromFile_image (hK : K ≤ 2032) (hash : List Nat) (hhash : hash.length = 32) (blobSize : Nat)
    (hsize : (builtFile K metaBuf m).fileSize < 2 ^ 64) :
    BIdx.fromFile (indexFileBytes (rawFile (builtFile K metaBuf m)) metaBuf hash blobSize)
      = some (openedImage K metaBuf m hash blobSize) := by
  have ok := rawFile_imageOK K metaBuf m hK hash hhash hsize
  obtain ⟨hL1, hL2, hL3⟩ := rawFile_bytes_length K metaBuf m hK hash hhash blobSize
  have hV := indexFileBytes_eq_V (rawFile (builtFile K metaBuf m)) metaBuf hash blobSize
  have hrih : readIndexHeader (indexFileBytes (rawFile (builtFile K metaBuf m)) metaBuf hash blobSize)
      = some (headerV (rawFile (builtFile K metaBuf m)) hash 13 blobSize) := by
    rw [hV]; exact readIndexHeader_image _ metaBuf hash ok 13 blobSize _
  have hrtm : readTreeMeta (indexFileBytes (rawFile (builtFile K metaBuf m)) metaBuf hash blobSize)
      (headerV (rawFile (builtFile K metaBuf m)) hash 13 blobSize)
      = some ⟨(builtFile K metaBuf m).leavesOffset, (builtFile K metaBuf m).treeOffset⟩ := by
    rw [hV]; exact readTreeMeta_image _ metaBuf hash ok 13 blobSize
  have hbody : 83 + (indexBodyBytes (rawFile (builtFile K metaBuf m)) metaBuf).length
      = (builtFile K metaBuf m).fileSize := by
    rw [← hL1, hV, List.length_append, indexHeaderBytesV_length _ _ _ _ hhash]
  have h1 : (builtFile K metaBuf m).recordsCount * (57 + K) + (builtFile K metaBuf m).leavesOffset
      = 83 + (indexBodyBytes (rawFile (builtFile K metaBuf m)) metaBuf).length := ok.fsize
  have h3 : (builtFile K metaBuf m).treeOffset ≤ (builtFile K metaBuf m).leavesOffset := ok.tree
  have hcfs : checkFileSize (headerV (rawFile (builtFile K metaBuf m)) hash 13 blobSize)
      ⟨(builtFile K metaBuf m).leavesOffset, (builtFile K metaBuf m).treeOffset⟩
      (indexFileBytes (rawFile (builtFile K metaBuf m)) metaBuf hash blobSize).length = true := by
    rw [hL1]
    simp only [checkFileSize, headerV, u64Bound, Bool.and_eq_true, decide_eq_true_eq, beq_iff_eq]
    refine ⟨⟨⟨h3, ?_⟩, ?_⟩, ?_⟩
    · apply decide_eq_true
      show (builtFile K metaBuf m).recordsCount * (57 + K) < 2 ^ 64
      omega
    · apply decide_eq_true
      show (builtFile K metaBuf m).recordsCount * (57 + K) + (builtFile K metaBuf m).leavesOffset < 2 ^ 64
      omega
    · show (builtFile K metaBuf m).recordsCount * (57 + K) + (builtFile K metaBuf m).leavesOffset = _
      omega
  have htole : (builtFile K metaBuf m).treeOffset
      ≤ (indexFileBytes (rawFile (builtFile K metaBuf m)) metaBuf hash blobSize).length := by
    rw [hL1]; omega
  unfold BIdx.fromFile
  rw [hrih]
  simp only []
  rw [hrtm]
  simp only []
  rw [hcfs]
  simp only [Bool.not_true, Bool.false_eq_true, if_false]
  unfold readRoot
  simp only []
  rw [if_neg (by omega), readExactAt_eq _ _ _ (by omega)]
  rfl

/-- **the opened image simulates the structured file** -/
theorem image_sim (hK : K ≤ 2032) (hwf : WF m) (hash : List Nat) (hhash : hash.length = 32)
    (blobSize : Nat) (hblob : blobSize < 2 ^ 64)
    (hkeys : ∀ kv ∈ m, kv.1 < 256 ^ K) (hok : ∀ h ∈ leafArray m, HdrOK K h)
    (hsize : (builtFile K metaBuf m).fileSize < 2 ^ 64) :
    Sim K blobSize metaBuf (builtFile K metaBuf m) (openedImage K metaBuf m hash blobSize) := by
  have hv := valid_real K hK
  obtain ⟨hL1, hL2, hL3⟩ := rawFile_bytes_length K metaBuf m hK hash hhash blobSize
  have hlo' : (builtFile K metaBuf m).leavesOffset
      = (builtFile K metaBuf m).treeOffset + nodesBytes (Params.real K) (builtFile K metaBuf m).nodes :=
    build_leavesOffset' _ _ _
  have hfsz : (builtFile K metaBuf m).fileSize
      = (builtFile K metaBuf m).leavesOffset + (builtFile K metaBuf m).leaves.length * (57 + K) := rfl
  have hsplit : indexFileBytes (rawFile (builtFile K metaBuf m)) metaBuf hash blobSize
      = (indexHeaderBytes (rawFile (builtFile K metaBuf m)) hash true blobSize ++ metaBuf
          ++ treeMetaBytes (rawFile (builtFile K metaBuf m)))
        ++ ((builtFile K metaBuf m).nodes.flatMap (Node.bytes K)
          ++ ((builtFile K metaBuf m).leaves.map toRaw).flatMap (RawHeader.bytes K)) := by
    rw [indexFileBytes, List.append_assoc]
    rfl
  have hsplit2 : indexFileBytes (rawFile (builtFile K metaBuf m)) metaBuf hash blobSize
      = (indexHeaderBytes (rawFile (builtFile K metaBuf m)) hash true blobSize ++ metaBuf
          ++ treeMetaBytes (rawFile (builtFile K metaBuf m))
          ++ (builtFile K metaBuf m).nodes.flatMap (Node.bytes K))
        ++ ((builtFile K metaBuf m).leaves.map toRaw).flatMap (RawHeader.bytes K) := by
    rw [hsplit, ← List.append_assoc]
  have hhb : (indexHeaderBytes (rawFile (builtFile K metaBuf m)) hash true blobSize).length = 83 := by
    rw [indexHeaderBytes_eq_V]; exact indexHeaderBytesV_length _ _ _ _ hhash
  have hsplit3 : indexFileBytes (rawFile (builtFile K metaBuf m)) metaBuf hash blobSize
      = indexHeaderBytes (rawFile (builtFile K metaBuf m)) hash true blobSize ++ (metaBuf
          ++ (treeMetaBytes (rawFile (builtFile K metaBuf m)) ++ ((builtFile K metaBuf m).nodes.flatMap (Node.bytes K)
          ++ ((builtFile K metaBuf m).leaves.map toRaw).flatMap (RawHeader.bytes K)))) := by
    rw [hsplit]; simp only [List.append_assoc]
  refine
    { rhs := rfl, B := rfl, rc := rfl, to := rfl, lo := rfl, size := hL1, bound := hsize,
      toLe := by rw [hfsz, hlo']; omega,
      leaf := ?_, node := ?_, valid := ?_, ss := ?_, ms := rfl, mlen := ?_, mb := ?_ }
  · exact leaf_read K (builtFile K metaBuf m) _ _ hsplit2 hL3 rfl hok
  · exact node_read K (builtFile K metaBuf m) (nodes_of_klen_zero K metaBuf m hwf hkeys) _ _ _ _ hsplit hL2 rfl rfl rfl hL1
      (builtFile_nodes_wf K metaBuf m hK)
      (fun n hn key hkey => by
        obtain ⟨kv, hkv, rfl⟩ := build_node_keys (Params.real K) hv metaBuf.length m n hn key hkey
        exact hkeys kv hkv)
      rfl
  · show validateHeader K blobSize (headerV (rawFile (builtFile K metaBuf m)) hash 13 blobSize) = true
    simp only [validateHeader, headerV, IndexHeaderV.isWritten, IndexHeaderV.version, indexHeaderVersion,
      Bool.and_eq_true, beq_iff_eq]
    exact ⟨⟨⟨⟨trivial, trivial⟩, rfl⟩, Nat.mod_eq_of_lt (by rw [pow_256_8]; omega)⟩, trivial⟩
  · show 51 + hash.length = 83
    omega
  · show 83 + metaBuf.length ≤ (indexFileBytes (rawFile (builtFile K metaBuf m)) metaBuf hash blobSize).length
    rw [hsplit3]
    simp only [List.length_append, hhb]
    omega
  · show ((indexFileBytes (rawFile (builtFile K metaBuf m)) metaBuf hash blobSize).drop 83).take metaBuf.length = metaBuf
    rw [hsplit3, List.drop_left' hhb, List.take_left' rfl]

end Image

end Pearl.E2E
