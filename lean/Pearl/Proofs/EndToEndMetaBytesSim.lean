import Pearl.Proofs.EndToEndMetaBytesEnc
/-
Byte image of the index file, part 2: simulation.  `Sim K blobSize metaBuf f x` collects the layout facts that tie
a structured index file `f` (L4) to an opened byte-level index `x` (`BIdx`): same header fields, every record header
of `f` is read back from the bytes at its offset by the L5 deserializer, every node of `f` answers
`key_offset_serialized` on the bytes as `Node.keyOffset` does, the filter section is `metaBuf`.

Under `Sim`, whenever a structured look-up returns normally (`some r`), the byte-level look-up returns the same
(`getLatest_sim`, `findByKey_sim`, `load_sim`, `readMeta_sim`, `readMetaAt_sim`).  The structured look-ups return
normally on every file `build` produces (C09), so nothing about the paths taken has to be proved again.
-/
namespace Pearl.E2E
open Pearl Pearl.BPTree

/-! ### slices -/

theorem readExactAt_eq (file : List Nat) (off len : Nat) (h : off + len ≤ file.length) :
    BPTree.readExactAt file off len = some ((file.drop off).take len) := by
  unfold BPTree.readExactAt; rw [if_pos h]

theorem slice_slice (l : List Nat) (a n b c : Nat) (h : b + c ≤ n) :
    (((l.drop a).take n).drop b).take c = (l.drop (a + b)).take c := by
  rw [List.drop_take, List.drop_drop, List.take_take, Nat.min_eq_left (by omega)]

theorem slice_length (l : List Nat) (a n : Nat) (h : a + n ≤ l.length) : ((l.drop a).take n).length = n := by
  rw [List.length_take, List.length_drop]; omega

/-! ### the relation -/

structure Sim (K blobSize : Nat) (metaBuf : List Nat) (f : IndexFile RecHeader) (x : BIdx) : Prop where
  rhs : x.rhs = f.p.rhs
  B : f.p.B = 4096
  rc : x.header.recordsCount = f.recordsCount
  to : x.metadata.treeOffset = f.treeOffset
  lo : x.metadata.leavesOffset = f.leavesOffset
  size : x.file.length = f.fileSize
  bound : f.fileSize < 2 ^ 64
  toLe : f.treeOffset ≤ f.fileSize
  /-- every record header is read back from the bytes at its offset (trailing bytes allowed) -/
  leaf : ∀ i h, f.leaves[i]? = some h → ∀ n, f.p.rhs ≤ n →
    deserHdr ((x.file.drop (f.leavesStart + i * f.p.rhs)).take n) = some h
  /-- every node answers on the bytes as in the structured file -/
  node : ∀ off n, f.readNode off = some n →
    ∃ buf, (if off = f.treeOffset then some x.root else BPTree.readExactAt x.file off 4096) = some buf ∧
      ∀ k r, n.keyOffset k = some r → r < 2 ^ 64 → BIdx.keyOffset K buf k = some r
  valid : validateHeader K blobSize x.header = true
  ss : x.header.serializedSize = 83
  ms : x.header.metaSize = metaBuf.length
  mlen : 83 + metaBuf.length ≤ x.file.length
  mb : (x.file.drop 83).take metaBuf.length = metaBuf

variable {K blobSize : Nat} {metaBuf : List Nat} {f : IndexFile RecHeader} {x : BIdx}

/-- a header the structured file holds at `abs` is what the L5 deserializer reads from the bytes at `abs` -/
theorem Sim.hdrAt (sim : Sim K blobSize metaBuf f x) {abs : Nat} {h : RecHeader} (hh : f.hdrAt abs = some h) :
    abs + f.p.rhs ≤ x.file.length ∧ ∀ n, f.p.rhs ≤ n → deserHdr ((x.file.drop abs).take n) = some h := by
  unfold IndexFile.hdrAt at hh
  split at hh
  · cases hh
  · split at hh
    · cases hh
    · rename_i h1 h2
      have h2' : (abs - f.leavesStart) % f.p.rhs = 0 := Classical.not_not.mp h2
      have habs : abs = f.leavesStart + (abs - f.leavesStart) / f.p.rhs * f.p.rhs := by
        have := Nat.div_add_mod (abs - f.leavesStart) f.p.rhs
        rw [h2', Nat.add_zero, Nat.mul_comm] at this
        omega
      have hlt : (abs - f.leavesStart) / f.p.rhs < f.leaves.length := by
        have := List.getElem?_eq_some_iff.mp hh
        exact this.1
      refine ⟨?_, ?_⟩
      · rw [sim.size, IndexFile.fileSize_eq]
        have : ((abs - f.leavesStart) / f.p.rhs + 1) * f.p.rhs ≤ f.leaves.length * f.p.rhs :=
          Nat.mul_le_mul_right _ hlt
        rw [Nat.add_mul, Nat.one_mul] at this
        omega
      · intro n hn
        have := sim.leaf _ h hh n hn
        rwa [← habs] at this

/-! ### the binary search only reads keys -/

theorem binSearchAux_mono (keyAt keyAt' : Nat → Option Nat) (k : Nat)
    (hk : ∀ i v, keyAt i = some v → keyAt' i = some v) :
    ∀ (fuel : Nat) (l r : Int) (res : BS), binSearchAux keyAt k fuel l r = some res →
      binSearchAux keyAt' k fuel l r = some res := by
  intro fuel
  induction fuel with
  | zero => intro l r res h; simp [binSearchAux] at h
  | succ fuel ih =>
    intro l r res h
    unfold binSearchAux at h ⊢
    split at h
    · rename_i hle
      rw [if_pos hle]
      simp only [] at h ⊢
      cases hkm : keyAt ((l + r) / 2).toNat with
      | none => rw [hkm] at h; cases h
      | some km =>
        rw [hkm] at h
        rw [hk _ _ hkm]
        simp only [] at h ⊢
        split at h
        · rename_i h1; rw [if_pos h1]; exact ih _ _ _ h
        · rename_i h1
          rw [if_neg h1]
          split at h
          · rename_i h2; rw [if_pos h2]; exact ih _ _ _ h
          · rename_i h2; rw [if_neg h2]; exact h
    · rename_i hle
      rw [if_neg hle]; exact h

theorem binSearch_mono (keyAt keyAt' : Nat → Option Nat) (n k : Nat)
    (hk : ∀ i v, keyAt i = some v → keyAt' i = some v) (res : BS) (h : binSearch keyAt n k = some res) :
    binSearch keyAt' n k = some res :=
  binSearchAux_mono keyAt keyAt' k hk _ _ _ res h

/-! ### the descent -/

theorem readNode_le {off : Nat} {n : Node} (h : f.readNode off = some n) (hto : f.treeOffset ≤ f.fileSize) :
    off ≤ f.fileSize := by
  unfold IndexFile.readNode at h
  split at h
  · cases h
  · split at h
    · cases h
    · rename_i h1 h2
      by_cases he : off = f.treeOffset
      · rw [he]; exact hto
      · have : ¬ f.fileSize < off + f.p.B := fun hc => h2 ⟨he, hc⟩
        omega

/-- the offset a successful descent starts from lies inside the file -/
theorem findLeafNodeAux_start_le (k : Nat) (hto : f.treeOffset ≤ f.fileSize) :
    ∀ (fuel off leaf : Nat), f.findLeafNodeAux k fuel off = some leaf → leaf ≤ f.fileSize → off ≤ f.fileSize
  | 0, _, _, h, _ => by simp [IndexFile.findLeafNodeAux] at h
  | fuel + 1, off, leaf, h, hl => by
    unfold IndexFile.findLeafNodeAux at h
    split at h
    · cases hn : f.readNode off with
      | none => rw [hn] at h; cases h
      | some n => exact readNode_le hn hto
    · simp only [Option.some.injEq] at h
      omega

theorem findLeafNodeAux_sim (sim : Sim K blobSize metaBuf f x) (k : Nat) :
    ∀ (fuel fuel' off leaf : Nat), fuel ≤ fuel' → f.findLeafNodeAux k fuel off = some leaf →
      leaf ≤ f.fileSize → BIdx.findLeafNodeAux K x k fuel' off = some leaf
  | 0, _, _, _, _, h, _ => by simp [IndexFile.findLeafNodeAux] at h
  | fuel + 1, 0, _, _, hle, _, _ => by omega
  | fuel + 1, fuel' + 1, off, leaf, hle, h, hl => by
    unfold IndexFile.findLeafNodeAux at h
    unfold BIdx.findLeafNodeAux
    rw [sim.lo, sim.to]
    split at h
    · rename_i hlt
      rw [if_pos hlt]
      cases hn : f.readNode off with
      | none => rw [hn] at h; cases h
      | some n =>
        rw [hn] at h
        simp only [] at h
        cases hko : n.keyOffset k with
        | none => rw [hko] at h; cases h
        | some off' =>
          rw [hko] at h
          simp only [] at h
          obtain ⟨buf, hbuf, hkey⟩ := sim.node off n hn
          have hoff' : off' ≤ f.fileSize := findLeafNodeAux_start_le k sim.toLe fuel off' leaf h hl
          rw [hbuf]
          simp only []
          rw [hkey k off' hko (by have := sim.bound; omega)]
          simp only []
          exact findLeafNodeAux_sim sim k fuel fuel' off' leaf (by omega) h hl
    · rename_i hlt
      rw [if_neg hlt]
      exact h

theorem nodes_length_le (f : IndexFile RecHeader) : f.nodes.length ≤ f.fileSize := by
  have : ∀ ns : List Node, ns.length ≤ nodesBytes f.p ns := by
    intro ns
    induction ns with
    | nil => simp [nodesBytes]
    | cons n ns ih =>
      rw [nodesBytes_cons]
      have := nodeSize_pos f.p n.keys.length
      simp only [List.length_cons, Node.size]
      omega
  have := this f.nodes
  unfold IndexFile.fileSize IndexFile.leavesStart
  omega

theorem findLeafNode_sim (sim : Sim K blobSize metaBuf f x) (k leaf : Nat)
    (h : f.findLeafNode k = some leaf) (hl : leaf ≤ f.fileSize) : BIdx.findLeafNode K x k = some leaf := by
  unfold IndexFile.findLeafNode at h
  unfold BIdx.findLeafNode
  rw [sim.to]
  exact findLeafNodeAux_sim sim k _ _ _ leaf (by rw [sim.size]; have := nodes_length_le f; omega) h hl

/-! ### reading inside a leaf window -/

/-- the window `read_exact_at(leaf_offset, len)` returns -/
def windowOf (x : BIdx) (leafOff len : Nat) : List Nat := (x.file.drop leafOff).take len

theorem bufRead_sim (sim : Sim K blobSize metaBuf f x) (leafOff len off : Nat) (h : RecHeader)
    (hwin : leafOff + len ≤ x.file.length) (hh : f.bufRead leafOff len off = some h) :
    x.bufRead (windowOf x leafOff len) off = some h := by
  unfold IndexFile.bufRead at hh
  split at hh
  · rename_i hle
    unfold BIdx.bufRead windowOf
    rw [sim.rhs, slice_length _ _ _ hwin, if_pos hle, slice_slice _ _ _ _ _ hle]
    exact (sim.hdrAt hh).2 _ (Nat.le_refl _)
  · cases hh

theorem readHeaderBuf_sim (sim : Sim K blobSize metaBuf f x) (leafOff len k : Nat)
    (hwin : leafOff + len ≤ x.file.length) (r : Option (RecHeader × Nat))
    (h : f.readHeaderBuf leafOff len k = some r) : x.readHeaderBuf (windowOf x leafOff len) k = some r := by
  unfold IndexFile.readHeaderBuf at h
  unfold BIdx.readHeaderBuf
  rw [sim.rhs]
  split at h
  · cases h
  · rename_i hr
    rw [if_neg hr]
    have hlen : (windowOf x leafOff len).length = len := slice_length _ _ _ hwin
    rw [hlen]
    have hmono : ∀ i v, (f.bufRead leafOff len (f.p.rhs * i)).map hkey = some v →
        (x.bufRead (windowOf x leafOff len) (f.p.rhs * i)).map hdrKey = some v := by
      intro i v hv
      cases hb : f.bufRead leafOff len (f.p.rhs * i) with
      | none => rw [hb] at hv; cases hv
      | some hd =>
        rw [hb] at hv
        rw [bufRead_sim sim leafOff len _ hd hwin hb]
        exact hv
    cases hbs : binSearch (fun i => (f.bufRead leafOff len (f.p.rhs * i)).map hkey) (len / f.p.rhs) k with
    | none => rw [hbs] at h; cases h
    | some res =>
      rw [hbs] at h
      rw [binSearch_mono _ _ _ _ hmono res hbs]
      cases res with
      | notFound l => exact h
      | found m =>
        simp only [] at h ⊢
        cases hb : f.bufRead leafOff len (f.p.rhs * m) with
        | none => rw [hb] at h; cases h
        | some hd =>
          rw [hb] at h
          rw [bufRead_sim sim leafOff len _ hd hwin hb]
          exact h

theorem getLeftmostAux_sim (sim : Sim K blobSize metaBuf f x) (leafOff len k : Nat)
    (hwin : leafOff + len ≤ x.file.length) :
    ∀ (fuel offset : Nat) (prev r : RecHeader), f.getLeftmostAux leafOff len k fuel offset prev = some r →
      x.getLeftmostAux (windowOf x leafOff len) k fuel offset prev = some r
  | 0, _, _, _, h => by simp [IndexFile.getLeftmostAux] at h
  | fuel + 1, offset, prev, r, h => by
    unfold IndexFile.getLeftmostAux at h
    unfold BIdx.getLeftmostAux
    rw [sim.rhs]
    split at h
    · rename_i hpos
      rw [if_pos hpos]
      simp only [] at h ⊢
      cases hb : f.bufRead leafOff len (offset - f.p.rhs) with
      | none => rw [hb] at h; cases h
      | some cur =>
        rw [hb] at h
        rw [bufRead_sim sim leafOff len _ cur hwin hb]
        simp only [] at h ⊢
        split at h
        · rename_i hne
          have hne' : hdrKey cur ≠ k := hne
          rw [if_pos hne']; exact h
        · rename_i hne
          have hne' : ¬ hdrKey cur ≠ k := hne
          rw [if_neg hne']
          exact getLeftmostAux_sim sim leafOff len k hwin fuel _ cur r h
    · rename_i hpos
      rw [if_neg hpos]; exact h

theorem getLeftmost_sim (sim : Sim K blobSize metaBuf f x) (leafOff len k offset : Nat) (prev r : RecHeader)
    (hwin : leafOff + len ≤ x.file.length) (h : f.getLeftmost leafOff len k offset prev = some r) :
    x.getLeftmost (windowOf x leafOff len) k offset prev = some r := by
  unfold IndexFile.getLeftmost at h
  unfold BIdx.getLeftmost
  rw [sim.rhs]
  split at h
  · cases h
  · rename_i hr
    rw [if_neg hr]
    exact getLeftmostAux_sim sim leafOff len k hwin _ _ _ _ h

theorem leafNodeBufSize_sim (sim : Sim K blobSize metaBuf f x) (leafOff : Nat) :
    x.leafNodeBufSize leafOff = f.leafNodeBufSize leafOff := by
  unfold BIdx.leafNodeBufSize IndexFile.leafNodeBufSize
  rw [sim.size, sim.B]

theorem window_read (x : BIdx) (leafOff len : Nat) (h : leafOff + len ≤ x.file.length) :
    BPTree.readExactAt x.file leafOff len = some (windowOf x leafOff len) :=
  readExactAt_eq _ _ _ h

theorem leafNodeBufSize_win (sim : Sim K blobSize metaBuf f x) {leafOff len : Nat}
    (h : f.leafNodeBufSize leafOff = some len) : leafOff + len ≤ x.file.length := by
  unfold IndexFile.leafNodeBufSize at h
  split at h
  · cases h
  · simp only [Option.some.injEq] at h
    rw [sim.size]; omega

theorem readHeader_sim (sim : Sim K blobSize metaBuf f x) (leafOff k : Nat) (r : Option RecHeader)
    (h : f.readHeader leafOff k = some r) : x.readHeader leafOff k = some r := by
  unfold IndexFile.readHeader at h
  unfold BIdx.readHeader
  rw [leafNodeBufSize_sim sim]
  cases hl : f.leafNodeBufSize leafOff with
  | none => rw [hl] at h; cases h
  | some len =>
    rw [hl] at h
    simp only [] at h ⊢
    have hwin := leafNodeBufSize_win sim hl
    rw [sim.B] at h
    split at h
    · cases h
    · rename_i hB
      rw [if_neg hB, window_read x leafOff len hwin]
      simp only []
      cases hrb : f.readHeaderBuf leafOff len k with
      | none => rw [hrb] at h; cases h
      | some o =>
        rw [hrb] at h
        rw [readHeaderBuf_sim sim leafOff len k hwin o hrb]
        cases o with
        | none => exact h
        | some p =>
          obtain ⟨hd, off⟩ := p
          simp only [] at h ⊢
          cases hg : f.getLeftmost leafOff len k off hd with
          | none => rw [hg] at h; cases h
          | some r' =>
            rw [hg] at h
            rw [getLeftmost_sim sim leafOff len k off hd r' hwin hg]
            exact h

theorem readHeader_leaf_le {leafOff k : Nat} {r : Option RecHeader} (h : f.readHeader leafOff k = some r) :
    leafOff ≤ f.fileSize := by
  unfold IndexFile.readHeader at h
  cases hl : f.leafNodeBufSize leafOff with
  | none => rw [hl] at h; cases h
  | some len =>
    unfold IndexFile.leafNodeBufSize at hl
    split at hl
    · cases hl
    · omega

/-- **`get_latest` through the bytes** -/
theorem getLatest_sim (sim : Sim K blobSize metaBuf f x) (k : Nat) (r : Option RecHeader)
    (h : f.getLatest k = some r) : BIdx.getLatest K x k = some r := by
  unfold IndexFile.getLatest at h
  unfold BIdx.getLatest
  cases hf : f.findLeafNode k with
  | none => rw [hf] at h; cases h
  | some leaf =>
    rw [hf] at h
    simp only [] at h
    rw [findLeafNode_sim sim k leaf hf (readHeader_leaf_le h)]
    exact readHeader_sim sim leaf k r h

/-! ### `find_by_key` -/

theorem goLeftAux_sim (sim : Sim K blobSize metaBuf f x) (leafOff len k : Nat)
    (hwin : leafOff + len ≤ x.file.length) :
    ∀ (fuel : Nat) (hs : List RecHeader) (offset : Nat) (r : List RecHeader),
      f.goLeftAux leafOff len k fuel hs offset = some r →
      x.goLeftAux (windowOf x leafOff len) k fuel hs offset = some r
  | 0, _, _, _, h => by simp [IndexFile.goLeftAux] at h
  | fuel + 1, hs, offset, r, h => by
    unfold IndexFile.goLeftAux at h
    unfold BIdx.goLeftAux
    rw [sim.rhs]
    split at h
    · rename_i hle
      rw [if_pos hle]
      simp only [] at h ⊢
      cases hb : f.bufRead leafOff len (offset - f.p.rhs) with
      | none => rw [hb] at h; cases h
      | some rh =>
        rw [hb] at h
        rw [bufRead_sim sim leafOff len _ rh hwin hb]
        simp only [] at h ⊢
        split at h
        · rename_i he
          have he' : hdrKey rh = k := he
          rw [if_pos he']
          exact goLeftAux_sim sim leafOff len k hwin fuel _ _ r h
        · rename_i he
          have he' : ¬ hdrKey rh = k := he
          rw [if_neg he']; exact h
    · rename_i hle
      rw [if_neg hle]; exact h

theorem goLeft_sim (sim : Sim K blobSize metaBuf f x) (leafOff len k : Nat) (hs : List RecHeader) (offset : Nat)
    (r : List RecHeader) (hwin : leafOff + len ≤ x.file.length)
    (h : f.goLeft leafOff len k hs offset = some r) :
    x.goLeft (windowOf x leafOff len) k hs offset = some r := by
  unfold IndexFile.goLeft at h
  unfold BIdx.goLeft
  rw [sim.rhs]
  split at h
  · cases h
  · rename_i hr
    rw [if_neg hr]
    exact goLeftAux_sim sim leafOff len k hwin _ _ _ _ h

theorem leavesEnd_sim (sim : Sim K blobSize metaBuf f x) : x.leavesEnd = f.leavesEnd := by
  unfold BIdx.leavesEnd IndexFile.leavesEnd
  rw [sim.lo, sim.rhs, sim.rc]

theorem goRightFileAux_sim (sim : Sim K blobSize metaBuf f x) :
    ∀ (fuel : Nat) (hs : List RecHeader) (offset : Nat) (r : List RecHeader),
      f.goRightFileAux fuel hs offset = some r → x.goRightFileAux fuel hs offset = some r
  | 0, _, _, _, h => by simp [IndexFile.goRightFileAux] at h
  | fuel + 1, hs, offset, r, h => by
    unfold IndexFile.goRightFileAux at h
    unfold BIdx.goRightFileAux
    rw [leavesEnd_sim sim, sim.rhs]
    split at h
    · rename_i hle
      rw [if_pos hle]
      split at h
      · cases h
      · rename_i hfs
        cases hh : f.hdrAt offset with
        | none => rw [hh] at h; simp at h
        | some hd =>
          rw [hh] at h
          obtain ⟨h1, h2⟩ := sim.hdrAt hh
          rw [readExactAt_eq _ _ _ h1, Option.bind_some, h2 _ (Nat.le_refl _)]
          cases hh0 : hs.head? with
          | none => rw [hh0] at h; simp at h
          | some h0 =>
            rw [hh0] at h
            simp only [] at h ⊢
            split at h
            · rename_i he
              have he' : hdrKey hd = hdrKey h0 := he
              rw [if_pos he']
              exact goRightFileAux_sim sim fuel _ _ r h
            · rename_i he
              have he' : ¬ hdrKey hd = hdrKey h0 := he
              rw [if_neg he']; exact h
    · rename_i hle
      rw [if_neg hle]; exact h

theorem goRightFile_sim (sim : Sim K blobSize metaBuf f x) (hs : List RecHeader) (offset : Nat)
    (r : List RecHeader) (h : f.goRightFile hs offset = some r) : x.goRightFile hs offset = some r := by
  unfold IndexFile.goRightFile at h
  unfold BIdx.goRightFile
  rw [sim.rhs, sim.rc]
  split at h
  · cases h
  · rename_i hr
    rw [if_neg hr]
    exact goRightFileAux_sim sim _ _ _ _ h

theorem goRightAux_sim (sim : Sim K blobSize metaBuf f x) (leafOff len rightBound : Nat)
    (hwin : leafOff + len ≤ x.file.length) :
    ∀ (fuel : Nat) (hs : List RecHeader) (offset : Nat) (r : List RecHeader),
      f.goRightAux leafOff len rightBound fuel hs offset = some r →
      x.goRightAux (windowOf x leafOff len) leafOff rightBound fuel hs offset = some r
  | 0, _, _, _, h => by simp [IndexFile.goRightAux] at h
  | fuel + 1, hs, offset, r, h => by
    unfold IndexFile.goRightAux at h
    unfold BIdx.goRightAux
    rw [sim.rhs]
    split at h
    · rename_i hlt
      rw [if_pos hlt]
      cases hb : f.bufRead leafOff len offset with
      | none => rw [hb] at h; simp at h
      | some rh =>
        rw [hb] at h
        rw [bufRead_sim sim leafOff len _ rh hwin hb]
        cases hh0 : hs.head? with
        | none => rw [hh0] at h; simp at h
        | some h0 =>
          rw [hh0] at h
          simp only [] at h ⊢
          split at h
          · rename_i he
            have he' : hdrKey rh = hdrKey h0 := he
            rw [if_pos he']
            exact goRightAux_sim sim leafOff len rightBound hwin fuel _ _ r h
          · rename_i he
            have he' : ¬ hdrKey rh = hdrKey h0 := he
            rw [if_neg he']; exact h
    · rename_i hlt
      rw [if_neg hlt]
      exact goRightFile_sim sim _ _ _ h

theorem goRight_sim (sim : Sim K blobSize metaBuf f x) (hs : List RecHeader) (leafOff len offset : Nat)
    (r : List RecHeader) (hwin : leafOff + len ≤ x.file.length)
    (h : f.goRight hs leafOff len offset = some r) :
    x.goRight hs (windowOf x leafOff len) leafOff offset = some r := by
  unfold IndexFile.goRight at h
  unfold BIdx.goRight
  rw [sim.rhs, leavesEnd_sim sim]
  have hlen : (windowOf x leafOff len).length = len := slice_length _ _ _ hwin
  split at h
  · cases h
  · rename_i hr
    rw [if_neg hr]
    split at h
    · cases h
    · rename_i hle
      rw [if_neg hle, hlen]
      exact goRightAux_sim sim leafOff len _ hwin _ _ _ _ h

theorem readHeaders_sim (sim : Sim K blobSize metaBuf f x) (leafOff k : Nat) (r : Option (List RecHeader))
    (h : f.readHeaders leafOff k = some r) : x.readHeaders leafOff k = some r := by
  unfold IndexFile.readHeaders at h
  unfold BIdx.readHeaders
  rw [leafNodeBufSize_sim sim]
  cases hl : f.leafNodeBufSize leafOff with
  | none => rw [hl] at h; cases h
  | some len =>
    rw [hl] at h
    simp only [] at h ⊢
    have hwin := leafNodeBufSize_win sim hl
    rw [sim.B] at h
    split at h
    · cases h
    · rename_i hB
      rw [if_neg hB, window_read x leafOff len hwin]
      simp only []
      cases hrb : f.readHeaderBuf leafOff len k with
      | none => rw [hrb] at h; cases h
      | some o =>
        rw [hrb] at h
        rw [readHeaderBuf_sim sim leafOff len k hwin o hrb]
        cases o with
        | none => exact h
        | some p =>
          obtain ⟨hd, off⟩ := p
          simp only [] at h ⊢
          cases hg : f.goLeft leafOff len (hkey hd) [] off with
          | none => rw [hg] at h; cases h
          | some hs =>
            rw [hg] at h
            have hg' := goLeft_sim sim leafOff len (hkey hd) [] off hs hwin hg
            rw [show hkey hd = hdrKey hd from rfl] at hg'
            rw [hg']
            simp only [] at h ⊢
            cases hgr : f.goRight ((if hs.length > 1 then hs.reverse else hs) ++ [hd]) leafOff len off with
            | none => rw [hgr] at h; cases h
            | some r' =>
              rw [hgr] at h
              rw [goRight_sim sim _ leafOff len off r' hwin hgr]
              exact h

theorem readHeaders_leaf_le {leafOff k : Nat} {r : Option (List RecHeader)} (h : f.readHeaders leafOff k = some r) :
    leafOff ≤ f.fileSize := by
  unfold IndexFile.readHeaders at h
  cases hl : f.leafNodeBufSize leafOff with
  | none => rw [hl] at h; cases h
  | some len =>
    unfold IndexFile.leafNodeBufSize at hl
    split at hl
    · cases hl
    · omega

/-- **`find_by_key` through the bytes** -/
theorem findByKey_sim (sim : Sim K blobSize metaBuf f x) (k : Nat) (r : Option (List RecHeader))
    (h : f.findByKey k = some r) : BIdx.findByKey K x k = some r := by
  unfold IndexFile.findByKey at h
  unfold BIdx.findByKey
  cases hf : f.findLeafNode k with
  | none => rw [hf] at h; cases h
  | some leaf =>
    rw [hf] at h
    simp only [] at h
    rw [findLeafNode_sim sim k leaf hf (readHeaders_leaf_le h)]
    exact readHeaders_sim sim leaf k r h

/-! ### `get_records_headers`, `read_meta`, `read_meta_at` -/

theorem loadHeaders_sim (sim : Sim K blobSize metaBuf f x) (hlo : f.leavesOffset = f.leavesStart) :
    ∀ (n i : Nat), i + n ≤ f.leaves.length →
      x.loadHeaders (x.file.drop x.metadata.leavesOffset) n i = some ((f.leaves.drop i).take n)
  | 0, i, _ => by simp [BIdx.loadHeaders]
  | n + 1, i, hle => by
    have hi : i < f.leaves.length := by omega
    unfold BIdx.loadHeaders
    rw [sim.lo, hlo, sim.rhs, List.length_drop, sim.size, IndexFile.fileSize_eq]
    have hmul : i * f.p.rhs ≤ f.leaves.length * f.p.rhs := Nat.mul_le_mul_right _ (by omega)
    rw [if_neg (by omega), List.drop_drop]
    have hleaf := sim.leaf i f.leaves[i] (List.getElem?_eq_getElem hi) (x.file.length) (by
      rw [sim.size, IndexFile.fileSize_eq]
      have : (i + 1) * f.p.rhs ≤ f.leaves.length * f.p.rhs := Nat.mul_le_mul_right _ (by omega)
      rw [Nat.add_mul, Nat.one_mul] at this
      omega)
    rw [List.take_of_length_le (by rw [List.length_drop]; omega)] at hleaf
    rw [hleaf]
    simp only []
    have ih := loadHeaders_sim sim hlo n (i + 1) (by omega)
    rw [sim.lo, hlo] at ih
    rw [ih]
    simp only [Option.some.injEq]
    rw [← List.getElem_cons_drop hi, List.take_succ_cons]

/-- **`get_records_headers` through the bytes** -/
theorem load_sim (sim : Sim K blobSize metaBuf f x) (m : InMem RecHeader) (h : f.load = some m) :
    BIdx.load K blobSize x = some m := by
  unfold IndexFile.load at h
  unfold BIdx.load
  rw [sim.valid]
  simp only [Bool.not_true, Bool.false_eq_true, if_false]
  split at h
  · cases h
  · rename_i hlo
    have hlo' : f.leavesOffset = f.leavesStart := Classical.not_not.mp hlo
    split at h
    · cases h
    · rename_i hrc
      rw [sim.lo, hlo', sim.size, IndexFile.fileSize_eq, if_neg (by omega), sim.rc]
      have := loadHeaders_sim sim hlo' f.recordsCount 0 (by omega)
      rw [sim.lo, hlo'] at this
      rw [this, List.drop_zero]
      exact h

theorem readMeta_sim (sim : Sim K blobSize metaBuf f x) : x.readMeta = some metaBuf := by
  unfold BIdx.readMeta
  rw [sim.ss, sim.ms, readExactAt_eq _ _ _ sim.mlen, sim.mb]

theorem readMetaAt_sim (sim : Sim K blobSize metaBuf f x) (i : Nat) : x.readMetaAt i = metaBuf[i]? := by
  unfold BIdx.readMetaAt
  rw [sim.ms, sim.ss]
  by_cases hi : metaBuf.length ≤ i
  · rw [if_pos hi]
    exact (List.getElem?_eq_none hi).symm
  · rw [if_neg hi, readExactAt_eq _ _ _ (by have := sim.mlen; omega), Option.bind_some]
    have : metaBuf[i]? = ((x.file.drop 83).take metaBuf.length)[i]? := by rw [sim.mb]
    rw [this, List.getElem?_take_of_lt (by omega), List.getElem?_drop, List.getElem?_take_of_lt (by omega),
      List.getElem?_drop, Nat.add_zero]

end Pearl.E2E
