import Pearl.Proofs.EndToEndMetaBytesStore
/-
Byte image of the index file, part 7: the size side-condition from the inputs.  The index file of a blob is at most
three times as long as the blob file, plus the filter section (whose length is fixed by the configuration), plus a
constant (`fileSize_le`):
* the record headers take `n · (57 + K)` bytes, the blob file at least `20 + n · (65 + K)`;
* the nodes `build_tree` writes take at most `2 · (K + 12)` bytes per leaf (`buildTree_bytes`: a layer of `e`
  entries costs `(K + 12) · e` bytes and leaves at most `e / 2` entries to the layer above), and there are at most
  `n + 1` leaves;
* the filter section is `2K + 81 + 8 · ⌈bits / 64⌉` bytes (`serializeFilters_length`).
So `IdxSized` of every state of a history follows from a bound on the blobs of the FINAL L2 state
(`StoreIdxSized`, `idxSized_of_final`), which also gives `StoreSized`.
-/
namespace Pearl.E2E
open Pearl Pearl.BPTree Pearl.Container

/-! ### the tree region -/

theorem packLeaves_length {H : Type} (p : Params) : ∀ (m : InMem H) (o r a b : Nat),
    (packLeaves p m o r a b).length ≤ m.length + 1
  | [], _, _, _, _ => by simp [packLeaves]
  | (k, v) :: rest, o, r, a, b => by
    simp only [packLeaves]
    split
    · have := packLeaves_length p rest (o + v.length * p.rhs) (p.B - v.length * p.rhs) k o
      simp only [List.length_cons]
      omega
    · have := packLeaves_length p rest (o + v.length * p.rhs) (r - v.length * p.rhs) a b
      simp only [List.length_cons]
      omega

theorem leafTable_length_le {H : Type} (p : Params) (m : InMem H) : (leafTable p m).length ≤ m.length + 1 := by
  unfold leafTable
  cases m with
  | nil => simp
  | cons kv rest =>
    obtain ⟨k, v⟩ := kv
    exact packLeaves_length p _ _ _ _ _

theorem nodeSize_le (p : Params) (n : Nat) (hn : 1 ≤ n) : nodeSize p (n - 1) + p.K ≤ (p.K + 8) * n + 8 := by
  simp only [nodeSize, nodeMetaSize, offsetSize]
  have h1 : p.K * (n - 1) + p.K = p.K * n := by
    obtain ⟨j, rfl⟩ : ∃ j, n = j + 1 := ⟨n - 1, by omega⟩
    simp [Nat.mul_succ]
  have h2 : (n - 1 + 1) * 8 = n * 8 := by congr 1; omega
  rw [h2, Nat.add_mul]
  omega

/-- the nodes written for one layer -/
theorem nodesBytes_level (p : Params) (base : Nat) : ∀ (Ps : List (List Entry)), (∀ P ∈ Ps, 1 ≤ P.length) →
    nodesBytes p (Ps.map (mkNode base)) ≤ (p.K + 8) * Ps.flatten.length + 8 * Ps.length
  | [], _ => by simp [nodesBytes]
  | P :: Ps, h => by
    have ih := nodesBytes_level p base Ps (fun Q hQ => h Q (by simp [hQ]))
    have h1 := nodeSize_le p P.length (h P (by simp))
    simp only [List.map_cons, nodesBytes_cons, mkNode_size, List.flatten_cons, List.length_append, List.length_cons]
    rw [Nat.mul_add]
    omega

/-- the whole node region: at most `2 · (K + 12)` bytes per entry of the bottom layer -/
theorem buildTree_bytes (p : Params) (hfan : 3 ≤ maxAmount p) (to : Nat) :
    ∀ (fuel : Nat) (es : List Entry), nodesBytes p (buildTree p fuel es to) ≤ 2 * (p.K + 12) * es.length := by
  intro fuel
  induction fuel with
  | zero => intro es; simp [buildTree, nodesBytes]
  | succ fuel ih =>
    intro es
    by_cases hsmall : es.length ≤ 1
    · rw [buildTree_small _ _ _ _ hsmall]; simp [nodesBytes]
    · rw [buildTree_succ p fuel es to (by omega), nodesBytes_append]
      have hsz : ∀ P ∈ portions (minAmount p) (maxAmount p) es, 2 ≤ P.length :=
        fun P hP => (portions_sizes p hfan es (by omega) P hP).1
      have hfl : (portions (minAmount p) (maxAmount p) es).flatten.length = es.length := by
        rw [portions_flatten]
      have hcnt : 2 * (portions (minAmount p) (maxAmount p) es).length ≤ es.length := by
        rw [← hfl]; exact flatten_length_ge _ hsz
      have hup := ih (collectNext p (portions (minAmount p) (maxAmount p) es) 0).1
      rw [collectNext_length] at hup
      have hlev := nodesBytes_level p
        (to + (collectNext p (portions (minAmount p) (maxAmount p) es) 0).2 +
          nodesBytes p (buildTree p fuel (collectNext p (portions (minAmount p) (maxAmount p) es) 0).1 to))
        (portions (minAmount p) (maxAmount p) es) (fun P hP => by have := hsz P hP; omega)
      rw [hfl] at hlev
      -- arithmetic: with `q` portions, `2 q ≤ e`
      generalize (portions (minAmount p) (maxAmount p) es).length = q at hcnt hup hlev
      generalize es.length = e at hcnt hlev ⊢
      have e1 : 2 * (p.K + 12) * q = (p.K + 12) * (2 * q) := by
        rw [Nat.mul_comm 2 (p.K + 12), Nat.mul_assoc]
      have e2 : (p.K + 12) * (2 * q) ≤ (p.K + 12) * e := Nat.mul_le_mul_left _ hcnt
      have e3 : (p.K + 8) * e + 8 * q ≤ (p.K + 12) * e := by
        have : (p.K + 12) * e = (p.K + 8) * e + 4 * e := by
          rw [show p.K + 12 = (p.K + 8) + 4 from by omega, Nat.add_mul]
        omega
      have e4 : 2 * (p.K + 12) * e = (p.K + 12) * e + (p.K + 12) * e := by
        rw [Nat.mul_comm 2 (p.K + 12), Nat.mul_assoc, Nat.mul_comm (p.K + 12) (2 * e), Nat.two_mul, Nat.add_mul,
          Nat.mul_comm e]
      omega

/-! ### the number of record headers -/

theorem ins_length {α : Type} (f : α → Nat) (v : List α) (h : α) : (ins f v h).length = v.length + 1 := by
  have := (ins_perm f v h).length_eq
  simpa using this

theorem leafArray_memPush_length (k : Nat) (h : RecHeader) : ∀ (m : InMem RecHeader),
    (leafArray (memPush k h m)).length = (leafArray m).length + 1
  | [] => by simp [memPush, leafArray]
  | (k', v) :: rest => by
    simp only [memPush]
    split
    · simp [leafArray_cons]
    · split
      · simp only [leafArray_cons, List.length_append, List.length_reverse, vecPush_eq_ins, ins_length]
        omega
      · simp only [leafArray_cons, List.length_append, leafArray_memPush_length k h rest]
        omega

theorem leafArray_indexOf_length (hs : List RecHeader) : (leafArray (indexOf hs)).length = hs.length := by
  have : ∀ (hs : List RecHeader) (acc : InMem RecHeader),
      (leafArray (hs.foldl (fun m h => memPush (hdrKey h) h m) acc)).length = (leafArray acc).length + hs.length := by
    intro hs
    induction hs with
    | nil => intro acc; simp
    | cons h hs ih =>
      intro acc
      simp only [List.foldl_cons, List.length_cons]
      rw [ih, leafArray_memPush_length]
      omega
  have := this hs []
  simpa [indexOf, leafArray] using this

theorem map_length_le_leafArray {m : InMem RecHeader} (hwf : WF m) : m.length ≤ (leafArray m).length := by
  induction m with
  | nil => simp
  | cons kv rest ih =>
    obtain ⟨k, v⟩ := kv
    have hv : v ≠ [] := hwf.nonempty (k, v) (by simp)
    have hvl : 1 ≤ v.length := by
      cases v with
      | nil => exact absurd rfl hv
      | cons _ _ => simp
    have := ih hwf.tail
    simp only [leafArray_cons, List.length_append, List.length_reverse, List.length_cons]
    omega

/-! ### the filter section -/

/-- the length of the filter section of an index file, for this configuration -/
def filterLen (cfg : Cfg) : Nat := 2 * cfg.klen + 81 + 8 * ABV.itemsCount ((cfg.bloom.map (·.2)).getD 0)

/-- the bloom filter of a blob keeps the number of words it was created with -/
def BloomWords (cfg : Cfg) (c : Combined) : Prop :=
  ∀ b, c.bloom = some b → ∀ v, b.inner = some v → v.data.length ≤ ABV.itemsCount ((cfg.bloom.map (·.2)).getD 0)

theorem newFilter_words (cfg : Cfg) : BloomWords cfg (newFilter cfg) := by
  intro b hb v hv
  simp only [newFilter, Option.map_eq_some_iff] at hb
  obtain ⟨p, hp, rfl⟩ := hb
  simp only [Bloom.new, Option.some.injEq] at hv
  subst hv
  simp [hp, ABV.new]

theorem add_words (cfg : Cfg) (c : Combined) (k : Key) (h : BloomWords cfg c) : BloomWords cfg (c.add cfg.h k) := by
  intro b hb v hv
  simp only [Combined.add, Option.map_eq_some_iff] at hb
  obtain ⟨b0, hb0, rfl⟩ := hb
  unfold Bloom.add at hv
  cases hi : b0.inner with
  | none => rw [hi] at hv; simp only [] at hv; rw [hi] at hv; cases hv
  | some v0 =>
    rw [hi] at hv
    simp only [] at hv
    split at hv
    · rw [hi] at hv
      simp only [Option.some.injEq] at hv
      subst hv
      exact h b0 hb0 v0 hi
    · simp only [Option.some.injEq] at hv
      subst hv
      rw [ABV.foldl_set_length]
      exact h b0 hb0 v0 hi

theorem filterOf_words (cfg : Cfg) (recs : List Rec) : BloomWords cfg (filterOf cfg recs) := by
  unfold filterOf
  generalize recs.map (·.key) = ks
  have : ∀ (ks : List Key) (c : Combined), BloomWords cfg c → BloomWords cfg (ks.foldl (Combined.add cfg.h) c) := by
    intro ks
    induction ks with
    | nil => intro c h; exact h
    | cons k ks ih => intro c h; exact ih _ (add_words cfg c k h)
  exact this ks _ (newFilter_words cfg)

theorem toRawVec_length_le (v : ABV) : v.toRawVec.length ≤ v.data.length := by
  unfold ABV.toRawVec
  split <;> simp

theorem serializeFilters_length (cfg : Cfg) (c : Combined) (hw : BloomWords cfg c) (mb : List Nat) (off : Nat)
    (h : serializeFilters cfg.klen c = some (mb, off)) : mb.length ≤ filterLen cfg := by
  unfold serializeFilters at h
  cases hr : (c.bloom.getD Bloom.empty).toRaw with
  | none => rw [hr] at h; cases h
  | some bloomBuf =>
    rw [hr] at h
    simp only [Option.some.injEq, Prod.mk.injEq] at h
    obtain ⟨rfl, _⟩ := h
    have hbl : bloomBuf.length ≤ 56 + 8 * ABV.itemsCount ((cfg.bloom.map (·.2)).getD 0) := by
      unfold Bloom.toRaw Bloom.save at hr
      cases hin : (c.bloom.getD Bloom.empty).inner with
      | none => rw [hin] at hr; cases hr
      | some v =>
        rw [hin] at hr
        simp only [Option.map_some, Option.some.injEq] at hr
        subst hr
        simp only [Save.encode, List.length_append, BloomConfig.encode_length, fle64_length, wordsBytes_length]
        have hv : v.data.length ≤ ABV.itemsCount ((cfg.bloom.map (·.2)).getD 0) := by
          cases hb : c.bloom with
          | none =>
            rw [hb] at hin
            simp only [Option.getD_none, Bloom.empty, Option.some.injEq] at hin
            subst hin
            simp [ABV.new, ABV.itemsCount]
          | some b =>
            rw [hb] at hin
            exact hw b hb v hin
        have := toRawVec_length_le v
        omega
    simp only [List.length_append, fle64_length, Range.toRaw_length, filterLen]
    omega

/-! ### the size of the index file of a blob -/

theorem serMeta_length_ge (m : Meta) : 8 ≤ (serMeta m).length := by
  cases m with
  | none => simp [serMeta]
  | some v => simp [serMeta]

theorem tailOf_length_ge' (klen : Nat) : ∀ (Rs : List Record) (off : Nat), (∀ R ∈ Rs, R.WF klen) →
    (65 + klen) * Rs.length ≤ (tailOf off Rs).length
  | [], _, _ => by simp [tailOf]
  | R :: Rs, off, h => by
    have ih := tailOf_length_ge' klen Rs (off + (R.image off).length) (fun x hx => h x (by simp [hx]))
    have hl := R.image_length off
    have hk := (h R (by simp)).key
    have hm := serMeta_length_ge R.mt
    simp only [tailOf, List.length_append, List.length_cons, Nat.mul_succ]
    omega

theorem blobBytes_length_ge (klen : Nat) (recs : List Rec) :
    20 + (65 + klen) * recs.length ≤ (blobBytes klen (full recs)).length := by
  rw [blobBytes_eq, List.length_append, serBlobHeader_length]
  have := tailOf_length_ge' klen (recs.map (recOf klen)) blobHeaderSize (by
    intro R hR
    obtain ⟨r, _, rfl⟩ := List.mem_map.mp hR
    exact recordOf_WF _ _ _)
  simp only [List.length_map, blobHeaderSize] at this ⊢
  omega

/-- the index file a dump writes for a blob is at most three times as long as the blob file, plus the filter
    section, plus a constant -/
theorem fileSize_le {cfg : Cfg} (hcfg : cfg.OK) (recs : List Rec) (mb : List Nat) :
    (build (Params.real cfg.klen) mb.length (indexOf (hdrsOf cfg recs))).fileSize
      ≤ 3 * (blobBytes cfg.klen (full recs)).length + mb.length + 4200 := by
  have hv := valid_real cfg.klen hcfg.klen
  have hK := hcfg.klen
  obtain ⟨n, hn⟩ : ∃ n, n = recs.length := ⟨_, rfl⟩
  have hleaves : (leafArray (indexOf (hdrsOf cfg recs))).length = n := by
    rw [leafArray_indexOf_length, hdrsOf_length, hn]
  have hkeys : (indexOf (hdrsOf cfg recs)).length ≤ n := by
    rw [← hleaves]; exact map_length_le_leafArray (indexOf_WF _)
  have htable : (leafTable (Params.real cfg.klen) (indexOf (hdrsOf cfg recs))).length ≤ n + 1 := by
    have := leafTable_length_le (Params.real cfg.klen) (indexOf (hdrsOf cfg recs))
    omega
  have hnodes := buildTree_bytes (Params.real cfg.klen) hv.fan (indexHeaderSize + mb.length + treeMetaSize)
    (leafTable (Params.real cfg.klen) (indexOf (hdrsOf cfg recs))).length
    (leafTable (Params.real cfg.klen) (indexOf (hdrsOf cfg recs)))
  have hblob := blobBytes_length_ge cfg.klen recs
  rw [← hn] at hblob
  have hfs : (build (Params.real cfg.klen) mb.length (indexOf (hdrsOf cfg recs))).fileSize
      = indexHeaderSize + mb.length + treeMetaSize
        + nodesBytes (Params.real cfg.klen) (build (Params.real cfg.klen) mb.length (indexOf (hdrsOf cfg recs))).nodes
        + (leafArray (indexOf (hdrsOf cfg recs))).length * (57 + cfg.klen) := rfl
  rw [hfs, hleaves]
  have hnodes' : nodesBytes (Params.real cfg.klen)
      (build (Params.real cfg.klen) mb.length (indexOf (hdrsOf cfg recs))).nodes
      ≤ 2 * (cfg.klen + 12) * (n + 1) :=
    Nat.le_trans hnodes (Nat.mul_le_mul_left _ htable)
  -- arithmetic in `X = (65 + K) · n`
  have a1 : (cfg.klen + 12) * n ≤ (65 + cfg.klen) * n := Nat.mul_le_mul_right _ (by omega)
  have a2 : n * (57 + cfg.klen) ≤ (65 + cfg.klen) * n := by
    rw [Nat.mul_comm n]; exact Nat.mul_le_mul_right _ (by omega)
  have a3 : 2 * (cfg.klen + 12) * (n + 1) = 2 * ((cfg.klen + 12) * n) + 2 * (cfg.klen + 12) := by
    rw [Nat.mul_assoc, Nat.mul_add, Nat.mul_one, Nat.mul_add]
  simp only [indexHeaderSize, treeMetaSize]
  omega

/-! ### from a bound on the L2 state -/

/-- the size side-condition of the byte-level composition, on the L2 state: three times the L5 image of every
    blob, plus the filter section, plus a constant, is below `2^64` -/
def StoreIdxSized (cfg : Cfg) (s : Store) : Prop :=
  ∀ b ∈ s.blobs, 3 * (blobBytes cfg.klen (full b.recs)).length + filterLen cfg + 4200 < 2 ^ 64

theorem StoreIdxSized.toStoreSized {cfg : Cfg} {s : Store} (h : StoreIdxSized cfg s) : StoreSized cfg.klen s := by
  intro b hb
  have := h b hb
  omega

theorem idxSized_of_store {cfg : Cfg} {c : CState} (hcfg : cfg.OK) (hinv : CInv cfg c)
    (h : StoreIdxSized cfg (c.abs cfg)) : c.IdxSized := by
  intro b hb f mb off hi
  have hbi : BlobInv cfg b := CInvG.blobInv hinv hb
  have hidx := hbi.index
  unfold IndexInv at hidx
  rw [hi] at hidx
  obtain ⟨_, hser, hf⟩ := hidx
  have hmb : mb.length ≤ filterLen cfg :=
    serializeFilters_length cfg b.filter (by rw [hbi.filter]; exact filterOf_words cfg b.ghost) mb off hser
  have hbound := h b.abs (by rw [abs_blobs]; exact List.mem_map.mpr ⟨b, hb, rfl⟩)
  have hle := fileSize_le hcfg b.ghost mb
  rw [hf]
  have : (blobBytes cfg.klen (full b.abs.recs)).length = (blobBytes cfg.klen (full b.ghost)).length := rfl
  omega

theorem storeIdxSized_prefix (cfg : Cfg) {s : Store} (hwf : s.WF) (ops : List Op)
    (h : StoreIdxSized cfg (s.run ops)) (n : Nat) : StoreIdxSized cfg (s.run (ops.take n)) := by
  intro b hb
  have hsplit : s.run ops = (s.run (ops.take n)).run (ops.drop n) := by
    unfold Store.run
    rw [← List.foldl_append, List.take_append_drop]
  have hwfn : (s.run (ops.take n)).WF := by
    have : ∀ (l : List Op) (s : Store), s.WF → (s.run l).WF := by
      intro l
      induction l with
      | nil => intro s h; exact h
      | cons o l ih => intro s h; exact ih _ (apply_WF h o)
    exact this _ _ hwf
  obtain ⟨b', hb', hp⟩ := run_blobs_mono (ops.drop n) _ hwfn b hb
  rw [← hsplit] at hb'
  have := h b' hb'
  have := blobBytes_length_mono cfg.klen hp
  omega

/-- the size side-condition on every state of a history follows from the bound on the final L2 state -/
theorem idxSized_of_final {cfg : Cfg} (hcfg : cfg.OK) (ops : List MOp) (hops : ∀ op ∈ ops, op.OK cfg)
    (h : StoreIdxSized cfg ((Store.init cfg.allowDup).run (ops.map MOp.abs))) :
    ∀ n, n ≤ ops.length → ((CState.init cfg).runM cfg (ops.take n)).IdxSized := by
  intro n _
  have hpre : StoreIdxSized cfg ((Store.init cfg.allowDup).run ((ops.take n).map MOp.abs)) := by
    rw [List.map_take]
    exact storeIdxSized_prefix cfg (init_WF _) _ h n
  obtain ⟨habs, hinv, _⟩ := runM_ref hcfg (ops.take n) (fun op hop => hops op (List.mem_of_mem_take hop))
    hpre.toStoreSized
  exact idxSized_of_store hcfg hinv (by rw [habs]; exact hpre)

end Pearl.E2E
