import Pearl.Proofs.EndToEndMetaBytesBlob
/-
Byte image of the index file, part 6: the storage.  `CState.toB` replaces every dumped index by its byte image.
Under the invariant, and when every index file on disk is shorter than `2^64` bytes, the translation commutes with
every read (`readWithOpt_toB`, `containsWith_toB`, `readAllMarked_toB`, `readAll_toB`) and every operation
(`stepM_toB`); along a run the byte-level storage started from the empty directory is the translation of the
structured one (`runB_eq`).
-/
namespace Pearl.E2E
open Pearl Pearl.BPTree Pearl.Container

instance (b : CBlob) : Decidable b.IdxSized := by
  unfold CBlob.IdxSized
  cases hi : b.index with
  | mem m => exact isTrue (by intro f mb off h; cases h)
  | disk f mb off =>
    exact decidable_of_iff (f.fileSize < 2 ^ 64)
      ⟨fun h f' mb' off' he => by cases he; exact h, fun h => h f mb off rfl⟩

instance (c : CState) : Decidable c.IdxSized := by
  unfold CState.IdxSized; infer_instance

section
variable {cfg : Cfg} {sha : List Nat → List Nat}

/-! ### the read path -/

theorem consulted_toB (cfg : Cfg) (sha : List Nat → List Nat) (c : CState) (k : Key) :
    (c.toB sha).consulted cfg k = (c.consulted cfg k).map (CBlob.toB sha) := by
  unfold BState.consulted CState.consulted CState.toB
  simp only [iterPossibleStack_mapData, List.map_append, List.map_filterMap, getChild_mapData]
  congr 1
  · cases c.active <;> rfl
  · congr 1
    funext j
    cases c.cont.getChild j <;> rfl

theorem mem_closedBlobs_of_getChild {c : Container Combined CBlob} {j : Nat} {lf : FLeaf CBlob}
    (h : c.getChild j = some lf) : lf.data ∈ closedBlobs c := by
  unfold Container.getChild at h
  unfold closedBlobs
  cases hc : c.children[j]? with
  | none => rw [hc] at h; cases h
  | some o =>
    rw [hc] at h
    simp only [Option.join_some] at h
    subst h
    exact List.mem_filterMap.mpr ⟨some lf, List.mem_of_getElem? hc, rfl⟩

theorem mem_consulted_blobs {c : CState} {k : Key} {b : CBlob} (h : b ∈ c.consulted cfg k) : b ∈ c.blobs := by
  unfold CState.consulted at h
  unfold CState.blobs
  rcases List.mem_append.mp h with h | h
  · exact List.mem_append_right _ h
  · apply List.mem_append_left
    obtain ⟨j, _, hj⟩ := List.mem_filterMap.mp h
    cases hg : c.cont.getChild j with
    | none => rw [hg] at hj; cases hj
    | some lf =>
      rw [hg] at hj
      simp only [Option.map_some, Option.some.injEq] at hj
      subst hj
      exact mem_closedBlobs_of_getChild hg

theorem foldEntriesB_map (sha : List Nat → List Nat) (fB : BBlob → Except CErr (ReadResult CEntry))
    (fC : CBlob → Except CErr (ReadResult CEntry)) : ∀ (l : List CBlob) (acc : ReadResult CEntry),
    (∀ b ∈ l, fB (b.toB sha) = fC b) → foldEntriesB fB (l.map (CBlob.toB sha)) acc = foldEntries fC l acc
  | [], _, _ => rfl
  | b :: l, acc, h => by
    simp only [List.map_cons, foldEntriesB, foldEntries, h b (by simp)]
    cases fC b with
    | error e => rfl
    | ok r => exact foldEntriesB_map sha fB fC l _ (fun x hx => h x (by simp [hx]))

theorem collectEntriesB_map (sha : List Nat → List Nat) (fB : BBlob → Except CErr (List CEntry))
    (fC : CBlob → Except CErr (List CEntry)) : ∀ (l : List CBlob),
    (∀ b ∈ l, fB (b.toB sha) = fC b) → collectEntriesB fB (l.map (CBlob.toB sha)) = collectEntries fC l
  | [], _ => rfl
  | b :: l, h => by
    simp only [List.map_cons, collectEntriesB, collectEntries, h b (by simp),
      collectEntriesB_map sha fB fC l (fun x hx => h x (by simp [hx]))]

theorem getLatestEntryM_toB_state (hB : BytesOK cfg sha) {c : CState} (hinv : CInv cfg c) (hs : c.IdxSized)
    (k : Key) (m : Option Meta) : (c.toB sha).getLatestEntryM cfg k m = c.getLatestEntryM cfg k m := by
  unfold BState.getLatestEntryM CState.getLatestEntryM
  rw [consulted_toB]
  apply foldEntriesB_map
  intro b hb
  have hbl := mem_consulted_blobs hb
  exact getLatestEntryM_toB hB (CInvG.blobInv hinv hbl) (hs b hbl) k m

theorem containsWith_toB (hB : BytesOK cfg sha) {c : CState} (hinv : CInv cfg c) (hs : c.IdxSized)
    (k : Key) (m : Option Meta) : (c.toB sha).containsWith cfg k m = c.containsWith cfg k m := by
  unfold BState.containsWith CState.containsWith
  rw [getLatestEntryM_toB_state hB hinv hs]

theorem readWithOpt_toB (hB : BytesOK cfg sha) {c : CState} (hinv : CInv cfg c) (hs : c.IdxSized)
    (k : Key) (m : Option Meta) : (c.toB sha).readWithOpt cfg k m = c.readWithOpt cfg k m := by
  unfold BState.readWithOpt CState.readWithOpt
  rw [getLatestEntryM_toB_state hB hinv hs]

theorem readAllMarked_toB (hB : BytesOK cfg sha) {c : CState} (hinv : CInv cfg c) (hs : c.IdxSized) (k : Key) :
    (c.toB sha).readAllMarked cfg k = c.readAllMarked cfg k := by
  unfold BState.readAllMarked CState.readAllMarked
  rw [consulted_toB, collectEntriesB_map sha _ (fun b => b.readAllEntriesMarked k)]
  intro b hb
  have hbl := mem_consulted_blobs hb
  exact readAllEntriesMarked_toB hB (CInvG.blobInv hinv hbl) (hs b hbl) k

theorem readAll_toB (hB : BytesOK cfg sha) {c : CState} (hinv : CInv cfg c) (hs : c.IdxSized) (k : Key) :
    (c.toB sha).readAll cfg k = c.readAll cfg k := by
  unfold BState.readAll CState.readAll
  rw [readAllMarked_toB hB hinv hs]

/-! ### operations -/

theorem BState.ext' {a b : BState} (h1 : a.active = b.active) (h2 : a.cont = b.cont) (h3 : a.nextId = b.nextId) :
    a = b := by
  cases a; cases b; simp_all

theorem createActive_toB (cfg : Cfg) (sha : List Nat → List Nat) (c : CState) :
    (c.createActive cfg).toB sha = (c.toB sha).createActive cfg := rfl

theorem ensureActive_toB (cfg : Cfg) (sha : List Nat → List Nat) (c : CState) :
    (c.ensureActive cfg).toB sha = (c.toB sha).ensureActive cfg := by
  unfold CState.ensureActive BState.ensureActive
  have : (c.toB sha).active = c.active.map (CBlob.toB sha) := rfl
  rw [this]
  cases c.active <;> rfl

theorem openNew_idxSized (cfg : Cfg) (id : Nat) : (CBlob.openNew cfg id).IdxSized := by
  intro f mb off h; cases h

theorem ensureActive_idxSized {c : CState} (hs : c.IdxSized) : (c.ensureActive cfg).IdxSized := by
  unfold CState.ensureActive
  cases ha : c.active with
  | some a => exact hs
  | none =>
    intro b hb
    unfold CState.blobs CState.createActive at hb
    simp only [Option.toList_some, List.mem_append, List.mem_singleton] at hb
    rcases hb with hb | hb
    · exact hs b (by unfold CState.blobs; exact List.mem_append_left _ hb)
    · subst hb; exact openNew_idxSized cfg _

theorem writeWithOpt_toB (hB : BytesOK cfg sha) {c : CState} (hinv : CInv cfg c) (hs : c.IdxSized)
    (k : Key) (ts : Nat) (m : Option Meta) (d : Data) :
    (c.writeWithOpt cfg k ts m d).toB sha = (c.toB sha).writeWithOpt cfg k ts m d := by
  have hinv1 := ensureActive_inv (cfg := cfg) hinv
  have hs1 := ensureActive_idxSized (cfg := cfg) hs
  unfold CState.writeWithOpt BState.writeWithOpt
  simp only []
  rw [← ensureActive_toB, containsWith_toB hB hinv1 hs1]
  generalize (if cfg.allowDup = true then (Except.ok false : Except CErr Bool)
    else match (c.ensureActive cfg).containsWith cfg k m with
      | .error e => .error e
      | .ok r => .ok r.isFound) = dup
  cases dup with
  | error e => rfl
  | ok bdup =>
    cases bdup with
    | true => rfl
    | false =>
      simp only []
      have hact : ((c.ensureActive cfg).toB sha).active = (c.ensureActive cfg).active.map (CBlob.toB sha) := rfl
      rw [hact]
      cases ha : (c.ensureActive cfg).active with
      | none => rfl
      | some a =>
        simp only [Option.map_some]
        apply BState.ext'
        · show some ((a.writeRec cfg _).toB sha) = some ((a.toB sha).writeRec cfg _)
          rw [writeRec_toB cfg sha a _ (hinv1.active a ha).2]
        · rfl
        · rfl

theorem deleteBase_toB (cfg : Cfg) (sha : List Nat → List Nat) (c : CState) (oip : Bool) :
    (if oip = true then c else c.ensureActive cfg).toB sha
      = (if oip = true then c.toB sha else (c.toB sha).ensureActive cfg) := by
  cases oip
  · exact ensureActive_toB cfg sha c
  · rfl

theorem deleteWithOpt_toB (hB : BytesOK cfg sha) {c : CState} (hinv : CInv cfg c) (hs : c.IdxSized)
    (k : Key) (ts : Nat) (m : Option Meta) (oip : Bool) :
    (c.deleteWithOpt cfg k ts m oip).1.toB sha = ((c.toB sha).deleteWithOpt cfg k ts m oip).1 ∧
    (c.deleteWithOpt cfg k ts m oip).2 = ((c.toB sha).deleteWithOpt cfg k ts m oip).2 := by
  obtain ⟨c0, hc0, hinv0, hs0⟩ : ∃ c0, c0 = (if oip then c else c.ensureActive cfg) ∧ CInv cfg c0 ∧ c0.IdxSized := by
    refine ⟨_, rfl, ?_, ?_⟩
    · cases oip
      · exact ensureActive_inv hinv
      · exact hinv
    · cases oip
      · exact ensureActive_idxSized hs
      · exact hs
  unfold CState.deleteWithOpt BState.deleteWithOpt
  simp only []
  rw [← deleteBase_toB, ← hc0]
  have hact : (c0.toB sha).active = c0.active.map (CBlob.toB sha) := rfl
  have hcont : (c0.toB sha).cont = mapData (CBlob.toB sha) c0.cont := rfl
  have hclosed : ∀ b ∈ closedBlobs c0.cont, BlobInv cfg b ∧ b.IdxSized := by
    intro b hb
    have : b ∈ c0.blobs := by unfold CState.blobs; exact List.mem_append_left _ hb
    exact ⟨CInvG.blobInv hinv0 this, hs0 b this⟩
  constructor
  · apply BState.ext'
    · show (c0.active.map (fun a => (a.deleteM cfg k ts m oip).1)).map (CBlob.toB sha) = _
      rw [hact]
      cases ha : c0.active with
      | none => rfl
      | some a =>
        simp only [Option.map_some]
        have hab : a ∈ c0.blobs := mem_blobs_active ha
        rw [deleteM_toB hB (CInvG.blobInv hinv0 hab) (hs0 a hab)]
    · show mapData (CBlob.toB sha) (mapChildren c0.cont (fun b => (b.deleteM cfg k ts m true).1))
        = mapChildrenB (mapData (CBlob.toB sha) c0.cont) (fun b => (b.deleteM cfg k ts m true).1)
      symm
      apply mapChildrenB_mapData
      intro b hb
      rw [deleteM_toB hB (hclosed b hb).1 (hclosed b hb).2]
    · rfl
  · rw [hact, hcont, closedBlobsB_mapData]
    congr 1
    · cases ha : c0.active with
      | none => rfl
      | some a =>
        simp only [Option.map_some]
        have hab : a ∈ c0.blobs := mem_blobs_active ha
        rw [deleteM_toB hB (CInvG.blobInv hinv0 hab) (hs0 a hab)]
    · rw [List.filter_map, List.length_map]
      congr 1
      apply List.filter_congr
      intro b hb
      simp only [Function.comp_apply]
      rw [deleteM_toB hB (hclosed b hb).1 (hclosed b hb).2]

theorem childOps_filterOf_toB (cfg : Cfg) (sha : List Nat → List Nat) (b : CBlob) :
    (childOpsB cfg).filterOf (b.toB sha) = (childOps cfg).filterOf b := rfl

theorem blobs_toB (sha : List Nat → List Nat) (c : CState) : (c.toB sha).blobs = c.blobs.map (CBlob.toB sha) := by
  unfold BState.blobs CState.blobs
  have hcont : (c.toB sha).cont = mapData (CBlob.toB sha) c.cont := rfl
  have hact : (c.toB sha).active = c.active.map (CBlob.toB sha) := rfl
  rw [hcont, closedBlobsB_mapData, hact, List.map_append]
  cases c.active <;> rfl

theorem insertByIdB_map (sha : List Nat → List Nat) (b : CBlob) : ∀ (l : List CBlob),
    insertByIdB (b.toB sha) (l.map (CBlob.toB sha)) = (insertById b l).map (CBlob.toB sha)
  | [] => rfl
  | c :: cs => by
    simp only [List.map_cons, insertByIdB, insertById]
    by_cases h : b.id < c.id
    · have h' : (b.toB sha).id < (c.toB sha).id := h
      rw [if_pos h, if_pos h']; rfl
    · have h' : ¬ (b.toB sha).id < (c.toB sha).id := h
      rw [if_neg h, if_neg h']
      simp only [List.map_cons, insertByIdB_map sha b cs]

theorem sortByIdB_map (sha : List Nat → List Nat) : ∀ (l : List CBlob),
    sortByIdB (l.map (CBlob.toB sha)) = (sortById l).map (CBlob.toB sha)
  | [] => rfl
  | b :: l => by
    have ih := sortByIdB_map sha l
    simp only [sortByIdB, sortById, List.map_cons, List.foldr_cons] at ih ⊢
    rw [ih, insertByIdB_map]

theorem regenAllB_map (cfg : Cfg) (sha : List Nat → List Nat) : ∀ (l : List CBlob),
    regenAllB cfg (l.map (CBlob.toB sha)) = (regenAll cfg l).map (List.map (CBlob.toB sha))
  | [] => rfl
  | b :: l => by
    simp only [List.map_cons, regenAllB, regenAll, regen_toB, regenAllB_map cfg sha l]
    cases regen cfg b <;> cases regenAll cfg l <;> rfl

theorem restart_toB (cfg : Cfg) (sha : List Nat → List Nat) (c : CState) (lazy : Bool) :
    (c.restart cfg lazy).toB sha = (c.toB sha).restart cfg sha lazy := by
  unfold CState.restart BState.restart
  rw [blobs_toB, sortByIdB_map, regenAllB_map]
  cases regenAll cfg (sortById c.blobs) with
  | none => rfl
  | some bs =>
    simp only [Option.map_some]
    have hmax : (bs.map (CBlob.toB sha)).foldl (fun m b => max m (b.id + 1)) 0
        = bs.foldl (fun m b => max m (b.id + 1)) 0 := by
      rw [List.foldl_map]; rfl
    have hdump : ∀ (l : List CBlob), (l.map (CBlob.toB sha)).map (BBlob.dump cfg sha)
        = (l.map (CBlob.dump cfg)).map (CBlob.toB sha) := by
      intro l
      simp only [List.map_map]
      apply List.map_congr_left
      intro b _
      exact dump_toB cfg sha b
    have hext : ∀ (l : List CBlob),
        Container.extend (fops cfg) (childOpsB cfg) (BState.emptyCont cfg) (l.map (CBlob.toB sha))
          = mapData (CBlob.toB sha) (Container.extend (fops cfg) (childOps cfg) (CState.emptyCont cfg) l) := by
      intro l
      have := extend_mapData (CBlob.toB sha) (fops cfg) (childOps cfg) (childOpsB cfg)
        (childOps_filterOf_toB cfg sha) l (CState.emptyCont cfg)
      rw [← this]
      rfl
    rw [hmax]
    cases lazy with
    | true =>
      simp only [if_true]
      rw [hdump, hext]
      rfl
    | false =>
      simp only [Bool.false_eq_true, if_false]
      rw [List.getLast?_map]
      cases bs.getLast? with
      | none => rfl
      | some a =>
        simp only [Option.map_some]
        rw [← List.map_dropLast, hdump, hext]
        rfl

theorem stepM_toB (hB : BytesOK cfg sha) {c : CState} (hinv : CInv cfg c) (hs : c.IdxSized) (op : MOp) :
    (c.stepM cfg op).toB sha = (c.toB sha).stepB cfg sha op := by
  have hact : (c.toB sha).active = c.active.map (CBlob.toB sha) := rfl
  have hcont : (c.toB sha).cont = mapData (CBlob.toB sha) c.cont := rfl
  cases op with
  | write k ts m d => exact writeWithOpt_toB hB hinv hs k ts m d
  | delete k ts m oip => exact (deleteWithOpt_toB hB hinv hs k ts m oip).1
  | closeActive =>
    simp only [CState.stepM, CState.step, BState.stepB, CState.closeActive, BState.closeActive, hact]
    cases c.active with
    | none => rfl
    | some a =>
      simp only [Option.map_some, hcont]
      rw [push_mapData (CBlob.toB sha) (fops cfg) (childOps cfg) (childOpsB cfg) (childOps_filterOf_toB cfg sha)]
      rfl
  | createActive =>
    simp only [CState.stepM, CState.step, BState.stepB, CState.tryCreateActive, BState.tryCreateActive, hact]
    cases c.active with
    | none => rfl
    | some a => rfl
  | restoreActive =>
    simp only [CState.stepM, CState.step, BState.stepB, CState.restoreActive, BState.restoreActive, hact]
    cases c.active with
    | some a => rfl
    | none =>
      simp only [Option.map_none, hcont, lastId_mapData]
      cases c.cont.lastId with
      | none => rfl
      | some i =>
        simp only []
        have hload : ∀ b ∈ closedBlobs c.cont, (BBlob.loadIndex cfg) (b.toB sha) = (b.loadIndex cfg).toB sha := by
          intro b hb
          have : b ∈ c.blobs := by unfold CState.blobs; exact List.mem_append_left _ hb
          exact loadIndex_toB hB (CInvG.blobInv hinv this) (hs b this)
        rw [modifyChildB_mapData sha c.cont i (BBlob.loadIndex cfg) (CBlob.loadIndex cfg) hload, pop_mapData]
        cases hp : (modifyChild c.cont i (CBlob.loadIndex cfg)).pop with
        | mk cont' ob =>
          cases ob with
          | none => rfl
          | some b => rfl
  | replaceActive =>
    simp only [CState.stepM, CState.step, BState.stepB, CState.replaceActive, BState.replaceActive, hact]
    cases c.active with
    | none => rfl
    | some a =>
      simp only [Option.map_some]
      have h1 : ((c.toB sha).createActive cfg).cont = mapData (CBlob.toB sha) (c.createActive cfg).cont := rfl
      rw [h1, push_mapData (CBlob.toB sha) (fops cfg) (childOps cfg) (childOpsB cfg) (childOps_filterOf_toB cfg sha)]
      rfl
  | settle =>
    simp only [CState.stepM, CState.step, BState.stepB, CState.settle, BState.settle]
    apply BState.ext'
    · rfl
    · show mapData (CBlob.toB sha) (mapChildren c.cont (CBlob.dump cfg))
        = mapChildrenB (mapData (CBlob.toB sha) c.cont) (BBlob.dump cfg sha)
      symm
      apply mapChildrenB_mapData
      intro b _
      exact dump_toB cfg sha b
    · rfl
  | restart lazy => exact restart_toB cfg sha c lazy

theorem init_toB (cfg : Cfg) (sha : List Nat → List Nat) : (CState.init cfg).toB sha = BState.init cfg := rfl

/-! ### runs -/

theorem brun_cons (cfg : Cfg) (sha : List Nat → List Nat) (c : BState) (op : MOp) (ops : List MOp) :
    c.runB cfg sha (op :: ops) = (c.stepB cfg sha op).runB cfg sha ops := rfl

/-- along a run the byte-level storage is the translation of the structured one, when every index file on disk in
    every state passed through is shorter than `2^64` bytes -/
theorem runB_eq_from (hB : BytesOK cfg sha) : ∀ (ops : List MOp) (c : CState), CInv cfg c →
    StoreMetaOK (c.abs cfg) → (∀ op ∈ ops, op.OK cfg) →
    (∀ n, n ≤ ops.length → StoreSized cfg.klen ((c.abs cfg).run ((ops.take n).map MOp.abs))) →
    (∀ n, n ≤ ops.length → (c.runM cfg (ops.take n)).IdxSized) →
    (c.runM cfg ops).toB sha = (c.toB sha).runB cfg sha ops
  | [], _, _, _, _, _, _ => rfl
  | op :: ops, c, hinv, hmeta, hops, hsz, hidx => by
    have h1 := hsz 1 (by simp)
    simp only [List.take_succ_cons, List.take_zero, List.map_cons, List.map_nil, Store.run_cons, Store.run_nil] at h1
    obtain ⟨ha, hi⟩ := stepM_ref hB.ok hinv hmeta op (hops op (by simp)) h1
    have hm' : StoreMetaOK ((c.stepM cfg op).abs cfg) := by
      rw [ha]; exact stepM_metaOK hinv.wf hmeta op (hops op (by simp))
    have hs0 : c.IdxSized := hidx 0 (by simp)
    rw [crunM_cons, brun_cons, ← stepM_toB hB hinv hs0 op]
    apply runB_eq_from hB ops (c.stepM cfg op) hi hm' (fun o ho => hops o (by simp [ho]))
    · intro n hn
      have := hsz (n + 1) (by simp; omega)
      simp only [List.take_succ_cons, List.map_cons, Store.run_cons] at this
      rw [ha]; exact this
    · intro n hn
      have := hidx (n + 1) (by simp; omega)
      simpa only [List.take_succ_cons, crunM_cons] using this

/-- … from the empty directory -/
theorem runB_eq (hB : BytesOK cfg sha) (ops : List MOp) (hops : ∀ op ∈ ops, op.OK cfg)
    (hsz : StoreSized cfg.klen ((Store.init cfg.allowDup).run (ops.map MOp.abs)))
    (hidx : ∀ n, n ≤ ops.length → ((CState.init cfg).runM cfg (ops.take n)).IdxSized) :
    (BState.init cfg).runB cfg sha ops = ((CState.init cfg).runM cfg ops).toB sha := by
  rw [← init_toB cfg sha]
  symm
  apply runB_eq_from hB ops (CState.init cfg) (init_inv hB.ok) (by rw [init_abs]; exact init_metaOK _) hops _ hidx
  intro n _
  rw [init_abs, List.map_take]
  exact storeSized_prefix cfg.klen (init_WF _) _ hsz n

end

end Pearl.E2E
