import Pearl.Model.EndToEndMeta
import Pearl.Proofs.EndToEndGhost
/-
The history variable `CBlob.ghost` is not read by the operations and read paths added in
`Pearl/Model/EndToEndMeta.lean` either — for ANY concrete state, without the invariant:
`readWithOpt_ghost_irrelevant`, `readAll_ghost_irrelevant`, `stepM_eraseGhost`.
-/
namespace Pearl.E2E
open Pearl Pearl.Container

theorem getLatestEntryM_eraseGhost (cfg : Cfg) (c : CState) (k : Key) (m : Option Meta) :
    c.eraseGhost.getLatestEntryM cfg k m = c.getLatestEntryM cfg k m := by
  unfold CState.getLatestEntryM
  rw [consulted_eraseGhost, foldEntries_map]
  rfl

theorem collectEntries_map (f : CBlob → Except CErr (List CEntry)) (g : CBlob → CBlob) :
    ∀ (l : List CBlob), collectEntries f (l.map g) = collectEntries (fun b => f (g b)) l
  | [] => rfl
  | b :: l => by
    simp only [List.map_cons, collectEntries, collectEntries_map f g l]

/-- the read paths with metadata do not read the history variable -/
theorem readWithOpt_ghost_irrelevant (cfg : Cfg) (c : CState) (k : Key) (m : Option Meta) :
    c.eraseGhost.readWithOpt cfg k m = c.readWithOpt cfg k m ∧
      c.eraseGhost.containsWith cfg k m = c.containsWith cfg k m := by
  unfold CState.readWithOpt CState.containsWith
  rw [getLatestEntryM_eraseGhost]
  exact ⟨rfl, rfl⟩

theorem readAll_ghost_irrelevant (cfg : Cfg) (c : CState) (k : Key) :
    c.eraseGhost.readAllMarked cfg k = c.readAllMarked cfg k ∧ c.eraseGhost.readAll cfg k = c.readAll cfg k := by
  have h : c.eraseGhost.readAllMarked cfg k = c.readAllMarked cfg k := by
    unfold CState.readAllMarked
    rw [consulted_eraseGhost, collectEntries_map]
    rfl
  refine ⟨h, ?_⟩
  unfold CState.readAll
  rw [h]

theorem deleteM_eraseGhost (cfg : Cfg) (b : CBlob) (k : Key) (ts : Nat) (m : Option Meta) (oip : Bool) :
    (b.eraseGhost.deleteM cfg k ts m oip).1.eraseGhost = (b.deleteM cfg k ts m oip).1.eraseGhost ∧
      (b.eraseGhost.deleteM cfg k ts m oip).2 = (b.deleteM cfg k ts m oip).2 := by
  unfold CBlob.deleteM
  have h1 : b.eraseGhost.indexLatest k = b.indexLatest k := rfl
  rw [h1]
  have key : ∀ present : Bool,
      ((if (!oip || present) = true then
          ((b.eraseGhost.loadIndex cfg).writeRec cfg ⟨k, ts, true, m.getD none, ⟨0, 0⟩⟩, true)
        else (b.eraseGhost, false)).1.eraseGhost
        = (if (!oip || present) = true then
          ((b.loadIndex cfg).writeRec cfg ⟨k, ts, true, m.getD none, ⟨0, 0⟩⟩, true)
        else (b, false)).1.eraseGhost) ∧
      ((if (!oip || present) = true then
          ((b.eraseGhost.loadIndex cfg).writeRec cfg ⟨k, ts, true, m.getD none, ⟨0, 0⟩⟩, true)
        else (b.eraseGhost, false)).2
        = (if (!oip || present) = true then
          ((b.loadIndex cfg).writeRec cfg ⟨k, ts, true, m.getD none, ⟨0, 0⟩⟩, true)
        else (b, false)).2) := by
    intro present
    by_cases hgo : (!oip || present) = true
    · rw [if_pos hgo, if_pos hgo]
      refine ⟨?_, rfl⟩
      simp only []
      rw [loadIndex_eraseGhost, writeRec_eraseGhost]
    · rw [if_neg hgo, if_neg hgo]
      exact ⟨rfl, rfl⟩
  exact key _

theorem writeWithOpt_eraseGhost (cfg : Cfg) (c : CState) (k : Key) (ts : Nat) (m : Option Meta) (d : Data) :
    (c.writeWithOpt cfg k ts m d).eraseGhost = (c.eraseGhost.writeWithOpt cfg k ts m d).eraseGhost := by
  unfold CState.writeWithOpt
  simp only []
  rw [← ensureActive_eraseGhost, (readWithOpt_ghost_irrelevant cfg (c.ensureActive cfg) k m).2]
  generalize (if cfg.allowDup = true then (Except.ok false : Except CErr Bool)
    else match (c.ensureActive cfg).containsWith cfg k m with
      | .error e => .error e
      | .ok r => .ok r.isFound) = dup
  cases dup with
  | error e => simp only [eraseGhost_eraseGhost]
  | ok b =>
    cases b with
    | true => simp only [eraseGhost_eraseGhost]
    | false =>
      simp only [eraseGhost_active]
      cases ha : (c.ensureActive cfg).active with
      | none => simp only [Option.map_none, eraseGhost_eraseGhost]
      | some a =>
        simp only [Option.map_some]
        apply CState.ext'
        · simp only [eraseGhost_active, Option.map_some, writeRec_eraseGhost]
        · simp only [eraseGhost_cont, mapChildren_eraseGhost_idem]
        · rfl

theorem deleteWithOpt_eraseGhost (cfg : Cfg) (c : CState) (k : Key) (ts : Nat) (m : Option Meta) (oip : Bool) :
    (c.deleteWithOpt cfg k ts m oip).1.eraseGhost = (c.eraseGhost.deleteWithOpt cfg k ts m oip).1.eraseGhost := by
  have hbase : (if oip = true then c else c.ensureActive cfg).eraseGhost
      = (if oip = true then c.eraseGhost else c.eraseGhost.ensureActive cfg) := by
    cases oip
    · exact ensureActive_eraseGhost cfg c
    · rfl
  unfold CState.deleteWithOpt
  simp only []
  rw [← hbase]
  generalize (if oip = true then c else c.ensureActive cfg) = c0
  apply CState.ext'
  · simp only [eraseGhost_active, Option.map_map]
    cases c0.active with
    | none => rfl
    | some a =>
      simp only [Option.map_some, Function.comp_apply]
      rw [(deleteM_eraseGhost cfg a k ts m oip).1]
  · simp only [eraseGhost_cont, mapChildren_mapChildren]
    apply mapChildren_congr
    intro b
    exact ((deleteM_eraseGhost cfg b k ts m true).1).symm
  · rfl

/-- for ANY state and operation with metadata, the physical part of the next state is a function of the physical
    part of the current state -/
theorem stepM_eraseGhost (cfg : Cfg) (c : CState) (op : MOp) :
    (c.stepM cfg op).eraseGhost = (c.eraseGhost.stepM cfg op).eraseGhost := by
  cases op with
  | write k ts m d => exact writeWithOpt_eraseGhost cfg c k ts m d
  | delete k ts m oip => exact deleteWithOpt_eraseGhost cfg c k ts m oip
  | closeActive => exact step_eraseGhost cfg c .closeActive
  | createActive => exact step_eraseGhost cfg c .createActive
  | restoreActive => exact step_eraseGhost cfg c .restoreActive
  | replaceActive => exact step_eraseGhost cfg c .replaceActive
  | settle => exact step_eraseGhost cfg c .settle
  | restart lazy => exact step_eraseGhost cfg c (.restart lazy)

end Pearl.E2E
