import Pearl.Proofs.StoreLemmas
/-
End-to-end composition with metadata, L2 side: the records of the next L2 state are records of the current state
or the one record the operation appends (`apply_recs`).  Used to carry range conditions on stored records (here:
metadata values are byte strings) along a history from range conditions on the operations.
-/
namespace Pearl
namespace Store

/-- the record an operation appends, if any -/
def newRec : Op → Option Rec
  | .write k ts m d => some { key := k, ts := ts, del := false, mt := m.getD none, data := d }
  | .delete k ts m _ => some (marker k ts m)
  | _ => none

/-- every record of every blob satisfies `P` -/
def AllRecs (P : Rec → Prop) (s : Store) : Prop := ∀ b ∈ s.blobs, ∀ r ∈ b.recs, P r

theorem AllRecs.of_blobs_eq {P : Rec → Prop} {s s' : Store} (h : AllRecs P s) (he : s'.blobs = s.blobs) :
    AllRecs P s' := by
  intro b hb; rw [he] at hb; exact h b hb

theorem AllRecs.of_grow {P : Rec → Prop} {s s' : Store} (h : AllRecs P s) (g : Grow s s') : AllRecs P s' := by
  cases g with
  | same hb _ => exact h.of_blobs_eq hb
  | new hb _ =>
    intro b hbm r hr
    rw [hb] at hbm
    rcases List.mem_append.mp hbm with hbm | hbm
    · exact h b hbm r hr
    · simp only [List.mem_singleton] at hbm
      subst hbm
      cases hr

theorem allRecs_flag {P : Rec → Prop} {bs : List Blob} (f : Blob → Blob) (hf : ∀ b, (f b).recs = b.recs)
    (h : ∀ b ∈ bs, ∀ r ∈ b.recs, P r) : ∀ b ∈ bs.map f, ∀ r ∈ b.recs, P r := by
  intro b hb r hr
  obtain ⟨b0, hb0, rfl⟩ := List.mem_map.mp hb
  rw [hf] at hr
  exact h b0 hb0 r hr

theorem write_allRecs {P : Rec → Prop} {s : Store} (h : AllRecs P s) (k : Key) (ts : Nat) (m : Option Meta)
    (d : Data) (hnew : P { key := k, ts := ts, del := false, mt := m.getD none, data := d }) :
    AllRecs P (s.write k ts m d) := by
  have h1 : AllRecs P s.ensureActive := h.of_grow (ensureActive_grow s)
  simp only [write]
  split
  · exact h1
  · split
    · exact h1
    · rename_i a ha
      intro b hb r hr
      simp only [blobs, closed, Option.toList, List.mem_append, List.mem_singleton] at hb
      rcases hb with hb | hb
      · exact h1 b (by simp only [blobs, closed]; exact List.mem_append_left _ hb) r hr
      · subst hb
        simp only [Blob.append, List.mem_append, List.mem_singleton] at hr
        rcases hr with hr | hr
        · exact h1 a (by simp [blobs, ha]) r hr
        · subst hr; exact hnew

theorem blobDelete_recs {P : Rec → Prop} (b : Blob) (k : Key) (ts : Nat) (m : Option Meta) (oip : Bool)
    (hb : ∀ r ∈ b.recs, P r) (hnew : P (marker k ts m)) : ∀ r ∈ (blobDelete b k ts m oip).1.recs, P r := by
  intro r hr
  rw [blobDelete_fst] at hr
  split at hr
  · simp only [mark, List.mem_append, List.mem_singleton] at hr
    rcases hr with hr | hr
    · exact hb r hr
    · subst hr; exact hnew
  · exact hb r hr

theorem delete_allRecs {P : Rec → Prop} {s : Store} (h : AllRecs P s) (k : Key) (ts : Nat) (m : Option Meta)
    (oip : Bool) (hnew : P (marker k ts m)) : AllRecs P (s.delete k ts m oip).1 := by
  have h1 : AllRecs P (s.deleteBase oip) := h.of_grow (deleteBase_grow s oip)
  intro b hb r hr
  rw [delete_blobs] at hb
  rcases List.mem_append.mp hb with hb | hb
  · obtain ⟨b0, hb0, rfl⟩ := List.mem_map.mp hb
    exact blobDelete_recs b0 k ts m true
      (h1 b0 (by simp only [blobs]; exact List.mem_append_left _ hb0)) hnew r hr
  · obtain ⟨b0, hb0, rfl⟩ := List.mem_map.mp hb
    exact blobDelete_recs b0 k ts m oip
      (h1 b0 (by simp only [blobs]; exact List.mem_append_right _ hb0)) hnew r hr

/-- the records of the next state are records of the current state or the record the operation appends -/
theorem apply_allRecs {P : Rec → Prop} {s : Store} (hwf : s.WF) (h : AllRecs P s) (op : Op)
    (hnew : ∀ r, newRec op = some r → P r) : AllRecs P (s.apply op) := by
  cases op with
  | write k ts m d => exact write_allRecs h k ts m d (hnew _ rfl)
  | delete k ts m oip => exact delete_allRecs h k ts m oip (hnew _ rfl)
  | closeActive =>
    simp only [apply]
    cases hc : s.closeActive with
    | error e => exact h
    | ok s' =>
      unfold closeActive at hc
      cases ha : s.active with
      | none => rw [ha] at hc; simp at hc
      | some a =>
        rw [ha] at hc
        simp only [Except.ok.injEq] at hc
        subst hc
        exact h.of_blobs_eq (by simp [blobs, closed, ha, List.filterMap_append])
  | createActive =>
    simp only [apply]
    cases hc : s.tryCreateActive with
    | error e => exact h
    | ok s' =>
      unfold tryCreateActive at hc
      cases ha : s.active with
      | some a => rw [ha] at hc; simp at hc
      | none =>
        rw [ha] at hc
        simp only [Except.ok.injEq] at hc
        subst hc
        exact h.of_grow (.new (blobs_createActive ha) rfl)
  | restoreActive =>
    simp only [apply]
    cases hc : s.restoreActive with
    | error e => exact h
    | ok s' =>
      unfold restoreActive at hc
      cases ha : s.active with
      | some a => rw [ha] at hc; simp at hc
      | none =>
        rw [ha] at hc
        cases hl : lastPresent s.slots with
        | none => rw [hl] at hc; simp at hc
        | some p =>
          obtain ⟨i, b⟩ := p
          rw [hl] at hc
          simp only [Except.ok.injEq] at hc
          subst hc
          have hb : s.blobs = (s.slots.set i none).filterMap id ++ [b] := by
            simp [blobs, closed, ha, lastPresent_some hl]
          intro b' hb' r hr
          simp only [blobs, closed, Option.toList, List.mem_append, List.mem_singleton] at hb'
          rcases hb' with hb' | hb'
          · exact h b' (by rw [hb]; exact List.mem_append_left _ hb') r hr
          · subst hb'
            exact h b (by rw [hb]; simp) r hr
  | replaceActive =>
    simp only [apply]
    unfold replaceActive
    cases ha : s.active with
    | none => exact h.of_grow (.new (blobs_createActive ha) rfl)
    | some a =>
      intro b hb r hr
      simp only [blobs, closed, createActive, List.filterMap_append, Option.toList, List.mem_append,
        List.mem_singleton, List.filterMap_cons, List.filterMap_nil, id] at hb
      rcases hb with (hb | hb) | hb
      · exact h b (by simp only [blobs, closed]; exact List.mem_append_left _ hb) r hr
      · subst hb
        exact h b (by simp [blobs, ha]) r hr
      · subst hb; cases hr
  | settle =>
    simp only [apply]
    intro b hb r hr
    simp only [settle, blobs, closed, closed_map_option] at hb
    rcases List.mem_append.mp hb with hb | hb
    · exact allRecs_flag (fun b => if b.recs.isEmpty then b else { b with onDisk := true })
        (fun b => by split <;> rfl)
        (fun b hb => h b (by simp only [blobs, closed]; exact List.mem_append_left _ hb)) b hb r hr
    · exact h b (by simp only [blobs]; exact List.mem_append_right _ hb) r hr
  | restart lazy =>
    simp only [apply]
    have hsort := sortById_of_sorted s.blobs hwf.1
    have hflag : ∀ b : Blob, (if b.recs.isEmpty then b else { b with onDisk := true }).recs = b.recs := by
      intro b; split <;> rfl
    cases lazy with
    | true =>
      have hb : (s.restart true).blobs =
          s.blobs.map (fun b => if b.recs.isEmpty then b else { b with onDisk := true }) := by
        simp only [restart, hsort, if_true]
        generalize s.blobs = bs
        simp only [blobs, closed, Option.toList, List.append_nil, filterMap_id_map_some]
      intro b hbm r hr
      rw [hb] at hbm
      exact allRecs_flag _ hflag h b hbm r hr
    | false =>
      cases hl : s.blobs.getLast? with
      | none =>
        intro b hbm r hr
        simp only [restart, hsort, hl, Bool.false_eq_true, if_false] at hbm
        simp [createActive, blobs, closed] at hbm
        subst hbm
        cases hr
      | some a =>
        obtain ⟨ys, hys⟩ := List.getLast?_eq_some_iff.1 hl
        have hb : (s.restart false).blobs =
            ys.map (fun b => if b.recs.isEmpty then b else { b with onDisk := true }) ++
              [{ a with onDisk := false }] := by
          simp only [restart, hsort, hl, Bool.false_eq_true, if_false]
          rw [hys, List.dropLast_concat]
          generalize ys = zs
          simp only [blobs, closed, Option.toList, filterMap_id_map_some]
        intro b hbm r hr
        rw [hb] at hbm
        rcases List.mem_append.mp hbm with hbm | hbm
        · exact allRecs_flag _ hflag (fun b hb => h b (by rw [hys]; exact List.mem_append_left _ hb)) b hbm r hr
        · simp only [List.mem_singleton] at hbm
          subst hbm
          exact h a (by rw [hys]; simp) r hr

theorem init_allRecs (P : Rec → Prop) (d : Bool) : AllRecs P (Store.init d) := by
  intro b hb r hr
  simp [init, createActive, blobs, closed] at hb
  subst hb
  cases hr

/-- along a run: every record of the final state satisfies a predicate that holds of every appended record -/
theorem run_allRecs {P : Rec → Prop} : ∀ (ops : List Op) (s : Store), s.WF → AllRecs P s →
    (∀ op ∈ ops, ∀ r, newRec op = some r → P r) → AllRecs P (s.run ops)
  | [], _, _, h, _ => h
  | op :: ops, s, hwf, h, hops => by
    rw [run_cons]
    exact run_allRecs ops _ (apply_WF' hwf op) (apply_allRecs hwf h op (hops op (by simp)))
      (fun o ho => hops o (by simp [ho]))

end Store
end Pearl
