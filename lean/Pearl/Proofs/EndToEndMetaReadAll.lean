import Pearl.Proofs.EndToEndMetaSteps
import Pearl.Props.C02
/-
End-to-end composition, `read_all_with_deletion_marker` / `read_all`: under the invariant the concrete path
(per blob `get_all_with_deletion_marker` through the vector or the index file, over the active blob and the
children `iter_possible_childs_rev` yields; cross-blob stable sort by timestamp; global cut after the first
marker) returns entries that are, one by one and in order, entries of the records `Store.readAllMarked` /
`Store.readAll` return (`readAllMarked_rr`, `readAll_rr`).

The concrete list and the L2 list are the two projections of one list of pairs `(record, entry)`; the merge
(`mergeBy`) is generic in the element type and commutes with maps that keep the timestamp and the marker flag.
-/
namespace Pearl.E2E
open Pearl Pearl.BPTree Pearl.Container

/-! ### the merge of the per-blob lists, generically -/

/-- `entries.last().map(|e| e.is_deleted()).unwrap_or(false)` -/
def lastDelBy {α : Type} (del : α → Bool) (l : List α) : Bool :=
  match l.getLast? with
  | some h => del h
  | none => false

theorem any_congr' {α : Type} (f g : α → Bool) : ∀ (l : List α), (∀ x ∈ l, f x = g x) → l.any f = l.any g
  | [], _ => rfl
  | x :: xs, h => by
    simp only [List.any_cons, h x (by simp), any_congr' f g xs (fun y hy => h y (by simp [hy]))]

/-- the tail of `read_all_with_deletion_marker` for any element type -/
def mergeBy {α : Type} (ts : α → Nat) (del : α → Bool) (per : List (List α)) : List α :=
  let affected := (per.filter (fun l => !l.isEmpty)).length
  let delPresent := per.any (lastDelBy del)
  let all := per.flatten
  if affected > 1 then
    let sorted := sortDescBy ts all
    if delPresent then cutBy del sorted else sorted
  else all

theorem insertEntryDesc_eq (x : CEntry) : ∀ (l : List CEntry),
    insertEntryDesc x l = insertDescBy (fun e : CEntry => e.hdr.timestamp) x l
  | [] => rfl
  | y :: ys => by simp only [insertEntryDesc, insertDescBy, insertEntryDesc_eq x ys]

theorem sortEntriesDesc_eq (l : List CEntry) :
    sortEntriesDesc l = sortDescBy (fun e : CEntry => e.hdr.timestamp) l := by
  unfold sortEntriesDesc sortDescBy
  induction l with
  | nil => rfl
  | cons x xs ih => rw [List.foldr_cons, List.foldr_cons, ih, insertEntryDesc_eq]

theorem mergeEntries_eq (per : List (List CEntry)) :
    mergeEntries per = mergeBy (fun e => e.hdr.timestamp) (fun e => e.hdr.isDeleted) per := by
  have h : ∀ (f : List CEntry → Bool), (∀ l, f l = lastDelBy (fun e : CEntry => e.hdr.isDeleted) l) →
      per.any f = per.any (lastDelBy (fun e : CEntry => e.hdr.isDeleted)) :=
    fun f hf => any_congr' _ _ _ (fun l _ => hf l)
  unfold mergeEntries mergeBy
  simp only [sortEntriesDesc_eq, cutEntries_eq]
  rw [h]
  intro l; unfold lastDelBy; cases l.getLast? <;> rfl

theorem readAllMarkedL_eq (per : List (List Rec)) : readAllMarkedL per = mergeBy Rec.ts Rec.del per := by
  have h : ∀ (f : List Rec → Bool), (∀ l, f l = lastDelBy Rec.del l) → per.any f = per.any (lastDelBy Rec.del) :=
    fun f hf => any_congr' _ _ _ (fun l _ => hf l)
  unfold readAllMarkedL mergeBy
  simp only [sortDesc_eq, cutHdrs_eq]
  rw [h]
  intro l; unfold lastDelBy; cases l.getLast? <;> rfl

theorem mergeBy_map {α β : Type} (g : α → β) (ts : β → Nat) (del : β → Bool) (per : List (List α)) :
    mergeBy ts del (per.map (List.map g)) = (mergeBy (fun a => ts (g a)) (fun a => del (g a)) per).map g := by
  have h1 : ((per.map (List.map g)).filter (fun l => !l.isEmpty)).length =
      (per.filter (fun l => !l.isEmpty)).length := by
    rw [List.filter_map, List.length_map]
    congr 1
    apply List.filter_congr
    intro l _
    simp
  have h2 : (per.map (List.map g)).any (lastDelBy del) = per.any (lastDelBy (fun a => del (g a))) := by
    rw [List.any_map]
    congr 1
    funext l
    simp only [Function.comp_apply, lastDelBy, List.getLast?_map]
    cases l.getLast? <;> rfl
  have h3 : (per.map (List.map g)).flatten = per.flatten.map g := by rw [List.map_flatten]
  unfold mergeBy
  simp only [h1, h2, h3]
  rw [← sortDescBy_map g ts, cutBy_map]
  split
  · split <;> rfl
  · rfl

theorem insertDescBy_congr {α : Type} (f f' : α → Nat) (x : α) : ∀ (l : List α), f x = f' x →
    (∀ y ∈ l, f y = f' y) → insertDescBy f x l = insertDescBy f' x l
  | [], _, _ => rfl
  | y :: ys, hx, hl => by
    simp only [insertDescBy]
    rw [hx, hl y (by simp), insertDescBy_congr f f' x ys hx (fun z hz => hl z (by simp [hz]))]

theorem sortDescBy_congr {α : Type} (f f' : α → Nat) : ∀ (l : List α), (∀ y ∈ l, f y = f' y) →
    sortDescBy f l = sortDescBy f' l
  | [], _ => rfl
  | x :: xs, h => by
    have ih := sortDescBy_congr f f' xs (fun y hy => h y (by simp [hy]))
    unfold sortDescBy at ih ⊢
    rw [List.foldr_cons, List.foldr_cons, ih]
    apply insertDescBy_congr f f' x _ (h x (by simp))
    intro y hy
    have : y ∈ xs := (sortDescBy_perm f' xs).mem_iff.mp hy
    exact h y (by simp [this])

theorem cutBy_congr {α : Type} (d d' : α → Bool) : ∀ (l : List α), (∀ y ∈ l, d y = d' y) → cutBy d l = cutBy d' l
  | [], _ => rfl
  | x :: xs, h => by
    simp only [cutBy]
    rw [h x (by simp), cutBy_congr d d' xs (fun y hy => h y (by simp [hy]))]

theorem mem_flatten_of_getLast? {α : Type} {per : List (List α)} {l : List α} {x : α} (hl : l ∈ per)
    (hx : l.getLast? = some x) : x ∈ per.flatten :=
  List.mem_flatten.mpr ⟨l, hl, List.mem_of_getLast? hx⟩

theorem any_filter_nonempty {α : Type} (del : α → Bool) : ∀ (per : List (List α)),
    (per.filter (fun l => !l.isEmpty)).any (lastDelBy del) = per.any (lastDelBy del)
  | [] => rfl
  | [] :: ls => by simpa [lastDelBy] using any_filter_nonempty del ls
  | (a :: as) :: ls => by
    simp only [List.filter_cons, List.isEmpty_cons, Bool.not_false, if_true, List.any_cons,
      any_filter_nonempty del ls]

theorem flatten_filter_nonempty {α : Type} : ∀ (per : List (List α)),
    (per.filter (fun l => !l.isEmpty)).flatten = per.flatten
  | [] => rfl
  | [] :: ls => by simpa using flatten_filter_nonempty ls
  | (a :: as) :: ls => by
    simp only [List.filter_cons, List.isEmpty_cons, Bool.not_false, if_true, List.flatten_cons,
      flatten_filter_nonempty ls]

theorem mergeBy_congr {α : Type} (ts ts' : α → Nat) (del del' : α → Bool) (per : List (List α))
    (hts : ∀ x ∈ per.flatten, ts x = ts' x) (hdel : ∀ x ∈ per.flatten, del x = del' x) :
    mergeBy ts del per = mergeBy ts' del' per := by
  have h2 : per.any (lastDelBy del) = per.any (lastDelBy del') := by
    apply any_congr'
    intro l hl
    unfold lastDelBy
    cases hx : l.getLast? with
    | none => rfl
    | some x => exact hdel x (mem_flatten_of_getLast? hl hx)
  unfold mergeBy
  simp only [h2]
  rw [sortDescBy_congr ts ts' _ hts]
  rw [cutBy_congr del del' (sortDescBy ts' per.flatten)
    (fun y hy => hdel y ((sortDescBy_perm ts' _).mem_iff.mp hy))]

theorem mergeBy_subset {α : Type} (ts : α → Nat) (del : α → Bool) (per : List (List α)) :
    ∀ x ∈ mergeBy ts del per, x ∈ per.flatten := by
  intro x hx
  unfold mergeBy at hx
  simp only [] at hx
  split at hx
  · split at hx
    · exact (sortDescBy_perm ts _).mem_iff.mp (mem_of_mem_cutBy hx)
    · exact (sortDescBy_perm ts _).mem_iff.mp hx
  · exact hx

/-- empty per-blob lists do not matter -/
theorem mergeBy_filter_nonempty {α : Type} (ts : α → Nat) (del : α → Bool) (per : List (List α)) :
    mergeBy ts del (per.filter (fun l => !l.isEmpty)) = mergeBy ts del per := by
  have h1 : (per.filter (fun l => !l.isEmpty)).filter (fun l => !l.isEmpty) = per.filter (fun l => !l.isEmpty) := by
    rw [List.filter_filter]
    apply List.filter_congr
    intro l _
    simp
  have h2 := any_filter_nonempty del per
  have h3 := flatten_filter_nonempty per
  unfold mergeBy
  simp only [h1, h2, h3]

/-- blobs that contribute nothing can be left out -/
theorem map_filter_nonempty {α β : Type} (g : α → List β) (p : α → Bool) : ∀ (l : List α),
    (∀ x ∈ l, p x = false → g x = []) →
    ((l.filter p).map g).filter (fun l => !l.isEmpty) = (l.map g).filter (fun l => !l.isEmpty)
  | [], _ => rfl
  | x :: xs, h => by
    have ih := map_filter_nonempty g p xs (fun y hy => h y (by simp [hy]))
    cases hp : p x with
    | true => simp only [List.filter_cons, hp, if_true, List.map_cons, ih]
    | false =>
      have := h x (by simp) hp
      simp only [List.filter_cons, hp, Bool.false_eq_true, if_false, List.map_cons, this, List.isEmpty_nil,
        Bool.not_true, ih]

/-! ### the per-blob lists -/

/-- the (record, entry) pairs of the cut list of key `k` in blob `b` -/
def pairsOf (klen : Nat) (b : CBlob) (k : Key) : List (Rec × CEntry) :=
  (ocut klen b.ghost k).map (fun p => (p.1, (⟨hdrOf klen p.1 p.2, b.file⟩ : CEntry)))

/-- the entry is an entry of the record: key, timestamp, marker flag, and `Entry::load` returns the meta bytes and
    the data that were written -/
def EntryOf (x : Rec × CEntry) : Prop :=
  hdrKey x.2.hdr = x.1.key ∧ x.2.hdr.timestamp = x.1.ts ∧ x.2.hdr.isDeleted = x.1.del ∧
    entryLoad x.2.file x.2.hdr = .ok (serMeta x.1.mt, if x.1.del then [] else dataOf x.1.data)

theorem BlobInv.pairsOf_entryOf {cfg : Cfg} {b : CBlob} (hb : BlobInv cfg b) (k : Key) :
    ∀ x ∈ pairsOf cfg.klen b k, EntryOf x := by
  intro x hx
  obtain ⟨p, hp, rfl⟩ := List.mem_map.mp hx
  have hmem := (mem_ocut hp).1
  refine ⟨hdrOf_key_of_lt _ _ _ (hb.key _ (mem_withOff_fst hmem)), hdrOf_timestamp _ _ _, hdrOf_isDeleted _ _ _, ?_⟩
  have := load_of_mem cfg.klen b.ghost (by rw [← hb.file]; exact hb.size) p hmem
  simp only []
  rw [hb.file]; exact this

theorem BlobInv.readAllEntriesMarked_eq {cfg : Cfg} {b : CBlob} (hcfg : cfg.OK) (hb : BlobInv cfg b) (k : Key) :
    b.readAllEntriesMarked k = .ok ((pairsOf cfg.klen b k).map (·.2)) := by
  unfold CBlob.readAllEntriesMarked CBlob.toEntries pairsOf
  rw [hb.getAllMarked_ocut hcfg k]
  simp only [List.map_map]
  rfl

theorem getAllCut_pairsOf (klen : Nat) (b : CBlob) (k : Key) :
    b.abs.getAllCut k = (pairsOf klen b k).map (·.1) := by
  rw [getAllCut_ocut klen]
  unfold pairsOf
  rw [List.map_map]
  rfl

theorem collectEntries_ok (f : CBlob → Except CErr (List CEntry)) (g : CBlob → List CEntry) :
    ∀ (l : List CBlob), (∀ b ∈ l, f b = .ok (g b)) → collectEntries f l = .ok (l.map g)
  | [], _ => rfl
  | b :: l, h => by
    simp only [collectEntries, h b (by simp), collectEntries_ok f g l (fun x hx => h x (by simp [hx])), List.map_cons]

/-! ### the storage -/

theorem getAllCut_nil_of_no_key {b : Blob} {k : Key} (h : ∀ r ∈ b.recs, r.key ≠ k) : b.getAllCut k = [] := by
  unfold Blob.getAllCut allCutOfVec Blob.vec
  rw [vecOf_eq_nil_iff.mpr h]
  rfl

/-- the L2 `read_all_with_deletion_marker` computed over the consulted blobs only (C10: a blob that is not
    yielded by `iter_possible_childs_rev` does not hold the key) -/
theorem readAllMarked_consulted {cfg : Cfg} {c : CState} (hinv : CInv cfg c) (k : Key) :
    (c.abs cfg).readAllMarked k =
      mergeBy Rec.ts Rec.del ((c.consulted cfg k).map (fun b => b.abs.getAllCut k)) := by
  obtain ⟨g, hci, hcov⟩ := hinv.cont
  have hspec := C10.possible_rev_complete_stack c.cont g k hci
  have hsub := consulted_sublist cfg c g hci k
  let L := (c.consulted cfg k).map CBlob.abs
  have hLsub : L.Sublist (c.abs cfg).visit := by
    rw [abs_visit]; exact hsub.map _
  have hLeq := sublist_eq_filter hLsub (visit_nodup hinv.wf)
  rw [Store.readAllMarked_def, readAllMarkedL_eq]
  have hcm : (c.consulted cfg k).map (fun b => b.abs.getAllCut k) = L.map (fun ab => ab.getAllCut k) := by
    simp only [L, List.map_map]; rfl
  rw [hcm, ← mergeBy_filter_nonempty, ← mergeBy_filter_nonempty (per := L.map _)]
  congr 1
  conv => rhs; rw [hLeq]
  symm
  apply map_filter_nonempty
  intro ab hab hnot
  apply getAllCut_nil_of_no_key
  intro r hr hk
  -- a blob of the visiting order that holds the key is consulted
  rw [abs_visit] at hab
  obtain ⟨b, hbfull, rfl⟩ := List.mem_map.mp hab
  have hr' : r ∈ b.ghost := hr
  have hbc : b ∈ c.consulted cfg k := by
    unfold CState.consulted
    rcases List.mem_append.mp hbfull with h | h
    · exact List.mem_append_left _ h
    · apply List.mem_append_right
      have hsl := mem_closedBlobs.mp (List.mem_reverse.mp h)
      obtain ⟨j, hj⟩ := List.mem_iff_getElem?.mp hsl
      obtain ⟨lf, hlf, hdata⟩ := slots_some_getChild hj
      have hc := hcov j b hj r hr'
      rw [hk] at hc
      have hjit := hspec.2.2.2 j lf hlf hc
      exact List.mem_filterMap.mpr ⟨j, hjit, by rw [hlf]; simp [hdata]⟩
  have : L.contains b.abs = true := by
    rw [List.contains_iff_mem]
    exact List.mem_map.mpr ⟨b, hbc, rfl⟩
  rw [this] at hnot
  cases hnot

/-- **`read_all_with_deletion_marker`, composed**: the concrete answer and the L2 answer are the two projections of
    one list of (record, entry) pairs, each entry being an entry of its record -/
theorem readAllMarked_rr {cfg : Cfg} {c : CState} (hcfg : cfg.OK) (hinv : CInv cfg c) (k : Key) :
    ∃ Z : List (Rec × CEntry), c.readAllMarked cfg k = .ok (Z.map (·.2)) ∧
      (c.abs cfg).readAllMarked k = Z.map (·.1) ∧ ∀ x ∈ Z, EntryOf x := by
  obtain ⟨g, hci, _⟩ := hinv.cont
  have hsub := consulted_sublist cfg c g hci k
  have hcons : ∀ b ∈ c.consulted cfg k, BlobInv cfg b := by
    intro b hb
    apply CInvG.blobInv hinv
    unfold CState.blobs
    rcases List.mem_append.mp (hsub.subset hb) with h | h
    · exact List.mem_append_right _ h
    · exact List.mem_append_left _ (List.mem_reverse.mp h)
  let PP : List (List (Rec × CEntry)) := (c.consulted cfg k).map (fun b => pairsOf cfg.klen b k)
  have hgood : ∀ x ∈ PP.flatten, EntryOf x := by
    intro x hx
    obtain ⟨l, hl, hxl⟩ := List.mem_flatten.mp hx
    obtain ⟨b, hb, rfl⟩ := List.mem_map.mp hl
    exact (hcons b hb).pairsOf_entryOf k x hxl
  let Z := mergeBy (fun x : Rec × CEntry => x.1.ts) (fun x => x.1.del) PP
  refine ⟨Z, ?_, ?_, fun x hx => hgood x (mergeBy_subset _ _ PP x hx)⟩
  · unfold CState.readAllMarked
    rw [collectEntries_ok _ (fun b => (pairsOf cfg.klen b k).map (·.2)) _
      (fun b hb => (hcons b hb).readAllEntriesMarked_eq hcfg k)]
    simp only [mergeEntries_eq]
    have : (c.consulted cfg k).map (fun b => (pairsOf cfg.klen b k).map (·.2)) = PP.map (List.map (·.2)) := by
      simp only [PP, List.map_map]; rfl
    rw [this, mergeBy_map]
    congr 2
    exact mergeBy_congr _ _ _ _ PP (fun x hx => (hgood x hx).2.1) (fun x hx => (hgood x hx).2.2.1)
  · rw [readAllMarked_consulted hinv k]
    have : (c.consulted cfg k).map (fun b => b.abs.getAllCut k) = PP.map (List.map (·.1)) := by
      simp only [PP, List.map_map]
      apply List.map_congr_left
      intro b _
      exact getAllCut_pairsOf cfg.klen b k
    rw [this, mergeBy_map]

/-- **`read_all`** -/
theorem readAll_rr {cfg : Cfg} {c : CState} (hcfg : cfg.OK) (hinv : CInv cfg c) (k : Key) :
    ∃ Z : List (Rec × CEntry), c.readAll cfg k = .ok (Z.map (·.2)) ∧
      (c.abs cfg).readAll k = Z.map (·.1) ∧ ∀ x ∈ Z, EntryOf x := by
  obtain ⟨Z, hc, ha, hgood⟩ := readAllMarked_rr hcfg hinv k
  unfold CState.readAll
  rw [Store.readAll_def, hc, ha]
  unfold stripLastR
  simp only [List.getLast?_map]
  cases hl : Z.getLast? with
  | none => exact ⟨Z, rfl, rfl, hgood⟩
  | some z =>
    have hz : z.2.hdr.isDeleted = z.1.del := (hgood z (List.mem_of_getLast? hl)).2.2.1
    simp only [Option.map_some, hz]
    cases z.1.del with
    | false => exact ⟨Z, rfl, rfl, hgood⟩
    | true =>
      refine ⟨Z.dropLast, ?_, ?_, fun x hx => hgood x (List.dropLast_subset _ hx)⟩
      · simp only [if_true, List.length_map]
        rw [← List.map_take, ← List.dropLast_eq_take]
      · simp only [if_true, List.map_dropLast]

/-! ### the answers in one equation -/

/-- what the caller gets from an entry: key, timestamp, marker flag, and the result of `Entry::load` -/
def entryView (e : CEntry) : Nat × Nat × Bool × Except LoadErr (List UInt8 × List UInt8) :=
  (hdrKey e.hdr, e.hdr.timestamp, e.hdr.isDeleted, entryLoad e.file e.hdr)

/-- the same of a record of the history: `Entry::load` returns the serialized meta and the bytes of the value (a
    marker has no data) -/
def recView (r : Rec) : Nat × Nat × Bool × Except LoadErr (List UInt8 × List UInt8) :=
  (r.key, r.ts, r.del, .ok (serMeta r.mt, if r.del then [] else dataOf r.data))

theorem views_eq : ∀ (Z : List (Rec × CEntry)), (∀ x ∈ Z, EntryOf x) →
    (Z.map (·.2)).map entryView = (Z.map (·.1)).map recView
  | [], _ => rfl
  | x :: Z, h => by
    obtain ⟨h1, h2, h3, h4⟩ := h x (by simp)
    simp only [List.map_cons, views_eq Z (fun y hy => h y (by simp [hy]))]
    congr 1
    simp only [entryView, recView, h1, h2, h3, h4]

end Pearl.E2E
