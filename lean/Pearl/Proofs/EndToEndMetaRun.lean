import Pearl.Proofs.EndToEndMetaSteps
import Pearl.Proofs.EndToEndMetaL2
/-
End-to-end composition with metadata, part 3: refinement along every history of operations with metadata
(`runM_ref`), with the invariant `CInv` and the meta range invariant `StoreMetaOK` carried along.
-/
namespace Pearl.E2E
open Pearl Pearl.BPTree Pearl.Container

theorem storeMetaOK_iff (s : Store) : StoreMetaOK s ↔ Store.AllRecs (fun r => MetaOK r.mt) s := Iff.rfl

theorem MOp.newRec_metaOK {cfg : Cfg} {op : MOp} (h : op.OK cfg) :
    ∀ r, Store.newRec op.abs = some r → MetaOK r.mt := by
  intro r hr
  cases op with
  | write k ts m d =>
    simp only [MOp.abs, Store.newRec, Option.some.injEq] at hr
    subst hr
    exact metaOK_getD h.2.2
  | delete k ts m oip =>
    simp only [MOp.abs, Store.newRec, Option.some.injEq] at hr
    subst hr
    exact metaOK_getD h.2.2
  | closeActive => cases hr
  | createActive => cases hr
  | restoreActive => cases hr
  | replaceActive => cases hr
  | settle => cases hr
  | restart lazy => cases hr

/-- the meta range invariant is kept by every operation whose meta is a byte string -/
theorem stepM_metaOK {cfg : Cfg} {s : Store} (hwf : s.WF) (hmeta : StoreMetaOK s) (op : MOp) (hop : op.OK cfg) :
    StoreMetaOK (s.apply op.abs) :=
  Store.apply_allRecs hwf hmeta op.abs (MOp.newRec_metaOK hop)

theorem init_metaOK (d : Bool) : StoreMetaOK (Store.init d) := Store.init_allRecs _ d

theorem crunM_cons (cfg : Cfg) (c : CState) (op : MOp) (ops : List MOp) :
    c.runM cfg (op :: ops) = (c.stepM cfg op).runM cfg ops := rfl

/-- refinement along a run, with the size condition on every L2 state passed through -/
theorem runM_ref_from {cfg : Cfg} (hcfg : cfg.OK) : ∀ (ops : List MOp) (c : CState), CInv cfg c →
    StoreMetaOK (c.abs cfg) → (∀ op ∈ ops, op.OK cfg) →
    (∀ n, n ≤ ops.length → StoreSized cfg.klen ((c.abs cfg).run ((ops.take n).map MOp.abs))) →
    (c.runM cfg ops).abs cfg = (c.abs cfg).run (ops.map MOp.abs) ∧ CInv cfg (c.runM cfg ops) ∧
      StoreMetaOK ((c.runM cfg ops).abs cfg)
  | [], c, hinv, hmeta, _, _ => ⟨rfl, hinv, hmeta⟩
  | op :: ops, c, hinv, hmeta, hops, hsz => by
    have h1 := hsz 1 (by simp)
    simp only [List.take_succ_cons, List.take_zero, List.map_cons, List.map_nil, Store.run_cons, Store.run_nil] at h1
    obtain ⟨ha, hi⟩ := stepM_ref hcfg hinv hmeta op (hops op (by simp)) h1
    have hm' : StoreMetaOK ((c.stepM cfg op).abs cfg) := by
      rw [ha]; exact stepM_metaOK hinv.wf hmeta op (hops op (by simp))
    have := runM_ref_from hcfg ops (c.stepM cfg op) hi hm' (fun o ho => hops o (by simp [ho]))
      (by
        intro n hn
        have := hsz (n + 1) (by simp; omega)
        simp only [List.take_succ_cons, List.map_cons, Store.run_cons] at this
        rw [ha]; exact this)
    rw [crunM_cons, List.map_cons, Store.run_cons, ← ha]
    exact this

/-- **refinement along every history of operations with metadata from the empty storage**, with the size
    condition stated on the final L2 state only -/
theorem runM_ref {cfg : Cfg} (hcfg : cfg.OK) (ops : List MOp) (hops : ∀ op ∈ ops, op.OK cfg)
    (hsz : StoreSized cfg.klen ((Store.init cfg.allowDup).run (ops.map MOp.abs))) :
    ((CState.init cfg).runM cfg ops).abs cfg = (Store.init cfg.allowDup).run (ops.map MOp.abs) ∧
      CInv cfg ((CState.init cfg).runM cfg ops) ∧
      StoreMetaOK (((CState.init cfg).runM cfg ops).abs cfg) := by
  have := runM_ref_from hcfg ops (CState.init cfg) (init_inv hcfg) (by rw [init_abs]; exact init_metaOK _) hops (by
    intro n _
    rw [init_abs, List.map_take]
    exact storeSized_prefix cfg.klen (init_WF _) _ hsz n)
  rw [init_abs] at this
  exact this

end Pearl.E2E
