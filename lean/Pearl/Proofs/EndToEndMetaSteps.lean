import Pearl.Proofs.EndToEndMetaBlob
/-
End-to-end composition with metadata, part 2: the storage.  The read path with an optional meta under the
invariant (`getLatestEntryM_rr`, the generalisation of `getLatestEntry_rr`), and the refinement of `write_with` /
`delete_with` and of every operation (`stepM_ref`), along runs (`runM_ref`).

The invariant is `CInv` together with `StoreMetaOK` of the abstraction: every stored meta value is a byte string
(the L2 record keeps the meta as a list of naturals, the file keeps bytes; the comparison of `filter_entries` is
on the bytes).
-/
namespace Pearl.E2E
open Pearl Pearl.BPTree Pearl.Container

/-- every meta of the L2 state is a byte string -/
def StoreMetaOK (s : Store) : Prop := ∀ b ∈ s.blobs, ∀ r ∈ b.recs, MetaOK r.mt

/-- range side-conditions on the inputs of an operation with metadata -/
def MOp.OK (cfg : Cfg) : MOp → Prop
  | .write k ts m _ => k < 256 ^ cfg.klen ∧ ts < 2 ^ 64 ∧ ∀ x, m = some x → MetaOK x
  | .delete k ts m _ => k < 256 ^ cfg.klen ∧ ts < 2 ^ 64 ∧ ∀ x, m = some x → MetaOK x
  | _ => True

instance (m : Option Meta) : Decidable (∀ x, m = some x → MetaOK x) := by
  cases m with
  | none => exact isTrue (by intro x h; cases h)
  | some y => exact decidable_of_iff (MetaOK y) ⟨fun h x hx => by cases hx; exact h, fun h => h y rfl⟩

instance (cfg : Cfg) (op : MOp) : Decidable (op.OK cfg) := by
  cases op <;> unfold MOp.OK <;> infer_instance

theorem toM_abs (op : COp) : op.toM.abs = op.abs := by cases op <;> rfl

theorem toM_OK {cfg : Cfg} {op : COp} (h : op.OK cfg) : op.toM.OK cfg := by
  cases op with
  | write k ts d => exact ⟨h.1, h.2, by intro x hx; cases hx⟩
  | delete k ts oip => exact ⟨h.1, h.2, by intro x hx; cases hx⟩
  | _ => trivial

theorem ghost_metaOK {cfg : Cfg} {c : CState} (hm : StoreMetaOK (c.abs cfg)) {b : CBlob} (hb : b ∈ c.blobs) :
    ∀ r ∈ b.ghost, MetaOK r.mt :=
  hm b.abs (by rw [abs_blobs]; exact List.mem_map.mpr ⟨b, hb, rfl⟩)

/-! ### the read path with an optional meta -/

/-- **the read path with metadata, composed**: under the invariant the concrete `get_latest_entry(key, meta)`
    does not fail and its answer represents the L2 answer -/
theorem getLatestEntryM_rr {cfg : Cfg} {c : CState} (hcfg : cfg.OK) (hinv : CInv cfg c)
    (hmeta : StoreMetaOK (c.abs cfg)) (k : Key) (m : Option Meta) (hm : ∀ x, m = some x → MetaOK x) :
    ∃ x, c.getLatestEntryM cfg k m = .ok x ∧ RR ((c.abs cfg).getLatestEntry k m) x := by
  obtain ⟨g, hci, hcov⟩ := hinv.cont
  have hspec := C10.possible_rev_complete_stack c.cont g k hci
  have hsub := consulted_sublist cfg c g hci k
  have hfullmem : ∀ b ∈ c.active.toList ++ (closedBlobs c.cont).reverse, b ∈ c.blobs := by
    intro b hb
    unfold CState.blobs
    rcases List.mem_append.mp hb with h | h
    · exact List.mem_append_right _ h
    · exact List.mem_append_left _ (List.mem_reverse.mp h)
  have hfull : ∀ b ∈ c.active.toList ++ (closedBlobs c.cont).reverse, BlobInv cfg b :=
    fun b hb => CInvG.blobInv hinv (hfullmem b hb)
  have hcons : ∀ b ∈ c.consulted cfg k, BlobInv cfg b := fun b hb => hfull b (hsub.subset hb)
  let pass : CBlob → Bool := fun b => !(b.checkFilter cfg k == .notContains)
  obtain ⟨y, hy, hrr⟩ := fold_sim (fun b => b.getLatestEntryM cfg k m)
    (fun b => if pass b then b.abs.getLatestEntry k m else .notFound) (c.consulted cfg k) .notFound .notFound trivial
    (by
      intro b hb
      obtain ⟨x, hx, hxr⟩ := (hcons b hb).entryM_rr hcfg (ghost_metaOK hmeta (hfullmem b (hsub.subset hb))) k m hm
      unfold CBlob.getLatestEntryM
      by_cases hp : (b.checkFilter cfg k == .notContains) = true
      · rw [if_pos hp]
        refine ⟨_, rfl, ?_⟩
        simp only [pass, hp, Bool.not_true, Bool.false_eq_true, if_false]
        trivial
      · rw [if_neg hp]
        refine ⟨x, hx, ?_⟩
        have : pass b = true := by simp only [pass]; simpa using hp
        rw [if_pos this]; exact hxr)
  refine ⟨y, hy, ?_⟩
  rw [foldl_pruned] at hrr
  let P := (c.consulted cfg k).filter pass
  have hPsub : (P.map CBlob.abs).Sublist (c.abs cfg).visit := by
    rw [abs_visit]
    exact ((List.filter_sublist (l := c.consulted cfg k)).trans hsub).map _
  have hPeq := sublist_eq_filter hPsub (visit_nodup hinv.wf)
  let prune : Blob → Key → Bool := fun ab _ => !(P.map CBlob.abs).contains ab
  have hP : (c.abs cfg).getLatestEntryP prune k m =
      P.foldl (fun acc b => acc.latest (b.abs.getLatestEntry k m)) .notFound := by
    unfold Store.getLatestEntryP
    have : (fun b => !prune b k) = fun x => (P.map CBlob.abs).contains x := by
      funext x; simp [prune]
    rw [this, ← hPeq, List.foldl_map]
  rw [← hP, Pearl.prune_transparent] at hrr
  · exact hrr
  intro ab hab hpr r hr hk
  have habv : ab ∈ (c.abs cfg).visit := Store.mem_visit.mpr hab
  rw [abs_visit] at habv
  obtain ⟨b, hbfull, rfl⟩ := List.mem_map.mp habv
  have hbinv := hfull b hbfull
  have hnotP : b ∉ P := by
    intro hbP
    simp [prune] at hpr
    exact hpr b hbP rfl
  apply hnotP
  have hr' : r ∈ b.ghost := hr
  rw [List.mem_filter]
  refine ⟨?_, ?_⟩
  · unfold CState.consulted
    rcases List.mem_append.mp hbfull with h | h
    · exact List.mem_append_left _ h
    · apply List.mem_append_right
      have hsl := mem_closedBlobs.mp (List.mem_reverse.mp h)
      obtain ⟨j, hj⟩ := List.mem_iff_getElem?.mp hsl
      obtain ⟨lf, hlf, hdata⟩ := slots_some_getChild hj
      have hc := hcov j b hj r hr'
      rw [hk] at hc
      have hjit := hspec.2.2.2 j lf hlf hc
      exact List.mem_filterMap.mpr ⟨j, hjit, by rw [hlf]; simp [hdata]⟩
  · have := hbinv.checkFilter_no_fn k ⟨r, hr', hk⟩
    simp only [pass]
    cases hcf : b.checkFilter cfg k with
    | notContains => exact absurd hcf this
    | needAdditionalCheck => rfl

theorem containsWith_eq {cfg : Cfg} {c : CState} (hcfg : cfg.OK) (hinv : CInv cfg c)
    (hmeta : StoreMetaOK (c.abs cfg)) (k : Key) (m : Option Meta) (hm : ∀ x, m = some x → MetaOK x) :
    c.containsWith cfg k m = .ok (((c.abs cfg).getLatestEntry k m).map (·.ts)) := by
  obtain ⟨x, hx, hrr⟩ := getLatestEntryM_rr hcfg hinv hmeta k m hm
  unfold CState.containsWith
  rw [hx]
  simp only [hrr.map_ts]

theorem readWithOpt_eq {cfg : Cfg} {c : CState} (hcfg : cfg.OK) (hinv : CInv cfg c)
    (hmeta : StoreMetaOK (c.abs cfg)) (k : Key) (m : Option Meta) (hm : ∀ x, m = some x → MetaOK x) :
    c.readWithOpt cfg k m = .ok (((c.abs cfg).read k m).map (fun r => dataOf r.data)) := by
  obtain ⟨x, hx, hrr⟩ := getLatestEntryM_rr hcfg hinv hmeta k m hm
  unfold CState.readWithOpt Store.read
  rw [hx]
  cases ha : (c.abs cfg).getLatestEntry k m with
  | notFound =>
    rw [ha] at hrr
    cases x <;> simp_all [RR, ReadResult.map]
  | deleted t =>
    rw [ha] at hrr
    cases x <;> simp_all [RR, ReadResult.map]
  | found r =>
    rw [ha] at hrr
    cases x with
    | found e =>
      obtain ⟨_, _, hload⟩ := hrr
      simp only [hload, ReadResult.map]
    | deleted t => exact absurd hrr (by simp [RR])
    | notFound => exact absurd hrr (by simp [RR])

/-- without a meta the new read path is the one of `Pearl/Model/EndToEnd.lean` -/
theorem getLatestEntryM_none (cfg : Cfg) (c : CState) (k : Key) :
    c.getLatestEntryM cfg k none = c.getLatestEntry cfg k := rfl

theorem readWithOpt_none (cfg : Cfg) (c : CState) (k : Key) : c.readWithOpt cfg k none = c.read cfg k := rfl

theorem containsWith_none (cfg : Cfg) (c : CState) (k : Key) : c.containsWith cfg k none = c.contains cfg k := rfl

/-! ### `write_with` -/

theorem writeWithOpt_none (cfg : Cfg) (c : CState) (k : Key) (ts : Nat) (d : Data) :
    c.writeWithOpt cfg k ts none d = c.write cfg k ts d := rfl

theorem writeWithOpt_ref0 {cfg : Cfg} {c : CState} (hcfg : cfg.OK) (hinv : CInv cfg c)
    (hmeta : StoreMetaOK (c.abs cfg)) (k : Key) (ts : Nat) (m : Option Meta) (d : Data)
    (hk : k < 256 ^ cfg.klen) (hts : ts < 2 ^ 64) (hm : ∀ x, m = some x → MetaOK x) :
    (c.writeWithOpt cfg k ts m d).abs cfg = (c.abs cfg).write k ts m d ∧ CInv0 cfg (c.writeWithOpt cfg k ts m d) := by
  suffices h : (c.writeWithOpt cfg k ts m d).abs cfg = (c.abs cfg).write k ts m d ∧
      (∀ a, (c.writeWithOpt cfg k ts m d).active = some a → BlobInv0 cfg a ∧ a.index.onDisk = false) ∧
      (c.writeWithOpt cfg k ts m d).cont = c.cont by
    obtain ⟨h1, h2, h3⟩ := h
    refine ⟨h1, ?_, h2, ?_, ?_⟩
    · rw [h1]; exact apply_WF hinv.wf (.write k ts m d)
    · rw [h3]; exact hinv.toCInv0.closed
    · rw [h3]; exact hinv.cont
  have hinv1 := ensureActive_inv (cfg := cfg) hinv
  have habs1 := ensureActive_abs cfg c
  have hcont1 := ensureActive_blobs_sub cfg c
  obtain ⟨a, ha⟩ := ensureActive_active cfg c
  have hmeta1 : StoreMetaOK ((c.ensureActive cfg).abs cfg) := by
    rw [habs1]
    intro b hb r hr
    rcases Store.ensureActive_grow (c.abs cfg) with ⟨hbl, _⟩ | ⟨hbl, _⟩
    · rw [hbl] at hb; exact hmeta b hb r hr
    · rw [hbl] at hb
      rcases List.mem_append.mp hb with hb | hb
      · exact hmeta b hb r hr
      · simp only [List.mem_singleton] at hb
        subst hb
        cases hr
  have hcont := containsWith_eq hcfg hinv1 hmeta1 k m hm
  have hfound : ((((c.ensureActive cfg).abs cfg).getLatestEntry k m).map (·.ts)).isFound
      = (((c.ensureActive cfg).abs cfg).getLatestEntry k m).isFound := by
    cases ((c.ensureActive cfg).abs cfg).getLatestEntry k m <;> rfl
  have hdupE : (if cfg.allowDup = true then (Except.ok false : Except CErr Bool)
        else .ok ((((c.ensureActive cfg).abs cfg).getLatestEntry k m).map (·.ts)).isFound)
      = .ok (!((c.ensureActive cfg).abs cfg).allowDup &&
          (((c.ensureActive cfg).abs cfg).getLatestEntry k m).isFound) := by
    have : ((c.ensureActive cfg).abs cfg).allowDup = cfg.allowDup := rfl
    rw [this, hfound]; cases cfg.allowDup <;> rfl
  unfold CState.writeWithOpt
  unfold Store.write
  simp only [hcont]
  rw [hdupE]
  rw [← habs1]
  cases hB : (!((c.ensureActive cfg).abs cfg).allowDup &&
      (((c.ensureActive cfg).abs cfg).getLatestEntry k m).isFound) with
  | true =>
    simp only [if_true]
    exact ⟨trivial, hinv1.toCInv0.active, hcont1⟩
  | false =>
    have hs1a : ((c.ensureActive cfg).abs cfg).active = some a.abs := by rw [abs_active, ha]; rfl
    simp only [ha, hs1a, Bool.false_eq_true, if_false]
    obtain ⟨hba, hmem⟩ := hinv1.active a ha
    obtain ⟨hw, hwid, hwg, hwm, _⟩ := writeRec_inv0 hba.toBlobInv0 hmem ⟨k, ts, false, m.getD none, d⟩ hk hts
    have hab : (a.writeRec cfg ⟨k, ts, false, m.getD none, d⟩).abs
        = a.abs.append ⟨k, ts, false, m.getD none, d⟩ := by
      simp only [CBlob.abs, hwid, hwg, hwm, Blob.append]
      have : a.index.onDisk = false := hmem
      rw [this]
    refine ⟨?_, ?_, hcont1⟩
    · simp only [CState.abs, Option.map_some, hab]
    · intro a' ha'
      simp only [Option.some.injEq] at ha'
      subst ha'
      exact ⟨hw, hwm⟩

/-! ### `delete_with` -/

theorem deleteWithOpt_none (cfg : Cfg) (c : CState) (k : Key) (ts : Nat) (oip : Bool) :
    c.deleteWithOpt cfg k ts none oip = c.delete cfg k ts oip := rfl

theorem blobDelete_keys' (b : Blob) (k : Key) (ts : Nat) (m : Option Meta) :
    ∀ r ∈ (Store.blobDelete b k ts m true).1.recs, ∃ r' ∈ b.recs, r'.key = r.key := by
  intro r hr
  rw [Store.blobDelete_fst] at hr
  split at hr
  · rename_i hgo
    simp only [Store.mark, List.mem_append, List.mem_singleton] at hr
    rcases hr with hr | hr
    · exact ⟨r, hr, rfl⟩
    · subst hr
      simp only [Bool.not_true, Bool.false_or] at hgo
      exact getLatest_isFound_mem hgo
  · exact ⟨r, hr, rfl⟩

theorem deleteBase_ref {cfg : Cfg} {c : CState} (hinv : CInv cfg c) (oip : Bool) :
    ∃ c0, c0 = (if oip then c else c.ensureActive cfg) ∧ CInv cfg c0 ∧
      c0.abs cfg = (c.abs cfg).deleteBase oip := by
  refine ⟨_, rfl, ?_, ?_⟩
  · cases oip
    · exact ensureActive_inv hinv
    · exact hinv
  · unfold Store.deleteBase
    cases oip
    · exact ensureActive_abs cfg c
    · rfl

theorem deleteWithOpt_ref0 {cfg : Cfg} {c : CState} (hcfg : cfg.OK) (hinv : CInv cfg c) (k : Key) (ts : Nat)
    (m : Option Meta) (oip : Bool) (hk : k < 256 ^ cfg.klen) (hts : ts < 2 ^ 64) :
    (c.deleteWithOpt cfg k ts m oip).1.abs cfg = ((c.abs cfg).delete k ts m oip).1 ∧
      CInv0 cfg (c.deleteWithOpt cfg k ts m oip).1 := by
  obtain ⟨c0, hc0, hinv0, habs0⟩ := deleteBase_ref hinv oip
  have hres : (c.deleteWithOpt cfg k ts m oip).1 =
      { c0 with
        active := c0.active.map (fun a => (a.deleteM cfg k ts m oip).1)
        cont := mapChildren c0.cont (fun b => (b.deleteM cfg k ts m true).1) } := by
    rw [hc0]; rfl
  rw [hres]
  have hclosed : ∀ b, some b ∈ slotsOf c0.cont →
      BlobInv0 cfg (b.deleteM cfg k ts m true).1 ∧
        (b.deleteM cfg k ts m true).1.abs = (Store.blobDelete b.abs k ts m true).1 := by
    intro b hb
    have := deleteM_spec0 hcfg (hinv0.closed b hb) k ts m true hk hts
    exact ⟨this.1, this.2.1⟩
  have hactive : ∀ a, c0.active = some a →
      BlobInv0 cfg (a.deleteM cfg k ts m oip).1 ∧
        (a.deleteM cfg k ts m oip).1.abs = (Store.blobDelete a.abs k ts m oip).1 := by
    intro a ha
    have := deleteM_spec0 hcfg (hinv0.active a ha).1 k ts m oip hk hts
    exact ⟨this.1, this.2.1⟩
  have habs : CState.abs cfg
        { c0 with
          active := c0.active.map (fun a => (a.deleteM cfg k ts m oip).1)
          cont := mapChildren c0.cont (fun b => (b.deleteM cfg k ts m true).1) }
      = ((c.abs cfg).delete k ts m oip).1 := by
    rw [Store.delete_fst_eq, ← habs0]
    have h1 : (c0.active.map (fun a => (a.deleteM cfg k ts m oip).1)).map CBlob.abs
        = (c0.abs cfg).active.map (fun a => (Store.blobDelete a k ts m oip).1) := by
      rw [abs_active]
      cases ha : c0.active with
      | none => rfl
      | some a => simp only [Option.map_some]; rw [(hactive a ha).2]
    have h2 := abs_mapChildren c0.cont (fun b => (b.deleteM cfg k ts m true).1)
      (fun ab => (Store.blobDelete ab k ts m true).1) (fun b hb => (hclosed b hb).2)
    apply Store.ext'
    · exact h1
    · rw [abs_slots, abs_slots]; exact h2
    · rfl
    · rfl
  refine ⟨habs, ?_⟩
  apply CInvG.mapChildren hinv0
  · rw [habs]; exact apply_WF hinv.wf (.delete k ts m oip)
  · intro a' ha'
    cases ha : c0.active with
    | none => rw [ha] at ha'; cases ha'
    | some a =>
      rw [ha] at ha'
      simp only [Option.map_some, Option.some.injEq] at ha'
      subst ha'
      refine ⟨(hactive a ha).1, ?_⟩
      have := congrArg Blob.onDisk (hactive a ha).2
      simp only [CBlob.abs] at this
      rw [this, Store.blobDelete_fst]
      split
      · rfl
      · exact (hinv0.active a ha).2
  · intro b hb
    refine ⟨(hclosed b hb).1, ?_⟩
    intro r hr
    have hr' : r ∈ (b.deleteM cfg k ts m true).1.abs.recs := hr
    rw [(hclosed b hb).2] at hr'
    exact blobDelete_keys' b.abs k ts m r hr'

/-- the number of blobs marked is the number the L2 operation reports -/
theorem deleteWithOpt_count {cfg : Cfg} {c : CState} (hcfg : cfg.OK) (hinv : CInv cfg c) (k : Key) (ts : Nat)
    (m : Option Meta) (oip : Bool) (hk : k < 256 ^ cfg.klen) (hts : ts < 2 ^ 64) :
    (c.deleteWithOpt cfg k ts m oip).2 = ((c.abs cfg).delete k ts m oip).2 := by
  obtain ⟨c0, hc0, hinv0, habs0⟩ := deleteBase_ref hinv oip
  have hres : (c.deleteWithOpt cfg k ts m oip).2 =
      (match c0.active with
        | some a => if (a.deleteM cfg k ts m oip).2 then 1 else 0
        | none => 0) +
      ((closedBlobs c0.cont).filter (fun b => (b.deleteM cfg k ts m true).2)).length := by
    rw [hc0]; rfl
  rw [hres, Store.delete_snd_eq, ← habs0, abs_closed, abs_active]
  congr 1
  · cases ha : c0.active with
    | none => rfl
    | some a =>
      simp only [Option.map_some]
      rw [(deleteM_spec0 hcfg (hinv0.active a ha).1 k ts m oip hk hts).2.2]
  · rw [List.filter_map, List.length_map]
    congr 1
    apply List.filter_congr
    intro b hb
    simp only [Function.comp_apply]
    exact (deleteM_spec0 hcfg (hinv0.closed b (mem_closedBlobs.mp hb)) k ts m true hk hts).2.2

/-! ### every operation -/

theorem stepM_toM (cfg : Cfg) (c : CState) (op : COp) : c.stepM cfg op.toM = c.step cfg op := by
  cases op <;> rfl

theorem runM_toM (cfg : Cfg) : ∀ (ops : List COp) (c : CState), c.runM cfg (ops.map COp.toM) = c.run cfg ops
  | [], _ => rfl
  | op :: ops, c => by
    show (c.stepM cfg op.toM).runM cfg (ops.map COp.toM) = (c.step cfg op).run cfg ops
    rw [stepM_toM, runM_toM cfg ops]

/-- every concrete operation with metadata implements its L2 operation and keeps the invariant up to the size
    conditions on the blob files -/
theorem stepM_ref0 {cfg : Cfg} {c : CState} (hcfg : cfg.OK) (hinv : CInv cfg c) (hmeta : StoreMetaOK (c.abs cfg))
    (op : MOp) (hop : op.OK cfg) :
    (c.stepM cfg op).abs cfg = (c.abs cfg).apply op.abs ∧ CInv0 cfg (c.stepM cfg op) := by
  cases op with
  | write k ts m d => exact writeWithOpt_ref0 hcfg hinv hmeta k ts m d hop.1 hop.2.1 hop.2.2
  | delete k ts m oip => exact deleteWithOpt_ref0 hcfg hinv k ts m oip hop.1 hop.2.1
  | closeActive => exact step_ref0 hcfg hinv .closeActive trivial
  | createActive => exact step_ref0 hcfg hinv .createActive trivial
  | restoreActive => exact step_ref0 hcfg hinv .restoreActive trivial
  | replaceActive => exact step_ref0 hcfg hinv .replaceActive trivial
  | settle => exact step_ref0 hcfg hinv .settle trivial
  | restart lazy => exact step_ref0 hcfg hinv (.restart lazy) trivial

theorem stepM_ref {cfg : Cfg} {c : CState} (hcfg : cfg.OK) (hinv : CInv cfg c) (hmeta : StoreMetaOK (c.abs cfg))
    (op : MOp) (hop : op.OK cfg) (hsz : StoreSized cfg.klen ((c.abs cfg).apply op.abs)) :
    (c.stepM cfg op).abs cfg = (c.abs cfg).apply op.abs ∧ CInv cfg (c.stepM cfg op) := by
  obtain ⟨h1, h2⟩ := stepM_ref0 hcfg hinv hmeta op hop
  exact ⟨h1, h2.toCInv (by rw [h1]; exact hsz)⟩

end Pearl.E2E
