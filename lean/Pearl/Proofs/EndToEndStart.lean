import Pearl.Model.EndToEndStart
import Pearl.Proofs.EndToEndMetaBytesStore
import Pearl.Proofs.EndToEndMetaBytesSize
/-
End-to-end composition, start-up WITH index files (`Pearl/Model/EndToEndStart.lean`, part (a)), lemmas, part 1:
the image the storage dumps for a list of records, what `IndexStruct::from_file` answers on it (accepted for the
blob it was written for, rejected for a longer blob), and `Blob::from_file` of a blob of a reachable state for each
of the index-file choices.
-/
namespace Pearl.E2E
open Pearl Pearl.BPTree Pearl.Container

section
variable {cfg : Cfg} {sha : List Nat → List Nat}

theorem snoc_ind {α : Type} {P : List α → Prop} (h0 : P []) (hs : ∀ l a, P l → P (l ++ [a])) (l : List α) : P l := by
  have : ∀ (r : List α), P r.reverse := by
    intro r
    induction r with
    | nil => exact h0
    | cons a r ih => rw [List.reverse_cons]; exact hs _ _ ih
  simpa using this l.reverse

/-! ### a blob written record by record -/

/-- the structured blob after `Blob::write` of `recs`, one by one, into a new blob -/
def writtenC (cfg : Cfg) (recs : List Rec) : CBlob := recs.foldl (fun b r => b.writeRec cfg r) (CBlob.openNew cfg 0)

theorem writtenC_snoc (cfg : Cfg) (recs : List Rec) (r : Rec) :
    writtenC cfg (recs ++ [r]) = (writtenC cfg recs).writeRec cfg r := by
  simp [writtenC, List.foldl_append]

/-- the size hypothesis on a record list: keys and timestamps in range, image shorter than `2^64` -/
structure RecsOK (cfg : Cfg) (recs : List Rec) : Prop where
  key : ∀ r ∈ recs, r.key < 256 ^ cfg.klen
  ts : ∀ r ∈ recs, r.ts < 2 ^ 64
  size : (blobBytes cfg.klen (full recs)).length < 2 ^ 64

theorem RecsOK.prefix {recs p : List Rec} (h : RecsOK cfg recs) (hp : p <+: recs) : RecsOK cfg p :=
  ⟨fun r hr => h.key r (hp.subset hr), fun r hr => h.ts r (hp.subset hr),
    Nat.lt_of_le_of_lt (blobBytes_length_mono cfg.klen hp) h.size⟩

theorem writtenC_inv : ∀ (recs : List Rec), RecsOK cfg recs →
    BlobInv cfg (writtenC cfg recs) ∧ (writtenC cfg recs).ghost = recs ∧
      (writtenC cfg recs).index.onDisk = false ∧ (writtenC cfg recs).id = 0 := by
  intro recs
  induction recs using snoc_ind with
  | h0 => intro _; exact ⟨openNew_inv cfg 0, rfl, rfl, rfl⟩
  | hs recs r ih =>
    intro h
    obtain ⟨hb, hg, hd, hid⟩ := ih (h.prefix (List.prefix_append _ _))
    rw [writtenC_snoc]
    have hsz : (appendRecord (writtenC cfg recs).file (recOf cfg.klen r)).length < 2 ^ 64 := by
      rw [hb.file, hg, ← blobBytes_snoc]
      exact h.size
    obtain ⟨h1, h2, h3, h4, _⟩ := writeRec_inv hb hd r (h.key r (by simp)) (h.ts r (by simp)) hsz
    exact ⟨h1, by rw [h3, hg], h4, by rw [h2, hid]⟩

theorem BlobInv.recsOK {b : CBlob} (hb : BlobInv cfg b) : RecsOK cfg b.ghost :=
  ⟨hb.key, hb.ts, by rw [← hb.file]; exact hb.size⟩

/-- the byte-level blob written record by record is the translation of the structured one -/
theorem writtenB_eq (sha : List Nat → List Nat) : ∀ (recs : List Rec), RecsOK cfg recs →
    recs.foldl (fun b r => b.writeRec cfg r) (BBlob.openNew cfg 0) = (writtenC cfg recs).toB sha := by
  intro recs
  induction recs using snoc_ind with
  | h0 => intro _; rfl
  | hs recs r ih =>
    intro h
    have hp := h.prefix (List.prefix_append recs [r])
    rw [List.foldl_append, List.foldl_cons, List.foldl_nil, ih hp, writtenC_snoc,
      writeRec_toB cfg sha _ r (writtenC_inv recs hp).2.2.1]

theorem blobFileLen_eq {recs : List Rec} (h : RecsOK cfg recs) :
    blobFileLen cfg recs = (blobBytes cfg.klen (full recs)).length := by
  unfold blobFileLen
  rw [writtenB_eq (fun _ => []) recs h]
  obtain ⟨hb, hg, _, _⟩ := writtenC_inv recs h
  show (writtenC cfg recs).file.length = _
  rw [hb.file, hg]

/-! ### the dumped form of a blob, and its index file -/

/-- the structured index file `Blob::dump` builds for the records `recs` with filter section `mb` -/
def fileRecs (cfg : Cfg) (recs : List Rec) (mb : List Nat) : IndexFile RecHeader :=
  build (Params.real cfg.klen) mb.length (indexOf (hdrsOf cfg recs))

/-- … and its bytes, for the blob file that holds `recs` -/
def imageRecs (cfg : Cfg) (sha : List Nat → List Nat) (recs : List Rec) (mb : List Nat) : List Nat :=
  imageOf sha (fileRecs cfg recs mb) mb (blobBytes cfg.klen (full recs)).length

/-- the size bound under which the index file of a blob is shorter than `2^64` bytes (`StoreIdxSized`, per blob) -/
def Sized3 (cfg : Cfg) (recs : List Rec) : Prop :=
  3 * (blobBytes cfg.klen (full recs)).length + filterLen cfg + 4200 < 2 ^ 64

theorem Sized3.prefix {recs p : List Rec} (h : Sized3 cfg recs) (hp : p <+: recs) : Sized3 cfg p := by
  have := blobBytes_length_mono cfg.klen hp
  unfold Sized3 at h ⊢
  omega

theorem serializeFilters_filterOf (cfg : Cfg) (recs : List Rec) :
    ∃ mb off, serializeFilters cfg.klen (filterOf cfg recs) = some (mb, off) := by
  obtain ⟨⟨mb, off⟩, h⟩ := serializeFilters_isSome cfg.klen (filterOf cfg recs) (filterOf_facts cfg recs).2.2
  exact ⟨mb, off, h⟩

theorem fileRecs_size (hcfg : cfg.OK) {recs : List Rec} (h3 : Sized3 cfg recs) {mb : List Nat} {off : Nat}
    (hs : serializeFilters cfg.klen (filterOf cfg recs) = some (mb, off)) : (fileRecs cfg recs mb).fileSize < 2 ^ 64 := by
  have h1 := fileSize_le hcfg recs mb
  have h2 := serializeFilters_length cfg (filterOf cfg recs) (filterOf_words cfg recs) mb off hs
  unfold Sized3 at h3
  unfold fileRecs
  omega

/-- `Blob::dump` of a non-empty blob whose index is in memory -/
theorem dump_reidx_eq {b : CBlob} (hb : BlobInv cfg b) (hne : b.ghost ≠ []) {mb : List Nat} {off : Nat}
    (hs : serializeFilters cfg.klen (filterOf cfg b.ghost) = some (mb, off)) :
    (reidx cfg b).dump cfg = { b with index := .disk (fileRecs cfg b.ghost mb) mb off } := by
  unfold CBlob.dump reidx
  simp only []
  have he : (indexOf (hdrsOf cfg b.ghost)).isEmpty = false := by
    rw [isEmpty_indexOf]
    cases hh : hdrsOf cfg b.ghost with
    | nil => exact absurd ((hdrsOf_eq_nil_iff cfg b.ghost).mp hh) hne
    | cons _ _ => rfl
  rw [he, hb.filter, hs]
  rfl

/-- the image `dumpedImage` is the closed form -/
theorem dumpedImage_eq (sha : List Nat → List Nat) {recs : List Rec} (h : RecsOK cfg recs) :
    dumpedImage cfg sha recs =
      if recs = [] then none
      else (serializeFilters cfg.klen (filterOf cfg recs)).map (fun p => imageRecs cfg sha recs p.1) := by
  obtain ⟨hb, hg, hd, _⟩ := writtenC_inv recs h
  unfold dumpedImage
  rw [writtenB_eq sha recs h, dump_toB]
  have hre : reidx cfg (writtenC cfg recs) = writtenC cfg recs := by
    have hidx := hb.index
    unfold IndexInv at hidx
    unfold reidx
    cases hi : (writtenC cfg recs).index with
    | disk f mb off => rw [hi] at hd; cases hd
    | mem m =>
      rw [hi] at hidx
      have : (writtenC cfg recs) = { writtenC cfg recs with index := .mem m } := by
        cases hw : writtenC cfg recs; rw [hw] at hi; simp only at hi; subst hi; rfl
      rw [this, hidx]
  by_cases hne : recs = []
  · subst hne
    rfl
  · rw [if_neg hne]
    obtain ⟨mb, off, hs⟩ := serializeFilters_filterOf cfg recs
    have hne' : (writtenC cfg recs).ghost ≠ [] := by rw [hg]; exact hne
    have hd' := dump_reidx_eq hb hne' (by rw [hg]; exact hs)
    rw [hre] at hd'
    rw [hd', hs]
    simp only [CBlob.toB, CIndex.toB, Option.map_some, imageRecs, hg, hb.file]

/-! ### `IndexStruct::from_file` on these images -/

theorem combinedOfFile_no_panic {on : Bool} {buf : List Nat} {r : Combined × Nat}
    (h : combinedOfFile on buf = some r) : deserializeFiltersPanics buf = false := by
  unfold combinedOfFile deserializeFilters at h
  unfold deserializeFiltersPanics
  by_cases h1 : buf.length < 8
  · rw [if_pos h1] at h; cases h
  · rw [if_neg h1] at h
    simp only [] at h
    by_cases h2 : (buf.drop 8).length < unle (buf.take 8)
    · rw [if_pos h2] at h; cases h
    · rw [List.length_drop] at h2
      simp only [List.length_drop, Bool.or_eq_false_iff, decide_eq_false_iff_not]
      exact ⟨h1, h2⟩

/-- (i) the image dumped for the current records of a blob is accepted for that blob, with the filter of the blob and
    the `bloom_offset` `serialize_filters` had returned -/
theorem openIndex_current (hB : BytesOK cfg sha) {b : CBlob} (hb : BlobInv cfg b) (hne : b.ghost ≠ [])
    (h3 : Sized3 cfg b.ghost) {mb : List Nat} {off : Nat}
    (hs : serializeFilters cfg.klen (filterOf cfg b.ghost) = some (mb, off)) :
    openIndex cfg b.file.length (imageRecs cfg sha b.ghost mb) = .accepted b.filter off := by
  have hD : BlobInv cfg { b with index := .disk (fileRecs cfg b.ghost mb) mb off } := by
    rw [← dump_reidx_eq hb hne hs]; exact (dump_inv (reidx_inv hb)).1
  have hsD : ({ b with index := .disk (fileRecs cfg b.ghost mb) mb off } : CBlob).IdxSized := by
    intro f mb' off' hi
    cases hi
    exact fileRecs_size hB.ok h3 hs
  obtain ⟨x, hx, sim⟩ := hD.disk_sim hB hsD rfl
  have himg : imageRecs cfg sha b.ghost mb = imageOf sha (fileRecs cfg b.ghost mb) mb b.file.length := by
    unfold imageRecs; rw [hb.file]
  have hc : combinedOfFile cfg.bloomIsOn mb = some (b.filter, off) := by
    apply combinedOfFile_serialize cfg b.filter mb off hb.filter_WF
    · rw [hb.filter]; exact filterOf_sized cfg hB.ok b.ghost hb.key
    · rw [hb.filter]; exact filterOf_bloom_isSome cfg b.ghost
    · rw [hb.filter]; exact hs
  unfold openIndex
  rw [himg]
  simp only [] at hx
  rw [hx]
  simp only [sim.valid, readMeta_sim sim, combinedOfFile_no_panic hc, hc, Bool.not_true, Bool.false_eq_true, if_false]

/-- (ii) the image dumped for records `p` is rejected for a blob file of any other length (`IndexBlobSize`) -/
theorem openIndex_stale (hB : BytesOK cfg sha) {p : List Rec} (hp : RecsOK cfg p) (h3 : Sized3 cfg p)
    {mb : List Nat} {off : Nat} (hs : serializeFilters cfg.klen (filterOf cfg p) = some (mb, off))
    (actual : Nat) (hne : actual ≠ (blobBytes cfg.klen (full p)).length) :
    openIndex cfg actual (imageRecs cfg sha p mb) = .rejected := by
  have hsize := fileRecs_size hB.ok h3 hs
  have hfrom := fromFile_image cfg.klen mb (indexOf (hdrsOf cfg p)) hB.ok.klen
    (sha (indexFileBytesUnwritten (rawFile (fileRecs cfg p mb)) mb (List.replicate 32 0)
      (blobBytes cfg.klen (full p)).length)) (hB.shaLen _) (blobBytes cfg.klen (full p)).length hsize
  unfold openIndex imageRecs imageOf
  rw [show fileRecs cfg p mb = builtFile cfg.klen mb (indexOf (hdrsOf cfg p)) from rfl] at hfrom ⊢
  rw [hfrom]
  have hv : validateHeader cfg.klen actual
      (openedImage cfg.klen mb (indexOf (hdrsOf cfg p))
        (sha (indexFileBytesUnwritten (rawFile (builtFile cfg.klen mb (indexOf (hdrsOf cfg p)))) mb
          (List.replicate 32 0) (blobBytes cfg.klen (full p)).length))
        (blobBytes cfg.klen (full p)).length).header = false := by
    have hlt : (blobBytes cfg.klen (full p)).length % 256 ^ 8 = (blobBytes cfg.klen (full p)).length :=
      Nat.mod_eq_of_lt (by have := hp.size; rw [pow_256_8]; omega)
    have hne' : ((blobBytes cfg.klen (full p)).length == actual) = false := by
      rw [beq_eq_false_iff_ne]; exact fun h => hne h.symm
    simp only [validateHeader, openedImage, headerV, hlt, hne', Bool.and_false, Bool.false_and]
  simp only [hv, Bool.not_false, if_true]

/-! ### `IndexStruct::from_file` on arbitrary bytes: what is checked (C03b `acceptIndex`) -/

/-- the start-up acceptance test of C03b is: `BPTreeFileIndex::from_file` succeeds, `validate(blob_size)` passes and
    the filter section can be read -/
theorem acceptIndex_iff (K blobSize : Nat) (img : List Nat) :
    acceptIndex K blobSize img = true ↔
      ∃ x, BIdx.fromFile img = some x ∧ validateHeader K blobSize x.header = true ∧ x.readMeta.isSome = true := by
  unfold acceptIndex BIdx.fromFile
  cases hh : readIndexHeader img with
  | none => simp
  | some h =>
    simp only []
    cases ht : readTreeMeta img h with
    | none => simp
    | some tm =>
      simp only []
      by_cases hc : checkFileSize h tm img.length = true
      · simp only [hc, Bool.not_true, Bool.false_eq_true, if_false, Bool.true_and]
        unfold readRootOk readRoot
        by_cases hlt : img.length < tm.treeOffset
        · have : ¬ tm.treeOffset ≤ img.length := by omega
          simp [hlt, this]
        · have hle : tm.treeOffset ≤ img.length := by omega
          simp only [hlt, if_false, hle, decide_true, Bool.true_and]
          cases hr : BPTree.readExactAt img tm.treeOffset (min (img.length - tm.treeOffset) 4096) with
          | none => simp
          | some r =>
            simp only [Option.isSome_some, Bool.true_and, Option.map_some, Bool.and_eq_true]
            constructor
            · rintro ⟨h1, h2⟩
              exact ⟨_, rfl, h1, h2⟩
            · rintro ⟨x, hx, h1, h2⟩
              cases hx
              exact ⟨h1, h2⟩
      · have hc' : checkFileSize h tm img.length = false := by simpa using hc
        simp [hc']

/-- an index file the start-up uses passed the C03b test, and its filter section deserialized to the filters and
    the `bloom_offset` the blob then works with; NOTHING ELSE of the file was looked at -/
theorem openIndex_accepted {blobSize : Nat} {img : List Nat} {flt : Combined} {off : Nat}
    (h : openIndex cfg blobSize img = .accepted flt off) :
    acceptIndex cfg.klen blobSize img = true ∧
    ∃ x mb, BIdx.fromFile img = some x ∧ validateHeader cfg.klen blobSize x.header = true ∧ x.readMeta = some mb ∧
      combinedOfFile cfg.bloomIsOn mb = some (flt, off) := by
  unfold openIndex at h
  cases hx : BIdx.fromFile img with
  | none => rw [hx] at h; cases h
  | some x =>
    rw [hx] at h
    simp only [] at h
    cases hv : validateHeader cfg.klen blobSize x.header with
    | false => rw [hv] at h; cases h
    | true =>
      rw [hv] at h
      simp only [Bool.not_true, Bool.false_eq_true, if_false] at h
      cases hm : x.readMeta with
      | none => rw [hm] at h; cases h
      | some mb =>
        rw [hm] at h
        simp only [] at h
        split at h
        · cases h
        · cases hc : combinedOfFile cfg.bloomIsOn mb with
          | none => rw [hc] at h; cases h
          | some p =>
            obtain ⟨f, o⟩ := p
            rw [hc] at h
            cases h
            exact ⟨(acceptIndex_iff _ _ _).2 ⟨x, hx, hv, by rw [hm]; rfl⟩, x, mb, rfl, hv, hm, hc⟩

/-- an index file the C03b test refuses is rejected (and the index regenerated) -/
theorem openIndex_of_not_accept {blobSize : Nat} {img : List Nat}
    (h : acceptIndex cfg.klen blobSize img = false) : openIndex cfg blobSize img = .rejected := by
  unfold openIndex
  cases hx : BIdx.fromFile img with
  | none => rfl
  | some x =>
    simp only []
    cases hv : validateHeader cfg.klen blobSize x.header with
    | false => rfl
    | true =>
      simp only [Bool.not_true, Bool.false_eq_true, if_false]
      cases hm : x.readMeta with
      | none => rfl
      | some mb =>
        have : acceptIndex cfg.klen blobSize img = true :=
          (acceptIndex_iff _ _ _).2 ⟨x, hx, hv, by rw [hm]; rfl⟩
        rw [this] at h
        cases h

/-! ### `Blob::from_file` -/

/-- without an index file `Blob::from_file` is the regeneration of `BState.restart` -/
theorem fromFileB_none (cfg : Cfg) (x : BBlob) : fromFileB cfg x none = regenB cfg x := by
  unfold fromFileB regenB tryRegenerateB
  cases blobHeaderFromFile x.file with
  | error e => rfl
  | ok _ =>
    simp only [Bool.false_or]
    by_cases h : x.file.length > blobHeaderSize
    · simp only [h, decide_true, if_true]
      cases rawRecordsLoad cfg.klen cfg.validateData x.file <;> rfl
    · simp only [h, decide_false, Bool.false_eq_true, if_false]

/-- a rejected index file next to a blob file that holds records: the index is regenerated -/
theorem fromFileB_rejected (cfg : Cfg) (x : BBlob) (img : List Nat)
    (hr : openIndex cfg x.file.length img = .rejected) (hlen : x.file.length > blobHeaderSize) :
    fromFileB cfg x (some img) = regenB cfg x := by
  unfold fromFileB regenB tryRegenerateB
  cases blobHeaderFromFile x.file with
  | error e => rfl
  | ok _ =>
    simp only [hr, Bool.true_or, if_true, hlen]
    cases rawRecordsLoad cfg.klen cfg.validateData x.file <;> rfl

theorem rawRecordsLoad_header_only (klen : Nat) (v : Bool) :
    ∃ e, rawRecordsLoad klen v serBlobHeader = .error e := by
  refine ⟨.load .bincode, ?_⟩
  unfold rawRecordsLoad rawRecordsScan rawStart
  have : Pearl.readExactAt serBlobHeader (8 + 8) blobHeaderSize = none := by decide
  rw [this]

/-- a rejected index file next to a blob file that holds the header only: `try_regenerate_index` is called because
    `is_index_corrupted` is set, `RawRecords::start` reads past the end of the file, `from_file` fails -/
theorem fromFileB_rejected_empty (cfg : Cfg) (x : BBlob) (img : List Nat)
    (hr : openIndex cfg x.file.length img = .rejected) (hf : x.file = serBlobHeader) :
    fromFileB cfg x (some img) = none := by
  unfold fromFileB tryRegenerateB
  cases blobHeaderFromFile x.file with
  | error e => rfl
  | ok _ =>
    obtain ⟨e, he⟩ := rawRecordsLoad_header_only cfg.klen cfg.validateData
    rw [hf] at hr
    simp only [hf, hr, Bool.true_or, if_true, he]

/-- an accepted index file next to a blob file that holds records: used as it is -/
theorem fromFileB_accepted (cfg : Cfg) (x : BBlob) (img : List Nat) (flt : Combined) (off : Nat)
    (ha : openIndex cfg x.file.length img = .accepted flt off) (hh : ∃ h, blobHeaderFromFile x.file = .ok h) :
    fromFileB cfg x (some img) = some { x with index := .disk img off, filter := flt } := by
  obtain ⟨h, hh⟩ := hh
  unfold fromFileB tryRegenerateB
  rw [hh]
  simp only [ha, Bool.false_or]
  split <;> rfl

/-! ### per blob of a reachable state -/

theorem file_length_gt {b : CBlob} (hb : BlobInv cfg b) (hne : b.ghost ≠ []) : b.file.length > blobHeaderSize := by
  rw [hb.file]; exact blobBytes_length_gt cfg.klen b.ghost hne

theorem blobBytes_length_take_lt (klen : Nat) (recs : List Rec) (n : Nat) (hn : n < recs.length) :
    (blobBytes klen (full (recs.take n))).length < (blobBytes klen (full recs)).length := by
  have hsplit : recs = recs.take n ++ recs.drop n := (List.take_append_drop n recs).symm
  have hd : 0 < (recs.drop n).length := by rw [List.length_drop]; omega
  conv => rhs; rw [hsplit]
  rw [blobBytes_eq, blobBytes_eq, List.map_append, tailOf_append]
  simp only [List.length_append]
  have := tailOf_length_ge (blobHeaderSize + (tailOf blobHeaderSize (List.map (recOf klen) (List.take n recs))).length)
    ((recs.drop n).map (recOf klen))
  rw [List.length_map] at this
  omega

theorem regenB_toB {b : CBlob} (hb : BlobInv cfg b) :
    regenB cfg (b.toB sha) = some ((reidx cfg b).toB sha) := by
  rw [regen_toB, regen_eq hb]; rfl

/-- what the start-up needs of the blob `Blob::from_file` returns: dumping it gives the dumped blob of
    `BState.restart`, and `Blob::load_index` gives the blob with its index regenerated in memory -/
def StartsAs (cfg : Cfg) (sha : List Nat → List Nat) (x : BBlob) (b : CBlob) : Prop :=
  x.dump cfg sha = ((reidx cfg b).toB sha).dump cfg sha ∧ loadIndexOrRegenB cfg x = some ((reidx cfg b).toB sha) ∧
    x.id = b.id

theorem startsAs_reidx (cfg : Cfg) (sha : List Nat → List Nat) (b : CBlob) :
    StartsAs cfg sha ((reidx cfg b).toB sha) b :=
  ⟨rfl, rfl, rfl⟩

theorem startsAs_dumped (hB : BytesOK cfg sha) {b : CBlob} (hb : BlobInv cfg b) (hne : b.ghost ≠ [])
    (h3 : Sized3 cfg b.ghost) {mb : List Nat} {off : Nat}
    (hs : serializeFilters cfg.klen (filterOf cfg b.ghost) = some (mb, off)) :
    StartsAs cfg sha { b.toB sha with index := .disk (imageRecs cfg sha b.ghost mb) off, filter := b.filter } b := by
  have hD : BlobInv cfg { b with index := .disk (fileRecs cfg b.ghost mb) mb off } := by
    rw [← dump_reidx_eq hb hne hs]; exact (dump_inv (reidx_inv hb)).1
  have hsD : ({ b with index := .disk (fileRecs cfg b.ghost mb) mb off } : CBlob).IdxSized := by
    intro f mb' off' hi
    cases hi
    exact fileRecs_size hB.ok h3 hs
  obtain ⟨x, hx, sim⟩ := hD.disk_sim hB hsD rfl
  have himg : imageRecs cfg sha b.ghost mb = imageOf sha (fileRecs cfg b.ghost mb) mb b.file.length := by
    unfold imageRecs; rw [hb.file]
  have hc : combinedOfFile cfg.bloomIsOn mb = some (b.filter, off) := by
    apply combinedOfFile_serialize cfg b.filter mb off hb.filter_WF
    · rw [hb.filter]; exact filterOf_sized cfg hB.ok b.ghost hb.key
    · rw [hb.filter]; exact filterOf_bloom_isSome cfg b.ghost
    · rw [hb.filter]; exact hs
  have hload : (fileRecs cfg b.ghost mb).load = some (indexOf (hdrsOf cfg b.ghost)) :=
    C09.load_build _ _ _ (indexOf_WF _)
  have hxd : ({ b.toB sha with index := .disk (imageRecs cfg sha b.ghost mb) off, filter := b.filter } : BBlob)
      = ({ b with index := .disk (fileRecs cfg b.ghost mb) mb off } : CBlob).toB sha := by
    rw [himg]; rfl
  refine ⟨?_, ?_, rfl⟩
  · rw [dump_toB, dump_reidx_eq hb hne hs, hxd]
    rfl
  · simp only [] at hx
    rw [himg]
    unfold loadIndexOrRegenB
    simp only [CBlob.toB, hx, Option.bind_some, load_sim sim _ hload, readMeta_sim sim, hc]
    rfl

/-- **`Blob::from_file` of a blob of a reachable state, for every index-file choice**: it fails exactly when the
    blob holds no record and an index file lies next to it; otherwise it returns a blob that starts as the one
    regenerated from the blob file -/
theorem fromFileB_choice (hB : BytesOK cfg sha) {b : CBlob} (hb : BlobInv cfg b) (h3 : Sized3 cfg b.ghost)
    {idx : Option (List Nat)} (hc : IdxChoice cfg sha b.ghost idx) :
    (b.ghost = [] ∧ idx.isSome = true → fromFileB cfg (b.toB sha) idx = none) ∧
    (¬ (b.ghost = [] ∧ idx.isSome = true) → ∃ x, fromFileB cfg (b.toB sha) idx = some x ∧ StartsAs cfg sha x b) := by
  have hok := hb.recsOK
  have hfile : (b.toB sha).file = b.file := rfl
  have hregen : ∃ x, regenB cfg (b.toB sha) = some x ∧ StartsAs cfg sha x b :=
    ⟨_, regenB_toB hb, startsAs_reidx cfg sha b⟩
  cases hc with
  | absent =>
    refine ⟨fun h => by simp at h, fun _ => ?_⟩
    rw [fromFileB_none]
    exact hregen
  | current img h =>
    rw [dumpedImage_eq sha hok] at h
    by_cases hne : b.ghost = []
    · rw [if_pos hne] at h; cases h
    · rw [if_neg hne] at h
      obtain ⟨mb, off, hs⟩ := serializeFilters_filterOf cfg b.ghost
      rw [hs] at h
      simp only [Option.map_some, Option.some.injEq] at h
      subst h
      refine ⟨fun h => absurd h.1 hne, fun _ => ?_⟩
      refine ⟨_, fromFileB_accepted cfg (b.toB sha) _ b.filter off (openIndex_current hB hb hne h3 hs)
        ⟨_, by rw [hfile, hb.file]; exact blobHeader_blob cfg.klen b.ghost⟩, startsAs_dumped hB hb hne h3 hs⟩
  | stale n img hn h =>
    have hne : b.ghost ≠ [] := by intro h0; rw [h0] at hn; simp at hn
    have hpre : b.ghost.take n <+: b.ghost := List.take_prefix n b.ghost
    have hpok := hok.prefix hpre
    rw [dumpedImage_eq sha hpok] at h
    by_cases hpne : b.ghost.take n = []
    · rw [if_pos hpne] at h; cases h
    · rw [if_neg hpne] at h
      obtain ⟨mb, off, hs⟩ := serializeFilters_filterOf cfg (b.ghost.take n)
      rw [hs] at h
      simp only [Option.map_some, Option.some.injEq] at h
      subst h
      refine ⟨fun h => absurd h.1 hne, fun _ => ?_⟩
      rw [fromFileB_rejected cfg (b.toB sha) _ ?_ (file_length_gt hb hne)]
      · exact hregen
      · apply openIndex_stale hB hpok (h3.prefix hpre) hs
        rw [hfile, hb.file]
        exact Nat.ne_of_gt (blobBytes_length_take_lt cfg.klen b.ghost n hn)
  | rejected img h =>
    rw [blobFileLen_eq hok, ← hb.file] at h
    by_cases hne : b.ghost = []
    · refine ⟨fun _ => ?_, fun hn => absurd ⟨hne, rfl⟩ hn⟩
      apply fromFileB_rejected_empty cfg (b.toB sha) img h
      rw [hfile, hb.file, hne]
      rfl
    · refine ⟨fun h => absurd h.1 hne, fun _ => ?_⟩
      rw [fromFileB_rejected cfg (b.toB sha) img h (file_length_gt hb hne)]
      exact hregen

end
end Pearl.E2E
