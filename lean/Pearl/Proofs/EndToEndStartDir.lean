import Pearl.Proofs.EndToEndStartOffloadBytes
import Pearl.Proofs.AcctHarm
/-
End-to-end composition: the storage WITH its directory of index files (`stepD`, `runD` of
`Pearl/Model/EndToEndStart.lean`).  The index files a history leaves behind are always absent, current or stale
(`DirInv`), so the real start-up — which reads them — is the start-up of the model that regenerates every index:
`runD` and `runBO` reach the same storage.
-/
namespace Pearl.E2E
open Pearl Pearl.BPTree Pearl.Container

section
variable {cfg : Cfg} {sha : List Nat → List Nat}

/-! ### what lies next to a blob -/

/-- the index file of an L2 blob: for an on-disk index the image dumped for its records; else none, or the image dumped
    for a prefix of its records (strict: stale; all of them: the index was loaded again and nothing appended yet) -/
def DirOK (cfg : Cfg) (sha : List Nat → List Nat) (x : Blob) (o : Option (List Nat)) : Prop :=
  (x.onDisk = true → o.isSome = true ∧ o = dumpedImage cfg sha x.recs) ∧
  (x.onDisk = false → o = none ∨
    ∃ n, n ≤ x.recs.length ∧ o.isSome = true ∧ o = dumpedImage cfg sha (x.recs.take n))

/-- the invariant of the directory: every blob has such a file, and there are no index files without a blob -/
structure DirInv (cfg : Cfg) (sha : List Nat → List Nat) (s : Store) (dir : Nat → Option (List Nat)) : Prop where
  blob : ∀ x ∈ s.blobs, DirOK cfg sha x (dir x.id)
  free : ∀ id, (∀ x ∈ s.blobs, x.id ≠ id) → dir id = none

theorem isSome_elim {o : Option (List Nat)} (h : o.isSome = true) : ∃ img, o = some img := by
  cases o with
  | none => cases h
  | some img => exact ⟨img, rfl⟩

theorem DirOK.choice {x : Blob} {o : Option (List Nat)} (h : DirOK cfg sha x o) : IdxChoice cfg sha x.recs o := by
  cases hd : x.onDisk with
  | true =>
    obtain ⟨hs, he⟩ := h.1 hd
    obtain ⟨img, rfl⟩ := isSome_elim hs
    exact .current img he.symm
  | false =>
    rcases h.2 hd with rfl | ⟨n, hn, hs, he⟩
    · exact .absent
    · obtain ⟨img, rfl⟩ := isSome_elim hs
      by_cases hlt : n < x.recs.length
      · exact .stale n img hlt he.symm
      · have : x.recs.take n = x.recs := List.take_of_length_le (by omega)
        rw [this] at he
        exact .current img he.symm

theorem dumpedImage_nil (cfg : Cfg) (sha : List Nat → List Nat) : dumpedImage cfg sha [] = none := rfl

theorem DirOK.empty {x : Blob} {o : Option (List Nat)} (h : DirOK cfg sha x o) (he : x.recs = []) : o = none := by
  cases hd : x.onDisk with
  | true =>
    obtain ⟨hs, h2⟩ := h.1 hd
    rw [he, dumpedImage_nil] at h2
    exact h2
  | false =>
    rcases h.2 hd with h0 | ⟨n, _, _, h2⟩
    · exact h0
    · rw [he, List.take_nil, dumpedImage_nil] at h2
      exact h2

/-! ### the index file a blob of the byte-level storage holds -/

theorem find?_of_pairwise {α : Type} (key : α → Nat) : ∀ (l : List α), (l.map key).Pairwise (· < ·) →
    ∀ x ∈ l, l.find? (fun y => key y == key x) = some x
  | [], _, x, hx => by cases hx
  | a :: l, hp, x, hx => by
    simp only [List.map_cons, List.pairwise_cons] at hp
    rcases List.mem_cons.mp hx with rfl | hx
    · simp
    · have hne : key a ≠ key x := by
        have := hp.1 (key x) (List.mem_map.mpr ⟨x, hx, rfl⟩)
        omega
      rw [List.find?_cons_of_neg (by simpa using hne)]
      exact find?_of_pairwise key l hp.2 x hx

theorem find?_none_of_not_mem {α : Type} (key : α → Nat) (l : List α) (id : Nat) (h : ∀ x ∈ l, key x ≠ id) :
    l.find? (fun y => key y == id) = none := by
  rw [List.find?_eq_none]
  intro x hx
  simpa using h x hx

theorem ids_pairwise {c : CState} (hwf : (c.abs cfg).WF) : (c.blobs.map (·.id)).Pairwise (· < ·) := by
  have := hwf.1
  rw [abs_blobs, List.map_map] at this
  exact this

/-- the image a dumped blob of a state satisfying `CInvO` holds is the image dumped for its records -/
theorem image_of_disk {c : CState} (h : CInvO cfg c) {y : CBlob} (hy : y ∈ c.blobs) (hd : y.index.onDisk = true) :
    ∃ img off, (y.toB sha).index = .disk img off ∧ dumpedImage cfg sha y.ghost = some img := by
  have hR := h.blobInv hy
  have hidx := hR.index
  unfold IndexInv at hidx
  have hri : (y.reload cfg).index = y.index := rfl
  cases hi : y.index with
  | mem m => rw [hi] at hd; cases hd
  | disk f mb off =>
    rw [hri, hi] at hidx
    obtain ⟨hne, hs, hf⟩ := hidx
    have hne' : y.ghost ≠ [] := hne
    have hs' : serializeFilters cfg.klen (filterOf cfg y.ghost) = some (mb, off) := hs
    have hok : RecsOK cfg y.ghost := hR.recsOK
    have hfile : y.file = blobBytes cfg.klen (full y.ghost) := hR.file
    refine ⟨imageOf sha f mb y.file.length, off, by simp only [CBlob.toB, hi, CIndex.toB], ?_⟩
    rw [dumpedImage_eq sha hok, if_neg hne', hs']
    simp only [Option.map_some, imageRecs, fileRecs]
    rw [hf, hfile]
    rfl

theorem index_of_mem (sha : List Nat → List Nat) {y : CBlob} (hd : y.index.onDisk = false) :
    ∃ m, (y.toB sha).index = .mem m := by
  cases hi : y.index with
  | mem m => exact ⟨m, by simp only [CBlob.toB, hi, CIndex.toB]⟩
  | disk f mb off => rw [hi] at hd; cases hd

/-- the directory after an operation, blob by blob -/
theorem dirAfter_blob {c : CState} (h : CInvO cfg c) (dir : Nat → Option (List Nat)) {y : CBlob} (hy : y ∈ c.blobs) :
    (y.index.onDisk = true →
      (dirAfter dir (c.toB sha) y.id).isSome = true ∧ dirAfter dir (c.toB sha) y.id = dumpedImage cfg sha y.ghost) ∧
    (y.index.onDisk = false → dirAfter dir (c.toB sha) y.id = dir y.id) := by
  have hwf : (c.abs cfg).WF := by have := h.inv.wf; rwa [reload_abs] at this
  have hfind : (c.toB sha).blobs.find? (fun x => x.id == y.id) = some (y.toB sha) := by
    rw [blobs_toB]
    have hp : ((c.blobs.map (CBlob.toB sha)).map (·.id)).Pairwise (· < ·) := by
      rw [List.map_map]; exact ids_pairwise hwf
    exact find?_of_pairwise (fun x : BBlob => x.id) _ hp (y.toB sha) (List.mem_map.mpr ⟨y, hy, rfl⟩)
  unfold dirAfter
  rw [hfind]
  constructor
  · intro hd
    obtain ⟨img, off, hi, himg⟩ := image_of_disk (sha := sha) h hy hd
    simp only [hi, himg]
    exact ⟨rfl, trivial⟩
  · intro hd
    obtain ⟨m, hi⟩ := index_of_mem sha hd
    simp only [hi]

theorem dirAfter_free (sha : List Nat → List Nat) (c : CState) (dir : Nat → Option (List Nat)) (id : Nat)
    (hid : ∀ y ∈ c.blobs, y.id ≠ id) : dirAfter dir (c.toB sha) id = dir id := by
  unfold dirAfter
  rw [blobs_toB, find?_none_of_not_mem (fun x : BBlob => x.id)]
  intro x hx
  obtain ⟨y, hy, rfl⟩ := List.mem_map.mp hx
  exact hid y hy

/-! ### where the blobs of the next L2 state come from -/

theorem applyAbs_bwd {s : Store} (hwf : s.WF) (hne : s.blobs ≠ []) (op : OOp) :
    ∀ b' ∈ (op.applyAbs s).blobs,
      (∃ b ∈ s.blobs, b'.id = b.id ∧ b.recs <+: b'.recs) ∨ (∀ b ∈ s.blobs, b.id ≠ b'.id) := by
  intro b' hb'
  have hself : ∀ b' ∈ s.blobs, (∃ b ∈ s.blobs, b'.id = b.id ∧ b.recs <+: b'.recs) :=
    fun b' hb' => ⟨b', hb', rfl, List.prefix_refl _⟩
  cases op with
  | offloadBlob j => exact Or.inl (hself b' hb')
  | offloadBuffer n l => exact Or.inl (hself b' hb')
  | op o =>
    have hnr : ∀ (o' : Op), (∀ lazy, o' ≠ .restart lazy) → ∀ b' ∈ (s.apply o').blobs,
        (∃ b ∈ s.blobs, b'.id = b.id ∧ b.recs <+: b'.recs) ∨ (∀ b ∈ s.blobs, b.id ≠ b'.id) := by
      intro o' ho' b' hb'
      rcases Acct.store_apply_bwd hwf o' ho' b' hb' with h | h
      · exact Or.inl h
      · right
        intro b hb e
        have := hwf.2 b hb
        omega
    cases o with
    | restart lazy =>
      have hh := (Store.restart_of_ne_nil hwf lazy hne).1
      have : (b'.id, b'.recs) ∈ (s.restart lazy).history := List.mem_map.mpr ⟨b', hb', rfl⟩
      rw [hh] at this
      obtain ⟨b, hb, he⟩ := List.mem_map.mp this
      simp only [Prod.mk.injEq] at he
      exact Or.inl ⟨b, hb, he.1.symm, by rw [he.2]; exact List.prefix_refl _⟩
    | write k ts m d => exact hnr _ (by intro l; simp [MOp.abs]) b' hb'
    | delete k ts m oip => exact hnr _ (by intro l; simp [MOp.abs]) b' hb'
    | closeActive => exact hnr _ (by intro l; simp [MOp.abs]) b' hb'
    | createActive => exact hnr _ (by intro l; simp [MOp.abs]) b' hb'
    | restoreActive => exact hnr _ (by intro l; simp [MOp.abs]) b' hb'
    | replaceActive => exact hnr _ (by intro l; simp [MOp.abs]) b' hb'
    | settle => exact hnr _ (by intro l; simp [MOp.abs]) b' hb'

theorem applyAbs_fwd {s : Store} (hwf : s.WF) (op : OOp) :
    ∀ b ∈ s.blobs, ∃ b' ∈ (op.applyAbs s).blobs, b'.id = b.id := by
  intro b hb
  cases op with
  | offloadBlob j => exact ⟨b, hb, rfl⟩
  | offloadBuffer n l => exact ⟨b, hb, rfl⟩
  | op o =>
    obtain ⟨b', hb', hid, _⟩ := apply_log hwf o.abs b hb
    exact ⟨b', hb', hid⟩

theorem take_of_prefix {α : Type} {l₁ l₂ : List α} (h : l₁ <+: l₂) {n : Nat} (hn : n ≤ l₁.length) :
    l₂.take n = l₁.take n := by
  obtain ⟨t, rfl⟩ := h
  exact List.take_append_of_le_length hn

/-- **the directory invariant is kept by every operation** -/
theorem dirInv_step {c c' : CState} (h : CInvO cfg c) (h' : CInvO cfg c') (hne : (c.abs cfg).blobs ≠ [])
    (op : OOp) (habs' : c'.abs cfg = op.applyAbs (c.abs cfg)) {dir : Nat → Option (List Nat)}
    (hd : DirInv cfg sha (c.abs cfg) dir) : DirInv cfg sha (c'.abs cfg) (dirAfter dir (c'.toB sha)) := by
  have hwf : (c.abs cfg).WF := by have := h.inv.wf; rwa [reload_abs] at this
  constructor
  · intro x' hx'
    have hx'' := hx'
    rw [abs_blobs] at hx'
    obtain ⟨y', hy', rfl⟩ := List.mem_map.mp hx'
    obtain ⟨hon, hoff⟩ := dirAfter_blob (sha := sha) h' dir hy'
    refine ⟨fun hdisk => hon hdisk, fun hmem => ?_⟩
    have hdir : dirAfter dir (c'.toB sha) y'.abs.id = dir y'.id := hoff hmem
    rw [hdir]
    rw [habs'] at hx''
    rcases applyAbs_bwd hwf hne op y'.abs hx'' with ⟨x, hx, hid, hpre⟩ | hfresh
    · have hid' : y'.id = x.id := hid
      have hk := hd.blob x hx
      rw [hid']
      cases hxd : x.onDisk with
      | true =>
        obtain ⟨hs, he⟩ := hk.1 hxd
        right
        refine ⟨x.recs.length, hpre.length_le, hs, ?_⟩
        rw [he, take_of_prefix hpre (Nat.le_refl _), List.take_length]
      | false =>
        rcases hk.2 hxd with h0 | ⟨n, hn, hs, he⟩
        · exact Or.inl h0
        · right
          refine ⟨n, Nat.le_trans hn hpre.length_le, hs, ?_⟩
          rw [he, take_of_prefix hpre hn]
    · left
      exact hd.free y'.id (fun x hx => hfresh x hx)
  · intro id hid
    rw [dirAfter_free sha c' dir id (fun y hy => hid y.abs (by rw [abs_blobs]; exact List.mem_map.mpr ⟨y, hy, rfl⟩))]
    apply hd.free
    intro x hx e
    obtain ⟨x', hx', hid'⟩ := applyAbs_fwd hwf op x hx
    rw [← habs'] at hx'
    exact hid x' hx' (by rw [hid', e])

/-! ### the storage with its directory is the storage of the model -/

theorem DirInv.dirChoice {c : CState} {dir : Nat → Option (List Nat)} (hd : DirInv cfg sha (c.abs cfg) dir) :
    DirChoice cfg sha c dir :=
  dirChoice_of_abs (fun x hx => (hd.blob x hx).choice)

theorem DirInv.not_besideEmpty {c : CState} {dir : Nat → Option (List Nat)} (hd : DirInv cfg sha (c.abs cfg) dir) :
    ¬ IndexBesideEmpty c dir := by
  rw [indexBesideEmpty_iff cfg]
  rintro ⟨x, hx, he, hs⟩
  rw [(hd.blob x hx).empty he] at hs
  cases hs

/-- one operation on the storage with its directory: the storage moves as in the model, whatever the directory
    (satisfying the invariant) holds; in particular the REAL start-up, which reads the index files, is the start-up of
    the model, which regenerates every index -/
theorem stepD_eq (hB : BytesOK cfg sha) {c : CState} (h : CInvO cfg c) (hmeta : StoreMetaOK (c.abs cfg))
    (hne : (c.abs cfg).blobs ≠ []) (h3 : StoreIdxSized cfg (c.abs cfg)) {dir : Nat → Option (List Nat)}
    (hd : DirInv cfg sha (c.abs cfg) dir) (op : OOp) :
    stepD cfg sha (c.toB sha, dir) op = ((c.stepO cfg op).toB sha, dirAfter dir ((c.stepO cfg op).toB sha)) := by
  have hg := goodB_of_store hB h h3
  have hgen : ∀ op' : OOp, (c.toB sha).stepBO cfg sha op' = (c.stepO cfg op').toB sha :=
    fun op' => (stepO_toB hB hg op').symm
  cases op with
  | offloadBlob j => simp only [stepD, hgen]
  | offloadBuffer n l => simp only [stepD, hgen]
  | op o =>
    cases o with
    | restart lazy =>
      obtain ⟨h1, h2⟩ := restartWithIndexes_of_invO hB h hmeta hne h3 dir hd.dirChoice lazy
      cases hr : (c.toB sha).restartWithIndexes cfg sha dir lazy with
      | none => exact absurd (h1.mp hr) hd.not_besideEmpty
      | some b' =>
        obtain ⟨_, e3, _, _⟩ := h2 b' hr
        simp only [stepD, hr]
        rw [e3]
        rfl
    | write k ts m d => simp only [stepD, hgen]
    | delete k ts m oip => simp only [stepD, hgen]
    | closeActive => simp only [stepD, hgen]
    | createActive => simp only [stepD, hgen]
    | restoreActive => simp only [stepD, hgen]
    | replaceActive => simp only [stepD, hgen]
    | settle => simp only [stepD, hgen]

theorem runD_cons (cfg : Cfg) (sha : List Nat → List Nat) (st : BState × (Nat → Option (List Nat))) (op : OOp)
    (ops : List OOp) : runD cfg sha st (op :: ops) = runD cfg sha (stepD cfg sha st op) ops := rfl

theorem applyAbs_blobs_ne_nil {s : Store} (hwf : s.WF) (hne : s.blobs ≠ []) (op : OOp) :
    (op.applyAbs s).blobs ≠ [] := by
  obtain ⟨b, hb⟩ := List.exists_mem_of_ne_nil _ hne
  obtain ⟨b', hb', _⟩ := applyAbs_fwd hwf op b hb
  exact List.ne_nil_of_mem hb'

theorem runD_eq_from (hB : BytesOK cfg sha) : ∀ (ops : List OOp) (c : CState) (dir : Nat → Option (List Nat)),
    CInvO cfg c → StoreMetaOK (c.abs cfg) → (c.abs cfg).blobs ≠ [] → DirInv cfg sha (c.abs cfg) dir →
    (∀ op ∈ ops, op.OK cfg) →
    (∀ n, n ≤ ops.length → StoreIdxSized cfg ((ops.take n).foldl OOp.applyAbs (c.abs cfg))) →
    ∃ dir', runD cfg sha (c.toB sha, dir) ops = ((c.runO cfg ops).toB sha, dir') ∧
      DirInv cfg sha ((c.runO cfg ops).abs cfg) dir'
  | [], c, dir, _, _, _, hd, _, _ => ⟨dir, rfl, hd⟩
  | op :: ops, c, dir, hinv, hmeta, hne, hd, hops, hsz => by
    have h0 := hsz 0 (by simp)
    simp only [List.take_zero, List.foldl_nil] at h0
    have h1 := hsz 1 (by simp)
    simp only [List.take_succ_cons, List.take_zero, List.foldl_cons, List.foldl_nil] at h1
    obtain ⟨ha, hi, hm⟩ := stepO_ref hB.ok hinv hmeta op (hops op (by simp)) h1.toStoreSized
    have hwf : (c.abs cfg).WF := by have := hinv.inv.wf; rwa [reload_abs] at this
    have hne' : ((c.stepO cfg op).abs cfg).blobs ≠ [] := by rw [ha]; exact applyAbs_blobs_ne_nil hwf hne op
    have hd' := dirInv_step (sha := sha) hinv hi hne op ha hd
    rw [runD_cons, stepD_eq hB hinv hmeta hne h0 hd op, crunO_cons]
    apply runD_eq_from hB ops (c.stepO cfg op) _ hi hm hne' hd' (fun o ho => hops o (by simp [ho]))
    intro n hn
    have := hsz (n + 1) (by simp; omega)
    simp only [List.take_succ_cons, List.foldl_cons] at this
    rw [ha]; exact this

theorem dirInv_init (cfg : Cfg) (sha : List Nat → List Nat) :
    DirInv cfg sha ((CState.init cfg).abs cfg) (fun _ => none) := by
  refine ⟨fun x hx => ⟨fun hd => ?_, fun _ => Or.inl rfl⟩, fun _ _ => rfl⟩
  rw [init_abs] at hx
  simp [Store.init, Store.createActive, Store.blobs, Store.closed] at hx
  subst hx
  cases hd

/-- **the storage with its directory, from the empty directory**: for every history with off-loading calls and
    restarts anywhere, the storage `runD` reaches — every restart reading the index files the history left — is the
    storage `runBO` reaches, whose restarts ignore them -/
theorem runD_eq (hB : BytesOK cfg sha) (ops : List OOp) (hops : ∀ op ∈ ops, op.OK cfg)
    (hsz : StoreIdxSized cfg ((Store.init cfg.allowDup).run ((OOp.erase ops).map MOp.abs))) :
    ∃ dir', runD cfg sha (BState.init cfg, fun _ => none) ops = ((BState.init cfg).runBO cfg sha ops, dir') ∧
      DirInv cfg sha ((Store.init cfg.allowDup).run ((OOp.erase ops).map MOp.abs)) dir' := by
  obtain ⟨dir', h1, h2⟩ := runD_eq_from hB ops (CState.init cfg) (fun _ => none) (init_inv hB.ok).toCInvO
    (by rw [init_abs]; exact init_metaOK _) (by rw [init_abs]; exact Store.init_blobs_ne_nil _)
    (dirInv_init cfg sha) hops (by
      intro n _
      rw [init_abs]
      exact storeIdxSized_take ops hsz n)
  refine ⟨dir', ?_, ?_⟩
  · rw [runBO_eq hB ops hops hsz, ← h1, init_toB]
  · rw [← (runO_ref hB.ok ops hops hsz.toStoreSized).1]
    exact h2

end
end Pearl.E2E
