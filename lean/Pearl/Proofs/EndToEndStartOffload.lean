import Pearl.Proofs.EndToEndStartStore
/-
End-to-end composition, bloom off-loading (`Pearl/Model/EndToEndStart.lean`, part (b)), lemmas, part 1: the structured
storage.  A state with off-loaded filters is compared with its `reload`: the same state with the filter of every blob
replaced by the filter of its records (what `IndexStruct::load` / a restart would read back).  Under the invariant
`CInvO` (`reload` satisfies `CInv`, and every blob filter is the filter of its records or — for an on-disk index —
that filter off-loaded) every read answers as on the reloaded state, and every operation commutes with `reload`.
-/
namespace Pearl.E2E
open Pearl Pearl.BPTree Pearl.Container

section
variable {cfg : Cfg}

/-- the resident filter, checked through the full path against the file it was dumped into, answers like its fast
    check (the in-memory bit vector answers; for a zero-length vector the file answers the default) -/
theorem Combined.contains_resident_eq (h : Nat → Key → Nat) (keyLen : Nat) (c : Combined) (metaBuf : List Nat)
    (off : Nat) (hc : c.WF) (hs : serializeFilters keyLen c = some (metaBuf, off)) (x : Key) :
    c.contains h (metaReadByte metaBuf off) x = c.containsFast h x := by
  unfold Combined.contains Combined.containsFast
  cases c.range.containsFast x with
  | notContains => rfl
  | needAdditionalCheck =>
    simp only [Combined.bloomFull, Combined.bloomFast]
    cases hcb : c.bloom with
    | none => rfl
    | some bl =>
      simp only []
      cases hi : bl.inner with
      | none =>
        simp only [serializeFilters, hcb, Option.getD_some, Bloom.toRaw, Bloom.save, hi, Option.map_none] at hs
        cases hs
      | some v =>
        unfold Bloom.contains
        cases hm : bl.containsMem h x with
        | some r => simp [Bloom.containsFast, hm]
        | none =>
          simp only []
          exact Bloom.containsFile_eq_containsFast h bl v x (hc.2 bl hcb) hi _
            (fun p hp => metaReadByte_serializeFilters keyLen c bl v metaBuf off hcb hi hs p hp)

/-! ### `reload` -/

/-- the blob with the filter of its records (resident) -/
def CBlob.reload (cfg : Cfg) (b : CBlob) : CBlob := { b with filter := filterOf cfg b.ghost }

/-- the state with every blob reloaded; the arena of the container (node filters) is not touched -/
def CState.reload (cfg : Cfg) (c : CState) : CState :=
  { c with active := c.active.map (CBlob.reload cfg), cont := mapData (CBlob.reload cfg) c.cont }

/-- the filter of a blob: the filter of its records, or — index on disk — that filter with its bloom buffer dropped -/
def BlobOff (cfg : Cfg) (b : CBlob) : Prop :=
  b.filter = filterOf cfg b.ghost ∨ (b.index.onDisk = true ∧ b.filter = (filterOf cfg b.ghost).offload.1)

/-- the invariant of a storage with off-loaded filters -/
structure CInvO (cfg : Cfg) (c : CState) : Prop where
  inv : CInv cfg (c.reload cfg)
  off : ∀ b ∈ c.blobs, BlobOff cfg b

theorem mapChildren_eq_mapData (c : Container Combined CBlob) (f : CBlob → CBlob) : mapChildren c f = mapData f c := rfl

theorem reload_reload (cfg : Cfg) (b : CBlob) : (b.reload cfg).reload cfg = b.reload cfg := rfl

theorem reload_of_filter {b : CBlob} (h : b.filter = filterOf cfg b.ghost) : b.reload cfg = b := by
  unfold CBlob.reload
  rw [← h]

theorem BlobOff.of_mem {b : CBlob} (h : BlobOff cfg b) (hm : b.index.onDisk = false) : b.reload cfg = b := by
  rcases h with h | ⟨h, _⟩
  · exact reload_of_filter h
  · rw [hm] at h; cases h

theorem blobOff_reload (cfg : Cfg) (b : CBlob) : BlobOff cfg (b.reload cfg) := Or.inl rfl

theorem closedBlobs_mapData' (f : CBlob → CBlob) (c : Container Combined CBlob) :
    closedBlobs (mapData f c) = (closedBlobs c).map f := by
  simp only [closedBlobs, mapData, List.filterMap_map, List.map_filterMap]
  congr 1
  funext o
  cases o <;> rfl

theorem reload_blobs (cfg : Cfg) (c : CState) : (c.reload cfg).blobs = c.blobs.map (CBlob.reload cfg) := by
  unfold CState.blobs CState.reload
  simp only [closedBlobs_mapData', List.map_append]
  cases c.active <;> rfl

theorem reload_abs (cfg : Cfg) (c : CState) : (c.reload cfg).abs cfg = c.abs cfg := by
  unfold CState.abs CState.reload
  simp only [mapData, List.map_map]
  congr 1
  · cases c.active <;> rfl
  · apply List.map_congr_left
    intro o _
    cases o <;> rfl

theorem CInvO.blobInv {c : CState} (h : CInvO cfg c) {b : CBlob} (hb : b ∈ c.blobs) : BlobInv cfg (b.reload cfg) :=
  CInvG.blobInv h.inv (by rw [reload_blobs]; exact List.mem_map.mpr ⟨b, hb, rfl⟩)

/-- a state satisfying `CInv` has nothing off-loaded -/
theorem reload_of_inv {c : CState} (h : CInv cfg c) : c.reload cfg = c := by
  have hb : ∀ b ∈ c.blobs, b.reload cfg = b := fun b hb => reload_of_filter (CInvG.blobInv h hb).filter
  unfold CState.reload
  have h1 : c.active.map (CBlob.reload cfg) = c.active := by
    cases ha : c.active with
    | none => rfl
    | some a => simp only [Option.map_some]; rw [hb a (mem_blobs_active ha)]
  have h2 : mapData (CBlob.reload cfg) c.cont = c.cont := by
    unfold mapData
    have : c.cont.children.map (fun o => o.map (fun lf => ({ parent := lf.parent, data := lf.data.reload cfg } : FLeaf CBlob)))
        = c.cont.children := by
      conv => rhs; rw [← List.map_id c.cont.children]
      apply List.map_congr_left
      intro o ho
      cases o with
      | none => rfl
      | some lf =>
        have : lf.data ∈ c.blobs := by
          unfold CState.blobs
          apply List.mem_append_left
          unfold closedBlobs
          exact List.mem_filterMap.mpr ⟨some lf, ho, rfl⟩
        simp only [Option.map_some, id]
        rw [hb _ this]
    rw [this]
  rw [h1, h2]

theorem CInv.toCInvO {c : CState} (h : CInv cfg c) : CInvO cfg c :=
  ⟨by rw [reload_of_inv h]; exact h, fun b hb => Or.inl (CInvG.blobInv h hb).filter⟩

/-! ### a blob and its reload answer alike -/

theorem checkFilter_reload {b : CBlob} (hoff : BlobOff cfg b) (hR : BlobInv cfg (b.reload cfg)) (k : Key) :
    b.checkFilter cfg k = (b.reload cfg).checkFilter cfg k := by
  have hidx := hR.index
  unfold IndexInv at hidx
  have hri : (b.reload cfg).index = b.index := rfl
  unfold CBlob.checkFilter
  rw [hri]
  cases hi : b.index with
  | mem m => rfl
  | disk f mb off =>
    rw [hri, hi] at hidx
    simp only [] at hidx ⊢
    obtain ⟨_, hs, _⟩ := hidx
    have hwf : (filterOf cfg b.ghost).WF := (filterOf_facts cfg b.ghost).1
    have hs' : serializeFilters cfg.klen (filterOf cfg b.ghost) = some (mb, off) := hs
    show b.filter.contains cfg.h _ k = (filterOf cfg b.ghost).contains cfg.h _ k
    rw [Combined.contains_resident_eq cfg.h cfg.klen _ mb off hwf hs']
    rcases hoff with h | ⟨_, h⟩
    · rw [h, Combined.contains_resident_eq cfg.h cfg.klen _ mb off hwf hs']
    · rw [h, Combined.contains_offload_eq cfg.h cfg.klen _ mb off hwf hs']

theorem getLatestEntryM_reload {b : CBlob} (hoff : BlobOff cfg b) (hR : BlobInv cfg (b.reload cfg)) (k : Key)
    (m : Option Meta) : b.getLatestEntryM cfg k m = (b.reload cfg).getLatestEntryM cfg k m := by
  unfold CBlob.getLatestEntryM
  rw [checkFilter_reload hoff hR k]
  rfl

theorem readAllEntriesMarked_reload (b : CBlob) (k : Key) :
    b.readAllEntriesMarked k = (b.reload cfg).readAllEntriesMarked k := rfl

theorem indexLatest_reload (b : CBlob) (k : Key) : b.indexLatest k = (b.reload cfg).indexLatest k := rfl

/-! ### the read path on a state and on its reload -/

theorem consulted_reload (cfg : Cfg) (c : CState) (k : Key) :
    (c.reload cfg).consulted cfg k = (c.consulted cfg k).map (CBlob.reload cfg) := by
  unfold CState.consulted CState.reload
  simp only [iterPossibleStack_mapData, List.map_append, List.map_filterMap, getChild_mapData]
  congr 1
  · cases c.active <;> rfl
  · congr 1
    funext j
    cases c.cont.getChild j <;> rfl

theorem foldEntries_map_congr (f f' : CBlob → Except CErr (ReadResult CEntry)) (g : CBlob → CBlob) :
    ∀ (l : List CBlob) (acc : ReadResult CEntry), (∀ b ∈ l, f' (g b) = f b) →
      foldEntries f' (l.map g) acc = foldEntries f l acc
  | [], _, _ => rfl
  | b :: l, acc, h => by
    simp only [List.map_cons, foldEntries, h b (by simp)]
    cases f b with
    | error e => rfl
    | ok r => exact foldEntries_map_congr f f' g l _ (fun x hx => h x (by simp [hx]))

theorem collectEntries_map_congr (f f' : CBlob → Except CErr (List CEntry)) (g : CBlob → CBlob) :
    ∀ (l : List CBlob), (∀ b ∈ l, f' (g b) = f b) → collectEntries f' (l.map g) = collectEntries f l
  | [], _ => rfl
  | b :: l, h => by
    simp only [List.map_cons, collectEntries, h b (by simp),
      collectEntries_map_congr f f' g l (fun x hx => h x (by simp [hx]))]

theorem getLatestEntryM_reload_state {c : CState} (h : CInvO cfg c) (k : Key) (m : Option Meta) :
    (c.reload cfg).getLatestEntryM cfg k m = c.getLatestEntryM cfg k m := by
  unfold CState.getLatestEntryM
  rw [consulted_reload]
  apply foldEntries_map_congr
  intro b hb
  have hbl := mem_consulted_blobs hb
  exact (getLatestEntryM_reload (h.off b hbl) (h.blobInv hbl) k m).symm

theorem containsWith_reload {c : CState} (h : CInvO cfg c) (k : Key) (m : Option Meta) :
    (c.reload cfg).containsWith cfg k m = c.containsWith cfg k m := by
  unfold CState.containsWith
  rw [getLatestEntryM_reload_state h]

theorem readWithOpt_reload {c : CState} (h : CInvO cfg c) (k : Key) (m : Option Meta) :
    (c.reload cfg).readWithOpt cfg k m = c.readWithOpt cfg k m := by
  unfold CState.readWithOpt
  rw [getLatestEntryM_reload_state h]

theorem readAllMarked_reload (cfg : Cfg) (c : CState) (k : Key) :
    (c.reload cfg).readAllMarked cfg k = c.readAllMarked cfg k := by
  unfold CState.readAllMarked
  rw [consulted_reload]
  rw [collectEntries_map_congr (fun b => b.readAllEntriesMarked k) (fun b => b.readAllEntriesMarked k)]
  intro b _
  rfl

theorem readAll_reload (cfg : Cfg) (c : CState) (k : Key) : (c.reload cfg).readAll cfg k = c.readAll cfg k := by
  unfold CState.readAll
  rw [readAllMarked_reload]

end
end Pearl.E2E
