import Pearl.Proofs.EndToEndStartOffloadSteps
/-
End-to-end composition, bloom off-loading, lemmas, part 3: the byte-level storage.  The translation `toB` (every
dumped index as the bytes of its file) commutes with every operation — including the off-loading operations — also
on states with off-loaded filters: an off-loaded bloom filter is probed with `read_meta_at` on the bytes of the index
file (`BIdx.readMetaAt`), which returns the bytes `serialize_filters` wrote at `bloom_offset + i`.
-/
namespace Pearl.E2E
open Pearl Pearl.BPTree Pearl.Container

section
variable {cfg : Cfg} {sha : List Nat → List Nat}

/-! ### one blob -/

/-- what the storage-level commutation needs of the translation of one blob -/
structure ToBOK (cfg : Cfg) (sha : List Nat → List Nat) (b : CBlob) : Prop where
  entry : ∀ k m, (b.toB sha).getLatestEntryM cfg k m = b.getLatestEntryM cfg k m
  readAll : ∀ k, (b.toB sha).readAllEntriesMarked cfg k = b.readAllEntriesMarked k
  delete : ∀ k ts m oip, (b.toB sha).deleteM cfg k ts m oip
    = ((b.deleteM cfg k ts m oip).1.toB sha, (b.deleteM cfg k ts m oip).2)
  load : (b.toB sha).loadIndex cfg = (b.loadIndex cfg).toB sha

theorem toBOK_of_inv (hB : BytesOK cfg sha) {b : CBlob} (hb : BlobInv cfg b) (hs : b.IdxSized) : ToBOK cfg sha b :=
  ⟨getLatestEntryM_toB hB hb hs, readAllEntriesMarked_toB hB hb hs, deleteM_toB hB hb hs, loadIndex_toB hB hb hs⟩

/-- the probe of the filters of an on-disk blob through the bytes of its index file, whatever the filter held in
    memory is (resident or off-loaded): `read_meta_at(i + bloom_offset)` returns the byte of the filter section -/
theorem checkFilter_toB_off (hB : BytesOK cfg sha) {b : CBlob} (hR : BlobInv cfg (b.reload cfg))
    (hs : (b.reload cfg).IdxSized) (k : Key) : (b.toB sha).checkFilter cfg k = b.checkFilter cfg k := by
  have hri : (b.reload cfg).index = b.index := rfl
  cases hi : b.index with
  | mem m => simp only [CBlob.toB, hi, CIndex.toB, BBlob.checkFilter, CBlob.checkFilter]
  | disk f mb off =>
    obtain ⟨x, hx, sim⟩ := hR.disk_sim hB hs (hri.trans hi)
    have hx' : BIdx.fromFile (imageOf sha f mb b.file.length) = some x := hx
    simp only [CBlob.toB, hi, CIndex.toB, BBlob.checkFilter, CBlob.checkFilter, hx', Option.bind_some]
    congr 1
    funext i
    rw [readMetaAt_sim sim]
    rfl

theorem toBOK_of_off (hB : BytesOK cfg sha) {b : CBlob} (hoff : BlobOff cfg b) (hR : BlobInv cfg (b.reload cfg))
    (hs : (b.reload cfg).IdxSized) : ToBOK cfg sha b := by
  have hidx : ∀ k, (b.toB sha).index.getLatest cfg.klen k = b.index.getLatest k :=
    fun k => index_getLatest_toB hB hR hs k
  have hall : ∀ k, (b.toB sha).index.getAllMarked cfg.klen k = b.index.getAllMarked k :=
    fun k => index_getAllMarked_toB hB hR hs k
  have hlatest : ∀ k, (b.toB sha).indexLatest cfg k = b.indexLatest k := by
    intro k
    unfold BBlob.indexLatest CBlob.indexLatest
    rw [hidx k]
    rfl
  have hload : (b.toB sha).loadIndex cfg = (b.loadIndex cfg).toB sha := by
    rw [loadIndex_reload hB.ok hoff hR, ← loadIndex_toB hB hR hs]
    have hri : (b.reload cfg).index = b.index := rfl
    cases hi : b.index with
    | mem m => rw [hoff.of_mem (by rw [hi]; rfl)]
    | disk f mb off =>
      obtain ⟨x, hx, sim⟩ := hR.disk_sim hB hs (hri.trans hi)
      have hx' : BIdx.fromFile (imageOf sha f mb b.file.length) = some x := hx
      have hidx' := hR.index
      unfold IndexInv at hidx'
      rw [hri, hi] at hidx'
      obtain ⟨_, hser, hf⟩ := hidx'
      have hl : f.load = some (indexOf (hdrsOf cfg b.ghost)) := by
        rw [hf]; exact C09.load_build _ _ _ (indexOf_WF _)
      have hc : combinedOfFile cfg.bloomIsOn mb = some (filterOf cfg b.ghost, off) :=
        combinedOfFile_serialize cfg _ mb off (filterOf_facts cfg b.ghost).1
          (filterOf_sized cfg hB.ok b.ghost hR.key) (filterOf_bloom_isSome cfg b.ghost) hser
      have hls : BIdx.load cfg.klen b.file.length x = some (indexOf (hdrsOf cfg b.ghost)) := load_sim sim _ hl
      unfold BBlob.loadIndex
      simp only [CBlob.toB, CBlob.reload, hi, CIndex.toB, hx', hls, readMeta_sim sim, Option.bind_some, hc]
  refine ⟨?_, ?_, ?_, hload⟩
  · intro k m
    unfold BBlob.getLatestEntryM CBlob.getLatestEntryM
    rw [checkFilter_toB_off hB hR hs k]
    cases m with
    | none => simp only [hlatest k]
    | some m =>
      simp only []
      unfold BBlob.getEntryWithMeta CBlob.getEntryWithMeta
      rw [hall k]
      rfl
  · intro k
    unfold BBlob.readAllEntriesMarked CBlob.readAllEntriesMarked
    rw [hall k]
    rfl
  · intro k ts m oip
    unfold BBlob.deleteM CBlob.deleteM
    rw [hlatest k]
    have key : ∀ present : Bool,
        (if (!oip || present) = true then
            (((b.toB sha).loadIndex cfg).writeRec cfg ⟨k, ts, true, m.getD none, ⟨0, 0⟩⟩, true)
          else (b.toB sha, false))
        = ((if (!oip || present) = true then
            ((b.loadIndex cfg).writeRec cfg ⟨k, ts, true, m.getD none, ⟨0, 0⟩⟩, true)
          else (b, false)).1.toB sha,
          (if (!oip || present) = true then
            ((b.loadIndex cfg).writeRec cfg ⟨k, ts, true, m.getD none, ⟨0, 0⟩⟩, true)
          else (b, false)).2) := by
      intro present
      by_cases hgo : (!oip || present) = true
      · rw [if_pos hgo, if_pos hgo]
        simp only []
        rw [hload, writeRec_toB cfg sha _ _ (by
          rw [loadIndex_reload hB.ok hoff hR]; exact (loadIndex_inv hB.ok hR).2.2.2.1)]
      · rw [if_neg hgo, if_neg hgo]
    cases b.indexLatest k with
    | error e => exact key false
    | ok r => exact key r.isFound

/-! ### the storage -/

/-- every blob translates well, and the active blob keeps its index in memory -/
structure GoodB (cfg : Cfg) (sha : List Nat → List Nat) (c : CState) : Prop where
  blob : ∀ b ∈ c.blobs, ToBOK cfg sha b
  act : ∀ a, c.active = some a → a.index.onDisk = false

theorem goodB_of_invO (hB : BytesOK cfg sha) {c : CState} (h : CInvO cfg c) (hs : (c.reload cfg).IdxSized) :
    GoodB cfg sha c := by
  refine ⟨fun b hb => ?_, fun a ha => (h.active_reload ha).2⟩
  exact toBOK_of_off hB (h.off b hb) (h.blobInv hb)
    (hs _ (by rw [reload_blobs]; exact List.mem_map.mpr ⟨b, hb, rfl⟩))

theorem GoodB.ensureActive (hB : BytesOK cfg sha) {c : CState} (h : GoodB cfg sha c) :
    GoodB cfg sha (c.ensureActive cfg) := by
  unfold CState.ensureActive
  cases ha : c.active with
  | some a => exact h
  | none =>
    refine ⟨?_, ?_⟩
    · intro b hb
      unfold CState.blobs CState.createActive at hb
      simp only [Option.toList_some, List.mem_append, List.mem_singleton] at hb
      rcases hb with hb | hb
      · exact h.blob b (by unfold CState.blobs; exact List.mem_append_left _ hb)
      · subst hb
        exact toBOK_of_inv hB (openNew_inv cfg _) (openNew_idxSized cfg _)
    · intro a ha'
      simp only [CState.createActive, Option.some.injEq] at ha'
      subst ha'
      rfl

theorem getLatestEntryM_toB_good {c : CState} (h : GoodB cfg sha c) (k : Key) (m : Option Meta) :
    (c.toB sha).getLatestEntryM cfg k m = c.getLatestEntryM cfg k m := by
  unfold BState.getLatestEntryM CState.getLatestEntryM
  rw [consulted_toB]
  apply foldEntriesB_map
  intro b hb
  exact (h.blob b (mem_consulted_blobs hb)).entry k m

theorem containsWith_toB_good {c : CState} (h : GoodB cfg sha c) (k : Key) (m : Option Meta) :
    (c.toB sha).containsWith cfg k m = c.containsWith cfg k m := by
  unfold BState.containsWith CState.containsWith
  rw [getLatestEntryM_toB_good h]

theorem readWithOpt_toB_good {c : CState} (h : GoodB cfg sha c) (k : Key) (m : Option Meta) :
    (c.toB sha).readWithOpt cfg k m = c.readWithOpt cfg k m := by
  unfold BState.readWithOpt CState.readWithOpt
  rw [getLatestEntryM_toB_good h]

theorem readAllMarked_toB_good {c : CState} (h : GoodB cfg sha c) (k : Key) :
    (c.toB sha).readAllMarked cfg k = c.readAllMarked cfg k := by
  unfold BState.readAllMarked CState.readAllMarked
  rw [consulted_toB, collectEntriesB_map sha _ (fun b => b.readAllEntriesMarked k)]
  intro b hb
  exact (h.blob b (mem_consulted_blobs hb)).readAll k

theorem readAll_toB_good {c : CState} (h : GoodB cfg sha c) (k : Key) :
    (c.toB sha).readAll cfg k = c.readAll cfg k := by
  unfold BState.readAll CState.readAll
  rw [readAllMarked_toB_good h]

theorem writeWithOpt_toB_good (hB : BytesOK cfg sha) {c : CState} (h : GoodB cfg sha c)
    (k : Key) (ts : Nat) (m : Option Meta) (d : Data) :
    (c.writeWithOpt cfg k ts m d).toB sha = (c.toB sha).writeWithOpt cfg k ts m d := by
  have h1 := h.ensureActive hB
  unfold CState.writeWithOpt BState.writeWithOpt
  simp only []
  rw [← ensureActive_toB, containsWith_toB_good h1]
  generalize (if cfg.allowDup = true then (Except.ok false : Except CErr Bool)
    else match (c.ensureActive cfg).containsWith cfg k m with
      | .error e => .error e
      | .ok r => .ok r.isFound) = dup
  cases dup with
  | error e => rfl
  | ok bdup =>
    cases bdup with
    | true => rfl
    | false =>
      simp only []
      have hact : ((c.ensureActive cfg).toB sha).active = (c.ensureActive cfg).active.map (CBlob.toB sha) := rfl
      rw [hact]
      cases ha : (c.ensureActive cfg).active with
      | none => rfl
      | some a =>
        simp only [Option.map_some]
        apply BState.ext'
        · show some ((a.writeRec cfg _).toB sha) = some ((a.toB sha).writeRec cfg _)
          rw [writeRec_toB cfg sha a _ (h1.act a ha)]
        · rfl
        · rfl

theorem deleteWithOpt_toB_good (hB : BytesOK cfg sha) {c : CState} (h : GoodB cfg sha c)
    (k : Key) (ts : Nat) (m : Option Meta) (oip : Bool) :
    (c.deleteWithOpt cfg k ts m oip).1.toB sha = ((c.toB sha).deleteWithOpt cfg k ts m oip).1 ∧
    (c.deleteWithOpt cfg k ts m oip).2 = ((c.toB sha).deleteWithOpt cfg k ts m oip).2 := by
  obtain ⟨c0, hc0, h0⟩ : ∃ c0, c0 = (if oip then c else c.ensureActive cfg) ∧ GoodB cfg sha c0 := by
    refine ⟨_, rfl, ?_⟩
    cases oip
    · exact h.ensureActive hB
    · exact h
  unfold CState.deleteWithOpt BState.deleteWithOpt
  simp only []
  rw [← deleteBase_toB, ← hc0]
  have hact : (c0.toB sha).active = c0.active.map (CBlob.toB sha) := rfl
  have hcont : (c0.toB sha).cont = mapData (CBlob.toB sha) c0.cont := rfl
  have hclosed : ∀ b ∈ closedBlobs c0.cont, ToBOK cfg sha b :=
    fun b hb => h0.blob b (by unfold CState.blobs; exact List.mem_append_left _ hb)
  constructor
  · apply BState.ext'
    · show (c0.active.map (fun a => (a.deleteM cfg k ts m oip).1)).map (CBlob.toB sha) = _
      rw [hact]
      cases ha : c0.active with
      | none => rfl
      | some a =>
        simp only [Option.map_some]
        rw [(h0.blob a (mem_blobs_active ha)).delete]
    · show mapData (CBlob.toB sha) (mapChildren c0.cont (fun b => (b.deleteM cfg k ts m true).1))
        = mapChildrenB (mapData (CBlob.toB sha) c0.cont) (fun b => (b.deleteM cfg k ts m true).1)
      symm
      apply mapChildrenB_mapData
      intro b hb
      rw [(hclosed b hb).delete]
    · rfl
  · rw [hact, hcont, closedBlobsB_mapData]
    congr 1
    · cases ha : c0.active with
      | none => rfl
      | some a =>
        simp only [Option.map_some]
        rw [(h0.blob a (mem_blobs_active ha)).delete]
    · rw [List.filter_map, List.length_map]
      congr 1
      apply List.filter_congr
      intro b hb
      simp only [Function.comp_apply]
      rw [(hclosed b hb).delete]

theorem stepM_toB_good (hB : BytesOK cfg sha) {c : CState} (h : GoodB cfg sha c) (op : MOp) :
    (c.stepM cfg op).toB sha = (c.toB sha).stepB cfg sha op := by
  have hact : (c.toB sha).active = c.active.map (CBlob.toB sha) := rfl
  have hcont : (c.toB sha).cont = mapData (CBlob.toB sha) c.cont := rfl
  cases op with
  | write k ts m d => exact writeWithOpt_toB_good hB h k ts m d
  | delete k ts m oip => exact (deleteWithOpt_toB_good hB h k ts m oip).1
  | closeActive =>
    simp only [CState.stepM, CState.step, BState.stepB, CState.closeActive, BState.closeActive, hact]
    cases c.active with
    | none => rfl
    | some a =>
      simp only [Option.map_some, hcont]
      rw [push_mapData (CBlob.toB sha) (fops cfg) (childOps cfg) (childOpsB cfg) (childOps_filterOf_toB cfg sha)]
      rfl
  | createActive =>
    simp only [CState.stepM, CState.step, BState.stepB, CState.tryCreateActive, BState.tryCreateActive, hact]
    cases c.active with
    | none => rfl
    | some a => rfl
  | restoreActive =>
    simp only [CState.stepM, CState.step, BState.stepB, CState.restoreActive, BState.restoreActive, hact]
    cases c.active with
    | some a => rfl
    | none =>
      simp only [Option.map_none, hcont, lastId_mapData]
      cases c.cont.lastId with
      | none => rfl
      | some i =>
        simp only []
        have hload : ∀ b ∈ closedBlobs c.cont, (BBlob.loadIndex cfg) (b.toB sha) = (b.loadIndex cfg).toB sha :=
          fun b hb => (h.blob b (by unfold CState.blobs; exact List.mem_append_left _ hb)).load
        rw [modifyChildB_mapData sha c.cont i (BBlob.loadIndex cfg) (CBlob.loadIndex cfg) hload, pop_mapData]
        cases hp : (modifyChild c.cont i (CBlob.loadIndex cfg)).pop with
        | mk cont' ob =>
          cases ob with
          | none => rfl
          | some b => rfl
  | replaceActive =>
    simp only [CState.stepM, CState.step, BState.stepB, CState.replaceActive, BState.replaceActive, hact]
    cases c.active with
    | none => rfl
    | some a =>
      simp only [Option.map_some]
      have h1 : ((c.toB sha).createActive cfg).cont = mapData (CBlob.toB sha) (c.createActive cfg).cont := rfl
      rw [h1, push_mapData (CBlob.toB sha) (fops cfg) (childOps cfg) (childOpsB cfg) (childOps_filterOf_toB cfg sha)]
      rfl
  | settle =>
    simp only [CState.stepM, CState.step, BState.stepB, CState.settle, BState.settle]
    apply BState.ext'
    · rfl
    · show mapData (CBlob.toB sha) (mapChildren c.cont (CBlob.dump cfg))
        = mapChildrenB (mapData (CBlob.toB sha) c.cont) (BBlob.dump cfg sha)
      symm
      apply mapChildrenB_mapData
      intro b _
      exact dump_toB cfg sha b
    · rfl
  | restart lazy => exact restart_toB cfg sha c lazy

/-! ### the off-loading operations commute with the translation -/

theorem offloadFilter_toB (sha : List Nat → List Nat) (b : CBlob) :
    (b.toB sha).offloadFilter = ((b.offloadFilter.1).toB sha, b.offloadFilter.2) := by
  unfold BBlob.offloadFilter CBlob.offloadFilter
  cases hi : b.index with
  | mem m => simp only [CBlob.toB, hi, CIndex.toB]
  | disk f mb off =>
    simp only [CBlob.toB, hi, CIndex.toB]

section Generic
variable {C C' : Type} (g : C → C')

/-- the leaf with its data translated -/
def mapLeaf (lf : FLeaf C) : FLeaf C' := { parent := lf.parent, data := g lf.data }

theorem offloadChildren_map (cops : ChildOps Combined C) (cops' : ChildOps Combined C')
    (hoff : ∀ d x y, cops'.offload (g d) x y = (g (cops.offload d x y).1, (cops.offload d x y).2))
    (needed level selfLevel : Nat) : ∀ (chs : List (Option (FLeaf C))) (freed : Nat) (ps : List Nat),
    offloadChildren cops' needed level selfLevel (chs.map (Option.map (mapLeaf g))) freed ps =
      (((offloadChildren cops needed level selfLevel chs freed ps).1).map (Option.map (mapLeaf g)),
        (offloadChildren cops needed level selfLevel chs freed ps).2)
  | [], _, _ => rfl
  | none :: rest, freed, ps => by
    simp only [List.map_cons, Option.map_none, offloadChildren]
    rw [offloadChildren_map cops cops' hoff needed level selfLevel rest freed ps]
  | some lf :: rest, freed, ps => by
    simp only [List.map_cons, Option.map_some, offloadChildren]
    by_cases h : freed ≥ needed
    · rw [if_pos h, if_pos h]
      simp
    · rw [if_neg h, if_neg h]
      have hp : (mapLeaf g lf).parent = lf.parent := rfl
      have hd : (mapLeaf g lf).data = g lf.data := rfl
      simp only [hp, hd, hoff]
      rw [offloadChildren_map cops cops' hoff needed level selfLevel rest _ _]
      rfl

theorem offloadRound_mapData (ops : FilterOps Combined) (needed : Nat) :
    ∀ (ps : List Nat) (c : Container Combined C) (freed : Nat) (np : List Nat),
    offloadRound ops needed ps (mapData g c) freed np =
      (mapData g (offloadRound ops needed ps c freed np).1, (offloadRound ops needed ps c freed np).2)
  | [], _, _, _ => rfl
  | p :: ps, c, freed, np => by
    simp only [offloadRound]
    by_cases h : freed ≥ needed
    · rw [if_pos h, if_pos h]
    · rw [if_neg h, if_neg h]
      have hn : (mapData g c).getNode p = c.getNode p := rfl
      rw [hn]
      cases c.getNode p with
      | none => exact offloadRound_mapData ops needed ps c freed np
      | some n =>
        simp only []
        have hm : ∀ f, (mapData g c).modifyNode p f = mapData g (c.modifyNode p f) := fun _ => rfl
        rw [hm]
        exact offloadRound_mapData ops needed ps _ _ _

theorem offloadNodes_mapData (ops : FilterOps Combined) (needed : Nat) :
    ∀ (fuel : Nat) (c : Container Combined C) (freed : Nat) (ps : List Nat),
    offloadNodes ops needed fuel (mapData g c) freed ps =
      (mapData g (offloadNodes ops needed fuel c freed ps).1, (offloadNodes ops needed fuel c freed ps).2)
  | 0, _, _, _ => rfl
  | _ + 1, _, _, [] => rfl
  | fuel + 1, c, freed, p :: ps => by
    simp only [offloadNodes]
    rw [offloadRound_mapData g ops needed (p :: ps) c freed []]
    simp only []
    split
    · rfl
    · exact offloadNodes_mapData ops needed fuel _ _ _

theorem offload_mapData (ops : FilterOps Combined) (cops : ChildOps Combined C) (cops' : ChildOps Combined C')
    (hoff : ∀ d x y, cops'.offload (g d) x y = (g (cops.offload d x y).1, (cops.offload d x y).2))
    (c : Container Combined C) (needed level : Nat) :
    Container.offload ops cops' (mapData g c) needed level =
      (mapData g (Container.offload ops cops c needed level).1, (Container.offload ops cops c needed level).2) := by
  unfold Container.offload
  have hch : (mapData g c).children = c.children.map (Option.map (mapLeaf g)) := rfl
  have hlv : (mapData g c).level = c.level := rfl
  rw [hch, hlv, offloadChildren_map g cops cops' hoff]
  simp only []
  split
  · rfl
  · split
    · rfl
    · have hlen : (mapData g c).inner.length = c.inner.length := rfl
      rw [hlen]
      exact offloadNodes_mapData g ops needed _ { c with children := _ } _ _

end Generic

theorem offloadBlob_toB (sha : List Nat → List Nat) (c : CState) (j : Nat) :
    (c.offloadBlob j).toB sha = (c.toB sha).offloadBlob j := by
  unfold CState.offloadBlob BState.offloadBlob
  apply BState.ext'
  · rfl
  · show mapData (CBlob.toB sha) (modifyChild c.cont j (fun b => b.offloadFilter.1))
      = modifyChildB (mapData (CBlob.toB sha) c.cont) j (fun b => b.offloadFilter.1)
    symm
    apply modifyChildB_mapData
    intro b _
    simp only [offloadFilter_toB]
  · rfl

theorem offloadBuffer_toB (cfg : Cfg) (sha : List Nat → List Nat) (c : CState) (needed level : Nat) :
    (c.offloadBuffer cfg needed level).1.toB sha = ((c.toB sha).offloadBuffer cfg needed level).1 ∧
      (c.offloadBuffer cfg needed level).2 = ((c.toB sha).offloadBuffer cfg needed level).2 := by
  unfold CState.offloadBuffer BState.offloadBuffer
  have hcont : (c.toB sha).cont = mapData (CBlob.toB sha) c.cont := rfl
  simp only [hcont]
  rw [offload_mapData (CBlob.toB sha) (fops cfg) (childOps cfg) (childOpsB cfg)
    (fun d _ _ => offloadFilter_toB sha d)]
  exact ⟨rfl, rfl⟩

theorem stepO_toB (hB : BytesOK cfg sha) {c : CState} (h : GoodB cfg sha c) (op : OOp) :
    (c.stepO cfg op).toB sha = (c.toB sha).stepBO cfg sha op := by
  cases op with
  | op o => exact stepM_toB_good hB h o
  | offloadBlob j => exact offloadBlob_toB sha c j
  | offloadBuffer n lv => exact (offloadBuffer_toB cfg sha c n lv).1

/-! ### runs -/

theorem brunO_cons (cfg : Cfg) (sha : List Nat → List Nat) (c : BState) (op : OOp) (ops : List OOp) :
    c.runBO cfg sha (op :: ops) = (c.stepBO cfg sha op).runBO cfg sha ops := rfl

theorem goodB_of_store (hB : BytesOK cfg sha) {c : CState} (h : CInvO cfg c) (h3 : StoreIdxSized cfg (c.abs cfg)) :
    GoodB cfg sha c :=
  goodB_of_invO hB h (idxSized_of_store hB.ok h.inv (by rw [reload_abs]; exact h3))

/-- along a run with off-loading the byte-level storage is the translation of the structured one -/
theorem runBO_eq_from (hB : BytesOK cfg sha) : ∀ (ops : List OOp) (c : CState), CInvO cfg c →
    StoreMetaOK (c.abs cfg) → (∀ op ∈ ops, op.OK cfg) →
    (∀ n, n ≤ ops.length → StoreIdxSized cfg ((ops.take n).foldl OOp.applyAbs (c.abs cfg))) →
    (c.runO cfg ops).toB sha = (c.toB sha).runBO cfg sha ops
  | [], _, _, _, _, _ => rfl
  | op :: ops, c, hinv, hmeta, hops, hsz => by
    have h0 := hsz 0 (by simp)
    simp only [List.take_zero, List.foldl_nil] at h0
    have h1 := hsz 1 (by simp)
    simp only [List.take_succ_cons, List.take_zero, List.foldl_cons, List.foldl_nil] at h1
    obtain ⟨ha, hi, hm⟩ := stepO_ref hB.ok hinv hmeta op (hops op (by simp)) h1.toStoreSized
    rw [crunO_cons, brunO_cons, ← stepO_toB hB (goodB_of_store hB hinv h0) op]
    apply runBO_eq_from hB ops (c.stepO cfg op) hi hm (fun o ho => hops o (by simp [ho]))
    intro n hn
    have := hsz (n + 1) (by simp; omega)
    simp only [List.take_succ_cons, List.foldl_cons] at this
    rw [ha]; exact this

theorem storeIdxSized_take (ops : List OOp) (h : StoreIdxSized cfg ((Store.init cfg.allowDup).run ((OOp.erase ops).map MOp.abs)))
    (n : Nat) : StoreIdxSized cfg ((ops.take n).foldl OOp.applyAbs (Store.init cfg.allowDup)) := by
  rw [← run_erase]
  obtain ⟨m, hm⟩ := erase_take ops n
  rw [hm, List.map_take]
  exact storeIdxSized_prefix cfg (init_WF _) _ h m

/-- the byte-level storage run from the empty directory, with off-loading interleaved, is the translation of the
    structured one -/
theorem runBO_eq (hB : BytesOK cfg sha) (ops : List OOp) (hops : ∀ op ∈ ops, op.OK cfg)
    (hsz : StoreIdxSized cfg ((Store.init cfg.allowDup).run ((OOp.erase ops).map MOp.abs))) :
    (BState.init cfg).runBO cfg sha ops = ((CState.init cfg).runO cfg ops).toB sha := by
  rw [← init_toB cfg sha]
  symm
  apply runBO_eq_from hB ops (CState.init cfg) (init_inv hB.ok).toCInvO (by rw [init_abs]; exact init_metaOK _) hops
  intro n _
  rw [init_abs]
  exact storeIdxSized_take ops hsz n

/-! ### the answers -/

/-- the answers of the byte-level storage in a state with off-loaded filters are those of the L2 state -/
theorem answers_of_invO (hB : BytesOK cfg sha) {c : CState} (h : CInvO cfg c) (hmeta : StoreMetaOK (c.abs cfg))
    (h3 : StoreIdxSized cfg (c.abs cfg)) (k : Key) :
    (∀ m, (∀ x, m = some x → MetaOK x) →
      (c.toB sha).readWithOpt cfg k m = .ok (((c.abs cfg).read k m).map (fun r => dataOf r.data))) ∧
    (∀ m, (∀ x, m = some x → MetaOK x) →
      (c.toB sha).containsWith cfg k m = .ok (((c.abs cfg).getLatestEntry k m).map (·.ts))) ∧
    (∃ Z : List (Rec × CEntry), (c.toB sha).readAllMarked cfg k = .ok (Z.map (·.2)) ∧
      (c.abs cfg).readAllMarked k = Z.map (·.1) ∧ ∀ x ∈ Z, EntryOf x) ∧
    (∃ Z : List (Rec × CEntry), (c.toB sha).readAll cfg k = .ok (Z.map (·.2)) ∧
      (c.abs cfg).readAll k = Z.map (·.1) ∧ ∀ x ∈ Z, EntryOf x) := by
  have hg := goodB_of_store hB h h3
  have hmeta' : StoreMetaOK ((c.reload cfg).abs cfg) := by rw [reload_abs]; exact hmeta
  refine ⟨fun m hm => ?_, fun m hm => ?_, ?_, ?_⟩
  · rw [readWithOpt_toB_good hg, ← readWithOpt_reload h, readWithOpt_eq hB.ok h.inv hmeta' k m hm, reload_abs]
  · rw [containsWith_toB_good hg, ← containsWith_reload h, containsWith_eq hB.ok h.inv hmeta' k m hm, reload_abs]
  · obtain ⟨Z, h1, h2, hz⟩ := readAllMarked_rr hB.ok h.inv k
    rw [reload_abs] at h2
    exact ⟨Z, by rw [readAllMarked_toB_good hg, ← readAllMarked_reload]; exact h1, h2, hz⟩
  · obtain ⟨Z, h1, h2, hz⟩ := readAll_rr hB.ok h.inv k
    rw [reload_abs] at h2
    exact ⟨Z, by rw [readAll_toB_good hg, ← readAll_reload]; exact h1, h2, hz⟩

/-- two states over the same L2 state answer alike -/
theorem sameAnswers_of_abs (hB : BytesOK cfg sha) {c c' : CState} (h : CInvO cfg c) (h' : CInvO cfg c')
    (hmeta : StoreMetaOK (c.abs cfg)) (h3 : StoreIdxSized cfg (c.abs cfg)) (habs : c'.abs cfg = c.abs cfg) :
    SameAnswers cfg (c.toB sha) (c'.toB sha) := by
  intro k
  obtain ⟨a1, a2, ⟨Z, a3, a3', a3z⟩, ⟨Y, a4, a4', a4z⟩⟩ := answers_of_invO hB h hmeta h3 k
  obtain ⟨b1, b2, ⟨Z', b3, b3', b3z⟩, ⟨Y', b4, b4', b4z⟩⟩ :=
    answers_of_invO hB h' (by rw [habs]; exact hmeta) (by rw [habs]; exact h3) k
  refine ⟨fun m hm => ?_, fun m hm => ?_, ?_, ?_⟩
  · rw [a1 m hm, b1 m hm, habs]
  · rw [a2 m hm, b2 m hm, habs]
  · refine ⟨_, _, a3, b3, ?_⟩
    rw [views_eq Z a3z, views_eq Z' b3z, ← a3', ← b3', habs]
  · refine ⟨_, _, a4, b4, ?_⟩
    rw [views_eq Y a4z, views_eq Y' b4z, ← a4', ← b4', habs]

/-! ### the filters re-read at start-up probe the same bits -/

/-- the index file dumped for the records of a blob: at start-up `deserialize_filters` gives back the filter of the
    blob and the `bloom_offset` `serialize_filters` had computed (`openIndex_current`); and once the bloom buffer is
    off-loaded, the probes `read_meta_at(i + bloom_offset)` on the BYTES of the file answer for every key exactly as
    the resident filter does — they read the very bits -/
theorem reread_filter_probes (hB : BytesOK cfg sha) {b : CBlob} (hb : BlobInv cfg b) (hne : b.ghost ≠ [])
    (h3 : Sized3 cfg b.ghost) {mb : List Nat} {off : Nat}
    (hs : serializeFilters cfg.klen (filterOf cfg b.ghost) = some (mb, off)) :
    openIndex cfg b.file.length (imageRecs cfg sha b.ghost mb) = .accepted b.filter off ∧
    ∀ k, ({ id := b.id, file := b.file, index := .disk (imageRecs cfg sha b.ghost mb) off,
            filter := b.filter.offload.1 } : BBlob).checkFilter cfg k = b.filter.containsFast cfg.h k := by
  refine ⟨openIndex_current hB hb hne h3 hs, fun k => ?_⟩
  have hD : BlobInv cfg { b with index := .disk (fileRecs cfg b.ghost mb) mb off } := by
    rw [← dump_reidx_eq hb hne hs]; exact (dump_inv (reidx_inv hb)).1
  have hsD : ({ b with index := .disk (fileRecs cfg b.ghost mb) mb off } : CBlob).IdxSized := by
    intro f mb' off' hi
    cases hi
    exact fileRecs_size hB.ok h3 hs
  have himg : imageRecs cfg sha b.ghost mb = imageOf sha (fileRecs cfg b.ghost mb) mb b.file.length := by
    unfold imageRecs; rw [hb.file]
  have hrel : (({ b with index := .disk (fileRecs cfg b.ghost mb) mb off, filter := b.filter.offload.1 } : CBlob).reload cfg)
      = { b with index := .disk (fileRecs cfg b.ghost mb) mb off } := by
    unfold CBlob.reload
    simp only [← hb.filter]
  have h1 := checkFilter_toB_off (sha := sha) hB
    (b := { b with index := .disk (fileRecs cfg b.ghost mb) mb off, filter := b.filter.offload.1 })
    (by rw [hrel]; exact hD) (by rw [hrel]; exact hsD) k
  rw [himg]
  have h2 : ({ b with index := .disk (fileRecs cfg b.ghost mb) mb off, filter := b.filter.offload.1 } : CBlob).checkFilter cfg k
      = b.filter.offload.1.contains cfg.h (metaReadByte mb off) k := rfl
  rw [h2, Combined.contains_offload_eq cfg.h cfg.klen b.filter mb off hb.filter_WF (by rw [hb.filter]; exact hs)] at h1
  exact h1

/-! ### start-up (with or without index files) from a state with off-loaded filters -/

/-- `Blob::from_file` reads the blob file and the index file only: whatever filter the closed storage held in
    memory is irrelevant -/
theorem fromFileB_congr (cfg : Cfg) (x y : BBlob) (idx : Option (List Nat)) (hid : x.id = y.id)
    (hfile : x.file = y.file) : fromFileB cfg x idx = fromFileB cfg y idx := by
  cases x; cases y
  simp only at hid hfile
  subst hid; subst hfile
  rfl

theorem regenB_congr (cfg : Cfg) (x y : BBlob) (hid : x.id = y.id) (hfile : x.file = y.file) :
    regenB cfg x = regenB cfg y := by
  cases x; cases y
  simp only at hid hfile
  subst hid; subst hfile
  rfl

theorem startAllB_reload (cfg : Cfg) (sha : List Nat → List Nat) (dir : Nat → Option (List Nat)) :
    ∀ (l : List CBlob), startAllB cfg dir ((l.map (CBlob.reload cfg)).map (CBlob.toB sha))
      = startAllB cfg dir (l.map (CBlob.toB sha))
  | [] => rfl
  | b :: l => by
    simp only [List.map_cons, startAllB, startAllB_reload cfg sha dir l]
    rw [fromFileB_congr cfg ((b.reload cfg).toB sha) (b.toB sha) _ rfl rfl]
    rfl

theorem regenAllB_reload (cfg : Cfg) (sha : List Nat → List Nat) :
    ∀ (l : List CBlob), regenAllB cfg ((l.map (CBlob.reload cfg)).map (CBlob.toB sha))
      = regenAllB cfg (l.map (CBlob.toB sha))
  | [] => rfl
  | b :: l => by
    simp only [List.map_cons, regenAllB, regenAllB_reload cfg sha l]
    rw [regenB_congr cfg ((b.reload cfg).toB sha) (b.toB sha) rfl rfl]

theorem restartWithIndexes_reload (cfg : Cfg) (sha : List Nat → List Nat) (c : CState)
    (dir : Nat → Option (List Nat)) (lazy : Bool) :
    ((c.reload cfg).toB sha).restartWithIndexes cfg sha dir lazy = (c.toB sha).restartWithIndexes cfg sha dir lazy := by
  unfold BState.restartWithIndexes
  rw [blobs_toB, blobs_toB, reload_blobs, sortByIdB_map, sortByIdB_map, sortById_map_reload, startAllB_reload]

theorem restartB_reload (cfg : Cfg) (sha : List Nat → List Nat) {c : CState}
    (hsome : (regenAllB cfg (sortByIdB (c.toB sha).blobs)).isSome = true) (lazy : Bool) :
    ((c.reload cfg).toB sha).restart cfg sha lazy = (c.toB sha).restart cfg sha lazy := by
  unfold BState.restart
  rw [blobs_toB, blobs_toB, reload_blobs, sortByIdB_map, sortByIdB_map, sortById_map_reload, regenAllB_reload]
  rw [blobs_toB, sortByIdB_map] at hsome
  cases hr : regenAllB cfg ((sortById c.blobs).map (CBlob.toB sha)) with
  | none => rw [hr] at hsome; cases hsome
  | some bs => rfl

/-- `restartWithIndexes_of_inv` from a state with off-loaded filters -/
theorem restartWithIndexes_of_invO (hB : BytesOK cfg sha) {c : CState} (h : CInvO cfg c)
    (hmeta : StoreMetaOK (c.abs cfg)) (hne : (c.abs cfg).blobs ≠ []) (h3 : StoreIdxSized cfg (c.abs cfg))
    (dir : Nat → Option (List Nat)) (hdir : DirChoice cfg sha c dir) (lazy : Bool) :
    ((c.toB sha).restartWithIndexes cfg sha dir lazy = none ↔ IndexBesideEmpty c dir) ∧
    ∀ b', (c.toB sha).restartWithIndexes cfg sha dir lazy = some b' →
      b' = (c.toB sha).restart cfg sha lazy ∧ b' = ((c.restart cfg lazy).toB sha) ∧ CInv cfg (c.restart cfg lazy) ∧
        SameAnswers cfg (c.toB sha) b' := by
  have hdir' : DirChoice cfg sha (c.reload cfg) dir := by
    intro b hb
    rw [reload_blobs] at hb
    obtain ⟨b0, hb0, rfl⟩ := List.mem_map.mp hb
    exact hdir b0 hb0
  have hbe : IndexBesideEmpty (c.reload cfg) dir ↔ IndexBesideEmpty c dir := by
    rw [indexBesideEmpty_iff cfg, indexBesideEmpty_iff cfg, reload_abs]
  obtain ⟨h1, h2⟩ := restartWithIndexes_of_inv hB h.inv (by rw [reload_abs]; exact hmeta)
    (by rw [reload_abs]; exact hne) (by rw [reload_abs]; exact h3) dir hdir' lazy
  rw [restartWithIndexes_reload, hbe] at h1
  rw [restartWithIndexes_reload] at h2
  refine ⟨h1, fun b' hb' => ?_⟩
  obtain ⟨e1, _⟩ := h2 b' hb'
  have hL : ∀ b ∈ sortById (c.reload cfg).blobs, BlobInv cfg b :=
    fun b hb => CInvG.blobInv h.inv (mem_sortById.mp hb)
  have hsome : (regenAllB cfg (sortByIdB (c.toB sha).blobs)).isSome = true := by
    have := regenAll_eq _ hL
    rw [blobs_toB, sortByIdB_map, ← regenAllB_reload, ← sortById_map_reload, ← reload_blobs, regenAllB_map, this]
    rfl
  have e2 : b' = (c.toB sha).restart cfg sha lazy := by rw [e1, restartB_reload cfg sha hsome]
  have hstep := stepM_reload hB.ok h (.restart lazy)
  have hr : (c.restart cfg lazy).reload cfg = (c.reload cfg).restart cfg lazy := hstep.1
  have hinv' : CInv cfg ((c.reload cfg).restart cfg lazy) := (restart_ref hB.ok h.inv lazy).2
  have hsomeC : (regenAll cfg (sortById c.blobs)).isSome = true := by
    have := regenAll_eq _ hL
    rw [reload_blobs, sortById_map_reload, regenAll_map_reload] at this
    rw [this]; rfl
  have heq := restart_reload_eq cfg c lazy
  rw [hsomeC, if_pos rfl] at heq
  have hinvc : CInv cfg (c.restart cfg lazy) := by rw [← heq]; exact hinv'
  have e3 : b' = (c.restart cfg lazy).toB sha := by rw [e2, restart_toB]
  refine ⟨e2, e3, hinvc, ?_⟩
  rw [e3]
  have habs' : (c.restart cfg lazy).abs cfg = (c.abs cfg).restart lazy := by
    rw [← heq]
    have := (restart_ref hB.ok h.inv lazy).1
    rw [reload_abs] at this
    exact this
  -- same answers: through the L2 state, which `restart` leaves with the same answers
  intro k
  have hhist := (Store.restart_of_ne_nil (by have := h.inv.wf; rwa [reload_abs] at this) lazy hne).1
  have h3' : StoreIdxSized cfg ((c.restart cfg lazy).abs cfg) := by
    rw [habs']; exact storeIdxSized_of_history hhist h3
  have hmeta' : StoreMetaOK ((c.restart cfg lazy).abs cfg) := by
    rw [habs']
    exact stepM_metaOK (cfg := cfg) (by have := h.inv.wf; rwa [reload_abs] at this) hmeta (.restart lazy) trivial
  have hwf : (c.abs cfg).WF := by have := h.inv.wf; rwa [reload_abs] at this
  have hans := restart_answers hwf lazy k
  obtain ⟨a1, a2, ⟨Z, a3, a3', a3z⟩, ⟨Y, a4, a4', a4z⟩⟩ := answers_of_invO hB h hmeta h3 k
  obtain ⟨b1, b2, ⟨Z', b3, b3', b3z⟩, ⟨Y', b4, b4', b4z⟩⟩ := answers_of_invO hB hinvc.toCInvO hmeta' h3' k
  refine ⟨fun m hm => ?_, fun m hm => ?_, ?_, ?_⟩
  · rw [a1 m hm, b1 m hm, habs']
    unfold Store.read
    rw [hans.2.2.2.2.2 m]
  · rw [a2 m hm, b2 m hm, habs', hans.2.2.2.2.2 m]
  · refine ⟨_, _, a3, b3, ?_⟩
    rw [views_eq Z a3z, views_eq Z' b3z, ← a3', ← b3', habs', hans.2.2.2.1]
  · refine ⟨_, _, a4, b4, ?_⟩
    rw [views_eq Y a4z, views_eq Y' b4z, ← a4', ← b4', habs', hans.2.2.2.2.1]

end
end Pearl.E2E
