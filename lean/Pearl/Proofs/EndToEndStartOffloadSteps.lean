import Pearl.Proofs.EndToEndStartOffload
/-
End-to-end composition, bloom off-loading, lemmas, part 2: every operation of the structured storage commutes with
`reload` and keeps `BlobOff`, so `CInvO` is an invariant and the abstraction to L2 does not see the off-loading.
-/
namespace Pearl.E2E
open Pearl Pearl.BPTree Pearl.Container

section
variable {cfg : Cfg}

/-! ### blobs -/

theorem Combined.offload_offload (c : Combined) : c.offload.1.offload.1 = c.offload.1 := by
  unfold Combined.offload
  cases hb : c.bloom with
  | none => simp [hb]
  | some b => simp [Bloom.offload]

theorem writeRec_reload (cfg : Cfg) (b : CBlob) (r : Rec) :
    (b.writeRec cfg r).reload cfg = (b.reload cfg).writeRec cfg r := by
  cases hi : b.index with
  | mem m =>
    rw [writeRec_mem cfg b m hi r, writeRec_mem cfg (b.reload cfg) m hi r]
    simp only [CBlob.reload, filterOf_snoc]
  | disk f mb off =>
    unfold CBlob.writeRec CBlob.indexPush
    have hri : (b.reload cfg).index = b.index := rfl
    simp only [hri, hi]
    rfl

theorem writeRec_blobOff {b : CBlob} (hb : BlobOff cfg b) (r : Rec) : BlobOff cfg (b.writeRec cfg r) := by
  cases hi : b.index with
  | mem m =>
    have : b.filter = filterOf cfg b.ghost := by
      rcases hb with h | ⟨h, _⟩
      · exact h
      · rw [hi] at h; cases h
    rw [writeRec_mem cfg b m hi r]
    left
    simp only [filterOf_snoc, this]
  | disk f mb off =>
    unfold CBlob.writeRec CBlob.indexPush
    simp only [hi]
    rcases hb with h | ⟨h1, h2⟩
    · exact Or.inl h
    · exact Or.inr ⟨by simp only []; rfl, h2⟩

/-- `load_index` reads the filter back from the file: an off-loaded blob and its reload load alike -/
theorem loadIndex_reload (hcfg : cfg.OK) {b : CBlob} (hoff : BlobOff cfg b) (hR : BlobInv cfg (b.reload cfg)) :
    b.loadIndex cfg = (b.reload cfg).loadIndex cfg := by
  have hidx := hR.index
  unfold IndexInv at hidx
  have hri : (b.reload cfg).index = b.index := rfl
  cases hi : b.index with
  | mem m =>
    rw [hoff.of_mem (by rw [hi]; rfl)]
  | disk f mb off =>
    rw [hri, hi] at hidx
    simp only [] at hidx
    obtain ⟨_, hs, hf⟩ := hidx
    have hs' : serializeFilters cfg.klen (filterOf cfg b.ghost) = some (mb, off) := hs
    have hload : f.load = some (indexOf (hdrsOf cfg b.ghost)) := by
      rw [hf]; exact C09.load_build _ _ _ (indexOf_WF _)
    have hc : combinedOfFile cfg.bloomIsOn mb = some (filterOf cfg b.ghost, off) :=
      combinedOfFile_serialize cfg _ mb off (filterOf_facts cfg b.ghost).1
        (filterOf_sized cfg hcfg b.ghost hR.key) (filterOf_bloom_isSome cfg b.ghost) hs'
    unfold CBlob.loadIndex
    simp only [hri, hi, hload, hc]
    rfl

theorem loadIndex_reload' (hcfg : cfg.OK) {b : CBlob} (hoff : BlobOff cfg b) (hR : BlobInv cfg (b.reload cfg)) :
    (b.loadIndex cfg).reload cfg = (b.reload cfg).loadIndex cfg := by
  rw [loadIndex_reload hcfg hoff hR]
  exact reload_of_filter (loadIndex_inv hcfg hR).1.filter

theorem loadIndex_blobOff (hcfg : cfg.OK) {b : CBlob} (hoff : BlobOff cfg b) (hR : BlobInv cfg (b.reload cfg)) :
    BlobOff cfg (b.loadIndex cfg) := by
  rw [loadIndex_reload hcfg hoff hR]
  exact Or.inl (loadIndex_inv hcfg hR).1.filter

theorem deleteM_reload (hcfg : cfg.OK) {b : CBlob} (hoff : BlobOff cfg b) (hR : BlobInv cfg (b.reload cfg))
    (k : Key) (ts : Nat) (m : Option Meta) (oip : Bool) :
    (b.deleteM cfg k ts m oip).1.reload cfg = ((b.reload cfg).deleteM cfg k ts m oip).1 ∧
    (b.deleteM cfg k ts m oip).2 = ((b.reload cfg).deleteM cfg k ts m oip).2 ∧
    BlobOff cfg (b.deleteM cfg k ts m oip).1 := by
  have hri : (b.reload cfg).indexLatest k = b.indexLatest k := rfl
  have key : ∀ present : Bool,
      (if (!oip || present) = true then
          ((b.loadIndex cfg).writeRec cfg { key := k, ts := ts, del := true, mt := m.getD none, data := ⟨0, 0⟩ }, true)
        else (b, false)).1.reload cfg =
      (if (!oip || present) = true then
          (((b.reload cfg).loadIndex cfg).writeRec cfg
            { key := k, ts := ts, del := true, mt := m.getD none, data := ⟨0, 0⟩ }, true)
        else (b.reload cfg, false)).1 ∧
      (if (!oip || present) = true then
          ((b.loadIndex cfg).writeRec cfg { key := k, ts := ts, del := true, mt := m.getD none, data := ⟨0, 0⟩ }, true)
        else (b, false)).2 =
      (if (!oip || present) = true then
          (((b.reload cfg).loadIndex cfg).writeRec cfg
            { key := k, ts := ts, del := true, mt := m.getD none, data := ⟨0, 0⟩ }, true)
        else (b.reload cfg, false)).2 ∧
      BlobOff cfg (if (!oip || present) = true then
          ((b.loadIndex cfg).writeRec cfg { key := k, ts := ts, del := true, mt := m.getD none, data := ⟨0, 0⟩ }, true)
        else (b, false)).1 := by
    intro present
    by_cases hc : (!oip || present) = true
    · rw [if_pos hc, if_pos hc]
      exact ⟨by rw [writeRec_reload, loadIndex_reload' hcfg hoff hR], rfl,
        writeRec_blobOff (loadIndex_blobOff hcfg hoff hR) _⟩
    · rw [if_neg hc, if_neg hc]
      exact ⟨rfl, rfl, hoff⟩
  unfold CBlob.deleteM
  rw [hri]
  exact key _

theorem dump_reload {b : CBlob} (hoff : BlobOff cfg b) :
    (b.dump cfg).reload cfg = (b.reload cfg).dump cfg ∧ BlobOff cfg (b.dump cfg) := by
  cases hi : b.index with
  | disk f mb off =>
    have h1 : b.dump cfg = b := by unfold CBlob.dump; rw [hi]
    have h2 : (b.reload cfg).dump cfg = b.reload cfg := by
      unfold CBlob.dump
      have hri : (b.reload cfg).index = b.index := rfl
      rw [hri, hi]
    rw [h1, h2]
    exact ⟨rfl, hoff⟩
  | mem m =>
    have hb := hoff.of_mem (by rw [hi]; rfl)
    have hfl : b.filter = filterOf cfg b.ghost := by
      rcases hoff with h | ⟨h, _⟩
      · exact h
      · rw [hi] at h; cases h
    rw [hb]
    unfold CBlob.dump
    rw [hi]
    simp only []
    split
    · exact ⟨hb, Or.inl hfl⟩
    · split
      · exact ⟨hb, Or.inl hfl⟩
      · exact ⟨reload_of_filter hfl, Or.inl hfl⟩

theorem offloadFilter_reload (cfg : Cfg) (b : CBlob) : (b.offloadFilter.1).reload cfg = b.reload cfg := by
  unfold CBlob.offloadFilter
  cases hi : b.index with
  | mem m => rfl
  | disk f mb off =>
    simp only []
    generalize b.filter.offload = p
    obtain ⟨f', n⟩ := p
    simp only [CBlob.reload, hi]

theorem offloadFilter_blobOff {b : CBlob} (hoff : BlobOff cfg b) : BlobOff cfg b.offloadFilter.1 := by
  unfold CBlob.offloadFilter
  cases hi : b.index with
  | mem m => exact hoff
  | disk f mb off =>
    right
    refine ⟨by simp only []; rfl, ?_⟩
    rcases hoff with h | ⟨_, h⟩
    · show b.filter.offload.1 = _
      rw [h]
    · show b.filter.offload.1 = _
      rw [h, Combined.offload_offload]

theorem openNew_reload (cfg : Cfg) (id : Nat) : (CBlob.openNew cfg id).reload cfg = CBlob.openNew cfg id := rfl

theorem openNew_blobOff (cfg : Cfg) (id : Nat) : BlobOff cfg (CBlob.openNew cfg id) := Or.inl rfl

/-! ### containers -/

theorem CState.ext' {a b : CState} (h1 : a.active = b.active) (h2 : a.cont = b.cont) (h3 : a.nextId = b.nextId) :
    a = b := by
  cases a; cases b; simp_all

theorem mem_closedBlobs_of_child {c : Container Combined CBlob} {lf : FLeaf CBlob} (h : some lf ∈ c.children) :
    lf.data ∈ closedBlobs c := by
  unfold closedBlobs
  exact List.mem_filterMap.mpr ⟨some lf, h, rfl⟩

theorem mapChildren_mapData' (c : Container Combined CBlob) (f f' g : CBlob → CBlob)
    (h : ∀ b ∈ closedBlobs c, f' (g b) = g (f b)) : mapChildren (mapData g c) f' = mapData g (mapChildren c f) := by
  simp only [mapData, mapChildren, List.map_map]
  congr 1
  apply List.map_congr_left
  intro o ho
  cases o with
  | none => rfl
  | some lf => simp [h lf.data (mem_closedBlobs_of_child ho)]

theorem modifyChild_mapData' (c : Container Combined CBlob) (i : Nat) (f f' g : CBlob → CBlob)
    (h : ∀ b ∈ closedBlobs c, f' (g b) = g (f b)) :
    modifyChild (mapData g c) i f' = mapData g (modifyChild c i f) := by
  simp only [mapData, modifyChild]
  congr 1
  apply List.ext_getElem?
  intro j
  simp only [List.getElem?_map, List.getElem?_modify]
  by_cases hij : i = j
  · subst hij
    cases hc : c.children[i]? with
    | none => rfl
    | some o =>
      cases o with
      | none => simp
      | some lf => simp [h lf.data (mem_closedBlobs_of_child (List.mem_of_getElem? hc))]
  · simp [hij]

theorem mapData_congr' (c : Container Combined CBlob) (f g : CBlob → CBlob) (h : ∀ b ∈ closedBlobs c, f b = g b) :
    mapData f c = mapData g c := by
  simp only [mapData]
  congr 1
  apply List.map_congr_left
  intro o ho
  cases o with
  | none => rfl
  | some lf => simp [h lf.data (mem_closedBlobs_of_child ho)]

theorem addChild_cops_congr {F C : Type} (ops : FilterOps F) (cops cops' : ChildOps F C) (c : Container F C)
    (node : Nat) (child : C) (h : cops.filterOf child = cops'.filterOf child) :
    addChild ops cops c node child = addChild ops cops' c node child := by
  rw [addChild_eq, addChild_eq, h]

theorem push_cops_congr {F C : Type} (ops : FilterOps F) (cops cops' : ChildOps F C) (c : Container F C)
    (child : C) (h : cops.filterOf child = cops'.filterOf child) :
    Container.push ops cops c child = Container.push ops cops' c child := by
  unfold Container.push
  simp only [addChild_cops_congr ops cops cops' _ _ child h]

/-- `childOps` reading the filter of the reloaded blob -/
def childOpsR (cfg : Cfg) : ChildOps Combined CBlob :=
  { filterOf := fun b => some (b.reload cfg).filter
    checkFilter := (childOps cfg).checkFilter
    offload := (childOps cfg).offload }

/-- pushing a blob whose filter is resident commutes with `reload` of the children -/
theorem push_reload (cfg : Cfg) (c : Container Combined CBlob) (a : CBlob) (ha : a.reload cfg = a) :
    Container.push (fops cfg) (childOps cfg) (mapData (CBlob.reload cfg) c) a =
      (mapData (CBlob.reload cfg) (Container.push (fops cfg) (childOps cfg) c a).1,
        (Container.push (fops cfg) (childOps cfg) c a).2) := by
  have h1 := push_mapData (CBlob.reload cfg) (fops cfg) (childOpsR cfg) (childOps cfg) (fun _ => rfl) c a
  rw [ha] at h1
  rw [h1, push_cops_congr (fops cfg) (childOpsR cfg) (childOps cfg) c a (by
    show some (a.reload cfg).filter = some a.filter
    rw [ha])]

theorem closedBlobs_push (cfg : Cfg) (c : Container Combined CBlob) (a : CBlob) :
    ∀ b ∈ closedBlobs (Container.push (fops cfg) (childOps cfg) c a).1, b ∈ closedBlobs c ∨ b = a := by
  intro b hb
  cases hp : c.pushPanics with
  | false =>
    have hs := push_slots (fops cfg) (childOps cfg) c a hp
    rw [mem_closedBlobs, hs] at hb
    rcases List.mem_append.mp hb with h | h
    · exact Or.inl (mem_closedBlobs.mpr h)
    · simp only [List.mem_singleton, Option.some.injEq] at h
      exact Or.inr h
  | true =>
    unfold Container.pushPanics at hp
    simp only [Bool.and_eq_true, Bool.not_eq_eq_eq_not, Bool.not_true, decide_eq_false_iff_not,
      Option.isNone_iff_eq_none] at hp
    unfold Container.push at hb
    rw [if_neg hp.1, hp.2] at hb
    exact Or.inl hb

/-! ### the storage: every operation commutes with `reload` and keeps `BlobOff` -/

/-- every blob filter is the filter of the records or that filter off-loaded -/
def AllOff (cfg : Cfg) (c : CState) : Prop := ∀ b ∈ c.blobs, BlobOff cfg b

theorem reload_active (cfg : Cfg) (c : CState) : (c.reload cfg).active = c.active.map (CBlob.reload cfg) := rfl
theorem reload_cont (cfg : Cfg) (c : CState) : (c.reload cfg).cont = mapData (CBlob.reload cfg) c.cont := rfl

theorem allOff_of {c : CState} (ha : ∀ a, c.active = some a → BlobOff cfg a)
    (hc : ∀ b ∈ closedBlobs c.cont, BlobOff cfg b) : AllOff cfg c := by
  intro b hb
  unfold CState.blobs at hb
  rcases List.mem_append.mp hb with h | h
  · exact hc b h
  · cases hact : c.active with
    | none => rw [hact] at h; cases h
    | some a =>
      rw [hact] at h
      simp only [Option.toList_some, List.mem_singleton] at h
      subst h
      exact ha b hact

theorem AllOff.closed {c : CState} (h : AllOff cfg c) : ∀ b ∈ closedBlobs c.cont, BlobOff cfg b :=
  fun b hb => h b (by unfold CState.blobs; exact List.mem_append_left _ hb)

theorem AllOff.act {c : CState} (h : AllOff cfg c) : ∀ a, c.active = some a → BlobOff cfg a :=
  fun _ ha => h _ (mem_blobs_active ha)

theorem CInvO.closedInv {c : CState} (h : CInvO cfg c) : ∀ b ∈ closedBlobs c.cont, BlobInv cfg (b.reload cfg) :=
  fun b hb => h.blobInv (by unfold CState.blobs; exact List.mem_append_left _ hb)

/-- the active blob keeps its index in memory, so its filter is resident -/
theorem CInvO.active_reload {c : CState} (h : CInvO cfg c) {a : CBlob} (ha : c.active = some a) :
    a.reload cfg = a ∧ a.index.onDisk = false := by
  have h1 := (h.inv.active (a.reload cfg) (by rw [reload_active, ha]; rfl)).2
  have h2 : a.index.onDisk = false := h1
  exact ⟨(h.off a (mem_blobs_active ha)).of_mem h2, h2⟩

theorem ensureActive_reload (cfg : Cfg) (c : CState) :
    (c.ensureActive cfg).reload cfg = (c.reload cfg).ensureActive cfg := by
  unfold CState.ensureActive
  rw [reload_active]
  cases c.active <;> rfl

theorem ensureActive_allOff {c : CState} (h : AllOff cfg c) : AllOff cfg (c.ensureActive cfg) := by
  unfold CState.ensureActive
  cases ha : c.active with
  | some a => exact h
  | none =>
    apply allOff_of
    · intro a ha'
      simp only [CState.createActive, Option.some.injEq] at ha'
      subst ha'
      exact openNew_blobOff cfg _
    · exact h.closed

theorem CInvO.ensureActive {c : CState} (h : CInvO cfg c) : CInvO cfg (c.ensureActive cfg) :=
  ⟨by rw [ensureActive_reload]; exact ensureActive_inv h.inv, ensureActive_allOff h.off⟩

theorem writeWithOpt_reload {c : CState} (h : CInvO cfg c) (k : Key) (ts : Nat) (m : Option Meta) (d : Data) :
    (c.writeWithOpt cfg k ts m d).reload cfg = (c.reload cfg).writeWithOpt cfg k ts m d ∧
      AllOff cfg (c.writeWithOpt cfg k ts m d) := by
  have h1 := h.ensureActive
  unfold CState.writeWithOpt
  simp only []
  rw [← ensureActive_reload, containsWith_reload h1]
  generalize (if cfg.allowDup = true then (Except.ok false : Except CErr Bool)
    else match (c.ensureActive cfg).containsWith cfg k m with
      | .error e => .error e
      | .ok r => .ok r.isFound) = dup
  cases dup with
  | error e => exact ⟨rfl, h1.off⟩
  | ok bdup =>
    cases bdup with
    | true => exact ⟨rfl, h1.off⟩
    | false =>
      simp only []
      rw [reload_active]
      cases ha : (c.ensureActive cfg).active with
      | none => exact ⟨rfl, h1.off⟩
      | some a =>
        simp only [Option.map_some]
        constructor
        · apply CState.ext'
          · show some ((a.writeRec cfg _).reload cfg) = some ((a.reload cfg).writeRec cfg _)
            rw [writeRec_reload]
          · rfl
          · rfl
        · apply allOff_of
          · intro a' ha'
            simp only [Option.some.injEq] at ha'
            subst ha'
            exact writeRec_blobOff (AllOff.act h1.off a ha) _
          · exact AllOff.closed (c := c.ensureActive cfg) h1.off

theorem deleteBase_reload (cfg : Cfg) (c : CState) (oip : Bool) :
    (if oip = true then c else c.ensureActive cfg).reload cfg
      = (if oip = true then c.reload cfg else (c.reload cfg).ensureActive cfg) := by
  cases oip
  · exact ensureActive_reload cfg c
  · rfl

theorem deleteWithOpt_reload (hcfg : cfg.OK) {c : CState} (h : CInvO cfg c) (k : Key) (ts : Nat) (m : Option Meta)
    (oip : Bool) :
    (c.deleteWithOpt cfg k ts m oip).1.reload cfg = ((c.reload cfg).deleteWithOpt cfg k ts m oip).1 ∧
      (c.deleteWithOpt cfg k ts m oip).2 = ((c.reload cfg).deleteWithOpt cfg k ts m oip).2 ∧
      AllOff cfg (c.deleteWithOpt cfg k ts m oip).1 := by
  obtain ⟨c0, hc0, h0⟩ : ∃ c0, c0 = (if oip then c else c.ensureActive cfg) ∧ CInvO cfg c0 := by
    refine ⟨_, rfl, ?_⟩
    cases oip
    · exact h.ensureActive
    · exact h
  unfold CState.deleteWithOpt
  simp only []
  rw [← deleteBase_reload, ← hc0]
  have hclosed : ∀ b ∈ closedBlobs c0.cont, BlobOff cfg b ∧ BlobInv cfg (b.reload cfg) :=
    fun b hb => ⟨AllOff.closed h0.off b hb, h0.closedInv b hb⟩
  have hactive : ∀ a, c0.active = some a → BlobOff cfg a ∧ BlobInv cfg (a.reload cfg) :=
    fun a ha => ⟨AllOff.act h0.off a ha, h0.blobInv (mem_blobs_active ha)⟩
  refine ⟨?_, ?_, ?_⟩
  · apply CState.ext'
    · show (c0.active.map (fun a => (a.deleteM cfg k ts m oip).1)).map (CBlob.reload cfg) = _
      rw [reload_active]
      cases ha : c0.active with
      | none => rfl
      | some a =>
        simp only [Option.map_some]
        rw [(deleteM_reload hcfg (hactive a ha).1 (hactive a ha).2 k ts m oip).1]
    · show mapData (CBlob.reload cfg) (mapChildren c0.cont (fun b => (b.deleteM cfg k ts m true).1))
        = mapChildren (mapData (CBlob.reload cfg) c0.cont) (fun b => (b.deleteM cfg k ts m true).1)
      symm
      apply mapChildren_mapData'
      intro b hb
      exact ((deleteM_reload hcfg (hclosed b hb).1 (hclosed b hb).2 k ts m true).1).symm
    · rfl
  · rw [reload_active, reload_cont, closedBlobs_mapData']
    congr 1
    · cases ha : c0.active with
      | none => rfl
      | some a =>
        simp only [Option.map_some]
        rw [(deleteM_reload hcfg (hactive a ha).1 (hactive a ha).2 k ts m oip).2.1]
    · rw [List.filter_map, List.length_map]
      congr 1
      apply List.filter_congr
      intro b hb
      simp only [Function.comp_apply]
      rw [(deleteM_reload hcfg (hclosed b hb).1 (hclosed b hb).2 k ts m true).2.1]
  · apply allOff_of
    · intro a' ha'
      simp only [] at ha'
      cases ha : c0.active with
      | none => rw [ha] at ha'; cases ha'
      | some a =>
        rw [ha] at ha'
        simp only [Option.map_some, Option.some.injEq] at ha'
        subst ha'
        exact (deleteM_reload hcfg (hactive a ha).1 (hactive a ha).2 k ts m oip).2.2
    · intro b hb
      simp only [] at hb
      rw [mapChildren_eq_mapData, closedBlobs_mapData'] at hb
      obtain ⟨b0, hb0, rfl⟩ := List.mem_map.mp hb
      exact (deleteM_reload hcfg (hclosed b0 hb0).1 (hclosed b0 hb0).2 k ts m true).2.2

/-! #### membership in the children after in-place updates and `pop` -/

theorem mem_modify {α : Type} {l : List α} {i : Nat} {g : α → α} {x : α} (h : x ∈ l.modify i g) :
    x ∈ l ∨ ∃ y ∈ l, x = g y := by
  obtain ⟨j, hj⟩ := List.mem_iff_getElem?.mp h
  rw [List.getElem?_modify] at hj
  cases hl : l[j]? with
  | none => rw [hl] at hj; cases hj
  | some y =>
    rw [hl] at hj
    simp only [Option.map_eq_map, Option.map_some, Option.some.injEq] at hj
    by_cases hij : i = j
    · rw [if_pos hij] at hj
      exact Or.inr ⟨y, List.mem_of_getElem? hl, hj.symm⟩
    · rw [if_neg hij] at hj
      subst hj
      exact Or.inl (List.mem_of_getElem? hl)

theorem mem_closedBlobs_modifyChild {c : Container Combined CBlob} {i : Nat} {f : CBlob → CBlob} {b : CBlob}
    (h : b ∈ closedBlobs (modifyChild c i f)) : b ∈ closedBlobs c ∨ ∃ b0 ∈ closedBlobs c, b = f b0 := by
  rw [mem_closedBlobs, slotsOf_modifyChild] at h
  rcases mem_modify h with h | ⟨y, hy, he⟩
  · exact Or.inl (mem_closedBlobs.mpr h)
  · cases y with
    | none => cases he
    | some b0 =>
      simp only [Option.map_some, Option.some.injEq] at he
      exact Or.inr ⟨b0, mem_closedBlobs.mpr hy, he⟩

theorem mem_closedBlobs_set_none {c : Container Combined CBlob} {i : Nat} {b : CBlob}
    (h : b ∈ closedBlobs ({ c with children := c.children.set i none } : Container Combined CBlob)) :
    b ∈ closedBlobs c := by
  unfold closedBlobs at h ⊢
  obtain ⟨o, ho, hb⟩ := List.mem_filterMap.mp h
  simp only [] at ho
  rcases List.mem_or_eq_of_mem_set ho with ho | ho
  · exact List.mem_filterMap.mpr ⟨o, ho, hb⟩
  · subst ho; cases hb

theorem pop_closedBlobs (c : Container Combined CBlob) :
    (∀ b ∈ closedBlobs c.pop.1, b ∈ closedBlobs c) ∧ (∀ b, c.pop.2 = some b → b ∈ closedBlobs c) := by
  unfold Container.pop
  cases c.lastId with
  | none => exact ⟨fun b hb => hb, fun b hb => by cases hb⟩
  | some i =>
    simp only []
    unfold Container.remove
    cases hg : c.getChild i with
    | none => exact ⟨fun b hb => hb, fun b hb => by cases hb⟩
    | some lf =>
      simp only []
      refine ⟨fun b hb => mem_closedBlobs_set_none hb, fun b hb => ?_⟩
      simp only [Option.some.injEq] at hb
      subst hb
      exact mem_closedBlobs_of_getChild hg

/-! #### `restart` does not look at the filters -/

theorem insertById_map_reload (cfg : Cfg) (b : CBlob) : ∀ (l : List CBlob),
    insertById (b.reload cfg) (l.map (CBlob.reload cfg)) = (insertById b l).map (CBlob.reload cfg)
  | [] => rfl
  | c :: cs => by
    simp only [List.map_cons, insertById]
    by_cases h : b.id < c.id
    · have h' : (b.reload cfg).id < (c.reload cfg).id := h
      rw [if_pos h, if_pos h']; rfl
    · have h' : ¬ (b.reload cfg).id < (c.reload cfg).id := h
      rw [if_neg h, if_neg h']
      simp only [List.map_cons, insertById_map_reload cfg b cs]

theorem sortById_map_reload (cfg : Cfg) : ∀ (l : List CBlob),
    sortById (l.map (CBlob.reload cfg)) = (sortById l).map (CBlob.reload cfg)
  | [] => rfl
  | b :: l => by
    have ih := sortById_map_reload cfg l
    simp only [sortById, List.map_cons, List.foldr_cons] at ih ⊢
    rw [ih, insertById_map_reload]

theorem regen_reload (cfg : Cfg) (b : CBlob) : regen cfg (b.reload cfg) = regen cfg b := rfl

theorem regenAll_map_reload (cfg : Cfg) : ∀ (l : List CBlob),
    regenAll cfg (l.map (CBlob.reload cfg)) = regenAll cfg l
  | [] => rfl
  | b :: l => by simp only [List.map_cons, regenAll, regen_reload, regenAll_map_reload cfg l]

theorem restart_reload_eq (cfg : Cfg) (c : CState) (lazy : Bool) :
    (c.reload cfg).restart cfg lazy = if (regenAll cfg (sortById c.blobs)).isSome then c.restart cfg lazy
      else c.reload cfg := by
  unfold CState.restart
  rw [reload_blobs, sortById_map_reload, regenAll_map_reload]
  cases regenAll cfg (sortById c.blobs) <;> rfl

/-! #### every operation of `MOp` -/

theorem allOff_of_inv {c : CState} (h : CInv cfg c) : AllOff cfg c :=
  fun _ hb => Or.inl (CInvG.blobInv h hb).filter

theorem stepM_reload (hcfg : cfg.OK) {c : CState} (h : CInvO cfg c) (op : MOp) :
    (c.stepM cfg op).reload cfg = (c.reload cfg).stepM cfg op ∧ AllOff cfg (c.stepM cfg op) := by
  have hoff : AllOff cfg c := h.off
  cases op with
  | write k ts m d => exact writeWithOpt_reload h k ts m d
  | delete k ts m oip => exact ⟨(deleteWithOpt_reload hcfg h k ts m oip).1, (deleteWithOpt_reload hcfg h k ts m oip).2.2⟩
  | closeActive =>
    simp only [CState.stepM, CState.step, CState.closeActive, reload_active]
    cases ha : c.active with
    | none => exact ⟨rfl, hoff⟩
    | some a =>
      obtain ⟨hra, _⟩ := h.active_reload ha
      simp only [Option.map_some, hra, reload_cont]
      rw [push_reload cfg c.cont a hra]
      refine ⟨rfl, allOff_of (fun a' ha' => by cases ha') ?_⟩
      intro b hb
      rcases closedBlobs_push cfg c.cont a b hb with hb | rfl
      · exact hoff.closed b hb
      · exact hoff.act _ ha
  | createActive =>
    simp only [CState.stepM, CState.step, CState.tryCreateActive, reload_active]
    cases ha : c.active with
    | some a => exact ⟨rfl, hoff⟩
    | none =>
      refine ⟨rfl, allOff_of ?_ hoff.closed⟩
      intro a ha'
      simp only [CState.createActive, Option.some.injEq] at ha'
      subst ha'
      exact openNew_blobOff cfg _
  | restoreActive =>
    simp only [CState.stepM, CState.step, CState.restoreActive, reload_active]
    cases ha : c.active with
    | some a => exact ⟨rfl, hoff⟩
    | none =>
      simp only [Option.map_none, reload_cont, lastId_mapData]
      cases c.cont.lastId with
      | none => exact ⟨rfl, hoff⟩
      | some i =>
        simp only []
        have hload : ∀ b ∈ closedBlobs c.cont,
            (CBlob.loadIndex cfg) (b.reload cfg) = (b.loadIndex cfg).reload cfg :=
          fun b hb => (loadIndex_reload' hcfg (hoff.closed b hb) (h.closedInv b hb)).symm
        rw [modifyChild_mapData' c.cont i (CBlob.loadIndex cfg) (CBlob.loadIndex cfg) (CBlob.reload cfg) hload,
          pop_mapData]
        have hmod : ∀ b ∈ closedBlobs (modifyChild c.cont i (CBlob.loadIndex cfg)), BlobOff cfg b := by
          intro b hb
          rcases mem_closedBlobs_modifyChild hb with hb | ⟨b0, hb0, rfl⟩
          · exact hoff.closed b hb
          · exact loadIndex_blobOff hcfg (hoff.closed b0 hb0) (h.closedInv b0 hb0)
        obtain ⟨hp1, hp2⟩ := pop_closedBlobs (modifyChild c.cont i (CBlob.loadIndex cfg))
        cases hp : (modifyChild c.cont i (CBlob.loadIndex cfg)).pop with
        | mk cont' ob =>
          rw [hp] at hp1 hp2
          cases ob with
          | none => exact ⟨rfl, hoff⟩
          | some b =>
            refine ⟨rfl, allOff_of ?_ (fun x hx => hmod x (hp1 x hx))⟩
            intro a' ha'
            simp only [Option.some.injEq] at ha'
            subst ha'
            exact hmod _ (hp2 _ rfl)
  | replaceActive =>
    simp only [CState.stepM, CState.step, CState.replaceActive, reload_active]
    cases ha : c.active with
    | none =>
      refine ⟨rfl, allOff_of ?_ hoff.closed⟩
      intro a ha'
      simp only [CState.createActive, Option.some.injEq] at ha'
      subst ha'
      exact openNew_blobOff cfg _
    | some a =>
      obtain ⟨hra, _⟩ := h.active_reload ha
      simp only [Option.map_some, hra]
      have h1 : ((c.reload cfg).createActive cfg).cont = mapData (CBlob.reload cfg) (c.createActive cfg).cont := rfl
      rw [h1, push_reload cfg (c.createActive cfg).cont a hra]
      refine ⟨rfl, allOff_of ?_ ?_⟩
      · intro a' ha'
        simp only [CState.createActive, Option.some.injEq] at ha'
        subst ha'
        exact openNew_blobOff cfg _
      · intro b hb
        rcases closedBlobs_push cfg (c.createActive cfg).cont a b hb with hb | rfl
        · exact hoff.closed b hb
        · exact hoff.act _ ha
  | settle =>
    simp only [CState.stepM, CState.step, CState.settle]
    constructor
    · apply CState.ext'
      · rfl
      · show mapData (CBlob.reload cfg) (mapChildren c.cont (CBlob.dump cfg))
          = mapChildren (mapData (CBlob.reload cfg) c.cont) (CBlob.dump cfg)
        symm
        apply mapChildren_mapData'
        intro b hb
        exact (dump_reload (hoff.closed b hb)).1.symm
      · rfl
    · refine allOff_of (fun a ha => hoff.act a ha) ?_
      intro b hb
      simp only [] at hb
      rw [mapChildren_eq_mapData, closedBlobs_mapData'] at hb
      obtain ⟨b0, hb0, rfl⟩ := List.mem_map.mp hb
      exact (dump_reload (hoff.closed b0 hb0)).2
  | restart lazy =>
    have hstep : ∀ x : CState, x.stepM cfg (.restart lazy) = x.restart cfg lazy := fun _ => rfl
    rw [hstep, hstep]
    have hL : ∀ b ∈ sortById (c.reload cfg).blobs, BlobInv cfg b :=
      fun b hb => CInvG.blobInv h.inv (mem_sortById.mp hb)
    have hsome : (regenAll cfg (sortById c.blobs)).isSome = true := by
      have := regenAll_eq _ hL
      rw [reload_blobs, sortById_map_reload, regenAll_map_reload] at this
      rw [this]; rfl
    have heq := restart_reload_eq cfg c lazy
    rw [hsome, if_pos rfl] at heq
    have hinv' : CInv cfg ((c.reload cfg).restart cfg lazy) := (restart_ref hcfg h.inv lazy).2
    rw [← heq]
    exact ⟨reload_of_inv hinv', allOff_of_inv hinv'⟩

/-! #### the off-loading operations -/

theorem offloadRound_children {F C : Type} (ops : FilterOps F) (needed : Nat) :
    ∀ (ps : List Nat) (c : Container F C) (freed : Nat) (np : List Nat),
      (offloadRound ops needed ps c freed np).1.children = c.children
  | [], _, _, _ => rfl
  | p :: ps, c, freed, np => by
    simp only [offloadRound]
    split
    · rfl
    · cases c.getNode p with
      | none => exact offloadRound_children ops needed ps c freed np
      | some n =>
        simp only []
        rw [offloadRound_children ops needed ps]
        rfl

theorem offloadNodes_children {F C : Type} (ops : FilterOps F) (needed : Nat) :
    ∀ (fuel : Nat) (c : Container F C) (freed : Nat) (ps : List Nat),
      (offloadNodes ops needed fuel c freed ps).1.children = c.children
  | 0, _, _, _ => rfl
  | _ + 1, _, _, [] => rfl
  | fuel + 1, c, freed, p :: ps => by
    simp only [offloadNodes]
    have h1 := offloadRound_children ops needed (p :: ps) c freed []
    split
    · exact h1
    · rw [offloadNodes_children ops needed fuel]
      exact h1

theorem offload_children {F C : Type} (ops : FilterOps F) (cops : ChildOps F C) (c : Container F C)
    (needed level : Nat) :
    (Container.offload ops cops c needed level).1.children
      = (offloadChildren cops needed level c.level c.children 0 []).1 := by
  unfold Container.offload
  simp only []
  split
  · rfl
  · split
    · rfl
    · rw [offloadNodes_children]

/-- the leaf with its blob reloaded -/
def rlLeaf (cfg : Cfg) (lf : FLeaf CBlob) : FLeaf CBlob := { parent := lf.parent, data := lf.data.reload cfg }

/-- the first loop of `offload_buffer` over blobs: after `reload` nothing has changed, and every blob is an old one,
    possibly with its filter off-loaded -/
theorem offloadChildren_spec (cfg : Cfg) (needed level selfLevel : Nat) :
    ∀ (chs : List (Option (FLeaf CBlob))) (freed : Nat) (ps : List Nat),
      ((offloadChildren (childOps cfg) needed level selfLevel chs freed ps).1).map (Option.map (rlLeaf cfg))
        = chs.map (Option.map (rlLeaf cfg)) ∧
      ∀ lf, some lf ∈ (offloadChildren (childOps cfg) needed level selfLevel chs freed ps).1 →
        ∃ lf0, some lf0 ∈ chs ∧ (lf.data = lf0.data ∨ lf.data = lf0.data.offloadFilter.1)
  | [], _, _ => ⟨rfl, fun lf h => by simp [offloadChildren] at h⟩
  | none :: rest, freed, ps => by
    obtain ⟨ih1, ih2⟩ := offloadChildren_spec cfg needed level selfLevel rest freed ps
    simp only [offloadChildren]
    refine ⟨by simp only [List.map_cons, ih1], ?_⟩
    intro lf h
    simp only [List.mem_cons, reduceCtorEq, false_or] at h
    obtain ⟨lf0, h0, hd⟩ := ih2 lf h
    exact ⟨lf0, by simp [h0], hd⟩
  | some lf1 :: rest, freed, ps => by
    simp only [offloadChildren]
    split
    · exact ⟨rfl, fun lf h => ⟨lf, h, Or.inl rfl⟩⟩
    · obtain ⟨ih1, ih2⟩ := offloadChildren_spec cfg needed level selfLevel rest
        (freed + ((childOps cfg).offload lf1.data (needed - freed) level).2)
        (if level ≥ selfLevel then setInsert lf1.parent ps else ps)
      refine ⟨?_, ?_⟩
      · simp only [List.map_cons, ih1, Option.map_some]
        congr 2
        show rlLeaf cfg { lf1 with data := lf1.data.offloadFilter.1 } = rlLeaf cfg lf1
        unfold rlLeaf
        simp only [offloadFilter_reload]
      · intro lf h
        simp only [List.mem_cons, Option.some.injEq] at h
        rcases h with h | h
        · subst h
          exact ⟨lf1, by simp, Or.inr rfl⟩
        · obtain ⟨lf0, h0, hd⟩ := ih2 lf h
          exact ⟨lf0, by simp [h0], hd⟩

theorem mapData_modifyChild_absorb (c : Container Combined CBlob) (i : Nat) (f g : CBlob → CBlob)
    (h : ∀ b, g (f b) = g b) : mapData g (modifyChild c i f) = mapData g c := by
  simp only [mapData, modifyChild]
  congr 1
  apply List.ext_getElem?
  intro j
  simp only [List.getElem?_map, List.getElem?_modify]
  cases c.children[j]? with
  | none => rfl
  | some o =>
    cases o with
    | none => by_cases hij : i = j <;> simp [hij]
    | some lf => by_cases hij : i = j <;> simp [hij, h]

/-- `Blob::offload_buffer` of one closed blob: invisible after `reload` -/
theorem offloadBlob_reload {c : CState} (h : AllOff cfg c) (j : Nat) :
    (c.offloadBlob j).reload cfg = c.reload cfg ∧ AllOff cfg (c.offloadBlob j) := by
  constructor
  · apply CState.ext'
    · rfl
    · exact mapData_modifyChild_absorb c.cont j _ _ (offloadFilter_reload cfg)
    · rfl
  · refine allOff_of (fun a ha => h.act a ha) ?_
    intro b hb
    rcases mem_closedBlobs_modifyChild hb with hb | ⟨b0, hb0, rfl⟩
    · exact h.closed b hb
    · exact offloadFilter_blobOff (h.closed b0 hb0)

theorem offloadBlob_invO {c : CState} (h : CInvO cfg c) (j : Nat) : CInvO cfg (c.offloadBlob j) := by
  obtain ⟨h1, h2⟩ := offloadBlob_reload (cfg := cfg) h.off j
  exact ⟨by rw [h1]; exact h.inv, h2⟩

/-- `Storage::offload_buffer(needed, level)` keeps the invariant; after `reload` only node filters differ -/
theorem offloadBuffer_invO {c : CState} (h : CInvO cfg c) (needed level : Nat) :
    CInvO cfg (c.offloadBuffer cfg needed level).1 ∧ (c.offloadBuffer cfg needed level).1.abs cfg = c.abs cfg := by
  obtain ⟨hsp1, hsp2⟩ := offloadChildren_spec cfg needed level c.cont.level c.cont.children 0 []
  have hXc := offload_children (fops cfg) (childOps cfg) c.cont needed level
  rw [← hXc] at hsp1 hsp2
  generalize hX : (Container.offload (fops cfg) (childOps cfg) c.cont needed level).1 = X at hsp1 hsp2
  have hc' : (c.offloadBuffer cfg needed level).1 = { c with cont := X } := by
    unfold CState.offloadBuffer; simp only [hX]
  rw [hc']
  have hchildren : (mapData (CBlob.reload cfg) X).children = (mapData (CBlob.reload cfg) c.cont).children := hsp1
  have hslots : slotsOf (mapData (CBlob.reload cfg) X) = slotsOf (mapData (CBlob.reload cfg) c.cont) := by
    unfold slotsOf; rw [hchildren]
  have habs : (({ c with cont := X } : CState).reload cfg).abs cfg = (c.reload cfg).abs cfg := by
    unfold CState.abs CState.reload
    simp only [hchildren]
  have hoff : AllOff cfg { c with cont := X } := by
    refine allOff_of (fun a ha => AllOff.act h.off a ha) ?_
    intro b hb
    simp only [] at hb
    unfold closedBlobs at hb
    obtain ⟨o, ho, hb⟩ := List.mem_filterMap.mp hb
    cases o with
    | none => cases hb
    | some lf =>
      simp only [Option.map_some, Option.some.injEq] at hb
      subst hb
      obtain ⟨lf0, h0, hd⟩ := hsp2 lf ho
      have hb0 := AllOff.closed h.off lf0.data (mem_closedBlobs_of_child h0)
      rcases hd with hd | hd
      · rw [hd]; exact hb0
      · rw [hd]; exact offloadFilter_blobOff hb0
  refine ⟨⟨?_, hoff⟩, ?_⟩
  · obtain ⟨g, hci, hcov⟩ := h.inv.cont
    have hci1 : Container.Inv (fops cfg) Combined.WF c.cont g :=
      setChildren_inv hci c.cont.children (by simp [CState.reload, mapData])
    have hci2 : Container.Inv (fops cfg) Combined.WF X g := by
      rw [← hX]
      exact C10.node_filter_sup_offload (C10.combined_laws cfg.h) (childOps cfg) c.cont g needed level hci1
    have hci3 : Container.Inv (fops cfg) Combined.WF (mapData (CBlob.reload cfg) X) g :=
      setChildren_inv hci2 (mapData (CBlob.reload cfg) X).children (by simp [mapData])
    refine ⟨?_, ?_, ?_, g, hci3, ?_⟩
    · rw [habs]; exact h.inv.wf
    · exact h.inv.active
    · intro b hb
      have hb' : some b ∈ slotsOf (mapData (CBlob.reload cfg) X) := hb
      rw [hslots] at hb'
      exact h.inv.closed b hb'
    · intro j b hj
      have hj' : (slotsOf (mapData (CBlob.reload cfg) X))[j]? = some (some b) := hj
      rw [hslots] at hj'
      exact hcov j b hj'
  · rw [← reload_abs, habs, reload_abs]

/-! ### refinement: the L2 state does not see the off-loading -/

/-- side-conditions on the inputs -/
def OOp.OK (cfg : Cfg) : OOp → Prop
  | .op o => o.OK cfg
  | _ => True

instance (cfg : Cfg) (op : OOp) : Decidable (op.OK cfg) := by
  cases op <;> unfold OOp.OK <;> infer_instance

/-- the L2 step of an operation: off-loading is the identity -/
def OOp.applyAbs (s : Store) : OOp → Store
  | .op o => s.apply o.abs
  | _ => s

theorem OOp.erase_cons_op (o : MOp) (l : List OOp) : OOp.erase (.op o :: l) = o :: OOp.erase l := rfl

theorem run_erase (s : Store) : ∀ (ops : List OOp),
    s.run ((OOp.erase ops).map MOp.abs) = ops.foldl OOp.applyAbs s
  | [] => rfl
  | .op o :: l => by
    simp only [OOp.erase, List.map_cons, Store.run_cons, List.foldl_cons, OOp.applyAbs]
    exact run_erase _ l
  | .offloadBlob j :: l => by
    simp only [OOp.erase, List.foldl_cons, OOp.applyAbs]
    exact run_erase _ l
  | .offloadBuffer n lv :: l => by
    simp only [OOp.erase, List.foldl_cons, OOp.applyAbs]
    exact run_erase _ l

theorem stepO_ref (hcfg : cfg.OK) {c : CState} (h : CInvO cfg c) (hmeta : StoreMetaOK (c.abs cfg)) (op : OOp)
    (hop : op.OK cfg) (hsz : StoreSized cfg.klen (op.applyAbs (c.abs cfg))) :
    (c.stepO cfg op).abs cfg = op.applyAbs (c.abs cfg) ∧ CInvO cfg (c.stepO cfg op) ∧
      StoreMetaOK ((c.stepO cfg op).abs cfg) := by
  cases op with
  | op o =>
    obtain ⟨hr, hoff⟩ := stepM_reload hcfg h o
    have hmeta' : StoreMetaOK ((c.reload cfg).abs cfg) := by rw [reload_abs]; exact hmeta
    obtain ⟨ha, hi⟩ := stepM_ref hcfg h.inv hmeta' o hop (by rw [reload_abs]; exact hsz)
    rw [reload_abs] at ha
    have habs : (c.stepO cfg (.op o)).abs cfg = (c.abs cfg).apply o.abs := by
      show (c.stepM cfg o).abs cfg = _
      rw [← reload_abs, hr, ha]
    refine ⟨habs, ⟨by show CInv cfg ((c.stepM cfg o).reload cfg); rw [hr]; exact hi, hoff⟩, ?_⟩
    rw [habs]
    exact stepM_metaOK (cfg := cfg) (by have := h.inv.wf; rwa [reload_abs] at this) hmeta o hop
  | offloadBlob j =>
    have h' := offloadBlob_invO h j
    have habs : (c.offloadBlob j).abs cfg = c.abs cfg := by
      rw [← reload_abs, (offloadBlob_reload (cfg := cfg) h.off j).1, reload_abs]
    exact ⟨habs, h', by show StoreMetaOK ((c.offloadBlob j).abs cfg); rw [habs]; exact hmeta⟩
  | offloadBuffer n lv =>
    obtain ⟨h', habs⟩ := offloadBuffer_invO h n lv
    exact ⟨habs, h', by show StoreMetaOK ((c.offloadBuffer cfg n lv).1.abs cfg); rw [habs]; exact hmeta⟩

theorem crunO_cons (cfg : Cfg) (c : CState) (op : OOp) (ops : List OOp) :
    c.runO cfg (op :: ops) = (c.stepO cfg op).runO cfg ops := rfl

theorem runO_ref_from (hcfg : cfg.OK) : ∀ (ops : List OOp) (c : CState), CInvO cfg c →
    StoreMetaOK (c.abs cfg) → (∀ op ∈ ops, op.OK cfg) →
    (∀ n, n ≤ ops.length → StoreSized cfg.klen ((ops.take n).foldl OOp.applyAbs (c.abs cfg))) →
    (c.runO cfg ops).abs cfg = ops.foldl OOp.applyAbs (c.abs cfg) ∧ CInvO cfg (c.runO cfg ops) ∧
      StoreMetaOK ((c.runO cfg ops).abs cfg)
  | [], c, hinv, hmeta, _, _ => ⟨rfl, hinv, hmeta⟩
  | op :: ops, c, hinv, hmeta, hops, hsz => by
    have h1 := hsz 1 (by simp)
    simp only [List.take_succ_cons, List.take_zero, List.foldl_cons, List.foldl_nil] at h1
    obtain ⟨ha, hi, hm⟩ := stepO_ref hcfg hinv hmeta op (hops op (by simp)) h1
    have := runO_ref_from hcfg ops (c.stepO cfg op) hi hm (fun o ho => hops o (by simp [ho]))
      (by
        intro n hn
        have := hsz (n + 1) (by simp; omega)
        simp only [List.take_succ_cons, List.foldl_cons] at this
        rw [ha]; exact this)
    rw [crunO_cons, List.foldl_cons, ← ha]
    exact this

theorem erase_take (ops : List OOp) (n : Nat) : ∃ m, OOp.erase (ops.take n) = (OOp.erase ops).take m := by
  induction ops generalizing n with
  | nil => exact ⟨0, by simp [OOp.erase]⟩
  | cons op ops ih =>
    cases n with
    | zero => exact ⟨0, by simp [OOp.erase]⟩
    | succ n =>
      obtain ⟨m, hm⟩ := ih n
      cases op with
      | op o => exact ⟨m + 1, by simp [OOp.erase, hm]⟩
      | offloadBlob j => exact ⟨m, by simp [OOp.erase, hm]⟩
      | offloadBuffer a b => exact ⟨m, by simp [OOp.erase, hm]⟩

theorem erase_ok {ops : List OOp} (h : ∀ op ∈ ops, op.OK cfg) : ∀ o ∈ OOp.erase ops, o.OK cfg := by
  induction ops with
  | nil => intro o ho; simp [OOp.erase] at ho
  | cons op ops ih =>
    intro o ho
    cases op with
    | op o' =>
      simp only [OOp.erase, List.mem_cons] at ho
      rcases ho with rfl | ho
      · exact h (.op o) (by simp)
      · exact ih (fun x hx => h x (by simp [hx])) o ho
    | offloadBlob j => exact ih (fun x hx => h x (by simp [hx])) o ho
    | offloadBuffer a b => exact ih (fun x hx => h x (by simp [hx])) o ho

/-- **refinement along every history with off-loading interleaved**: the L2 state is the L2 state of the history
    without the off-loading calls, and `CInvO` holds -/
theorem runO_ref (hcfg : cfg.OK) (ops : List OOp) (hops : ∀ op ∈ ops, op.OK cfg)
    (hsz : StoreSized cfg.klen ((Store.init cfg.allowDup).run ((OOp.erase ops).map MOp.abs))) :
    ((CState.init cfg).runO cfg ops).abs cfg = (Store.init cfg.allowDup).run ((OOp.erase ops).map MOp.abs) ∧
      CInvO cfg ((CState.init cfg).runO cfg ops) ∧ StoreMetaOK (((CState.init cfg).runO cfg ops).abs cfg) := by
  have := runO_ref_from hcfg ops (CState.init cfg) (init_inv hcfg).toCInvO
    (by rw [init_abs]; exact init_metaOK _) hops (by
      intro n _
      rw [init_abs, ← run_erase]
      obtain ⟨m, hm⟩ := erase_take ops n
      rw [hm, List.map_take]
      exact storeSized_prefix cfg.klen (init_WF _) _ hsz m)
  rw [init_abs, ← run_erase] at this
  exact this

end
end Pearl.E2E
