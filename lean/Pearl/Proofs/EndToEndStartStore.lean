import Pearl.Proofs.EndToEndStart
import Pearl.Proofs.EndToEndMetaRun
import Pearl.Proofs.EndToEndMetaReadAll
/-
End-to-end composition, start-up WITH index files, lemmas, part 2: the storage.  `restartWithIndexes` on the
translation of a reachable structured state, for every directory of index files that are current, stale or rejected:
it fails exactly when an index file lies next to a blob without records, and otherwise the storage it returns IS the
storage `BState.restart` (start-up without index files) returns.
-/
namespace Pearl.E2E
open Pearl Pearl.BPTree Pearl.Container

section
variable {cfg : Cfg} {sha : List Nat → List Nat}

/-- the blobs `Blob::from_file` returned, one for each blob of the state, each starting as the regenerated one -/
inductive AllStart (cfg : Cfg) (sha : List Nat → List Nat) : List BBlob → List CBlob → Prop where
  | nil : AllStart cfg sha [] []
  | cons {x : BBlob} {b : CBlob} {xs : List BBlob} {bs : List CBlob} (h : StartsAs cfg sha x b)
      (t : AllStart cfg sha xs bs) : AllStart cfg sha (x :: xs) (b :: bs)

/-- the blobs of `BState.restart` after regeneration -/
def regenerated (cfg : Cfg) (sha : List Nat → List Nat) (l : List CBlob) : List BBlob :=
  l.map (fun b => (reidx cfg b).toB sha)

theorem AllStart.map_dump {xs : List BBlob} {bs : List CBlob} (h : AllStart cfg sha xs bs) :
    xs.map (BBlob.dump cfg sha) = (regenerated cfg sha bs).map (BBlob.dump cfg sha) := by
  induction h with
  | nil => rfl
  | cons h _ ih => simp only [List.map_cons, regenerated] at ih ⊢; rw [h.1, ih]

theorem AllStart.ids {xs : List BBlob} {bs : List CBlob} (h : AllStart cfg sha xs bs) :
    xs.map (·.id) = (regenerated cfg sha bs).map (·.id) := by
  induction h with
  | nil => rfl
  | cons h _ ih =>
    simp only [List.map_cons, regenerated] at ih ⊢
    rw [h.2.2, ih]
    rfl

theorem AllStart.length {xs : List BBlob} {bs : List CBlob} (h : AllStart cfg sha xs bs) : xs.length = bs.length := by
  induction h with
  | nil => rfl
  | cons _ _ ih => simp [ih]

theorem AllStart.dropLast {xs : List BBlob} {bs : List CBlob} (h : AllStart cfg sha xs bs) :
    AllStart cfg sha xs.dropLast bs.dropLast := by
  induction h with
  | nil => exact .nil
  | @cons x b xs bs hx t ih =>
    cases t with
    | nil => exact .nil
    | cons hy t' =>
      simp only [List.dropLast_cons_cons]
      exact .cons hx ih

theorem AllStart.getLast {xs : List BBlob} {bs : List CBlob} (h : AllStart cfg sha xs bs) :
    (xs.getLast? = none ∧ bs.getLast? = none) ∨
      ∃ a b, xs.getLast? = some a ∧ bs.getLast? = some b ∧ StartsAs cfg sha a b := by
  induction h with
  | nil => exact Or.inl ⟨rfl, rfl⟩
  | @cons x b xs bs hx t ih =>
    right
    cases t with
    | nil => exact ⟨x, b, rfl, rfl, hx⟩
    | cons hy t' =>
      rcases ih with ⟨h1, _⟩ | ⟨a, b', h1, h2, h3⟩
      · simp at h1
      · refine ⟨a, b', ?_, ?_, h3⟩
        · rw [List.getLast?_cons_cons]; exact h1
        · rw [List.getLast?_cons_cons]; exact h2

theorem foldl_maxId_eq {α β : Type} (f : α → Nat) (g : β → Nat) : ∀ (l : List α) (l' : List β) (m : Nat),
    l.map f = l'.map g → l.foldl (fun m b => max m (f b + 1)) m = l'.foldl (fun m b => max m (g b + 1)) m
  | [], [], _, _ => rfl
  | [], _ :: _, _, h => by simp at h
  | _ :: _, [], _, h => by simp at h
  | a :: l, a' :: l', m, h => by
    simp only [List.map_cons, List.cons.injEq] at h
    simp only [List.foldl_cons, h.1]
    exact foldl_maxId_eq f g l l' _ h.2

/-- `read_blobs` over the blobs of a reachable state -/
theorem startAllB_spec (dir : Nat → Option (List Nat)) : ∀ (l : List CBlob),
    (∀ b ∈ l, (b.ghost = [] ∧ (dir b.id).isSome = true → fromFileB cfg (b.toB sha) (dir b.id) = none) ∧
      (¬ (b.ghost = [] ∧ (dir b.id).isSome = true) →
        ∃ x, fromFileB cfg (b.toB sha) (dir b.id) = some x ∧ StartsAs cfg sha x b)) →
    ((∃ b ∈ l, b.ghost = [] ∧ (dir b.id).isSome = true) → startAllB cfg dir (l.map (CBlob.toB sha)) = none) ∧
    ((¬ ∃ b ∈ l, b.ghost = [] ∧ (dir b.id).isSome = true) →
      ∃ xs, startAllB cfg dir (l.map (CBlob.toB sha)) = some xs ∧ AllStart cfg sha xs l)
  | [], _ => by
    refine ⟨?_, fun _ => ⟨[], rfl, .nil⟩⟩
    rintro ⟨b, hb, _⟩
    cases hb
  | b :: l, h => by
    obtain ⟨ih1, ih2⟩ := startAllB_spec dir l (fun x hx => h x (by simp [hx]))
    obtain ⟨hb1, hb2⟩ := h b (by simp)
    have hid : (b.toB sha).id = b.id := rfl
    simp only [List.map_cons, startAllB, hid]
    constructor
    · rintro ⟨x, hx, hbad⟩
      rcases List.mem_cons.mp hx with rfl | hx
      · rw [hb1 hbad]
      · rw [ih1 ⟨x, hx, hbad⟩]
        cases fromFileB cfg (b.toB sha) (dir b.id) <;> rfl
    · intro hno
      obtain ⟨x, hx, hs⟩ := hb2 (fun hbad => hno ⟨b, by simp, hbad⟩)
      obtain ⟨xs, hxs, hall⟩ := ih2 (fun ⟨y, hy, hbad⟩ => hno ⟨y, by simp [hy], hbad⟩)
      exact ⟨x :: xs, by rw [hx, hxs], .cons hs hall⟩

/-- what the directory holds next to the blob files of the state `c`: for every blob no index file, or (i) the
    image dumped for its current records, or (ii) the image dumped for a strict prefix of them, or (iii) bytes the
    validation rejects -/
def DirChoice (cfg : Cfg) (sha : List Nat → List Nat) (c : CState) (dir : Nat → Option (List Nat)) : Prop :=
  ∀ b ∈ c.blobs, IdxChoice cfg sha b.ghost (dir b.id)

/-- an index file lies next to a blob file that holds no record -/
def IndexBesideEmpty (c : CState) (dir : Nat → Option (List Nat)) : Prop :=
  ∃ b ∈ c.blobs, b.ghost = [] ∧ (dir b.id).isSome = true

/-- **start-up with index files against start-up without**: on the translation of a state satisfying the invariant,
    for every directory of current / stale / rejected index files, `restartWithIndexes` fails exactly when an index
    file lies next to a blob without records, and otherwise returns the very storage `BState.restart` returns -/
theorem restartWithIndexes_toB (hB : BytesOK cfg sha) {c : CState} (hinv : CInv cfg c)
    (h3 : ∀ b ∈ c.blobs, Sized3 cfg b.ghost) (dir : Nat → Option (List Nat)) (hdir : DirChoice cfg sha c dir)
    (lazy : Bool) :
    (IndexBesideEmpty c dir → (c.toB sha).restartWithIndexes cfg sha dir lazy = none) ∧
    (¬ IndexBesideEmpty c dir →
      (c.toB sha).restartWithIndexes cfg sha dir lazy = some ((c.toB sha).restart cfg sha lazy)) := by
  have hL : ∀ b ∈ sortById c.blobs, BlobInv cfg b := fun b hb => CInvG.blobInv hinv (mem_sortById.mp hb)
  obtain ⟨hfail, hok⟩ := startAllB_spec (cfg := cfg) (sha := sha) dir (sortById c.blobs) (fun b hb =>
    fromFileB_choice hB (hL b hb) (h3 b (mem_sortById.mp hb)) (hdir b (mem_sortById.mp hb)))
  have hiff : (∃ b ∈ sortById c.blobs, b.ghost = [] ∧ (dir b.id).isSome = true) ↔ IndexBesideEmpty c dir := by
    unfold IndexBesideEmpty
    constructor
    · rintro ⟨b, hb, h⟩; exact ⟨b, mem_sortById.mp hb, h⟩
    · rintro ⟨b, hb, h⟩; exact ⟨b, mem_sortById.mpr hb, h⟩
  constructor
  · intro hbad
    unfold BState.restartWithIndexes
    rw [blobs_toB, sortByIdB_map, hfail (hiff.mpr hbad)]
  · intro hno
    obtain ⟨xs, hxs, hall⟩ := hok (fun h => hno (hiff.mp h))
    have hreg : List.map (CBlob.toB sha) (List.map (reidx cfg) (sortById c.blobs))
        = regenerated cfg sha (sortById c.blobs) := by
      simp [regenerated, List.map_map]
    have hmax : xs.foldl (fun m b => max m (b.id + 1)) 0
        = (regenerated cfg sha (sortById c.blobs)).foldl (fun m b => max m (b.id + 1)) 0 :=
      foldl_maxId_eq BBlob.id BBlob.id _ _ 0 hall.ids
    unfold BState.restartWithIndexes BState.restart
    rw [blobs_toB, sortByIdB_map, hxs, regenAllB_map, regenAll_eq _ hL]
    simp only [Option.map_some, hreg]
    cases lazy with
    | true =>
      simp only [if_true]
      rw [hall.map_dump, hmax]
    | false =>
      simp only [Bool.false_eq_true, if_false]
      rcases hall.getLast with ⟨h1, h2⟩ | ⟨a, b, h1, h2, h3'⟩
      · have : (regenerated cfg sha (sortById c.blobs)).getLast? = none := by
          unfold regenerated; rw [List.getLast?_map, h2]; rfl
        rw [h1, this]
      · have : (regenerated cfg sha (sortById c.blobs)).getLast? = some ((reidx cfg b).toB sha) := by
          unfold regenerated; rw [List.getLast?_map, h2]; rfl
        rw [h1, this]
        simp only [h3'.2.1]
        have hd := hall.dropLast.map_dump
        have : regenerated cfg sha (sortById c.blobs).dropLast = (regenerated cfg sha (sortById c.blobs)).dropLast := by
          unfold regenerated; rw [List.map_dropLast]
        rw [this] at hd
        rw [hd, hmax]

/-! ### the answers after the restart -/

theorem storeIdxSized_of_history {s s' : Store} (hh : s'.history = s.history) (h : StoreIdxSized cfg s) :
    StoreIdxSized cfg s' := by
  intro b' hb'
  have : (b'.id, b'.recs) ∈ s'.history := List.mem_map.mpr ⟨b', hb', rfl⟩
  rw [hh] at this
  obtain ⟨b, hb, he⟩ := List.mem_map.mp this
  simp only [Prod.mk.injEq] at he
  rw [← he.2]
  exact h b hb

theorem sized3_of_store {c : CState} (h : StoreIdxSized cfg (c.abs cfg)) : ∀ b ∈ c.blobs, Sized3 cfg b.ghost := by
  intro b hb
  exact h b.abs (by rw [abs_blobs]; exact List.mem_map.mpr ⟨b, hb, rfl⟩)

/-- the two lists of entries have the same views (key, timestamp, marker flag, what `Entry::load` returns) -/
def SameViews (r r' : Except CErr (List CEntry)) : Prop :=
  ∃ es es', r = .ok es ∧ r' = .ok es' ∧ es'.map entryView = es.map entryView

/-- start-up without index files at byte level, in a state with at least one blob: every answer is the answer
    before the restart -/
theorem restart_answers_bytes (hB : BytesOK cfg sha) {c : CState} (hinv : CInv cfg c)
    (hmeta : StoreMetaOK (c.abs cfg)) (hne : (c.abs cfg).blobs ≠ []) (h3 : StoreIdxSized cfg (c.abs cfg))
    (lazy : Bool) (k : Key) :
    (∀ m, (∀ x, m = some x → MetaOK x) →
      ((c.toB sha).restart cfg sha lazy).readWithOpt cfg k m = (c.toB sha).readWithOpt cfg k m) ∧
    (∀ m, (∀ x, m = some x → MetaOK x) →
      ((c.toB sha).restart cfg sha lazy).containsWith cfg k m = (c.toB sha).containsWith cfg k m) ∧
    SameViews ((c.toB sha).readAllMarked cfg k) (((c.toB sha).restart cfg sha lazy).readAllMarked cfg k) ∧
    SameViews ((c.toB sha).readAll cfg k) (((c.toB sha).restart cfg sha lazy).readAll cfg k) := by
  obtain ⟨habs, hinv'⟩ := restart_ref hB.ok hinv lazy
  have hstep : c.step cfg (.restart lazy) = c.restart cfg lazy := rfl
  have happly : (c.abs cfg).apply (Op.restart lazy) = (c.abs cfg).restart lazy := rfl
  rw [hstep, happly] at habs
  rw [hstep] at hinv'
  have hhist := (Store.restart_of_ne_nil hinv.wf lazy hne).1
  have h3' : StoreIdxSized cfg ((c.restart cfg lazy).abs cfg) := by
    rw [habs]; exact storeIdxSized_of_history hhist h3
  have hmeta' : StoreMetaOK ((c.restart cfg lazy).abs cfg) := by
    rw [habs]
    exact stepM_metaOK (cfg := cfg) hinv.wf hmeta (.restart lazy) trivial
  have hs := idxSized_of_store hB.ok hinv h3
  have hs' := idxSized_of_store hB.ok hinv' h3'
  have hans := restart_answers hinv.wf lazy k
  rw [← restart_toB]
  refine ⟨fun m hm => ?_, fun m hm => ?_, ?_, ?_⟩
  · rw [readWithOpt_toB hB hinv' hs', readWithOpt_toB hB hinv hs, readWithOpt_eq hB.ok hinv' hmeta' k m hm,
      readWithOpt_eq hB.ok hinv hmeta k m hm, habs]
    unfold Store.read
    rw [hans.2.2.2.2.2 m]
  · rw [containsWith_toB hB hinv' hs', containsWith_toB hB hinv hs, containsWith_eq hB.ok hinv' hmeta' k m hm,
      containsWith_eq hB.ok hinv hmeta k m hm, habs, hans.2.2.2.2.2 m]
  · rw [readAllMarked_toB hB hinv' hs', readAllMarked_toB hB hinv hs]
    obtain ⟨Z, h1, h2, hz⟩ := readAllMarked_rr hB.ok hinv k
    obtain ⟨Z', h1', h2', hz'⟩ := readAllMarked_rr hB.ok hinv' k
    refine ⟨_, _, h1, h1', ?_⟩
    rw [views_eq Z hz, views_eq Z' hz', ← h2, ← h2', habs, hans.2.2.2.1]
  · rw [readAll_toB hB hinv' hs', readAll_toB hB hinv hs]
    obtain ⟨Z, h1, h2, hz⟩ := readAll_rr hB.ok hinv k
    obtain ⟨Z', h1', h2', hz'⟩ := readAll_rr hB.ok hinv' k
    refine ⟨_, _, h1, h1', ?_⟩
    rw [views_eq Z hz, views_eq Z' hz', ← h2, ← h2', habs, hans.2.2.2.2.1]

/-! ### both together, on a state and along a run -/

/-- the directory condition, and the failure condition, on the L2 state -/
theorem dirChoice_of_abs {c : CState} {dir : Nat → Option (List Nat)}
    (h : ∀ x ∈ (c.abs cfg).blobs, IdxChoice cfg sha x.recs (dir x.id)) : DirChoice cfg sha c dir := by
  intro b hb
  exact h b.abs (by rw [abs_blobs]; exact List.mem_map.mpr ⟨b, hb, rfl⟩)

theorem indexBesideEmpty_iff (cfg : Cfg) (c : CState) (dir : Nat → Option (List Nat)) :
    IndexBesideEmpty c dir ↔ ∃ x ∈ (c.abs cfg).blobs, x.recs = [] ∧ (dir x.id).isSome = true := by
  unfold IndexBesideEmpty
  rw [abs_blobs]
  constructor
  · rintro ⟨b, hb, h⟩
    exact ⟨b.abs, List.mem_map.mpr ⟨b, hb, rfl⟩, h⟩
  · rintro ⟨x, hx, h⟩
    obtain ⟨b, hb, rfl⟩ := List.mem_map.mp hx
    exact ⟨b, hb, h⟩

/-- every answer of the storage `b'` is the answer of `b` -/
def SameAnswers (cfg : Cfg) (b b' : BState) : Prop :=
  ∀ k : Key,
    (∀ m, (∀ x, m = some x → MetaOK x) → b'.readWithOpt cfg k m = b.readWithOpt cfg k m) ∧
    (∀ m, (∀ x, m = some x → MetaOK x) → b'.containsWith cfg k m = b.containsWith cfg k m) ∧
    SameViews (b.readAllMarked cfg k) (b'.readAllMarked cfg k) ∧
    SameViews (b.readAll cfg k) (b'.readAll cfg k)

theorem restartWithIndexes_of_inv (hB : BytesOK cfg sha) {c : CState} (hinv : CInv cfg c)
    (hmeta : StoreMetaOK (c.abs cfg)) (hne : (c.abs cfg).blobs ≠ []) (h3 : StoreIdxSized cfg (c.abs cfg))
    (dir : Nat → Option (List Nat)) (hdir : DirChoice cfg sha c dir) (lazy : Bool) :
    ((c.toB sha).restartWithIndexes cfg sha dir lazy = none ↔ IndexBesideEmpty c dir) ∧
    ∀ b', (c.toB sha).restartWithIndexes cfg sha dir lazy = some b' →
      b' = (c.toB sha).restart cfg sha lazy ∧ SameAnswers cfg (c.toB sha) b' := by
  obtain ⟨hfail, hok⟩ := restartWithIndexes_toB hB hinv (sized3_of_store h3) dir hdir lazy
  by_cases hbad : IndexBesideEmpty c dir
  · refine ⟨⟨fun _ => hbad, fun _ => hfail hbad⟩, ?_⟩
    intro b' hb'
    rw [hfail hbad] at hb'
    cases hb'
  · have hsome := hok hbad
    refine ⟨⟨fun h => ?_, fun h => absurd h hbad⟩, ?_⟩
    · rw [hsome] at h; cases h
    · intro b' hb'
      rw [hsome] at hb'
      cases hb'
      exact ⟨rfl, fun k => restart_answers_bytes hB hinv hmeta hne h3 lazy k⟩

end
end Pearl.E2E
