import Pearl.Proofs.EndToEndLemmas
/-
End-to-end composition, part 6: every concrete operation refines its L2 operation and keeps `CInv`
(`step_ref`).
-/
namespace Pearl.E2E
open Pearl Pearl.BPTree Pearl.Container

/-! ### in-place access to the children -/

theorem slotsOf_mapChildren (c : Container Combined CBlob) (f : CBlob → CBlob) :
    slotsOf (mapChildren c f) = (slotsOf c).map (Option.map f) := by
  simp only [slotsOf, mapChildren, List.map_map]
  apply List.map_congr_left
  intro o _
  cases o <;> rfl

theorem slotsOf_modifyChild (c : Container Combined CBlob) (i : Nat) (f : CBlob → CBlob) :
    slotsOf (modifyChild c i f) = (slotsOf c).modify i (Option.map f) := by
  simp only [slotsOf, modifyChild]
  apply List.ext_getElem?
  intro j
  simp only [List.getElem?_map, List.getElem?_modify]
  by_cases h : i = j
  · subst h
    cases c.children[i]? with
    | none => rfl
    | some o => cases o <;> simp
  · simp [h]

theorem setChildren_inv {ops : FilterOps Combined} {ok : Combined → Prop} {c : Container Combined CBlob}
    {g : List (Option Combined)} (hinv : Container.Inv ops ok c g) (chs : List (Option (FLeaf CBlob)))
    (h : chs.length = c.children.length) : Container.Inv ops ok { c with children := chs } g :=
  hinv.refine (Container.Refines.setChildren ops ok c chs h)

theorem mapChildren_inv {ops : FilterOps Combined} {ok : Combined → Prop} {c : Container Combined CBlob}
    {g : List (Option Combined)} (hinv : Container.Inv ops ok c g) (f : CBlob → CBlob) :
    Container.Inv ops ok (mapChildren c f) g :=
  setChildren_inv hinv _ (by simp)

/-- updating blobs in place (`iter_mut`): the invariant is kept when every blob keeps its invariant and gains no
    new key -/
theorem CInvG.mapChildren {I I' : CBlob → Prop} {cfg : Cfg} {c : CState} (hinv : CInvG I cfg c) (f : CBlob → CBlob)
    (act' : Option CBlob)
    (hwf' : (({ c with active := act', cont := mapChildren c.cont f } : CState).abs cfg).WF)
    (hact : ∀ a, act' = some a → I' a ∧ a.index.onDisk = false)
    (hf : ∀ b, some b ∈ slotsOf c.cont →
      I' (f b) ∧ ∀ r ∈ (f b).ghost, ∃ r' ∈ b.ghost, r'.key = r.key) :
    CInvG I' cfg { c with active := act', cont := mapChildren c.cont f } := by
  obtain ⟨g, hci, hcov⟩ := hinv.cont
  refine ⟨hwf', hact, ?_, g, mapChildren_inv hci f, ?_⟩
  · intro b hb
    simp only [slotsOf_mapChildren, List.mem_map] at hb
    obtain ⟨o, ho, he⟩ := hb
    cases o with
    | none => cases he
    | some b0 =>
      simp only [Option.map_some, Option.some.injEq] at he
      subst he
      exact (hf b0 ho).1
  · intro j b hj r hr
    simp only [slotsOf_mapChildren, List.getElem?_map] at hj
    cases ho : (slotsOf c.cont)[j]? with
    | none => rw [ho] at hj; cases hj
    | some o =>
      rw [ho] at hj
      cases o with
      | none => simp at hj
      | some b0 =>
        simp only [Option.map_some, Option.some.injEq] at hj
        subst hj
        obtain ⟨r', hr', hk⟩ := (hf b0 (List.mem_of_getElem? ho)).2 r hr
        rw [← hk]
        exact hcov j b0 ho r' hr'

/-- the abstraction of an in-place update is the pointwise update of the L2 slots -/
theorem abs_mapChildren (c : Container Combined CBlob) (f : CBlob → CBlob) (F : Blob → Blob)
    (h : ∀ b, some b ∈ slotsOf c → (f b).abs = F b.abs) :
    (slotsOf (mapChildren c f)).map (Option.map CBlob.abs) =
      ((slotsOf c).map (Option.map CBlob.abs)).map (Option.map F) := by
  rw [slotsOf_mapChildren, List.map_map, List.map_map]
  apply List.map_congr_left
  intro o ho
  cases o with
  | none => rfl
  | some b => simp [h b ho]

theorem Store.ext' {a b : Store} (h1 : a.active = b.active) (h2 : a.slots = b.slots) (h3 : a.nextId = b.nextId)
    (h4 : a.allowDup = b.allowDup) : a = b := by
  cases a; cases b; simp_all

/-! ### `createActive`, `ensureActive` -/

theorem apply_createActive_of_none {s : Store} (h : s.active = none) : s.apply .createActive = s.createActive := by
  simp [Store.apply, Store.tryCreateActive, h]

theorem createActive_abs (cfg : Cfg) (c : CState) : (c.createActive cfg).abs cfg = (c.abs cfg).createActive := rfl

theorem createActive_ref {cfg : Cfg} {c : CState} (hinv : CInv cfg c) (hnone : c.active = none) :
    CInv cfg (c.createActive cfg) := by
  refine ⟨?_, ?_, hinv.closed, hinv.cont⟩
  · rw [createActive_abs, ← apply_createActive_of_none (by rw [abs_active, hnone]; rfl)]
    exact apply_WF hinv.wf _
  · intro a ha
    simp only [CState.createActive, Option.some.injEq] at ha
    subst ha
    exact ⟨openNew_inv cfg _, rfl⟩

theorem ensureActive_abs (cfg : Cfg) (c : CState) : (c.ensureActive cfg).abs cfg = (c.abs cfg).ensureActive := by
  unfold CState.ensureActive Store.ensureActive
  rw [abs_active]
  cases c.active with
  | none => rfl
  | some a => rfl

theorem ensureActive_inv {cfg : Cfg} {c : CState} (hinv : CInv cfg c) : CInv cfg (c.ensureActive cfg) := by
  unfold CState.ensureActive
  cases ha : c.active with
  | none => exact createActive_ref hinv ha
  | some a => exact hinv

theorem ensureActive_active (cfg : Cfg) (c : CState) : ∃ a, (c.ensureActive cfg).active = some a := by
  unfold CState.ensureActive
  cases ha : c.active with
  | none => exact ⟨_, rfl⟩
  | some a => exact ⟨a, ha⟩

theorem ensureActive_blobs_sub (cfg : Cfg) (c : CState) : (c.ensureActive cfg).cont = c.cont := by
  unfold CState.ensureActive
  cases c.active <;> rfl

/-! ### `write` -/

theorem mem_blobs_active {c : CState} {a : CBlob} (h : c.active = some a) : a ∈ c.blobs := by
  unfold CState.blobs; rw [h]; simp

theorem mem_blobs_closed {c : CState} {b : CBlob} (h : some b ∈ slotsOf c.cont) : b ∈ c.blobs := by
  unfold CState.blobs
  exact List.mem_append_left _ (mem_closedBlobs.mpr h)

theorem write_ref0 {cfg : Cfg} {c : CState} (hcfg : cfg.OK) (hinv : CInv cfg c) (k : Key) (ts : Nat) (d : Data)
    (hk : k < 256 ^ cfg.klen) (hts : ts < 2 ^ 64) :
    (c.write cfg k ts d).abs cfg = (c.abs cfg).write k ts none d ∧ CInv0 cfg (c.write cfg k ts d) := by
  suffices h : (c.write cfg k ts d).abs cfg = (c.abs cfg).write k ts none d ∧
      (∀ a, (c.write cfg k ts d).active = some a → BlobInv0 cfg a ∧ a.index.onDisk = false) ∧
      (c.write cfg k ts d).cont = c.cont by
    obtain ⟨h1, h2, h3⟩ := h
    refine ⟨h1, ?_, h2, ?_, ?_⟩
    · rw [h1]; exact apply_WF hinv.wf (.write k ts none d)
    · rw [h3]; exact hinv.toCInv0.closed
    · rw [h3]; exact hinv.cont
  have hinv1 := ensureActive_inv (cfg := cfg) hinv
  have habs1 := ensureActive_abs cfg c
  have hcont1 := ensureActive_blobs_sub cfg c
  obtain ⟨a, ha⟩ := ensureActive_active cfg c
  have hcont := contains_eq hcfg hinv1 k
  have hfound : (((c.ensureActive cfg).abs cfg).contains k).isFound
      = (((c.ensureActive cfg).abs cfg).getLatestEntry k none).isFound := by
    unfold Store.contains
    cases ((c.ensureActive cfg).abs cfg).getLatestEntry k none <;> rfl
  have hdupE : (if cfg.allowDup = true then (Except.ok false : Except CErr Bool)
        else .ok (((c.ensureActive cfg).abs cfg).contains k).isFound)
      = .ok (!((c.ensureActive cfg).abs cfg).allowDup &&
          (((c.ensureActive cfg).abs cfg).getLatestEntry k none).isFound) := by
    have : ((c.ensureActive cfg).abs cfg).allowDup = cfg.allowDup := rfl
    rw [this, hfound]; cases cfg.allowDup <;> rfl
  unfold CState.write
  unfold Store.write
  simp only [hcont]
  rw [hdupE]
  rw [← habs1]
  cases hB : (!((c.ensureActive cfg).abs cfg).allowDup &&
      (((c.ensureActive cfg).abs cfg).getLatestEntry k none).isFound) with
  | true =>
    simp only [if_true]
    exact ⟨trivial, hinv1.toCInv0.active, hcont1⟩
  | false =>
    have hs1a : ((c.ensureActive cfg).abs cfg).active = some a.abs := by rw [abs_active, ha]; rfl
    simp only [ha, hs1a, Bool.false_eq_true, if_false]
    obtain ⟨hba, hmem⟩ := hinv1.active a ha
    obtain ⟨hw, hwid, hwg, hwm, _⟩ := writeRec_inv0 hba.toBlobInv0 hmem ⟨k, ts, false, none, d⟩ hk hts
    have hab : (a.writeRec cfg ⟨k, ts, false, none, d⟩).abs
        = a.abs.append ⟨k, ts, false, (none : Option Meta).getD none, d⟩ := by
      simp only [CBlob.abs, hwid, hwg, hwm, Blob.append]
      have : a.index.onDisk = false := hmem
      rw [this]
      rfl
    refine ⟨?_, ?_, hcont1⟩
    · simp only [CState.abs, Option.map_some, hab]
    · intro a' ha'
      simp only [Option.some.injEq] at ha'
      subst ha'
      exact ⟨hw, hwm⟩

/-! ### `delete` -/

theorem Store.delete_fst_eq (s : Store) (k : Key) (ts : Nat) (m : Option Meta) (oip : Bool) :
    (s.delete k ts m oip).1 =
      { s.deleteBase oip with
        active := (s.deleteBase oip).active.map (fun a => (Store.blobDelete a k ts m oip).1)
        slots := (s.deleteBase oip).slots.map (Option.map (fun b => (Store.blobDelete b k ts m true).1)) } := by
  simp only [Store.delete, Store.deleteBase]
  generalize (if oip = true then s else s.ensureActive) = s0
  have hsl : (s0.slots.map (fun o => o.map (fun b => Store.blobDelete b k ts m true))).map (fun o => o.map (·.1))
      = s0.slots.map (Option.map (fun b => (Store.blobDelete b k ts m true).1)) := by
    rw [List.map_map]
    apply List.map_congr_left
    intro o _
    cases o <;> rfl
  rw [hsl]
  cases s0.active <;> rfl

theorem getLatest_isFound_mem {b : Blob} {k : Key} (h : (b.getLatest k).isFound = true) :
    ∃ r ∈ b.recs, r.key = k := by
  apply Classical.byContradiction
  intro hne
  have : ∀ r ∈ b.recs, r.key ≠ k := fun r hr hk => hne ⟨r, hr, hk⟩
  have hnf := Blob.getLatestEntry_of_no_key (m := none) this
  have : b.getLatest k = .notFound := hnf
  rw [this] at h
  cases h

theorem blobDelete_keys (b : Blob) (k : Key) (ts : Nat) (oip : Bool) (hoip : oip = true) :
    ∀ r ∈ (Store.blobDelete b k ts none oip).1.recs, ∃ r' ∈ b.recs, r'.key = r.key := by
  intro r hr
  rw [Store.blobDelete_fst] at hr
  split at hr
  · rename_i hgo
    simp only [Store.mark, List.mem_append, List.mem_singleton] at hr
    rcases hr with hr | hr
    · exact ⟨r, hr, rfl⟩
    · subst hr
      subst hoip
      simp only [Bool.not_true, Bool.false_or] at hgo
      exact getLatest_isFound_mem hgo
  · exact ⟨r, hr, rfl⟩

theorem delete_ref0 {cfg : Cfg} {c : CState} (hcfg : cfg.OK) (hinv : CInv cfg c) (k : Key) (ts : Nat) (oip : Bool)
    (hk : k < 256 ^ cfg.klen) (hts : ts < 2 ^ 64) :
    (c.delete cfg k ts oip).1.abs cfg = ((c.abs cfg).delete k ts none oip).1 ∧
      CInv0 cfg (c.delete cfg k ts oip).1 := by
  -- the state the deletion starts from
  obtain ⟨c0, hc0, hinv0, habs0⟩ : ∃ c0, c0 = (if oip then c else c.ensureActive cfg) ∧ CInv cfg c0 ∧
      c0.abs cfg = (c.abs cfg).deleteBase oip := by
    refine ⟨_, rfl, ?_, ?_⟩
    · cases oip
      · exact ensureActive_inv hinv
      · exact hinv
    · unfold Store.deleteBase
      cases oip
      · exact ensureActive_abs cfg c
      · rfl
  have hres : (c.delete cfg k ts oip).1 =
      { c0 with
        active := c0.active.map (fun a => (a.delete cfg k ts oip).1)
        cont := mapChildren c0.cont (fun b => (b.delete cfg k ts true).1) } := by
    rw [hc0]; rfl
  rw [hres]
  -- closed blobs
  have hclosed : ∀ b, some b ∈ slotsOf c0.cont →
      BlobInv0 cfg (b.delete cfg k ts true).1 ∧
        (b.delete cfg k ts true).1.abs = (Store.blobDelete b.abs k ts none true).1 := by
    intro b hb
    have := delete_spec0 hcfg (hinv0.closed b hb) k ts true hk hts
    exact ⟨this.1, this.2.1⟩
  -- the active blob
  have hactive : ∀ a, c0.active = some a →
      BlobInv0 cfg (a.delete cfg k ts oip).1 ∧
        (a.delete cfg k ts oip).1.abs = (Store.blobDelete a.abs k ts none oip).1 := by
    intro a ha
    have := delete_spec0 hcfg (hinv0.active a ha).1 k ts oip hk hts
    exact ⟨this.1, this.2.1⟩
  have habs : CState.abs cfg
        { c0 with
          active := c0.active.map (fun a => (a.delete cfg k ts oip).1)
          cont := mapChildren c0.cont (fun b => (b.delete cfg k ts true).1) }
      = ((c.abs cfg).delete k ts none oip).1 := by
    rw [Store.delete_fst_eq, ← habs0]
    have h1 : (c0.active.map (fun a => (a.delete cfg k ts oip).1)).map CBlob.abs
        = (c0.abs cfg).active.map (fun a => (Store.blobDelete a k ts none oip).1) := by
      rw [abs_active]
      cases ha : c0.active with
      | none => rfl
      | some a => simp only [Option.map_some]; rw [(hactive a ha).2]
    have h2 := abs_mapChildren c0.cont (fun b => (b.delete cfg k ts true).1)
      (fun ab => (Store.blobDelete ab k ts none true).1) (fun b hb => (hclosed b hb).2)
    apply Store.ext'
    · exact h1
    · rw [abs_slots, abs_slots]; exact h2
    · rfl
    · rfl
  refine ⟨habs, ?_⟩
  apply CInvG.mapChildren hinv0
  · rw [habs]; exact apply_WF hinv.wf (.delete k ts none oip)
  · intro a' ha'
    cases ha : c0.active with
    | none => rw [ha] at ha'; cases ha'
    | some a =>
      rw [ha] at ha'
      simp only [Option.map_some, Option.some.injEq] at ha'
      subst ha'
      refine ⟨(hactive a ha).1, ?_⟩
      have := congrArg Blob.onDisk (hactive a ha).2
      simp only [CBlob.abs] at this
      rw [this, Store.blobDelete_fst]
      split
      · rfl
      · exact (hinv0.active a ha).2
  · intro b hb
    refine ⟨(hclosed b hb).1, ?_⟩
    intro r hr
    have hr' : r ∈ (b.delete cfg k ts true).1.abs.recs := hr
    rw [(hclosed b hb).2] at hr'
    exact blobDelete_keys b.abs k ts true rfl r hr'

/-- the number `delete` returns, on the L2 side, by projections -/
theorem Store.delete_snd_eq (s : Store) (k : Key) (ts : Nat) (m : Option Meta) (oip : Bool) :
    (s.delete k ts m oip).2 =
      (match (s.deleteBase oip).active with
        | some a => if (Store.blobDelete a k ts m oip).2 then 1 else 0
        | none => 0) +
      ((s.deleteBase oip).closed.filter (fun b => (Store.blobDelete b k ts m true).2)).length := by
  simp only [Store.delete, Store.deleteBase]
  generalize (if oip = true then s else s.ensureActive) = s0
  have hcl : ∀ (l : List (Option Blob)),
      ((l.map (fun o => o.map (fun b => Store.blobDelete b k ts m true))).filter
          (fun o => match o with | some (_, true) => true | _ => false)).length
        = ((l.filterMap id).filter (fun b => (Store.blobDelete b k ts m true).2)).length := by
    intro l
    induction l with
    | nil => rfl
    | cons o l ih =>
      cases o with
      | none => simpa using ih
      | some b =>
        simp only [List.map_cons, Option.map_some, List.filterMap_cons, id]
        cases hb : (Store.blobDelete b k ts m true) with
        | mk b' d =>
          cases d with
          | true => simp only [List.filter_cons, hb, if_true, List.length_cons, ih]
          | false => simp only [List.filter_cons, hb, Bool.false_eq_true, if_false, ih]
  unfold Store.closed
  rw [← hcl]
  cases s0.active <;> rfl

/-- the number of blobs marked is the number the L2 operation reports -/
theorem delete_count {cfg : Cfg} {c : CState} (hcfg : cfg.OK) (hinv : CInv cfg c) (k : Key) (ts : Nat) (oip : Bool)
    (hk : k < 256 ^ cfg.klen) (hts : ts < 2 ^ 64) :
    (c.delete cfg k ts oip).2 = ((c.abs cfg).delete k ts none oip).2 := by
  obtain ⟨c0, hc0, hinv0, habs0⟩ : ∃ c0, c0 = (if oip then c else c.ensureActive cfg) ∧ CInv cfg c0 ∧
      c0.abs cfg = (c.abs cfg).deleteBase oip := by
    refine ⟨_, rfl, ?_, ?_⟩
    · cases oip
      · exact ensureActive_inv hinv
      · exact hinv
    · unfold Store.deleteBase
      cases oip
      · exact ensureActive_abs cfg c
      · rfl
  have hres : (c.delete cfg k ts oip).2 =
      (match c0.active with
        | some a => if (a.delete cfg k ts oip).2 then 1 else 0
        | none => 0) +
      ((closedBlobs c0.cont).filter (fun b => (b.delete cfg k ts true).2)).length := by
    rw [hc0]; rfl
  rw [hres, Store.delete_snd_eq, ← habs0, abs_closed, abs_active]
  congr 1
  · cases ha : c0.active with
    | none => rfl
    | some a =>
      simp only [Option.map_some]
      rw [(delete_spec0 hcfg (hinv0.active a ha).1 k ts oip hk hts).2.2]
  · rw [List.filter_map, List.length_map]
    congr 1
    apply List.filter_congr
    intro b hb
    simp only [Function.comp_apply]
    exact (delete_spec0 hcfg (hinv0.closed b (mem_closedBlobs.mp hb)) k ts true hk hts).2.2

/-! ### `push` into the container: `closeActive`, `replaceActive` -/

theorem push_facts {cfg : Cfg} {c : CState} (hinv : CInv cfg c) (a : CBlob) (ha : BlobInv cfg a) :
    slotsOf (c.cont.push (fops cfg) (childOps cfg) a).1 = slotsOf c.cont ++ [some a] ∧
    (∀ b, some b ∈ slotsOf (c.cont.push (fops cfg) (childOps cfg) a).1 → BlobInv cfg b) ∧
    ∃ g, Container.Inv (fops cfg) Combined.WF (c.cont.push (fops cfg) (childOps cfg) a).1 g ∧
      ∀ j b, (slotsOf (c.cont.push (fops cfg) (childOps cfg) a).1)[j]? = some (some b) →
        ∀ r ∈ b.ghost, (fops cfg).coversOpt (g.getD j none) r.key := by
  obtain ⟨g, hci, hcov⟩ := hinv.cont
  have hslots := push_slots (fops cfg) (childOps cfg) c.cont a (pushPanics_false c.cont g hci)
  have hinv' := C10.node_filter_sup_push (C10.combined_laws cfg.h) (childOps cfg) c.cont g a hci
    (fun f hf => by cases hf; exact ha.filter_WF)
  refine ⟨hslots, ?_, _, hinv', ?_⟩
  · intro b hb
    rw [hslots] at hb
    rcases List.mem_append.mp hb with h | h
    · exact hinv.closed b h
    · simp only [List.mem_singleton, Option.some.injEq] at h
      subst h; exact ha
  · intro j b hj r hr
    rw [hslots] at hj
    have hlen : g.length = (slotsOf c.cont).length := by rw [slotsOf_length]; exact hci.glen
    by_cases hlt : j < (slotsOf c.cont).length
    · rw [List.getElem?_append_left hlt] at hj
      rw [Container.getD_append_left g _ j (by omega)]
      exact hcov j b hj r hr
    · rw [List.getElem?_append_right (by omega)] at hj
      have hj0 : j - (slotsOf c.cont).length = 0 := by
        cases hjj : j - (slotsOf c.cont).length with
        | zero => rfl
        | succ n => rw [hjj] at hj; simp at hj
      rw [hj0] at hj
      simp only [List.getElem?_cons_zero, Option.some.injEq] at hj
      subst hj
      have : j = g.length := by omega
      subst this
      rw [Container.getD_append_self]
      exact ha.filter_covers r hr

theorem closeActive_ref {cfg : Cfg} {c : CState} (hinv : CInv cfg c) :
    (c.step cfg .closeActive).abs cfg = (c.abs cfg).apply .closeActive ∧ CInv cfg (c.step cfg .closeActive) := by
  cases ha : c.active with
  | none =>
    have h1 : c.step cfg .closeActive = c := by simp [CState.step, CState.closeActive, ha]
    have h2 : (c.abs cfg).apply .closeActive = c.abs cfg := by
      simp [Store.apply, Store.closeActive, abs_active, ha]
    rw [h1, h2]; exact ⟨rfl, hinv⟩
  | some a =>
    have h1 : c.step cfg .closeActive =
        { c with active := none, cont := (c.cont.push (fops cfg) (childOps cfg) a).1 } := by
      simp [CState.step, CState.closeActive, ha]
    have h2 : (c.abs cfg).apply .closeActive =
        { c.abs cfg with active := none, slots := (c.abs cfg).slots ++ [some a.abs] } := by
      simp [Store.apply, Store.closeActive, abs_active, ha]
    obtain ⟨hs, hcl, hct⟩ := push_facts hinv a (hinv.active a ha).1
    have habs : (c.step cfg .closeActive).abs cfg = (c.abs cfg).apply .closeActive := by
      rw [h1, h2]
      apply Store.ext'
      · rfl
      · rw [abs_slots, hs, abs_slots]; simp
      · rfl
      · rfl
    refine ⟨habs, ?_, ?_, ?_, ?_⟩
    · rw [habs]; exact apply_WF hinv.wf .closeActive
    · rw [h1]; intro a' h; cases h
    · rw [h1]; exact hcl
    · rw [h1]; exact hct

theorem createActive_step_ref {cfg : Cfg} {c : CState} (hinv : CInv cfg c) :
    (c.step cfg .createActive).abs cfg = (c.abs cfg).apply .createActive ∧ CInv cfg (c.step cfg .createActive) := by
  cases ha : c.active with
  | some a =>
    have h1 : c.step cfg .createActive = c := by simp [CState.step, CState.tryCreateActive, ha]
    have h2 : (c.abs cfg).apply .createActive = c.abs cfg := by
      simp [Store.apply, Store.tryCreateActive, abs_active, ha]
    rw [h1, h2]; exact ⟨rfl, hinv⟩
  | none =>
    have h1 : c.step cfg .createActive = c.createActive cfg := by
      simp [CState.step, CState.tryCreateActive, ha]
    have h2 : (c.abs cfg).apply .createActive = (c.abs cfg).createActive :=
      apply_createActive_of_none (by rw [abs_active, ha]; rfl)
    rw [h1, h2]
    exact ⟨createActive_abs cfg c, createActive_ref hinv ha⟩

theorem replaceActive_ref {cfg : Cfg} {c : CState} (hinv : CInv cfg c) :
    (c.step cfg .replaceActive).abs cfg = (c.abs cfg).apply .replaceActive ∧
      CInv cfg (c.step cfg .replaceActive) := by
  cases ha : c.active with
  | none =>
    have h1 : c.step cfg .replaceActive = c.createActive cfg := by
      simp [CState.step, CState.replaceActive, ha]
    have h2 : (c.abs cfg).apply .replaceActive = (c.abs cfg).createActive := by
      simp [Store.apply, Store.replaceActive, abs_active, ha]
    rw [h1, h2]
    exact ⟨createActive_abs cfg c, createActive_ref hinv ha⟩
  | some a =>
    have h1 : c.step cfg .replaceActive =
        { c.createActive cfg with cont := (c.cont.push (fops cfg) (childOps cfg) a).1 } := by
      simp [CState.step, CState.replaceActive, ha, CState.createActive]
    have h2 : (c.abs cfg).apply .replaceActive =
        { (c.abs cfg).createActive with slots := (c.abs cfg).slots ++ [some a.abs] } := by
      simp [Store.apply, Store.replaceActive, abs_active, ha, Store.createActive]
    obtain ⟨hs, hcl, hct⟩ := push_facts hinv a (hinv.active a ha).1
    have habs : (c.step cfg .replaceActive).abs cfg = (c.abs cfg).apply .replaceActive := by
      rw [h1, h2]
      apply Store.ext'
      · rfl
      · rw [abs_slots]
        show List.map (Option.map CBlob.abs) (slotsOf (c.cont.push (fops cfg) (childOps cfg) a).1) = _
        rw [hs, abs_slots]; simp
      · rfl
      · rfl
    refine ⟨habs, ?_, ?_, ?_, ?_⟩
    · rw [habs]; exact apply_WF hinv.wf .replaceActive
    · rw [h1]
      intro a' h
      simp only [CState.createActive, Option.some.injEq] at h
      subst h
      exact ⟨openNew_inv cfg _, rfl⟩
    · rw [h1]; exact hcl
    · rw [h1]; exact hct

/-! ### `settle` -/

theorem settle_ref {cfg : Cfg} {c : CState} (hinv : CInv cfg c) :
    (c.step cfg .settle).abs cfg = (c.abs cfg).apply .settle ∧ CInv cfg (c.step cfg .settle) := by
  have h1 : c.step cfg .settle = { c with active := c.active, cont := mapChildren c.cont (CBlob.dump cfg) } := rfl
  have habs : (c.step cfg .settle).abs cfg = (c.abs cfg).apply .settle := by
    rw [h1]
    apply Store.ext'
    · rfl
    · rw [abs_slots]
      show List.map (Option.map CBlob.abs) (slotsOf (mapChildren c.cont (CBlob.dump cfg))) = _
      rw [abs_mapChildren c.cont (CBlob.dump cfg)
        (fun ab => if ab.recs.isEmpty then ab else { ab with onDisk := true })
        (fun b hb => dump_abs (hinv.closed b hb)), ← abs_slots]
      rfl
    · rfl
    · rfl
  refine ⟨habs, ?_⟩
  rw [h1]
  apply CInvG.mapChildren hinv
  · rw [← h1, habs]; exact apply_WF hinv.wf .settle
  · exact hinv.active
  · intro b hb
    obtain ⟨hd, _, hg, _⟩ := dump_inv (hinv.closed b hb)
    refine ⟨hd, ?_⟩
    intro r hr
    rw [hg] at hr
    exact ⟨r, hr, rfl⟩

/-! ### `restoreActive` -/

theorem modify_map_isSome {α : Type} (l : List (Option α)) (i : Nat) (f : α → α) :
    (l.modify i (Option.map f)).map Option.isSome = l.map Option.isSome := by
  apply List.ext_getElem?
  intro j
  simp only [List.getElem?_map, List.getElem?_modify]
  by_cases h : i = j
  · subst h
    cases l[i]? with
    | none => rfl
    | some o => cases o <;> simp
  · simp [h]

theorem set_modify {α : Type} (l : List α) (i : Nat) (f : α → α) (x : α) : (l.modify i f).set i x = l.set i x := by
  apply List.ext_getElem?
  intro j
  simp only [List.getElem?_set, List.getElem?_modify, List.length_modify]
  by_cases h : i = j
  · subst h; simp
  · simp [h]

theorem restoreActive_ref {cfg : Cfg} {c : CState} (hcfg : cfg.OK) (hinv : CInv cfg c) :
    (c.step cfg .restoreActive).abs cfg = (c.abs cfg).apply .restoreActive ∧
      CInv cfg (c.step cfg .restoreActive) := by
  cases ha : c.active with
  | some a =>
    have h1 : c.step cfg .restoreActive = c := by simp [CState.step, CState.restoreActive, ha]
    have h2 : (c.abs cfg).apply .restoreActive = c.abs cfg := by
      simp [Store.apply, Store.restoreActive, abs_active, ha]
    rw [h1, h2]; exact ⟨rfl, hinv⟩
  | none =>
    have hlp := lastPresent_map CBlob.abs (slotsOf c.cont)
    rw [← abs_slots cfg c] at hlp
    have hlid := lastId_eq c.cont
    cases hls : lastSomeIdx (slotsOf c.cont) with
    | none =>
      rw [hls] at hlp hlid
      have h1 : c.step cfg .restoreActive = c := by simp [CState.step, CState.restoreActive, ha, hlid]
      have h2 : (c.abs cfg).apply .restoreActive = c.abs cfg := by
        simp only [Store.apply, Store.restoreActive, abs_active, ha, Option.map_none, hlp]
        rfl
      rw [h1, h2]; exact ⟨rfl, hinv⟩
    | some i =>
      rw [hls] at hlp hlid
      obtain ⟨b, hb⟩ := lastSomeIdx_some hls
      simp only [Option.bind_some, hb, Option.join_some, Option.map_some] at hlp
      have hbinv := hinv.closed b (List.mem_of_getElem? hb)
      -- the concrete pop
      have hs1 : slotsOf (modifyChild c.cont i (CBlob.loadIndex cfg))
          = (slotsOf c.cont).modify i (Option.map (CBlob.loadIndex cfg)) := slotsOf_modifyChild _ _ _
      have hlid1 : (modifyChild c.cont i (CBlob.loadIndex cfg)).lastId = some i := by
        rw [lastId_eq, hs1, lastSomeIdx_congr _ (slotsOf c.cont) (modify_map_isSome _ _ _), hls]
      have hsl1 : (slotsOf (modifyChild c.cont i (CBlob.loadIndex cfg)))[i]? = some (some (b.loadIndex cfg)) := by
        rw [hs1, List.getElem?_modify, hb]; simp
      obtain ⟨lf, hlf, hdata⟩ := slots_some_getChild hsl1
      have hpop : (modifyChild c.cont i (CBlob.loadIndex cfg)).pop =
          ({ modifyChild c.cont i (CBlob.loadIndex cfg) with
              children := (modifyChild c.cont i (CBlob.loadIndex cfg)).children.set i none },
            some (b.loadIndex cfg)) := by
        unfold Container.pop
        rw [hlid1]
        simp only []
        rw [remove_of_getChild _ i lf hlf, hdata]
      have h1 : c.step cfg .restoreActive =
          { c with active := some (b.loadIndex cfg)
                   cont := { modifyChild c.cont i (CBlob.loadIndex cfg) with
                     children := (modifyChild c.cont i (CBlob.loadIndex cfg)).children.set i none } } := by
        simp only [CState.step, CState.restoreActive, ha, hlid, hpop]
      have h2 : (c.abs cfg).apply .restoreActive =
          { c.abs cfg with active := some { b.abs with onDisk := false }, slots := (c.abs cfg).slots.set i none } := by
        simp only [Store.apply, Store.restoreActive, abs_active, ha, Option.map_none, hlp]
      have hslots : slotsOf ({ modifyChild c.cont i (CBlob.loadIndex cfg) with
            children := (modifyChild c.cont i (CBlob.loadIndex cfg)).children.set i none } : Container Combined CBlob)
          = (slotsOf c.cont).set i none := by
        rw [slotsOf_set_none, hs1, set_modify]
      obtain ⟨hl, hlid', hlg, hlm, _⟩ := loadIndex_inv hcfg hbinv
      have habs : (c.step cfg .restoreActive).abs cfg = (c.abs cfg).apply .restoreActive := by
        rw [h1, h2]
        apply Store.ext'
        · show some (b.loadIndex cfg).abs = some _
          simp only [CBlob.abs, hlid', hlg, hlm]
        · rw [abs_slots]
          show List.map (Option.map CBlob.abs) (slotsOf _) = _
          rw [hslots, abs_slots, List.map_set]
          rfl
        · rfl
        · rfl
      obtain ⟨g, hci, hcov⟩ := hinv.cont
      refine ⟨habs, ?_, ?_, ?_, ?_⟩
      · rw [habs]; exact apply_WF hinv.wf .restoreActive
      · rw [h1]
        intro a' h
        simp only [Option.some.injEq] at h
        subst h
        exact ⟨hl, hlm⟩
      · rw [h1]
        intro b' hb'
        simp only [hslots] at hb'
        rcases List.mem_or_eq_of_mem_set hb' with h | h
        · exact hinv.closed b' h
        · cases h
      · rw [h1]
        refine ⟨g, ?_, ?_⟩
        · exact setChildren_inv hci _ (by simp [modifyChild])
        · intro j b' hj r hr
          simp only [hslots, List.getElem?_set] at hj
          split at hj
          · split at hj <;> cases hj
          · exact hcov j b' hj r hr

/-! ### `restart` (close + init without index files) -/

theorem mem_insertById {x b : CBlob} : ∀ {l : List CBlob}, x ∈ insertById b l ↔ x = b ∨ x ∈ l
  | [] => by simp [insertById]
  | c :: cs => by
    simp only [insertById]
    split
    · simp
    · simp only [List.mem_cons, mem_insertById (l := cs)]
      constructor
      · rintro (h | h | h)
        · exact Or.inr (Or.inl h)
        · exact Or.inl h
        · exact Or.inr (Or.inr h)
      · rintro (h | h | h)
        · exact Or.inr (Or.inl h)
        · exact Or.inl h
        · exact Or.inr (Or.inr h)

theorem mem_sortById {x : CBlob} : ∀ {l : List CBlob}, x ∈ sortById l ↔ x ∈ l
  | [] => by simp [sortById]
  | b :: l => by
    have ih := mem_sortById (x := x) (l := l)
    simp only [sortById, List.foldr_cons] at ih ⊢
    rw [mem_insertById, ih]
    simp

theorem insertById_map (b : CBlob) : ∀ (l : List CBlob),
    (insertById b l).map CBlob.abs = Store.insertById b.abs (l.map CBlob.abs)
  | [] => rfl
  | c :: cs => by
    simp only [insertById, List.map_cons, Store.insertById]
    by_cases h : b.id < c.id
    · have h' : b.abs.id < c.abs.id := h
      rw [if_pos h, if_pos h']; rfl
    · have h' : ¬ b.abs.id < c.abs.id := h
      rw [if_neg h, if_neg h']
      simp only [List.map_cons, insertById_map b cs]

theorem sortById_map : ∀ (l : List CBlob), (sortById l).map CBlob.abs = Store.sortById (l.map CBlob.abs)
  | [] => rfl
  | b :: l => by
    have ih := sortById_map l
    simp only [sortById, Store.sortById, List.foldr_cons, List.map_cons] at ih ⊢
    rw [insertById_map, ih]

/-- a blob with its index regenerated in memory -/
def reidx (cfg : Cfg) (b : CBlob) : CBlob := { b with index := .mem (indexOf (hdrsOf cfg b.ghost)) }

theorem regenAll_eq {cfg : Cfg} : ∀ (l : List CBlob), (∀ b ∈ l, BlobInv cfg b) →
    regenAll cfg l = some (l.map (reidx cfg))
  | [], _ => rfl
  | b :: l, h => by
    simp only [regenAll, regen_eq (h b (by simp)), regenAll_eq l (fun x hx => h x (by simp [hx])), List.map_cons]
    rfl

theorem BlobInv.onDisk_of_empty {cfg : Cfg} {b : CBlob} (hb : BlobInv cfg b) (he : b.ghost = []) :
    b.index.onDisk = false := by
  have := hb.index
  unfold IndexInv at this
  cases hi : b.index with
  | mem m => rfl
  | disk f mb off => rw [hi] at this; exact absurd he this.1

theorem reidx_inv {cfg : Cfg} {b : CBlob} (hb : BlobInv cfg b) : BlobInv cfg (reidx cfg b) := regen_inv hb

theorem reidx_abs (cfg : Cfg) (b : CBlob) : (reidx cfg b).abs = { b.abs with onDisk := false } := rfl

theorem dump_reidx_abs {cfg : Cfg} {b : CBlob} (hb : BlobInv cfg b) :
    ((reidx cfg b).dump cfg).abs = if b.abs.recs.isEmpty then b.abs else { b.abs with onDisk := true } := by
  rw [dump_abs (reidx_inv hb), reidx_abs]
  by_cases he : b.ghost = []
  · have h1 : b.abs.recs.isEmpty = true := by simp [CBlob.abs, he]
    simp only [h1, if_true]
    simp only [CBlob.abs, hb.onDisk_of_empty he]
  · have h1 : b.abs.recs.isEmpty = false := by
      simp only [CBlob.abs]
      cases hg : b.ghost with
      | nil => exact absurd hg he
      | cons _ _ => rfl
    simp only [h1, Bool.false_eq_true, if_false]

theorem extend_facts {cfg : Cfg} (hcfg : cfg.OK) (xs : List CBlob) (hxs : ∀ x ∈ xs, BlobInv cfg x) :
    slotsOf (Container.extend (fops cfg) (childOps cfg) (CState.emptyCont cfg) xs) = xs.map some ∧
    ∃ g, Container.Inv (fops cfg) Combined.WF
        (Container.extend (fops cfg) (childOps cfg) (CState.emptyCont cfg) xs) g ∧
      ∀ j b, (slotsOf (Container.extend (fops cfg) (childOps cfg) (CState.emptyCont cfg) xs))[j]? = some (some b) →
        ∀ r ∈ b.ghost, (fops cfg).coversOpt (g.getD j none) r.key := by
  have hnew : Container.Inv (fops cfg) Combined.WF (CState.emptyCont cfg) [] :=
    C10.node_filter_sup_new cfg.group 1 hcfg.group
  have hok : ∀ x ∈ xs, okOpt Combined.WF ((childOps cfg).filterOf x) := by
    intro x hx f hf
    cases hf
    exact (hxs x hx).filter_WF
  have hsl := extend_slots (C10.combined_laws cfg.h) (childOps cfg) xs _ _ hnew hok
  have hsl' : slotsOf (Container.extend (fops cfg) (childOps cfg) (CState.emptyCont cfg) xs) = xs.map some := by
    rw [hsl]; rfl
  refine ⟨hsl', _, C10.node_filter_sup_extend (C10.combined_laws cfg.h) (childOps cfg) xs _ _ hnew hok, ?_⟩
  intro j b hj r hr
  rw [hsl', List.getElem?_map] at hj
  cases hx : xs[j]? with
  | none => rw [hx] at hj; cases hj
  | some x =>
    rw [hx] at hj
    simp only [Option.map_some, Option.some.injEq] at hj
    have hgd : ([] ++ xs.map (childOps cfg).filterOf).getD j none = some x.filter := by
      simp [List.getD_eq_getElem?_getD, hx, childOps]
    rw [hgd, hj]
    exact (hxs b (hj ▸ List.mem_of_getElem? hx)).filter_covers r hr

theorem restart_ref {cfg : Cfg} {c : CState} (hcfg : cfg.OK) (hinv : CInv cfg c) (lazy : Bool) :
    (c.step cfg (.restart lazy)).abs cfg = (c.abs cfg).apply (.restart lazy) ∧
      CInv cfg (c.step cfg (.restart lazy)) := by
  have hL : ∀ b ∈ sortById c.blobs, BlobInv cfg b := fun b hb => CInvG.blobInv hinv (mem_sortById.mp hb)
  have hLabs : (sortById c.blobs).map CBlob.abs = Store.sortById (c.abs cfg).blobs := by
    rw [sortById_map, abs_blobs]
  have hmax : ((sortById c.blobs).map (reidx cfg)).foldl (fun m b => max m (b.id + 1)) 0
      = ((sortById c.blobs).map CBlob.abs).foldl (fun m b => max m (b.id + 1)) 0 := by
    rw [List.foldl_map, List.foldl_map]
    rfl
  have hdumpabs : ∀ (l : List CBlob), (∀ b ∈ l, BlobInv cfg b) →
      (((l.map (reidx cfg)).map (CBlob.dump cfg)).map some).map (Option.map CBlob.abs)
        = (l.map CBlob.abs).map
            (fun b => some (if b.recs.isEmpty then b else { b with onDisk := true })) := by
    intro l hl
    simp only [List.map_map]
    apply List.map_congr_left
    intro b hb
    simp only [Function.comp_apply, Option.map_some]
    rw [dump_reidx_abs (hl b hb)]
  have hdumpinv : ∀ (l : List CBlob), (∀ b ∈ l, BlobInv cfg b) →
      ∀ x ∈ (l.map (reidx cfg)).map (CBlob.dump cfg), BlobInv cfg x := by
    intro l hl x hx
    simp only [List.map_map, List.mem_map, Function.comp_apply] at hx
    obtain ⟨b, hb, rfl⟩ := hx
    exact (dump_inv (reidx_inv (hl b hb))).1
  have hstep : c.step cfg (.restart lazy) = c.restart cfg lazy := rfl
  have happly : (c.abs cfg).apply (.restart lazy) = (c.abs cfg).restart lazy := rfl
  rw [hstep, happly]
  suffices h : (c.restart cfg lazy).abs cfg = (c.abs cfg).restart lazy ∧
      (∀ a, (c.restart cfg lazy).active = some a → BlobInv cfg a ∧ a.index.onDisk = false) ∧
      (∀ b, some b ∈ slotsOf (c.restart cfg lazy).cont → BlobInv cfg b) ∧
      (∃ g, Container.Inv (fops cfg) Combined.WF (c.restart cfg lazy).cont g ∧
        ∀ j b, (slotsOf (c.restart cfg lazy).cont)[j]? = some (some b) →
          ∀ r ∈ b.ghost, (fops cfg).coversOpt (g.getD j none) r.key) by
    obtain ⟨h1, h2, h3, h4⟩ := h
    refine ⟨h1, ?_, h2, h3, h4⟩
    rw [h1, ← happly]; exact apply_WF hinv.wf (.restart lazy)
  unfold CState.restart Store.restart
  rw [regenAll_eq _ hL, ← hLabs]
  simp only []
  cases lazy with
  | true =>
    simp only [if_true]
    obtain ⟨hs, hg⟩ := extend_facts hcfg _ (hdumpinv _ hL)
    refine ⟨?_, ?_, ?_, hg⟩
    · apply Store.ext'
      · rfl
      · rw [abs_slots]
        show List.map (Option.map CBlob.abs) (slotsOf (Container.extend _ _ _ _)) = _
        rw [hs, hdumpabs _ hL]
      · exact hmax
      · rfl
    · intro a h; cases h
    · intro b hb
      rw [hs] at hb
      obtain ⟨x, hx, hxe⟩ := List.mem_map.mp hb
      cases hxe
      exact hdumpinv _ hL _ hx
  | false =>
    simp only [Bool.false_eq_true, if_false]
    rw [List.getLast?_map, List.getLast?_map]
    cases hlast : (sortById c.blobs).getLast? with
    | none =>
      simp only [Option.map_none]
      refine ⟨rfl, ?_, ?_, ?_⟩
      · intro a h
        simp only [CState.createActive, Option.some.injEq] at h
        subst h
        exact ⟨openNew_inv cfg _, rfl⟩
      · intro b hb
        simp [CState.createActive, CState.emptyCont, slotsOf_new] at hb
      · refine ⟨[], C10.node_filter_sup_new cfg.group 1 hcfg.group, ?_⟩
        intro j b hj
        simp [CState.createActive, CState.emptyCont, slotsOf_new] at hj
    | some a =>
      simp only [Option.map_some]
      have hLd : ∀ b ∈ (sortById c.blobs).dropLast, BlobInv cfg b :=
        fun b hb => hL b (List.dropLast_subset _ hb)
      have hdl : ((sortById c.blobs).map (reidx cfg)).dropLast = (sortById c.blobs).dropLast.map (reidx cfg) :=
        List.map_dropLast.symm
      rw [hdl]
      obtain ⟨hs, hg⟩ := extend_facts hcfg _ (hdumpinv _ hLd)
      refine ⟨?_, ?_, ?_, hg⟩
      · apply Store.ext'
        · rfl
        · rw [abs_slots]
          show List.map (Option.map CBlob.abs) (slotsOf (Container.extend _ _ _ _)) = _
          rw [hs, hdumpabs _ hLd, List.map_dropLast]
        · exact hmax
        · rfl
      · intro a' h
        simp only [Option.some.injEq] at h
        subst h
        exact ⟨reidx_inv (hL a (List.mem_of_getLast? hlast)), rfl⟩
      · intro b hb
        rw [hs] at hb
        obtain ⟨x, hx, hxe⟩ := List.mem_map.mp hb
        cases hxe
        exact hdumpinv _ hLd _ hx

/-! ### every operation -/

/-- **refinement** (1): every concrete operation implements its L2 operation, and keeps the invariant up to the
    size conditions on the blob files -/
theorem step_ref0 {cfg : Cfg} {c : CState} (hcfg : cfg.OK) (hinv : CInv cfg c) (op : COp) (hop : op.OK cfg) :
    (c.step cfg op).abs cfg = (c.abs cfg).apply op.abs ∧ CInv0 cfg (c.step cfg op) := by
  cases op with
  | write k ts d => exact write_ref0 hcfg hinv k ts d hop.1 hop.2
  | delete k ts oip => exact delete_ref0 hcfg hinv k ts oip hop.1 hop.2
  | closeActive => exact ⟨(closeActive_ref hinv).1, (closeActive_ref hinv).2.toCInv0⟩
  | createActive => exact ⟨(createActive_step_ref hinv).1, (createActive_step_ref hinv).2.toCInv0⟩
  | restoreActive => exact ⟨(restoreActive_ref hcfg hinv).1, (restoreActive_ref hcfg hinv).2.toCInv0⟩
  | replaceActive => exact ⟨(replaceActive_ref hinv).1, (replaceActive_ref hinv).2.toCInv0⟩
  | settle => exact ⟨(settle_ref hinv).1, (settle_ref hinv).2.toCInv0⟩
  | restart lazy => exact ⟨(restart_ref hcfg hinv lazy).1, (restart_ref hcfg hinv lazy).2.toCInv0⟩

/-- the size side-condition, on the L2 state: every blob has an L5 image shorter than `2^64` bytes -/
def StoreSized (klen : Nat) (s : Store) : Prop :=
  ∀ b ∈ s.blobs, (blobBytes klen (full b.recs)).length < 2 ^ 64

theorem step_ref {cfg : Cfg} {c : CState} (hcfg : cfg.OK) (hinv : CInv cfg c) (op : COp) (hop : op.OK cfg)
    (hsz : StoreSized cfg.klen ((c.abs cfg).apply op.abs)) :
    (c.step cfg op).abs cfg = (c.abs cfg).apply op.abs ∧ CInv cfg (c.step cfg op) := by
  obtain ⟨h1, h2⟩ := step_ref0 hcfg hinv op hop
  exact ⟨h1, h2.toCInv (by rw [h1]; exact hsz)⟩

/-! ### the initial state -/

theorem init_abs (cfg : Cfg) : (CState.init cfg).abs cfg = Store.init cfg.allowDup := rfl

theorem init_inv {cfg : Cfg} (hcfg : cfg.OK) : CInv cfg (CState.init cfg) := by
  refine ⟨?_, ?_, ?_, ?_⟩
  · rw [init_abs]; exact init_WF _
  · intro a ha
    simp only [CState.init, CState.createActive, Option.some.injEq] at ha
    subst ha
    exact ⟨openNew_inv cfg _, rfl⟩
  · intro b hb
    simp [CState.init, CState.createActive, CState.emptyCont, slotsOf_new] at hb
  · refine ⟨[], C10.node_filter_sup_new cfg.group 1 hcfg.group, ?_⟩
    intro j b hj
    simp [CState.init, CState.createActive, CState.emptyCont, slotsOf_new] at hj

/-! ### runs -/

theorem crun_nil (cfg : Cfg) (c : CState) : c.run cfg [] = c := rfl

theorem crun_cons (cfg : Cfg) (c : CState) (op : COp) (ops : List COp) :
    c.run cfg (op :: ops) = (c.step cfg op).run cfg ops := rfl

/-- refinement along a run, with the size condition on every L2 state passed through -/
theorem run_ref_from {cfg : Cfg} (hcfg : cfg.OK) : ∀ (ops : List COp) (c : CState), CInv cfg c →
    (∀ op ∈ ops, op.OK cfg) →
    (∀ n, n ≤ ops.length → StoreSized cfg.klen ((c.abs cfg).run ((ops.take n).map COp.abs))) →
    (c.run cfg ops).abs cfg = (c.abs cfg).run (ops.map COp.abs) ∧ CInv cfg (c.run cfg ops)
  | [], c, hinv, _, _ => ⟨rfl, hinv⟩
  | op :: ops, c, hinv, hops, hsz => by
    have h1 := hsz 1 (by simp)
    simp only [List.take_succ_cons, List.take_zero, List.map_cons, List.map_nil, Store.run_cons, Store.run_nil] at h1
    obtain ⟨ha, hi⟩ := step_ref hcfg hinv op (hops op (by simp)) h1
    have := run_ref_from hcfg ops (c.step cfg op) hi (fun o ho => hops o (by simp [ho]))
      (by
        intro n hn
        have := hsz (n + 1) (by simp; omega)
        simp only [List.take_succ_cons, List.map_cons, Store.run_cons] at this
        rw [ha]; exact this)
    rw [crun_cons, List.map_cons, Store.run_cons, ← ha]
    exact this

/-- the image of a blob only grows with its record list -/
theorem blobBytes_length_mono (klen : Nat) {recs recs' : List Rec} (h : recs <+: recs') :
    (blobBytes klen (full recs)).length ≤ (blobBytes klen (full recs')).length := by
  obtain ⟨t, rfl⟩ := h
  rw [blobBytes_eq, blobBytes_eq, List.map_append, tailOf_append]
  simp only [List.length_append]
  omega

theorem run_blobs_mono : ∀ (ops : List Op) (s : Store), s.WF →
    ∀ b ∈ s.blobs, ∃ b' ∈ (s.run ops).blobs, b.recs <+: b'.recs
  | [], _, _, b, hb => ⟨b, hb, List.prefix_refl _⟩
  | op :: ops, s, hwf, b, hb => by
    obtain ⟨b1, hb1, _, hp1, _⟩ := apply_log hwf op b hb
    obtain ⟨b2, hb2, hp2⟩ := run_blobs_mono ops (s.apply op) (apply_WF hwf op) b1 hb1
    exact ⟨b2, hb2, hp1.trans hp2⟩

/-- blobs never shrink, so the size condition on the final L2 state implies it on every state passed through -/
theorem storeSized_prefix (klen : Nat) {s : Store} (hwf : s.WF) (ops : List Op)
    (h : StoreSized klen (s.run ops)) (n : Nat) : StoreSized klen (s.run (ops.take n)) := by
  intro b hb
  have hsplit : s.run ops = (s.run (ops.take n)).run (ops.drop n) := by
    unfold Store.run
    rw [← List.foldl_append, List.take_append_drop]
  have hwfn : (s.run (ops.take n)).WF := by
    have : ∀ (l : List Op) (s : Store), s.WF → (s.run l).WF := by
      intro l
      induction l with
      | nil => intro s h; exact h
      | cons o l ih => intro s h; exact ih _ (apply_WF h o)
    exact this _ _ hwf
  obtain ⟨b', hb', hp⟩ := run_blobs_mono (ops.drop n) _ hwfn b hb
  rw [← hsplit] at hb'
  exact Nat.lt_of_le_of_lt (blobBytes_length_mono klen hp) (h b' hb')

/-- **refinement along every history from the empty storage**, with the size condition stated on the final L2
    state only -/
theorem run_ref {cfg : Cfg} (hcfg : cfg.OK) (ops : List COp) (hops : ∀ op ∈ ops, op.OK cfg)
    (hsz : StoreSized cfg.klen ((Store.init cfg.allowDup).run (ops.map COp.abs))) :
    ((CState.init cfg).run cfg ops).abs cfg = (Store.init cfg.allowDup).run (ops.map COp.abs) ∧
      CInv cfg ((CState.init cfg).run cfg ops) := by
  have := run_ref_from hcfg ops (CState.init cfg) (init_inv hcfg) hops (by
    intro n _
    rw [init_abs, List.map_take]
    exact storeSized_prefix cfg.klen (init_WF _) _ hsz n)
  rw [init_abs] at this
  exact this

end Pearl.E2E
