import Pearl.Model.Fault
import Pearl.Proofs.CrashLemmas
/-
Helper lemmas for C11 (I/O fault containment): positional writes at or beyond the end of the file,
the shape of the file after one write step / a run of write steps, and the start-up scan at the first
region a failed write left behind.
-/
namespace Pearl.Fault
open Pearl

/-! ### positional writes at or beyond the end -/

theorem pwrite_ge (file b : List UInt8) (off : Nat) (h : file.length ≤ off) :
    pwrite file off b = file ++ List.replicate (off - file.length) 0 ++ b := by
  unfold pwrite
  rw [List.take_of_length_le h, List.drop_eq_nil_of_le (by omega), List.append_nil]

theorem pwrite_ge_length (file b : List UInt8) (off : Nat) (h : file.length ≤ off) :
    (pwrite file off b).length = off + b.length := by
  rw [pwrite_ge file b off h]
  simp only [List.length_append, List.length_replicate]
  omega

theorem pwrite_twice (file b1 b2 : List UInt8) (off : Nat) (h : file.length ≤ off) :
    pwrite (pwrite file off b1) (off + b1.length) b2 =
      file ++ List.replicate (off - file.length) 0 ++ (b1 ++ b2) := by
  have hl := pwrite_ge_length file b1 off h
  rw [pwrite_ge _ b2 _ (by omega), hl, Nat.sub_self, pwrite_ge file b1 off h]
  simp

theorem writeData_ge (file : List UInt8) (off : Nat) (w : Writable) (h : file.length ≤ off) :
    writeData file off w = file ++ List.replicate (off - file.length) 0 ++ w.bytes := by
  cases w with
  | single b => exact pwrite_ge file b off h
  | double b1 b2 => exact pwrite_twice file b1 b2 off h

/-- what `write_data` leaves in the file under an outcome, when the offset is at or beyond the end:
    nothing, or the zero-filled hole followed by the first `cutOf` bytes of the image -/
theorem writeDataO_bytes (file : List UInt8) (off : Nat) (w : Writable) (o : Outcome)
    (h : file.length ≤ off) (hb : firstBuf w ≠ []) :
    (writeDataO file off w o).1 =
      if cutOf w o = 0 then file
      else file ++ List.replicate (off - file.length) 0 ++ w.bytes.take (cutOf w o) := by
  have hpos : 0 < (firstBuf w).length := List.length_pos_iff.mpr hb
  cases o with
  | ok =>
    have hne : cutOf w .ok ≠ 0 := by
      cases w with
      | single b => simp only [cutOf, Writable.bytes, firstBuf] at hpos ⊢; omega
      | double b1 b2 =>
        simp only [cutOf, Writable.bytes, firstBuf, List.length_append] at hpos ⊢; omega
    rw [if_neg hne]
    simp only [writeDataO, cutOf, List.take_length]
    exact writeData_ge file off w h
  | failBefore => cases w <;> simp [writeDataO, cutOf]
  | short n =>
    cases w with
    | single b =>
      show pwritePart file off b n = if n = 0 then file else _ ++ List.take n b
      unfold pwritePart
      by_cases hn : n = 0
      · rw [if_pos hn, if_pos hn]
      · rw [if_neg hn, if_neg hn, pwrite_ge _ _ _ h]
    | double b1 b2 =>
      show (if n ≤ b1.length then (pwritePart file off b1 n, false)
        else (pwritePart (pwrite file off b1) (off + b1.length) b2 (n - b1.length), false)).1 =
        if n = 0 then file else _ ++ List.take n (b1 ++ b2)
      by_cases hle : n ≤ b1.length
      · rw [if_pos hle]
        simp only [pwritePart]
        by_cases hn : n = 0
        · rw [if_pos hn, if_pos hn]
        · rw [if_neg hn, if_neg hn, pwrite_ge _ _ _ h, List.take_append_of_le_length hle]
      · rw [if_neg hle]
        simp only [pwritePart]
        have ht : List.take n (b1 ++ b2) = b1 ++ List.take (n - b1.length) b2 := by
          rw [List.take_append, List.take_of_length_le (Nat.le_of_lt (Nat.lt_of_not_le hle))]
        rw [if_neg (by omega), if_neg (by omega), pwrite_twice _ _ _ _ h, ht]
  | failSecond =>
    cases w with
    | single b => simp [writeDataO, cutOf]
    | double b1 b2 =>
      simp only [firstBuf] at hpos
      show pwrite file off b1 = if b1.length = 0 then file else _ ++ List.take b1.length (b1 ++ b2)
      rw [if_neg (by omega), pwrite_ge _ _ _ h, List.take_left' rfl]

theorem writeDataO_ack (file : List UInt8) (off : Nat) (w : Writable) (o : Outcome) :
    (writeDataO file off w o).2 = decide (o = .ok) := by
  cases o <;> cases w <;> simp [writeDataO] <;> split <;> rfl


/-! ### the buffers of a record -/

/-- bytes a record occupies in the file -/
def recLen (r : Record) : Nat := 57 + r.header.key.length + (serMeta r.mt).length + r.data.length

/-- header + meta: the first buffer of a two-buffer record -/
def headLen (r : Record) : Nat := 57 + r.header.key.length + (serMeta r.mt).length

/-- the record is handed to the file as two buffers (`WritableData::Double`) -/
def twoBuf (maxSP : Nat) (r : Record) : Prop := ¬ recLen r ≤ maxSP

instance (maxSP : Nat) (r : Record) : Decidable (twoBuf maxSP r) := by unfold twoBuf; infer_instance

theorem image_length_recLen (r : Record) (off : Nat) : (r.image off).length = recLen r :=
  r.image_length off

theorem toPartial_len_recLen (r : Record) (maxSP : Nat) : (toPartial r maxSP).len = recLen r := by
  rw [toPartial_len, serHeader_length]; rfl

/-- the buffers `WritableDataCreator::create` produces -/
theorem writable_shape (r : Record) (off maxSP : Nat) :
    (writableOf (toPartial r maxSP) off).1 =
      if recLen r ≤ maxSP then .single (r.image off)
      else .double (serHeader (r.header.final off) ++ serMeta r.mt) r.data := by
  have hl : (serHeader r.header).length = 57 + r.header.key.length := serHeader_length _
  unfold writableOf toPartial recLen
  simp only [hl]
  by_cases h : 57 + r.header.key.length + (serMeta r.mt).length + r.data.length ≤ maxSP
  · rw [if_pos h, if_pos h]
    simp only [writableWith]
    rw [← hl, List.append_assoc, finalizeWith_serHeader]
    rfl
  · rw [if_neg h, if_neg h]
    simp only [writableWith]
    rw [← hl, finalizeWith_serHeader]
    rfl

theorem writable_bytes (r : Record) (off maxSP : Nat) :
    (writableOf (toPartial r maxSP) off).1.bytes = r.image off :=
  recordBytes_eq_image r off maxSP

theorem writable_firstBuf_ne (r : Record) (off maxSP : Nat) :
    firstBuf (writableOf (toPartial r maxSP) off).1 ≠ [] := by
  rw [writable_shape]
  intro h
  have := congrArg List.length h
  split at this
  · simp only [firstBuf, r.image_length, List.length_nil] at this; omega
  · simp only [firstBuf, List.length_append, serHeader_length, List.length_nil] at this; omega

/-- number of bytes of the image that reach the file -/
def cut (maxSP : Nat) (r : Record) : Outcome → Nat
  | .ok => recLen r
  | .failBefore => 0
  | .short n => n
  | .failSecond => if recLen r ≤ maxSP then 0 else headLen r

theorem cutOf_writable (r : Record) (off maxSP : Nat) (o : Outcome) :
    cutOf (writableOf (toPartial r maxSP) off).1 o = cut maxSP r o := by
  cases o with
  | ok => simp only [cutOf, cut, writable_bytes, image_length_recLen]
  | failBefore => rfl
  | short n => rfl
  | failSecond =>
    simp only [cut]
    rw [writable_shape]
    by_cases h : recLen r ≤ maxSP
    · rw [if_pos h, if_pos h]; rfl
    · rw [if_neg h, if_neg h]
      simp only [cutOf, List.length_append, serHeader_length]; rfl

/-! ### one write step -/

theorem writeStep_size (maxSP : Nat) (st : BlobSt) (r : Record) (o : Outcome) :
    (writeStep maxSP st r o).1.file.size = st.file.size + recLen r := by
  unfold writeStep
  simp only [toPartial_len_recLen]
  split <;> rfl

theorem writeStep_bytes (maxSP : Nat) (st : BlobSt) (r : Record) (o : Outcome)
    (h : st.file.bytes.length ≤ st.file.size) :
    (writeStep maxSP st r o).1.file.bytes =
      if cut maxSP r o = 0 then st.file.bytes
      else st.file.bytes ++ List.replicate (st.file.size - st.file.bytes.length) 0 ++
        (r.image st.file.size).take (cut maxSP r o) := by
  have hb := writeDataO_bytes st.file.bytes st.file.size (writableOf (toPartial r maxSP) st.file.size).1 o h
    (writable_firstBuf_ne r _ maxSP)
  rw [cutOf_writable, writable_bytes] at hb
  unfold writeStep
  simp only
  split <;> exact hb

theorem writeStep_ack (maxSP : Nat) (st : BlobSt) (r : Record) (o : Outcome) :
    (writeStep maxSP st r o).2 = (decide (o = .ok) && !st.onDisk) := by
  unfold writeStep
  simp only [writeDataO_ack]
  split <;> simp_all

theorem writeStep_index (maxSP : Nat) (st : BlobSt) (r : Record) (o : Outcome) :
    (writeStep maxSP st r o).1.index =
      if (writeStep maxSP st r o).2 then st.index ++ [(writtenHeader r st.file.size maxSP, st.file.size)]
      else st.index := by
  unfold writeStep
  simp only
  split <;> simp_all

theorem writeStep_onDisk (maxSP : Nat) (st : BlobSt) (r : Record) (o : Outcome) :
    (writeStep maxSP st r o).1.onDisk = st.onDisk := by
  unfold writeStep; simp only; split <;> rfl

theorem writeStep_idxFile (maxSP : Nat) (st : BlobSt) (r : Record) (o : Outcome) :
    (writeStep maxSP st r o).1.idxFile = st.idxFile := by
  unfold writeStep; simp only; split <;> rfl

/-- the invariant `bytes.length ≤ size` is kept, and the file is only extended -/
theorem writeStep_le (maxSP : Nat) (st : BlobSt) (r : Record) (o : Outcome)
    (h : st.file.bytes.length ≤ st.file.size) :
    (writeStep maxSP st r o).1.file.bytes.length ≤ (writeStep maxSP st r o).1.file.size := by
  rw [writeStep_size, writeStep_bytes maxSP st r o h]
  split
  · omega
  · simp only [List.length_append, List.length_replicate, List.length_take, image_length_recLen]
    omega

theorem writeStep_extends (maxSP : Nat) (st : BlobSt) (r : Record) (o : Outcome)
    (h : st.file.bytes.length ≤ st.file.size) :
    ∃ ext, (writeStep maxSP st r o).1.file.bytes = st.file.bytes ++ ext := by
  rw [writeStep_bytes maxSP st r o h]
  split
  · exact ⟨[], (List.append_nil _).symm⟩
  · exact ⟨_, List.append_assoc ..⟩

/-! ### reads are monotone in the file -/

theorem readExactAt_append_right {f : List UInt8} {n off : Nat} {buf : List UInt8}
    (h : readExactAt f n off = some buf) (ext : List UInt8) : readExactAt (f ++ ext) n off = some buf := by
  by_cases hn : n = 0
  · subst hn
    have := (readExactAt_eq_some h).1
    rw [List.take_zero] at this
    subst this
    unfold readExactAt; simp
  · have hle := readExactAt_length_le h (by omega)
    have := readExactAt_of_prefix f [] ext n off hle
    rw [List.append_nil] at this
    rw [← this, h]

/-- a record that loads from a file loads, with the same result, from every extension of the file -/
theorem entryLoad_append_right {f : List UInt8} {h : RecHeader} {x : List UInt8 × List UInt8}
    (hok : entryLoad f h = .ok x) (ext : List UInt8) : entryLoad (f ++ ext) h = .ok x := by
  unfold entryLoad at hok ⊢
  split at hok
  · cases hok
  · next buf hbuf =>
    rw [readExactAt_append_right hbuf ext]
    exact hok

/-! ### runs of write steps -/

theorem run_cons (maxSP : Nat) (st : BlobSt) (r : Record) (o : Outcome) (rest : List (Record × Outcome)) :
    run maxSP st ((r, o) :: rest) = run maxSP (writeStep maxSP st r o).1 rest := rfl

theorem run_append (maxSP : Nat) (st : BlobSt) (a b : List (Record × Outcome)) :
    run maxSP st (a ++ b) = run maxSP (run maxSP st a) b := by
  induction a generalizing st with
  | nil => rfl
  | cons x a ih => obtain ⟨r, o⟩ := x; exact ih _

theorem acked_append (maxSP : Nat) (st : BlobSt) (a b : List (Record × Outcome)) :
    acked maxSP st (a ++ b) = acked maxSP st a ++ acked maxSP (run maxSP st a) b := by
  induction a generalizing st with
  | nil => rfl
  | cons x a ih =>
    obtain ⟨r, o⟩ := x
    simp only [List.cons_append, acked, run, ih, List.append_assoc]

theorem run_le (maxSP : Nat) (st : BlobSt) (steps : List (Record × Outcome))
    (h : st.file.bytes.length ≤ st.file.size) :
    (run maxSP st steps).file.bytes.length ≤ (run maxSP st steps).file.size := by
  induction steps generalizing st with
  | nil => exact h
  | cons x rest ih => obtain ⟨r, o⟩ := x; exact ih _ (writeStep_le maxSP st r o h)

theorem run_size_ge (maxSP : Nat) (st : BlobSt) (steps : List (Record × Outcome)) :
    st.file.size ≤ (run maxSP st steps).file.size := by
  induction steps generalizing st with
  | nil => exact Nat.le_refl _
  | cons x rest ih =>
    obtain ⟨r, o⟩ := x
    have := ih (writeStep maxSP st r o).1
    rw [writeStep_size] at this
    exact Nat.le_trans (Nat.le_add_right _ _) this

theorem run_extends (maxSP : Nat) (st : BlobSt) (steps : List (Record × Outcome))
    (h : st.file.bytes.length ≤ st.file.size) :
    ∃ ext, (run maxSP st steps).file.bytes = st.file.bytes ++ ext := by
  induction steps generalizing st with
  | nil => exact ⟨[], (List.append_nil _).symm⟩
  | cons x rest ih =>
    obtain ⟨r, o⟩ := x
    obtain ⟨e1, h1⟩ := writeStep_extends maxSP st r o h
    obtain ⟨e2, h2⟩ := ih _ (writeStep_le maxSP st r o h)
    exact ⟨e1 ++ e2, by rw [run_cons, h2, h1, List.append_assoc]⟩

theorem run_onDisk (maxSP : Nat) (st : BlobSt) (steps : List (Record × Outcome)) :
    (run maxSP st steps).onDisk = st.onDisk := by
  induction steps generalizing st with
  | nil => rfl
  | cons x rest ih => obtain ⟨r, o⟩ := x; rw [run_cons, ih, writeStep_onDisk]

theorem run_idxFile (maxSP : Nat) (st : BlobSt) (steps : List (Record × Outcome)) :
    (run maxSP st steps).idxFile = st.idxFile := by
  induction steps generalizing st with
  | nil => rfl
  | cons x rest ih => obtain ⟨r, o⟩ := x; rw [run_cons, ih, writeStep_idxFile]

/-- the index after a run: what it held, then exactly the entries of the acknowledged steps, in order -/
theorem run_index (maxSP : Nat) (st : BlobSt) (steps : List (Record × Outcome)) :
    (run maxSP st steps).index = st.index ++ (acked maxSP st steps).map (entryOf maxSP) := by
  induction steps generalizing st with
  | nil => simp [run, acked]
  | cons x rest ih =>
    obtain ⟨r, o⟩ := x
    rw [run_cons, ih, writeStep_index]
    simp only [acked]
    cases (writeStep maxSP st r o).2
    · simp
    · simp [entryOf]

/-- an acknowledged step is an `ok` step -/
theorem acks_eq (maxSP : Nat) (st : BlobSt) (steps : List (Record × Outcome)) (hd : st.onDisk = false) :
    acks maxSP st steps = steps.map (fun s => decide (s.2 = .ok)) := by
  induction steps generalizing st with
  | nil => rfl
  | cons x rest ih =>
    obtain ⟨r, o⟩ := x
    simp only [acks, List.map_cons]
    rw [ih _ (by rw [writeStep_onDisk]; exact hd), writeStep_ack, hd]
    simp

/-- the ranges of the acknowledged records: inside `[size at the start, size at the end)`,
    in increasing order, pairwise disjoint -/
theorem acked_ranges (maxSP : Nat) (st : BlobSt) (steps : List (Record × Outcome)) :
    (∀ x ∈ acked maxSP st steps, st.file.size ≤ x.2 ∧ x.2 + recLen x.1 ≤ (run maxSP st steps).file.size) ∧
    (acked maxSP st steps).Pairwise (fun a b => a.2 + recLen a.1 ≤ b.2) := by
  induction steps generalizing st with
  | nil => simp [acked]
  | cons x rest ih =>
    obtain ⟨r, o⟩ := x
    obtain ⟨ih1, ih2⟩ := ih (writeStep maxSP st r o).1
    have hsz := writeStep_size maxSP st r o
    have hge := run_size_ge maxSP (writeStep maxSP st r o).1 rest
    rw [hsz] at ih1 hge
    simp only [acked, run_cons]
    constructor
    · intro y hy
      rcases List.mem_append.mp hy with hy | hy
      · split at hy
        · rw [List.mem_singleton] at hy; subst hy; exact ⟨Nat.le_refl _, hge⟩
        · cases hy
      · have := ih1 y hy; omega
    · rw [List.pairwise_append]
      refine ⟨by split <;> simp, ih2, ?_⟩
      intro a ha b hb
      split at ha
      · rw [List.mem_singleton] at ha; subst ha; exact (ih1 b hb).1
      · cases ha

/-! ### acknowledged records stay readable -/

theorem recLen_pos (r : Record) : 0 < recLen r := by unfold recLen; omega

theorem writeStep_ok_bytes (maxSP : Nat) (st : BlobSt) (r : Record)
    (h : st.file.bytes.length ≤ st.file.size) :
    (writeStep maxSP st r .ok).1.file.bytes =
      st.file.bytes ++ List.replicate (st.file.size - st.file.bytes.length) 0 ++ r.image st.file.size := by
  rw [writeStep_bytes maxSP st r .ok h]
  have := recLen_pos r
  have hc : cut maxSP r .ok = recLen r := rfl
  rw [hc, if_neg (by omega), ← image_length_recLen r st.file.size, List.take_length]

theorem writeStep_ok_loads {klen : Nat} (maxSP : Nat) (st : BlobSt) (r : Record)
    (h : st.file.bytes.length ≤ st.file.size) (hwf : r.WF klen) (hm : (serMeta r.mt).length < 2 ^ 64) :
    entryLoad (writeStep maxSP st r .ok).1.file.bytes (writtenHeader r st.file.size maxSP) =
      .ok (serMeta r.mt, r.data) := by
  rw [writeStep_ok_bytes maxSP st r h, writtenHeader_eq]
  have := entryLoad_image (st.file.bytes ++ List.replicate (st.file.size - st.file.bytes.length) 0) [] r hwf
    st.file.size (by simp only [List.length_append, List.length_replicate]; omega) hm
  rw [List.append_nil] at this
  exact this

theorem acked_loads {klen : Nat} (maxSP : Nat) (st : BlobSt) (steps : List (Record × Outcome))
    (h : st.file.bytes.length ≤ st.file.size)
    (hwf : ∀ s ∈ steps, s.1.WF klen ∧ (serMeta s.1.mt).length < 2 ^ 64) :
    ∀ x ∈ acked maxSP st steps,
      entryLoad (run maxSP st steps).file.bytes (writtenHeader x.1 x.2 maxSP) = .ok (serMeta x.1.mt, x.1.data) := by
  induction steps generalizing st with
  | nil => intro x hx; cases hx
  | cons s rest ih =>
    obtain ⟨r, o⟩ := s
    intro x hx
    have hle := writeStep_le maxSP st r o h
    simp only [acked] at hx
    rw [run_cons]
    rcases List.mem_append.mp hx with hx | hx
    · split at hx
      · next hack =>
        rw [List.mem_singleton] at hx; subst hx
        have ho : o = .ok := by
          rw [writeStep_ack] at hack
          simp only [Bool.and_eq_true, decide_eq_true_eq] at hack
          exact hack.1
        subst ho
        obtain ⟨ext, hext⟩ := run_extends maxSP _ rest hle
        rw [hext]
        obtain ⟨hw, hm⟩ := hwf (r, .ok) (List.mem_cons_self ..)
        exact entryLoad_append_right (writeStep_ok_loads maxSP st r h hw hm) ext
      · cases hx
    · exact ih _ hle (fun s hs => hwf s (List.mem_cons_of_mem _ hs)) x hx

/-! ### what later steps add to the file -/

theorem ok_cut_ne (maxSP : Nat) (r : Record) : cut maxSP r .ok ≠ 0 := by
  have := recLen_pos r
  show recLen r ≠ 0
  omega

theorem run_silent (maxSP : Nat) (st : BlobSt) (steps : List (Record × Outcome))
    (h : st.file.bytes.length ≤ st.file.size) (hs : ∀ s ∈ steps, cut maxSP s.1 s.2 = 0) :
    (run maxSP st steps).file.bytes = st.file.bytes := by
  induction steps generalizing st with
  | nil => rfl
  | cons x rest ih =>
    obtain ⟨r, o⟩ := x
    have h0 : cut maxSP r o = 0 := hs (r, o) (List.mem_cons_self ..)
    have hb := writeStep_bytes maxSP st r o h
    rw [if_pos h0] at hb
    rw [run_cons, ih _ (writeStep_le maxSP st r o h) (fun s hs' => hs s (List.mem_cons_of_mem _ hs')), hb]

theorem acked_silent (maxSP : Nat) (st : BlobSt) (steps : List (Record × Outcome))
    (hs : ∀ s ∈ steps, cut maxSP s.1 s.2 = 0) : acked maxSP st steps = [] := by
  induction steps generalizing st with
  | nil => rfl
  | cons x rest ih =>
    obtain ⟨r, o⟩ := x
    have h0 : cut maxSP r o = 0 := hs (r, o) (List.mem_cons_self ..)
    have hno : o ≠ .ok := by intro h; subst h; exact ok_cut_ne maxSP r h0
    have hack : (writeStep maxSP st r o).2 = false := by
      rw [writeStep_ack]; simp [hno]
    simp only [acked, hack, Bool.false_eq_true, ↓reduceIte, List.nil_append]
    exact ih _ (fun s hs' => hs s (List.mem_cons_of_mem _ hs'))

theorem run_noisy (maxSP : Nat) (st : BlobSt) (steps : List (Record × Outcome))
    (h : st.file.bytes.length ≤ st.file.size) (hs : ∃ s ∈ steps, cut maxSP s.1 s.2 ≠ 0) :
    ∃ k t, (run maxSP st steps).file.bytes = st.file.bytes ++ List.replicate k 0 ++ t ∧
      st.file.size ≤ st.file.bytes.length + k ∧ t ≠ [] := by
  induction steps generalizing st with
  | nil => obtain ⟨s, hs, _⟩ := hs; cases hs
  | cons x rest ih =>
    obtain ⟨r, o⟩ := x
    have hle := writeStep_le maxSP st r o h
    have hb := writeStep_bytes maxSP st r o h
    have hsz := writeStep_size maxSP st r o
    by_cases h0 : cut maxSP r o = 0
    · rw [if_pos h0] at hb
      have hs' : ∃ s ∈ rest, cut maxSP s.1 s.2 ≠ 0 := by
        obtain ⟨s, hm, hc⟩ := hs
        rcases List.mem_cons.mp hm with rfl | hm
        · exact absurd h0 hc
        · exact ⟨s, hm, hc⟩
      obtain ⟨k, t, h1, h2, h3⟩ := ih _ hle hs'
      rw [hb] at h1 h2
      rw [hsz] at h2
      exact ⟨k, t, by rw [run_cons, h1], by omega, h3⟩
    · rw [if_neg h0] at hb
      obtain ⟨ext, hext⟩ := run_extends maxSP _ rest hle
      refine ⟨st.file.size - st.file.bytes.length, (r.image st.file.size).take (cut maxSP r o) ++ ext, ?_, by omega, ?_⟩
      · rw [run_cons, hext, hb, List.append_assoc]
      · intro hnil
        have := congrArg List.length hnil
        have hp := recLen_pos r
        simp only [List.length_append, List.length_take, image_length_recLen, List.length_nil] at this
        omega

/-! ### a run of `ok` steps -/

def allOk (steps : List (Record × Outcome)) : Prop := ∀ s ∈ steps, s.2 = .ok

theorem run_allOk (maxSP : Nat) (st : BlobSt) (steps : List (Record × Outcome))
    (h : st.file.bytes.length = st.file.size) (hd : st.onDisk = false) (hok : allOk steps) :
    (run maxSP st steps).file.bytes = appendRecords st.file.bytes (steps.map (·.1)) ∧
    (run maxSP st steps).file.size = (run maxSP st steps).file.bytes.length ∧
    (acked maxSP st steps).map (fun x => x.1.header.final x.2) =
      writtenHeaders st.file.bytes (steps.map (·.1)) ∧
    (acked maxSP st steps).map (·.1) = steps.map (·.1) := by
  induction steps generalizing st with
  | nil => exact ⟨rfl, h.symm, rfl, rfl⟩
  | cons x rest ih =>
    obtain ⟨r, o⟩ := x
    have ho : o = .ok := hok (r, o) (List.mem_cons_self ..)
    subst ho
    have hb := writeStep_ok_bytes maxSP st r (by omega)
    rw [h, Nat.sub_self, List.replicate_zero, List.append_nil, ← h] at hb
    have hb' : (writeStep maxSP st r .ok).1.file.bytes = appendRecord st.file.bytes r := by
      rw [hb, appendRecord_eq]
    have hsz := writeStep_size maxSP st r .ok
    have hack : (writeStep maxSP st r .ok).2 = true := by rw [writeStep_ack, hd]; rfl
    have hlen : (writeStep maxSP st r .ok).1.file.bytes.length = (writeStep maxSP st r .ok).1.file.size := by
      rw [hsz, hb, List.length_append, image_length_recLen, h]
    obtain ⟨i1, i2, i3, i4⟩ := ih (writeStep maxSP st r .ok).1 hlen (by rw [writeStep_onDisk]; exact hd)
      (fun s hs => hok s (List.mem_cons_of_mem _ hs))
    refine ⟨?_, i2, ?_, ?_⟩
    · rw [run_cons, i1, hb']; rfl
    · simp only [acked, hack, ↓reduceIte, List.map_cons, List.singleton_append, writtenHeaders, i3, hb',
        writtenHeader_eq, h]
    · simp only [acked, hack, ↓reduceIte, List.map_cons, List.singleton_append, i4]


/-! ### parsing a zero-filled hole -/

theorem takeN_replicate (k n : Nat) (h : k ≤ n) :
    takeN k (List.replicate n (0 : UInt8)) = some (List.replicate k 0, List.replicate (n - k) 0) := by
  unfold takeN
  rw [if_neg (by simp; omega)]
  simp [List.take_replicate, List.drop_replicate, Nat.min_eq_left h]

theorem fromLe_zeros (k : Nat) : fromLe (List.replicate k (0 : UInt8)) = 0 := by
  induction k with
  | zero => rfl
  | succ k ih => simp [List.replicate_succ, fromLe, ih]

theorem deserHeader_zeros (n : Nat) (h : 57 ≤ n) :
    ∃ hd, deserHeader (List.replicate n 0) = some hd ∧ hd.magicByte = 0 := by
  unfold deserHeader deserVec
  rw [takeN_replicate 8 n (by omega)]
  simp only
  rw [takeN_replicate 8 _ (by omega)]
  simp only [fromLe_zeros]
  rw [takeN_replicate 0 _ (by omega)]
  simp only
  rw [takeN_replicate 8 _ (by omega)]
  simp only
  rw [takeN_replicate 8 _ (by omega)]
  simp only
  rw [takeN_replicate 1 _ (by omega)]
  simp only
  rw [takeN_replicate 8 _ (by omega)]
  simp only
  rw [takeN_replicate 8 _ (by omega)]
  simp only
  rw [takeN_replicate 4 _ (by omega)]
  simp only
  rw [takeN_replicate 4 _ (by omega)]
  exact ⟨_, rfl, rfl⟩

/-! ### the start-up scan at the first damaged region -/

theorem openBlob_quarantine_of_load_error (klen : Nat) (v : Bool) (rest : List UInt8) (e : ScanErr)
    (hr : rest ≠ []) (h : rawRecordsLoad klen v (serBlobHeader ++ rest) = .error e) :
    openBlob klen v (serBlobHeader ++ rest) = .quarantine := by
  rw [openBlob_of_load klen v rest hr, h]
  have hne : e ≠ .fuel := by
    intro he; subst he; exact rawRecordsLoad_ne_fuel klen v _ h
  cases e with
  | load l => cases l <;> rfl
  | blobKeySize => rfl
  | fuel => exact absurd rfl hne

/-- the scan runs over the intact records `Rs` and then hits whatever `readCurrentRecord` reports at
    the first position after them -/
theorem scan_stops {klen : Nat} (v : Bool) (Rs : List Record) (X f : List UInt8)
    (hf : f = serBlobHeader ++ (tailOf 20 Rs ++ X)) (hX : X ≠ []) (hg : GoodRecs klen Rs)
    (hlen : f.length < 2 ^ 64) (e : ScanErr)
    (hstop : readCurrentRecord v f (57 + klen) (20 + (tailOf 20 Rs).length) = .error e) :
    ∃ e', rawRecordsLoad klen v f = .error e' := by
  have hXl : 0 < X.length := List.length_pos_iff.mpr hX
  have hfl : f.length = 20 + (tailOf 20 Rs).length + X.length := by
    rw [hf]; simp only [List.length_append, serBlobHeader_length]; omega
  unfold rawRecordsLoad rawRecordsScan
  cases hst : rawStart klen f with
  | error e0 => exact ⟨e0, rfl⟩
  | ok hsz =>
    have hh := rawStart_ok hst
    subst hh
    simp only
    have hge := tailOf_length_ge 20 Rs
    obtain ⟨k', hk'⟩ : ∃ k', f.length = Rs.length + (k' + 1) := ⟨f.length - Rs.length - 1, by omega⟩
    have hloop := rawLoop_tail v (klen := klen) f Rs serBlobHeader X (k' + 1)
      (by rw [serBlobHeader_length]; exact hf) hlen hg
    rw [serBlobHeader_length, ← hk'] at hloop
    rw [show blobHeaderSize = 20 from rfl, hloop, rawLoop, if_pos (by omega), hstop]
    exact ⟨e, rfl⟩

theorem stop_quarantine {klen : Nat} (v : Bool) (Rs : List Record) (X f : List UInt8)
    (hf : f = serBlobHeader ++ (tailOf 20 Rs ++ X)) (hX : X ≠ []) (hg : GoodRecs klen Rs)
    (hlen : f.length < 2 ^ 64) (e : ScanErr)
    (hstop : readCurrentRecord v f (57 + klen) (20 + (tailOf 20 Rs).length) = .error e) :
    openBlob klen v f = .quarantine := by
  obtain ⟨e', he'⟩ := scan_stops v Rs X f hf hX hg hlen e hstop
  rw [hf] at he' ⊢
  exact openBlob_quarantine_of_load_error klen v _ e'
    (by intro h; exact hX (List.append_eq_nil_iff.mp h).2) he'

/-- a hole: at least a header's worth of zeros → the parsed header has magic byte 0 -/
theorem stop_zeros (v : Bool) (P t : List UInt8) (k klen : Nat) (hk : 57 + klen ≤ k) :
    readCurrentRecord v (P ++ (List.replicate k 0 ++ t)) (57 + klen) P.length =
      .error (.load .recordMagicByte) := by
  have hsplit : List.replicate k (0 : UInt8) =
      List.replicate (57 + klen) 0 ++ List.replicate (k - (57 + klen)) 0 := by
    rw [List.replicate_append_replicate]; congr 1; omega
  have hrd : readExactAt (P ++ (List.replicate k 0 ++ t)) (57 + klen) P.length =
      some (List.replicate (57 + klen) 0) := by
    rw [hsplit, List.append_assoc]
    exact readExactAt_append rfl (List.length_replicate ..)
  obtain ⟨hd, hp, hm⟩ := deserHeader_zeros (57 + klen) (by omega)
  unfold readCurrentRecord
  rw [hrd]
  simp only [hp]
  have : headerValidate hd = .error .recordMagicByte := by
    unfold headerValidate
    rw [if_pos (by rw [hm]; decide)]
  rw [this]

/-- the last bytes of the file are a cut header -/
theorem stop_torn_header (v : Bool) (P : List UInt8) (R : Record) (off n klen : Nat) (hoff : P.length = off)
    (hn : n < 57 + klen) :
    readCurrentRecord v (P ++ (R.image off).take n) (57 + klen) off = .error (.load .bincode) := by
  unfold readCurrentRecord
  rw [readExactAt_none_of_short (by simp only [List.length_append, List.length_take]; omega) (by omega)]

/-- a header's worth of bytes that does not parse to a valid header -/
theorem stop_bad_header (v : Bool) (P buf rest : List UInt8) (klen : Nat) (hb : buf.length = 57 + klen)
    (hbad : ∀ h, deserHeader buf = some h → headerValidate h ≠ .ok ()) :
    ∃ e, readCurrentRecord v (P ++ (buf ++ rest)) (57 + klen) P.length = .error (.load e) := by
  unfold readCurrentRecord
  rw [readExactAt_append rfl hb]
  cases hd : deserHeader buf with
  | none => exact ⟨.bincode, by simp only [hd]⟩
  | some h =>
    cases hv : headerValidate h with
    | error e => exact ⟨e, by simp only [hd, hv]⟩
    | ok u => exact absurd hv (hbad h hd)

/-- FINDING E8, one step of the scan: a record image cut after its header is accepted by the scan
    without data validation, whatever follows in the file -/
theorem torn_header_accepted {klen : Nat} (P Y : List UInt8) (R : Record) (hwf : R.WF klen) (off n : Nat)
    (hoff : P.length = off) (hr : (R.header.final off).InRange) (hn : 57 + klen ≤ n) :
    readCurrentRecord false (P ++ ((R.image off).take n ++ Y)) (57 + klen) off =
      .ok (R.header.final off, none, off + recLen R) := by
  have hkl : (R.header.final off).key.length = klen := hwf.key
  have hms : (R.header.final off).metaSize = (serMeta R.mt).length := hwf.msize
  have hds : (R.header.final off).dataSize = R.data.length := hwf.dsize
  have hX : (R.image off).take n =
      serHeader (R.header.final off) ++ (serMeta R.mt ++ R.data).take (n - (57 + klen)) := by
    rw [image_eq, List.take_append, serHeader_length, hkl,
      List.take_of_length_le (by rw [serHeader_length, hkl]; omega)]
  have hhdr : readExactAt (P ++ ((R.image off).take n ++ Y)) (57 + klen) off =
      some (serHeader (R.header.final off)) := by
    rw [hX, List.append_assoc]; exact readExactAt_append hoff (by rw [serHeader_length, hkl])
  have hd := deserHeader_serHeader (R.header.final off) [] hr
  rw [List.append_nil] at hd
  unfold readCurrentRecord
  rw [hhdr]
  simp only [hd, headerValidate_final _ _ hwf.magic, hms, hds, Bool.false_eq_true, ↓reduceIte]
  unfold recLen
  rw [hwf.key]
  simp only [Nat.add_assoc]


/-! ### a torn tail record (E8) -/

theorem tailOf_snoc (off : Nat) (Rs : List Record) (R : Record) :
    tailOf off (Rs ++ [R]) = tailOf off Rs ++ R.image (off + (tailOf off Rs).length) := by
  rw [tailOf_append]; simp [tailOf]

theorem scanOf_snoc (off : Nat) (Rs : List Record) (R : Record) :
    scanOf off (Rs ++ [R]) = scanOf off Rs ++
      [(off + (tailOf off Rs).length, R.header.final (off + (tailOf off Rs).length))] := by
  rw [scanOf_append]; simp [scanOf]

/-- `RawRecords::start` on a blob whose first record image is complete up to its key -/
theorem rawStart_first {klen : Nat} (Rs : List Record) (R : Record) (n : Nat)
    (hg : GoodRecs klen (Rs ++ [R])) (hk : klen < 2 ^ 64) (hn : 57 + klen ≤ n) :
    rawStart klen (serBlobHeader ++ (tailOf 20 Rs ++ (R.image (20 + (tailOf 20 Rs).length)).take n)) =
      .ok (57 + klen) := by
  cases Rs with
  | nil =>
    simp only [tailOf, List.nil_append, List.length_nil, Nat.add_zero]
    have hfull := rawStart_image R (hg R (by simp)).1 hk []
    have htake : serBlobHeader ++ (R.image 20).take n =
        (serBlobHeader ++ (R.image blobHeaderSize ++ [])).take (20 + n) := by
      have h20 : (serBlobHeader).length = 20 := serBlobHeader_length _
      rw [List.append_nil, List.take_append, h20,
        List.take_of_length_le (l := serBlobHeader) (by rw [h20]; omega),
        show 20 + n - 20 = n by omega]
      rfl
    rw [htake, rawStart_take _ _ (by omega), hfull]
  | cons R0 Rs' =>
    simp only [tailOf, List.append_assoc]
    exact rawStart_image R0 (hg R0 (by simp)).1 hk _

/-- FINDING E8, whole scan: the blob ends with a record image cut after its header (`n` bytes of it,
    `57 + klen ≤ n <` its length) -/
theorem rawRecordsLoad_torn_tail {klen : Nat} (v : Bool) (Rs : List Record) (R : Record) (n : Nat)
    (hg : GoodRecs klen (Rs ++ [R]))
    (hlen : 20 + (tailOf 20 Rs).length + recLen R < 2 ^ 64)
    (hn1 : 57 + klen ≤ n) (hn2 : n < recLen R) :
    rawRecordsLoad klen v
        (serBlobHeader ++ (tailOf 20 Rs ++ (R.image (20 + (tailOf 20 Rs).length)).take n)) =
      if v = true ∧ R.data ≠ [] then .error (.load .bincode)
      else .ok (writtenHeaders serBlobHeader (Rs ++ [R])) := by
  have hgR := hg R (by simp)
  have hgRs : GoodRecs klen Rs := fun X hX => hg X (List.mem_append_left _ hX)
  have hwf := hgR.1
  generalize hoff : 20 + (tailOf 20 Rs).length = off at hlen ⊢
  have him := image_length_recLen R off
  have hkey : recLen R = 57 + klen + (serMeta R.mt).length + R.data.length := by
    unfold recLen; rw [hwf.key]
  have hr : (R.header.final off).InRange := final_inRange hwf off hgR.2 (by rw [him]; exact hlen)
  have hk : klen < 2 ^ 64 := by omega
  have hst := rawStart_first Rs R n hg hk hn1
  rw [hoff] at hst
  have hXl : ((R.image off).take n).length = n := by rw [List.length_take, him]; omega
  generalize hf : serBlobHeader ++ (tailOf 20 Rs ++ (R.image off).take n) = f at hst ⊢
  have hfl : f.length = off + n := by
    rw [← hf]; simp only [List.length_append, serBlobHeader_length, hXl]; omega
  unfold rawRecordsLoad rawRecordsScan
  rw [hst]
  simp only
  have hge := tailOf_length_ge 20 Rs
  obtain ⟨k', hk'⟩ : ∃ k', f.length = Rs.length + (k' + 1) := ⟨f.length - Rs.length - 1, by omega⟩
  have hloop := rawLoop_tail v (klen := klen) f Rs serBlobHeader ((R.image off).take n) (k' + 1)
    (by rw [serBlobHeader_length]; exact hf.symm) (by omega) hgRs
  rw [serBlobHeader_length, ← hk', hoff] at hloop
  have hbody := rawLoop_torn_body v (serBlobHeader ++ tailOf 20 Rs) R hwf off n k'
    (by rw [List.length_append, serBlobHeader_length]; exact hoff) hr hn1 (by rw [him]; exact hn2)
  rw [List.append_assoc, hf] at hbody
  rw [show blobHeaderSize = 20 from rfl, hloop, hbody]
  by_cases hvd : v = true ∧ R.data ≠ []
  · rw [if_pos hvd, if_pos hvd]
  · rw [if_neg hvd, if_neg hvd]
    simp only
    rw [writtenHeaders_eq, serBlobHeader_length, scanOf_snoc, hoff]


/-! ### the first failing step -/

theorem fresh_le : fresh.file.bytes.length = fresh.file.size := rfl

theorem appendRecords_length (p : List UInt8) (Rs : List Record) :
    (appendRecords p Rs).length = p.length + (tailOf p.length Rs).length := by
  rw [appendRecords_eq, List.length_append]

/-- start-up on an intact blob: exactly the headers that were pushed -/
theorem openBlob_appendRecords {klen : Nat} (v : Bool) (Rs : List Record) (hg : GoodRecs klen Rs)
    (hlen : (appendRecords serBlobHeader Rs).length < 2 ^ 64) :
    openBlob klen v (appendRecords serBlobHeader Rs) = .ok (writtenHeaders serBlobHeader Rs) := by
  cases Rs with
  | nil => exact openBlob_header_only klen v
  | cons R Rs' =>
    have hload := rawRecordsLoad_appendRecords v klen (R :: Rs') (by simp) hlen hg
    have hne : tailOf 20 (R :: Rs') ≠ [] := by
      intro h
      have := tailOf_length_ge 20 (R :: Rs')
      rw [h] at this; simp at this
    rw [appendRecords_eq, serBlobHeader_length] at hload ⊢
    rw [openBlob_of_load klen v _ hne, hload]

/-- the state after a run of `ok` steps from a new blob followed by one step with any outcome -/
theorem run_first_fault (maxSP : Nat) (oks : List (Record × Outcome)) (R : Record) (o : Outcome)
    (hok : allOk oks) :
    let Rs := oks.map (·.1)
    let off := 20 + (tailOf 20 Rs).length
    let st := run maxSP fresh (oks ++ [(R, o)])
    (run maxSP fresh oks).file.size = off ∧
    st.file.bytes = serBlobHeader ++ (tailOf 20 Rs ++ (R.image off).take (cut maxSP R o)) ∧
    st.file.size = off + recLen R ∧ st.file.bytes.length ≤ st.file.size ∧
    ackedHeaders maxSP fresh oks = writtenHeaders serBlobHeader Rs := by
  intro Rs off st
  obtain ⟨h1, h2, h3, _⟩ := run_allOk maxSP fresh oks fresh_le rfl hok
  have hb0 : (run maxSP fresh oks).file.bytes = serBlobHeader ++ tailOf 20 Rs := by
    rw [h1]; show appendRecords serBlobHeader Rs = _
    rw [appendRecords_eq, serBlobHeader_length]
  have hs0 : (run maxSP fresh oks).file.size = off := by
    rw [h2, hb0, List.length_append, serBlobHeader_length]
  have hle0 : (run maxSP fresh oks).file.bytes.length ≤ (run maxSP fresh oks).file.size := by omega
  have hst : st = (writeStep maxSP (run maxSP fresh oks) R o).1 := by
    show run maxSP fresh (oks ++ [(R, o)]) = _
    rw [run_append]; rfl
  refine ⟨hs0, ?_, ?_, ?_, ?_⟩
  · rw [hst, writeStep_bytes maxSP _ R o hle0, hs0, hb0]
    by_cases hc : cut maxSP R o = 0
    · rw [if_pos hc, hc, List.take_zero, List.append_nil]
    · rw [if_neg hc]
      have : off - (serBlobHeader ++ tailOf 20 Rs).length = 0 := by
        rw [List.length_append, serBlobHeader_length]; omega
      rw [this, List.replicate_zero, List.append_nil, List.append_assoc]
  · rw [hst, writeStep_size, hs0]
  · rw [hst]; exact writeStep_le maxSP _ R o hle0
  · unfold ackedHeaders
    refine Eq.trans ?_ h3
    apply List.map_congr_left
    intro x _
    exact writtenHeader_eq ..


theorem ackedHeaders_allOk (maxSP : Nat) (steps : List (Record × Outcome)) (hok : allOk steps) :
    ackedHeaders maxSP fresh steps = writtenHeaders serBlobHeader (steps.map (·.1)) := by
  obtain ⟨_, _, h3, _⟩ := run_allOk maxSP fresh steps fresh_le rfl hok
  unfold ackedHeaders
  refine Eq.trans ?_ h3
  apply List.map_congr_left
  intro x _
  exact writtenHeader_eq ..

theorem index_headers (maxSP : Nat) (steps : List (Record × Outcome)) :
    (run maxSP fresh steps).index.map (·.1) = ackedHeaders maxSP fresh steps := by
  rw [run_index]
  simp [fresh, ackedHeaders, entryOf, List.map_map]

/-- the acknowledged steps of `oks ++ (R, o) :: later` when `o` is not `ok` -/
theorem acked_first_fault (maxSP : Nat) (oks later : List (Record × Outcome)) (R : Record) (o : Outcome)
    (ho : o ≠ .ok) :
    acked maxSP fresh (oks ++ (R, o) :: later) =
      acked maxSP fresh oks ++ acked maxSP (run maxSP fresh (oks ++ [(R, o)])) later := by
  rw [acked_append, run_append]
  have hack : (writeStep maxSP (run maxSP fresh oks) R o).2 = false := by
    rw [writeStep_ack]; simp [ho]
  simp only [acked, hack, Bool.false_eq_true, ↓reduceIte, List.nil_append, run]

/-- the file after `oks ++ (R, o) :: later`: the intact records, the first `cut` bytes of `R`'s image,
    and then nothing (no later step wrote anything) or a zero-filled hole reaching at least to the end
    of `R`'s reservation, followed by more bytes -/
theorem first_fault_file (maxSP : Nat) (oks later : List (Record × Outcome)) (R : Record) (o : Outcome)
    (hok : allOk oks) :
    let Rs := oks.map (·.1)
    let off := 20 + (tailOf 20 Rs).length
    let c := cut maxSP R o
    let f := (run maxSP fresh (oks ++ (R, o) :: later)).file.bytes
    ((∀ s ∈ later, cut maxSP s.1 s.2 = 0) →
      f = serBlobHeader ++ (tailOf 20 Rs ++ (R.image off).take c)) ∧
    ((∃ s ∈ later, cut maxSP s.1 s.2 ≠ 0) → ∃ k t,
      f = serBlobHeader ++ (tailOf 20 Rs ++ ((R.image off).take c ++ (List.replicate k 0 ++ t))) ∧
      recLen R ≤ min c (recLen R) + k ∧ t ≠ []) := by
  intro Rs off c f
  obtain ⟨_, hb, hs, hle, _⟩ := run_first_fault maxSP oks R o hok
  have hf : f = (run maxSP (run maxSP fresh (oks ++ [(R, o)])) later).file.bytes := by
    show (run maxSP fresh (oks ++ (R, o) :: later)).file.bytes = _
    rw [show oks ++ (R, o) :: later = (oks ++ [(R, o)]) ++ later by simp, run_append]
  constructor
  · intro hsil
    rw [hf, run_silent maxSP _ later hle hsil, hb]
  · intro hnoisy
    obtain ⟨k, t, h1, h2, h3⟩ := run_noisy maxSP _ later hle hnoisy
    refine ⟨k, t, ?_, ?_, h3⟩
    · rw [hf, h1, hb]; simp only [List.append_assoc]; rfl
    · rw [hs, hb] at h2
      simp only [List.length_append, serBlobHeader_length, List.length_take, image_length_recLen] at h2
      omega


end Pearl.Fault
