import Pearl.Model.FilterDriver
import Pearl.Proofs.ContainerLemmas
/-
The one arena-level operation `FilterDriver` adds to `Container.lean` - access to a child in place
(`get_child_mut` in `restore_active_blob`, `iter_mut` in `delete_in_closed` / `try_dump_old_blob_indexes`) -
keeps the container invariant of C10 for the same ghost list: the arena is not touched and the `children` vector
keeps its length.
-/
namespace Pearl.FilterDriver
open Pearl

theorem modifyChild_refines (ops : FilterOps Combined) (ok : Combined → Prop) (c : Container Combined FBlob)
    (i : Nat) (f : FBlob → FBlob) : Container.Refines ops ok c (modifyChild c i f) := by
  unfold modifyChild
  exact Container.Refines.setChildren ops ok c _ (by simp)

theorem modifyChild_inv {ops : FilterOps Combined} {ok : Combined → Prop} {c : Container Combined FBlob}
    {g : List (Option Combined)} (hinv : Container.Inv ops ok c g) (i : Nat) (f : FBlob → FBlob) :
    Container.Inv ops ok (modifyChild c i f) g :=
  hinv.refine (modifyChild_refines ops ok c i f)

/-- the other children are not touched, the modified one keeps its parent -/
theorem modifyChild_getChild (c : Container Combined FBlob) (i j : Nat) (f : FBlob → FBlob) :
    (modifyChild c i f).getChild j =
      if i = j then (c.getChild j).map (fun lf => { lf with data := f lf.data }) else c.getChild j := by
  unfold modifyChild Container.getChild
  simp only [List.getElem?_modify]
  split
  · cases c.children[j]? with
    | none => rfl
    | some o => cases o <;> rfl
  · cases c.children[j]? <;> rfl

end Pearl.FilterDriver
