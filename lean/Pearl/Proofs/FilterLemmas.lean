import Pearl.Model.Filter
/-
Helper lemmas for C10 (bloom / range / combined filters, byte images).  Property theorems live in
`Pearl/Props/C10.lean`.
-/
namespace Pearl

/-! ## bits -/

theorem and_two_pow_eq (w j : Nat) : w &&& 2 ^ j = if w.testBit j then 2 ^ j else 0 := by
  apply Nat.eq_of_testBit_eq
  intro i
  by_cases hw : w.testBit j
  · simp only [hw, if_true, Nat.testBit_and, Nat.testBit_two_pow]
    by_cases hij : j = i
    · subst hij; simp [hw]
    · simp [hij]
  · simp only [hw, Nat.testBit_and, Nat.testBit_two_pow]
    by_cases hij : j = i
    · subst hij; simp [hw]
    · simp [hij]

/-- the Rust mask test `(w & (1 << j)) != 0` is `testBit` -/
theorem mask_test (w j : Nat) : (w &&& (1 <<< j) != 0) = w.testBit j := by
  rw [Nat.one_shiftLeft, and_two_pow_eq]
  by_cases hw : w.testBit j <;> simp [hw]

theorem getBitU8_eq (byte j : Nat) : getBitU8 byte (1 <<< j) = byte.testBit j := mask_test byte j

/-! ## little-endian images -/

theorem fle64_eq (n : Nat) : fle64 n = [n % 256, n / 256 % 256, n / 65536 % 256, n / 16777216 % 256,
    n / 4294967296 % 256, n / 1099511627776 % 256, n / 281474976710656 % 256, n / 72057594037927936 % 256] := by
  simp [fle64, List.range, List.range.loop, Nat.shiftRight_eq_div_pow]

@[simp] theorem fle64_length (n : Nat) : (fle64 n).length = 8 := by simp [fle64]

theorem unle_le64 (n : Nat) (h : n < 2 ^ 64) : unle (fle64 n) = n := by
  rw [fle64_eq]; simp only [unle]; omega

theorem fle64_getElem? (n p : Nat) : (fle64 n)[p]? = if p < 8 then some ((n >>> (8 * p)) % 256) else none := by
  unfold fle64
  rw [List.getElem?_map]
  by_cases h : p < 8
  · rw [List.getElem?_range h]; simp [h]
  · rw [List.getElem?_eq_none (by simp; omega)]; simp [h]

theorem wordsBytes_cons (w : Nat) (ws : List Nat) : wordsBytes (w :: ws) = fle64 w ++ wordsBytes ws := by
  simp [wordsBytes]

@[simp] theorem wordsBytes_length (ws : List Nat) : (wordsBytes ws).length = 8 * ws.length := by
  induction ws with
  | nil => simp [wordsBytes]
  | cons w ws ih => rw [wordsBytes_cons, List.length_append, ih, fle64_length, List.length_cons]; omega

/-- byte `p` of the image of a `Vec<u64>` is byte `p % 8` of word `p / 8` -/
theorem wordsBytes_getElem? (ws : List Nat) (p : Nat) :
    (wordsBytes ws)[p]? = (ws[p / 8]?).map (fun w => (w >>> (8 * (p % 8))) % 256) := by
  induction ws generalizing p with
  | nil => simp [wordsBytes]
  | cons w ws ih =>
    rw [wordsBytes_cons, List.getElem?_append, fle64_length]
    by_cases h : p < 8
    · have h0 : p / 8 = 0 := by omega
      have h1 : p % 8 = p := by omega
      rw [if_pos h, fle64_getElem?, if_pos h, h0, h1]; simp
    · have h0 : p / 8 = (p - 8) / 8 + 1 := by omega
      have h1 : (p - 8) % 8 = p % 8 := by omega
      simp [h, ih, h0, h1]

/-- the bit the file probe tests (byte `i >> 3` of the little-endian image, mask `1 << (i % 8)`) is the bit
    the in-memory test reads (word `i / 64`, mask `1 << (i % 64)`), for every `i` and every word list -/
theorem file_probe_bit (ws : List Nat) (i : Nat) :
    getBitU8 ((wordsBytes ws).getD (i >>> 3) 0) (1 <<< (i % 8))
      = ((ws.getD (i / 64) 0) &&& (1 <<< (i % 64)) != 0) := by
  rw [getBitU8_eq, mask_test, List.getD_eq_getElem?_getD, List.getD_eq_getElem?_getD, wordsBytes_getElem?,
    Nat.shiftRight_eq_div_pow]
  have h0 : i / 2 ^ 3 / 8 = i / 64 := by omega
  rw [h0]
  cases hw : ws[i / 64]? with
  | none => simp
  | some w =>
    have h256 : (256 : Nat) = 2 ^ 8 := by decide
    have h1 : i % 8 < 8 := by omega
    have h2 : 8 * (i / 2 ^ 3 % 8) + i % 8 = i % 64 := by omega
    simp only [Option.map_some, Option.getD_some]
    rw [h256, Nat.testBit_mod_two_pow, Nat.testBit_shiftRight, h2]
    simp [h1]

/-! ## `AtomicBitVec` -/

namespace ABV

/-- shape invariant of an `AtomicBitVec`: exactly `items_count(bits)` words, each a `u64` -/
def WF (v : ABV) : Prop := v.data.length = itemsCount v.bits ∧ ∀ w ∈ v.data, w < 2 ^ 64

theorem get_eq (v : ABV) (i : Nat) : v.get i = (v.data.getD (i / 64) 0).testBit (i % 64) := by
  simp only [get, offsetAndMask]; exact mask_test _ _

theorem offset_lt {bits i : Nat} (h : i < bits) : i / 64 < itemsCount bits := by
  unfold itemsCount; split <;> omega

@[simp] theorem set_bits (v : ABV) (i : Nat) : (v.set i).bits = v.bits := rfl

@[simp] theorem set_length (v : ABV) (i : Nat) : (v.set i).data.length = v.data.length := by
  simp [set, offsetAndMask]

theorem get_set_self (v : ABV) (i : Nat) (h : i / 64 < v.data.length) : (v.set i).get i = true := by
  rw [get_eq]
  simp only [set, offsetAndMask, List.getD_eq_getElem?_getD, List.getElem?_modify]
  rw [List.getElem?_eq_getElem h]
  simp [Nat.one_shiftLeft]

theorem get_set_of_get (v : ABV) (i j : Nat) (h : v.get j = true) : (v.set i).get j = true := by
  rw [get_eq] at h ⊢
  simp only [set, offsetAndMask, List.getD_eq_getElem?_getD, List.getElem?_modify] at h ⊢
  cases hw : v.data[j / 64]? with
  | none => rw [hw] at h; simp at h
  | some w =>
    rw [hw] at h
    by_cases hij : i / 64 = j / 64 <;> simp_all

theorem foldl_set_bits (is : List Nat) (v : ABV) : (is.foldl set v).bits = v.bits := by
  induction is generalizing v with
  | nil => rfl
  | cons i is ih => simp [List.foldl, ih]

theorem foldl_set_length (is : List Nat) (v : ABV) : (is.foldl set v).data.length = v.data.length := by
  induction is generalizing v with
  | nil => rfl
  | cons i is ih => simp [List.foldl, ih]

theorem get_foldl_set_of_get (is : List Nat) (v : ABV) (j : Nat) (h : v.get j = true) :
    (is.foldl set v).get j = true := by
  induction is generalizing v with
  | nil => exact h
  | cons i is ih => exact ih _ (get_set_of_get v i j h)

theorem get_foldl_set_mem (is : List Nat) (v : ABV) (i : Nat) (hi : i ∈ is)
    (hb : ∀ p ∈ is, p / 64 < v.data.length) : (is.foldl set v).get i = true := by
  induction is generalizing v with
  | nil => cases hi
  | cons a is ih =>
    simp only [List.foldl]
    rcases List.mem_cons.mp hi with rfl | hmem
    · exact get_foldl_set_of_get _ _ _ (get_set_self v i (hb i (List.mem_cons_self ..)))
    · exact ih (v.set a) hmem (fun p hp => by rw [set_length]; exact hb p (List.mem_cons_of_mem _ hp))

theorem set_WF (v : ABV) (i : Nat) (h : v.WF) : (v.set i).WF := by
  refine ⟨by rw [set_length, set_bits]; exact h.1, ?_⟩
  intro w hw
  simp only [set, offsetAndMask] at hw
  obtain ⟨j, hj, rfl⟩ := List.getElem_of_mem hw
  rw [List.getElem_modify]
  have hlt : v.data[j]'(by simpa using hj) < 2 ^ 64 := h.2 _ (List.getElem_mem _)
  split
  · apply Nat.or_lt_two_pow hlt
    rw [Nat.one_shiftLeft]
    exact Nat.pow_lt_pow_right (by decide) (by omega)
  · exact hlt

theorem foldl_set_WF (is : List Nat) (v : ABV) (h : v.WF) : (is.foldl set v).WF := by
  induction is generalizing v with
  | nil => exact h
  | cons i is ih => exact ih _ (set_WF v i h)

theorem new_WF (bits : Nat) : (new bits).WF := by
  refine ⟨by simp [new], ?_⟩
  intro w hw
  simp only [new, List.mem_replicate] at hw
  rw [hw.2]; exact Nat.two_pow_pos 64

theorem new_get (bits i : Nat) : (new bits).get i = false := by
  rw [get_eq]
  simp only [new, List.getD_eq_getElem?_getD, List.getElem?_replicate]
  split <;> simp

theorem orWith_get (v o r : ABV) (hl : v.data.length = o.data.length) (h : v.orWith o = some r) (i : Nat) :
    r.get i = (v.get i || o.get i) := by
  unfold orWith at h
  split at h
  · cases h
  · cases h
    simp only [get_eq, List.getD_eq_getElem?_getD, List.getElem?_zipWith]
    cases hv : v.data[i / 64]? with
    | none =>
      have : o.data[i / 64]? = none := by
        rw [List.getElem?_eq_none_iff] at hv ⊢; omega
      simp [this]
    | some a =>
      cases ho : o.data[i / 64]? with
      | none =>
        rw [List.getElem?_eq_none_iff] at ho
        have := (List.getElem?_eq_some_iff.mp hv).1
        omega
      | some b => simp

theorem orWith_WF (v o r : ABV) (hv : v.WF) (ho : o.WF) (h : v.orWith o = some r) : r.WF := by
  unfold orWith at h
  split at h
  · cases h
  · rename_i hb
    have hb' : v.bits = o.bits := by simpa using hb
    cases h
    refine ⟨?_, ?_⟩
    · simp only [List.length_zipWith]; rw [hv.1, ho.1, hb']; simp
    · intro w hw
      obtain ⟨j, hj, rfl⟩ := List.getElem_of_mem hw
      rw [List.getElem_zipWith]
      exact Nat.or_lt_two_pow (hv.2 _ (List.getElem_mem _)) (ho.2 _ (List.getElem_mem _))

theorem fromRawSlice_toRawVec (v : ABV) (h : v.WF) : fromRawSlice v.toRawVec v.bits = some v := by
  unfold fromRawSlice toRawVec
  by_cases hb : v.bits = 0
  · have hl : v.data.length = 0 := by rw [h.1, hb]; rfl
    have hd : v.data = [] := List.eq_nil_of_length_eq_zero hl
    cases v with
    | mk d b => simp_all [itemsCount]
  · have : (v.bits == 0) = false := by simpa using hb
    simp only [this]
    have hl := h.1
    cases v with
    | mk d b =>
      simp only at hl ⊢
      rw [← hl]; simp

theorem fromRawSlice_WF (raw : List Nat) (bits : Nat) (v : ABV) (hr : ∀ w ∈ raw, w < 2 ^ 64)
    (h : fromRawSlice raw bits = some v) : v.WF ∧ v.bits = bits := by
  simp only [fromRawSlice] at h
  split at h
  · cases h
  · cases h
    refine ⟨⟨?_, ?_⟩, rfl⟩
    · simp only [List.length_take]; omega
    · intro w hw; exact hr w (List.mem_of_mem_take hw)

end ABV

/-! ## Bloom, in memory -/

namespace Bloom

/-- invariant of a `Bloom` value: the bit vector (when resident) is well-shaped and as long as `bits_count`;
    the hasher count is the configured one -/
def WF (b : Bloom) : Prop :=
  (∀ v, b.inner = some v → v.WF ∧ v.bits = b.bits) ∧ b.k = b.cfg.hashersCount

theorem positions_lt {h : Nat → Key → Nat} {k len : Nat} {key : Key} (hl : 0 < len) {p : Nat}
    (hp : p ∈ positions h k len key) : p < len := by
  simp only [positions, List.mem_map] at hp
  obtain ⟨j, _, rfl⟩ := hp
  exact Nat.mod_lt _ hl

theorem new_WF (cfg : BloomConfig) (bits : Nat) : (new cfg bits).WF :=
  ⟨fun v hv => by cases hv; exact ⟨ABV.new_WF bits, rfl⟩, rfl⟩

theorem empty_WF : empty.WF :=
  ⟨fun v hv => by cases hv; exact ⟨ABV.new_WF 0, rfl⟩, rfl⟩

theorem add_WF (h : Nat → Key → Nat) (b : Bloom) (key : Key) (hb : b.WF) : (b.add h key).WF := by
  unfold add
  split
  · exact hb
  · rename_i v hv
    split
    · exact hb
    · refine ⟨?_, hb.2⟩
      intro v' hv'
      cases hv'
      exact ⟨ABV.foldl_set_WF _ _ (hb.1 v hv).1, by rw [ABV.foldl_set_bits]; exact (hb.1 v hv).2⟩

theorem clear_WF (b : Bloom) (hb : b.WF) : b.clear.WF :=
  ⟨fun v hv => by cases hv; exact ⟨ABV.new_WF _, rfl⟩, hb.2⟩

theorem offload_WF (b : Bloom) (hb : b.WF) : b.offload.1.WF :=
  ⟨fun v hv => (by cases hv), hb.2⟩

/-- the answer is "not contains" exactly when the vector is resident, non-empty and a probed bit is clear -/
theorem containsMem_eq_notContains (h : Nat → Key → Nat) (b : Bloom) (key : Key) :
    b.containsMem h key = some .notContains ↔
      ∃ v, b.inner = some v ∧ v.bits ≠ 0 ∧ ∃ p ∈ positions h b.k v.bits key, v.get p = false := by
  unfold containsMem
  cases hi : b.inner with
  | none => simp
  | some v =>
    by_cases hz : v.bits = 0
    · simp [hz]
    · have : (v.bits == 0) = false := by simpa using hz
      simp only [this, Bool.false_eq_true, if_false]
      by_cases ha : (positions h b.k v.bits key).all v.get = true
      · simp only [ha, if_true]
        constructor
        · intro hc; cases hc
        · rintro ⟨v', hv', _, p, hp, hg⟩
          cases hv'
          rw [List.all_eq_true] at ha
          rw [ha p hp] at hg; cases hg
      · simp only [ha]
        constructor
        · intro _
          refine ⟨v, rfl, hz, ?_⟩
          have : ¬ ∀ p ∈ positions h b.k v.bits key, v.get p = true := by
            rw [← List.all_eq_true]; exact ha
          false_or_by_contra
          rename_i hne
          apply this
          intro p hp
          cases hg : v.get p with
          | true => rfl
          | false => exact absurd ⟨p, hp, hg⟩ hne
        · intro _; rfl

theorem add_contains (h : Nat → Key → Nat) (b : Bloom) (key : Key) (hb : b.WF) :
    (b.add h key).containsMem h key ≠ some .notContains := by
  rw [Ne, containsMem_eq_notContains]
  rintro ⟨v', hv', hz, p, hp, hg⟩
  unfold add at hv' hp
  cases hi : b.inner with
  | none => simp [hi] at hv'
  | some v =>
    simp only [hi] at hv' hp
    by_cases hvz : v.bits = 0
    · simp only [hvz, beq_self_eq_true, if_true] at hv'
      rw [hi] at hv'; cases hv'; exact hz hvz
    · have hf : (v.bits == 0) = false := by simpa using hvz
      simp only [hf, Bool.false_eq_true, if_false] at hv' hp
      cases hv'
      rw [ABV.foldl_set_bits] at hp
      have := ABV.get_foldl_set_mem (positions h b.k v.bits key) v p hp (fun q hq => by
        rw [(hb.1 v hi).1.1]
        exact ABV.offset_lt (positions_lt (Nat.pos_of_ne_zero hvz) hq))
      rw [this] at hg; cases hg

theorem add_mono (h : Nat → Key → Nat) (b : Bloom) (x y : Key)
    (hx : b.containsMem h x ≠ some .notContains) :
    (b.add h y).containsMem h x ≠ some .notContains := by
  rw [Ne, containsMem_eq_notContains] at hx ⊢
  rintro ⟨v', hv', hz, p, hp, hg⟩
  apply hx
  unfold add at hv' hp
  cases hi : b.inner with
  | none => simp [hi] at hv'
  | some v =>
    simp only [hi] at hv' hp
    by_cases hvz : v.bits = 0
    · simp only [hvz, beq_self_eq_true, if_true] at hv'
      rw [hi] at hv'; cases hv'; exact absurd hvz hz
    · have hf : (v.bits == 0) = false := by simpa using hvz
      simp only [hf, Bool.false_eq_true, if_false] at hv' hp
      cases hv'
      rw [ABV.foldl_set_bits] at hp
      refine ⟨v, rfl, hvz, p, hp, ?_⟩
      cases hgv : v.get p with
      | false => rfl
      | true => rw [ABV.get_foldl_set_of_get _ _ _ hgv] at hg; cases hg

/-- what a successful `checked_add_assign` looks like -/
theorem merge_ok (b o c : Bloom) (hm : b.merge o = (c, true)) :
    ∃ v w r, b.inner = some v ∧ o.inner = some w ∧ b.k = o.k ∧ v.bits = w.bits ∧ v.orWith w = some r ∧
      c = { b with inner := some r } := by
  unfold merge at hm
  split at hm
  · cases hm
  · rename_i hk
    have hk' : b.k = o.k := by simpa using hk
    split at hm
    · rename_i v w hv hw
      split at hm
      · rename_i hbits
        split at hm
        · rename_i r hr
          cases hm
          exact ⟨v, w, r, hv, hw, hk', by simpa using hbits, hr, rfl⟩
        · cases hm
      · cases hm
    · cases hm

theorem merge_WF (b o c : Bloom) (ok : Bool) (hb : b.WF) (ho : o.WF) (hm : b.merge o = (c, ok)) : c.WF := by
  cases ok with
  | true =>
    obtain ⟨v, w, r, hv, hw, _, _, hr, rfl⟩ := merge_ok b o c hm
    refine ⟨?_, hb.2⟩
    intro r' hr'
    cases hr'
    refine ⟨ABV.orWith_WF v w r (hb.1 v hv).1 (ho.1 w hw).1 hr, ?_⟩
    have : r.bits = v.bits := by
      unfold ABV.orWith at hr; split at hr
      · cases hr
      · cases hr; rfl
    rw [this]; exact (hb.1 v hv).2
  | false =>
    have : c = b := by
      unfold merge at hm
      repeat' split at hm
      all_goals first | (cases hm; rfl) | cases hm
    rw [this]; exact hb

theorem merge_sup (h : Nat → Key → Nat) (b o c : Bloom) (x : Key) (hb : b.WF) (ho : o.WF)
    (hm : b.merge o = (c, true))
    (hx : b.containsMem h x ≠ some .notContains ∨ o.containsMem h x ≠ some .notContains) :
    c.containsMem h x ≠ some .notContains := by
  obtain ⟨v, w, r, hv, hw, hk, hbits, hr, rfl⟩ := merge_ok b o c hm
  have hlen : v.data.length = w.data.length := by rw [(hb.1 v hv).1.1, (ho.1 w hw).1.1, hbits]
  have hrb : r.bits = v.bits := by
    unfold ABV.orWith at hr; split at hr
    · cases hr
    · cases hr; rfl
  rw [Ne, containsMem_eq_notContains]
  rintro ⟨r', hr', hz, p, hp, hg⟩
  cases hr'
  simp only at hp
  rw [ABV.orWith_get v w r hlen hr, Bool.or_eq_false_iff] at hg
  rcases hx with hx | hx
  · apply hx; rw [containsMem_eq_notContains]
    exact ⟨v, hv, by rw [← hrb]; exact hz, p, by rw [← hrb]; exact hp, hg.1⟩
  · apply hx; rw [containsMem_eq_notContains]
    exact ⟨w, hw, by rw [← hbits, ← hrb]; exact hz, p, by rw [← hk, ← hbits, ← hrb]; exact hp, hg.2⟩

/-- `contains_fast` says "not contains" only when `contains_in_memory` does -/
theorem containsFast_eq_notContains (h : Nat → Key → Nat) (b : Bloom) (key : Key) :
    b.containsFast h key = .notContains ↔ b.containsMem h key = some .notContains := by
  unfold containsFast
  cases b.containsMem h key with
  | none => simp [default]
  | some r => simp

/-! ## Bloom, probing the file image -/

/-- `true ↦ NeedAdditionalCheck`, `false ↦ NotContains` -/
def FilterResult.ofBool (b : Bool) : FilterResult := bif b then .needAdditionalCheck else .notContains

theorem probeFile_eq (readByte : Nat → Option Nat) (start : Nat) (ws : List Nat) (is : List Nat)
    (hread : ∀ p, p < 8 * ws.length → readByte (start + p) = (wordsBytes ws)[p]?)
    (hin : ∀ i ∈ is, i / 64 < ws.length) :
    probeFile readByte start is =
      FilterResult.ofBool (is.all (fun i => (ws.getD (i / 64) 0) &&& (1 <<< (i % 64)) != 0)) := by
  induction is with
  | nil => simp [probeFile, FilterResult.ofBool]
  | cons i is ih =>
    have hi := hin i (List.mem_cons_self ..)
    have h8 : i >>> 3 < 8 * ws.length := by rw [Nat.shiftRight_eq_div_pow]; omega
    have hlen : i >>> 3 < (wordsBytes ws).length := by rw [wordsBytes_length]; exact h8
    simp only [probeFile, offsetAndMaskU8]
    rw [hread _ h8, List.getElem?_eq_getElem hlen]
    have hbit := file_probe_bit ws i
    rw [List.getD_eq_getElem?_getD, List.getElem?_eq_getElem hlen, Option.getD_some] at hbit
    simp only [hbit, List.all_cons]
    rw [ih (fun j hj => hin j (List.mem_cons_of_mem _ hj))]
    cases (ws.getD (i / 64) 0 &&& 1 <<< (i % 64) != 0) <;> simp [FilterResult.ofBool]

/-- probing the saved image answers like the resident vector -/
theorem containsFile_eq_containsFast (h : Nat → Key → Nat) (b : Bloom) (v : ABV) (key : Key)
    (hb : b.WF) (hi : b.inner = some v) (readByte : Nat → Option Nat)
    (hread : ∀ p, p < 8 * v.toRawVec.length →
      readByte (b.bufferStartPosition + p) = (wordsBytes v.toRawVec)[p]?) :
    b.containsFile h readByte key = b.containsFast h key := by
  obtain ⟨hv, hbits⟩ := hb.1 v hi
  unfold containsFile containsFast containsMem
  rw [hi, ← hbits]
  by_cases hz : v.bits = 0
  · simp [hz, default]
  · have hf : (v.bits == 0) = false := by simpa using hz
    have hraw : v.toRawVec = v.data := by simp [ABV.toRawVec, hf]
    rw [hraw] at hread
    simp only [hf, Bool.false_eq_true, if_false]
    rw [probeFile_eq readByte _ v.data _ hread (fun i hi' => by
      rw [hv.1]; exact ABV.offset_lt (positions_lt (Nat.pos_of_ne_zero hz) hi'))]
    have : (fun i => (v.data.getD (i / 64) 0) &&& (1 <<< (i % 64)) != 0) = v.get := by
      funext i; simp [ABV.get, ABV.offsetAndMask]
    rw [this]
    cases (positions h b.k v.bits key).all v.get <;> simp [FilterResult.ofBool]

/-- what `containsFile` looks at is kept by `offload` -/
theorem containsFile_offload (h : Nat → Key → Nat) (b : Bloom) (readByte : Nat → Option Nat) (key : Key) :
    b.offload.1.containsFile h readByte key = b.containsFile h readByte key := rfl

theorem contains_offload (h : Nat → Key → Nat) (b : Bloom) (readByte : Nat → Option Nat) (key : Key) :
    b.offload.1.contains h readByte key = b.containsFile h readByte key := rfl

theorem containsFast_offload (h : Nat → Key → Nat) (b : Bloom) (key : Key) :
    b.offload.1.containsFast h key = .needAdditionalCheck := rfl

end Bloom

/-! ## layout of the bloom image inside `Save` and inside the index meta buffer -/

@[simp] theorem BloomConfig.encode_length (c : BloomConfig) : c.encode.length = 40 := by
  simp [BloomConfig.encode]

/-- in `bincode(Save)` the words start at `serialized_size(config) + 8` -/
theorem Save.drop_encode (s : Save) :
    s.encode.drop (s.config.serializedSize + 8) = wordsBytes s.buf ++ fle64 s.bitsCount := by
  unfold Save.encode
  have : s.config.encode ++ fle64 s.buf.length ++ wordsBytes s.buf ++ fle64 s.bitsCount
      = (s.config.encode ++ fle64 s.buf.length) ++ (wordsBytes s.buf ++ fle64 s.bitsCount) := by
    simp [List.append_assoc]
  rw [this]
  exact List.drop_left' (by simp [BloomConfig.serializedSize])

theorem serializeFilters_eq (keyLen : Nat) (c : Combined) (metaBuf : List Nat) (off : Nat)
    (hs : serializeFilters keyLen c = some (metaBuf, off)) :
    ∃ sv, (c.bloom.getD Bloom.empty).save = some sv ∧ off = 8 + (c.range.toRaw keyLen).length ∧
      metaBuf = fle64 (c.range.toRaw keyLen).length ++ c.range.toRaw keyLen ++ sv.encode := by
  simp only [serializeFilters] at hs
  split at hs
  · cases hs
  · rename_i buf hbuf
    cases hs
    simp only [Bloom.toRaw, Option.map_eq_some_iff] at hbuf
    obtain ⟨sv, hsv, rfl⟩ := hbuf
    exact ⟨sv, hsv, rfl, rfl⟩

/-- position of the word image in the meta buffer: `bloom_offset + buffer_start_position` -/
theorem serializeFilters_drop (keyLen : Nat) (c : Combined) (b : Bloom) (v : ABV) (metaBuf : List Nat) (off : Nat)
    (hc : c.bloom = some b) (hi : b.inner = some v)
    (hs : serializeFilters keyLen c = some (metaBuf, off)) :
    off = 8 + (c.range.toRaw keyLen).length ∧
    metaBuf.drop (off + b.bufferStartPosition) = wordsBytes v.toRawVec ++ fle64 v.bits := by
  obtain ⟨sv, hsv, hoff, hm⟩ := serializeFilters_eq keyLen c metaBuf off hs
  rw [hc] at hsv
  simp only [Option.getD_some, Bloom.save, hi, Option.map_some] at hsv
  cases hsv
  refine ⟨hoff, ?_⟩
  rw [hm, hoff, ← List.drop_drop]
  rw [List.drop_left' (by simp)]
  exact Save.drop_encode _

theorem metaReadByte_serializeFilters (keyLen : Nat) (c : Combined) (b : Bloom) (v : ABV) (metaBuf : List Nat)
    (off : Nat) (hc : c.bloom = some b) (hi : b.inner = some v)
    (hs : serializeFilters keyLen c = some (metaBuf, off)) (p : Nat) (hp : p < 8 * v.toRawVec.length) :
    metaReadByte metaBuf off (b.bufferStartPosition + p) = (wordsBytes v.toRawVec)[p]? := by
  have hd := (serializeFilters_drop keyLen c b v metaBuf off hc hi hs).2
  unfold metaReadByte
  have : metaBuf[b.bufferStartPosition + p + off]? = (metaBuf.drop (off + b.bufferStartPosition))[p]? := by
    rw [List.getElem?_drop]; congr 1; omega
  rw [this, hd, List.getElem?_append_left (by simpa using hp)]

/-! ## save / load round trips -/

theorem wordsBytes_append (a b : List Nat) : wordsBytes (a ++ b) = wordsBytes a ++ wordsBytes b := by
  simp [wordsBytes]

theorem readWords_wordsBytes (ws rest : List Nat) (hw : ∀ w ∈ ws, w < 2 ^ 64) :
    readWords ws.length (wordsBytes ws ++ rest) = some (ws, rest) := by
  induction ws with
  | nil => simp [readWords, wordsBytes]
  | cons w ws ih =>
    have h8 : ¬ (fle64 w ++ (wordsBytes ws ++ rest)).length < 8 := by simp
    have ht : (fle64 w ++ (wordsBytes ws ++ rest)).take 8 = fle64 w := List.take_left' (fle64_length w)
    have hd : (fle64 w ++ (wordsBytes ws ++ rest)).drop 8 = wordsBytes ws ++ rest :=
      List.drop_left' (fle64_length w)
    rw [wordsBytes_cons, List.length_cons, List.append_assoc]
    simp only [readWords, h8, if_false, ht, hd]
    rw [ih (fun x hx => hw x (List.mem_cons_of_mem _ hx)), unle_le64 w (hw w (List.mem_cons_self ..))]

/-- every field of a `Save` fits its wire type -/
def Save.Bounded (s : Save) : Prop :=
  s.config.elements < 2 ^ 64 ∧ s.config.hashersCount < 2 ^ 64 ∧ s.config.maxBufBitsCount < 2 ^ 64 ∧
  s.config.bufIncreaseStep < 2 ^ 64 ∧ s.config.fprBits < 2 ^ 64 ∧ s.buf.length < 2 ^ 64 ∧
  (∀ w ∈ s.buf, w < 2 ^ 64) ∧ s.bitsCount < 2 ^ 64

theorem Save.encode_eq (s : Save) :
    s.encode = wordsBytes [s.config.elements, s.config.hashersCount, s.config.maxBufBitsCount,
      s.config.bufIncreaseStep, s.config.fprBits, s.buf.length] ++ (wordsBytes s.buf ++ (wordsBytes [s.bitsCount] ++ [])) := by
  simp [Save.encode, BloomConfig.encode, wordsBytes, List.append_assoc]

theorem Save.decode_encode (s : Save) (trailing : List Nat) (hs : s.Bounded) :
    Save.decode (s.encode ++ trailing) = some s := by
  obtain ⟨h1, h2, h3, h4, h5, h6, h7, h8⟩ := hs
  rw [Save.encode_eq]
  unfold Save.decode
  have e1 := readWords_wordsBytes [s.config.elements, s.config.hashersCount, s.config.maxBufBitsCount,
      s.config.bufIncreaseStep, s.config.fprBits, s.buf.length]
      ((wordsBytes s.buf ++ (wordsBytes [s.bitsCount] ++ [])) ++ trailing) (by
        intro w hw; simp only [List.mem_cons, List.not_mem_nil, or_false] at hw
        rcases hw with rfl | rfl | rfl | rfl | rfl | rfl <;> assumption)
  have e2 := readWords_wordsBytes s.buf ((wordsBytes [s.bitsCount] ++ []) ++ trailing) h7
  have e3 := readWords_wordsBytes [s.bitsCount] ([] ++ trailing) (by
        intro w hw; simp only [List.mem_cons, List.not_mem_nil, or_false] at hw; rw [hw]; exact h8)
  simp only [List.length_cons, List.length_nil, Nat.zero_add, Nat.reduceAdd] at e1 e3
  simp only [List.append_assoc] at e1 e2 e3 ⊢
  rw [e1]; simp only
  rw [e2]; simp only
  rw [e3]

theorem Bloom.fromSave_save (b : Bloom) (sv : Save) (hb : b.WF) (hs : b.save = some sv) :
    Bloom.fromSave sv = some b := by
  unfold Bloom.save at hs
  cases hi : b.inner with
  | none => rw [hi] at hs; cases hs
  | some v =>
    rw [hi] at hs
    simp only [Option.map_some, Option.some.injEq] at hs
    subst hs
    obtain ⟨hv, hbits⟩ := hb.1 v hi
    simp only [Bloom.fromSave, ABV.fromRawSlice_toRawVec v hv, Option.map_some, Option.some.injEq]
    cases b with
    | mk inner bits k cfg =>
      simp only at hi hbits
      have hk : k = cfg.hashersCount := hb.2
      subst hi hbits hk
      rfl

/-- what `save` writes fits the wire types when the vector is well-shaped and the scalar fields are `u64`s -/
theorem Bloom.save_bounded (b : Bloom) (sv : Save) (hb : b.WF) (hs : b.save = some sv)
    (hcfg : b.cfg.elements < 2 ^ 64 ∧ b.cfg.hashersCount < 2 ^ 64 ∧ b.cfg.maxBufBitsCount < 2 ^ 64 ∧
      b.cfg.bufIncreaseStep < 2 ^ 64 ∧ b.cfg.fprBits < 2 ^ 64) (hbits : b.bits < 2 ^ 64) : sv.Bounded := by
  unfold Bloom.save at hs
  cases hi : b.inner with
  | none => rw [hi] at hs; cases hs
  | some v =>
    rw [hi] at hs
    simp only [Option.map_some, Option.some.injEq] at hs
    subst hs
    obtain ⟨hv, hvb⟩ := hb.1 v hi
    obtain ⟨c1, c2, c3, c4, c5⟩ := hcfg
    refine ⟨c1, c2, c3, c4, c5, ?_, ?_, by simp only; omega⟩
    · simp only [ABV.toRawVec]
      split
      · exact Nat.two_pow_pos 64
      · rw [hv.1]; unfold ABV.itemsCount; split <;> omega
    · intro w hw
      simp only [ABV.toRawVec] at hw
      split at hw
      · cases hw
      · exact hv.2 w hw

theorem Bloom.fromRaw_toRaw (b : Bloom) (bs trailing : List Nat) (hb : b.WF) (hs : b.toRaw = some bs)
    (hcfg : b.cfg.elements < 2 ^ 64 ∧ b.cfg.hashersCount < 2 ^ 64 ∧ b.cfg.maxBufBitsCount < 2 ^ 64 ∧
      b.cfg.bufIncreaseStep < 2 ^ 64 ∧ b.cfg.fprBits < 2 ^ 64) (hbits : b.bits < 2 ^ 64) :
    Bloom.fromRaw (bs ++ trailing) = some b := by
  simp only [Bloom.toRaw, Option.map_eq_some_iff] at hs
  obtain ⟨sv, hsv, rfl⟩ := hs
  unfold Bloom.fromRaw
  rw [Save.decode_encode sv trailing (Bloom.save_bounded b sv hb hsv hcfg hbits)]
  exact Bloom.fromSave_save b sv hb hsv

/-! ## Range -/

/-- `omega` after unfolding the `Key` abbreviation (it does not look through it) -/
macro "komega" : tactic =>
  `(tactic| first | omega | (simp only [Key] at *; done) | (simp only [Key] at *; omega))

namespace Range

/-- an initialised range is non-empty (true of every value built by `new`/`add`/`merge`; a value read from
    a file is whatever the file says) -/
def WF (r : Range) : Prop := r.init = true → r.min ≤ r.max

theorem contains_iff (r : Range) (k : Key) : r.contains k = true ↔ r.init = true ∧ r.min ≤ k ∧ k ≤ r.max := by
  simp [contains, and_assoc]

theorem new_WF : new.WF := by intro h; cases h

theorem add_WF (r : Range) (k : Key) (h : r.WF) : (r.add k).WF := by
  rcases r with ⟨mn, mx, i⟩
  cases i
  · simp [add, WF]
  · have h' : mn ≤ mx := h rfl
    unfold add WF
    simp only [Bool.not_true, Bool.false_eq_true, if_false]
    split
    · intro _; simp only; komega
    · split
      · intro _; simp only; komega
      · intro _; exact h'

theorem add_contains (r : Range) (k : Key) (h : r.WF) : (r.add k).contains k = true := by
  rw [contains_iff]
  rcases r with ⟨mn, mx, i⟩
  cases i
  · simp [add]
  · have h' : mn ≤ mx := h rfl
    unfold add
    simp only [Bool.not_true, Bool.false_eq_true, if_false]
    split
    · refine ⟨rfl, ?_, ?_⟩ <;> simp only <;> komega
    · split
      · refine ⟨rfl, ?_, ?_⟩ <;> simp only <;> komega
      · refine ⟨rfl, ?_, ?_⟩ <;> simp only <;> komega

theorem add_mono (r : Range) (k x : Key) (h : r.contains x = true) : (r.add k).contains x = true := by
  rw [contains_iff] at h ⊢
  rcases r with ⟨mn, mx, i⟩
  obtain ⟨hi, h1, h2⟩ := h
  simp only at hi h1 h2
  subst hi
  unfold add
  simp only [Bool.not_true, Bool.false_eq_true, if_false]
  split
  · refine ⟨rfl, ?_, ?_⟩ <;> simp only <;> komega
  · split
    · refine ⟨rfl, ?_, ?_⟩ <;> simp only <;> komega
    · refine ⟨rfl, ?_, ?_⟩ <;> simp only <;> komega

theorem mergeWith_sup (r o : Range) (x : Key) (h : r.contains x = true ∨ o.contains x = true) :
    (r.mergeWith o).contains x = true := by
  simp only [contains_iff] at h ⊢
  rcases r with ⟨mn, mx, i⟩
  rcases o with ⟨mn', mx', i'⟩
  simp only at h
  unfold mergeWith
  cases i' <;> cases i <;> simp only [Bool.not_true, Bool.not_false, Bool.false_eq_true, if_false, if_true]
  · simp at h
  · simpa using h
  · simpa using h
  · simp only [true_and] at h
    by_cases h1 : mn' < mn <;> by_cases h2 : mx' > mx <;> simp only [h1, h2, if_true, if_false] <;>
      refine ⟨trivial, ?_, ?_⟩ <;> komega

theorem mergeWith_hull (r o : Range) (hr : r.init = true) (ho : o.init = true) :
    (r.mergeWith o).init = true ∧ (r.mergeWith o).min = Nat.min r.min o.min ∧
      (r.mergeWith o).max = Nat.max r.max o.max := by
  rcases r with ⟨mn, mx, i⟩
  rcases o with ⟨mn', mx', i'⟩
  simp only at hr ho
  subst hr ho
  unfold mergeWith
  simp only [Bool.not_true, Bool.false_eq_true, if_false, if_true]
  by_cases h1 : mn' < mn <;> by_cases h2 : mx' > mx <;> simp only [h1, h2, if_true, if_false] <;>
    refine ⟨trivial, ?_, ?_⟩ <;> simp only [Nat.min_def, Nat.max_def] <;> split <;> komega

theorem mergeWith_WF (r o : Range) (hr : r.WF) (ho : o.WF) : (r.mergeWith o).WF := by
  rcases r with ⟨mn, mx, i⟩
  rcases o with ⟨mn', mx', i'⟩
  unfold mergeWith
  cases i' <;> cases i <;> simp only [Bool.not_true, Bool.not_false, Bool.false_eq_true, if_false, if_true]
  · exact hr
  · exact hr
  · exact ho
  · have h1' : mn ≤ mx := hr rfl
    have h2' : mn' ≤ mx' := ho rfl
    by_cases h1 : mn' < mn <;> by_cases h2 : mx' > mx <;> simp only [h1, h2, if_true, if_false] <;>
      intro _ <;> simp only <;> komega

theorem clear_contains (r : Range) (x : Key) : r.clear.contains x = false := by
  simp [clear, contains]

theorem containsFast_eq_notContains (r : Range) (k : Key) :
    r.containsFast k = .notContains ↔ r.contains k = false := by
  unfold containsFast; cases r.contains k <;> simp

@[simp] theorem keyBytes_length (n : Nat) (k : Key) : (keyBytes n k).length = n := by
  induction n generalizing k with
  | zero => rfl
  | succ n ih => simp [keyBytes, ih]

theorem keyOfBytes_keyBytes (n : Nat) (k : Key) : keyOfBytes (keyBytes n k) = k % 256 ^ n := by
  induction n generalizing k with
  | zero => simp [keyBytes, keyOfBytes, Nat.mod_one]
  | succ n ih =>
    have := ih (k / 256)
    unfold keyOfBytes at this ⊢
    rw [keyBytes, List.foldl_append, List.foldl_cons, List.foldl_nil, this, Nat.pow_succ,
      Nat.mul_comm (256 ^ n) 256, Nat.mod_mul]
    komega

theorem readWords_one (n : Nat) (rest : List Nat) (h : n < 2 ^ 64) :
    readWords 1 (fle64 n ++ rest) = some ([n], rest) := by
  have := readWords_wordsBytes [n] rest (by intro w hw; simp at hw; rw [hw]; exact h)
  simpa [wordsBytes] using this

theorem fromRaw_toRaw (keyLen : Nat) (r : Range) (trailing : List Nat) (hk : keyLen < 2 ^ 64)
    (hmin : r.min < 256 ^ keyLen) (hmax : r.max < 256 ^ keyLen) :
    fromRaw (toRaw keyLen r ++ trailing) = some r := by
  have e : toRaw keyLen r ++ trailing = fle64 keyLen ++ (keyBytes keyLen r.min ++ (fle64 keyLen ++
      (keyBytes keyLen r.max ++ ((if r.init then 1 else 0) :: trailing)))) := by
    simp [toRaw, List.append_assoc]
  rw [e]
  unfold fromRaw
  rw [readWords_one keyLen _ hk]
  simp only
  have l1 : ¬ (keyBytes keyLen r.min ++ (fle64 keyLen ++
      (keyBytes keyLen r.max ++ ((if r.init then 1 else 0) :: trailing)))).length < keyLen := by
    simp
  rw [if_neg l1, List.drop_left' (keyBytes_length _ _), List.take_left' (keyBytes_length _ _),
    readWords_one keyLen _ hk]
  simp only
  have l2 : ¬ (keyBytes keyLen r.max ++ ((if r.init then 1 else 0) :: trailing)).length < keyLen := by
    simp
  rw [if_neg l2, List.drop_left' (keyBytes_length _ _), List.take_left' (keyBytes_length _ _)]
  simp only [keyOfBytes_keyBytes, Nat.mod_eq_of_lt hmin, Nat.mod_eq_of_lt hmax]
  rcases r with ⟨mn, mx, i⟩
  cases i <;> simp

end Range

/-! ## Combined -/

namespace Combined

def WF (c : Combined) : Prop := c.range.WF ∧ ∀ b, c.bloom = some b → b.WF

theorem containsFast_eq_notContains (h : Nat → Key → Nat) (c : Combined) (k : Key) :
    c.containsFast h k = .notContains ↔
      c.range.contains k = false ∨ ∃ b, c.bloom = some b ∧ b.containsMem h k = some .notContains := by
  unfold containsFast
  cases hr : c.range.contains k
  · simp [Range.containsFast, hr]
  · simp only [Range.containsFast, hr, if_true, Bool.true_eq_false, false_or]
    unfold bloomFast
    cases hb : c.bloom with
    | none => simp
    | some b => simp [Bloom.containsFast_eq_notContains]

theorem add_WF (h : Nat → Key → Nat) (c : Combined) (k : Key) (hc : c.WF) : (c.add h k).WF := by
  refine ⟨Range.add_WF _ _ hc.1, ?_⟩
  intro b hb
  simp only [add, Option.map_eq_some_iff] at hb
  obtain ⟨b0, hb0, rfl⟩ := hb
  exact Bloom.add_WF h b0 k (hc.2 b0 hb0)

theorem add_contains (h : Nat → Key → Nat) (c : Combined) (k : Key) (hc : c.WF) :
    (c.add h k).containsFast h k ≠ .notContains := by
  rw [Ne, containsFast_eq_notContains]
  rintro (hr | ⟨b, hb, hn⟩)
  · simp only [add] at hr
    rw [Range.add_contains _ _ hc.1] at hr; cases hr
  · simp only [add, Option.map_eq_some_iff] at hb
    obtain ⟨b0, hb0, rfl⟩ := hb
    exact Bloom.add_contains h b0 k (hc.2 b0 hb0) hn

theorem add_mono (h : Nat → Key → Nat) (c : Combined) (k x : Key)
    (hx : c.containsFast h x ≠ .notContains) : (c.add h k).containsFast h x ≠ .notContains := by
  rw [Ne, containsFast_eq_notContains] at hx ⊢
  rintro (hr | ⟨b, hb, hn⟩)
  · apply hx; left
    simp only [add] at hr
    cases hc : c.range.contains x with
    | false => rfl
    | true => rw [Range.add_mono _ _ _ hc] at hr; cases hr
  · simp only [add, Option.map_eq_some_iff] at hb
    obtain ⟨b0, hb0, rfl⟩ := hb
    apply hx; right
    refine ⟨b0, hb0, ?_⟩
    false_or_by_contra
    rename_i hne
    exact Bloom.add_mono h b0 x k hne hn

theorem bloomMerge_WF (a o r : Option Bloom) (ok : Bool) (ha : ∀ b, a = some b → b.WF) (ho : ∀ b, o = some b → b.WF)
    (hm : bloomMerge a o = (r, ok)) : ∀ b, r = some b → b.WF := by
  unfold bloomMerge at hm
  split at hm
  · rename_i x y
    cases hxy : x.merge y with
    | mk x' ok' =>
      rw [hxy] at hm
      injection hm with h1 h2
      subst h1 h2
      intro b hb
      injection hb with hb
      subst hb
      exact Bloom.merge_WF x y _ _ (ha x rfl) (ho y rfl) hxy
  · cases hm; intro b hb; cases hb
  · cases hm; exact ha

theorem merge_WF (c o r : Combined) (ok : Bool) (hc : c.WF) (ho : o.WF) (hm : c.merge o = (r, ok)) : r.WF := by
  simp only [merge, Range.merge, if_true] at hm
  cases hbm : bloomMerge c.bloom o.bloom with
  | mk b' okb =>
    rw [hbm] at hm
    cases hm
    exact ⟨Range.mergeWith_WF _ _ hc.1 ho.1, bloomMerge_WF _ _ _ _ hc.2 ho.2 hbm⟩

theorem merge_sup (h : Nat → Key → Nat) (c o r : Combined) (x : Key) (hc : c.WF) (ho : o.WF)
    (hm : c.merge o = (r, true))
    (hx : c.containsFast h x ≠ .notContains ∨ o.containsFast h x ≠ .notContains) :
    r.containsFast h x ≠ .notContains := by
  simp only [merge, Range.merge, if_true] at hm
  cases hbm : bloomMerge c.bloom o.bloom with
  | mk b' okb =>
    rw [hbm] at hm
    cases hm
    simp only [Ne, containsFast_eq_notContains] at hx ⊢
    rintro (hr | ⟨b, hb, hn⟩)
    · have hcr : c.range.contains x = false := by
        cases hcc : c.range.contains x with
        | false => rfl
        | true => rw [Range.mergeWith_sup _ _ _ (Or.inl hcc)] at hr; cases hr
      have hor : o.range.contains x = false := by
        cases hcc : o.range.contains x with
        | false => rfl
        | true => rw [Range.mergeWith_sup _ _ _ (Or.inr hcc)] at hr; cases hr
      rcases hx with hx | hx
      · exact hx (Or.inl hcr)
      · exact hx (Or.inl hor)
    · subst hb
      cases hcb : c.bloom with
      | none => cases hob : o.bloom <;> simp [bloomMerge, hcb, hob] at hbm
      | some y =>
        cases hob : o.bloom with
        | none => simp [bloomMerge, hcb, hob] at hbm
        | some z =>
          cases hyz : y.merge z with
          | mk y' ok' =>
            simp only [bloomMerge, hcb, hob, hyz] at hbm
            injection hbm with h1 h2
            injection h1 with h1
            subst h1 h2
            have := Bloom.merge_sup h y z _ x (hc.2 y hcb) (ho.2 z hob) hyz
            rcases hx with hx | hx
            · apply hx; right; refine ⟨y, hcb, ?_⟩
              false_or_by_contra; rename_i hne
              exact this (Or.inl hne) hn
            · apply hx; right; refine ⟨z, hob, ?_⟩
              false_or_by_contra; rename_i hne
              exact this (Or.inr hne) hn

theorem offload_containsFast (h : Nat → Key → Nat) (c : Combined) (x : Key)
    (hx : c.containsFast h x ≠ .notContains) : c.offload.1.containsFast h x ≠ .notContains := by
  rw [Ne, containsFast_eq_notContains] at hx ⊢
  rintro (hr | ⟨b, hb, hn⟩)
  · apply hx; left
    unfold offload at hr
    cases hcb : c.bloom <;> simp_all
  · unfold offload at hb
    cases hcb : c.bloom with
    | none => rw [hcb] at hb; simp only at hb; rw [hcb] at hb; cases hb
    | some b0 =>
      rw [hcb] at hb; simp only at hb
      cases hb
      simp [Bloom.offload, Bloom.containsMem] at hn

theorem offload_WF (c : Combined) (hc : c.WF) : c.offload.1.WF := by
  unfold offload
  cases hcb : c.bloom with
  | none => exact hc
  | some b0 =>
    refine ⟨hc.1, ?_⟩
    intro b hb
    cases hb
    exact Bloom.offload_WF b0 (hc.2 b0 hcb)

/-- the full check of an off-loaded filter against the index file it was dumped into answers exactly like
    the fast check of the resident filter -/
theorem contains_offload_eq (h : Nat → Key → Nat) (keyLen : Nat) (c : Combined) (metaBuf : List Nat) (off : Nat)
    (hc : c.WF) (hs : serializeFilters keyLen c = some (metaBuf, off)) (x : Key) :
    c.offload.1.contains h (metaReadByte metaBuf off) x = c.containsFast h x := by
  unfold contains containsFast offload
  cases hcb : c.bloom with
  | none => simp only [hcb]; cases c.range.containsFast x <;> rfl
  | some b =>
    simp only []
    cases c.range.containsFast x with
    | notContains => rfl
    | needAdditionalCheck =>
      simp only [bloomFull, bloomFast]
      cases hi : b.inner with
      | none =>
        simp only [serializeFilters, hcb, Option.getD_some, Bloom.toRaw, Bloom.save, hi, Option.map_none] at hs
        cases hs
      | some v =>
        show b.offload.1.contains h _ x = _
        rw [Bloom.contains_offload]
        exact Bloom.containsFile_eq_containsFast h b v x (hc.2 b hcb) hi _
          (fun p hp => metaReadByte_serializeFilters keyLen c b v metaBuf off hcb hi hs p hp)

end Combined

/-- the scalar fields of a bloom filter fit their wire type -/
def Bloom.Bounded (b : Bloom) : Prop :=
  (b.cfg.elements < 2 ^ 64 ∧ b.cfg.hashersCount < 2 ^ 64 ∧ b.cfg.maxBufBitsCount < 2 ^ 64 ∧
      b.cfg.bufIncreaseStep < 2 ^ 64 ∧ b.cfg.fprBits < 2 ^ 64) ∧ b.bits < 2 ^ 64

theorem Bloom.empty_Bounded : Bloom.empty.Bounded := by
  refine ⟨⟨?_, ?_, ?_, ?_, ?_⟩, ?_⟩ <;> exact Nat.two_pow_pos 64

@[simp] theorem Range.toRaw_length (keyLen : Nat) (r : Range) : (r.toRaw keyLen).length = 2 * keyLen + 17 := by
  simp [Range.toRaw]; omega

/-- what `dump` writes is what `from_file` / `load` read back -/
theorem deserialize_serialize (keyLen : Nat) (c : Combined) (metaBuf : List Nat) (off : Nat)
    (hc : c.WF) (hbd : ∀ b, c.bloom = some b → b.Bounded) (hk : 2 * keyLen + 17 < 2 ^ 64)
    (hmin : c.range.min < 256 ^ keyLen) (hmax : c.range.max < 256 ^ keyLen)
    (hs : serializeFilters keyLen c = some (metaBuf, off)) :
    deserializeFilters metaBuf = some (c.bloom.getD Bloom.empty, c.range, off) := by
  have hWF : (c.bloom.getD Bloom.empty).WF := by
    cases hcb : c.bloom with
    | none => exact Bloom.empty_WF
    | some b => exact hc.2 b hcb
  have hB : (c.bloom.getD Bloom.empty).Bounded := by
    cases hcb : c.bloom with
    | none => exact Bloom.empty_Bounded
    | some b => exact hbd b hcb
  simp only [serializeFilters] at hs
  cases hraw : (c.bloom.getD Bloom.empty).toRaw with
  | none => rw [hraw] at hs; cases hs
  | some bloomBuf =>
    rw [hraw] at hs
    simp only [Option.some.injEq, Prod.mk.injEq] at hs
    obtain ⟨rfl, rfl⟩ := hs
    have hkl : keyLen < 2 ^ 64 := by omega
    unfold deserializeFilters
    have hlen : ¬ (fle64 (c.range.toRaw keyLen).length ++ c.range.toRaw keyLen ++ bloomBuf).length < 8 := by
      simp
    rw [if_neg hlen]
    simp only [List.append_assoc]
    rw [List.take_left' (fle64_length _), List.drop_left' (fle64_length _), unle_le64 _ (by simpa using hk)]
    have hlen2 : ¬ (c.range.toRaw keyLen ++ bloomBuf).length < (c.range.toRaw keyLen).length := by
      simp
    rw [if_neg hlen2, List.drop_left, List.take_left]
    have e1 := Bloom.fromRaw_toRaw _ bloomBuf [] hWF hraw hB.1 hB.2
    have e2 := Range.fromRaw_toRaw keyLen c.range [] hkl hmin hmax
    rw [List.append_nil] at e1 e2
    rw [e1, e2]
    simp only [Range.toRaw_length]
    rw [Nat.add_comm (2 * keyLen + 17) 8]

end Pearl
