import Pearl.Proofs.FsLemmas
import Pearl.Proofs.AcctHarm
/-
The two file-level models tell the same story.

* `Pearl/Model/Fs.lean` (L6): every operation emits a trace of file events and keeps per-file counters;
* `Pearl/Model/Acct.lean` (L7): the work directory as maps id ↦ length (blob files) and id ↦ index file.

Part 1 (`dirOfTrace`): the blob-file lengths obtained by replaying a trace WITHOUT any check (create = empty file,
write at `off` of `len` = extend to `max size (off + len)`) are, for the trace of any `Fs.run`, the `size` counters
`Fs` keeps: the trace is complete.

Part 2: the operation alphabets (`tr : FsState → FsOp → List AOp`; a rotation runs its dump pass unless a deferred
dump is registered, a `force` goes ahead iff its predicate holds of the active blob, `fsync` / queries / `close` are
no directory-level operation, `restart` and `open` of a closed storage are a restart without damage and without
`ignore_corrupted`), and the simulation: `R0 c f a` relates an `FsState` and an `Acct.State` — same L2 store, both
structural invariants, same index files with the same `blob_size` field; every building block of `Fs.prog`
(`ensureActiveP`, `appendActiveP`, `newBlobP`, `dumpPassP`, `deleteCoreP`, `closeP`, `openP`, …) is matched by the
building block of `Acct.step` (`ensureActive`, `appendWhere`, `newBlobFile`, `dumpPass`, `closeSession`,
`initExisting`, …).  The blob-file lengths agree as a CONSEQUENCE of the relation (`R0.blobs`).
-/
namespace Pearl
namespace Fs

/-! ## Part 1: the directory a trace leaves behind -/

/-- one event applied to the lengths of the blob files, without any check: a create makes an empty file, a write at
    `off` of `len` extends the file to `max size (off + len)` (a write to a file that was never created is not a
    `pwrite` the implementation can issue; it is ignored); syncs, opens and index-file events change no length -/
def dirStep (m : FsModel) : Event → FsModel
  | .create (.blob id) => m.set id 0
  | .write (.blob id) off len =>
    match m id with
    | some sz => m.set id (max sz (off + len))
    | none => m
  | _ => m

def dirOfTraceFrom (m : FsModel) (t : List Event) : FsModel := t.foldl dirStep m

/-- blob id ↦ length of the blob file after replaying the trace on an empty directory -/
def dirOfTrace (t : List Event) : FsModel := dirOfTraceFrom (fun _ => none) t

theorem dirOfTraceFrom_cons (m : FsModel) (e : Event) (t : List Event) :
    dirOfTraceFrom m (e :: t) = dirOfTraceFrom (dirStep m e) t := rfl

theorem dirOfTraceFrom_append (m : FsModel) (t u : List Event) :
    dirOfTraceFrom m (t ++ u) = dirOfTraceFrom (dirOfTraceFrom m t) u := by
  simp [dirOfTraceFrom, List.foldl_append]

/-- on an event the append-only file system accepts, the unchecked replay does what the checked one does -/
theorem dirStep_of_accept {m m' : FsModel} {e : Event} (h : fsAccept m e = some m') : dirStep m e = m' := by
  cases e with
  | create f =>
    cases f with
    | blob id =>
      simp only [fsAccept] at h
      split at h
      · cases h; rfl
      · cases h
    | index id => simp only [fsAccept] at h; cases h; rfl
  | «open» f =>
    cases f with
    | blob id =>
      simp only [fsAccept] at h
      split at h
      · cases h; rfl
      · cases h
    | index id => simp only [fsAccept] at h; cases h; rfl
  | write f off len =>
    cases f with
    | blob id =>
      simp only [fsAccept] at h
      simp only [dirStep]
      cases hm : m id with
      | none => rw [hm] at h; cases h
      | some sz =>
        rw [hm] at h
        simp only at h ⊢
        split at h
        · cases h; subst_vars
          rw [Nat.max_eq_right (Nat.le_add_right _ _)]
        · cases h
    | index id => simp only [fsAccept] at h; cases h; rfl
  | sync f n =>
    cases f with
    | blob id =>
      simp only [fsAccept] at h
      cases hm : m id with
      | none => rw [hm] at h; cases h
      | some sz =>
        rw [hm] at h
        simp only at h
        split at h
        · cases h; rfl
        · cases h
    | index id => simp only [fsAccept] at h; cases h; rfl
  | idxHeader id bs w => simp only [fsAccept] at h; cases h; rfl

theorem dirOfTraceFrom_of_replay : ∀ (t : List Event) {m m' : FsModel}, replay m t = some m' →
    dirOfTraceFrom m t = m'
  | [], m, m', h => by simp only [replay, Option.some.injEq] at h; exact h
  | e :: t, m, m', h => by
    simp only [replay] at h
    cases ha : fsAccept m e with
    | none => rw [ha] at h; cases h
    | some m1 =>
      rw [ha, Option.bind_some] at h
      rw [dirOfTraceFrom_cons, dirStep_of_accept ha]
      exact dirOfTraceFrom_of_replay t h

/-- an accepted event never shortens or removes a file -/
theorem fsAccept_grows {m m' : FsModel} {e : Event} (h : fsAccept m e = some m') (id l : Nat) (hl : m id = some l) :
    ∃ l', m' id = some l' ∧ l ≤ l' := by
  cases e with
  | create f =>
    cases f with
    | blob j =>
      simp only [fsAccept] at h
      split at h
      · rename_i hn
        cases h
        have : id ≠ j := by intro e; subst e; rw [hl] at hn; cases hn
        exact ⟨l, by simp [this, hl], Nat.le_refl _⟩
      · cases h
    | index j => simp only [fsAccept] at h; cases h; exact ⟨l, hl, Nat.le_refl _⟩
  | «open» f =>
    cases f with
    | blob j =>
      simp only [fsAccept] at h
      split at h
      · cases h; exact ⟨l, hl, Nat.le_refl _⟩
      · cases h
    | index j => simp only [fsAccept] at h; cases h; exact ⟨l, hl, Nat.le_refl _⟩
  | write f off len =>
    cases f with
    | blob j =>
      simp only [fsAccept] at h
      cases hm : m j with
      | none => rw [hm] at h; cases h
      | some sz =>
        rw [hm] at h
        simp only at h
        split at h
        · cases h
          by_cases e : id = j
          · subst e
            rw [hl] at hm; cases hm
            exact ⟨l + len, by simp, Nat.le_add_right _ _⟩
          · exact ⟨l, by simp [e, hl], Nat.le_refl _⟩
        · cases h
    | index j => simp only [fsAccept] at h; cases h; exact ⟨l, hl, Nat.le_refl _⟩
  | sync f n =>
    cases f with
    | blob j =>
      simp only [fsAccept] at h
      cases hm : m j with
      | none => rw [hm] at h; cases h
      | some sz =>
        rw [hm] at h
        simp only at h
        split at h
        · cases h; exact ⟨l, hl, Nat.le_refl _⟩
        · cases h
    | index j => simp only [fsAccept] at h; cases h; exact ⟨l, hl, Nat.le_refl _⟩
  | idxHeader j bs w => simp only [fsAccept] at h; cases h; exact ⟨l, hl, Nat.le_refl _⟩

theorem replay_grows : ∀ (t : List Event) {m m' : FsModel}, replay m t = some m' → ∀ id l, m id = some l →
    ∃ l', m' id = some l' ∧ l ≤ l'
  | [], m, m', h, id, l, hl => by
    simp only [replay, Option.some.injEq] at h; subst h; exact ⟨l, hl, Nat.le_refl _⟩
  | e :: t, m, m', h, id, l, hl => by
    simp only [replay] at h
    cases ha : fsAccept m e with
    | none => rw [ha] at h; cases h
    | some m1 =>
      rw [ha, Option.bind_some] at h
      obtain ⟨l1, h1, hle1⟩ := fsAccept_grows ha id l hl
      obtain ⟨l2, h2, hle2⟩ := replay_grows t h id l1 h1
      exact ⟨l2, h2, Nat.le_trans hle1 hle2⟩

/-- a file of the replayed directory was created by an event of the trace -/
theorem create_of_dirOfTraceFrom : ∀ (t : List Event) (m : FsModel) (id : Nat),
    (dirOfTraceFrom m t id).isSome → (m id).isSome ∨ Event.create (.blob id) ∈ t
  | [], m, id, h => Or.inl h
  | e :: t, m, id, h => by
    rw [dirOfTraceFrom_cons] at h
    rcases create_of_dirOfTraceFrom t _ id h with h1 | h1
    · cases e with
      | create f =>
        cases f with
        | blob j =>
          simp only [dirStep, FsModel.set_apply] at h1
          split at h1
          · subst_vars; exact Or.inr (List.mem_cons_self ..)
          · exact Or.inl h1
        | index j => exact Or.inl h1
      | write f off len =>
        cases f with
        | blob j =>
          simp only [dirStep] at h1
          cases hm : m j with
          | none => rw [hm] at h1; exact Or.inl h1
          | some sz =>
            rw [hm] at h1
            simp only [FsModel.set_apply] at h1
            split at h1
            · subst_vars; exact Or.inl (by rw [hm]; rfl)
            · exact Or.inl h1
        | index j => exact Or.inl h1
      | «open» f => exact Or.inl h1
      | sync f n => exact Or.inl h1
      | idxHeader j bs w => exact Or.inl h1
    · exact Or.inr (List.mem_cons_of_mem _ h1)

/-- (1) The trace is complete: replaying the trace of any run, without any check, gives every blob file exactly the
    length the `size` counter of `Fs` says — every byte the counters know about was emitted as a write. -/
theorem dirOfTrace_run (dup : Bool) (limit klen : Nat) (unc rs : Bool) (ops : List FsOp) (id : Nat) :
    dirOfTrace (run dup limit klen unc rs ops).2 id = szOf (run dup limit klen unc rs ops).1.disk id := by
  obtain ⟨m, hm, hag⟩ := (run_diskInv dup limit klen unc rs ops).replay
  unfold dirOfTrace
  rw [dirOfTraceFrom_of_replay _ hm, hag id]
  rfl

/-- … and it is the final state of the append-only acceptor -/
theorem replay_run_eq_dirOfTrace (dup : Bool) (limit klen : Nat) (unc rs : Bool) (ops : List FsOp) :
    replay (fun _ => none) (run dup limit klen unc rs ops).2 = some (dirOfTrace (run dup limit klen unc rs ops).2) := by
  obtain ⟨m, hm, _⟩ := (run_diskInv dup limit klen unc rs ops).replay
  rw [hm]
  unfold dirOfTrace
  rw [dirOfTraceFrom_of_replay _ hm]

/-- the trace of a longer run extends the trace of the shorter one -/
theorem runFrom_trace_prefix (st : FsState × List Event) (ops : List FsOp) :
    ∃ u, (runFrom st ops).2 = st.2 ++ u := by
  induction ops generalizing st with
  | nil => exact ⟨[], by simp [runFrom]⟩
  | cons op ops ih =>
    rw [runFrom_cons]
    obtain ⟨u, hu⟩ := ih ((emit st.1 op).1, st.2 ++ (emit st.1 op).2)
    exact ⟨(emit st.1 op).2 ++ u, by rw [hu, List.append_assoc]⟩

theorem run_trace_prefix (dup : Bool) (limit klen : Nat) (unc rs : Bool) (ops more : List FsOp) :
    ∃ u, (run dup limit klen unc rs (ops ++ more)).2 = (run dup limit klen unc rs ops).2 ++ u := by
  rw [run_append]
  exact runFrom_trace_prefix _ more

/-- blob files only grow, read off the trace: what the replay of a prefix of the run shows is there, at least as
    long, in the replay of the whole run -/
theorem dirOfTrace_grows (dup : Bool) (limit klen : Nat) (unc rs : Bool) (ops more : List FsOp) (id l : Nat)
    (h : dirOfTrace (run dup limit klen unc rs ops).2 id = some l) :
    ∃ l', dirOfTrace (run dup limit klen unc rs (ops ++ more)).2 id = some l' ∧ l ≤ l' := by
  obtain ⟨u, hu⟩ := run_trace_prefix dup limit klen unc rs ops more
  have h1 := replay_run_eq_dirOfTrace dup limit klen unc rs ops
  have h2 := replay_run_eq_dirOfTrace dup limit klen unc rs (ops ++ more)
  rw [hu, replay_append, h1, Option.bind_some] at h2
  rw [← hu] at h2
  exact replay_grows u h2 id l h


/-! ## Part 2: the disk side — which actions touch an index file -/

/-- does the action write an index file -/
def Act.dumpsIdx : Act → Bool
  | .dump _ true => true
  | _ => false

def NoDump (as : List Act) : Prop := ∀ a ∈ as, a.dumpsIdx = false

theorem exec_idx_of_noDump (d : Disk) {a : Act} (h : a.dumpsIdx = false) : (d.exec a).1.idx = d.idx := by
  cases a with
  | createBlob id => simp only [Disk.exec]; split <;> rfl
  | append id lens => simp only [Disk.exec]; split <;> rfl
  | syncBlob id => simp only [Disk.exec]; split <;> rfl
  | dump id w =>
    cases w with
    | true => simp [Act.dumpsIdx] at h
    | false => simp only [Disk.exec]; split <;> rfl
  | openBlob id => simp only [Disk.exec]; split <;> rfl
  | openIdx id => simp only [Disk.exec]; split <;> rfl

theorem runActs_idx_of_noDump (d : Disk) {as : List Act} (h : NoDump as) : (d.runActs as).1.idx = d.idx := by
  induction as generalizing d with
  | nil => rfl
  | cons a as ih =>
    rw [runActs_cons, ih _ (fun x hx => h x (List.mem_cons_of_mem _ hx)), exec_idx_of_noDump d (h a (by simp))]

theorem NoDump.nil : NoDump [] := by intro a h; cases h
theorem NoDump.singleton {a : Act} (h : a.dumpsIdx = false) : NoDump [a] := by
  intro x hx; rw [List.mem_singleton] at hx; subst hx; exact h
theorem NoDump.append {l1 l2 : List Act} (h1 : NoDump l1) (h2 : NoDump l2) : NoDump (l1 ++ l2) := by
  intro a ha; rcases List.mem_append.1 ha with h | h
  · exact h1 a h
  · exact h2 a h
theorem NoDump.map {α} {l : List α} {g : α → Act} (h : ∀ x, (g x).dumpsIdx = false) : NoDump (l.map g) := by
  intro a ha; obtain ⟨x, _, rfl⟩ := List.mem_map.1 ha; exact h x
theorem NoDump.flatMap {α} {l : List α} {g : α → List Act} (h : ∀ x, NoDump (g x)) : NoDump (l.flatMap g) := by
  intro a ha; obtain ⟨x, _, hx⟩ := List.mem_flatMap.1 ha; exact h x a hx

theorem isSome_files_eq_szOf (d : Disk) (j : Nat) : (d.files j).isSome = (szOf d j).isSome := by
  unfold szOf; cases d.files j <;> rfl

/-- a batch of dumps of existing blob files: no length changes, and the index file of `j` is (re)written, with the
    current length of the blob file in its `blob_size` field, iff some dump of `j` carries an index -/
theorem runActs_dumps (w : Blob → Bool) : ∀ (L : List Blob) (d : Disk), (∀ b ∈ L, (d.files b.id).isSome) →
    ∀ j, (d.runActs (L.map fun b => Act.dump b.id (w b))).1.idx j =
      if L.any (fun b => b.id == j && w b) then szOf d j else d.idx j
  | [], d, _, j => by simp
  | x :: L, d, h, j => by
    obtain ⟨fx, hfx⟩ := Option.isSome_iff_exists.1 (h x (List.mem_cons_self ..))
    have hs1 : ∀ i, szOf (d.exec (.dump x.id (w x))).1 i = szOf d i := exec_szOf_of_quiet d rfl rfl
    have hf1 : ∀ b ∈ L, ((d.exec (.dump x.id (w x))).1.files b.id).isSome := by
      intro b hb
      rw [isSome_files_eq_szOf, hs1, ← isSome_files_eq_szOf]
      exact h b (List.mem_cons_of_mem _ hb)
    have hi1 : (d.exec (.dump x.id (w x))).1.idx j = if (x.id == j && w x) then szOf d j else d.idx j := by
      simp only [Disk.exec, hfx]
      cases hw : w x with
      | false => simp
      | true =>
        simp only [if_true, Disk.setIdx, Bool.and_true, beq_iff_eq]
        by_cases hj : j = x.id
        · subst hj; simp [szOf, hfx]
        · have : ¬ x.id = j := fun e => hj e.symm
          simp [hj, this]
    rw [List.map_cons, runActs_cons, runActs_dumps w L _ hf1 j, hs1, hi1, List.any_cons]
    cases (x.id == j && w x) <;> simp

/-! ### projections of the program combinators -/

theorem seq_fst (p q : Prog) (s : FsState) : ((p ⨾ q) s).1 = (q (p s).1).1 := rfl
theorem acts_store (g : FsState → List Act) (s : FsState) : (acts g s).1.store = s.store := rfl
theorem acts_disk (g : FsState → List Act) (s : FsState) : (acts g s).1.disk = (s.disk.runActs (g s)).1 := rfl
theorem acts_deferred (g : FsState → List Act) (s : FsState) : (acts g s).1.deferred = s.deferred := rfl
theorem applyP_store (op : Op) (s : FsState) : (applyP op s).1.store = s.store.apply op := rfl
theorem applyP_disk (op : Op) (s : FsState) : (applyP op s).1.disk = s.disk := rfl
theorem applyP_deferred (op : Op) (s : FsState) : (applyP op s).1.deferred = s.deferred := rfl
theorem cond_eq (c : FsState → Bool) (p q : Prog) (s : FsState) : cond c p q s = if c s then p s else q s := rfl

theorem newBlobP_store (op : Op) (s : FsState) : (newBlobP op s).1.store = s.store.apply op := rfl
theorem newBlobP_deferred (op : Op) (s : FsState) : (newBlobP op s).1.deferred = s.deferred := rfl
theorem newBlobP_idx (op : Op) (s : FsState) : (newBlobP op s).1.disk.idx = s.disk.idx :=
  runActs_idx_of_noDump s.disk (NoDump.singleton rfl)

theorem ensureActiveP_store (s : FsState) : (ensureActiveP s).1.store = s.store.ensureActive := by
  rw [Store.ensureActive_eq_apply]
  unfold ensureActiveP
  rw [cond_eq]
  cases ha : s.store.active with
  | none => rfl
  | some a => simp [skip, Store.apply, Store.tryCreateActive, ha]

theorem ensureActiveP_idx (s : FsState) : (ensureActiveP s).1.disk.idx = s.disk.idx := by
  unfold ensureActiveP
  rw [cond_eq]
  split
  · exact newBlobP_idx _ s
  · rfl

theorem ensureActiveP_deferred (s : FsState) : (ensureActiveP s).1.deferred = s.deferred := by
  unfold ensureActiveP
  rw [cond_eq]
  split <;> rfl

end Fs

/-! ## Part 2: the correspondence -/

namespace FsAcct
open Fs

/-- the directory-level operations a driver-level operation stands for, in the state it is issued in: a rotation
    runs its dump pass unless a deferred dump is registered; `force` goes ahead iff its predicate holds of the active
    blob; `free` and `settle` are a dump pass; `fsync`, queries and `close` touch no length and no index file of the
    directory model (what `close` dumps is written by the `restart` that follows it); `restart`, and `open` of a closed
    storage, are a restart without damage and without `ignore_corrupted`; a closed storage ignores everything else -/
def tr (f : FsState) : FsOp → List Acct.AOp
  | .write k ts m d rot => if f.isOpen then [.write k ts m d rot (!f.deferred)] else []
  | .delete k ts m oip => if f.isOpen then [.delete k ts m oip] else []
  | .closeActive => if f.isOpen then [.closeActive] else []
  | .createActive => if f.isOpen then [.createActive] else []
  | .restoreActive => if f.isOpen then [.restoreActive] else []
  | .force pred => if f.isOpen then [.force (pred f.store.activeStat)] else []
  | .free => if f.isOpen then [.settle] else []
  | .settle => if f.isOpen then [.settle] else []
  | .fsync => []
  | .restart lazy => if f.isOpen then [.restart lazy false []] else []
  | .close => []
  | .open lazy => if f.isOpen then [] else [.restart lazy false []]
  | .query => []

/-- the directory-level history of a list of driver-level operations -/
def trFrom : FsState → List FsOp → List Acct.AOp
  | _, [] => []
  | f, op :: ops => tr f op ++ trFrom (emit f op).1 ops

/-- … from `init` on an empty directory -/
def toAOps (dup : Bool) (limit klen : Nat) (unc rs : Bool) (ops : List FsOp) : List Acct.AOp :=
  trFrom (init dup limit klen unc rs).1 ops

theorem runFrom_fst_indep (s : FsState) (t t' : List Event) (ops : List FsOp) :
    (runFrom (s, t) ops).1 = (runFrom (s, t') ops).1 := by
  induction ops generalizing s t t' with
  | nil => rfl
  | cons o os ih => rw [runFrom_cons, runFrom_cons]; exact ih _ _ _

theorem trFrom_append (f : FsState) (ops more : List FsOp) :
    trFrom f (ops ++ more) = trFrom f ops ++ trFrom (runFrom (f, []) ops).1 more := by
  induction ops generalizing f with
  | nil => rfl
  | cons op ops ih =>
    rw [List.cons_append, trFrom, trFrom, ih, List.append_assoc, runFrom_cons]
    rw [runFrom_fst_indep (emit f op).1 [] ([] ++ (emit f op).2)]

theorem tr_noDamage (f : FsState) (op : FsOp) : ∀ o ∈ tr f op, Acct.NoDamage o := by
  intro o ho
  cases op <;> simp only [tr] at ho <;> (try split at ho) <;>
    first
      | (cases ho; done)
      | (rw [List.mem_singleton] at ho; subst ho; first | trivial | rfl)

theorem trFrom_noDamage : ∀ (f : FsState) (ops : List FsOp), ∀ o ∈ trFrom f ops, Acct.NoDamage o
  | _, [], o, ho => by cases ho
  | f, op :: ops, o, ho => by
    rw [trFrom, List.mem_append] at ho
    rcases ho with h | h
    · exact tr_noDamage f op o h
    · exact trFrom_noDamage _ ops o h

/-- the simulation relation: same L2 store, the structural invariants of both models, a directory in which nothing
    was ever quarantined or skipped, and the same index files with the same `blob_size` field -/
structure R0 (c : Acct.Cfg) (f : FsState) (a : Acct.State) : Prop where
  store : a.store = f.store
  klen : f.klen = c.klen
  inv : Acct.Inv c a
  ign : a.ignored = []
  corr : a.dir.corrupted = []
  coh : Coh f
  full : Full f
  idx : ∀ id, (Acct.get a.dir.idx id).map (·.blobSize) = f.disk.idx id

/-- the blob files and their lengths agree, as a consequence -/
theorem R0.blobs {c : Acct.Cfg} {f : FsState} {a : Acct.State} (h : R0 c f a) (id : Nat) :
    Acct.get a.dir.blobs id = szOf f.disk id := by
  by_cases hb : ∃ b ∈ f.store.blobs, b.id = id
  · obtain ⟨b, hb, rfl⟩ := hb
    have h1 := h.full (b.id, b.recs) (List.mem_map_of_mem (f := fun b => (b.id, b.recs)) hb)
    have ob := h.inv.ok b (by rw [h.store]; exact hb)
    rw [h1, ob.file, ob.size, h.klen]
  · have h1 : szOf f.disk id = none := by
      cases hs : szOf f.disk id with
      | none => rfl
      | some l =>
        have : (f.disk.files id).isSome := by rw [isSome_files_eq_szOf, hs]; rfl
        exact absurd (h.coh.dom id this) hb
    rw [h1]
    apply Acct.get_eq_none_iff.2
    intro hk
    rcases (h.inv.files id).1 hk with hx | hx
    · rw [h.store] at hx; exact hb hx
    · rw [h.ign] at hx; cases hx

/-- the length both models give the file of a held blob -/
theorem R0.size {c : Acct.Cfg} {f : FsState} {a : Acct.State} (h : R0 c f a) {b : Blob} (hb : b ∈ f.store.blobs) :
    szOf f.disk b.id = some (a.fsz b.id) := by
  have ob := h.inv.ok b (by rw [h.store]; exact hb)
  rw [← h.blobs, ob.file]

theorem R0.next {c : Acct.Cfg} {f f' : FsState} {a a' : Acct.State} (h : R0 c f a)
    (hst : a'.store = f'.store) (hk : f'.klen = f.klen) (hinv : Acct.Inv c a') (hq : Acct.sameQ a a')
    (hc : Coh f') (hf : Full f')
    (hidx : ∀ id, (Acct.get a'.dir.idx id).map (·.blobSize) = f'.disk.idx id) : R0 c f' a' :=
  ⟨hst, hk.trans h.klen, hinv, hq.1.trans h.ign, hq.2.trans h.corr, hc, hf, hidx⟩


/-! ### index files (re)written by a batch of dumps -/

/-- `Fs`: a batch of dumps of held blobs `L`, the dump of `b` carrying an index iff `w b`; `Acct`: the index files of
    `L.filter w` are created or replaced, each with the `File::size()` of its blob in the `blob_size` field.  The index
    files agree afterwards. -/
theorem idx_agree_replace {c : Acct.Cfg} {f : FsState} {a : Acct.State} (h : R0 c f a) (d : Disk)
    (hsz : ∀ j, szOf d j = szOf f.disk j) (hidx : d.idx = f.disk.idx) (L : List Blob) (w : Blob → Bool)
    (hL : ∀ b ∈ L, b ∈ f.store.blobs) (F : Blob → Acct.IdxFile) (hF : ∀ b ∈ L, (F b).blobSize = a.fsz b.id)
    (id : Nat) :
    (Acct.get (Acct.del a.dir.idx (fun i => (L.filter w).any (·.id == i)) ++
        (L.filter w).map (fun b => (b.id, F b))) id).map (·.blobSize) =
      (d.runActs (L.map fun b => Act.dump b.id (w b))).1.idx id := by
  have hex : ∀ b ∈ L, (d.files b.id).isSome := by
    intro b hb
    rw [isSome_files_eq_szOf, hsz, h.size (hL b hb)]; rfl
  rw [Acct.get_replace, runActs_dumps w L d hex id]
  cases hf : (L.filter w).find? (·.id == id) with
  | some t =>
    have ht := List.mem_filter.1 (List.mem_of_find?_eq_some hf)
    have hid : t.id = id := by simpa using List.find?_some hf
    have hany : L.any (fun b => b.id == id && w b) = true :=
      List.any_eq_true.2 ⟨t, ht.1, by simp [hid, ht.2]⟩
    simp only [hany, if_true, Option.map_some]
    rw [hsz, ← hid, h.size (hL t ht.1), hF t ht.1]
  | none =>
    have hany : L.any (fun b => b.id == id && w b) = false := by
      rw [Bool.eq_false_iff]
      intro hc
      obtain ⟨b, hb, hbw⟩ := List.any_eq_true.1 hc
      simp only [Bool.and_eq_true, beq_iff_eq] at hbw
      have := List.find?_eq_none.1 hf b (List.mem_filter.2 ⟨hb, hbw.2⟩)
      simp [hbw.1] at this
    simp only [hany, Bool.false_eq_true, if_false]
    rw [hidx]; exact h.idx id

/-! ### the building blocks -/

section pieces
variable {c : Acct.Cfg} {f : FsState} {a : Acct.State}

theorem acct_ensureActive_idx (a : Acct.State) : (Acct.ensureActive a).dir.idx = a.dir.idx := by
  unfold Acct.ensureActive; split <;> rfl

/-- `ensure_active_blob_exists` -/
theorem sim_ensureActive (h : R0 c f a) : R0 c (ensureActiveP f).1 (Acct.ensureActive a) :=
  h.next (by rw [Acct.ensureActive_store, ensureActiveP_store, h.store]) (ensureActiveP_klen f)
    (Acct.inv_ensureActive h.inv) (Acct.sameQ_ensureActive a) (Sound.ensureActiveP f h.coh).coh
    (SoundF.ensureActiveP f h.coh h.full)
    (fun id => by rw [acct_ensureActive_idx, ensureActiveP_idx]; exact h.idx id)

/-- a batch of actions that creates nothing, appends nothing and dumps no index (fsyncs, opens) -/
theorem sim_quiet (h : R0 c f a) (g : FsState → List Act) (h1 : ∀ s, NoCreate (g s)) (h2 : ∀ s, NoAppend (g s))
    (h3 : NoDump (g f)) : R0 c (acts g f).1 a :=
  h.next h.store rfl h.inv (Acct.sameQ.refl a) (Sound.acts h1 f h.coh).coh (SoundF.acts h1 h2 f h.coh h.full)
    (fun id => by rw [acts_disk, runActs_idx_of_noDump _ h3]; exact h.idx id)

/-- `Safe::replace_active_blob` with a fresh blob -/
theorem sim_replace (h : R0 c f a) :
    R0 c (newBlobP .replaceActive f).1 { Acct.newBlobFile a with store := a.store.apply .replaceActive } :=
  h.next (by rw [newBlobP_store, ← h.store]) rfl (Acct.inv_replace h.inv) ⟨rfl, rfl⟩
    (Sound.newBlob_replace f h.coh).coh (SoundF.newBlob_replace f h.coh h.full)
    (fun id => by rw [newBlobP_idx]; exact h.idx id)

theorem dumpTargets_eq (st : Store) :
    Acct.dumpTargets st = (st.closed.filter (fun b => !b.onDisk)).filter (fun b => !b.recs.isEmpty) := by
  unfold Acct.dumpTargets
  rw [List.filter_filter]
  congr 1
  funext b
  exact Bool.and_comm _ _

/-- one pass of `Safe::try_dump_old_blob_indexes` -/
theorem sim_dumpPass (h : R0 c f a) : R0 c (dumpPassP f).1 (Acct.dumpPass c a) := by
  refine h.next ?_ rfl (Acct.inv_dumpPass h.inv) (Acct.sameQ_dumpPass c a) (sound_dumpPassP f h.coh).coh
    (SoundF.dumpPassP f h.coh h.full) ?_
  · show a.store.apply .settle = f.store.apply .settle
    rw [h.store]
  · intro id
    show (Acct.get (Acct.del a.dir.idx (fun i => (Acct.dumpTargets a.store).any (·.id == i)) ++
        (Acct.dumpTargets a.store).map (fun b => (b.id, Acct.idxOf c a b))) id).map (·.blobSize) =
      (f.disk.runActs (dumpActs f.store)).1.idx id
    rw [dumpTargets_eq, h.store]
    exact idx_agree_replace h f.disk (fun _ => rfl) rfl _ (fun b => !b.recs.isEmpty)
      (fun b hb => Acct.mem_blobs_of_closed (List.mem_filter.1 hb).1) _ (fun _ _ => rfl) id

/-- `Inner::close_active_blob`: the active blob is pushed into the container -/
theorem sim_applyClose (h : R0 c f a) :
    R0 c (applyP .closeActive f).1 { a with store := a.store.apply .closeActive } :=
  h.next (by rw [applyP_store, ← h.store]) rfl
    (h.inv.store_same _ (Acct.closeActive_blobs a.store).1 (Acct.closeActive_blobs a.store).2.1
      (fun x hx => by rw [(Acct.closeActive_blobs a.store).2.2] at hx; cases hx))
    ⟨rfl, rfl⟩ (Sound.applyP _ f h.coh).coh
    (SoundF.applyP (fun st _ _ => history_closeActive st) f h.coh h.full) h.idx

/-- `Inner::restore_active_blob` -/
theorem sim_applyRestore (h : R0 c f a) : R0 c (applyP .restoreActive f).1 (Acct.restoreActive a) :=
  h.next (by rw [applyP_store, ← h.store]; rfl) rfl (Acct.inv_restoreActive h.inv) ⟨rfl, rfl⟩
    (Sound.applyP _ f h.coh).coh (SoundF.applyP (fun st _ _ => history_restoreActive st) f h.coh h.full) h.idx


theorem acct_ensureActive_of_some {a : Acct.State} {x : Blob} (hx : a.store.active = some x) :
    Acct.ensureActive a = a := by
  unfold Acct.ensureActive; rw [hx]

/-- `Blob::write` into the active blob: the part of `Acct.write` between `ensure_active_blob_exists` and the rotation -/
def writeCore (c : Acct.Cfg) (a : Acct.State) (k : Key) (ts : Nat) (m : Option Meta) (d : Data) : Acct.State :=
  match a.store.active with
  | none => a
  | some x =>
    { Acct.appendWhere a (· == x.id) (recLen c.klen (writeRec k ts m d)) with
      store := a.store.apply (.write k ts m d) }

theorem acct_write_eq (c : Acct.Cfg) (a : Acct.State) (k : Key) (ts : Nat) (m : Option Meta) (d : Data)
    (rot dmp : Bool) :
    Acct.write c a k ts m d rot dmp =
      if !(Acct.ensureActive a).store.allowDup && ((Acct.ensureActive a).store.getLatestEntry k m).isFound then
        Acct.ensureActive a
      else if rot then Acct.rotate c (writeCore c (Acct.ensureActive a) k ts m d) dmp
      else writeCore c (Acct.ensureActive a) k ts m d := by
  obtain ⟨x, hx⟩ := Acct.ensureActive_active a
  unfold Acct.write writeCore
  simp only [hx]

theorem writeCore_of_live {c : Acct.Cfg} {a : Acct.State} {x : Blob} (hx : a.store.active = some x)
    (k : Key) (ts : Nat) (m : Option Meta) (d : Data)
    (hrej : (!a.store.allowDup && (a.store.getLatestEntry k m).isFound) = false) :
    Acct.write c a k ts m d false false = writeCore c a k ts m d := by
  rw [acct_write_eq, acct_ensureActive_of_some hx, hrej]
  simp

/-- `Blob::write` into the active blob -/
theorem sim_appendActive (h : R0 c f a) {x : Blob} (hx : f.store.active = some x) (k : Key) (ts : Nat)
    (m : Option Meta) (d : Data)
    (hrej : (!f.store.allowDup && (f.store.getLatestEntry k m).isFound) = false) :
    R0 c (appendActiveP k ts m d f).1 (writeCore c a k ts m d) := by
  have hxa : a.store.active = some x := by rw [h.store]; exact hx
  have hrej' : (!a.store.allowDup && (a.store.getLatestEntry k m).isFound) = false := by rw [h.store]; exact hrej
  have hinv : Acct.Inv c (writeCore c a k ts m d) := by
    rw [← writeCore_of_live hxa k ts m d hrej']; exact Acct.inv_write h.inv k ts m d false false
  have hw : writeCore c a k ts m d =
      { Acct.appendWhere a (· == x.id) (recLen c.klen (writeRec k ts m d)) with
        store := a.store.apply (.write k ts m d) } := by
    unfold writeCore; rw [hxa]
  refine h.next ?_ rfl hinv ?_ (sound_appendActiveP k ts m d f h.coh).coh
    (full_write_core h.coh h.full hx k ts m d hrej) ?_
  · rw [hw]
    show a.store.apply (.write k ts m d) = f.store.apply (.write k ts m d)
    rw [h.store]
  · rw [hw]; exact ⟨rfl, rfl⟩
  · intro id
    rw [hw]
    show (Acct.get a.dir.idx id).map (·.blobSize) = (f.disk.runActs _).1.idx id
    rw [runActs_idx_of_noDump]
    · exact h.idx id
    · simp only [hx]; exact NoDump.singleton rfl

/-- `Storage::delete_with_optional_meta` after `ensure_active_blob_exists` -/
def deleteCore (c : Acct.Cfg) (a : Acct.State) (k : Key) (ts : Nat) (m : Option Meta) (oip : Bool) : Acct.State :=
  { Acct.appendWhere a (fun id => (Acct.delTargets a.store k oip).any (·.id == id))
      (recLen c.klen (markerRec k ts m)) with
    store := a.store.apply (.delete k ts m oip) }

theorem acct_delete_eq (c : Acct.Cfg) (a : Acct.State) (k : Key) (ts : Nat) (m : Option Meta) (oip : Bool) :
    Acct.delete c a k ts m oip = deleteCore c (if oip then a else Acct.ensureActive a) k ts m oip := rfl

theorem noDump_deleteActs (klen : Nat) (st : Store) (k : Key) (ts : Nat) (m : Option Meta) (oip : Bool) :
    NoDump (deleteActs klen st k ts m oip) := by
  unfold deleteActs
  refine NoDump.append ?_ (NoDump.map (fun _ => rfl))
  split
  · split
    · exact NoDump.singleton rfl
    · exact NoDump.nil
  · exact NoDump.nil

theorem sim_deleteCore (h : R0 c f a) (k : Key) (ts : Nat) (m : Option Meta) (oip : Bool)
    (hP : oip = true ∨ f.store.active.isSome = true) :
    R0 c (deleteCoreP k ts m oip f).1 (deleteCore c a k ts m oip) := by
  have hinv : Acct.Inv c (deleteCore c a k ts m oip) := by
    have := Acct.inv_delete h.inv k ts m oip
    rw [acct_delete_eq] at this
    rcases hP with hP | hP
    · rw [hP] at this ⊢; exact this
    · obtain ⟨x, hx⟩ := Option.isSome_iff_exists.1 hP
      rw [acct_ensureActive_of_some (by rw [h.store]; exact hx)] at this
      simpa using this
  refine h.next ?_ rfl hinv ⟨rfl, rfl⟩ (sound_deleteCoreP k ts m oip f h.coh).coh
    (full_delete_core h.coh h.full k ts m oip hP) ?_
  · show a.store.apply (.delete k ts m oip) = f.store.apply (.delete k ts m oip)
    rw [h.store]
  · intro id
    show (Acct.get a.dir.idx id).map (·.blobSize) = (f.disk.runActs (deleteActs f.klen f.store k ts m oip)).1.idx id
    rw [runActs_idx_of_noDump _ (noDump_deleteActs _ _ _ _ _ _)]
    exact h.idx id

/-- `Storage::close`: the active blob is dumped -/
theorem sim_close (h : R0 c f a) : R0 c (closeP f).1 (Acct.closeSession c a) := by
  refine h.next (by rw [Acct.closeSession_store]; exact h.store) rfl (Acct.inv_closeSession h.inv)
    ⟨Acct.closeSession_ignored c a, Acct.closeSession_corrupted c a⟩ (sound_closeP f h.coh).coh
    (soundF_closeP f h.coh h.full) ?_
  intro id
  cases hx : f.store.active with
  | none =>
    have hxa : a.store.active = none := by rw [h.store]; exact hx
    have e1 : Acct.closeSession c a = a := by unfold Acct.closeSession; rw [hxa]
    have e2 : (closeP f).1.disk = (f.disk.runActs []).1 := by
      show (f.disk.runActs _).1 = _
      simp only [hx]
    rw [e1, e2]; exact h.idx id
  | some x =>
    have hxa : a.store.active = some x := by rw [h.store]; exact hx
    have hmem : x ∈ f.store.blobs := Acct.mem_blobs_of_active hx
    have hod : x.onDisk = false := h.inv.activeMem x hxa
    have e2 : (closeP f).1.disk = (f.disk.runActs ([x].map fun b => Act.dump b.id (!b.recs.isEmpty))).1 := by
      show (f.disk.runActs _).1 = _
      simp only [hx, List.map_cons, List.map_nil]
    have hex : ∀ b ∈ [x], (f.disk.files b.id).isSome := by
      intro b hb; rw [List.mem_singleton] at hb; subst hb; exact file_of_active h.full hx
    rw [e2, runActs_dumps (fun b => !b.recs.isEmpty) [x] f.disk hex id]
    unfold Acct.closeSession
    simp only [hxa, hod, Bool.not_false, Bool.true_and, List.any_cons, List.any_nil, Bool.or_false]
    cases hr : x.recs.isEmpty with
    | true => simp only [Bool.not_true, Bool.false_eq_true, if_false, Bool.and_false]; exact h.idx id
    | false =>
      simp only [Bool.not_false, if_true, Bool.and_true, beq_iff_eq]
      rw [Acct.get_put]
      by_cases hj : id = x.id
      · subst hj
        simp only [if_true, Option.map_some]
        rw [h.size hmem]; rfl
      · have : ¬ x.id = id := fun e => hj e.symm
        simp only [hj, this, if_false]; exact h.idx id


/-- `FileIndex::validate` gives the same answer in both models -/
theorem idxValid_agree (h : R0 c f a) (id : Nat) : Acct.idxValid a.dir id = Fs.idxValid f.disk id := by
  have h1 := h.idx id
  have h2 := h.blobs id
  unfold szOf at h2
  unfold Acct.idxValid Fs.idxValid
  cases hg : Acct.get a.dir.idx id <;> cases hb : Acct.get a.dir.blobs id <;>
    cases hd : f.disk.idx id <;> cases hf : f.disk.files id <;> simp_all

theorem acct_restart_idx (c : Acct.Cfg) (a : Acct.State) (lazy ignore : Bool) (bad : List Nat)
    (hne : (Acct.keys (Acct.closeSession c a).dir.blobs).isEmpty = false) :
    (Acct.restart c a lazy ignore bad).dir.idx =
      (Acct.initCore c (Acct.closeSession c a) lazy ignore bad).dir.idx := by
  unfold Acct.restart
  simp only [hne, Bool.false_eq_true, if_false]
  unfold Acct.initExisting
  simp only
  split <;> rfl

theorem noDump_opens (d : Disk) (bs : List Blob) :
    NoDump (bs.flatMap fun b => if (d.idx b.id).isSome then [Act.openBlob b.id, Act.openIdx b.id] else [Act.openBlob b.id]) := by
  apply NoDump.flatMap
  intro b; split
  · exact NoDump.append (l1 := [_]) (l2 := [_]) (NoDump.singleton rfl) (NoDump.singleton rfl)
  · exact NoDump.singleton rfl

theorem noCreate_opens (d : Disk) (bs : List Blob) :
    NoCreate (bs.flatMap fun b => if (d.idx b.id).isSome then [Act.openBlob b.id, Act.openIdx b.id] else [Act.openBlob b.id]) := by
  apply NoCreate.flatMap
  intro b; split
  · exact NoCreate.append (l1 := [_]) (l2 := [_]) (NoCreate.singleton rfl) (NoCreate.singleton rfl)
  · exact NoCreate.singleton rfl

theorem noAppend_opens (d : Disk) (bs : List Blob) :
    NoAppend (bs.flatMap fun b => if (d.idx b.id).isSome then [Act.openBlob b.id, Act.openIdx b.id] else [Act.openBlob b.id]) := by
  apply NoAppend.flatMap
  intro b; split
  · exact NoAppend.append (l1 := [_]) (l2 := [_]) (NoAppend.singleton rfl) (NoAppend.singleton rfl)
  · exact NoAppend.singleton rfl

/-- `init_from_existing` after `Storage::close`, nothing damaged: `f1` is the closed storage, `a` the directory-level
    state BEFORE `closeSession` (`Acct.restart` closes the session itself) -/
theorem sim_open {f1 : FsState} (h1 : R0 c f1 (Acct.closeSession c a)) (hinv : Acct.Inv c a)
    (hi : a.ignored = []) (hc : a.dir.corrupted = []) (lazy : Bool) :
    R0 c (openP lazy f1).1 (Acct.restart c a lazy false []) := by
  obtain ⟨hst, hi', hc'⟩ := Acct.restart_store_clean hinv hi hc lazy false
  have hs1 : f1.store = a.store := by rw [← h1.store, Acct.closeSession_store]
  refine ⟨?_, h1.klen, Acct.inv_restart hinv lazy false [], hi', hc', (sound_openP lazy f1 h1.coh).coh,
    soundF_openP lazy f1 h1.coh h1.full, ?_⟩
  · rw [hst, ← hs1]; rfl
  · intro id
    -- the directory-level side
    have hwf1 : (Acct.closeSession c a).store.WF := h1.inv.wf
    have hne : (Acct.keys (Acct.closeSession c a).dir.blobs).isEmpty = false := by
      cases hb : f1.store.blobs with
      | nil => exact absurd hb h1.coh.ne
      | cons b bs =>
        have hk : b.id ∈ Acct.keys (Acct.closeSession c a).dir.blobs :=
          (h1.inv.files b.id).2 (Or.inl ⟨b, by rw [h1.store, hb]; exact List.mem_cons_self .., rfl⟩)
        cases hke : Acct.keys (Acct.closeSession c a).dir.blobs with
        | nil => rw [hke] at hk; cases hk
        | cons _ _ => rfl
    have hu : Acct.unreadable (Acct.closeSession c a) [] = [] := Acct.unreadable_clean h1.ign
    rw [acct_restart_idx c a lazy false [] hne]
    have hsort : Store.sortById f1.store.blobs = f1.store.blobs := Store.sortById_of_sorted _ h1.coh.wf.1
    -- the trace-level side
    have e2 : (openP lazy f1).1.disk = (f1.disk.runActs (openActs f1.disk f1.store lazy)).1 := rfl
    rw [e2]
    unfold openActs
    simp only [hsort]
    rw [runActs_append]
    simp only
    -- the closed blobs
    generalize hrest : (if lazy = true then f1.store.blobs else f1.store.blobs.dropLast) = rest
    have hrest_sub : ∀ b ∈ rest, b ∈ f1.store.blobs := by
      intro b hb
      rw [← hrest] at hb
      cases lazy with
      | true => exact hb
      | false => exact (List.dropLast_sublist _).subset hb
    have hcl : (if lazy = true then Acct.keptBlobs (Acct.closeSession c a) []
        else (Acct.keptBlobs (Acct.closeSession c a) []).dropLast) = rest := by
      rw [Acct.keptBlobs_clean hwf1 hu, h1.store]; exact hrest
    have hdir := Acct.dirAfterRead_clean hu false
    show (Acct.get (Acct.del (Acct.dirAfterRead (Acct.closeSession c a) false []).idx
          (fun i => (List.filter (fun b => !Acct.idxValid (Acct.dirAfterRead (Acct.closeSession c a) false []) b.id &&
            !b.recs.isEmpty) (if lazy = true then Acct.keptBlobs (Acct.closeSession c a) []
              else (Acct.keptBlobs (Acct.closeSession c a) []).dropLast)).any (·.id == i)) ++
        (List.filter (fun b => !Acct.idxValid (Acct.dirAfterRead (Acct.closeSession c a) false []) b.id &&
            !b.recs.isEmpty) (if lazy = true then Acct.keptBlobs (Acct.closeSession c a) []
              else (Acct.keptBlobs (Acct.closeSession c a) []).dropLast)).map
          (fun b => (b.id, (⟨c.idxLen b.recs, Acct.blobFileLen (Acct.dirAfterRead (Acct.closeSession c a) false []) b.id⟩ :
            Acct.IdxFile)))) id).map (·.blobSize) = _
    rw [hcl, hdir]
    have hfil : List.filter (fun b => !Acct.idxValid (Acct.closeSession c a).dir b.id && !b.recs.isEmpty) rest =
        (rest.filter (fun b => !Fs.idxValid f1.disk b.id)).filter (fun b => !b.recs.isEmpty) := by
      rw [List.filter_filter]
      congr 1
      funext b
      rw [idxValid_agree h1 b.id, Bool.and_comm]
    rw [hfil]
    refine idx_agree_replace h1 _ (fun j => runActs_szOf_of_quiet _ (noCreate_opens _ _) (noAppend_opens _ _) j)
      (runActs_idx_of_noDump _ (noDump_opens _ _)) _ (fun b => !b.recs.isEmpty)
      (fun b hb => hrest_sub b (List.mem_filter.1 hb).1) _ ?_ id
    intro b hb
    have hbm := hrest_sub b (List.mem_filter.1 hb).1
    have ob := h1.inv.ok b (by rw [h1.store]; exact hbm)
    show Acct.blobFileLen (Acct.closeSession c a).dir b.id = _
    unfold Acct.blobFileLen
    rw [ob.file]; rfl


/-! ### composite blocks -/

theorem noCreate_fsyncCheck (s : FsState) :
    NoCreate (match s.store.active with
      | some x => if s.dirtyOf x.id > s.limit then [Act.syncBlob x.id] else []
      | none => []) := by
  (repeat' split) <;> first | exact NoCreate.nil | exact NoCreate.singleton rfl

theorem noAppend_fsyncCheck (s : FsState) :
    NoAppend (match s.store.active with
      | some x => if s.dirtyOf x.id > s.limit then [Act.syncBlob x.id] else []
      | none => []) := by
  (repeat' split) <;> first | exact NoAppend.nil | exact NoAppend.singleton rfl

theorem noDump_fsyncCheck (s : FsState) :
    NoDump (match s.store.active with
      | some x => if s.dirtyOf x.id > s.limit then [Act.syncBlob x.id] else []
      | none => []) := by
  (repeat' split) <;> first | exact NoDump.nil | exact NoDump.singleton rfl

/-- `Inner::fsyncdata` changes no length and no index file -/
theorem sim_fsyncCheck (h : R0 c f a) : R0 c (fsyncCheckP f).1 a :=
  sim_quiet h _ noCreate_fsyncCheck noAppend_fsyncCheck (noDump_fsyncCheck f)

theorem sim_fsync (h : R0 c f a) : R0 c (fsyncP f).1 a := by
  refine sim_quiet h _ ?_ ?_ ?_
  · intro s; (repeat' split) <;> first | exact NoCreate.nil | exact NoCreate.singleton rfl
  · intro s; (repeat' split) <;> first | exact NoAppend.nil | exact NoAppend.singleton rfl
  · (repeat' split) <;> first | exact NoDump.nil | exact NoDump.singleton rfl

/-- `TryUpdateActiveBlob` taking effect: the dump pass runs unless a deferred dump is registered -/
theorem sim_rotate (h : R0 c f a) : R0 c (rotateP f).1 (Acct.rotate c a (!f.deferred)) := by
  have h3 := sim_replace h
  have hd : (newBlobP .replaceActive f).1.deferred = f.deferred := rfl
  show R0 c (Fs.cond (fun s => s.deferred) skip dumpPassP (newBlobP .replaceActive f).1).1 _
  rw [cond_eq, hd]
  unfold Acct.rotate
  cases f.deferred with
  | true => exact h3
  | false => exact sim_dumpPass h3

/-- `Storage::write_with_optional_meta` -/
theorem sim_write (h : R0 c f a) (k : Key) (ts : Nat) (m : Option Meta) (d : Data) (rot : Bool) :
    R0 c (writeP k ts m d rot f).1 (Acct.write c a k ts m d rot (!f.deferred)) := by
  have h1 := sim_ensureActive h
  have hd1 := ensureActiveP_deferred f
  have ha1 := ensureActiveP_active f
  rw [acct_write_eq, writeP_eq]
  show R0 c (Fs.cond _ skip _ (ensureActiveP f).1).1 _
  generalize (ensureActiveP f).1 = f1 at h1 hd1 ha1
  generalize Acct.ensureActive a = a1 at h1
  rw [cond_eq, h1.store]
  cases hrej : (!f1.store.allowDup && (f1.store.getLatestEntry k m).isFound) with
  | true => exact h1
  | false =>
    obtain ⟨x, hx⟩ := Option.isSome_iff_exists.1 ha1
    have h2 := sim_appendActive h1 hx k ts m d hrej
    have hd2 : (appendActiveP k ts m d f1).1.deferred = f.deferred := hd1
    simp only [Bool.false_eq_true, if_false]
    show R0 c ((if rot then rotateP else fsyncCheckP) (appendActiveP k ts m d f1).1).1 _
    cases rot with
    | true =>
      simp only [if_true]
      rw [← hd2]; exact sim_rotate h2
    | false =>
      simp only [Bool.false_eq_true, if_false]
      exact sim_fsyncCheck h2

/-- `Storage::delete_with_optional_meta` -/
theorem sim_delete (h : R0 c f a) (k : Key) (ts : Nat) (m : Option Meta) (oip : Bool) :
    R0 c (deleteP k ts m oip f).1 (Acct.delete c a k ts m oip) := by
  rw [deleteP_eq, acct_delete_eq]
  show R0 c (fsyncCheckP (deleteCoreP k ts m oip ((if oip then skip else ensureActiveP) f).1).1).1 _
  cases oip with
  | true => exact sim_fsyncCheck (sim_deleteCore h k ts m true (Or.inl rfl))
  | false =>
    simp only [Bool.false_eq_true, if_false]
    exact sim_fsyncCheck (sim_deleteCore (sim_ensureActive h) k ts m false (Or.inr (ensureActiveP_active f)))

/-- `try_close_active_blob` -/
theorem sim_closeActive (h : R0 c f a) : R0 c (closeActiveP f).1 (Acct.closeActive c a) := by
  have h1 : R0 c (acts (fun s => match s.store.active with | some x => [Act.syncBlob x.id] | none => []) f).1 a := by
    refine sim_quiet h _ ?_ ?_ ?_
    · intro s; split <;> first | exact NoCreate.nil | exact NoCreate.singleton rfl
    · intro s; split <;> first | exact NoAppend.nil | exact NoAppend.singleton rfl
    · split <;> first | exact NoDump.nil | exact NoDump.singleton rfl
  exact sim_dumpPass (sim_applyClose h1)

/-- `restore_active_blob` -/
theorem sim_restoreActive (h : R0 c f a) : R0 c (restoreActiveP f).1 (Acct.restoreActive a) := by
  unfold restoreActiveP
  rw [cond_eq]
  cases hok : restoreOk f.store with
  | true =>
    simp only [if_true]
    have h1 := sim_applyRestore h
    show R0 c (Fs.cond (fun s => s.restoreSyncsOverLimit) fsyncCheckP skip (applyP .restoreActive f).1).1 _
    rw [cond_eq]
    split
    · exact sim_fsyncCheck h1
    · exact h1
  | false =>
    simp only [Bool.false_eq_true, if_false]
    have : a.store.apply .restoreActive = a.store := by
      rw [h.store]
      unfold restoreOk at hok
      simp only [Store.apply]
      split at hok
      · cases hok
      · rename_i e he; rw [he]
    have e : Acct.restoreActive a = a := by
      unfold Acct.restoreActive; rw [this]
    rw [e]; exact h

/-- `force_update_active_blob(pred)` -/
theorem sim_force (h : R0 c f a) (pred : BlobPred) :
    R0 c (forceP pred f).1 (Acct.force c a (pred f.store.activeStat)) := by
  unfold forceP Acct.force
  show R0 c (dumpPassP (Fs.cond (fun s => pred s.store.activeStat) (newBlobP .replaceActive) skip f).1).1 _
  rw [cond_eq]
  cases pred f.store.activeStat with
  | true => exact sim_dumpPass (sim_replace h)
  | false => exact sim_dumpPass h

theorem settle_of_not_pending {st : Store} (hp : pending st = false) : st.apply .settle = st := by
  show st.settle = st
  unfold Store.settle
  have : st.slots.map (fun o => o.map (fun b => if b.recs.isEmpty then b else { b with onDisk := true })) =
      st.slots := by
    conv => rhs; rw [← List.map_id st.slots]
    apply List.map_congr_left
    intro o ho
    cases o with
    | none => rfl
    | some b =>
      simp only [Option.map_some, id]
      cases hr : b.recs.isEmpty with
      | true => rfl
      | false =>
        have hb : b ∈ st.closed := by
          unfold Store.closed; exact List.mem_filterMap.2 ⟨some b, ho, rfl⟩
        unfold pending at hp
        have := List.any_eq_false.1 hp b hb
        simp only [hr, Bool.not_false, Bool.true_and, Bool.not_eq_true', Bool.not_eq_false] at this
        simp only [Bool.false_eq_true, if_false]
        cases b; simp_all
  rw [this]

/-- the `settle` command: a dump pass that, when no index is pending, changes nothing on either side -/
theorem sim_settle (h : R0 c f a) : R0 c (settleP f).1 (Acct.dumpPass c a) := by
  unfold settleP
  rw [cond_eq]
  cases hp : pending f.store with
  | true => exact sim_dumpPass h
  | false =>
    simp only [Bool.false_eq_true, if_false]
    have hts : Acct.dumpTargets a.store = [] := by
      unfold Acct.dumpTargets
      rw [List.filter_eq_nil_iff, h.store]
      intro b hb
      unfold pending at hp
      have := List.any_eq_false.1 hp b hb
      simp only [Bool.and_eq_true, not_and, Bool.not_eq_true'] at this ⊢
      intro h1
      cases hr : b.recs.isEmpty with
      | true => simp
      | false => simp [hr, h1] at this
    refine h.next ?_ rfl (Acct.inv_dumpPass h.inv) (Acct.sameQ_dumpPass c a) h.coh h.full ?_
    · show a.store.apply .settle = f.store
      rw [h.store]; exact settle_of_not_pending hp
    · intro id
      show (Acct.get (Acct.del a.dir.idx (fun i => (Acct.dumpTargets a.store).any (·.id == i)) ++
        (Acct.dumpTargets a.store).map (fun b => (b.id, Acct.idxOf c a b))) id).map (·.blobSize) = _
      rw [Acct.get_replace, hts]
      exact h.idx id

end pieces


/-! ### operations and runs -/

/-- programs that neither close nor open the storage -/
def KeepsOpen (p : Prog) : Prop := ∀ s, (p s).1.isOpen = s.isOpen

theorem KeepsOpen.skip : KeepsOpen skip := fun _ => rfl
theorem KeepsOpen.acts (g : FsState → List Act) : KeepsOpen (acts g) := fun _ => rfl
theorem KeepsOpen.modify {g : FsState → FsState} (h : ∀ s, (g s).isOpen = s.isOpen) : KeepsOpen (modify g) := h
theorem KeepsOpen.seq {p q : Prog} (hp : KeepsOpen p) (hq : KeepsOpen q) : KeepsOpen (p ⨾ q) := by
  intro s; rw [seq_fst, hq, hp]
theorem KeepsOpen.cond {c : FsState → Bool} {p q : Prog} (hp : KeepsOpen p) (hq : KeepsOpen q) :
    KeepsOpen (cond c p q) := by
  intro s; rw [cond_eq]; split
  · exact hp s
  · exact hq s

theorem keepsOpen_restoreActiveP : KeepsOpen restoreActiveP :=
  KeepsOpen.cond
    (KeepsOpen.seq (KeepsOpen.modify (fun _ => rfl)) (KeepsOpen.cond (KeepsOpen.acts _) KeepsOpen.skip))
    KeepsOpen.skip

theorem keepsOpen_prog (op : FsOp) (h1 : ∀ lazy, op ≠ .restart lazy) (h2 : op ≠ .close) : KeepsOpen (prog op) := by
  cases op
  case restoreActive => exact keepsOpen_restoreActiveP
  case restart lazy => exact absurd rfl (h1 lazy)
  case close => exact absurd rfl h2
  all_goals unfold_progs
  all_goals
    repeat (first
      | exact KeepsOpen.skip | exact KeepsOpen.acts _
      | exact KeepsOpen.modify (fun _ => rfl) | apply KeepsOpen.cond | apply KeepsOpen.seq | split)

/-- the relation along a run: while the storage is closed, the directory model has not yet been told (`Acct.restart`
    closes the session itself), so it is its `closeSession` that matches -/
def R (c : Acct.Cfg) (f : FsState) (a : Acct.State) : Prop :=
  if f.isOpen then R0 c f a
  else R0 c f (Acct.closeSession c a) ∧ Acct.Inv c a ∧ a.ignored = [] ∧ a.dir.corrupted = []

/-- the directory-level state the trace-level state is compared with -/
def eff (c : Acct.Cfg) (f : FsState) (a : Acct.State) : Acct.State :=
  if f.isOpen then a else Acct.closeSession c a

theorem R.r0 {c : Acct.Cfg} {f : FsState} {a : Acct.State} (h : R c f a) : R0 c f (eff c f a) := by
  unfold R at h; unfold eff
  split
  · rw [if_pos ‹_›] at h; exact h
  · rw [if_neg ‹_›] at h; exact h.1

theorem R.of_open {c : Acct.Cfg} {f : FsState} {a : Acct.State} (ho : f.isOpen = true) (h : R0 c f a) : R c f a := by
  unfold R; rw [if_pos ho]; exact h

theorem acct_runFrom_one (c : Acct.Cfg) (a : Acct.State) (op : Acct.AOp) :
    Acct.runFrom c a [op] = Acct.step c a op := rfl

/-- one driver-level operation against the directory-level operations it stands for -/
theorem emit_sim {c : Acct.Cfg} {f : FsState} {a : Acct.State} (h : R c f a) (op : FsOp) :
    R c (emit f op).1 (Acct.runFrom c a (tr f op)) := by
  unfold emit
  cases ho : f.isOpen with
  | true =>
    have h0 : R0 c f a := by unfold R at h; rw [if_pos ho] at h; exact h
    simp only [if_true]
    by_cases hr : ∃ lazy, op = .restart lazy
    · obtain ⟨lazy, rfl⟩ := hr
      simp only [tr, ho, if_true, acct_runFrom_one]
      exact R.of_open rfl (sim_open (sim_close h0) h0.inv h0.ign h0.corr lazy)
    by_cases hcl : op = .close
    · subst hcl
      simp only [tr]
      show R c (closeP f).1 a
      unfold R
      rw [if_neg (by show ¬ false = true; simp)]
      exact ⟨sim_close h0, h0.inv, h0.ign, h0.corr⟩
    have hko : (prog op f).1.isOpen = true := by
      rw [keepsOpen_prog op (fun l e => hr ⟨l, e⟩) hcl f]; exact ho
    apply R.of_open hko
    cases op with
    | write k ts m d rot => simp only [tr, ho, if_true, acct_runFrom_one]; exact sim_write h0 k ts m d rot
    | delete k ts m oip => simp only [tr, ho, if_true, acct_runFrom_one]; exact sim_delete h0 k ts m oip
    | closeActive => simp only [tr, ho, if_true, acct_runFrom_one]; exact sim_closeActive h0
    | createActive => simp only [tr, ho, if_true, acct_runFrom_one]; exact sim_ensureActive h0
    | restoreActive => simp only [tr, ho, if_true, acct_runFrom_one]; exact sim_restoreActive h0
    | force pred => simp only [tr, ho, if_true, acct_runFrom_one]; exact sim_force h0 pred
    | free => simp only [tr, ho, if_true, acct_runFrom_one]; exact sim_dumpPass h0
    | settle => simp only [tr, ho, if_true, acct_runFrom_one]; exact sim_settle h0
    | fsync => exact sim_fsync h0
    | restart lazy => exact absurd ⟨lazy, rfl⟩ hr
    | close => exact absurd rfl hcl
    | «open» lazy => simp only [tr, ho, if_true]; exact h0
    | query => exact h0
  | false =>
    have h0 : R0 c f (Acct.closeSession c a) ∧ Acct.Inv c a ∧ a.ignored = [] ∧ a.dir.corrupted = [] := by
      unfold R at h; rw [if_neg (by rw [ho]; simp)] at h; exact h
    simp only [Bool.false_eq_true, if_false]
    cases op with
    | «open» lazy =>
      simp only [tr, ho, Bool.false_eq_true, if_false, acct_runFrom_one]
      exact R.of_open rfl (sim_open h0.1 h0.2.1 h0.2.2.1 h0.2.2.2 lazy)
    | write k ts m d rot => simp only [tr, ho, Bool.false_eq_true, if_false]; exact h
    | delete k ts m oip => simp only [tr, ho, Bool.false_eq_true, if_false]; exact h
    | closeActive => simp only [tr, ho, Bool.false_eq_true, if_false]; exact h
    | createActive => simp only [tr, ho, Bool.false_eq_true, if_false]; exact h
    | restoreActive => simp only [tr, ho, Bool.false_eq_true, if_false]; exact h
    | force pred => simp only [tr, ho, Bool.false_eq_true, if_false]; exact h
    | free => simp only [tr, ho, Bool.false_eq_true, if_false]; exact h
    | settle => simp only [tr, ho, Bool.false_eq_true, if_false]; exact h
    | fsync => exact h
    | restart lazy => simp only [tr, ho, Bool.false_eq_true, if_false]; exact h
    | close => exact h
    | query => exact h

theorem runFrom_sim {c : Acct.Cfg} : ∀ (ops : List FsOp) {f : FsState} {a : Acct.State} (t : List Event),
    R c f a → R c (Fs.runFrom (f, t) ops).1 (Acct.runFrom c a (trFrom f ops))
  | [], _, _, _, h => h
  | op :: ops, f, a, t, h => by
    rw [Fs.runFrom_cons, trFrom, Acct.runFrom_append]
    exact runFrom_sim ops _ (emit_sim h op)

theorem init_sim (c : Acct.Cfg) (dup : Bool) (limit klen : Nat) (unc rs : Bool) (hk : c.klen = klen) :
    R c (Fs.init dup limit klen unc rs).1 (Acct.init dup) := by
  have hc := init_coh dup limit klen unc rs
  have hf := init_full dup limit klen unc rs
  rw [init_eq] at hc hf ⊢
  apply R.of_open rfl
  exact ⟨rfl, hk.symm, Acct.inv_init c dup, rfl, rfl, hc, hf, fun _ => rfl⟩

/-- the simulation along every run -/
theorem run_sim (c : Acct.Cfg) (dup : Bool) (limit klen : Nat) (unc rs : Bool) (hk : c.klen = klen)
    (ops : List FsOp) :
    R c (Fs.run dup limit klen unc rs ops).1 (Acct.run c dup (toAOps dup limit klen unc rs ops)) := by
  unfold Fs.run Acct.run toAOps
  exact runFrom_sim ops _ (init_sim c dup limit klen unc rs hk)


/-! ## Part 3: consequences for whole runs -/

theorem toAOps_noDamage (dup : Bool) (limit klen : Nat) (unc rs : Bool) (ops : List FsOp) :
    ∀ o ∈ toAOps dup limit klen unc rs ops, Acct.NoDamage o :=
  trFrom_noDamage _ ops

/-- the directory-level history of a longer run extends that of the shorter one -/
theorem toAOps_append (dup : Bool) (limit klen : Nat) (unc rs : Bool) (ops more : List FsOp) :
    toAOps dup limit klen unc rs (ops ++ more) =
      toAOps dup limit klen unc rs ops ++ trFrom (Fs.run dup limit klen unc rs ops).1 more := by
  unfold toAOps Fs.run
  rw [trFrom_append]
  congr 2
  exact runFrom_fst_indep _ _ _ ops

/-- in a directory where nothing is ever damaged, the blob files are numbered `0, …, next_blob_id - 1` -/
theorem runFrom_files_range {c : Acct.Cfg} : ∀ (ops : List Acct.AOp) {s : Acct.State}, Acct.Inv c s →
    s.ignored = [] → s.dir.corrupted = [] → (∀ i, i ∈ Acct.keys s.dir.blobs ↔ i < s.store.nextId) →
    (∀ op ∈ ops, Acct.NoDamage op) →
    ∀ i, i ∈ Acct.keys (Acct.runFrom c s ops).dir.blobs ↔ i < (Acct.runFrom c s ops).store.nextId
  | [], _, _, _, _, hr, _ => hr
  | op :: ops, s, h, hi, hc, hr, hops => by
    have hfs := Acct.stepC_fileStep h op
    rw [Acct.stepC_st] at hfs
    obtain ⟨_, hi', hc'⟩ := Acct.step_clean h hi hc (hops op (by simp))
    have hmv : (Acct.stepC c s op).moved = [] := by
      have := hfs.corr
      rw [hc', hc, List.nil_append] at this
      exact this.symm
    rw [Acct.runFrom_cons]
    refine runFrom_files_range ops (Acct.inv_step h op) hi' hc' ?_ (fun o ho => hops o (by simp [ho]))
    intro i
    rw [hfs.files, hmv, hr i, hfs.next, hfs.ids, List.mem_range'_1]
    simp only [List.not_mem_nil, not_false_eq_true, and_true, List.length_range']
    omega

theorem run_files_range (c : Acct.Cfg) (dup : Bool) (ops : List Acct.AOp) (hops : ∀ op ∈ ops, Acct.NoDamage op) :
    ∀ i, i ∈ Acct.keys (Acct.run c dup ops).dir.blobs ↔ i < (Acct.run c dup ops).store.nextId := by
  refine runFrom_files_range ops (Acct.inv_init c dup) rfl rfl ?_ hops
  intro i
  show i ∈ ([0] : List Nat) ↔ i < 1
  simp

theorem eq_range_of_sorted {l : List Nat} {n : Nat} (hs : l.Pairwise (· < ·)) (hm : ∀ i, i ∈ l ↔ i < n) :
    l = List.range n := by
  apply List.Perm.eq_of_pairwise (le := (· < ·)) (fun a b _ _ h1 h2 => by omega) hs List.pairwise_lt_range
  apply (List.perm_ext_iff_of_nodup (hs.imp (fun h => Nat.ne_of_lt h)) List.nodup_range).2
  intro i
  rw [hm i, List.mem_range]

/-- the ids of the blob files created in the trace of a run are `0, 1, …, next_blob_id - 1`, in this order: what the
    creation log of the directory model says (`Acct.GInv.created`) -/
theorem createdIds_run (dup : Bool) (limit klen : Nat) (unc rs : Bool) (ops : List FsOp) :
    createdIds (Fs.run dup limit klen unc rs ops).2 = List.range (Fs.run dup limit klen unc rs ops).1.store.nextId := by
  let c : Acct.Cfg := ⟨klen, fun _ => 0⟩
  have h := (run_sim c dup limit klen unc rs rfl ops).r0
  have hinv := Fs.run_inv dup limit klen unc rs ops
  apply eq_range_of_sorted hinv.sorted
  intro i
  have hst : (Acct.run c dup (toAOps dup limit klen unc rs ops)).store = (Fs.run dup limit klen unc rs ops).1.store := by
    rw [← h.store]; unfold eff; split
    · rfl
    · rw [Acct.closeSession_store]
  have hbl : (eff c (Fs.run dup limit klen unc rs ops).1 (Acct.run c dup (toAOps dup limit klen unc rs ops))).dir.blobs =
      (Acct.run c dup (toAOps dup limit klen unc rs ops)).dir.blobs := by
    unfold eff; split
    · rfl
    · rw [Acct.closeSession_blobs]
  rw [← hst, ← run_files_range c dup _ (toAOps_noDamage dup limit klen unc rs ops) i, ← hbl,
    ← Acct.get_isSome_iff, h.blobs i, ← isSome_files_eq_szOf]
  constructor
  · intro hi; exact hinv.exist i hi
  · intro hi
    rw [isSome_files_eq_szOf, ← dirOfTrace_run] at hi
    rcases create_of_dirOfTraceFrom _ _ i hi with h1 | h1
    · cases h1
    · exact mem_createdIds.2 h1

end FsAcct
end Pearl
