import Pearl.Model.Fs
import Pearl.Props.C01
import Pearl.Proofs.BlobLemmas
import Pearl.Proofs.CrcForce
/-
Helper definitions and lemmas for the file / trace layer (L6, `Pearl/Model/Fs.lean`).

Part 1 works on the disk alone: whatever batch of actions a program issues, the disk and the trace
it leaves satisfy a number of invariants (`DiskInv`), proved once for the six primitive actions.
Part 2 shows that every program is a batch of actions on the disk (`Realizable`) and a sequence of
L2 operations on the store (`StoreSteps`), which transports the invariants to all runs.
Part 3 ties store and disk together (`Coh`): the blob files are exactly the blobs of the store.
-/
namespace Pearl.Fs

/-! ## Part 1: the disk -/

@[simp] theorem setFile_files (d : Disk) (id : Nat) (f : FileS) (j : Nat) :
    (d.setFile id f).files j = if j = id then some f else d.files j := rfl

@[simp] theorem setFile_idx (d : Disk) (id : Nat) (f : FileS) : (d.setFile id f).idx = d.idx := rfl

@[simp] theorem setIdx_files (d : Disk) (id bs : Nat) : (d.setIdx id bs).files = d.files := rfl

@[simp] theorem runActs_nil (d : Disk) : d.runActs [] = (d, []) := rfl

theorem runActs_cons (d : Disk) (a : Act) (as : List Act) :
    d.runActs (a :: as) = (((d.exec a).1.runActs as).1, (d.exec a).2 ++ ((d.exec a).1.runActs as).2) := rfl

theorem runActs_append (d : Disk) (as bs : List Act) :
    d.runActs (as ++ bs) =
      (((d.runActs as).1.runActs bs).1, (d.runActs as).2 ++ ((d.runActs as).1.runActs bs).2) := by
  induction as generalizing d with
  | nil => simp
  | cons a as ih => simp only [List.cons_append, runActs_cons, ih, List.append_assoc]

/-- the blob an action works on -/
def Act.id : Act → Nat
  | .createBlob id => id
  | .append id _ => id
  | .syncBlob id => id
  | .dump id _ => id
  | .openBlob id => id
  | .openIdx id => id

def Act.isCreate : Act → Bool
  | .createBlob _ => true
  | _ => false

def Act.isAppend : Act → Bool
  | .append _ _ => true
  | _ => false

theorem mem_writesAt {f : FileId} : ∀ {lens : List Nat} {off : Nat} {e : Event},
    e ∈ writesAt f off lens → ∃ o l, e = .write f o l
  | [], _, _, h => by simp [writesAt] at h
  | n :: ns, off, e, h => by
    simp only [writesAt, List.mem_cons] at h
    rcases h with rfl | h
    · exact ⟨_, _, rfl⟩
    · exact mem_writesAt h

/-- a general induction principle: a relation between disk and trace that holds initially and is kept
    by every action holds after every batch -/
theorem runActs_keeps {I : Disk → List Event → Prop}
    (hstep : ∀ d t a, I d t → I (d.exec a).1 (t ++ (d.exec a).2)) :
    ∀ (as : List Act) (d : Disk) (t : List Event), I d t → I (d.runActs as).1 (t ++ (d.runActs as).2)
  | [], d, t, h => by simpa using h
  | a :: as, d, t, h => by
    rw [runActs_cons]
    have := runActs_keeps hstep as _ _ (hstep d t a h)
    simpa [List.append_assoc] using this

/-! ### counters: `20 ≤ synced ≤ size` -/

def CountersOK (d : Disk) : Prop :=
  ∀ id f, d.files id = some f → f.synced ≤ f.size ∧ blobHeaderSize ≤ f.synced

theorem exec_countersOK {d : Disk} (h : CountersOK d) (a : Act) : CountersOK (d.exec a).1 := by
  intro j g hg
  cases a with
  | createBlob id =>
    simp only [Disk.exec] at hg
    split at hg
    · exact h j g hg
    · simp only [setFile_files] at hg
      split at hg
      · cases hg; simp
      · exact h j g hg
  | append id lens =>
    simp only [Disk.exec] at hg
    split at hg
    · exact h j g hg
    · rename_i f hf
      simp only [setFile_files] at hg
      split at hg
      · cases hg; have := h id f hf; simp; omega
      · exact h j g hg
  | syncBlob id =>
    simp only [Disk.exec] at hg
    split at hg
    · exact h j g hg
    · rename_i f hf
      simp only [setFile_files] at hg
      split at hg
      · cases hg; have := h id f hf; simp; omega
      · exact h j g hg
  | dump id w =>
    simp only [Disk.exec] at hg
    split at hg
    · exact h j g hg
    · rename_i f hf
      split at hg
      all_goals
        simp only [setIdx_files, setFile_files] at hg
        split at hg
        · cases hg; have := h id f hf; simp; omega
        · exact h j g hg
  | openBlob id =>
    simp only [Disk.exec] at hg
    split at hg
    · exact h j g hg
    · rename_i f hf
      simp only [setFile_files] at hg
      split at hg
      · cases hg; have := h id f hf; simp; omega
      · exact h j g hg
  | openIdx id =>
    simp only [Disk.exec] at hg
    split at hg <;> exact h j g hg

/-! ### which files an action touches -/

theorem exec_files_other (d : Disk) (a : Act) {j : Nat} (hj : j ≠ a.id) : (d.exec a).1.files j = d.files j := by
  cases a <;> simp only [Disk.exec, Act.id] at hj ⊢ <;> (repeat' split) <;> simp [hj]

/-- existence of files: only an enabled `createBlob` adds one, nothing removes one -/
theorem exec_files_isSome (d : Disk) (a : Act) (j : Nat) :
    ((d.exec a).1.files j).isSome = ((d.files j).isSome || (a.isCreate && decide (j = a.id))) := by
  cases a with
  | createBlob id =>
    simp only [Disk.exec, Act.id, Act.isCreate]; split <;> by_cases hj : j = id <;> simp_all
  | append id lens =>
    simp only [Disk.exec, Act.id, Act.isCreate]; split <;> by_cases hj : j = id <;> simp_all
  | syncBlob id =>
    simp only [Disk.exec, Act.id, Act.isCreate]; split <;> by_cases hj : j = id <;> simp_all
  | dump id w =>
    simp only [Disk.exec, Act.id, Act.isCreate]; (repeat' split) <;> by_cases hj : j = id <;> simp_all
  | openBlob id =>
    simp only [Disk.exec, Act.id, Act.isCreate]; split <;> by_cases hj : j = id <;> simp_all
  | openIdx id =>
    simp only [Disk.exec, Act.id, Act.isCreate]; split <;> simp_all

theorem exec_events_file (d : Disk) (a : Act) :
    ∀ e ∈ (d.exec a).2, e.file = .blob a.id ∨ e.file = .index a.id := by
  intro e he
  cases a <;> simp only [Disk.exec, Act.id] at he ⊢ <;> (repeat' split at he) <;>
    simp only [List.mem_cons, List.not_mem_nil, or_false] at he
  all_goals first
    | (rcases he with rfl | rfl | rfl | rfl | rfl <;> simp [Event.file])
    | (rcases he with rfl | rfl | rfl <;> simp [Event.file])
    | (rcases he with rfl <;> simp [Event.file])
    | (obtain ⟨o, l, rfl⟩ := mem_writesAt he; simp [Event.file])
    | exact absurd he (by simp)

/-! ### the first three events on a blob file -/

/-- the events of a trace that touch blob file `id` -/
def proj (id : Nat) (t : List Event) : List Event := t.filter fun e => e.file == FileId.blob id

theorem proj_append (id : Nat) (t u : List Event) : proj id (t ++ u) = proj id t ++ proj id u := by
  simp [proj]

/-- create, blob header at offset 0, fsync -/
def hdr3 (id : Nat) : List Event :=
  [.create (.blob id), .write (.blob id) 0 blobHeaderSize, .sync (.blob id) blobHeaderSize]

def HdrInv (d : Disk) (t : List Event) : Prop :=
  ∀ id, (d.files id = none → proj id t = []) ∧ (d.files id ≠ none → hdr3 id <+: proj id t)

theorem proj_exec_other (d : Disk) (a : Act) {id : Nat} (h : id ≠ a.id) : proj id (d.exec a).2 = [] := by
  simp only [proj, List.filter_eq_nil_iff]
  intro e he
  rcases exec_events_file d a e he with h1 | h1 <;> simp [h1, Ne.symm h]

theorem exec_hdrInv {d : Disk} {t : List Event} (h : HdrInv d t) (a : Act) :
    HdrInv (d.exec a).1 (t ++ (d.exec a).2) := by
  intro id
  by_cases hid : id = a.id
  · subst hid
    rw [proj_append]
    cases hf : d.files a.id with
    | none =>
      have h0 := (h a.id).1 hf
      rw [h0, List.nil_append]
      cases a with
      | createBlob id =>
        simp only [Act.id] at hf
        simp [Disk.exec, Act.id, hf, proj, hdr3, Event.file]
      | openIdx id =>
        simp only [Act.id] at hf
        simp only [Disk.exec, Act.id]
        split <;> simp [hf, proj, Event.file]
      | append id lens => simp only [Act.id] at hf; simp [Disk.exec, Act.id, hf, proj]
      | syncBlob id => simp only [Act.id] at hf; simp [Disk.exec, Act.id, hf, proj]
      | dump id w => simp only [Act.id] at hf; simp [Disk.exec, Act.id, hf, proj]
      | openBlob id => simp only [Act.id] at hf; simp [Disk.exec, Act.id, hf, proj]
    | some f =>
      have h1 := (h a.id).2 (by simp [hf])
      constructor
      · intro hn
        have := exec_files_isSome d a a.id
        simp [hn, hf] at this
      · intro _
        exact List.IsPrefix.trans h1 (List.prefix_append _ _)
  · rw [proj_append, proj_exec_other d a hid, List.append_nil, exec_files_other d a hid]
    exact h id

/-! ### append-only: an abstract file system that refuses anything else -/

/-- sizes of the blob files that exist -/
abbrev FsModel := Nat → Option Nat

def FsModel.set (m : FsModel) (id v : Nat) : FsModel := fun j => if j = id then some v else m j

@[simp] theorem FsModel.set_apply (m : FsModel) (id v j : Nat) :
    (m.set id v) j = if j = id then some v else m j := rfl

/-- the only legal events on blob files: creation of a file that does not exist, a write exactly at the
    current end, a sync publishing exactly the current size, reopening an existing file -/
def fsAccept (m : FsModel) : Event → Option FsModel
  | .create (.blob id) => if (m id).isNone then some (m.set id 0) else none
  | .write (.blob id) off len =>
    match m id with
    | some sz => if off = sz then some (m.set id (sz + len)) else none
    | none => none
  | .sync (.blob id) n =>
    match m id with
    | some sz => if n = sz then some m else none
    | none => none
  | .open (.blob id) => if (m id).isSome then some m else none
  | _ => some m

def replay : FsModel → List Event → Option FsModel
  | m, [] => some m
  | m, e :: es => (fsAccept m e).bind fun m' => replay m' es

theorem replay_append (m : FsModel) (t u : List Event) :
    replay m (t ++ u) = (replay m t).bind fun m' => replay m' u := by
  induction t generalizing m with
  | nil => simp [replay]
  | cons e es ih =>
    simp only [List.cons_append, replay]
    cases fsAccept m e <;> simp [ih]

/-- `m` and `m'` agree as functions -/
def FsModel.Agree (m : FsModel) (d : Disk) : Prop := ∀ id, m id = (d.files id).map (·.size)

theorem replay_writesAt (id : Nat) : ∀ (lens : List Nat) (m : FsModel) (off : Nat), m id = some off →
    ∃ m', replay m (writesAt (.blob id) off lens) = some m' ∧
      ∀ j, m' j = if j = id then some (off + lens.sum) else m j
  | [], m, off, h => ⟨m, rfl, by intro j; split <;> simp_all⟩
  | n :: ns, m, off, h => by
    simp only [writesAt, replay, fsAccept, h, if_true, Option.bind_some]
    obtain ⟨m', h1, h2⟩ := replay_writesAt id ns (m.set id (off + n)) (off + n) (by simp)
    refine ⟨m', h1, ?_⟩
    intro j
    rw [h2 j]
    split
    · simp [Nat.add_assoc]
    · simp [*]

def ReplayInv (d : Disk) (t : List Event) : Prop := ∃ m, replay (fun _ => none) t = some m ∧ m.Agree d

theorem exec_replayInv {d : Disk} {t : List Event} (h : ReplayInv d t) (a : Act) :
    ReplayInv (d.exec a).1 (t ++ (d.exec a).2) := by
  obtain ⟨m, hm, hag⟩ := h
  unfold ReplayInv
  rw [replay_append, hm, Option.bind_some]
  cases a with
  | createBlob id =>
    simp only [Disk.exec]
    cases hf : d.files id with
    | some f => exact ⟨m, rfl, hag⟩
    | none =>
      have hmid : m id = none := by rw [hag id, hf]; rfl
      simp only [replay, fsAccept, hmid, Option.isNone_none, if_true, Option.bind_some, FsModel.set_apply]
      refine ⟨_, rfl, ?_⟩
      intro j
      simp only [setFile_files, FsModel.set_apply]
      split
      · simp
      · exact hag j
  | append id lens =>
    simp only [Disk.exec]
    cases hf : d.files id with
    | none => exact ⟨m, rfl, hag⟩
    | some f =>
      have hmid : m id = some f.size := by rw [hag id, hf]; rfl
      obtain ⟨m', h1, h2⟩ := replay_writesAt id lens m f.size hmid
      refine ⟨m', h1, ?_⟩
      intro j
      rw [h2 j]
      simp only [setFile_files]
      split <;> simp_all [hag j]
  | syncBlob id =>
    simp only [Disk.exec]
    cases hf : d.files id with
    | none => exact ⟨m, rfl, hag⟩
    | some f =>
      have hmid : m id = some f.size := by rw [hag id, hf]; rfl
      simp only [replay, fsAccept, hmid, if_true, Option.bind_some]
      refine ⟨m, rfl, ?_⟩
      intro j
      simp only [setFile_files]
      split <;> simp_all [hag j]
  | dump id w =>
    simp only [Disk.exec]
    cases hf : d.files id with
    | none => exact ⟨m, rfl, hag⟩
    | some f =>
      have hmid : m id = some f.size := by rw [hag id, hf]; rfl
      cases w <;> simp only [replay, fsAccept, hmid, if_true, Option.bind_some, Bool.false_eq_true, if_false]
      all_goals
        refine ⟨m, rfl, ?_⟩
        intro j
        simp only [setIdx_files, setFile_files]
        split <;> simp_all [hag j]
  | openBlob id =>
    simp only [Disk.exec]
    cases hf : d.files id with
    | none => exact ⟨m, rfl, hag⟩
    | some f =>
      have hmid : m id = some f.size := by rw [hag id, hf]; rfl
      simp only [replay, fsAccept, hmid, Option.isSome_some, if_true, Option.bind_some]
      refine ⟨m, rfl, ?_⟩
      intro j
      simp only [setFile_files]
      split <;> simp_all [hag j]
  | openIdx id =>
    simp only [Disk.exec]
    split
    · exact ⟨m, rfl, hag⟩
    · exact ⟨m, rfl, hag⟩

/-- what acceptance means event by event -/
theorem replay_split {m0 m : FsModel} {pre post : List Event} {e : Event}
    (h : replay m0 (pre ++ e :: post) = some m) :
    ∃ m1 m2, replay m0 pre = some m1 ∧ fsAccept m1 e = some m2 ∧ replay m2 post = some m := by
  rw [replay_append] at h
  cases h1 : replay m0 pre with
  | none => simp [h1] at h
  | some m1 =>
    simp only [h1, Option.bind_some, replay] at h
    cases h2 : fsAccept m1 e with
    | none => simp [h2] at h
    | some m2 => exact ⟨m1, m2, rfl, h2, by simpa [h2] using h⟩

/-! ### the index header is written after the blob is synced -/

def isWriteOn (f : FileId) : Event → Bool
  | .write g _ _ => g == f
  | _ => false

/-- before the header rewrite: a sync of the blob file publishing at least `bs`, and no write to the
    blob file since -/
def SyncedBefore (i bs : Nat) (pre : List Event) : Prop :=
  ∃ p1 p2 n, pre = p1 ++ .sync (.blob i) n :: p2 ∧ bs ≤ n ∧ ∀ e ∈ p2, isWriteOn (.blob i) e = false

/-- after the header rewrite: the next event on the index file is its sync -/
def IdxSyncedAfter (i : Nat) (post : List Event) : Prop :=
  ∃ q1 q2 n, post = q1 ++ .sync (.index i) n :: q2 ∧ ∀ e ∈ q1, e.file ≠ .index i

def IdxGood (t : List Event) : Prop :=
  ∀ pre post i bs, t = pre ++ .idxHeader i bs true :: post → SyncedBefore i bs pre ∧ IdxSyncedAfter i post

theorem SyncedBefore.mono {i bs : Nat} {pre : List Event} (h : SyncedBefore i bs pre) (t : List Event) :
    SyncedBefore i bs (t ++ pre) := by
  obtain ⟨p1, p2, n, rfl, h1, h2⟩ := h
  exact ⟨t ++ p1, p2, n, by simp, h1, h2⟩

theorem IdxSyncedAfter.mono {i : Nat} {post : List Event} (h : IdxSyncedAfter i post) (u : List Event) :
    IdxSyncedAfter i (post ++ u) := by
  obtain ⟨q1, q2, n, rfl, h1⟩ := h
  exact ⟨q1, q2 ++ u, n, by simp, h1⟩

theorem IdxGood.append {t u : List Event} (ht : IdxGood t) (hu : IdxGood u) : IdxGood (t ++ u) := by
  intro pre post i bs h
  rcases List.append_eq_append_iff.1 h with ⟨a', rfl, h2⟩ | ⟨c', rfl, h2⟩
  · -- the header lies in `u`
    obtain ⟨h3, h4⟩ := hu a' post i bs h2
    exact ⟨h3.mono t, h4⟩
  · cases c' with
    | nil =>
      simp only [List.nil_append] at h2
      obtain ⟨h3, h4⟩ := hu [] post i bs h2.symm
      exact ⟨by simpa using h3.mono pre, h4⟩
    | cons x xs =>
      simp only [List.cons_append, List.cons.injEq] at h2
      obtain ⟨rfl, rfl⟩ := h2
      obtain ⟨h3, h4⟩ := ht pre xs i bs (by simp)
      exact ⟨h3, h4.mono u⟩

theorem IdxGood.of_no_header {u : List Event} (h : ∀ i bs w, Event.idxHeader i bs w ∉ u) : IdxGood u := by
  intro pre post i bs hu
  exact absurd (by rw [hu]; simp) (h i bs true)

theorem exec_idxGood (d : Disk) (a : Act) : IdxGood (d.exec a).2 := by
  cases a with
  | dump id w =>
    simp only [Disk.exec]
    split
    · exact IdxGood.of_no_header (by simp)
    · rename_i f hf
      cases w with
      | false => exact IdxGood.of_no_header (by simp)
      | true =>
        simp only [if_true]
        intro pre post i bs h
        rcases pre with _ | ⟨e1, _ | ⟨e2, _ | ⟨e3, _ | ⟨e4, _ | ⟨e5, pre⟩⟩⟩⟩⟩ <;>
          simp only [List.nil_append, List.cons_append, List.cons.injEq, reduceCtorEq, false_and, and_false] at h
        · obtain ⟨rfl, rfl, rfl, ⟨rfl, rfl⟩, rfl⟩ := h
          exact ⟨⟨[], [_, _], _, rfl, Nat.le_refl _, by simp [isWriteOn]⟩, ⟨[], [], 0, rfl, by simp⟩⟩
        · exact absurd h.2.2.2.2.2 (by simp)
  | append id lens =>
    simp only [Disk.exec]
    split
    · exact IdxGood.of_no_header (by simp)
    · refine IdxGood.of_no_header ?_
      intro i bs w hm
      obtain ⟨o, l, h⟩ := mem_writesAt hm
      cases h
  | createBlob id => simp only [Disk.exec]; split <;> exact IdxGood.of_no_header (by simp)
  | syncBlob id => simp only [Disk.exec]; split <;> exact IdxGood.of_no_header (by simp)
  | openBlob id => simp only [Disk.exec]; split <;> exact IdxGood.of_no_header (by simp)
  | openIdx id => simp only [Disk.exec]; split <;> exact IdxGood.of_no_header (by simp)

/-! ### created ids exist -/

def CreatedInv (d : Disk) (t : List Event) : Prop := ∀ id, Event.create (.blob id) ∈ t → d.files id ≠ none

theorem exec_createdInv {d : Disk} {t : List Event} (h : CreatedInv d t) (a : Act) :
    CreatedInv (d.exec a).1 (t ++ (d.exec a).2) := by
  intro id hm
  have hs := exec_files_isSome d a id
  rcases List.mem_append.1 hm with hm | hm
  · have := h id hm
    cases hf : d.files id with
    | none => exact absurd hf this
    | some f =>
      rw [hf] at hs
      intro hn; rw [hn] at hs; simp at hs
  · cases a <;> simp only [Disk.exec] at hm <;> (repeat' split at hm) <;>
      simp only [List.mem_cons, List.not_mem_nil, or_false, reduceCtorEq, Event.create.injEq,
        FileId.blob.injEq] at hm
    all_goals first
      | exact absurd hm (by simp)
      | (obtain ⟨o, l, h⟩ := mem_writesAt hm; cases h)
      | (subst hm; intro hn; rw [hn] at hs; simp [Act.isCreate, Act.id] at hs)

/-- all disk-level invariants together -/
structure DiskInv (d : Disk) (t : List Event) : Prop where
  counters : CountersOK d
  hdr : HdrInv d t
  replay : ReplayInv d t
  idx : IdxGood t
  created : CreatedInv d t

theorem DiskInv.init : DiskInv {} [] where
  counters := by intro id f h; cases h
  hdr := by intro id; exact ⟨fun _ => rfl, fun h => absurd rfl h⟩
  replay := ⟨fun _ => none, rfl, fun _ => rfl⟩
  idx := IdxGood.of_no_header (by simp)
  created := by intro id h; cases h

theorem DiskInv.exec {d : Disk} {t : List Event} (h : DiskInv d t) (a : Act) :
    DiskInv (d.exec a).1 (t ++ (d.exec a).2) where
  counters := exec_countersOK h.counters a
  hdr := exec_hdrInv h.hdr a
  replay := exec_replayInv h.replay a
  idx := h.idx.append (exec_idxGood d a)
  created := exec_createdInv h.created a

theorem DiskInv.runActs {d : Disk} {t : List Event} (h : DiskInv d t) (as : List Act) :
    DiskInv (d.runActs as).1 (t ++ (d.runActs as).2) :=
  runActs_keeps (I := DiskInv) (fun _ _ a h => h.exec a) as d t h

/-! ## Part 2: programs are batches of actions on the disk and L2 operations on the store -/

/-- on the disk, a program is some batch of primitive actions -/
def Realizable (p : Prog) : Prop :=
  ∀ s, ∃ as, (p s).1.disk = (s.disk.runActs as).1 ∧ (p s).2 = (s.disk.runActs as).2

theorem Realizable.skip : Realizable skip := fun _ => ⟨[], rfl, rfl⟩
theorem Realizable.acts (f : FsState → List Act) : Realizable (acts f) := fun s => ⟨f s, rfl, rfl⟩
theorem Realizable.modify (g : FsState → FsState) : Realizable (modify g) := fun _ => ⟨[], rfl, rfl⟩
theorem Realizable.seq {p q : Prog} (hp : Realizable p) (hq : Realizable q) : Realizable (p ⨾ q) := by
  intro s
  obtain ⟨a1, h1, h2⟩ := hp s
  obtain ⟨a2, h3, h4⟩ := hq (p s).1
  refine ⟨a1 ++ a2, ?_, ?_⟩ <;> simp only [Fs.seq, runActs_append]
  · rw [h3, h1]
  · rw [h2, h4, h1]
theorem Realizable.cond {c : FsState → Bool} {p q : Prog} (hp : Realizable p) (hq : Realizable q) :
    Realizable (cond c p q) := by
  intro s; simp only [Fs.cond]; split
  · exact hp s
  · exact hq s

/-- on the store, a program is some sequence of L2 operations -/
def StoreSteps (p : Prog) : Prop := ∀ s, ∃ ops, (p s).1.store = s.store.run ops

theorem store_run_append (s : Store) (a b : List Op) : s.run (a ++ b) = (s.run a).run b := by
  simp [Store.run, List.foldl_append]

theorem StoreSteps.skip : StoreSteps skip := fun _ => ⟨[], rfl⟩
theorem StoreSteps.acts (f : FsState → List Act) : StoreSteps (acts f) := fun _ => ⟨[], rfl⟩
theorem StoreSteps.applyP (op : Op) : StoreSteps (applyP op) := fun _ => ⟨[op], rfl⟩
theorem StoreSteps.modify {g : FsState → FsState} (h : ∀ s, (g s).store = s.store) : StoreSteps (modify g) :=
  fun s => ⟨[], h s⟩
theorem StoreSteps.seq {p q : Prog} (hp : StoreSteps p) (hq : StoreSteps q) : StoreSteps (p ⨾ q) := by
  intro s
  obtain ⟨a1, h1⟩ := hp s
  obtain ⟨a2, h2⟩ := hq (p s).1
  exact ⟨a1 ++ a2, by simp only [Fs.seq]; rw [h2, h1, store_run_append]⟩
theorem StoreSteps.cond {c : FsState → Bool} {p q : Prog} (hp : StoreSteps p) (hq : StoreSteps q) :
    StoreSteps (cond c p q) := by
  intro s; simp only [Fs.cond]; split
  · exact hp s
  · exact hq s

/-- configuration is never touched -/
def Frame (p : Prog) : Prop :=
  ∀ s, (p s).1.klen = s.klen ∧ (p s).1.limit = s.limit ∧
    (p s).1.explicitFsyncUnconditional = s.explicitFsyncUnconditional ∧
    (p s).1.restoreSyncsOverLimit = s.restoreSyncsOverLimit

theorem Frame.skip : Frame skip := fun _ => ⟨rfl, rfl, rfl, rfl⟩
theorem Frame.acts (f : FsState → List Act) : Frame (acts f) := fun _ => ⟨rfl, rfl, rfl, rfl⟩
theorem Frame.modify {g : FsState → FsState}
    (h : ∀ s, (g s).klen = s.klen ∧ (g s).limit = s.limit ∧
      (g s).explicitFsyncUnconditional = s.explicitFsyncUnconditional ∧
      (g s).restoreSyncsOverLimit = s.restoreSyncsOverLimit) : Frame (modify g) := fun s => h s
theorem Frame.seq {p q : Prog} (hp : Frame p) (hq : Frame q) : Frame (p ⨾ q) := by
  intro s
  obtain ⟨a1, a2, a3, a4⟩ := hp s
  obtain ⟨b1, b2, b3, b4⟩ := hq (p s).1
  exact ⟨by simp only [Fs.seq]; rw [b1, a1], by simp only [Fs.seq]; rw [b2, a2], by simp only [Fs.seq]; rw [b3, a3],
    by simp only [Fs.seq]; rw [b4, a4]⟩
theorem Frame.cond {c : FsState → Bool} {p q : Prog} (hp : Frame p) (hq : Frame q) : Frame (cond c p q) := by
  intro s; simp only [Fs.cond]; split
  · exact hp s
  · exact hq s

macro "unfold_progs" : tactic =>
  `(tactic| simp only [prog, writeP, deleteP, closeActiveP, createActiveP, restoreActiveP, forceP, settleP,
      fsyncP, closeP, openP, rotateP, dumpPassP, fsyncCheckP, ensureActiveP, newBlobP, noteDeferredP, applyP,
      modStore])

theorem realizable_restoreActiveP : Realizable restoreActiveP :=
  Realizable.cond
    (Realizable.seq (Realizable.modify _) (Realizable.cond (Realizable.acts _) Realizable.skip))
    Realizable.skip

theorem realizable_prog (op : FsOp) : Realizable (prog op) := by
  cases op
  case restoreActive => exact realizable_restoreActiveP
  all_goals unfold_progs
  all_goals
    repeat (first
      | exact Realizable.skip | exact Realizable.acts _ | exact Realizable.modify _
      | apply Realizable.cond | apply Realizable.seq | split)

theorem realizable_openP (lazy : Bool) : Realizable (openP lazy) := by
  unfold_progs
  repeat (first
    | exact Realizable.skip | exact Realizable.acts _ | exact Realizable.modify _
    | apply Realizable.cond | apply Realizable.seq)

theorem storeSteps_restoreActiveP : StoreSteps restoreActiveP :=
  StoreSteps.cond
    (StoreSteps.seq (StoreSteps.applyP _) (StoreSteps.cond (StoreSteps.acts _) StoreSteps.skip))
    StoreSteps.skip

theorem storeSteps_prog (op : FsOp) : StoreSteps (prog op) := by
  cases op
  case restoreActive => exact storeSteps_restoreActiveP
  all_goals simp only [prog, writeP, deleteP, closeActiveP, createActiveP, forceP, settleP,
      fsyncP, closeP, openP, rotateP, dumpPassP, fsyncCheckP, ensureActiveP, newBlobP, noteDeferredP]
  all_goals
    repeat (first
      | exact StoreSteps.skip | exact StoreSteps.acts _ | exact StoreSteps.applyP _
      | exact StoreSteps.modify (fun _ => rfl) | apply StoreSteps.cond | apply StoreSteps.seq | split)

theorem storeSteps_openP (lazy : Bool) : StoreSteps (openP lazy) := by
  simp only [openP]
  repeat (first
    | exact StoreSteps.acts _ | exact StoreSteps.applyP _
    | exact StoreSteps.modify (fun _ => rfl) | apply StoreSteps.seq)

theorem frame_restoreActiveP : Frame restoreActiveP :=
  Frame.cond
    (Frame.seq (Frame.modify (fun _ => ⟨rfl, rfl, rfl, rfl⟩)) (Frame.cond (Frame.acts _) Frame.skip))
    Frame.skip

theorem frame_prog (op : FsOp) : Frame (prog op) := by
  cases op
  case restoreActive => exact frame_restoreActiveP
  all_goals unfold_progs
  all_goals
    repeat (first
      | exact Frame.skip | exact Frame.acts _
      | exact Frame.modify (fun _ => ⟨rfl, rfl, rfl, rfl⟩) | apply Frame.cond | apply Frame.seq | split)

theorem frame_openP (lazy : Bool) : Frame (openP lazy) := by
  unfold_progs
  repeat (first
    | exact Frame.acts _ | exact Frame.modify (fun _ => ⟨rfl, rfl, rfl, rfl⟩) | apply Frame.seq)

theorem emit_realizable (s : FsState) (op : FsOp) :
    ∃ as, (emit s op).1.disk = (s.disk.runActs as).1 ∧ (emit s op).2 = (s.disk.runActs as).2 := by
  unfold emit
  split
  · exact realizable_prog op s
  · split
    · exact realizable_openP _ s
    · exact ⟨[], rfl, rfl⟩

theorem emit_storeSteps (s : FsState) (op : FsOp) : ∃ ops, (emit s op).1.store = s.store.run ops := by
  unfold emit
  split
  · exact storeSteps_prog op s
  · split
    · exact storeSteps_openP _ s
    · exact ⟨[], rfl⟩

theorem emit_frame (s : FsState) (op : FsOp) :
    (emit s op).1.klen = s.klen ∧ (emit s op).1.limit = s.limit ∧
      (emit s op).1.explicitFsyncUnconditional = s.explicitFsyncUnconditional ∧
      (emit s op).1.restoreSyncsOverLimit = s.restoreSyncsOverLimit := by
  unfold emit
  split
  · exact frame_prog op s
  · split
    · exact frame_openP _ s
    · exact ⟨rfl, rfl, rfl, rfl⟩

/-! ### runs -/

@[simp] theorem runFrom_nil (st : FsState × List Event) : runFrom st [] = st := rfl

theorem runFrom_cons (st : FsState × List Event) (op : FsOp) (ops : List FsOp) :
    runFrom st (op :: ops) = runFrom ((emit st.1 op).1, st.2 ++ (emit st.1 op).2) ops := rfl

theorem runFrom_append (st : FsState × List Event) (a b : List FsOp) :
    runFrom st (a ++ b) = runFrom (runFrom st a) b := by
  simp [runFrom, List.foldl_append]

theorem runFrom_snoc (st : FsState × List Event) (ops : List FsOp) (op : FsOp) :
    runFrom st (ops ++ [op]) =
      ((emit (runFrom st ops).1 op).1, (runFrom st ops).2 ++ (emit (runFrom st ops).1 op).2) := by
  rw [runFrom_append]; rfl

/-- induction principle for runs: a relation between state and trace that holds after `init` and is kept
    by every `emit` holds after every run -/
theorem runFrom_keeps {I : FsState → List Event → Prop}
    (hstep : ∀ s t op, I s t → I (emit s op).1 (t ++ (emit s op).2)) :
    ∀ (ops : List FsOp) (st : FsState × List Event), I st.1 st.2 → I (runFrom st ops).1 (runFrom st ops).2
  | [], _, h => h
  | op :: ops, st, h => by
    rw [runFrom_cons]
    exact runFrom_keeps hstep ops _ (hstep _ _ op h)

theorem init_store (dup : Bool) (limit klen : Nat) (unc rs : Bool) :
    (init dup limit klen unc rs).1.store = Store.init dup := rfl

theorem init_disk_trace (dup : Bool) (limit klen : Nat) (unc rs : Bool) :
    (init dup limit klen unc rs).1.disk = (({} : Disk).runActs [.createBlob 0]).1 ∧
      (init dup limit klen unc rs).2 = (({} : Disk).runActs [.createBlob 0]).2 := ⟨rfl, by simp [init, newBlobP, seq, acts, applyP, modStore, modify]⟩

/-- the disk-level invariants hold on every run -/
theorem run_diskInv (dup : Bool) (limit klen : Nat) (unc rs : Bool) (ops : List FsOp) :
    DiskInv (run dup limit klen unc rs ops).1.disk (run dup limit klen unc rs ops).2 := by
  unfold run
  refine runFrom_keeps (I := fun s t => DiskInv s.disk t) ?_ ops _ ?_
  · intro s t op h
    obtain ⟨as, h1, h2⟩ := emit_realizable s op
    rw [h1, h2]
    exact h.runActs as
  · obtain ⟨h1, h2⟩ := init_disk_trace dup limit klen unc rs
    rw [h1, h2]
    simpa using DiskInv.init.runActs [.createBlob 0]

/-- the store of every run is a run of the L2 model -/
theorem run_store (dup : Bool) (limit klen : Nat) (unc rs : Bool) (ops : List FsOp) :
    ∃ sops, (run dup limit klen unc rs ops).1.store = (Store.init dup).run sops := by
  unfold run
  refine runFrom_keeps (I := fun s _ => ∃ sops, s.store = (Store.init dup).run sops) ?_ ops _ ?_
  · intro s t op ⟨sops, h⟩
    obtain ⟨o2, h2⟩ := emit_storeSteps s op
    exact ⟨sops ++ o2, by rw [h2, h, store_run_append]⟩
  · exact ⟨[], rfl⟩

theorem run_WF' (dup : Bool) (limit klen : Nat) (unc rs : Bool) (ops : List FsOp) :
    (run dup limit klen unc rs ops).1.store.WF := by
  obtain ⟨sops, h⟩ := run_store dup limit klen unc rs ops
  rw [h]; exact run_WF dup sops

theorem run_config (dup : Bool) (limit klen : Nat) (unc rs : Bool) (ops : List FsOp) :
    (run dup limit klen unc rs ops).1.klen = klen ∧ (run dup limit klen unc rs ops).1.limit = limit ∧
      (run dup limit klen unc rs ops).1.explicitFsyncUnconditional = unc ∧
      (run dup limit klen unc rs ops).1.restoreSyncsOverLimit = rs := by
  unfold run
  refine runFrom_keeps (I := fun s _ => s.klen = klen ∧ s.limit = limit ∧ s.explicitFsyncUnconditional = unc ∧
    s.restoreSyncsOverLimit = rs) ?_ ops _ ⟨rfl, rfl, rfl, rfl⟩
  intro s t op ⟨h1, h2, h3, h4⟩
  obtain ⟨f1, f2, f3, f4⟩ := emit_frame s op
  exact ⟨f1.trans h1, f2.trans h2, f3.trans h3, f4.trans h4⟩

/-! ### content of blob files (L5) -/

/-- the bytes of the blob file of `b`: blob header, then its records with the generated payloads -/
def content (klen : Nat) (b : Blob) : List UInt8 :=
  blobBytes klen (b.recs.map fun r => (r, genData r.data.len r.data.seed))

theorem blobBytes_prefix (klen : Nat) {l1 l2 : List (Rec × List UInt8)} (h : l1 <+: l2) :
    blobBytes klen l1 <+: blobBytes klen l2 := by
  obtain ⟨t, rfl⟩ := h
  unfold blobBytes recordsOf
  rw [List.map_append, appendRecords_eq, appendRecords_eq, tailOf_append, ← List.append_assoc]
  exact List.prefix_append _ _

theorem content_prefix (klen : Nat) {b b' : Blob} (h : b.recs <+: b'.recs) :
    content klen b <+: content klen b' := by
  obtain ⟨t, ht⟩ := h
  unfold content
  apply blobBytes_prefix
  rw [← ht, List.map_append]
  exact List.prefix_append _ _

/-- along any sequence of L2 operations every blob is continued by a blob with the same id whose records
    extend the old ones -/
theorem store_run_log {s : Store} (hwf : s.WF) : ∀ (ops : List Op),
    ∀ b ∈ s.blobs, ∃ b' ∈ (s.run ops).blobs, b'.id = b.id ∧ b.recs <+: b'.recs
  | [], b, hb => ⟨b, hb, rfl, List.prefix_refl _⟩
  | op :: ops, b, hb => by
    obtain ⟨b1, hb1, hid1, hp1, _⟩ := apply_log hwf op b hb
    obtain ⟨b2, hb2, hid2, hp2⟩ := store_run_log (apply_WF hwf op) ops b1 hb1
    exact ⟨b2, hb2, hid2.trans hid1, hp1.trans hp2⟩

theorem runFrom_store (st : FsState × List Event) (ops : List FsOp) :
    ∃ sops, (runFrom st ops).1.store = st.1.store.run sops := by
  induction ops generalizing st with
  | nil => exact ⟨[], rfl⟩
  | cons op ops ih =>
    rw [runFrom_cons]
    obtain ⟨o1, h1⟩ := emit_storeSteps st.1 op
    obtain ⟨o2, h2⟩ := ih ((emit st.1 op).1, st.2 ++ (emit st.1 op).2)
    exact ⟨o1 ++ o2, by rw [h2, store_run_append]; simp only [h1]⟩

/-! ## Part 3: store and disk together -/

/-- ids of the blob files created in a trace, in order -/
def createdIds (t : List Event) : List Nat :=
  t.filterMap fun e => match e with
    | .create (.blob id) => some id
    | _ => none

theorem createdIds_append (t u : List Event) : createdIds (t ++ u) = createdIds t ++ createdIds u := by
  simp [createdIds]

theorem mem_createdIds {t : List Event} {id : Nat} : id ∈ createdIds t ↔ Event.create (.blob id) ∈ t := by
  simp only [createdIds, List.mem_filterMap]
  constructor
  · rintro ⟨e, he, h⟩
    split at h
    · cases h; exact he
    · cases h
  · intro h; exact ⟨_, h, rfl⟩

/-- every blob file belongs to a blob of the store; the store is well-formed and not empty -/
structure Coh (s : FsState) : Prop where
  wf : s.store.WF
  ne : s.store.blobs ≠ []
  dom : ∀ id, (s.disk.files id).isSome → ∃ b ∈ s.store.blobs, b.id = id

/-- the next id is not on disk -/
theorem Coh.fresh {s : FsState} (h : Coh s) : ∀ id, (s.disk.files id).isSome → id < s.store.nextId := by
  intro id hid
  obtain ⟨b, hb, rfl⟩ := h.dom id hid
  exact h.wf.2 b hb

theorem Coh.nextId_none {s : FsState} (h : Coh s) : s.disk.files s.store.nextId = none := by
  cases hf : s.disk.files s.store.nextId with
  | none => rfl
  | some f => exact absurd (h.fresh _ (by simp [hf])) (Nat.lt_irrefl _)

def NoCreate (as : List Act) : Prop := ∀ a ∈ as, a.isCreate = false
def NoAppend (as : List Act) : Prop := ∀ a ∈ as, a.isAppend = false

theorem runActs_files_isSome_mono (d : Disk) (as : List Act) (j : Nat) :
    (d.files j).isSome → ((d.runActs as).1.files j).isSome := by
  induction as generalizing d with
  | nil => exact id
  | cons a as ih =>
    intro h
    rw [runActs_cons]
    apply ih
    rw [exec_files_isSome, h]; rfl

theorem runActs_files_isSome_of_noCreate (d : Disk) {as : List Act} (h : NoCreate as) (j : Nat) :
    ((d.runActs as).1.files j).isSome = (d.files j).isSome := by
  induction as generalizing d with
  | nil => rfl
  | cons a as ih =>
    rw [runActs_cons]
    rw [ih _ (fun x hx => h x (List.mem_cons_of_mem _ hx)), exec_files_isSome, h a (by simp)]
    simp

theorem exec_createdIds_of_noCreate (d : Disk) {a : Act} (h : a.isCreate = false) :
    createdIds (d.exec a).2 = [] := by
  apply List.eq_nil_iff_forall_not_mem.2
  intro id hid
  have hm := mem_createdIds.1 hid
  cases a <;> simp only [Act.isCreate, reduceCtorEq] at h <;> simp only [Disk.exec] at hm <;>
    (repeat' split at hm) <;>
    simp only [List.mem_cons, List.not_mem_nil, or_false, reduceCtorEq, Event.create.injEq] at hm
  all_goals first
    | exact absurd hm (by simp)
    | (obtain ⟨o, l, h⟩ := mem_writesAt hm; cases h)

theorem runActs_createdIds_of_noCreate (d : Disk) {as : List Act} (h : NoCreate as) :
    createdIds (d.runActs as).2 = [] := by
  induction as generalizing d with
  | nil => rfl
  | cons a as ih =>
    rw [runActs_cons, createdIds_append, exec_createdIds_of_noCreate d (h a (by simp)),
      ih _ (fun x hx => h x (List.mem_cons_of_mem _ hx))]
    rfl

/-- what one program step must guarantee -/
structure StepOK (s s' : FsState) (evs : List Event) : Prop where
  coh : Coh s'
  grow : ∀ j, (s.disk.files j).isSome → (s'.disk.files j).isSome
  created : ∀ id ∈ createdIds evs, (s'.disk.files id).isSome ∧ ∀ j, (s.disk.files j).isSome → j < id
  sorted : (createdIds evs).Pairwise (· < ·)

def Sound (p : Prog) : Prop := ∀ s, Coh s → StepOK s (p s).1 (p s).2

theorem Sound.skip : Sound skip := fun s h =>
  ⟨h, fun _ => id, by intro id hid; simp [Fs.skip, createdIds] at hid, by simp [Fs.skip, createdIds]⟩

theorem Sound.seq {p q : Prog} (hp : Sound p) (hq : Sound q) : Sound (p ⨾ q) := by
  intro s h
  have h1 := hp s h
  have h2 := hq (p s).1 h1.coh
  refine ⟨h2.coh, fun j hj => h2.grow j (h1.grow j hj), ?_, ?_⟩
  · intro id hid
    simp only [Fs.seq, createdIds_append, List.mem_append] at hid ⊢
    rcases hid with hid | hid
    · exact ⟨h2.grow _ (h1.created id hid).1, (h1.created id hid).2⟩
    · exact ⟨(h2.created id hid).1, fun j hj => (h2.created id hid).2 j (h1.grow j hj)⟩
  · simp only [Fs.seq, createdIds_append, List.pairwise_append]
    refine ⟨h1.sorted, h2.sorted, ?_⟩
    intro a ha b hb
    exact (h2.created b hb).2 a (h1.created a ha).1

theorem Sound.cond {c : FsState → Bool} {p q : Prog} (hp : Sound p) (hq : Sound q) : Sound (cond c p q) := by
  intro s h; simp only [Fs.cond]; split
  · exact hp s h
  · exact hq s h

theorem Sound.acts {f : FsState → List Act} (hf : ∀ s, NoCreate (f s)) : Sound (acts f) := by
  intro s h
  have hsome := runActs_files_isSome_of_noCreate s.disk (hf s)
  refine ⟨⟨h.wf, h.ne, ?_⟩, ?_, ?_, ?_⟩
  · intro id hid
    simp only [Fs.acts] at hid
    rw [hsome] at hid
    exact h.dom id hid
  · intro j hj; simp only [Fs.acts]; rw [hsome]; exact hj
  · intro id hid
    simp only [Fs.acts, runActs_createdIds_of_noCreate s.disk (hf s)] at hid
    cases hid
  · simp only [Fs.acts, runActs_createdIds_of_noCreate s.disk (hf s)]
    exact List.Pairwise.nil

theorem Sound.modify {g : FsState → FsState} (hg : ∀ s, (g s).store = s.store) : Sound (modify g) := by
  intro s h
  refine ⟨⟨?_, ?_, ?_⟩, fun _ => id, ?_, ?_⟩
  · simp only [Fs.modify, hg]; exact h.wf
  · simp only [Fs.modify, hg]; exact h.ne
  · intro id hid; simp only [Fs.modify, hg] at hid ⊢; exact h.dom id hid
  · intro id hid; simp [Fs.modify, createdIds] at hid
  · simp [Fs.modify, createdIds]

theorem Sound.applyP (op : Op) : Sound (applyP op) := by
  intro s h
  have hinv := Store.run_inv h.wf h.ne [op]
  refine ⟨⟨hinv.1, hinv.2, ?_⟩, fun _ => id, ?_, ?_⟩
  · intro id hid
    obtain ⟨b, hb, rfl⟩ := h.dom id hid
    obtain ⟨b', hb', hid', _⟩ := apply_log h.wf op b hb
    exact ⟨b', hb', hid'⟩
  · intro id hid; simp [Fs.applyP, modStore, Fs.modify, createdIds] at hid
  · simp [Fs.applyP, modStore, Fs.modify, createdIds]

/-- the disk after an enabled `createBlob` -/
theorem exec_createBlob_of_none {d : Disk} {id : Nat} (h : d.files id = none) :
    d.exec (.createBlob id) =
      (d.setFile id { size := blobHeaderSize, synced := blobHeaderSize, appendMode := false }, hdr3 id) := by
  simp [Disk.exec, h, hdr3]

theorem newBlobP_eq {s : FsState} (h : Coh s) (op : Op) :
    newBlobP op s =
      ({ s with store := s.store.apply op
                disk := s.disk.setFile s.store.nextId
                  { size := blobHeaderSize, synced := blobHeaderSize, appendMode := false } },
        hdr3 s.store.nextId) := by
  simp [newBlobP, Fs.seq, Fs.acts, Fs.applyP, modStore, Fs.modify, Disk.runActs,
    exec_createBlob_of_none h.nextId_none]

theorem createdIds_hdr3 (id : Nat) : createdIds (hdr3 id) = [id] := rfl

/-- a new blob file together with the L2 operation that puts a blob with that id into the store -/
theorem stepOK_newBlob {s : FsState} (h : Coh s) {op : Op}
    (hop : ∃ b ∈ (s.store.apply op).blobs, b.id = s.store.nextId) :
    StepOK s (newBlobP op s).1 (newBlobP op s).2 := by
  rw [newBlobP_eq h]
  have hinv := Store.run_inv h.wf h.ne [op]
  refine ⟨⟨hinv.1, hinv.2, ?_⟩, ?_, ?_, ?_⟩
  · intro id hid
    simp only [setFile_files] at hid
    split at hid
    · subst_vars; exact hop
    · obtain ⟨b, hb, rfl⟩ := h.dom id hid
      obtain ⟨b', hb', hid', _⟩ := apply_log h.wf op b hb
      exact ⟨b', hb', hid'⟩
  · intro j hj
    simp only [setFile_files]
    split
    · rfl
    · exact hj
  · intro id hid
    simp only [createdIds_hdr3, List.mem_singleton] at hid
    subst hid
    exact ⟨by simp, fun j hj => h.fresh j hj⟩
  · simp [createdIds_hdr3]

theorem Sound.newBlob_replace : Sound (newBlobP .replaceActive) := by
  intro s h
  refine stepOK_newBlob h ⟨{ id := s.store.nextId, recs := [] }, ?_, rfl⟩
  simp only [Store.apply, Store.replaceActive, Store.createActive]
  cases s.store.active <;> simp [Store.blobs, Store.closed]

theorem Sound.ensureActiveP : Sound ensureActiveP := by
  intro s h
  simp only [Fs.ensureActiveP, Fs.cond]
  split
  · rename_i hnone
    refine stepOK_newBlob h ⟨{ id := s.store.nextId, recs := [] }, ?_, rfl⟩
    have ha : s.store.active = none := by simpa using hnone
    simp [Store.apply, Store.tryCreateActive, ha, Store.createActive, Store.blobs, Store.closed]
  · exact Sound.skip s h

/-! ### no program creates a file except through `ensureActiveP` / `newBlobP` -/

theorem NoCreate.nil : NoCreate [] := by intro a h; cases h
theorem NoCreate.singleton {a : Act} (h : a.isCreate = false) : NoCreate [a] := by
  intro x hx; simp only [List.mem_singleton] at hx; subst hx; exact h
theorem NoCreate.append {l1 l2 : List Act} (h1 : NoCreate l1) (h2 : NoCreate l2) : NoCreate (l1 ++ l2) := by
  intro x hx; rcases List.mem_append.1 hx with hx | hx
  · exact h1 x hx
  · exact h2 x hx
theorem NoCreate.map {α} {l : List α} {g : α → Act} (h : ∀ x, (g x).isCreate = false) : NoCreate (l.map g) := by
  intro x hx; obtain ⟨y, _, rfl⟩ := List.mem_map.1 hx; exact h y
theorem NoCreate.flatMap {α} {l : List α} {g : α → List Act} (h : ∀ x, NoCreate (g x)) :
    NoCreate (l.flatMap g) := by
  intro x hx; obtain ⟨y, _, hy⟩ := List.mem_flatMap.1 hx; exact h y x hy

theorem NoAppend.nil : NoAppend [] := by intro a h; cases h
theorem NoAppend.singleton {a : Act} (h : a.isAppend = false) : NoAppend [a] := by
  intro x hx; simp only [List.mem_singleton] at hx; subst hx; exact h
theorem NoAppend.append {l1 l2 : List Act} (h1 : NoAppend l1) (h2 : NoAppend l2) : NoAppend (l1 ++ l2) := by
  intro x hx; rcases List.mem_append.1 hx with hx | hx
  · exact h1 x hx
  · exact h2 x hx
theorem NoAppend.map {α} {l : List α} {g : α → Act} (h : ∀ x, (g x).isAppend = false) : NoAppend (l.map g) := by
  intro x hx; obtain ⟨y, _, rfl⟩ := List.mem_map.1 hx; exact h y
theorem NoAppend.flatMap {α} {l : List α} {g : α → List Act} (h : ∀ x, NoAppend (g x)) :
    NoAppend (l.flatMap g) := by
  intro x hx; obtain ⟨y, _, hy⟩ := List.mem_flatMap.1 hx; exact h y x hy

theorem noCreate_dumpActs (st : Store) : NoCreate (dumpActs st) := NoCreate.map (fun _ => rfl)
theorem noAppend_dumpActs (st : Store) : NoAppend (dumpActs st) := NoAppend.map (fun _ => rfl)

theorem noCreate_deleteActs (klen : Nat) (st : Store) (k : Key) (ts : Nat) (m : Option Meta) (oip : Bool) :
    NoCreate (deleteActs klen st k ts m oip) := by
  unfold deleteActs
  refine NoCreate.append ?_ (NoCreate.map (fun _ => rfl))
  (repeat' split) <;> first | exact NoCreate.nil | exact NoCreate.singleton rfl

theorem noCreate_openActs (d : Disk) (st : Store) (lazy : Bool) : NoCreate (openActs d st lazy) := by
  unfold openActs
  refine NoCreate.append (NoCreate.flatMap ?_) (NoCreate.map (fun _ => rfl))
  intro b; split
  · exact NoCreate.append (NoCreate.singleton rfl) (NoCreate.singleton rfl)
  · exact NoCreate.singleton rfl

theorem noAppend_openActs (d : Disk) (st : Store) (lazy : Bool) : NoAppend (openActs d st lazy) := by
  unfold openActs
  refine NoAppend.append (NoAppend.flatMap ?_) (NoAppend.map (fun _ => rfl))
  intro b; split
  · exact NoAppend.append (NoAppend.singleton rfl) (NoAppend.singleton rfl)
  · exact NoAppend.singleton rfl

macro "unfold_ops" : tactic =>
  `(tactic| simp only [prog, writeP, deleteP, closeActiveP, createActiveP, restoreActiveP, forceP, settleP,
      fsyncP, closeP, openP, rotateP, dumpPassP, fsyncCheckP, noteDeferredP])

macro "sound_tac" : tactic =>
  `(tactic| repeat (first
      | exact Sound.skip | exact Sound.ensureActiveP | exact Sound.newBlob_replace | exact Sound.applyP _
      | exact Sound.modify (fun _ => rfl)
      | exact Sound.acts (fun _ => noCreate_dumpActs _)
      | exact Sound.acts (fun _ => noCreate_deleteActs _ _ _ _ _ _)
      | exact Sound.acts (fun _ => noCreate_openActs _ _ _)
      | exact Sound.acts (by intro s; (repeat' split) <;> first | exact NoCreate.nil | exact NoCreate.singleton rfl)
      | apply Sound.cond | apply Sound.seq | split))

theorem sound_restoreActiveP : Sound restoreActiveP :=
  Sound.cond
    (Sound.seq (Sound.applyP _) (Sound.cond
      (Sound.acts (by intro s; (repeat' split) <;> first | exact NoCreate.nil | exact NoCreate.singleton rfl))
      Sound.skip))
    Sound.skip

theorem sound_prog (op : FsOp) : Sound (prog op) := by
  cases op
  case restoreActive => exact sound_restoreActiveP
  all_goals unfold_ops
  all_goals sound_tac

theorem sound_openP (lazy : Bool) : Sound (openP lazy) := by
  unfold_ops; sound_tac

theorem emit_stepOK {s : FsState} (h : Coh s) (op : FsOp) : StepOK s (emit s op).1 (emit s op).2 := by
  unfold emit
  split
  · exact sound_prog op s h
  · split
    · exact sound_openP _ s h
    · exact Sound.skip s h

theorem init_eq (dup : Bool) (limit klen : Nat) (unc rs : Bool) :
    init dup limit klen unc rs =
      ({ store := Store.init dup,
         disk := ({} : Disk).setFile 0 { size := blobHeaderSize, synced := blobHeaderSize, appendMode := false },
         limit := limit, klen := klen, explicitFsyncUnconditional := unc, restoreSyncsOverLimit := rs }, hdr3 0) := by
  simp [init, newBlobP, Fs.seq, Fs.acts, Fs.applyP, modStore, Fs.modify, Disk.runActs, Disk.exec, hdr3]
  rfl

theorem init_coh (dup : Bool) (limit klen : Nat) (unc rs : Bool) : Coh (init dup limit klen unc rs).1 := by
  rw [init_eq]
  refine ⟨init_WF dup, Store.init_blobs_ne_nil dup, ?_⟩
  intro id hid
  simp only [setFile_files] at hid
  split at hid
  · subst_vars
    exact ⟨{ id := 0, recs := [] }, by simp [Store.init, Store.createActive, Store.blobs, Store.closed], rfl⟩
  · cases hid

/-- invariant of all runs tying the trace to the state -/
structure RunInv (s : FsState) (t : List Event) : Prop where
  coh : Coh s
  sorted : (createdIds t).Pairwise (· < ·)
  exist : ∀ id ∈ createdIds t, (s.disk.files id).isSome

theorem run_inv (dup : Bool) (limit klen : Nat) (unc rs : Bool) (ops : List FsOp) :
    RunInv (run dup limit klen unc rs ops).1 (run dup limit klen unc rs ops).2 := by
  unfold run
  refine runFrom_keeps (I := RunInv) ?_ ops _ ?_
  · intro s t op h
    have hs := emit_stepOK h.coh op
    refine ⟨hs.coh, ?_, ?_⟩
    · rw [createdIds_append, List.pairwise_append]
      exact ⟨h.sorted, hs.sorted, fun a ha b hb => (hs.created b hb).2 a (h.exist a ha)⟩
    · intro id hid
      rw [createdIds_append, List.mem_append] at hid
      rcases hid with hid | hid
      · exact hs.grow id (h.exist id hid)
      · exact (hs.created id hid).1
  · refine ⟨init_coh dup limit klen unc rs, ?_, ?_⟩
    · rw [init_eq]; simp [createdIds_hdr3]
    · intro id hid
      rw [init_eq] at hid ⊢
      simp only [createdIds_hdr3, List.mem_singleton] at hid
      subst hid; simp

/-! ### dirty bytes -/

def Disk.dirty (d : Disk) (id : Nat) : Nat :=
  match d.files id with
  | some f => f.dirty
  | none => 0

theorem dirtyOf_eq (s : FsState) (id : Nat) : s.dirtyOf id = s.disk.dirty id := rfl

theorem dirty_setFile (d : Disk) (id : Nat) (f : FileS) (j : Nat) :
    (d.setFile id f).dirty j = if j = id then f.dirty else d.dirty j := by
  by_cases h : j = id <;> simp [Disk.dirty, h]

theorem dirty_setIdx (d : Disk) (id bs j : Nat) : (d.setIdx id bs).dirty j = d.dirty j := rfl

theorem dirty_of_some {d : Disk} {id : Nat} {f : FileS} (h : d.files id = some f) : d.dirty id = f.dirty := by
  simp [Disk.dirty, h]

theorem dirty_of_none {d : Disk} {id : Nat} (h : d.files id = none) : d.dirty id = 0 := by
  simp [Disk.dirty, h]

theorem exec_dirty_le (d : Disk) {a : Act} (h : a.isAppend = false) (j : Nat) :
    (d.exec a).1.dirty j ≤ d.dirty j := by
  cases a with
  | append id lens => simp [Act.isAppend] at h
  | createBlob id =>
    simp only [Disk.exec]
    cases hf : d.files id with
    | some f => exact Nat.le_refl _
    | none =>
      simp only [dirty_setFile]
      split
      · subst_vars; simp [FileS.dirty]
      · exact Nat.le_refl _
  | syncBlob id =>
    simp only [Disk.exec]
    cases hf : d.files id with
    | none => exact Nat.le_refl _
    | some f =>
      simp only [dirty_setFile]
      split
      · subst_vars; rw [dirty_of_some hf]; simp only [FileS.dirty]; omega
      · exact Nat.le_refl _
  | dump id w =>
    simp only [Disk.exec]
    cases hf : d.files id with
    | none => exact Nat.le_refl _
    | some f =>
      cases w <;> simp only [dirty_setIdx, dirty_setFile, if_true, Bool.false_eq_true, if_false]
      all_goals
        split
        · subst_vars; rw [dirty_of_some hf]; simp only [FileS.dirty]; omega
        · exact Nat.le_refl _
  | openBlob id =>
    simp only [Disk.exec]
    cases hf : d.files id with
    | none => exact Nat.le_refl _
    | some f =>
      simp only [dirty_setFile]
      split
      · subst_vars; rw [dirty_of_some hf]; simp only [FileS.dirty]; omega
      · exact Nat.le_refl _
  | openIdx id => simp only [Disk.exec]; split <;> exact Nat.le_refl _

theorem runActs_dirty_le (d : Disk) {as : List Act} (h : NoAppend as) (j : Nat) :
    (d.runActs as).1.dirty j ≤ d.dirty j := by
  induction as generalizing d with
  | nil => exact Nat.le_refl _
  | cons a as ih =>
    rw [runActs_cons]
    exact Nat.le_trans (ih _ (fun x hx => h x (List.mem_cons_of_mem _ hx))) (exec_dirty_le d (h a (by simp)) j)

theorem exec_openBlob_dirty (d : Disk) (id : Nat) : (d.exec (.openBlob id)).1.dirty id = 0 := by
  simp only [Disk.exec]
  cases hf : d.files id with
  | none => exact dirty_of_none hf
  | some f => simp [dirty_setFile, FileS.dirty]

theorem exec_syncBlob_dirty (d : Disk) (id : Nat) : (d.exec (.syncBlob id)).1.dirty id = 0 := by
  simp only [Disk.exec]
  cases hf : d.files id with
  | none => exact dirty_of_none hf
  | some f => simp only [dirty_setFile, if_true, FileS.dirty]; omega

theorem runActs_dirty_zero_of_open (d : Disk) {as : List Act} (h : NoAppend as) {id : Nat}
    (hmem : Act.openBlob id ∈ as) : (d.runActs as).1.dirty id = 0 := by
  induction as generalizing d with
  | nil => cases hmem
  | cons a as ih =>
    rw [runActs_cons]
    have hrest : NoAppend as := fun x hx => h x (List.mem_cons_of_mem _ hx)
    rcases List.mem_cons.1 hmem with rfl | hm
    · have := runActs_dirty_le (d.exec (.openBlob id)).1 hrest id
      rw [exec_openBlob_dirty] at this
      exact Nat.le_zero.1 this
    · exact ih _ hrest hm

/-- the active blob's un-synced bytes are within the limit -/
def Bounded (s : FsState) : Prop := ∀ a, s.store.active = some a → s.dirtyOf a.id ≤ s.limit

def KeepsB (p : Prog) : Prop := ∀ s, Coh s → Bounded s → Bounded (p s).1
def EstB (p : Prog) : Prop := ∀ s, Coh s → Bounded (p s).1

theorem EstB.keeps {p : Prog} (h : EstB p) : KeepsB p := fun s hc _ => h s hc
theorem KeepsB.skip : KeepsB skip := fun _ _ h => h
theorem KeepsB.seq {p q : Prog} (hp : KeepsB p) (sp : Sound p) (hq : KeepsB q) : KeepsB (p ⨾ q) :=
  fun s hc hb => hq (p s).1 (sp s hc).coh (hp s hc hb)
theorem KeepsB.cond {c : FsState → Bool} {p q : Prog} (hp : KeepsB p) (hq : KeepsB q) : KeepsB (cond c p q) := by
  intro s hc hb; simp only [Fs.cond]; split
  · exact hp s hc hb
  · exact hq s hc hb
theorem EstB.seq_right {p q : Prog} (sp : Sound p) (hq : EstB q) : EstB (p ⨾ q) :=
  fun s hc => hq (p s).1 (sp s hc).coh
theorem EstB.seq_left {p q : Prog} (hp : EstB p) (sp : Sound p) (hq : KeepsB q) : EstB (p ⨾ q) :=
  fun s hc => hq (p s).1 (sp s hc).coh (hp s hc)
theorem EstB.cond {c : FsState → Bool} {p q : Prog} (hp : EstB p) (hq : EstB q) : EstB (cond c p q) := by
  intro s hc; simp only [Fs.cond]; split
  · exact hp s hc
  · exact hq s hc

theorem KeepsB.acts {f : FsState → List Act} (hf : ∀ s, NoAppend (f s)) : KeepsB (acts f) := by
  intro s _ hb a ha
  have := hb a ha
  simp only [Fs.acts, dirtyOf_eq] at this ⊢
  exact Nat.le_trans (runActs_dirty_le s.disk (hf s) a.id) this

theorem KeepsB.modify {g : FsState → FsState} (h1 : ∀ s, (g s).store = s.store)
    (h2 : ∀ s, (g s).limit = s.limit) : KeepsB (modify g) := by
  intro s _ hb a ha
  simp only [Fs.modify, h1, h2] at ha ⊢
  exact hb a ha

/-- L2 operations that leave the active blob alone or remove it -/
theorem KeepsB.applyP {op : Op} (h : ∀ st : Store, (st.apply op).active = st.active ∨ (st.apply op).active = none) :
    KeepsB (applyP op) := by
  intro s _ hb a ha
  simp only [Fs.applyP, modStore, Fs.modify] at ha ⊢
  rcases h s.store with h | h
  · rw [h] at ha; exact hb a ha
  · rw [h] at ha; cases ha

theorem apply_settle_active (st : Store) : (st.apply .settle).active = st.active := rfl

theorem apply_closeActive_active (st : Store) :
    (st.apply .closeActive).active = st.active ∨ (st.apply .closeActive).active = none := by
  cases h : st.active <;> simp [Store.apply, Store.closeActive, h]

theorem EstB.fsyncCheckP : EstB fsyncCheckP := by
  intro s _ a ha
  simp only [Fs.fsyncCheckP, Fs.acts] at ha ⊢
  rw [ha]
  simp only [dirtyOf_eq]
  by_cases hgt : s.disk.dirty a.id > s.limit
  · simp only [hgt, if_true, Disk.runActs]
    show ((s.disk.exec (.syncBlob a.id)).1).dirty a.id ≤ s.limit
    rw [exec_syncBlob_dirty]; exact Nat.zero_le _
  · simp only [hgt, if_false, Disk.runActs]
    exact Nat.not_lt.1 hgt

theorem EstB.newBlob_replace : EstB (newBlobP .replaceActive) := by
  intro s hc a ha
  rw [newBlobP_eq hc] at ha ⊢
  have hact : (s.store.apply .replaceActive).active = some { id := s.store.nextId, recs := [] } := by
    simp only [Store.apply, Store.replaceActive, Store.createActive]
    cases s.store.active <;> rfl
  simp only [hact, Option.some.injEq] at ha
  subst ha
  simp [FsState.dirtyOf, FileS.dirty]

theorem KeepsB.ensureActiveP : KeepsB ensureActiveP := by
  intro s hc hb
  simp only [Fs.ensureActiveP, Fs.cond]
  split
  · rename_i hnone
    have hn : s.store.active = none := by simpa using hnone
    intro a ha
    rw [newBlobP_eq hc] at ha ⊢
    have hact : (s.store.apply .createActive).active = some { id := s.store.nextId, recs := [] } := by
      simp [Store.apply, Store.tryCreateActive, hn, Store.createActive]
    simp only [hact, Option.some.injEq] at ha
    subst ha
    simp [FsState.dirtyOf, FileS.dirty]
  · exact hb

theorem KeepsB.dumpPassP : KeepsB dumpPassP :=
  KeepsB.seq (KeepsB.acts (fun _ => noAppend_dumpActs _)) (Sound.acts (fun _ => noCreate_dumpActs _))
    (KeepsB.applyP (fun st => Or.inl (apply_settle_active st)))

theorem sound_dumpPassP : Sound dumpPassP :=
  Sound.seq (Sound.acts (fun _ => noCreate_dumpActs _)) (Sound.applyP _)

theorem EstB.rotateP : EstB rotateP :=
  EstB.seq_left EstB.newBlob_replace Sound.newBlob_replace (KeepsB.cond KeepsB.skip KeepsB.dumpPassP)

theorem EstB.openP (lazy : Bool) : EstB (openP lazy) := by
  intro s hc a ha
  simp only [Fs.openP, Fs.seq, Fs.acts, Fs.applyP, modStore, Fs.modify] at ha ⊢
  simp only [dirtyOf_eq]
  have hmem : a ∈ (s.store.apply (.restart lazy)).blobs := by
    simp [Store.blobs, ha]
  rcases apply_log_new hc.wf hc.ne (.restart lazy) a hmem with ⟨b, hb, hid, _⟩ | ⟨hid, _⟩
  · have hopen : Act.openBlob a.id ∈ openActs s.disk s.store lazy := by
      unfold openActs
      rw [Store.sortById_of_sorted _ hc.wf.1]
      apply List.mem_append_left
      apply List.mem_flatMap.2
      refine ⟨b, hb, ?_⟩
      rw [hid]; split <;> simp
    rw [runActs_dirty_zero_of_open s.disk (noAppend_openActs _ _ _) hopen]
    exact Nat.zero_le _
  · have hnone := hc.nextId_none
    have := runActs_files_isSome_of_noCreate s.disk (noCreate_openActs s.disk s.store lazy) s.store.nextId
    rw [hnone] at this
    simp only [Disk.dirty, hid]
    cases hf : ((s.disk.runActs (openActs s.disk s.store lazy)).1.files s.store.nextId) with
    | none => exact Nat.zero_le _
    | some f => rw [hf] at this; simp at this

def _root_.Pearl.Fs.FsOp.isRestore : FsOp → Bool
  | .restoreActive => true
  | _ => false

macro "sound_side" : tactic => `(tactic| ((try unfold_ops); sound_tac))

macro "no_append" : tactic =>
  `(tactic| (intro s; (repeat' split) <;> first | exact NoAppend.nil | exact NoAppend.singleton rfl))

macro "keeps_tac" : tactic =>
  `(tactic| repeat (first
      | exact KeepsB.skip | exact KeepsB.ensureActiveP | exact KeepsB.dumpPassP
      | exact EstB.keeps EstB.rotateP | exact EstB.keeps EstB.fsyncCheckP
      | exact EstB.keeps EstB.newBlob_replace | exact EstB.keeps (EstB.openP _)
      | exact KeepsB.modify (fun _ => rfl) (fun _ => rfl)
      | exact KeepsB.applyP (fun st => Or.inl (apply_settle_active st))
      | exact KeepsB.applyP apply_closeActive_active
      | exact KeepsB.acts (fun _ => noAppend_dumpActs _)
      | exact KeepsB.acts (fun _ => noAppend_openActs _ _ _)
      | exact KeepsB.acts (by no_append)
      | apply KeepsB.cond
      | refine KeepsB.seq ?_ (by sound_side) ?_
      | split))

theorem keepsB_writeP (k : Key) (ts : Nat) (m : Option Meta) (d : Data) (rot : Bool) :
    KeepsB (writeP k ts m d rot) := by
  unfold writeP
  refine KeepsB.seq KeepsB.ensureActiveP Sound.ensureActiveP (KeepsB.cond KeepsB.skip (EstB.keeps ?_))
  refine EstB.seq_right (by sound_side) ?_
  split
  · exact EstB.rotateP
  · exact EstB.fsyncCheckP

theorem estB_deleteP (k : Key) (ts : Nat) (m : Option Meta) (oip : Bool) : EstB (deleteP k ts m oip) := by
  unfold deleteP
  exact EstB.seq_right (by sound_side) EstB.fsyncCheckP

theorem estB_restart (lazy : Bool) : EstB (closeP ⨾ openP lazy) :=
  EstB.seq_right (by sound_side) (EstB.openP lazy)

theorem keepsB_prog (op : FsOp) (h : op.isRestore = false) : KeepsB (prog op) := by
  cases op with
  | write k ts m d rot => exact keepsB_writeP k ts m d rot
  | delete k ts m oip => exact (estB_deleteP k ts m oip).keeps
  | restoreActive => simp [FsOp.isRestore] at h
  | restart lazy => exact (estB_restart lazy).keeps
  | closeActive => simp only [prog, closeActiveP]; keeps_tac
  | createActive => simp only [prog, createActiveP]; keeps_tac
  | force pred => simp only [prog, forceP]; keeps_tac
  | free => simp only [prog]; keeps_tac
  | settle => simp only [prog, settleP]; keeps_tac
  | fsync => simp only [prog, fsyncP]; keeps_tac
  | close => simp only [prog, closeP]; keeps_tac
  | «open» lazy => simp only [prog]; keeps_tac
  | query => simp only [prog]; keeps_tac

/-- since /repo 0ede233: the restored blob is synced when it is over the limit -/
theorem bounded_restoreActiveP {s : FsState} (hc : Coh s) (hb : Bounded s)
    (hrs : s.restoreSyncsOverLimit = true) : Bounded (restoreActiveP s).1 := by
  simp only [restoreActiveP, Fs.cond]
  split
  · show Bounded ((cond (fun s => s.restoreSyncsOverLimit) fsyncCheckP skip) (applyP .restoreActive s).1).1
    have hc1 := (Sound.applyP .restoreActive s hc).coh
    have hflag : (applyP Op.restoreActive s).1.restoreSyncsOverLimit = true := hrs
    simp only [Fs.cond, hflag, if_true]
    exact EstB.fsyncCheckP _ hc1
  · exact hb

theorem emit_bounded {s : FsState} (hc : Coh s) (hb : Bounded s) (op : FsOp)
    (h : op.isRestore = false ∨ s.restoreSyncsOverLimit = true) : Bounded (emit s op).1 := by
  unfold emit
  split
  · by_cases hr : op.isRestore = false
    · exact keepsB_prog op hr s hc hb
    · have hrs : s.restoreSyncsOverLimit = true := by
        rcases h with h | h
        · exact absurd h hr
        · exact h
      cases op <;> simp [FsOp.isRestore] at hr
      exact bounded_restoreActiveP hc hb hrs
  · split
    · exact EstB.openP _ s hc
    · exact hb

theorem init_bounded (dup : Bool) (limit klen : Nat) (unc rs : Bool) : Bounded (init dup limit klen unc rs).1 := by
  rw [init_eq]
  intro a ha
  simp only [Store.init, Store.createActive, Option.some.injEq] at ha
  subst ha
  simp [FsState.dirtyOf, FileS.dirty]

/-- at every quiescent state the active blob's dirty bytes are within the limit, provided the restored
    blob is synced when over the limit (`rs = true`, /repo since 0ede233) or `restore_active` is not used -/
theorem run_bounded (dup : Bool) (limit klen : Nat) (unc rs : Bool) (ops : List FsOp)
    (h : rs = true ∨ ∀ op ∈ ops, op.isRestore = false) : Bounded (run dup limit klen unc rs ops).1 := by
  unfold run
  suffices hs : ∀ (ops : List FsOp) (st : FsState × List Event),
      (rs = true ∨ ∀ op ∈ ops, op.isRestore = false) → st.1.restoreSyncsOverLimit = rs →
      RunInv st.1 st.2 → Bounded st.1 → Bounded (runFrom st ops).1 from
    hs ops _ h rfl (by have := run_inv dup limit klen unc rs []; simpa [run] using this)
      (init_bounded dup limit klen unc rs)
  intro ops
  induction ops with
  | nil => intro st _ _ _ hb; exact hb
  | cons op ops ih =>
    intro st hno hflag hinv hb
    rw [runFrom_cons]
    have hs := emit_stepOK hinv.coh op
    have hop : op.isRestore = false ∨ st.1.restoreSyncsOverLimit = true := by
      rcases hno with h | h
      · exact Or.inr (hflag.trans h)
      · exact Or.inl (h op (by simp))
    refine ih _ (hno.imp id (fun h x hx => h x (List.mem_cons_of_mem _ hx)))
      ((emit_frame st.1 op).2.2.2.trans hflag) ?_ (emit_bounded hinv.coh hb op hop)
    refine ⟨hs.coh, ?_, ?_⟩
    · rw [createdIds_append, List.pairwise_append]
      exact ⟨hinv.sorted, hs.sorted, fun a ha b hb => (hs.created b hb).2 a (hinv.exist a ha)⟩
    · intro id hid
      rw [createdIds_append, List.mem_append] at hid
      rcases hid with hid | hid
      · exact hs.grow id (hinv.exist id hid)
      · exact (hs.created id hid).1

/-! ### lemmas behind the C12 / C07 statements -/

theorem hdr3_before_write {id : Nat} {pre post : List Event} {off len : Nat}
    (h : hdr3 id <+: proj id (pre ++ Event.write (.blob id) off len :: post)) (hoff : off ≠ 0) :
    hdr3 id <+: proj id pre := by
  rw [proj_append] at h
  have hw : proj id (Event.write (.blob id) off len :: post) =
      Event.write (.blob id) off len :: proj id post := by simp [proj, Event.file]
  rw [hw] at h
  generalize proj id pre = A at h ⊢
  obtain ⟨r, hr⟩ := h
  rcases A with _ | ⟨a, _ | ⟨b, _ | ⟨c, A⟩⟩⟩
  · simp [hdr3] at hr
  · simp [hdr3] at hr; omega
  · simp [hdr3] at hr
  · simp only [hdr3, List.cons_append, List.nil_append, List.cons.injEq] at hr
    obtain ⟨rfl, rfl, rfl, _⟩ := hr
    exact ⟨A, rfl⟩

theorem closeActive_dirty_zero {s : FsState} {a : Blob} (ho : s.isOpen = true) (ha : s.store.active = some a) :
    (emit s .closeActive).1.disk.dirty a.id = 0 ∧ (emit s .closeActive).1.store.active = none := by
  simp only [emit, ho, if_true, prog, closeActiveP, dumpPassP, Fs.seq, Fs.acts, Fs.applyP, modStore, Fs.modify, ha]
  constructor
  · apply Nat.le_zero.1
    refine Nat.le_trans (runActs_dirty_le _ (noAppend_dumpActs _) _) ?_
    simp only [Disk.runActs]
    rw [exec_syncBlob_dirty]; exact Nat.le_refl _
  · simp [Store.apply, Store.closeActive, ha, Store.settle]

theorem fsync_dirty_zero {s : FsState} {a : Blob} (ho : s.isOpen = true) (ha : s.store.active = some a)
    (hu : s.explicitFsyncUnconditional = true) :
    (emit s .fsync).1.disk.dirty a.id = 0 ∧ (emit s .fsync).1.store.active = some a := by
  simp only [emit, ho, if_true, prog, fsyncP, Fs.acts, ha, hu, Bool.true_or, Disk.runActs]
  exact ⟨exec_syncBlob_dirty _ _, trivial⟩

theorem synced_eq_size_of_dirty_zero {d : Disk} (hc : CountersOK d) {id : Nat} (h : d.dirty id = 0) :
    ∀ f, d.files id = some f → f.synced = f.size := by
  intro f hf
  have h1 := (hc id f hf).1
  rw [dirty_of_some hf] at h
  simp only [FileS.dirty] at h
  omega

theorem emit_query (s : FsState) : emit s .query = (s, []) := by
  unfold emit; split <;> rfl

theorem run_snoc (dup : Bool) (limit klen : Nat) (unc rs : Bool) (ops : List FsOp) (op : FsOp) :
    run dup limit klen unc rs (ops ++ [op]) =
      ((emit (run dup limit klen unc rs ops).1 op).1,
        (run dup limit klen unc rs ops).2 ++ (emit (run dup limit klen unc rs ops).1 op).2) := by
  unfold run; exact runFrom_snoc _ _ _

theorem run_append (dup : Bool) (limit klen : Nat) (unc rs : Bool) (a b : List FsOp) :
    run dup limit klen unc rs (a ++ b) = runFrom (run dup limit klen unc rs a) b := by
  unfold run; exact runFrom_append _ _ _

/-! ## Part 4: every blob has its file, and the file is as long as the blob's content -/

def szOf (d : Disk) (j : Nat) : Option Nat := (d.files j).map (·.size)

/-- every blob of the store has a blob file whose `size` counter is the length of its content -/
def Full (s : FsState) : Prop :=
  ∀ p ∈ s.store.history, szOf s.disk p.1 = some (contentLen s.klen p.2)

theorem exec_szOf_of_quiet (d : Disk) {a : Act} (h1 : a.isCreate = false) (h2 : a.isAppend = false) (j : Nat) :
    szOf (d.exec a).1 j = szOf d j := by
  cases a with
  | createBlob id => simp [Act.isCreate] at h1
  | append id lens => simp [Act.isAppend] at h2
  | syncBlob id =>
    simp only [Disk.exec]
    cases hf : d.files id with
    | none => rfl
    | some f => by_cases hj : j = id <;> simp [szOf, hj, hf]
  | dump id w =>
    simp only [Disk.exec]
    cases hf : d.files id with
    | none => rfl
    | some f => cases w <;> by_cases hj : j = id <;> simp [szOf, hj, hf]
  | openBlob id =>
    simp only [Disk.exec]
    cases hf : d.files id with
    | none => rfl
    | some f => by_cases hj : j = id <;> simp [szOf, hj, hf]
  | openIdx id => simp only [Disk.exec]; split <;> rfl

theorem runActs_szOf_of_quiet (d : Disk) {as : List Act} (h1 : NoCreate as) (h2 : NoAppend as) (j : Nat) :
    szOf (d.runActs as).1 j = szOf d j := by
  induction as generalizing d with
  | nil => rfl
  | cons a as ih =>
    rw [runActs_cons, ih _ (fun x hx => h1 x (List.mem_cons_of_mem _ hx)) (fun x hx => h2 x (List.mem_cons_of_mem _ hx)),
      exec_szOf_of_quiet d (h1 a (by simp)) (h2 a (by simp))]

theorem exec_append_szOf (d : Disk) (id : Nat) (lens : List Nat) (j : Nat) :
    szOf (d.exec (.append id lens)).1 j = if j = id then (szOf d j).map (· + lens.sum) else szOf d j := by
  simp only [Disk.exec]
  cases hf : d.files id with
  | none => by_cases hj : j = id <;> simp [szOf, hj, hf]
  | some f => by_cases hj : j = id <;> simp [szOf, hj, hf]

def SoundF (p : Prog) : Prop := ∀ s, Coh s → Full s → Full (p s).1

theorem SoundF.skip : SoundF skip := fun _ _ h => h
theorem SoundF.seq {p q : Prog} (hp : SoundF p) (sp : Sound p) (hq : SoundF q) : SoundF (p ⨾ q) :=
  fun s hc hf => hq (p s).1 (sp s hc).coh (hp s hc hf)
theorem SoundF.cond {c : FsState → Bool} {p q : Prog} (hp : SoundF p) (hq : SoundF q) : SoundF (cond c p q) := by
  intro s hc hf; simp only [Fs.cond]; split
  · exact hp s hc hf
  · exact hq s hc hf

theorem SoundF.acts {f : FsState → List Act} (h1 : ∀ s, NoCreate (f s)) (h2 : ∀ s, NoAppend (f s)) :
    SoundF (acts f) := by
  intro s _ hf p hp
  simp only [Fs.acts] at hp ⊢
  rw [runActs_szOf_of_quiet s.disk (h1 s) (h2 s)]
  exact hf p hp

theorem SoundF.modify {g : FsState → FsState} (h1 : ∀ s, (g s).store = s.store)
    (h2 : ∀ s, (g s).klen = s.klen) : SoundF (modify g) := by
  intro s _ hf p hp
  simp only [Fs.modify, h1, h2] at hp ⊢
  exact hf p hp

theorem SoundF.applyP {op : Op} (h : ∀ st : Store, st.WF → st.blobs ≠ [] → (st.apply op).history = st.history) :
    SoundF (applyP op) := by
  intro s hc hf p hp
  simp only [Fs.applyP, modStore, Fs.modify] at hp ⊢
  rw [h s.store hc.wf hc.ne] at hp
  exact hf p hp

/-! #### L2 operations that do not touch any record -/

theorem history_closeActive (st : Store) : (st.apply .closeActive).history = st.history := by
  cases ha : st.active with
  | none => simp [Store.apply, Store.closeActive, ha]
  | some a => simp [Store.apply, Store.closeActive, ha, Store.history, Store.blobs, Store.closed, List.filterMap_append]

theorem history_restoreActive (st : Store) : (st.apply .restoreActive).history = st.history := by
  cases ha : st.active with
  | some a => simp [Store.apply, Store.restoreActive, ha]
  | none =>
    cases hl : Store.lastPresent st.slots with
    | none => simp [Store.apply, Store.restoreActive, ha, hl]
    | some p =>
      obtain ⟨i, b⟩ := p
      have := Store.lastPresent_some hl
      simp only [Store.apply, Store.restoreActive, ha, hl, Store.history, Store.blobs, Store.closed,
        Option.toList, List.append_nil, ← this, List.map_append, List.map_cons, List.map_nil]

theorem history_settle (st : Store) : (st.apply .settle).history = st.history := by
  simp only [Store.apply, Store.settle, Store.history, Store.blobs, Store.closed, Store.closed_map_option,
    List.map_append, List.map_map]
  congr 1
  apply List.map_congr_left
  intro b _
  simp only [Function.comp]
  split <;> rfl

theorem history_restart {st : Store} (hwf : st.WF) (hne : st.blobs ≠ []) (lazy : Bool) :
    (st.apply (.restart lazy)).history = st.history := by
  have hsort := Store.sortById_of_sorted st.blobs hwf.1
  have hflag : ∀ l : List Blob,
      (l.map (fun b => if b.recs.isEmpty then b else { b with onDisk := true })).map (fun b => (b.id, b.recs)) =
        l.map (fun b => (b.id, b.recs)) := by
    intro l
    rw [List.map_map]
    apply List.map_congr_left
    intro b _
    simp only [Function.comp]
    split <;> rfl
  cases lazy with
  | true =>
    simp only [Store.apply, Store.restart, hsort, if_true, Store.history]
    generalize st.blobs = bs
    simp only [Store.blobs, Store.closed, Option.toList, List.append_nil, Store.filterMap_id_map_some]
    exact hflag bs
  | false =>
    cases hl : st.blobs.getLast? with
    | none => exact absurd (List.getLast?_eq_none_iff.1 hl) hne
    | some a =>
      obtain ⟨ys, hys⟩ := List.getLast?_eq_some_iff.1 hl
      simp only [Store.apply, Store.restart, hsort, hl, Bool.false_eq_true, if_false, Store.history]
      rw [hys, List.dropLast_concat]
      generalize ys = zs
      simp only [Store.blobs, Store.closed, Option.toList, Store.filterMap_id_map_some, List.map_append,
        List.map_cons, List.map_nil]
      rw [hflag zs]

theorem history_newBlob_replace (st : Store) :
    (st.apply .replaceActive).history = st.history ++ [(st.nextId, [])] := by
  cases ha : st.active with
  | none => simp [Store.apply, Store.replaceActive, Store.createActive, ha, Store.history, Store.blobs, Store.closed]
  | some a =>
    simp [Store.apply, Store.replaceActive, Store.createActive, ha, Store.history, Store.blobs, Store.closed,
      List.filterMap_append]

theorem history_createActive {st : Store} (ha : st.active = none) :
    (st.apply .createActive).history = st.history ++ [(st.nextId, [])] := by
  simp [Store.apply, Store.tryCreateActive, Store.createActive, ha, Store.history, Store.blobs, Store.closed]

theorem contentLen_nil (klen : Nat) : contentLen klen [] = blobHeaderSize := by simp [contentLen]

theorem contentLen_append (klen : Nat) (recs : List Rec) (r : Rec) :
    contentLen klen (recs ++ [r]) = contentLen klen recs + recLen klen r := by
  simp [contentLen, Nat.add_assoc]

theorem recWrites_sum (klen : Nat) (r : Rec) : (recWrites klen r).sum = recLen klen r := by
  unfold recWrites; split <;> simp [recLen]

/-- a new blob: `Full` is kept when the operation appends `(nextId, [])` to the history -/
theorem full_newBlob {s : FsState} (hc : Coh s) (hf : Full s) {op : Op}
    (hh : (s.store.apply op).history = s.store.history ++ [(s.store.nextId, [])]) : Full (newBlobP op s).1 := by
  rw [newBlobP_eq hc]
  intro p hp
  simp only [hh, List.mem_append, List.mem_singleton] at hp
  rcases hp with hp | rfl
  · have hne : p.1 ≠ s.store.nextId := by
      obtain ⟨b, hb, rfl⟩ := List.mem_map.1 hp
      exact Nat.ne_of_lt (hc.wf.2 b hb)
    have := hf p hp
    simp only [szOf, setFile_files, hne, if_false] at this ⊢
    exact this
  · simp [szOf, contentLen_nil]

theorem SoundF.newBlob_replace : SoundF (newBlobP .replaceActive) :=
  fun _ hc hf => full_newBlob hc hf (history_newBlob_replace _)

theorem SoundF.ensureActiveP : SoundF ensureActiveP := by
  intro s hc hf
  simp only [Fs.ensureActiveP, Fs.cond]
  split
  · rename_i hnone
    exact full_newBlob hc hf (history_createActive (by simpa using hnone))
  · exact hf

theorem ensureActiveP_active (s : FsState) : (ensureActiveP s).1.store.active.isSome = true := by
  simp only [Fs.ensureActiveP, Fs.cond]
  split
  · rename_i hnone
    have ha : s.store.active = none := by simpa using hnone
    simp [newBlobP, Fs.seq, Fs.acts, Fs.applyP, modStore, Fs.modify, Store.apply, Store.tryCreateActive, ha,
      Store.createActive]
  · rename_i hsome
    cases h : s.store.active <;> simp_all [Fs.skip]

theorem ensureActiveP_klen (s : FsState) : (ensureActiveP s).1.klen = s.klen := by
  simp only [Fs.ensureActiveP, Fs.cond]
  split <;> rfl

/-! #### write -/

theorem history_of_active {st : Store} {a : Blob} (ha : st.active = some a) :
    st.history = st.closed.map (fun b => (b.id, b.recs)) ++ [(a.id, a.recs)] := by
  simp [Store.history, Store.blobs, ha]

theorem history_of_none {st : Store} (ha : st.active = none) :
    st.history = st.closed.map (fun b => (b.id, b.recs)) := by
  simp [Store.history, Store.blobs, ha]

theorem closed_ids_nodup {st : Store} (hwf : st.WF) : (st.closed.map (·.id)).Nodup := by
  have := hwf.1
  simp only [Store.blobs, List.map_append, List.pairwise_append] at this
  exact this.1.imp (fun h => Nat.ne_of_lt h)

theorem closed_ids_ne_active {st : Store} (hwf : st.WF) {a : Blob} (ha : st.active = some a) :
    ∀ b ∈ st.closed, b.id ≠ a.id := by
  have := hwf.1
  simp only [Store.blobs, ha, Option.toList, List.map_append, List.pairwise_append] at this
  intro b hb
  exact Nat.ne_of_lt (this.2.2 b.id (List.mem_map_of_mem hb) a.id (by simp))

theorem history_write {st : Store} {a : Blob} (ha : st.active = some a) (k : Key) (ts : Nat) (m : Option Meta)
    (d : Data) (hrej : (!st.allowDup && (st.getLatestEntry k m).isFound) = false) :
    (st.apply (.write k ts m d)).history =
      st.closed.map (fun b => (b.id, b.recs)) ++ [(a.id, a.recs ++ [writeRec k ts m d])] := by
  have he : st.ensureActive = st := by simp [Store.ensureActive, ha]
  simp only [Store.apply, Store.write, he, hrej, ha]
  simp [Store.history, Store.blobs, Store.closed, Blob.append, writeRec]

def appendActiveP (k : Key) (ts : Nat) (m : Option Meta) (d : Data) : Prog :=
  acts (fun s => match s.store.active with
    | some a => [.append a.id (recWrites s.klen (writeRec k ts m d))]
    | none => []) ⨾ applyP (.write k ts m d)

theorem full_write_core {s : FsState} (hc : Coh s) (hf : Full s) {a : Blob} (ha : s.store.active = some a)
    (k : Key) (ts : Nat) (m : Option Meta) (d : Data)
    (hrej : (!s.store.allowDup && (s.store.getLatestEntry k m).isFound) = false) :
    Full (appendActiveP k ts m d s).1 := by
  intro p hp
  simp only [appendActiveP, Fs.seq, Fs.acts, Fs.applyP, modStore, Fs.modify, ha, Disk.runActs] at hp ⊢
  rw [history_write ha k ts m d hrej, List.mem_append, List.mem_singleton] at hp
  rw [exec_append_szOf]
  have hh := history_of_active ha
  rcases hp with hp | rfl
  · obtain ⟨b, hb, rfl⟩ := List.mem_map.1 hp
    simp only [closed_ids_ne_active hc.wf ha b hb, if_false]
    exact hf _ (by rw [hh]; exact List.mem_append_left _ hp)
  · simp only [if_true]
    rw [hf (a.id, a.recs) (by rw [hh]; simp), Option.map_some, contentLen_append, recWrites_sum]

theorem sound_appendActiveP (k : Key) (ts : Nat) (m : Option Meta) (d : Data) : Sound (appendActiveP k ts m d) :=
  Sound.seq (Sound.acts (by intro s; (repeat' split) <;> first | exact NoCreate.nil | exact NoCreate.singleton rfl))
    (Sound.applyP _)

theorem SoundF.dumpPassP : SoundF dumpPassP :=
  SoundF.seq (SoundF.acts (fun _ => noCreate_dumpActs _) (fun _ => noAppend_dumpActs _))
    (Sound.acts (fun _ => noCreate_dumpActs _)) (SoundF.applyP (fun st _ _ => history_settle st))

theorem SoundF.rotateP : SoundF rotateP :=
  SoundF.seq SoundF.newBlob_replace Sound.newBlob_replace (SoundF.cond SoundF.skip SoundF.dumpPassP)

theorem SoundF.fsyncCheckP : SoundF fsyncCheckP :=
  SoundF.acts (by intro s; (repeat' split) <;> first | exact NoCreate.nil | exact NoCreate.singleton rfl)
    (by no_append)

theorem writeP_eq (k : Key) (ts : Nat) (m : Option Meta) (d : Data) (rot : Bool) :
    writeP k ts m d rot =
      ensureActiveP ⨾ cond (fun s => !s.store.allowDup && (s.store.getLatestEntry k m).isFound) skip
        (appendActiveP k ts m d ⨾ (if rot then rotateP else fsyncCheckP)) := rfl

theorem soundF_writeP (k : Key) (ts : Nat) (m : Option Meta) (d : Data) (rot : Bool) :
    SoundF (writeP k ts m d rot) := by
  intro s hc hf
  rw [writeP_eq]
  have hc1 := (Sound.ensureActiveP s hc).coh
  have hf1 := SoundF.ensureActiveP s hc hf
  have ha1 := ensureActiveP_active s
  show Full ((cond _ skip _) (ensureActiveP s).1).1
  generalize (ensureActiveP s).1 = s1 at hc1 hf1 ha1
  simp only [Fs.cond]
  split
  · exact hf1
  · rename_i hrej
    obtain ⟨a, ha⟩ := Option.isSome_iff_exists.1 ha1
    have hf3 := full_write_core hc1 hf1 ha k ts m d (by simpa using hrej)
    have hc3 := (sound_appendActiveP k ts m d s1 hc1).coh
    show Full ((if rot then rotateP else fsyncCheckP) (appendActiveP k ts m d s1).1).1
    split
    · exact SoundF.rotateP _ hc3 hf3
    · exact SoundF.fsyncCheckP _ hc3 hf3

/-! #### delete -/

/-- appends to some blobs of a list with distinct ids -/
theorem runActs_appends (w : List Nat) (p : Blob → Bool) : ∀ (L : List Blob) (d : Disk),
    (L.map (·.id)).Nodup →
    (∀ b ∈ L, szOf (d.runActs ((L.filter p).map (fun b => Act.append b.id w))).1 b.id =
        if p b then (szOf d b.id).map (· + w.sum) else szOf d b.id) ∧
      (∀ j, j ∉ L.map (·.id) →
        szOf (d.runActs ((L.filter p).map (fun b => Act.append b.id w))).1 j = szOf d j)
  | [], d, _ => ⟨by simp, by simp⟩
  | x :: L, d, hnd => by
    simp only [List.map_cons, List.nodup_cons] at hnd
    obtain ⟨hx, hnd'⟩ := hnd
    by_cases hp : p x
    · simp only [List.filter_cons, hp, if_true, List.map_cons, runActs_cons]
      obtain ⟨ih1, ih2⟩ := runActs_appends w p L (d.exec (.append x.id w)).1 hnd'
      constructor
      · intro b hb
        rcases List.mem_cons.1 hb with rfl | hb
        · rw [ih2 _ hx, exec_append_szOf]; simp [hp]
        · have hne : b.id ≠ x.id := fun h => hx (h ▸ List.mem_map_of_mem hb)
          rw [ih1 b hb, exec_append_szOf]; simp [hne]
      · intro j hj
        simp only [List.mem_cons, not_or] at hj
        rw [ih2 j hj.2, exec_append_szOf]; simp [hj.1]
    · simp only [List.filter_cons, hp, Bool.false_eq_true, if_false]
      obtain ⟨ih1, ih2⟩ := runActs_appends w p L d hnd'
      constructor
      · intro b hb
        rcases List.mem_cons.1 hb with rfl | hb
        · rw [ih2 _ hx]; simp [hp]
        · exact ih1 b hb
      · intro j hj
        simp only [List.map_cons, List.mem_cons, not_or] at hj
        exact ih2 j hj.2

def deleteCoreP (k : Key) (ts : Nat) (m : Option Meta) (oip : Bool) : Prog :=
  acts (fun s => deleteActs s.klen s.store k ts m oip) ⨾ noteDeferredP k ⨾ applyP (.delete k ts m oip)

theorem sound_deleteCoreP (k : Key) (ts : Nat) (m : Option Meta) (oip : Bool) : Sound (deleteCoreP k ts m oip) :=
  Sound.seq (Sound.seq (Sound.acts (fun _ => noCreate_deleteActs _ _ _ _ _ _)) (Sound.modify (fun _ => rfl)))
    (Sound.applyP _)

theorem marker_eq (k : Key) (ts : Nat) (m : Option Meta) : Store.marker k ts m = markerRec k ts m := rfl

theorem full_delete_core {s : FsState} (hc : Coh s) (hf : Full s) (k : Key) (ts : Nat) (m : Option Meta)
    (oip : Bool) (hP : oip = true ∨ s.store.active.isSome = true) : Full (deleteCoreP k ts m oip s).1 := by
  have hbase : s.store.deleteBase oip = s.store := by
    unfold Store.deleteBase
    rcases hP with h | h
    · simp [h]
    · split
      · rfl
      · obtain ⟨a, ha⟩ := Option.isSome_iff_exists.1 h
        simp [Store.ensureActive, ha]
  have hnd := closed_ids_nodup hc.wf
  have hidc : ∀ (c : Prop) [Decidable c] (b : Blob), (if c then Store.mark k ts m b else b).id = b.id := by
    intro c _ b; split <;> rfl
  intro p hp
  simp only [deleteCoreP, Fs.seq, Fs.acts, noteDeferredP, Fs.applyP, modStore, Fs.modify] at hp ⊢
  simp only [Store.history, Store.apply, Store.delete_blobs, hbase, List.map_append, List.map_map,
    List.mem_append] at hp
  simp only [deleteActs]
  generalize hw : recWrites s.klen (markerRec k ts m) = w
  have hsum : w.sum = recLen s.klen (markerRec k ts m) := by rw [← hw]; exact recWrites_sum _ _
  rw [runActs_append]
  have key := fun (A : List Act) => runActs_appends w (fun b => (b.getLatest k).isFound) s.store.closed
    (s.disk.runActs A).1 hnd
  have holdc : ∀ b ∈ s.store.closed, szOf s.disk b.id = some (contentLen s.klen b.recs) := by
    intro b hb
    apply hf (b.id, b.recs)
    simp only [Store.history, Store.blobs, List.map_append, List.mem_append]
    exact Or.inl (List.mem_map_of_mem (f := fun b => (b.id, b.recs)) hb)
  cases ha : s.store.active with
  | none =>
    simp only [ha, Option.toList, List.map_nil, List.not_mem_nil, or_false] at hp
    obtain ⟨b, hb, rfl⟩ := List.mem_map.1 hp
    simp only [Function.comp, Store.blobDelete_fst, Bool.not_true, Bool.false_or, hidc]
    rw [(key _).1 b hb]
    simp only [runActs_nil, holdc b hb]
    split
    · simp [Store.mark, contentLen_append, hsum, marker_eq]
    · rfl
  | some a =>
    have holda : szOf s.disk a.id = some (contentLen s.klen a.recs) := by
      apply hf (a.id, a.recs)
      rw [history_of_active ha]; simp
    simp only [ha, Option.toList, List.map_cons, List.map_nil, List.mem_singleton] at hp
    rcases hp with hp | rfl
    · obtain ⟨b, hb, rfl⟩ := List.mem_map.1 hp
      have hne := closed_ids_ne_active hc.wf ha b hb
      simp only [Function.comp, Store.blobDelete_fst, Bool.not_true, Bool.false_or, hidc]
      rw [(key _).1 b hb]
      have hsame : szOf (s.disk.runActs
          (if (!oip || (a.getLatest k).isFound) = true then [Act.append a.id w] else [])).1 b.id =
          szOf s.disk b.id := by
        split
        · simp only [Disk.runActs]; rw [exec_append_szOf]; simp [hne]
        · rfl
      rw [hsame, holdc b hb]
      split
      · simp [Store.mark, contentLen_append, hsum, marker_eq]
      · rfl
    · have hnot : a.id ∉ s.store.closed.map (·.id) := by
        intro hmem
        obtain ⟨b, hb, hid⟩ := List.mem_map.1 hmem
        exact closed_ids_ne_active hc.wf ha b hb hid
      simp only [Function.comp, Store.blobDelete_fst, hidc]
      rw [(key _).2 a.id hnot]
      split
      · simp only [Disk.runActs]
        rw [exec_append_szOf]
        simp [holda, Store.mark, contentLen_append, hsum, marker_eq]
      · exact holda

theorem deleteP_eq (k : Key) (ts : Nat) (m : Option Meta) (oip : Bool) :
    deleteP k ts m oip = (if oip then skip else ensureActiveP) ⨾ deleteCoreP k ts m oip ⨾ fsyncCheckP := by
  funext s
  simp [deleteP, deleteCoreP, Fs.seq, List.append_assoc]

theorem soundF_deleteP (k : Key) (ts : Nat) (m : Option Meta) (oip : Bool) : SoundF (deleteP k ts m oip) := by
  intro s hc hf
  rw [deleteP_eq]
  show Full (fsyncCheckP (deleteCoreP k ts m oip ((if oip then skip else ensureActiveP) s).1).1).1
  have h1 : Coh ((if oip then skip else ensureActiveP) s).1 ∧ Full ((if oip then skip else ensureActiveP) s).1 ∧
      (oip = true ∨ ((if oip then skip else ensureActiveP) s).1.store.active.isSome = true) := by
    split
    · exact ⟨hc, hf, Or.inl ‹_›⟩
    · exact ⟨(Sound.ensureActiveP s hc).coh, SoundF.ensureActiveP s hc hf, Or.inr (ensureActiveP_active s)⟩
  generalize ((if oip then skip else ensureActiveP) s).1 = s1 at h1
  obtain ⟨hc1, hf1, hP⟩ := h1
  exact SoundF.fsyncCheckP _ (sound_deleteCoreP k ts m oip s1 hc1).coh (full_delete_core hc1 hf1 k ts m oip hP)

/-! #### all operations -/

macro "no_create" : tactic =>
  `(tactic| (intro s; (repeat' split) <;> first | exact NoCreate.nil | exact NoCreate.singleton rfl))

theorem soundF_closeP : SoundF closeP :=
  SoundF.seq (SoundF.acts (by no_create) (by no_append)) (Sound.acts (by no_create))
    (SoundF.modify (fun _ => rfl) (fun _ => rfl))

theorem sound_closeP : Sound closeP :=
  Sound.seq (Sound.acts (by no_create)) (Sound.modify (fun _ => rfl))

theorem soundF_openP (lazy : Bool) : SoundF (openP lazy) :=
  SoundF.seq
    (SoundF.seq (SoundF.acts (fun _ => noCreate_openActs _ _ _) (fun _ => noAppend_openActs _ _ _))
      (Sound.acts (fun _ => noCreate_openActs _ _ _))
      (SoundF.applyP (fun _ h1 h2 => history_restart h1 h2 lazy)))
    (Sound.seq (Sound.acts (fun _ => noCreate_openActs _ _ _)) (Sound.applyP _))
    (SoundF.modify (fun _ => rfl) (fun _ => rfl))

theorem soundF_closeActiveP : SoundF closeActiveP :=
  SoundF.seq
    (SoundF.seq (SoundF.acts (by no_create) (by no_append)) (Sound.acts (by no_create))
      (SoundF.applyP (fun st _ _ => history_closeActive st)))
    (Sound.seq (Sound.acts (by no_create)) (Sound.applyP _))
    SoundF.dumpPassP

theorem soundF_forceP (pred : BlobPred) : SoundF (forceP pred) :=
  SoundF.seq (SoundF.cond SoundF.newBlob_replace SoundF.skip) (Sound.cond Sound.newBlob_replace Sound.skip)
    SoundF.dumpPassP

theorem soundF_restoreActiveP : SoundF restoreActiveP :=
  SoundF.cond
    (SoundF.seq (SoundF.applyP (fun st _ _ => history_restoreActive st)) (Sound.applyP _)
      (SoundF.cond SoundF.fsyncCheckP SoundF.skip))
    SoundF.skip

theorem soundF_prog (op : FsOp) : SoundF (prog op) := by
  cases op with
  | write k ts m d rot => exact soundF_writeP k ts m d rot
  | delete k ts m oip => exact soundF_deleteP k ts m oip
  | closeActive => exact soundF_closeActiveP
  | createActive => exact SoundF.ensureActiveP
  | restoreActive => exact soundF_restoreActiveP
  | force pred => exact soundF_forceP pred
  | free => exact SoundF.dumpPassP
  | settle => exact SoundF.cond SoundF.dumpPassP SoundF.skip
  | fsync => exact SoundF.acts (by no_create) (by no_append)
  | restart lazy => exact SoundF.seq soundF_closeP sound_closeP (soundF_openP lazy)
  | close => exact soundF_closeP
  | «open» lazy => exact SoundF.skip
  | query => exact SoundF.skip

theorem emit_full {s : FsState} (hc : Coh s) (hf : Full s) (op : FsOp) : Full (emit s op).1 := by
  unfold emit
  split
  · exact soundF_prog op s hc hf
  · split
    · exact soundF_openP _ s hc hf
    · exact hf

theorem init_full (dup : Bool) (limit klen : Nat) (unc rs : Bool) : Full (init dup limit klen unc rs).1 := by
  rw [init_eq]
  intro p hp
  simp only [Store.history, Store.init, Store.createActive, Store.blobs, Store.closed, List.filterMap_nil,
    Option.toList, List.nil_append, List.map_cons, List.map_nil, List.mem_singleton] at hp
  subst hp
  simp [szOf, contentLen_nil]

/-- on every run: every blob of the store has its blob file, and the `size` counter of the file is the
    length of the blob's content -/
theorem run_full (dup : Bool) (limit klen : Nat) (unc rs : Bool) (ops : List FsOp) :
    Full (run dup limit klen unc rs ops).1 := by
  unfold run
  have := runFrom_keeps (I := fun s _ => Coh s ∧ Full s)
    (fun s _ op h => ⟨(emit_stepOK h.1 op).coh, emit_full h.1 h.2 op⟩) ops
    (init dup limit klen unc rs) ⟨init_coh dup limit klen unc rs, init_full dup limit klen unc rs⟩
  exact this.2

/-! ### the length of the L5 content -/

theorem genLoop_length : ∀ (n : Nat) (x : UInt64) (acc : List UInt8), (genLoop n x acc).length = acc.length + n
  | 0, _, acc => by simp [genLoop]
  | n + 1, x, acc => by
    simp only [genLoop]
    rw [genLoop_length n]
    simp only [List.length_cons]; omega

theorem genData_length (len seed : Nat) : (genData len seed).length = len :=
  genData_length' len seed

theorem tailOf_length (off : Nat) (Rs : List Record) :
    (tailOf off Rs).length =
      (Rs.map fun R => 57 + R.header.key.length + (serMeta R.mt).length + R.data.length).sum := by
  induction Rs generalizing off with
  | nil => simp [tailOf]
  | cons R Rs ih => simp only [tailOf, List.length_append, Record.image_length, ih, List.map_cons, List.sum_cons]

theorem recordOf_len (klen : Nat) (r : Rec) :
    57 + (recordOf klen r (genData r.data.len r.data.seed)).header.key.length +
        (serMeta (recordOf klen r (genData r.data.len r.data.seed)).mt).length +
        (recordOf klen r (genData r.data.len r.data.seed)).data.length = recLen klen r := by
  rw [(recordOf_WF klen r _).key, recordOf_mt]
  unfold recordOf recLen recHead recData headerSize
  split
  · simp [Record.deleted, Record.create]
  · simp [Record.create, genData_length]

/-- `contentLen` is the length of the L5 bytes -/
theorem content_length (klen : Nat) (b : Blob) : (content klen b).length = contentLen klen b.recs := by
  unfold content blobBytes recordsOf
  rw [appendRecords_eq, List.length_append, tailOf_length, List.map_map, List.map_map]
  have h20 : (serBlobHeader).length = blobHeaderSize := by decide
  rw [h20, contentLen]
  congr 1
  congr 1
  apply List.map_congr_left
  intro r _
  exact recordOf_len klen r

/-! ## Part 5: no action is ever issued while disabled (the guards of `Disk.exec` never fire) -/

def AllEnabled : Disk → List Act → Prop
  | _, [] => True
  | d, a :: as => a.enabled d = true ∧ AllEnabled (d.exec a).1 as

theorem allEnabled_append (d : Disk) (as bs : List Act) :
    AllEnabled d (as ++ bs) ↔ AllEnabled d as ∧ AllEnabled (d.runActs as).1 bs := by
  induction as generalizing d with
  | nil => simp [AllEnabled]
  | cons a as ih => simp only [List.cons_append, AllEnabled, ih, runActs_cons, and_assoc]

theorem exec_idx_isSome_mono (d : Disk) (a : Act) (j : Nat) :
    (d.idx j).isSome = true → ((d.exec a).1.idx j).isSome = true := by
  intro h
  cases a with
  | dump id w =>
    simp only [Disk.exec]
    cases hf : d.files id with
    | none => exact h
    | some f =>
      cases w
      · simpa using h
      · simp only [if_true, Disk.setIdx]
        by_cases hj : j = id <;> simp [hj, h]
  | createBlob id => simp only [Disk.exec]; split <;> simpa using h
  | append id lens => simp only [Disk.exec]; split <;> simpa using h
  | syncBlob id => simp only [Disk.exec]; split <;> simpa using h
  | openBlob id => simp only [Disk.exec]; split <;> simpa using h
  | openIdx id => simp only [Disk.exec]; split <;> simpa using h

theorem enabled_mono (d : Disk) {a : Act} (b : Act) (ha : a.isCreate = false) (h : a.enabled d = true) :
    a.enabled (d.exec b).1 = true := by
  have hf : ∀ j, (d.files j).isSome = true → ((d.exec b).1.files j).isSome = true := by
    intro j hj; rw [exec_files_isSome, hj]; rfl
  cases a with
  | createBlob id => simp [Act.isCreate] at ha
  | append id lens => exact hf id h
  | syncBlob id => exact hf id h
  | dump id w => exact hf id h
  | openBlob id => exact hf id h
  | openIdx id => exact exec_idx_isSome_mono d b id h

theorem allEnabled_of_noCreate : ∀ (as : List Act) (d : Disk), NoCreate as → (∀ a ∈ as, a.enabled d = true) →
    AllEnabled d as
  | [], _, _, _ => trivial
  | a :: as, d, hn, he => by
    refine ⟨he a (by simp), allEnabled_of_noCreate as _ (fun x hx => hn x (List.mem_cons_of_mem _ hx)) ?_⟩
    intro x hx
    exact enabled_mono d a (hn x (List.mem_cons_of_mem _ hx)) (he x (List.mem_cons_of_mem _ hx))

/-- running `p` on `s` issues only enabled actions -/
def EnAt (p : Prog) (s : FsState) : Prop :=
  ∃ as, (p s).1.disk = (s.disk.runActs as).1 ∧ (p s).2 = (s.disk.runActs as).2 ∧ AllEnabled s.disk as

theorem EnAt.skip (s : FsState) : EnAt skip s := ⟨[], rfl, rfl, trivial⟩
theorem EnAt.modify (g : FsState → FsState) (s : FsState) : EnAt (modify g) s := ⟨[], rfl, rfl, trivial⟩
theorem EnAt.acts {f : FsState → List Act} {s : FsState} (h : AllEnabled s.disk (f s)) : EnAt (acts f) s :=
  ⟨f s, rfl, rfl, h⟩
theorem EnAt.seq {p q : Prog} {s : FsState} (hp : EnAt p s) (hq : EnAt q (p s).1) : EnAt (p ⨾ q) s := by
  obtain ⟨a1, h1, h2, h3⟩ := hp
  obtain ⟨a2, h4, h5, h6⟩ := hq
  refine ⟨a1 ++ a2, ?_, ?_, ?_⟩
  · simp only [Fs.seq, runActs_append]; rw [h4, h1]
  · simp only [Fs.seq, runActs_append]; rw [h2, h5, h1]
  · rw [allEnabled_append]; exact ⟨h3, by rw [← h1]; exact h6⟩
theorem EnAt.cond {c : FsState → Bool} {p q : Prog} {s : FsState} (hp : c s = true → EnAt p s)
    (hq : c s = false → EnAt q s) : EnAt (cond c p q) s := by
  unfold EnAt
  simp only [Fs.cond]
  cases hc : c s
  · simpa [hc, EnAt] using hq hc
  · simpa [hc, EnAt] using hp hc

def Enabling (p : Prog) : Prop := ∀ s, Coh s → Full s → EnAt p s

theorem Enabling.skip : Enabling skip := fun s _ _ => EnAt.skip s
theorem Enabling.modify (g : FsState → FsState) : Enabling (modify g) := fun s _ _ => EnAt.modify g s
theorem Enabling.applyP (op : Op) : Enabling (applyP op) := fun s _ _ => EnAt.modify _ s
theorem Enabling.acts {f : FsState → List Act} (h : ∀ s, Coh s → Full s → AllEnabled s.disk (f s)) :
    Enabling (acts f) := fun s hc hf => EnAt.acts (h s hc hf)
theorem Enabling.seq {p q : Prog} (hp : Enabling p) (sp : Sound p) (fp : SoundF p) (hq : Enabling q) :
    Enabling (p ⨾ q) := fun s hc hf => EnAt.seq (hp s hc hf) (hq _ (sp s hc).coh (fp s hc hf))
theorem Enabling.cond {c : FsState → Bool} {p q : Prog} (hp : Enabling p) (hq : Enabling q) :
    Enabling (cond c p q) := fun s hc hf => EnAt.cond (fun _ => hp s hc hf) (fun _ => hq s hc hf)

theorem Enabling.newBlobP (op : Op) : Enabling (newBlobP op) := by
  intro s hc hf
  refine EnAt.seq (EnAt.acts ?_) (EnAt.modify _ _)
  simp [AllEnabled, Act.enabled, hc.nextId_none]

theorem Enabling.ensureActiveP : Enabling ensureActiveP :=
  Enabling.cond (Enabling.newBlobP _) Enabling.skip

/-! #### the files the actions need exist -/

theorem file_of_hist {s : FsState} (hf : Full s) {p : Nat × List Rec} (h : p ∈ s.store.history) :
    (s.disk.files p.1).isSome = true := by
  have := hf p h
  simp only [szOf] at this
  cases hx : s.disk.files p.1 with
  | none => rw [hx] at this; cases this
  | some f => rfl

theorem file_of_blob {s : FsState} (hf : Full s) {b : Blob} (h : b ∈ s.store.blobs) :
    (s.disk.files b.id).isSome = true :=
  file_of_hist hf (p := (b.id, b.recs)) (List.mem_map_of_mem (f := fun b => (b.id, b.recs)) h)

theorem file_of_closed {s : FsState} (hf : Full s) {b : Blob} (h : b ∈ s.store.closed) :
    (s.disk.files b.id).isSome = true :=
  file_of_blob hf (by simp [Store.blobs, h])

theorem file_of_active {s : FsState} (hf : Full s) {a : Blob} (h : s.store.active = some a) :
    (s.disk.files a.id).isSome = true :=
  file_of_blob hf (by simp [Store.blobs, h])

theorem enabled_dumpActs {s : FsState} (hf : Full s) : AllEnabled s.disk (dumpActs s.store) := by
  refine allEnabled_of_noCreate _ _ (noCreate_dumpActs _) ?_
  intro a ha
  simp only [dumpActs, List.mem_map, List.mem_filter] at ha
  obtain ⟨b, ⟨hb, _⟩, rfl⟩ := ha
  exact file_of_closed hf hb

theorem Enabling.dumpPassP : Enabling dumpPassP :=
  Enabling.seq (Enabling.acts (fun _ _ hf => enabled_dumpActs hf)) (Sound.acts (fun _ => noCreate_dumpActs _))
    (SoundF.acts (fun _ => noCreate_dumpActs _) (fun _ => noAppend_dumpActs _)) (Enabling.applyP _)

theorem enabled_fsyncCheck {s : FsState} (hf : Full s) :
    AllEnabled s.disk (match s.store.active with
      | some a => if s.dirtyOf a.id > s.limit then [Act.syncBlob a.id] else []
      | none => []) := by
  cases ha : s.store.active with
  | none => trivial
  | some a =>
    simp only
    split
    · exact ⟨file_of_active hf ha, trivial⟩
    · trivial

theorem Enabling.fsyncCheckP : Enabling fsyncCheckP :=
  Enabling.acts (fun _ _ hf => enabled_fsyncCheck hf)

theorem sound_rotate_head : Sound (newBlobP .replaceActive) := Sound.newBlob_replace

theorem Enabling.rotateP : Enabling rotateP :=
  Enabling.seq (Enabling.newBlobP _) Sound.newBlob_replace SoundF.newBlob_replace
    (Enabling.cond Enabling.skip Enabling.dumpPassP)

theorem enabling_closeActiveP : Enabling closeActiveP := by
  refine Enabling.seq (Enabling.seq (Enabling.acts ?_) (Sound.acts (by no_create))
    (SoundF.acts (by no_create) (by no_append)) (Enabling.applyP _))
    (Sound.seq (Sound.acts (by no_create)) (Sound.applyP _))
    (SoundF.seq (SoundF.acts (by no_create) (by no_append)) (Sound.acts (by no_create))
      (SoundF.applyP (fun st _ _ => history_closeActive st)))
    Enabling.dumpPassP
  intro s _ hf
  cases ha : s.store.active with
  | none => trivial
  | some a => exact ⟨file_of_active hf ha, trivial⟩

theorem enabling_forceP (pred : BlobPred) : Enabling (forceP pred) :=
  Enabling.seq (Enabling.cond (Enabling.newBlobP _) Enabling.skip)
    (Sound.cond Sound.newBlob_replace Sound.skip) (SoundF.cond SoundF.newBlob_replace SoundF.skip)
    Enabling.dumpPassP

theorem enabling_fsyncP : Enabling fsyncP := by
  refine Enabling.acts ?_
  intro s _ hf
  cases ha : s.store.active with
  | none => trivial
  | some a =>
    simp only
    split
    · exact ⟨file_of_active hf ha, trivial⟩
    · trivial

theorem enabling_closeP : Enabling closeP := by
  refine Enabling.seq (Enabling.acts ?_) (Sound.acts (by no_create))
    (SoundF.acts (by no_create) (by no_append)) (Enabling.modify _)
  intro s _ hf
  cases ha : s.store.active with
  | none => trivial
  | some a => exact ⟨file_of_active hf ha, trivial⟩

theorem enabled_openActs {s : FsState} (hc : Coh s) (hf : Full s) (lazy : Bool) :
    AllEnabled s.disk (openActs s.disk s.store lazy) := by
  refine allEnabled_of_noCreate _ _ (noCreate_openActs _ _ _) ?_
  intro a ha
  unfold openActs at ha
  rw [Store.sortById_of_sorted _ hc.wf.1] at ha
  rcases List.mem_append.1 ha with ha | ha
  · obtain ⟨b, hb, hab⟩ := List.mem_flatMap.1 ha
    split at hab
    · rename_i hidx
      simp only [List.mem_cons, List.not_mem_nil, or_false] at hab
      rcases hab with rfl | rfl
      · exact file_of_blob hf hb
      · exact hidx
    · simp only [List.mem_singleton] at hab
      subst hab
      exact file_of_blob hf hb
  · simp only [List.mem_map, List.mem_filter] at ha
    obtain ⟨b, ⟨hb, _⟩, rfl⟩ := ha
    have hb' : b ∈ s.store.blobs := by
      split at hb
      · exact hb
      · exact (List.dropLast_sublist _).subset hb
    exact file_of_blob hf hb'

theorem enabling_openP (lazy : Bool) : Enabling (openP lazy) :=
  Enabling.seq
    (Enabling.seq (Enabling.acts (fun _ hc hf => enabled_openActs hc hf lazy))
      (Sound.acts (fun _ => noCreate_openActs _ _ _))
      (SoundF.acts (fun _ => noCreate_openActs _ _ _) (fun _ => noAppend_openActs _ _ _)) (Enabling.applyP _))
    (Sound.seq (Sound.acts (fun _ => noCreate_openActs _ _ _)) (Sound.applyP _))
    (SoundF.seq (SoundF.acts (fun _ => noCreate_openActs _ _ _) (fun _ => noAppend_openActs _ _ _))
      (Sound.acts (fun _ => noCreate_openActs _ _ _))
      (SoundF.applyP (fun _ h1 h2 => history_restart h1 h2 lazy)))
    (Enabling.modify _)

theorem enabling_writeP (k : Key) (ts : Nat) (m : Option Meta) (d : Data) (rot : Bool) :
    Enabling (writeP k ts m d rot) := by
  intro s hc hf
  rw [writeP_eq]
  refine EnAt.seq (Enabling.ensureActiveP s hc hf) ?_
  have hc1 := (Sound.ensureActiveP s hc).coh
  have hf1 := SoundF.ensureActiveP s hc hf
  have ha1 := ensureActiveP_active s
  generalize (ensureActiveP s).1 = s1 at hc1 hf1 ha1
  obtain ⟨a, ha⟩ := Option.isSome_iff_exists.1 ha1
  refine EnAt.cond (fun _ => EnAt.skip _) (fun hrej => ?_)
  have hf3 := full_write_core hc1 hf1 ha k ts m d hrej
  have hc3 := (sound_appendActiveP k ts m d s1 hc1).coh
  refine EnAt.seq (EnAt.seq (EnAt.acts ?_) (EnAt.modify _ _)) ?_
  · simp only [ha]
    exact ⟨file_of_active hf1 ha, trivial⟩
  · show EnAt (if rot then rotateP else fsyncCheckP) (appendActiveP k ts m d s1).1
    split
    · exact Enabling.rotateP _ hc3 hf3
    · exact Enabling.fsyncCheckP _ hc3 hf3

theorem enabled_deleteActs {s : FsState} (hf : Full s) (k : Key) (ts : Nat) (m : Option Meta) (oip : Bool) :
    AllEnabled s.disk (deleteActs s.klen s.store k ts m oip) := by
  refine allEnabled_of_noCreate _ _ (noCreate_deleteActs _ _ _ _ _ _) ?_
  intro a ha
  simp only [deleteActs] at ha
  rcases List.mem_append.1 ha with ha | ha
  · cases hact : s.store.active with
    | none => simp [hact] at ha
    | some b =>
      simp only [hact] at ha
      split at ha
      · simp only [List.mem_singleton] at ha; subst ha; exact file_of_active hf hact
      · cases ha
  · simp only [List.mem_map, List.mem_filter] at ha
    obtain ⟨b, ⟨hb, _⟩, rfl⟩ := ha
    exact file_of_closed hf hb

theorem enabling_deleteP (k : Key) (ts : Nat) (m : Option Meta) (oip : Bool) : Enabling (deleteP k ts m oip) := by
  intro s hc hf
  rw [deleteP_eq]
  have h0 : EnAt (if oip then skip else ensureActiveP) s := by
    split
    · exact EnAt.skip s
    · exact Enabling.ensureActiveP s hc hf
  have h1 : Coh ((if oip then skip else ensureActiveP) s).1 ∧ Full ((if oip then skip else ensureActiveP) s).1 ∧
      (oip = true ∨ ((if oip then skip else ensureActiveP) s).1.store.active.isSome = true) := by
    split
    · exact ⟨hc, hf, Or.inl ‹_›⟩
    · exact ⟨(Sound.ensureActiveP s hc).coh, SoundF.ensureActiveP s hc hf, Or.inr (ensureActiveP_active s)⟩
  refine EnAt.seq (EnAt.seq h0 ?_) ?_
  · generalize ((if oip then skip else ensureActiveP) s).1 = s1 at h1
    exact EnAt.seq (EnAt.seq (EnAt.acts (enabled_deleteActs h1.2.1 k ts m oip)) (EnAt.modify _ _)) (EnAt.modify _ _)
  · show EnAt fsyncCheckP (deleteCoreP k ts m oip ((if oip then skip else ensureActiveP) s).1).1
    generalize ((if oip then skip else ensureActiveP) s).1 = s1 at h1
    obtain ⟨hc1, hf1, hP⟩ := h1
    exact Enabling.fsyncCheckP _ (sound_deleteCoreP k ts m oip s1 hc1).coh (full_delete_core hc1 hf1 k ts m oip hP)

theorem enabling_restoreActiveP : Enabling restoreActiveP :=
  Enabling.cond
    (Enabling.seq (Enabling.applyP _) (Sound.applyP _) (SoundF.applyP (fun st _ _ => history_restoreActive st))
      (Enabling.cond Enabling.fsyncCheckP Enabling.skip))
    Enabling.skip

theorem enabling_prog (op : FsOp) : Enabling (prog op) := by
  cases op with
  | write k ts m d rot => exact enabling_writeP k ts m d rot
  | delete k ts m oip => exact enabling_deleteP k ts m oip
  | closeActive => exact enabling_closeActiveP
  | createActive => exact Enabling.ensureActiveP
  | restoreActive => exact enabling_restoreActiveP
  | force pred => exact enabling_forceP pred
  | free => exact Enabling.dumpPassP
  | settle => exact Enabling.cond Enabling.dumpPassP Enabling.skip
  | fsync => exact enabling_fsyncP
  | restart lazy => exact Enabling.seq enabling_closeP sound_closeP soundF_closeP (enabling_openP lazy)
  | close => exact enabling_closeP
  | «open» lazy => exact Enabling.skip
  | query => exact Enabling.skip

/-- every action issued by an operation on a reachable state is enabled: the files it needs exist, the
    file it creates does not -/
theorem emit_enabled {s : FsState} (hc : Coh s) (hf : Full s) (op : FsOp) :
    ∃ as, (emit s op).1.disk = (s.disk.runActs as).1 ∧ (emit s op).2 = (s.disk.runActs as).2 ∧
      AllEnabled s.disk as := by
  unfold emit
  split
  · exact enabling_prog op s hc hf
  · split
    · exact enabling_openP _ s hc hf
    · exact ⟨[], rfl, rfl, trivial⟩

theorem run_enabled (dup : Bool) (limit klen : Nat) (unc rs : Bool) (ops : List FsOp) (op : FsOp) :
    ∃ as, (emit (run dup limit klen unc rs ops).1 op).1.disk = ((run dup limit klen unc rs ops).1.disk.runActs as).1 ∧
      (emit (run dup limit klen unc rs ops).1 op).2 = ((run dup limit klen unc rs ops).1.disk.runActs as).2 ∧
      AllEnabled (run dup limit klen unc rs ops).1.disk as :=
  emit_enabled (run_inv dup limit klen unc rs ops).coh (run_full dup limit klen unc rs ops) op

end Pearl.Fs
