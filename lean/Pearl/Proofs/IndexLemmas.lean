import Pearl.Model.Index
/-
Helper lemmas about the in-memory index vector (`push`, `vecOf`).

Main facts:
* the start position of the linear scan is irrelevant as long as it is admissible
  (`pushAt_start_independent`, `push_start_independent`), and the position the executable model
  uses is admissible (`searchStart_admissible`), so `push` is plain stable insertion (`push_eq`);
* `push` keeps the vector ascending by timestamp (`push_sorted`);
* `vecOf` is an ascending, stable permutation of the key's records
  (`vecOf_sorted`, `vecOf_perm`, `vecOf_append_singleton`).

`ins f v h` is the generic form of the insertion (any element type, key function `f`), used to
transport statements between records and positioned records.
-/
namespace Pearl

/-! ### generic stable insertion -/

/-- stable insertion by key `f`, after every element with a key `≤` the new one -/
def ins {α} (f : α → Nat) (v : List α) (h : α) : List α :=
  v.takeWhile (fun a => decide (f a ≤ f h)) ++ h :: v.dropWhile (fun a => decide (f a ≤ f h))

/-- ascending by key `f`, ties related by `R` -/
def AscBy {α} (f : α → Nat) (R : α → α → Prop) (a b : α) : Prop := f a < f b ∨ (f a = f b ∧ R a b)

theorem ins_perm {α} (f : α → Nat) (v : List α) (h : α) : (ins f v h).Perm (h :: v) := by
  unfold ins
  refine List.perm_middle.trans (List.Perm.cons _ ?_)
  rw [List.takeWhile_append_dropWhile]

theorem mem_ins {α} {f : α → Nat} {v : List α} {h a : α} : a ∈ ins f v h ↔ a = h ∨ a ∈ v := by
  rw [(ins_perm f v h).mem_iff]; simp

theorem ins_map {α β} (g : α → β) (f : β → Nat) (v : List α) (h : α) :
    (ins (fun a => f (g a)) v h).map g = ins f (v.map g) (g h) := by
  simp [ins, List.takeWhile_map, List.dropWhile_map, Function.comp_def]

theorem foldl_ins_map {α β} (g : α → β) (f : β → Nat) (l acc : List α) :
    (l.foldl (ins (fun a => f (g a))) acc).map g = (l.map g).foldl (ins f) (acc.map g) := by
  induction l generalizing acc with
  | nil => rfl
  | cons x xs ih => simp only [List.foldl_cons, List.map_cons]; rw [ih, ins_map]

/-- in a sorted list everything the `dropWhile` keeps has a strictly greater key -/
theorem lt_of_mem_dropWhile {α} {f : α → Nat} {R : α → α → Prop} {t : Nat} :
    ∀ {v : List α}, v.Pairwise (AscBy f R) →
      ∀ x ∈ v.dropWhile (fun a => decide (f a ≤ t)), t < f x
  | [], _, x, hx => by simp at hx
  | y :: ys, hv, x, hx => by
    rw [List.pairwise_cons] at hv
    by_cases hy : f y ≤ t
    · rw [List.dropWhile_cons_of_pos (by simpa using hy)] at hx
      exact lt_of_mem_dropWhile hv.2 x hx
    · rw [List.dropWhile_cons_of_neg (by simpa using hy)] at hx
      rcases List.mem_cons.1 hx with rfl | hx
      · omega
      · rcases hv.1 x hx with h | h <;> omega

theorem of_mem_takeWhile {α} {p : α → Bool} :
    ∀ {v : List α}, ∀ x ∈ v.takeWhile p, p x = true
  | [], x, hx => by simp at hx
  | y :: ys, x, hx => by
    by_cases hy : p y = true
    · rw [List.takeWhile_cons_of_pos hy] at hx
      rcases List.mem_cons.1 hx with rfl | hx
      · exact hy
      · exact of_mem_takeWhile x hx
    · rw [List.takeWhile_cons_of_neg hy] at hx
      simp at hx

theorem le_of_mem_takeWhile {α} {f : α → Nat} {t : Nat} {v : List α} :
    ∀ x ∈ v.takeWhile (fun a => decide (f a ≤ t)), f x ≤ t := fun x hx => by
  simpa using of_mem_takeWhile x hx

/-- insertion keeps `AscBy f R` order provided everything already present is `R`-related to the
    new element (e.g. "was appended earlier") -/
theorem ins_pairwise {α} {f : α → Nat} {R : α → α → Prop} {v : List α} {h : α}
    (hv : v.Pairwise (AscBy f R)) (hR : ∀ a ∈ v, R a h) : (ins f v h).Pairwise (AscBy f R) := by
  have hlt := lt_of_mem_dropWhile (t := f h) hv
  have hle := le_of_mem_takeWhile (f := f) (t := f h) (v := v)
  rw [← List.takeWhile_append_dropWhile (p := fun a => decide (f a ≤ f h)) (l := v)] at hv
  rw [List.pairwise_append] at hv
  obtain ⟨h1, h2, h3⟩ := hv
  unfold ins
  rw [List.pairwise_append]
  refine ⟨h1, List.pairwise_cons.2 ⟨fun x hx => Or.inl (hlt x hx), h2⟩, ?_⟩
  intro a ha b hb
  rcases List.mem_cons.1 hb with rfl | hb
  · have h4 := hle a ha
    have h5 := hR a ((List.takeWhile_prefix _).subset ha)
    by_cases h6 : f a = f b
    · exact Or.inr ⟨h6, h5⟩
    · exact Or.inl (by omega)
  · exact h3 a ha b hb

theorem foldl_ins_pairwise {α} {f : α → Nat} {R : α → α → Prop} :
    ∀ (l acc : List α), acc.Pairwise (AscBy f R) → l.Pairwise R → (∀ a ∈ acc, ∀ b ∈ l, R a b) →
      (l.foldl (ins f) acc).Pairwise (AscBy f R)
  | [], acc, hacc, _, _ => hacc
  | x :: xs, acc, hacc, hl, hx => by
    rw [List.pairwise_cons] at hl
    simp only [List.foldl_cons]
    refine foldl_ins_pairwise xs _ (ins_pairwise hacc fun a ha => hx a ha x (by simp)) hl.2 ?_
    intro a ha b hb
    rcases mem_ins.1 ha with rfl | ha
    · exact hl.1 b hb
    · exact hx a ha b (by simp [hb])

theorem foldl_ins_perm {α} (f : α → Nat) :
    ∀ (l acc : List α), (l.foldl (ins f) acc).Perm (acc ++ l)
  | [], acc => by simp
  | x :: xs, acc => by
    simp only [List.foldl_cons]
    refine (foldl_ins_perm f xs _).trans ?_
    refine ((ins_perm f acc x).append_right xs).trans ?_
    simpa using (List.perm_middle (a := x) (l₁ := acc) (l₂ := xs)).symm

/-! ### `pushAt`, `push` -/

theorem skipLEAux_eq (ts : Nat) (l : List Rec) (pos : Nat) :
    skipLEAux ts l pos = pos + (l.takeWhile (fun r => decide (r.ts ≤ ts))).length := by
  induction l generalizing pos with
  | nil => simp [skipLEAux]
  | cons r rs ih =>
    simp only [skipLEAux]
    split
    · rename_i h; rw [ih, List.takeWhile_cons_of_pos (by simpa using h)]; simp; omega
    · rename_i h; rw [List.takeWhile_cons_of_neg (by simpa using h)]; simp

theorem takeWhile_eq_take_append {α} (p : α → Bool) :
    ∀ (n : Nat) (v : List α), n ≤ v.length → (∀ a ∈ v.take n, p a = true) →
      v.takeWhile p = v.take n ++ (v.drop n).takeWhile p
  | 0, v, _, _ => by simp
  | n+1, [], h, _ => by simp at h
  | n+1, a :: v, h, hp => by
    have ha : p a = true := hp a (by simp)
    rw [List.takeWhile_cons_of_pos ha]
    simp only [List.take_succ_cons, List.drop_succ_cons, List.cons_append]
    rw [takeWhile_eq_take_append p n v (by simpa using h) (fun b hb => hp b (by simp [hb]))]

theorem skipLE_of_admissible {v : List Rec} {ts st : Nat} (h : Admissible v ts st) :
    skipLE v ts st = (v.takeWhile (fun r => decide (r.ts ≤ ts))).length := by
  unfold skipLE
  rw [skipLEAux_eq, takeWhile_eq_take_append _ st v h.1 (fun a ha => by simpa using h.2 a ha)]
  simp [List.length_take, Nat.min_eq_left h.1]

theorem admissible_zero (v : List Rec) (ts : Nat) : Admissible v ts 0 := by
  simp [Admissible]

/-- the start of the linear scan is irrelevant as long as it is admissible (sortedness is not even needed) -/
theorem pushAt_start_independent {v : List Rec} {h : Rec} {st : Nat} (hst : Admissible v h.ts st) :
    pushAt v h st = pushAt v h 0 := by
  unfold pushAt
  rw [skipLE_of_admissible hst, skipLE_of_admissible (admissible_zero v h.ts)]

/-- as requested: for a sorted vector and an admissible start, the `len > 4` binary-search branch is irrelevant -/
theorem push_start_independent {v : List Rec} {h : Rec} {st : Nat}
    (_hv : v.Pairwise (fun a b => a.ts ≤ b.ts)) (hst : Admissible v h.ts st) :
    pushAt v h st = pushAt v h 0 :=
  pushAt_start_independent hst

theorem insertIdx_takeWhile_length {α} (p : α → Bool) (h : α) :
    ∀ v : List α, v.insertIdx (v.takeWhile p).length h = v.takeWhile p ++ h :: v.dropWhile p
  | [] => by simp
  | a :: v => by
    by_cases ha : p a = true
    · rw [List.takeWhile_cons_of_pos ha, List.dropWhile_cons_of_pos ha]
      simp [List.insertIdx_succ_cons, insertIdx_takeWhile_length p h v]
    · rw [List.takeWhile_cons_of_neg ha, List.dropWhile_cons_of_neg ha]
      simp

theorem pushAt_zero (v : List Rec) (h : Rec) :
    pushAt v h 0 =
      v.takeWhile (fun r => decide (r.ts ≤ h.ts)) ++ h :: v.dropWhile (fun r => decide (r.ts ≤ h.ts)) := by
  unfold pushAt
  rw [skipLE_of_admissible (admissible_zero v h.ts), insertIdx_takeWhile_length]

theorem searchStart_admissible (v : List Rec) (ts : Nat) : Admissible v ts (searchStart v ts) := by
  unfold searchStart
  split
  · refine ⟨(List.takeWhile_prefix _).length_le, ?_⟩
    intro r hr
    have hpre : (v.takeWhile fun r => decide (r.ts < ts)) <+: v := List.takeWhile_prefix _
    have e := (List.prefix_iff_eq_take.1 hpre).symm
    rw [e] at hr
    have := of_mem_takeWhile r hr
    simp at this
    omega
  · exact admissible_zero v ts

theorem push_eq_pushAt_zero (v : List Rec) (h : Rec) : push v h = pushAt v h 0 :=
  pushAt_start_independent (searchStart_admissible v h.ts)

/-- `push` is stable insertion after every element with timestamp `≤` the new one -/
theorem push_eq (v : List Rec) (h : Rec) :
    push v h =
      v.takeWhile (fun r => decide (r.ts ≤ h.ts)) ++ h :: v.dropWhile (fun r => decide (r.ts ≤ h.ts)) := by
  rw [push_eq_pushAt_zero, pushAt_zero]

theorem push_eq_ins (v : List Rec) (h : Rec) : push v h = ins Rec.ts v h := push_eq v h

theorem push_perm (v : List Rec) (h : Rec) : (push v h).Perm (h :: v) := by
  rw [push_eq_ins]; exact ins_perm _ _ _

theorem ascBy_true_iff {a b : Rec} : AscBy Rec.ts (fun _ _ => True) a b ↔ a.ts ≤ b.ts := by
  unfold AscBy; simp only [and_true]; omega

theorem push_sorted {v : List Rec} (h : Rec) (hv : v.Pairwise (fun a b => a.ts ≤ b.ts)) :
    (push v h).Pairwise (fun a b => a.ts ≤ b.ts) := by
  rw [push_eq_ins]
  have hv' : v.Pairwise (AscBy Rec.ts (fun _ _ => True)) := hv.imp ascBy_true_iff.2
  exact (ins_pairwise hv' (fun _ _ => trivial)).imp ascBy_true_iff.1

/-! ### `vecOf` -/

theorem push_eq_ins_fun : push = ins Rec.ts := by
  funext v h; exact push_eq_ins v h

theorem vecOf_eq_foldl_ins (recs : List Rec) (k : Key) :
    vecOf recs k = (recs.filter (fun r => r.key == k)).foldl (ins Rec.ts) [] := by
  unfold vecOf; rw [push_eq_ins_fun]

theorem vecOf_nil (k : Key) : vecOf [] k = [] := rfl

/-- explicit stable-sort characterisation: a new record goes after everything with a timestamp `≤` its own -/
theorem vecOf_append_singleton (recs : List Rec) (r : Rec) (k : Key) :
    vecOf (recs ++ [r]) k =
      if r.key == k then
        (vecOf recs k).takeWhile (fun x => decide (x.ts ≤ r.ts)) ++
          r :: (vecOf recs k).dropWhile (fun x => decide (x.ts ≤ r.ts))
      else vecOf recs k := by
  unfold vecOf
  rw [List.filter_append]
  by_cases hk : (r.key == k) = true
  · simp only [hk, List.filter_cons_of_pos, List.filter_nil, List.foldl_append, List.foldl_cons,
      List.foldl_nil, if_true]
    rw [push_eq]
  · simp [hk]

theorem vecOf_perm (recs : List Rec) (k : Key) :
    (vecOf recs k).Perm (recs.filter (fun r => r.key == k)) := by
  rw [vecOf_eq_foldl_ins]
  simpa using foldl_ins_perm Rec.ts (recs.filter (fun r => r.key == k)) []

theorem vecOf_sorted (recs : List Rec) (k : Key) :
    (vecOf recs k).Pairwise (fun a b => a.ts ≤ b.ts) := by
  rw [vecOf_eq_foldl_ins]
  have := foldl_ins_pairwise (f := Rec.ts) (R := fun _ _ => True)
    (recs.filter (fun r => r.key == k)) [] List.Pairwise.nil
    (List.pairwise_of_forall (fun _ _ => trivial)) (by simp)
  exact this.imp ascBy_true_iff.1

theorem mem_vecOf {recs : List Rec} {k : Key} {r : Rec} :
    r ∈ vecOf recs k ↔ r ∈ recs ∧ r.key = k := by
  rw [(vecOf_perm recs k).mem_iff]; simp

theorem vecOf_eq_nil_iff {recs : List Rec} {k : Key} :
    vecOf recs k = [] ↔ ∀ r ∈ recs, r.key ≠ k := by
  rw [List.eq_nil_iff_forall_not_mem]
  constructor
  · intro h r hr hk; exact h r (mem_vecOf.2 ⟨hr, hk⟩)
  · intro h r hr; exact h r (mem_vecOf.1 hr).1 (mem_vecOf.1 hr).2

end Pearl
