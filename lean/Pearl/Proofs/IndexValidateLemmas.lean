import Pearl.Model.IndexValidate
import Pearl.Proofs.BPTreeBytesLemmas
/-
The start-up acceptance test (`Pearl/Model/IndexValidate.lean`) on the images `from_records` writes:
parsing inverts the serializer, and one characterisation (`accept_image_iff`) of which
prefix / version byte / key size / blob size combinations are accepted.
-/
namespace Pearl.BPTree

/-! ### little-endian integers -/

theorem leNat_leBytes : ∀ (w n : Nat), leNat (leBytes w n) = n % 256 ^ w := by
  intro w
  induction w with
  | zero => intro n; simp [leBytes, leNat, Nat.mod_one]
  | succ w ih =>
    intro n
    have h := ih (n / 256)
    unfold leNat at h
    simp only [leBytes, leNat, List.foldr_cons]
    rw [h, Nat.pow_succ, Nat.mul_comm (256 ^ w), Nat.mod_mul]

theorem leBytes_mod : ∀ (w n : Nat), leBytes w (n % 256 ^ w) = leBytes w n := by
  intro w
  induction w with
  | zero => intro n; rfl
  | succ w ih =>
    intro n
    simp only [leBytes]
    have h1 : n % 256 ^ (w + 1) % 256 = n % 256 := by
      rw [Nat.pow_succ, Nat.mul_comm]
      exact Nat.mod_mul_right_mod n 256 (256 ^ w)
    have h2 : n % 256 ^ (w + 1) / 256 = n / 256 % 256 ^ w := by
      rw [Nat.pow_succ, Nat.mul_comm]
      exact Nat.mod_mul_right_div_self n 256 (256 ^ w)
    rw [h1, h2, ih]

theorem leBytes_eq_iff (w a b : Nat) : leBytes w a = leBytes w b ↔ a % 256 ^ w = b % 256 ^ w := by
  constructor
  · intro h
    rw [← leNat_leBytes, ← leNat_leBytes, h]
  · intro h
    rw [← leBytes_mod w a, ← leBytes_mod w b, h]

/-! ### the sequential reader -/

theorem readLE_append (w n : Nat) (rest : List Nat) :
    readLE w (leBytes w n ++ rest) = some (n % 256 ^ w, rest) := by
  unfold readLE
  have hl := leBytes_length w n
  rw [if_neg (by rw [List.length_append, hl]; omega), List.take_left' hl, List.drop_left' hl,
    leNat_leBytes]

theorem readLE_append_lt (w n : Nat) (rest : List Nat) (h : n < 256 ^ w) :
    readLE w (leBytes w n ++ rest) = some (n, rest) := by
  rw [readLE_append, Nat.mod_eq_of_lt h]

theorem readLE_byte (b : Nat) (rest : List Nat) : readLE 1 (b :: rest) = some (b, rest) := by
  simp [readLE, leNat]

theorem readBytes_append (n : Nat) (a rest : List Nat) (h : a.length = n) :
    readBytes n (a ++ rest) = some (a, rest) := by
  unfold readBytes
  rw [if_neg (by rw [List.length_append, h]; omega), List.take_left' h, List.drop_left' h]

/-! ### `read_exact_at` -/

theorem readExactAt_mid (a b c : List Nat) (off len : Nat) (ha : a.length = off) (hb : b.length = len) :
    readExactAt (a ++ (b ++ c)) off len = some b := by
  unfold readExactAt
  rw [if_pos (by simp only [List.length_append, ha, hb]; omega), List.drop_left' ha, List.take_left' hb]

theorem readExactAt_take (l : List Nat) (t off len : Nat) (h : off + len ≤ t) :
    readExactAt (l.take t) off len = readExactAt l off len := by
  unfold readExactAt
  rw [List.length_take]
  by_cases hl : off + len ≤ l.length
  · rw [if_pos (by omega), if_pos hl, List.drop_take, List.take_take, Nat.min_eq_left (by omega)]
  · rw [if_neg (by omega), if_neg hl]

theorem readExactAt_short (l : List Nat) (off len : Nat) (h : l.length < off + len) :
    readExactAt l off len = none := by
  unfold readExactAt
  rw [if_neg (by omega)]

theorem readExactAt_isSome (l : List Nat) (off len : Nat) :
    (readExactAt l off len).isSome = decide (off + len ≤ l.length) := by
  unfold readExactAt
  by_cases h : off + len ≤ l.length
  · rw [if_pos h]; simp [h]
  · rw [if_neg h]; simp [h]

/-! ### parsing what the serializer wrote -/

theorem magicByte_lt : magicByte < 256 ^ 8 := by decide

/-- what `parseIndexHeader` returns on a written header -/
def headerV (f : IndexFile RawHeader) (hash : List Nat) (vb blobSize : Nat) : IndexHeaderV :=
  { magic := magicByte, recordsCount := f.recordsCount, recordHeaderSize := f.p.rhs, metaSize := f.metaLen,
    hash := hash, versionByte := vb, keySize := f.p.K, blobSize := blobSize % 256 ^ 8 }

theorem indexHeaderBytesV_length (f : IndexFile RawHeader) (hash : List Nat) (vb b : Nat)
    (hhash : hash.length = 32) : (indexHeaderBytesV f hash vb b).length = 83 := by
  simp only [indexHeaderBytesV, List.length_append, leBytes_length, List.length_cons, List.length_nil, hhash]

theorem parse_indexHeaderBytesV (f : IndexFile RawHeader) (hash : List Nat) (vb b : Nat) (rest : List Nat)
    (hrc : f.recordsCount < 256 ^ 8) (hrhs : f.p.rhs < 256 ^ 8) (hml : f.metaLen < 256 ^ 8)
    (hK : f.p.K < 256 ^ 2) (hhash : hash.length = 32) :
    parseIndexHeader (indexHeaderBytesV f hash vb b ++ rest) = some (headerV f hash vb b) := by
  have e : indexHeaderBytesV f hash vb b ++ rest
      = leBytes 8 magicByte ++ (leBytes 8 f.recordsCount ++ (leBytes 8 f.p.rhs ++ (leBytes 8 f.metaLen
        ++ (leBytes 8 hash.length ++ (hash ++ (vb :: (leBytes 2 f.p.K ++ (leBytes 8 b ++ rest)))))))) := by
    simp only [indexHeaderBytesV, List.append_assoc, List.cons_append, List.nil_append]
  rw [e]
  unfold parseIndexHeader
  rw [readLE_append_lt _ _ _ magicByte_lt]; simp only [Option.bind_some]
  rw [readLE_append_lt _ _ _ hrc]; simp only [Option.bind_some]
  rw [readLE_append_lt _ _ _ hrhs]; simp only [Option.bind_some]
  rw [readLE_append_lt _ _ _ hml]; simp only [Option.bind_some]
  rw [readLE_append_lt _ _ _ (by rw [hhash]; decide)]; simp only [Option.bind_some]
  rw [readBytes_append _ _ _ rfl]; simp only [Option.bind_some]
  rw [readLE_byte]; simp only [Option.bind_some]
  rw [readLE_append_lt _ _ _ hK]; simp only [Option.bind_some]
  rw [readLE_append]; simp only [Option.bind_some]
  rfl

theorem parse_treeMetaBytes (f : IndexFile RawHeader) (rest : List Nat)
    (hl : f.leavesOffset < 256 ^ 8) (ht : f.treeOffset < 256 ^ 8) :
    parseTreeMeta (treeMetaBytes f ++ rest) = some ⟨f.leavesOffset, f.treeOffset⟩ := by
  unfold parseTreeMeta treeMetaBytes
  rw [List.append_assoc, readLE_append_lt _ _ _ hl]; simp only [Option.bind_some]
  rw [readLE_append_lt _ _ _ ht]; simp only [Option.bind_some]

theorem treeMetaBytes_length (f : IndexFile RawHeader) : (treeMetaBytes f).length = 16 := by
  simp only [treeMetaBytes, List.length_append, leBytes_length]

theorem parse_indexHeaderBytesV' (f : IndexFile RawHeader) (hash : List Nat) (vb b : Nat)
    (hrc : f.recordsCount < 256 ^ 8) (hrhs : f.p.rhs < 256 ^ 8) (hml : f.metaLen < 256 ^ 8)
    (hK : f.p.K < 256 ^ 2) (hhash : hash.length = 32) :
    parseIndexHeader (indexHeaderBytesV f hash vb b) = some (headerV f hash vb b) := by
  have := parse_indexHeaderBytesV f hash vb b [] hrc hrhs hml hK hhash
  rwa [List.append_nil] at this

theorem parse_treeMetaBytes' (f : IndexFile RawHeader)
    (hl : f.leavesOffset < 256 ^ 8) (ht : f.treeOffset < 256 ^ 8) :
    parseTreeMeta (treeMetaBytes f) = some ⟨f.leavesOffset, f.treeOffset⟩ := by
  have := parse_treeMetaBytes f [] hl ht
  rwa [List.append_nil] at this

/-! ### the images of a produced index -/

/-- what the acceptance test needs to know about a serialized index `f` -/
structure ImageOK (f : IndexFile RawHeader) (metaBuf hash : List Nat) : Prop where
  hash : hash.length = 32
  mlen : metaBuf.length = f.metaLen
  K : f.p.K < 256 ^ 2
  rc : f.recordsCount < 256 ^ 8
  rhs : f.p.rhs < 256 ^ 8
  tree : f.treeOffset ≤ f.leavesOffset
  /-- the file ends where the header and the tree meta say the record headers end -/
  fsize : f.recordsCount * f.p.rhs + f.leavesOffset = 83 + (indexBodyBytes f metaBuf).length
  bound : 83 + (indexBodyBytes f metaBuf).length < 256 ^ 8

theorem indexBodyBytes_eq (f : IndexFile RawHeader) (metaBuf : List Nat) :
    indexBodyBytes f metaBuf = metaBuf ++ (treeMetaBytes f
      ++ (f.nodes.flatMap (Node.bytes f.p.K) ++ f.leaves.flatMap (RawHeader.bytes f.p.K))) := by
  simp only [indexBodyBytes, List.append_assoc]

theorem indexBodyBytes_length_ge (f : IndexFile RawHeader) (metaBuf : List Nat) :
    metaBuf.length + 16 ≤ (indexBodyBytes f metaBuf).length := by
  rw [indexBodyBytes_eq]
  simp only [List.length_append, treeMetaBytes_length]
  omega

theorem indexHeaderBytes_eq_V (f : IndexFile RawHeader) (hash : List Nat) (w : Bool) (b : Nat) :
    indexHeaderBytes f hash w b = indexHeaderBytesV f hash (indexHeaderVersion * 2 + (if w then 1 else 0)) b :=
  rfl

theorem indexFileBytes_eq_V (f : IndexFile RawHeader) (metaBuf hash : List Nat) (b : Nat) :
    indexFileBytes f metaBuf hash b = indexHeaderBytesV f hash 13 b ++ indexBodyBytes f metaBuf := by
  simp only [indexFileBytes, indexBodyBytes, List.append_assoc]
  rfl

theorem indexFileBytesUnwritten_eq_V (f : IndexFile RawHeader) (metaBuf hash : List Nat) (b : Nat) :
    indexFileBytesUnwritten f metaBuf hash b = indexHeaderBytesV f hash 12 b ++ indexBodyBytes f metaBuf :=
  rfl

theorem pow_256_8 : 256 ^ 8 = 18446744073709551616 := by decide
theorem pow_256_2 : 256 ^ 2 = 65536 := by decide

/-- **the characterisation**: of all the prefixes of all the images that differ from the produced file
    in the version byte and the blob-size field, start-up with key size `K'` and a blob of `actual` bytes
    uses exactly the complete ones with the byte `HEADER_VERSION << 1 | 1`, the compile-time key size and
    the actual blob size -/
theorem accept_image_iff (f : IndexFile RawHeader) (metaBuf hash : List Nat) (ok : ImageOK f metaBuf hash)
    (vb b K' actual t : Nat) :
    acceptIndex K' actual ((indexHeaderBytesV f hash vb b ++ indexBodyBytes f metaBuf).take t) = true ↔
      (83 + (indexBodyBytes f metaBuf).length ≤ t ∧ vb = 13 ∧ K' = f.p.K ∧ b % 256 ^ 8 = actual) := by
  have hhl := indexHeaderBytesV_length f hash vb b ok.hash
  have hbl := indexBodyBytes_length_ge f metaBuf
  have hbound := ok.bound
  have hmlen := ok.mlen
  have hfsize := ok.fsize
  have htree := ok.tree
  have hml : f.metaLen < 256 ^ 8 := by have := ok.bound; have := ok.mlen; omega
  have hlo : f.leavesOffset < 256 ^ 8 := by have := ok.bound; have := ok.fsize; omega
  have hto : f.treeOffset < 256 ^ 8 := by have := ok.tree; omega
  have hfl : (indexHeaderBytesV f hash vb b ++ indexBodyBytes f metaBuf).length
      = 83 + (indexBodyBytes f metaBuf).length := by rw [List.length_append, hhl]
  by_cases ht83 : t < 83
  · -- the header is not readable
    have hH : readIndexHeader ((indexHeaderBytesV f hash vb b ++ indexBodyBytes f metaBuf).take t) = none := by
      unfold readIndexHeader
      rw [readExactAt_short _ _ _ (by rw [List.length_take]; simp only [indexHeaderSize]; omega)]
      rfl
    unfold acceptIndex
    rw [hH]
    constructor
    · intro h; cases h
    · intro h; omega
  · have hH : readIndexHeader ((indexHeaderBytesV f hash vb b ++ indexBodyBytes f metaBuf).take t)
        = some (headerV f hash vb b) := by
      unfold readIndexHeader
      rw [readExactAt_take _ _ _ _ (by simp only [indexHeaderSize]; omega)]
      have := readExactAt_mid [] (indexHeaderBytesV f hash vb b) (indexBodyBytes f metaBuf) 0 83 rfl hhl
      rw [List.nil_append] at this
      rw [show indexHeaderSize = 83 from rfl, this, Option.bind_some]
      exact parse_indexHeaderBytesV' f hash vb b ok.rc ok.rhs hml ok.K ok.hash
    have hss : (headerV f hash vb b).serializedSize + (headerV f hash vb b).metaSize = 83 + f.metaLen := by
      simp only [IndexHeaderV.serializedSize, headerV, ok.hash]
    by_cases htm : t < 83 + f.metaLen + 16
    · -- the tree meta is not readable
      have hT : readTreeMeta ((indexHeaderBytesV f hash vb b ++ indexBodyBytes f metaBuf).take t)
          (headerV f hash vb b) = none := by
        unfold readTreeMeta
        rw [hss, if_neg (by simp only [u64Bound]; omega),
          readExactAt_short _ _ _ (by rw [List.length_take]; simp only [treeMetaSize]; omega)]
        rfl
      unfold acceptIndex
      rw [hH]; simp only
      rw [hT]
      constructor
      · intro h; cases h
      · intro h; have := ok.mlen; omega
    · have hT : readTreeMeta ((indexHeaderBytesV f hash vb b ++ indexBodyBytes f metaBuf).take t)
          (headerV f hash vb b) = some ⟨f.leavesOffset, f.treeOffset⟩ := by
        unfold readTreeMeta
        rw [hss, if_neg (by simp only [u64Bound]; omega),
          readExactAt_take _ _ _ _ (by simp only [treeMetaSize]; omega)]
        have e : indexHeaderBytesV f hash vb b ++ indexBodyBytes f metaBuf
            = (indexHeaderBytesV f hash vb b ++ metaBuf) ++ (treeMetaBytes f
              ++ (f.nodes.flatMap (Node.bytes f.p.K) ++ f.leaves.flatMap (RawHeader.bytes f.p.K))) := by
          rw [indexBodyBytes_eq, List.append_assoc]
        rw [e, show treeMetaSize = 16 from rfl,
          readExactAt_mid _ _ _ (83 + f.metaLen) 16 (by rw [List.length_append, hhl, ok.mlen])
            (treeMetaBytes_length f), Option.bind_some]
        exact parse_treeMetaBytes' f hlo hto
      unfold acceptIndex
      rw [hH]; simp only
      rw [hT]; simp only
      by_cases hlt : t < 83 + (indexBodyBytes f metaBuf).length
      · -- a proper prefix: the size check fails
        have hc : checkFileSize (headerV f hash vb b) ⟨f.leavesOffset, f.treeOffset⟩
            ((indexHeaderBytesV f hash vb b ++ indexBodyBytes f metaBuf).take t).length = false := by
          have hsz := ok.fsize
          have : (f.recordsCount * f.p.rhs + f.leavesOffset
              == ((indexHeaderBytesV f hash vb b ++ indexBodyBytes f metaBuf).take t).length) = false := by
            rw [beq_eq_false_iff_ne, List.length_take, hfl]
            omega
          simp only [checkFileSize, headerV, this, Bool.and_false]
        rw [hc]
        constructor
        · intro h; simp at h
        · intro h; omega
      · -- the whole image
        rw [List.take_of_length_le (by omega)]
        have hc : checkFileSize (headerV f hash vb b) ⟨f.leavesOffset, f.treeOffset⟩
            (indexHeaderBytesV f hash vb b ++ indexBodyBytes f metaBuf).length = true := by
          have hsz := ok.fsize
          have hb := ok.bound
          have htr := ok.tree
          simp only [checkFileSize, headerV, hfl, u64Bound, Bool.and_eq_true, decide_eq_true_eq, beq_iff_eq]
          refine ⟨⟨⟨htr, decide_eq_true ?_⟩, decide_eq_true ?_⟩, hsz⟩ <;> omega
        have hr : readRootOk ⟨f.leavesOffset, f.treeOffset⟩
            (indexHeaderBytesV f hash vb b ++ indexBodyBytes f metaBuf) = true := by
          have hsz := ok.fsize
          have htr := ok.tree
          simp only [readRootOk, readExactAt_isSome, hfl, Bool.and_eq_true, decide_eq_true_eq]
          refine ⟨by omega, by omega⟩
        have hm : readMetaOk (indexHeaderBytesV f hash vb b ++ indexBodyBytes f metaBuf)
            (headerV f hash vb b) = true := by
          have := ok.mlen
          simp only [readMetaOk, readExactAt_isSome, hfl, decide_eq_true_eq, IndexHeaderV.serializedSize,
            headerV, ok.hash]
          omega
        rw [hc, hr, hm, Bool.true_and, Bool.true_and, Bool.and_true]
        simp only [validateHeader, IndexHeaderV.isWritten, IndexHeaderV.version, headerV, indexHeaderVersion,
          Bool.and_eq_true, beq_iff_eq]
        constructor
        · rintro ⟨⟨⟨⟨h1, h2⟩, h3⟩, h4⟩, _⟩
          exact ⟨by omega, by omega, h3.symm, h4⟩
        · rintro ⟨_, h2, h3, h4⟩
          subst h2
          exact ⟨⟨⟨⟨rfl, rfl⟩, h3.symm⟩, h4⟩, trivial⟩

/-- the complete images -/
theorem accept_full_iff (f : IndexFile RawHeader) (metaBuf hash : List Nat) (ok : ImageOK f metaBuf hash)
    (vb b K' actual : Nat) :
    acceptIndex K' actual (indexHeaderBytesV f hash vb b ++ indexBodyBytes f metaBuf) = true ↔
      (vb = 13 ∧ K' = f.p.K ∧ b % 256 ^ 8 = actual) := by
  have h := accept_image_iff f metaBuf hash ok vb b K' actual
    (indexHeaderBytesV f hash vb b ++ indexBodyBytes f metaBuf).length
  rw [List.take_length] at h
  rw [h, List.length_append, indexHeaderBytesV_length f hash vb b ok.hash]
  exact ⟨fun h => h.2, fun h => ⟨Nat.le_refl _, h⟩⟩

/-- a header whose `written` bit is clear, followed by anything at all -/
theorem accept_unwritten_header (f : IndexFile RawHeader) (metaBuf hash : List Nat)
    (ok : ImageOK f metaBuf hash) (b K' actual : Nat) (rest : List Nat) :
    acceptIndex K' actual (indexHeaderBytesV f hash 12 b ++ rest) = false := by
  have hhl := indexHeaderBytesV_length f hash 12 b ok.hash
  have hml : f.metaLen < 256 ^ 8 := by
    have := ok.bound; have := ok.mlen; have := indexBodyBytes_length_ge f metaBuf; omega
  have hH : readIndexHeader (indexHeaderBytesV f hash 12 b ++ rest) = some (headerV f hash 12 b) := by
    unfold readIndexHeader
    have := readExactAt_mid [] (indexHeaderBytesV f hash 12 b) rest 0 83 rfl hhl
    rw [List.nil_append] at this
    rw [show indexHeaderSize = 83 from rfl, this, Option.bind_some]
    exact parse_indexHeaderBytesV' f hash 12 b ok.rc ok.rhs hml ok.K ok.hash
  unfold acceptIndex
  rw [hH]; simp only
  cases readTreeMeta (indexHeaderBytesV f hash 12 b ++ rest) (headerV f hash 12 b) with
  | none => rfl
  | some tm =>
    have : validateHeader K' actual (headerV f hash 12 b) = false := by
      simp [validateHeader, IndexHeaderV.isWritten, headerV]
    simp only [this, Bool.and_false, Bool.false_and]

/-- what acceptance of an arbitrary byte string guarantees about it -/
theorem accept_sound (K blobSize : Nat) (g : List Nat) (h : acceptIndex K blobSize g = true) :
    ∃ hd tm, readIndexHeader g = some hd ∧ readTreeMeta g hd = some tm ∧
      hd.isWritten = true ∧ hd.version = indexHeaderVersion ∧ hd.keySize = K ∧ hd.blobSize = blobSize ∧
      hd.magic = magicByte ∧ tm.treeOffset ≤ tm.leavesOffset ∧
      g.length = hd.recordsCount * hd.recordHeaderSize + tm.leavesOffset ∧
      hd.serializedSize + hd.metaSize + treeMetaSize ≤ g.length := by
  unfold acceptIndex at h
  cases hH : readIndexHeader g with
  | none => rw [hH] at h; cases h
  | some hd =>
    rw [hH] at h; simp only at h
    cases hT : readTreeMeta g hd with
    | none => rw [hT] at h; cases h
    | some tm =>
      rw [hT] at h
      simp only [checkFileSize, validateHeader, Bool.and_eq_true, decide_eq_true_eq, beq_iff_eq] at h
      obtain ⟨⟨⟨⟨⟨⟨h1, _⟩, _⟩, h4⟩, _⟩, ⟨⟨⟨⟨v1, v2⟩, v3⟩, v4⟩, v5⟩⟩, _⟩ := h
      have hT' := hT
      refine ⟨hd, tm, rfl, hT', v1, v2, v3, v4, v5, h1, h4.symm, ?_⟩
      unfold readTreeMeta at hT
      by_cases hb : u64Bound ≤ hd.serializedSize + hd.metaSize
      · rw [if_pos hb] at hT; cases hT
      · rw [if_neg hb] at hT
        unfold readExactAt at hT
        by_cases hl : hd.serializedSize + hd.metaSize + treeMetaSize ≤ g.length
        · exact hl
        · rw [if_neg hl] at hT; cases hT

/-! ### the file `build` produces -/

theorem build_imageOK (K : Nat) (hK : K ≤ 2032) (metaLen : Nat) (m : InMem RawHeader)
    (metaBuf hash : List Nat) (hmeta : metaBuf.length = metaLen) (hhash : hash.length = 32)
    (hsize : (build (Params.real K) metaLen m).fileSize < 2 ^ 64) :
    ImageOK (build (Params.real K) metaLen m) metaBuf hash := by
  subst hmeta
  have hlen := build_bytes_length K hK m metaBuf hash 0 hhash
  rw [indexFileBytes_eq_V, List.length_append, indexHeaderBytesV_length _ _ _ _ hhash] at hlen
  have hrc : (build (Params.real K) metaBuf.length m).recordsCount = (leafArray m).length :=
    build_recordsCount _ _ _
  have hfs : (build (Params.real K) metaBuf.length m).fileSize
      = (build (Params.real K) metaBuf.length m).leavesOffset + (leafArray m).length * (57 + K) := rfl
  have hle : (leafArray m).length ≤ (leafArray m).length * (57 + K) :=
    Nat.le_mul_of_pos_right _ (by omega)
  refine ⟨hhash, rfl, ?_, ?_, ?_, ?_, ?_, ?_⟩
  · show K < 256 ^ 2
    rw [pow_256_2]; omega
  · rw [hrc, pow_256_8]; omega
  · show 57 + K < 256 ^ 8
    rw [pow_256_8]; omega
  · rw [build_leavesOffset']; exact Nat.le_add_right _ _
  · rw [hlen, hfs, hrc]
    show (leafArray m).length * (57 + K) + _ = _
    omega
  · rw [hlen, pow_256_8]; omega

/-! ### byte strings that share the header, the filter section and the tree meta with a produced file -/

theorem readIndexHeader_image (f : IndexFile RawHeader) (metaBuf hash : List Nat) (ok : ImageOK f metaBuf hash)
    (vb b : Nat) (rest : List Nat) :
    readIndexHeader (indexHeaderBytesV f hash vb b ++ rest) = some (headerV f hash vb b) := by
  have hhl := indexHeaderBytesV_length f hash vb b ok.hash
  have hml : f.metaLen < 256 ^ 8 := by
    have := ok.bound; have := ok.mlen; have := indexBodyBytes_length_ge f metaBuf; omega
  unfold readIndexHeader
  have := readExactAt_mid [] (indexHeaderBytesV f hash vb b) rest 0 83 rfl hhl
  rw [List.nil_append] at this
  rw [show indexHeaderSize = 83 from rfl, this, Option.bind_some]
  exact parse_indexHeaderBytesV' f hash vb b ok.rc ok.rhs hml ok.K ok.hash

theorem readTreeMeta_image (f : IndexFile RawHeader) (metaBuf hash : List Nat) (ok : ImageOK f metaBuf hash)
    (vb b : Nat) :
    readTreeMeta (indexHeaderBytesV f hash vb b ++ indexBodyBytes f metaBuf) (headerV f hash vb b)
      = some ⟨f.leavesOffset, f.treeOffset⟩ := by
  have hhl := indexHeaderBytesV_length f hash vb b ok.hash
  have hbl := indexBodyBytes_length_ge f metaBuf
  have hbound := ok.bound
  have hmlen := ok.mlen
  have hfsize := ok.fsize
  have htree := ok.tree
  have hss : (headerV f hash vb b).serializedSize + (headerV f hash vb b).metaSize = 83 + f.metaLen := by
    simp only [IndexHeaderV.serializedSize, headerV, ok.hash]
  unfold readTreeMeta
  rw [hss, if_neg (by simp only [u64Bound]; omega)]
  have e : indexHeaderBytesV f hash vb b ++ indexBodyBytes f metaBuf
      = (indexHeaderBytesV f hash vb b ++ metaBuf) ++ (treeMetaBytes f
        ++ (f.nodes.flatMap (Node.bytes f.p.K) ++ f.leaves.flatMap (RawHeader.bytes f.p.K))) := by
    rw [indexBodyBytes_eq, List.append_assoc]
  rw [e, show treeMetaSize = 16 from rfl,
    readExactAt_mid _ _ _ (83 + f.metaLen) 16 (by rw [List.length_append, hhl, ok.mlen])
      (treeMetaBytes_length f), Option.bind_some]
  exact parse_treeMetaBytes' f (by omega) (by omega)

theorem readIndexHeader_congr (g g' : List Nat) (n : Nat) (hn : 83 ≤ n) (h : g.take n = g'.take n) :
    readIndexHeader g = readIndexHeader g' := by
  unfold readIndexHeader
  rw [← readExactAt_take g n 0 indexHeaderSize (by simp only [indexHeaderSize]; omega), h,
    readExactAt_take _ _ _ _ (by simp only [indexHeaderSize]; omega)]

theorem readTreeMeta_congr (g g' : List Nat) (hd : IndexHeaderV) (n : Nat)
    (hn : hd.serializedSize + hd.metaSize + 16 ≤ n) (h : g.take n = g'.take n) :
    readTreeMeta g hd = readTreeMeta g' hd := by
  unfold readTreeMeta
  rw [← readExactAt_take g n _ treeMetaSize (by simp only [treeMetaSize]; omega), h,
    readExactAt_take _ _ _ _ (by simp only [treeMetaSize]; omega)]

/-- ANY accepted byte string that agrees with a produced file on the header, the filter section and the
    tree meta has the length of that file, and the blob has the recorded size -/
theorem accept_same_prefix (f : IndexFile RawHeader) (metaBuf hash : List Nat) (ok : ImageOK f metaBuf hash)
    (b K' actual : Nat) (g : List Nat)
    (hpre : g.take (83 + f.metaLen + 16)
      = (indexHeaderBytesV f hash 13 b ++ indexBodyBytes f metaBuf).take (83 + f.metaLen + 16))
    (h : acceptIndex K' actual g = true) :
    g.length = 83 + (indexBodyBytes f metaBuf).length ∧ K' = f.p.K ∧ actual = b % 256 ^ 8 := by
  obtain ⟨hd, tm, hH, hT, _, _, v3, v4, _, _, hlen, _⟩ := accept_sound K' actual g h
  rw [readIndexHeader_congr g _ _ (by omega) hpre, readIndexHeader_image f metaBuf hash ok 13 b] at hH
  cases hH
  have hss : (headerV f hash 13 b).serializedSize + (headerV f hash 13 b).metaSize = 83 + f.metaLen := by
    simp only [IndexHeaderV.serializedSize, headerV, ok.hash]
  rw [readTreeMeta_congr g _ _ _ (by rw [hss]; exact Nat.le_refl _) hpre, readTreeMeta_image f metaBuf hash ok 13 b] at hT
  cases hT
  refine ⟨?_, v3.symm, v4.symm⟩
  rw [hlen]
  exact ok.fsize

end Pearl.BPTree
