import Pearl.Model.Lts
/-
Helper lemmas for C08 (deadlock clause, append critical section).
-/
namespace Pearl
namespace Lts

/-! ### lists of program counters -/

theorem getElem?_replicate_append_cons {α} (j : Nat) (x y : α) (t : List α) :
    (List.replicate j x ++ y :: t)[j]? = some y := by
  rw [List.getElem?_append_right (by simp)]
  simp

theorem set_replicate_append_cons {α} (j : Nat) (x y : α) (t : List α) :
    (List.replicate j x ++ y :: t).set j x = List.replicate (j + 1) x ++ t := by
  rw [List.set_append_right _ _ (by simp)]
  simp [List.replicate_succ']

/-! ### schedules -/

theorem runSched_append (proto : Proto) (cap : Nat) (a b : List Label) (s : LState) :
    runSched proto cap (a ++ b) s = (runSched proto cap a s).bind (runSched proto cap b) := by
  induction a generalizing s with
  | nil => rfl
  | cons l ls ih =>
    simp only [List.cons_append, runSched]
    cases fire proto cap l s with
    | none => rfl
    | some s' => exact ih s'

theorem runSched_reach (proto : Proto) (cap : Nat) (sched : List Label) (s0 s s' : LState)
    (h0 : Reach proto cap s0 s) (h : runSched proto cap sched s = some s') : Reach proto cap s0 s' := by
  induction sched generalizing s with
  | nil => simp [runSched] at h; subst h; exact h0
  | cons l ls ih =>
    simp only [runSched] at h
    cases hf : fire proto cap l s with
    | none => simp [hf] at h
    | some s1 =>
      simp only [hf] at h
      exact ih s1 (.step h0 ⟨l, hf⟩) h

theorem reach_runSched (proto : Proto) (cap : Nat) (s0 s : LState) (h : Reach proto cap s0 s) :
    ∃ sched, runSched proto cap sched s0 = some s := by
  induction h with
  | refl => exact ⟨[], rfl⟩
  | step _ hs ih =>
    obtain ⟨sched, hr⟩ := ih
    obtain ⟨l, hl⟩ := hs
    refine ⟨sched ++ [l], ?_⟩
    rw [runSched_append, hr]
    simp [runSched, hl]

theorem reach_trans {proto : Proto} {cap : Nat} {s0 s1 s2 : LState}
    (h1 : Reach proto cap s0 s1) (h2 : Reach proto cap s1 s2) : Reach proto cap s0 s2 := by
  induction h2 with
  | refl => exact h1
  | step _ hs ih => exact .step ih hs

/-- phase 0: `k` clients take the shared lock (no writer is queued) -/
theorem run_acquires (proto : Proto) (cap k : Nat) :
    ∀ (j : Nat) (rest : List CPc) (ch : Nat) (wpc : WPc) (rd : Nat) (fl : Bool),
    runSched proto cap ((List.range' j k).map .cAcquire)
      { clients := List.replicate j .append ++ (List.replicate k .start ++ rest), chan := ch, wpc := wpc,
        readers := rd, writer := .idle, full := fl } =
    some { clients := List.replicate (j + k) .append ++ rest, chan := ch, wpc := wpc,
           readers := rd + k, writer := .idle, full := fl } := by
  induction k with
  | zero => intro j rest ch wpc rd fl; simp [runSched]
  | succ k ih =>
    intro j rest ch wpc rd fl
    simp only [List.range'_succ, List.map_cons, runSched, List.replicate_succ, List.cons_append]
    simp only [fire, getElem?_replicate_append_cons, and_self, ↓reduceIte, set_replicate_append_cons]
    have := ih (j + 1) rest ch wpc (rd + 1) fl
    rw [show j + (k + 1) = j + 1 + k by omega, show rd + (k + 1) = rd + 1 + k by omega]
    exact this

/-- all `n` clients take the shared lock before anything else happens -/
theorem init_to_inside (proto : Proto) (cap n : Nat) :
    runSched proto cap ((List.range' 0 n).map .cAcquire) (init n) = some (initInside n) := by
  have := run_acquires proto cap n 0 [] 0 .recv 0 true
  simpa [init, initInside] using this

/-- phase 1 (`sendUnderLock`): `k` clients append into the full blob and move to `send` -/
theorem run_appends (cap k : Nat) : ∀ (j : Nat) (rest : List CPc) (ch : Nat) (wpc : WPc) (rd : Nat) (wr : Writer),
    runSched .sendUnderLock cap ((List.range' j k).map .cAppend)
      { clients := List.replicate j .send ++ (List.replicate k .append ++ rest), chan := ch, wpc := wpc,
        readers := rd, writer := wr, full := true } =
    some { clients := List.replicate (j + k) .send ++ rest, chan := ch, wpc := wpc,
           readers := rd, writer := wr, full := true } := by
  induction k with
  | zero => intro j rest ch wpc rd wr; simp [runSched]
  | succ k ih =>
    intro j rest ch wpc rd wr
    simp only [List.range'_succ, List.map_cons, runSched, List.replicate_succ, List.cons_append]
    simp only [fire, appendTarget, getElem?_replicate_append_cons, ↓reduceIte, set_replicate_append_cons]
    have := ih (j + 1) rest ch wpc rd wr
    rw [show j + (k + 1) = j + 1 + k by omega]
    exact this

/-- phase 2 (`sendUnderLock`): `k` clients send while the channel has room -/
theorem run_sends (proto : Proto) (cap k : Nat) :
    ∀ (j : Nat) (rest : List CPc) (ch : Nat) (wpc : WPc) (rd : Nat) (wr : Writer) (fl : Bool),
    ch + k ≤ cap →
    runSched proto cap ((List.range' j k).map .cSend)
      { clients := List.replicate j .release ++ (List.replicate k .send ++ rest), chan := ch, wpc := wpc,
        readers := rd, writer := wr, full := fl } =
    some { clients := List.replicate (j + k) .release ++ rest, chan := ch + k, wpc := wpc,
           readers := rd, writer := wr, full := fl } := by
  induction k with
  | zero => intro j rest ch wpc rd wr fl _; simp [runSched]
  | succ k ih =>
    intro j rest ch wpc rd wr fl hcap
    simp only [List.range'_succ, List.map_cons, runSched, List.replicate_succ, List.cons_append]
    have hlt : ch < cap := by omega
    simp only [fire, getElem?_replicate_append_cons, hlt, and_self, ↓reduceIte, set_replicate_append_cons]
    have := ih (j + 1) rest (ch + 1) wpc rd wr fl (by omega)
    rw [show j + (k + 1) = j + 1 + k by omega, show ch + (k + 1) = ch + 1 + k by omega]
    exact this

/-- phase 3: `k` clients that have nothing more to send drop the shared lock -/
theorem run_releases (proto : Proto) (cap k : Nat) :
    ∀ (j : Nat) (rest : List CPc) (ch : Nat) (wpc : WPc) (rd : Nat) (wr : Writer) (fl : Bool),
    runSched proto cap ((List.range' j k).map .cRelease)
      { clients := List.replicate j .done ++ (List.replicate k .release ++ rest), chan := ch, wpc := wpc,
        readers := rd, writer := wr, full := fl } =
    some { clients := List.replicate (j + k) .done ++ rest, chan := ch, wpc := wpc,
           readers := rd - k, writer := wr, full := fl } := by
  induction k with
  | zero => intro j rest ch wpc rd wr fl; simp [runSched]
  | succ k ih =>
    intro j rest ch wpc rd wr fl
    simp only [List.range'_succ, List.map_cons, runSched, List.replicate_succ, List.cons_append]
    simp only [fire, getElem?_replicate_append_cons, ↓reduceIte, set_replicate_append_cons]
    have := ih (j + 1) rest ch wpc (rd - 1) wr fl
    rw [show j + (k + 1) = j + 1 + k by omega, show rd - (k + 1) = rd - 1 - k by omega]
    exact this

/-- `sendUnderLock`: the witness schedule is executable from `initInside (cap + 2)` and ends in
    `witnessState cap` -/
theorem witnessSched_runs (cap : Nat) :
    runSched .sendUnderLock cap (witnessSched cap) (initInside (cap + 2)) = some (witnessState cap) := by
  unfold witnessSched initInside
  rw [runSched_append, runSched_append]
  have h1 := run_appends cap (cap + 2) 0 [] 0 .recv (cap + 2) .idle
  simp only [List.replicate_zero, List.nil_append, List.append_nil, Nat.zero_add] at h1
  rw [h1]
  simp only [Option.bind_some]
  have h2 := run_sends .sendUnderLock cap cap 0 [.send, .send] 0 .recv (cap + 2) .idle true (by omega)
  simp only [List.replicate_zero, List.nil_append, Nat.zero_add] at h2
  rw [show List.replicate (cap + 2) CPc.send = List.replicate cap CPc.send ++ [.send, .send] by
        simp [List.replicate_succ']]
  rw [h2]
  simp only [Option.bind_some]
  cases cap with
  | zero => simp [runSched, witnessState]
  | succ c =>
    simp only [witnessState]
    rw [runSched_append]
    -- `wRecv`, then the last `cSend`
    have h3 : runSched .sendUnderLock (c + 1) [.wRecv, .cSend (c + 1)]
        { clients := List.replicate (c + 1) .release ++ [.send, .send], chan := c + 1, wpc := .recv,
          readers := c + 1 + 2, writer := .idle, full := true } =
        some { clients := List.replicate (c + 2) .release ++ [.send], chan := c + 1, wpc := .waitWrite,
               readers := c + 1 + 2, writer := .waiting, full := true } := by
      simp only [runSched, fire, Nat.zero_lt_succ, ↓reduceIte, Nat.add_sub_cancel,
        getElem?_replicate_append_cons, Nat.lt_add_one, and_self, set_replicate_append_cons]
    rw [h3]
    simp only [Option.bind_some]
    have h4 := run_releases .sendUnderLock (c + 1) (c + 2) 0 [.send] (c + 1) .waitWrite (c + 1 + 2) .waiting true
    simp only [List.replicate_zero, List.nil_append, Nat.zero_add] at h4
    rw [h4]
    congr 2
    omega

/-- a client label is enabled only if that client is at a matching program counter -/
theorem fire_client_mem {proto : Proto} {cap : Nat} {s s' : LState} :
    (∀ i, fire proto cap (.cAcquire i) s = some s' → CPc.start ∈ s.clients) ∧
    (∀ i, fire proto cap (.cAppend i) s = some s' → CPc.append ∈ s.clients) ∧
    (∀ i, fire proto cap (.cSend i) s = some s' →
        (CPc.send ∈ s.clients ∨ CPc.sendFree ∈ s.clients) ∧ s.chan < cap) ∧
    (∀ i, fire proto cap (.cRelease i) s = some s' → CPc.release ∈ s.clients ∨ CPc.relSend ∈ s.clients) := by
  refine ⟨?_, ?_, ?_, ?_⟩ <;> intro i h <;> simp only [fire] at h
  · split at h
    · rename_i hc; exact List.mem_iff_getElem?.2 ⟨i, hc.1⟩
    · cases h
  · split at h
    · rename_i hc; exact List.mem_iff_getElem?.2 ⟨i, hc⟩
    · cases h
  · split at h
    · rename_i hc; exact ⟨Or.inl (List.mem_iff_getElem?.2 ⟨i, hc.1⟩), hc.2⟩
    · split at h
      · rename_i hc; exact ⟨Or.inr (List.mem_iff_getElem?.2 ⟨i, hc.1⟩), hc.2⟩
      · cases h
  · split at h
    · rename_i hc; exact Or.inl (List.mem_iff_getElem?.2 ⟨i, hc⟩)
    · split at h
      · rename_i hc; exact Or.inr (List.mem_iff_getElem?.2 ⟨i, hc⟩)
      · cases h

/-- the end of the witness schedule is a deadlock (whatever the protocol of the clients still to come:
    nobody is left at `append`) -/
theorem witnessState_stuck (proto : Proto) (cap : Nat) : Stuck proto cap (witnessState cap) := by
  cases cap with
  | zero =>
    refine ⟨by decide, ?_⟩
    rintro s' ⟨l, h⟩
    have hm := @fire_client_mem proto 0 (witnessState 0) s'
    cases l with
    | cAcquire i => have := hm.1 i h; simp [witnessState] at this
    | cAppend i => have := hm.2.1 i h; simp [witnessState] at this
    | cSend i => have := (hm.2.2.1 i h).2; simp at this
    | cRelease i => have := hm.2.2.2 i h; simp [witnessState] at this
    | wRecv => simp [fire, witnessState] at h
    | wGrant => simp [fire, witnessState] at h
    | wSwitch => simp [fire, witnessState] at h
  | succ c =>
    refine ⟨?_, ?_⟩
    · intro hf
      have := hf.1 .send (by simp [witnessState])
      cases this
    · rintro s' ⟨l, h⟩
      have hm := @fire_client_mem proto (c + 1) (witnessState (c + 1)) s'
      cases l with
      | cAcquire i => have := hm.1 i h; simp [witnessState] at this
      | cAppend i => have := hm.2.1 i h; simp [witnessState] at this
      | cSend i => have := (hm.2.2.1 i h).2; simp [witnessState] at this
      | cRelease i => have := hm.2.2.2 i h; simp [witnessState] at this
      | wRecv => simp [fire, witnessState] at h
      | wGrant => simp [fire, witnessState] at h
      | wSwitch => simp [fire, witnessState] at h

/-! ### the invariant (both protocols) -/

def cnt (pc : CPc) (s : LState) : Nat := s.clients.count pc

/-- messages the worker has taken out of the channel and not finished with -/
def busy : WPc → Nat
  | .recv => 0
  | _ => 1

def writerOf : WPc → Writer
  | .recv => .idle
  | .waitWrite => .waiting
  | .switching => .holding

/-- holds in every state reachable from `init n` or `initInside n`, under either protocol -/
structure Inv (n : Nat) (s : LState) : Prop where
  len : s.clients.length = n
  /-- the shared holders are the clients between `acquire` and `release` -/
  readers : s.readers = cnt .append s + cnt .send s + cnt .release s + cnt .relSend s
  /-- every message in the channel or in the worker's hands was sent by a client that is past `send` -/
  chan : s.chan + busy s.wpc ≤ cnt .release s + cnt .done s
  writer : s.writer = writerOf s.wpc
  /-- readers and the writer exclude each other -/
  excl : s.wpc = .switching → s.readers = 0

theorem count_set' {l : List CPc} {i : Nat} {a : CPc} (h : l[i]? = some a) (c b : CPc) :
    (l.set i c).count b = l.count b - (if a = b then 1 else 0) + (if c = b then 1 else 0) := by
  obtain ⟨hlt, hget⟩ := List.getElem?_eq_some_iff.1 h
  rw [List.count_set hlt, hget]
  simp

theorem count_pos_of_getElem? {l : List CPc} {i : Nat} {a : CPc} (h : l[i]? = some a) : 0 < l.count a :=
  List.count_pos_iff.2 (List.mem_iff_getElem?.2 ⟨i, h⟩)

theorem count_add_count_le (l : List CPc) (a b : CPc) (hab : a ≠ b) : l.count a + l.count b ≤ l.length := by
  induction l with
  | nil => simp
  | cons x xs ih =>
    simp only [List.count_cons, List.length_cons]
    by_cases hxa : x = a
    · subst hxa
      have : (x == b) = false := by simpa using hab
      simp [this]; omega
    · have : (x == a) = false := by simpa using hxa
      simp only [this]
      by_cases hxb : (x == b) = true
      · simp [hxb]; omega
      · simp [hxb]; omega

theorem inv_init (n : Nat) : Inv n (init n) := by
  constructor <;> simp [init, cnt, busy, writerOf, List.count_replicate]

theorem inv_initInside (n : Nat) : Inv n (initInside n) := by
  constructor <;> simp [initInside, cnt, busy, writerOf, List.count_replicate]

theorem inv_step {proto : Proto} {cap n : Nat} {s s' : LState} (hi : Inv n s) (hs : Step proto cap s s') :
    Inv n s' := by
  obtain ⟨l, h⟩ := hs
  have hr := hi.readers
  have hc := hi.chan
  have hw := hi.writer
  have he := hi.excl
  simp only [cnt] at hr hc
  cases l with
  | cAcquire i =>
    simp only [fire] at h
    split at h
    · rename_i hg
      obtain ⟨hci, hwi⟩ := hg
      cases h
      have hpos := count_pos_of_getElem? hci
      have hrecv : s.wpc = .recv := by
        cases hwp : s.wpc <;> simp [hwp, writerOf, hwi] at hw <;> rfl
      constructor
      · simpa using hi.len
      · simp only [cnt, count_set' hci]; simp; omega
      · simp only [cnt, count_set' hci]; simp; omega
      · exact hw
      · intro hsw; simp [hrecv] at hsw
    · cases h
  | cAppend i =>
    simp only [fire] at h
    split at h
    · rename_i hci
      cases h
      have hpos := count_pos_of_getElem? hci
      constructor
      · simpa using hi.len
      · simp only [cnt, count_set' hci]; cases s.full <;> cases proto <;> simp [appendTarget] <;> omega
      · simp only [cnt, count_set' hci]; cases s.full <;> cases proto <;> simp [appendTarget] <;> omega
      · exact hw
      · exact he
    · cases h
  | cSend i =>
    simp only [fire] at h
    split at h
    · rename_i hg
      obtain ⟨hci, _⟩ := hg
      cases h
      have hpos := count_pos_of_getElem? hci
      constructor
      · simpa using hi.len
      · simp only [cnt, count_set' hci]; simp; omega
      · simp only [cnt, count_set' hci]; simp; omega
      · exact hw
      · exact he
    · split at h
      · rename_i hg
        obtain ⟨hci, _⟩ := hg
        cases h
        have hpos := count_pos_of_getElem? hci
        constructor
        · simpa using hi.len
        · simp only [cnt, count_set' hci]; simp; omega
        · simp only [cnt, count_set' hci]; simp; omega
        · exact hw
        · exact he
      · cases h
  | cRelease i =>
    simp only [fire] at h
    split at h
    · rename_i hci
      cases h
      have hpos := count_pos_of_getElem? hci
      constructor
      · simpa using hi.len
      · simp only [cnt, count_set' hci]; simp; omega
      · simp only [cnt, count_set' hci]; simp; omega
      · exact hw
      · intro hsw; have := he hsw; simp only; omega
    · split at h
      · rename_i hci
        cases h
        have hpos := count_pos_of_getElem? hci
        constructor
        · simpa using hi.len
        · simp only [cnt, count_set' hci]; simp; omega
        · simp only [cnt, count_set' hci]; simp; omega
        · exact hw
        · intro hsw; have := he hsw; simp only; omega
      · cases h
  | wRecv =>
    simp only [fire] at h
    split at h
    · rename_i hg
      obtain ⟨hwp, hpos⟩ := hg
      simp only [hwp, busy] at hc
      split at h <;> cases h
      · constructor
        · exact hi.len
        · exact hr
        · simp only [cnt, busy]; omega
        · rfl
        · intro hsw; cases hsw
      · constructor
        · exact hi.len
        · exact hr
        · simp only [cnt, busy, hwp]; omega
        · exact hw
        · exact he
    · cases h
  | wGrant =>
    simp only [fire] at h
    split at h
    · rename_i hg
      obtain ⟨hwp, hz⟩ := hg
      simp only [hwp, busy] at hc
      cases h
      constructor
      · exact hi.len
      · exact hr
      · simp only [cnt, busy]; omega
      · rfl
      · intro _; exact hz
    · cases h
  | wSwitch =>
    simp only [fire] at h
    split at h
    · rename_i hwp
      simp only [hwp, busy] at hc
      cases h
      constructor
      · exact hi.len
      · exact hr
      · simp only [cnt, busy]; omega
      · rfl
      · intro hsw; cases hsw
    · cases h

theorem inv_reach {proto : Proto} {cap n : Nat} {s0 s : LState} (h0 : Inv n s0) (h : Reach proto cap s0 s) :
    Inv n s := by
  induction h with
  | refl => exact h0
  | step _ hs ih => exact inv_step ih hs

theorem step_of_isSome {proto : Proto} {cap : Nat} {s : LState} (l : Label)
    (h : (fire proto cap l s).isSome = true) : ∃ s', Step proto cap s s' := by
  cases hf : fire proto cap l s with
  | none => simp [hf] at h
  | some s' => exact ⟨s', l, hf⟩

/-- progress, bounded: with at most `cap + 1` clients a state that is not final has a successor
    (either protocol) -/
theorem progress {proto : Proto} {cap n : Nat} {s : LState} (hi : Inv n s)
    (hcap : 0 < cap) (hle : n ≤ cap + 1) (hnf : ¬ final s) : ∃ s', Step proto cap s s' := by
  by_cases ha : CPc.append ∈ s.clients
  · obtain ⟨i, hci⟩ := List.mem_iff_getElem?.1 ha
    exact step_of_isSome (.cAppend i) (by simp [fire, hci])
  by_cases hrl : CPc.release ∈ s.clients
  · obtain ⟨i, hci⟩ := List.mem_iff_getElem?.1 hrl
    exact step_of_isSome (.cRelease i) (by simp [fire, hci])
  by_cases hrs : CPc.relSend ∈ s.clients
  · obtain ⟨i, hci⟩ := List.mem_iff_getElem?.1 hrs
    exact step_of_isSome (.cRelease i) (by simp [fire, hci])
  have ha0 : s.clients.count .append = 0 := List.count_eq_zero.2 ha
  have hr0 : s.clients.count .release = 0 := List.count_eq_zero.2 hrl
  have hs0 : s.clients.count .relSend = 0 := List.count_eq_zero.2 hrs
  have hrd := hi.readers
  have hch := hi.chan
  simp only [cnt, ha0, hr0, hs0] at hrd hch
  have hsd := count_add_count_le s.clients .done .send (by simp)
  rw [hi.len] at hsd
  cases hwp : s.wpc with
  | switching => exact step_of_isSome .wSwitch (by simp [fire, hwp])
  | waitWrite =>
    by_cases hz : s.readers = 0
    · exact step_of_isSome .wGrant (by simp [fire, hwp, hz])
    · have hpos : 0 < s.clients.count .send := by omega
      obtain ⟨i, hci⟩ := List.mem_iff_getElem?.1 (List.count_pos_iff.1 hpos)
      simp only [hwp, busy] at hch
      have hlt : s.chan < cap := by omega
      exact step_of_isSome (.cSend i) (by simp [fire, hci, hlt])
  | recv =>
    by_cases hpos : 0 < s.chan
    · refine step_of_isSome .wRecv ?_
      simp only [fire, hwp, hpos, and_self, ↓reduceIte]
      split <;> rfl
    · have hlt : s.chan < cap := by omega
      by_cases hs : CPc.send ∈ s.clients
      · obtain ⟨i, hci⟩ := List.mem_iff_getElem?.1 hs
        exact step_of_isSome (.cSend i) (by simp [fire, hci, hlt])
      by_cases hsf : CPc.sendFree ∈ s.clients
      · obtain ⟨i, hci⟩ := List.mem_iff_getElem?.1 hsf
        exact step_of_isSome (.cSend i) (by simp [fire, hci, hlt])
      by_cases hst : CPc.start ∈ s.clients
      · obtain ⟨i, hci⟩ := List.mem_iff_getElem?.1 hst
        have hw : s.writer = .idle := by rw [hi.writer, hwp]; rfl
        exact step_of_isSome (.cAcquire i) (by simp [fire, hci, hw])
      exfalso
      apply hnf
      refine ⟨?_, by omega, hwp⟩
      intro c hc
      cases c with
      | start => exact absurd hc hst
      | append => exact absurd hc ha
      | send => exact absurd hc hs
      | release => exact absurd hc hrl
      | relSend => exact absurd hc hrs
      | sendFree => exact absurd hc hsf
      | done => rfl

/-! ### `sendAfterRelease`: nobody waits on the channel while holding the lock -/

/-- under `sendAfterRelease` no client is ever at `send` (= in `sender.send` with the lock held) -/
theorem noSend_step {cap : Nat} {s s' : LState} (hn : CPc.send ∉ s.clients)
    (hs : Step .sendAfterRelease cap s s') : CPc.send ∉ s'.clients := by
  obtain ⟨l, h⟩ := hs
  have key : ∀ (i : Nat) (c : CPc), c ≠ .send → CPc.send ∉ s.clients.set i c := by
    intro i c hc hmem
    rcases List.mem_or_eq_of_mem_set hmem with h1 | h1
    · exact hn h1
    · exact hc h1.symm
  cases l <;> simp only [fire] at h
  · split at h
    · cases h; exact key _ _ (by simp)
    · cases h
  · split at h
    · cases h; exact key _ _ (by cases s.full <;> simp [appendTarget])
    · cases h
  · split at h
    · cases h; exact key _ _ (by simp)
    · split at h
      · cases h; exact key _ _ (by simp)
      · cases h
  · split at h
    · cases h; exact key _ _ (by simp)
    · split at h
      · cases h; exact key _ _ (by simp)
      · cases h
  · split at h
    · split at h <;> cases h <;> exact hn
    · cases h
  · split at h
    · cases h; exact hn
    · cases h
  · split at h
    · cases h; exact hn
    · cases h

theorem noSend_reach {cap : Nat} {s0 s : LState} (h0 : CPc.send ∉ s0.clients)
    (h : Reach .sendAfterRelease cap s0 s) : CPc.send ∉ s.clients := by
  induction h with
  | refl => exact h0
  | step _ hs ih => exact noSend_step ih hs

theorem noSend_init (n : Nat) : CPc.send ∉ (init n).clients := by simp [init]
theorem noSend_initInside (n : Nat) : CPc.send ∉ (initInside n).clients := by simp [initInside]

/-- progress, unbounded: when no client can be at `send`, a state that is not final has a successor, for any
    number of clients.  (Whoever holds the shared lock can always move — `append`, `release`, `relSend` are
    never blocked —, so the readers drain, the worker gets the lock, and the channel is emptied by the
    worker while the senders wait outside the lock.) -/
theorem progress_free {proto : Proto} {cap n : Nat} {s : LState} (hi : Inv n s) (hns : CPc.send ∉ s.clients)
    (hcap : 0 < cap) (hnf : ¬ final s) : ∃ s', Step proto cap s s' := by
  by_cases ha : CPc.append ∈ s.clients
  · obtain ⟨i, hci⟩ := List.mem_iff_getElem?.1 ha
    exact step_of_isSome (.cAppend i) (by simp [fire, hci])
  by_cases hrl : CPc.release ∈ s.clients
  · obtain ⟨i, hci⟩ := List.mem_iff_getElem?.1 hrl
    exact step_of_isSome (.cRelease i) (by simp [fire, hci])
  by_cases hrs : CPc.relSend ∈ s.clients
  · obtain ⟨i, hci⟩ := List.mem_iff_getElem?.1 hrs
    exact step_of_isSome (.cRelease i) (by simp [fire, hci])
  have ha0 : s.clients.count .append = 0 := List.count_eq_zero.2 ha
  have hr0 : s.clients.count .release = 0 := List.count_eq_zero.2 hrl
  have hs0 : s.clients.count .relSend = 0 := List.count_eq_zero.2 hrs
  have hn0 : s.clients.count .send = 0 := List.count_eq_zero.2 hns
  have hrd := hi.readers
  simp only [cnt, ha0, hr0, hs0, hn0] at hrd
  cases hwp : s.wpc with
  | switching => exact step_of_isSome .wSwitch (by simp [fire, hwp])
  | waitWrite => exact step_of_isSome .wGrant (by simp [fire, hwp, hrd])
  | recv =>
    by_cases hpos : 0 < s.chan
    · refine step_of_isSome .wRecv ?_
      simp only [fire, hwp, hpos, and_self, ↓reduceIte]
      split <;> rfl
    · have hlt : s.chan < cap := by omega
      by_cases hsf : CPc.sendFree ∈ s.clients
      · obtain ⟨i, hci⟩ := List.mem_iff_getElem?.1 hsf
        exact step_of_isSome (.cSend i) (by simp [fire, hci, hlt])
      by_cases hst : CPc.start ∈ s.clients
      · obtain ⟨i, hci⟩ := List.mem_iff_getElem?.1 hst
        have hw : s.writer = .idle := by rw [hi.writer, hwp]; rfl
        exact step_of_isSome (.cAcquire i) (by simp [fire, hci, hw])
      exfalso
      apply hnf
      refine ⟨?_, by omega, hwp⟩
      intro c hc
      cases c with
      | start => exact absurd hc hst
      | append => exact absurd hc ha
      | send => exact absurd hc hns
      | release => exact absurd hc hrl
      | relSend => exact absurd hc hrs
      | sendFree => exact absurd hc hsf
      | done => rfl

/-! ### a measure that every step decreases (both protocols) -/

/-- what a client still has to do, in units that pay for the worker's handling of its message -/
def CPc.weight : CPc → Nat
  | .start => 16
  | .append => 12
  | .send => 8
  | .relSend => 8
  | .release => 4
  | .sendFree => 4
  | .done => 0

def WPc.weight : WPc → Nat
  | .recv => 0
  | .waitWrite => 2
  | .switching => 1

/-- every step makes this smaller: a client step pays 4 (a `send` puts 3 back for the message), taking a
    message out pays 3 and may put 2 back for the lock, grant and switch pay 1 each -/
def measure (s : LState) : Nat := (s.clients.map CPc.weight).sum + 3 * s.chan + s.wpc.weight

theorem sum_weight_set : ∀ (l : List CPc) (i : Nat) (a c : CPc), l[i]? = some a →
    ((l.set i c).map CPc.weight).sum + a.weight = (l.map CPc.weight).sum + c.weight := by
  intro l
  induction l with
  | nil => intro i a c h; simp at h
  | cons x xs ih =>
    intro i a c h
    cases i with
    | zero =>
      simp only [List.getElem?_cons_zero, Option.some.injEq] at h
      subst h
      simp only [List.set_cons_zero, List.map_cons, List.sum_cons]
      omega
    | succ i =>
      simp only [List.getElem?_cons_succ] at h
      have := ih i a c h
      simp only [List.set_cons_succ, List.map_cons, List.sum_cons]
      omega

theorem measure_step {proto : Proto} {cap : Nat} {s s' : LState} (hs : Step proto cap s s') :
    measure s' < measure s := by
  obtain ⟨l, h⟩ := hs
  cases l with
  | cAcquire i =>
    simp only [fire] at h
    split at h
    · rename_i hg
      cases h
      have := sum_weight_set s.clients i _ .append hg.1
      simp only [measure, CPc.weight] at this ⊢
      omega
    · cases h
  | cAppend i =>
    simp only [fire] at h
    split at h
    · rename_i hg
      cases h
      have := sum_weight_set s.clients i _ (appendTarget proto s.full) hg
      have hle : (appendTarget proto s.full).weight ≤ 8 := by
        cases proto <;> cases s.full <;> simp [appendTarget, CPc.weight]
      have h12 : CPc.append.weight = 12 := rfl
      rw [h12] at this
      simp only [measure]
      omega
    · cases h
  | cSend i =>
    simp only [fire] at h
    split at h
    · rename_i hg
      cases h
      have := sum_weight_set s.clients i _ .release hg.1
      simp only [measure, CPc.weight] at this ⊢
      omega
    · split at h
      · rename_i hg
        cases h
        have := sum_weight_set s.clients i _ .done hg.1
        simp only [measure, CPc.weight] at this ⊢
        omega
      · cases h
  | cRelease i =>
    simp only [fire] at h
    split at h
    · rename_i hg
      cases h
      have := sum_weight_set s.clients i _ .done hg
      simp only [measure, CPc.weight] at this ⊢
      omega
    · split at h
      · rename_i hg
        cases h
        have := sum_weight_set s.clients i _ .sendFree hg
        simp only [measure, CPc.weight] at this ⊢
        omega
      · cases h
  | wRecv =>
    simp only [fire] at h
    split at h
    · rename_i hg
      obtain ⟨hwp, hpos⟩ := hg
      split at h <;> cases h <;> simp only [measure, hwp, WPc.weight] <;> omega
    · cases h
  | wGrant =>
    simp only [fire] at h
    split at h
    · rename_i hg
      cases h
      simp only [measure, hg.1, WPc.weight]
      omega
    · cases h
  | wSwitch =>
    simp only [fire] at h
    split at h
    · rename_i hg
      cases h
      simp only [measure, hg, WPc.weight]
      omega
    · cases h

/-- no schedule is longer than the measure of the state it starts in -/
theorem runSched_length_le {proto : Proto} {cap : Nat} : ∀ (sched : List Label) (s s' : LState),
    runSched proto cap sched s = some s' → sched.length + measure s' ≤ measure s := by
  intro sched
  induction sched with
  | nil => intro s s' h; simp [runSched] at h; subst h; simp
  | cons l ls ih =>
    intro s s' h
    simp only [runSched] at h
    cases hf : fire proto cap l s with
    | none => simp [hf] at h
    | some s1 =>
      simp only [hf] at h
      have h1 := ih s1 s' h
      have h2 := measure_step (s := s) (s' := s1) ⟨l, hf⟩
      simp only [List.length_cons]
      omega

/-- if every non-final state satisfying an invariant has a successor, every such state can be run to a
    final state (by induction on the measure) -/
theorem finish_of_progress {proto : Proto} {cap : Nat} (P : LState → Prop)
    (hstep : ∀ s s', P s → Step proto cap s s' → P s')
    (hprog : ∀ s, P s → ¬ final s → ∃ s', Step proto cap s s') :
    ∀ (m : Nat) (s : LState), measure s ≤ m → P s →
      ∃ sched s', runSched proto cap sched s = some s' ∧ final s' := by
  intro m
  induction m with
  | zero =>
    intro s hm hp
    by_cases hf : final s
    · exact ⟨[], s, rfl, hf⟩
    · obtain ⟨s1, hs1⟩ := hprog s hp hf
      have := measure_step hs1
      omega
  | succ m ih =>
    intro s hm hp
    by_cases hf : final s
    · exact ⟨[], s, rfl, hf⟩
    · obtain ⟨s1, hs1⟩ := hprog s hp hf
      have hlt := measure_step hs1
      obtain ⟨sched, s2, hrun, hfin⟩ := ih s1 (by omega) (hstep s s1 hp hs1)
      obtain ⟨l, hl⟩ := hs1
      exact ⟨l :: sched, s2, by simp [runSched, hl, hrun], hfin⟩

end Lts

/-! ## the append critical section -/
namespace Append

theorem reserveAll_off_ge : ∀ (lens : List Nat) (size : Nat) (r : Range), r ∈ reserveAll size lens → size ≤ r.off := by
  intro lens
  induction lens with
  | nil => intro size r h; simp [reserveAll] at h
  | cons len lens ih =>
    intro size r h
    simp only [reserveAll, fetchAdd, List.mem_cons] at h
    rcases h with h | h
    · subst h; exact Nat.le_refl _
    · have := ih (size + len) r h; omega

theorem reserveAll_stop_le : ∀ (lens : List Nat) (size : Nat) (r : Range),
    r ∈ reserveAll size lens → r.stop ≤ size + lens.sum := by
  intro lens
  induction lens with
  | nil => intro size r h; simp [reserveAll] at h
  | cons len lens ih =>
    intro size r h
    simp only [reserveAll, fetchAdd, List.mem_cons] at h
    rcases h with h | h
    · subst h; simp only [Range.stop, List.sum_cons]; omega
    · have := ih (size + len) r h; simp only [List.sum_cons]; omega

/-- successive reservations are laid out one after the other -/
theorem reserveAll_sorted : ∀ (lens : List Nat) (size : Nat),
    (reserveAll size lens).Pairwise (fun a b => a.stop ≤ b.off) := by
  intro lens
  induction lens with
  | nil => intro size; simp [reserveAll]
  | cons len lens ih =>
    intro size
    simp only [reserveAll, fetchAdd, List.pairwise_cons]
    refine ⟨?_, ih (size + len)⟩
    intro b hb
    have := reserveAll_off_ge lens (size + len) b hb
    simpa [Range.stop] using this

theorem reserveAll_length (lens : List Nat) : ∀ size, (reserveAll size lens).length = lens.length := by
  induction lens with
  | nil => intro size; rfl
  | cons len lens ih => intro size; simp [reserveAll, ih]

theorem reserveAll_lens (lens : List Nat) : ∀ size, (reserveAll size lens).map (·.len) = lens := by
  induction lens with
  | nil => intro size; rfl
  | cons len lens ih => intro size; simp [reserveAll, ih, fetchAdd]

/-! ### interleavings -/

/-- the range writer `i` owns, if it has reserved one -/
def rng (ws : List APc) (i : Nat) : Option Range := (ws[i]?).bind APc.range?

theorem rng_set (ws : List APc) (k : Nat) (pc' : APc) (hk : k < ws.length) (i : Nat) :
    rng (ws.set k pc') i = if k = i then pc'.range? else rng ws i := by
  unfold rng
  rw [List.getElem?_set]
  by_cases h : k = i
  · subst h; simp [hk]
  · simp [h]

theorem rng_set_same {ws : List APc} {k : Nat} {pc pc' : APc} (h : ws[k]? = some pc)
    (hr : pc'.range? = pc.range?) : rng (ws.set k pc') = rng ws := by
  funext i
  have hk : k < ws.length := (List.getElem?_eq_some_iff.1 h).1
  rw [rng_set ws k pc' hk i]
  split
  · rename_i hki; subst hki; simp [rng, h, hr]
  · rfl

theorem getElem?_set_of_ne {ws : List APc} {k i : Nat} {pc' pc : APc}
    (h : (ws.set k pc')[i]? = some pc) (hne : pc ≠ pc') : ws[i]? = some pc ∧ k ≠ i := by
  rw [List.getElem?_set] at h
  split at h
  · split at h
    · cases h; exact absurd rfl hne
    · cases h
  · rename_i hki; exact ⟨h, hki⟩

/-- a writer whose bytes are in the file -/
def APc.landed : APc → Option Range
  | .written r => some r
  | .done r => some r
  | _ => none

/-- holds in every reachable state, with or without the upgradable lock -/
structure AInv (s : AState) : Prop where
  /-- every reserved range lies below the current size -/
  bound : ∀ i r, rng s.ws i = some r → r.stop ≤ s.size
  /-- ranges of different writers share no byte -/
  disj : ∀ i j ri rj, i ≠ j → rng s.ws i = some ri → rng s.ws j = some rj → ri.Disjoint rj
  /-- a byte in the file belongs to the range of the writer that wrote it last -/
  own : ∀ o i, s.file o = some i → ∃ r, rng s.ws i = some r ∧ r.off ≤ o ∧ o < r.stop
  /-- once a writer's bytes are in the file nobody overwrites them -/
  intact : ∀ i pc r, s.ws[i]? = some pc → pc.landed = some r → ∀ o, r.off ≤ o → o < r.stop → s.file o = some i

theorem ainv_init (size : Nat) (lens : List Nat) : AInv (ainit size lens) := by
  have hr : ∀ i, rng (lens.map APc.idle) i = none := by
    intro i
    unfold rng
    rw [List.getElem?_map]
    cases lens[i]? <;> simp [APc.range?]
  constructor
  · intro i r h; simp [ainit, hr] at h
  · intro i j ri rj _ h; simp [ainit, hr] at h
  · intro o i h; simp [ainit] at h
  · intro i pc r h hl
    simp only [ainit, List.getElem?_map] at h
    cases hlen : lens[i]? with
    | none => simp [hlen] at h
    | some len => simp [hlen] at h; subst h; simp [APc.landed] at hl

theorem landed_range {pc : APc} {r : Range} (h : pc.landed = some r) : pc.range? = some r := by
  cases pc <;> simp [APc.landed] at h <;> simp [APc.range?, h]

theorem ainv_step {ul : Bool} {s s' : AState} (hi : AInv s) (hs : AStep ul s s') : AInv s' := by
  obtain ⟨l, h⟩ := hs
  cases l with
  | lock k =>
    simp only [afire] at h
    split at h
    · rename_i len hk
      split at h
      · cases h
      · cases h
        have hrng : rng (s.ws.set k (.locked len)) = rng s.ws := rng_set_same hk rfl
        constructor
        · simpa only [hrng] using hi.bound
        · simpa only [hrng] using hi.disj
        · simpa only [hrng] using hi.own
        · intro i pc r hpc hl
          have hne : pc ≠ .locked len := by rintro rfl; simp [APc.landed] at hl
          exact hi.intact i pc r (getElem?_set_of_ne hpc hne).1 hl
    · cases h
  | reserve k =>
    simp only [afire] at h
    split at h
    · rename_i len hk
      cases h
      have hklt : k < s.ws.length := (List.getElem?_eq_some_iff.1 hk).1
      have hnone : rng s.ws k = none := by simp [rng, hk, APc.range?]
      constructor
      · intro i r hr
        simp only [rng_set s.ws k _ hklt i] at hr
        split at hr
        · simp only [APc.range?, fetchAdd, Option.some.injEq] at hr
          subst hr; simp [Range.stop, fetchAdd]
        · have := hi.bound i r hr; simp only [fetchAdd]; omega
      · intro i j ri rj hij hri hrj
        simp only [rng_set s.ws k _ hklt] at hri hrj
        split at hri <;> split at hrj
        · omega
        · simp only [APc.range?, fetchAdd, Option.some.injEq] at hri
          subst hri
          have := hi.bound j rj hrj
          exact Or.inr this
        · simp only [APc.range?, fetchAdd, Option.some.injEq] at hrj
          subst hrj
          have := hi.bound i ri hri
          exact Or.inl this
        · exact hi.disj i j ri rj hij hri hrj
      · intro o i hf
        obtain ⟨r, hr, h1, h2⟩ := hi.own o i hf
        refine ⟨r, ?_, h1, h2⟩
        rw [rng_set s.ws k _ hklt i]
        split
        · rename_i hki; subst hki; simp [hnone] at hr
        · exact hr
      · intro i pc r hpc hl
        have hne : pc ≠ .reserved (fetchAdd s.size len).1 := by rintro rfl; simp [APc.landed] at hl
        exact hi.intact i pc r (getElem?_set_of_ne hpc hne).1 hl
    · cases h
  | write k =>
    simp only [afire] at h
    split at h
    · rename_i rk hk
      cases h
      have hrng : rng (s.ws.set k (.written rk)) = rng s.ws := rng_set_same hk rfl
      have hrk : rng s.ws k = some rk := by simp [rng, hk, APc.range?]
      constructor
      · simpa only [hrng] using hi.bound
      · simpa only [hrng] using hi.disj
      · intro o i hf
        simp only [hrng]
        simp only [paint] at hf
        split at hf
        · rename_i hin
          cases hf
          exact ⟨rk, hrk, hin.1, hin.2⟩
        · exact hi.own o i hf
      · intro i pc r hpc hl o ho1 ho2
        simp only [paint]
        by_cases hki : k = i
        · subst hki
          have hklt : k < s.ws.length := (List.getElem?_eq_some_iff.1 hk).1
          rw [List.getElem?_set] at hpc
          simp only [hklt, ↓reduceIte, Option.some.injEq] at hpc
          subst hpc
          simp only [APc.landed, Option.some.injEq] at hl
          subst hl
          simp [ho1, ho2]
        · rw [List.getElem?_set] at hpc
          simp only [hki, ↓reduceIte] at hpc
          have hri : rng s.ws i = some r := by simp [rng, hpc, landed_range hl]
          have hd := hi.disj k i rk r hki hrk hri
          have hnot : ¬ (rk.off ≤ o ∧ o < rk.stop) := by
            rcases hd with hd | hd <;> omega
          simp only [hnot, ↓reduceIte]
          exact hi.intact i pc r hpc hl o ho1 ho2
    · cases h
  | unlock k =>
    simp only [afire] at h
    split at h
    · rename_i rk hk
      cases h
      have hrng : rng (s.ws.set k (.done rk)) = rng s.ws := rng_set_same hk rfl
      constructor
      · simpa only [hrng] using hi.bound
      · simpa only [hrng] using hi.disj
      · simpa only [hrng] using hi.own
      · intro i pc r hpc hl
        by_cases hki : k = i
        · subst hki
          have hklt : k < s.ws.length := (List.getElem?_eq_some_iff.1 hk).1
          rw [List.getElem?_set] at hpc
          simp only [hklt, ↓reduceIte, Option.some.injEq] at hpc
          subst hpc
          simp only [APc.landed, Option.some.injEq] at hl
          subst hl
          exact hi.intact k (.written rk) rk hk rfl
        · rw [List.getElem?_set] at hpc
          simp only [hki, ↓reduceIte] at hpc
          exact hi.intact i pc r hpc hl
    · cases h

theorem ainv_reach {ul : Bool} {s0 s : AState} (h0 : AInv s0) (h : AReach ul s0 s) : AInv s := by
  induction h with
  | refl => exact h0
  | step _ hs ih => exact ainv_step ih hs

/-- mutual exclusion of the section guarded by the upgradable lock -/
structure AExcl (s : AState) : Prop where
  /-- at most one writer is inside -/
  one : ∀ (i j : Nat) (pi pj : APc), s.ws[i]? = some pi → s.ws[j]? = some pj → pi.inCs = true → pj.inCs = true → i = j
  /-- somebody inside ⇒ the lock is taken -/
  held : ∀ (i : Nat) (pi : APc), s.ws[i]? = some pi → pi.inCs = true → s.locked = true

theorem aexcl_init (size : Nat) (lens : List Nat) : AExcl (ainit size lens) := by
  have key : ∀ (i : Nat) (pi : APc), (ainit size lens).ws[i]? = some pi → pi.inCs = true → False := by
    intro i pi h hin
    simp only [ainit, List.getElem?_map] at h
    cases hlen : lens[i]? with
    | none => simp [hlen] at h
    | some len => simp [hlen] at h; subst h; simp [APc.inCs] at hin
  constructor
  · intro i j pi pj hi _ hin _; exact (key i pi hi hin).elim
  · intro i pi hi hin; exact (key i pi hi hin).elim

/-- the `inCs` status of every writer but `k` is untouched; `k` keeps its status -/
theorem aexcl_set_same {s : AState} {k : Nat} {pc pc' : APc} {sz : Nat} {f : Nat → Option Nat}
    (he : AExcl s) (hk : s.ws[k]? = some pc) (hcs : pc'.inCs = pc.inCs) :
    AExcl { size := sz, locked := s.locked, ws := s.ws.set k pc', file := f } := by
  have hklt : k < s.ws.length := (List.getElem?_eq_some_iff.1 hk).1
  have back : ∀ (i : Nat) (pi : APc), (s.ws.set k pc')[i]? = some pi → ∃ qi : APc, s.ws[i]? = some qi ∧ qi.inCs = pi.inCs := by
    intro i pi h
    rw [List.getElem?_set] at h
    split at h
    · rename_i hki
      simp only [Option.some.injEq] at h
      subst h; subst hki
      exact ⟨pc, hk, hcs.symm⟩
    · exact ⟨pi, h, rfl⟩
  constructor
  · intro i j pi pj hi hj hini hinj
    obtain ⟨qi, hqi, hci⟩ := back i pi hi
    obtain ⟨qj, hqj, hcj⟩ := back j pj hj
    exact he.one i j qi qj hqi hqj (hci.trans hini) (hcj.trans hinj)
  · intro i pi hi hini
    obtain ⟨qi, hqi, hci⟩ := back i pi hi
    exact he.held i qi hqi (hci.trans hini)

theorem aexcl_step {s s' : AState} (he : AExcl s) (hs : AStep true s s') : AExcl s' := by
  obtain ⟨l, h⟩ := hs
  cases l with
  | lock k =>
    simp only [afire] at h
    split at h
    · rename_i len hk
      split at h
      · cases h
      · rename_i hfree
        cases h
        have hfree' : s.locked = false := by simpa using hfree
        have hklt : k < s.ws.length := (List.getElem?_eq_some_iff.1 hk).1
        -- nobody was inside
        have nobody : ∀ (i : Nat) (pi : APc), s.ws[i]? = some pi → pi.inCs = true → False := by
          intro i pi hi hin
          have := he.held i pi hi hin
          rw [hfree'] at this; cases this
        have back : ∀ (i : Nat) (pi : APc), (s.ws.set k (.locked len))[i]? = some pi → pi.inCs = true → i = k := by
          intro i pi h hin
          rw [List.getElem?_set] at h
          split at h
          · rename_i hki; exact hki.symm
          · exact (nobody i pi h hin).elim
        constructor
        · intro i j pi pj hi hj hini hinj
          rw [back i pi hi hini, back j pj hj hinj]
        · intro _ _ _ _; rfl
    · cases h
  | reserve k =>
    simp only [afire] at h
    split at h
    · rename_i len hk
      cases h
      exact aexcl_set_same he hk rfl
    · cases h
  | write k =>
    simp only [afire] at h
    split at h
    · rename_i rk hk
      cases h
      exact aexcl_set_same he hk rfl
    · cases h
  | unlock k =>
    simp only [afire] at h
    split at h
    · rename_i rk hk
      cases h
      have hklt : k < s.ws.length := (List.getElem?_eq_some_iff.1 hk).1
      -- `k` was the one inside, so after it leaves nobody is
      have nobody : ∀ (i : Nat) (pi : APc), (s.ws.set k (.done rk))[i]? = some pi → pi.inCs = true → False := by
        intro i pi h hin
        rw [List.getElem?_set] at h
        split at h
        · simp only [Option.some.injEq] at h
          subst h; simp [APc.inCs] at hin
        · rename_i hki
          exact hki (he.one k i (.written rk) pi hk h rfl hin)
      constructor
      · intro i j pi pj hi _ hini _; exact (nobody i pi hi hini).elim
      · intro i pi hi hini; exact (nobody i pi hi hini).elim
    · cases h

theorem aexcl_reach {s0 s : AState} (h0 : AExcl s0) (h : AReach true s0 s) : AExcl s := by
  induction h with
  | refl => exact h0
  | step _ hs ih => exact aexcl_step ih hs

end Append
end Pearl
