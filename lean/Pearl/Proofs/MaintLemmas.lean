import Pearl.Proofs.StoreLemmas
/-
Helper lemmas for C03 / C04 / C15: what lifecycle and maintenance operations do to the history
(nothing, except that empty blobs may appear at the end), how `nextId` evolves, and accounting.
-/
namespace Pearl

/-- lifecycle / maintenance operations: everything except `write` and `delete` -/
def Op.isMaint : Op → Bool
  | .write _ _ _ _ => false
  | .delete _ _ _ _ => false
  | _ => true

/-- the index-dump flag set on non-empty blobs by `settle` / `restart` -/
def dumpFlag (b : Blob) : Blob := if b.recs.isEmpty then b else { b with onDisk := true }

theorem dumpFlag_hist (b : Blob) : (dumpFlag b).hist = b.hist := by
  unfold dumpFlag; split <;> rfl

theorem map_dumpFlag_hist (bs : List Blob) : (bs.map dumpFlag).map Blob.hist = bs.map Blob.hist := by
  rw [List.map_map]
  exact List.map_congr_left (fun b _ => dumpFlag_hist b)

namespace Store

/-- least strict upper bound of the blob ids (what `restart` recomputes `next_blob_id` to) -/
def idBound (s : Store) : Nat := s.blobs.foldl (fun m b => max m (b.id + 1)) 0

/-- greatest blob id (`0` without blobs) -/
def maxId (s : Store) : Nat := (s.blobs.map (·.id)).foldl max 0

theorem foldl_bound_eq : ∀ (bs : List Blob) (m a : Nat),
    bs.foldl (fun m b => max m (b.id + 1)) (max m (a + 1)) =
      max m ((bs.map (·.id)).foldl max a + 1)
  | [], _, _ => rfl
  | x :: xs, m, a => by
    simp only [List.foldl_cons, List.map_cons]
    have : max (max m (a + 1)) (x.id + 1) = max m (max a x.id + 1) := by omega
    rw [this, foldl_bound_eq xs m (max a x.id)]

theorem idBound_eq_maxId {s : Store} (hne : s.blobs ≠ []) : s.idBound = s.maxId + 1 := by
  unfold idBound maxId
  cases hb : s.blobs with
  | nil => exact absurd hb hne
  | cons x xs =>
    simp only [List.foldl_cons, List.map_cons]
    have := foldl_bound_eq xs 0 x.id
    simp only [Nat.zero_max] at this ⊢
    exact this

theorem idBound_gt (s : Store) : ∀ b ∈ s.blobs, b.id < s.idBound := (foldl_max_spec s.blobs 0).2

theorem foldl_bound_attained : ∀ (bs : List Blob) (m : Nat),
    bs.foldl (fun m b => max m (b.id + 1)) m = m ∨
      ∃ b ∈ bs, bs.foldl (fun m b => max m (b.id + 1)) m = b.id + 1
  | [], _ => Or.inl rfl
  | x :: xs, m => by
    simp only [List.foldl_cons]
    rcases foldl_bound_attained xs (max m (x.id + 1)) with h | ⟨b, hb, h⟩
    · rw [h]
      by_cases hm : x.id + 1 ≤ m
      · left; omega
      · right; exact ⟨x, by simp, by omega⟩
    · right; exact ⟨b, by simp [hb], h⟩

theorem idBound_attained {s : Store} (hne : s.blobs ≠ []) : ∃ b ∈ s.blobs, s.idBound = b.id + 1 := by
  rcases foldl_bound_attained s.blobs 0 with h | h
  · cases hb : s.blobs with
    | nil => exact absurd hb hne
    | cons x xs =>
      have := idBound_gt s x (by rw [hb]; simp)
      unfold idBound at this
      omega
  · exact h

/-- what a lifecycle operation does to the history and to `nextId` -/
inductive LifeStep (s s' : Store) : Prop
  /-- nothing -/
  | same : s'.history = s.history → s'.nextId = s.nextId → LifeStep s s'
  /-- a new, empty blob with the next id, at the end -/
  | new : s'.history = s.history ++ [(s.nextId, [])] → s'.nextId = s.nextId + 1 → LifeStep s s'

/-- what a maintenance operation does to the history and to `nextId` -/
inductive MaintStep (s s' : Store) : Prop
  | life : LifeStep s s' → MaintStep s s'
  /-- `restart`: `nextId` recomputed from the ids -/
  | restart : s'.history = s.history → s'.nextId = s.idBound → MaintStep s s'
  /-- `restart false` of a storage without blobs (`init_new`), not reachable from `Store.init` -/
  | fresh : s.history = [] → s'.history = [(0, [])] → s'.nextId = 1 → MaintStep s s'

theorem history_createActive {s : Store} (h : s.active = none) :
    s.createActive.history = s.history ++ [(s.nextId, [])] := by
  simp [history, blobs_createActive h]

theorem closeActive_step {s s' : Store} (h : s.closeActive = .ok s') : LifeStep s s' := by
  unfold closeActive at h
  cases ha : s.active with
  | none => rw [ha] at h; simp at h
  | some a =>
    rw [ha] at h
    simp only [Except.ok.injEq] at h
    subst h
    refine .same ?_ rfl
    simp [history, blobs, closed, ha, List.filterMap_append]

theorem tryCreateActive_step {s s' : Store} (h : s.tryCreateActive = .ok s') : LifeStep s s' := by
  unfold tryCreateActive at h
  cases ha : s.active with
  | some a => rw [ha] at h; simp at h
  | none =>
    rw [ha] at h
    simp only [Except.ok.injEq] at h
    subst h
    exact .new (history_createActive ha) rfl

theorem restoreActive_step {s s' : Store} (h : s.restoreActive = .ok s') : LifeStep s s' := by
  unfold restoreActive at h
  cases ha : s.active with
  | some a => rw [ha] at h; simp at h
  | none =>
    rw [ha] at h
    cases hl : lastPresent s.slots with
    | none => rw [hl] at h; simp at h
    | some p =>
      obtain ⟨i, b⟩ := p
      rw [hl] at h
      simp only [Except.ok.injEq] at h
      subst h
      refine .same ?_ rfl
      simp [history, blobs, closed, ha, ← lastPresent_some hl]

theorem replaceActive_step (s : Store) : LifeStep s s.replaceActive := by
  unfold replaceActive
  cases ha : s.active with
  | none => exact .new (history_createActive ha) rfl
  | some a =>
    refine .new ?_ rfl
    simp [history, blobs, closed, createActive, ha, List.filterMap_append]

theorem settle_blobs (s : Store) : s.settle.blobs = s.closed.map dumpFlag ++ s.active.toList := by
  simp only [settle, blobs, closed, closed_map_option]
  rfl

theorem settle_step (s : Store) : LifeStep s s.settle := by
  refine .same ?_ rfl
  rw [history_eq, history_eq, settle_blobs]
  conv => rhs; unfold blobs
  rw [List.map_append, List.map_append, map_dumpFlag_hist]

theorem restart_lazy_blobs {s : Store} (hwf : s.WF) :
    (s.restart true).blobs = s.blobs.map dumpFlag := by
  have hsort := sortById_of_sorted s.blobs hwf.1
  simp only [restart, hsort, if_true]
  generalize s.blobs = bs
  simp only [blobs, closed, Option.toList, List.append_nil]
  exact filterMap_id_map_some dumpFlag bs

theorem restart_cases {s : Store} (hwf : s.WF) (lazy : Bool) :
    ((s.restart lazy).history = s.history ∧ (s.restart lazy).nextId = s.idBound) ∨
      (s.history = [] ∧ (s.restart lazy).history = [(0, [])] ∧ (s.restart lazy).nextId = 1) := by
  have hsort := sortById_of_sorted s.blobs hwf.1
  cases lazy with
  | true =>
    have hh : (s.restart true).history = s.history := by
      rw [history_eq, history_eq, restart_lazy_blobs hwf, map_dumpFlag_hist]
    have hn : (s.restart true).nextId = s.idBound := by
      simp only [restart, hsort, if_true, idBound]
    exact Or.inl ⟨hh, hn⟩
  | false =>
    cases hl : s.blobs.getLast? with
    | none =>
      have h0 : s.blobs = [] := List.getLast?_eq_none_iff.1 hl
      refine Or.inr ⟨by rw [history_eq, h0]; rfl, ?_, ?_⟩
      · simp only [restart, hsort, hl, Bool.false_eq_true, if_false]
        simp [history, createActive, blobs, closed]
      · simp only [restart, hsort, hl, Bool.false_eq_true, if_false]
        rfl
    | some a =>
      obtain ⟨ys, hys⟩ := List.getLast?_eq_some_iff.1 hl
      have hb : (s.restart false).blobs = ys.map dumpFlag ++ [{ a with onDisk := false }] := by
        simp only [restart, hsort, hl, Bool.false_eq_true, if_false]
        rw [hys, List.dropLast_concat]
        generalize ys = zs
        simp only [blobs, closed, Option.toList]
        exact congrArg (· ++ _) (filterMap_id_map_some dumpFlag zs)
      have hn : (s.restart false).nextId = s.idBound := by
        simp only [restart, hsort, hl, Bool.false_eq_true, if_false, idBound]
      refine Or.inl ⟨?_, hn⟩
      rw [history_eq, history_eq, hb, hys, List.map_append, List.map_append, map_dumpFlag_hist]
      rfl

theorem restart_step {s : Store} (hwf : s.WF) (lazy : Bool) : MaintStep s (s.restart lazy) := by
  rcases restart_cases hwf lazy with ⟨h1, h2⟩ | ⟨h1, h2, h3⟩
  · exact .restart h1 h2
  · exact .fresh h1 h2 h3

/-- `restart` of a storage with at least one blob: same history, `nextId` = greatest id + 1 -/
theorem restart_of_ne_nil {s : Store} (hwf : s.WF) (lazy : Bool) (hne : s.blobs ≠ []) :
    (s.restart lazy).history = s.history ∧ (s.restart lazy).nextId = s.maxId + 1 := by
  rcases restart_cases hwf lazy with ⟨h1, h2⟩ | ⟨h1, _, _⟩
  · exact ⟨h1, by rw [h2, idBound_eq_maxId hne]⟩
  · exact absurd (by simpa [history] using h1) hne

theorem LifeStep.refl (s : Store) : LifeStep s s := .same rfl rfl

/-- a lifecycle operation (everything but `write`, `delete`, `restart`) -/
theorem apply_life_step (s : Store) {m : Op} (hm : m.isMaint = true) (hr : ∀ lazy, m ≠ .restart lazy) :
    LifeStep s (s.apply m) := by
  cases m with
  | write k ts mo d => simp [Op.isMaint] at hm
  | delete k ts mo oip => simp [Op.isMaint] at hm
  | closeActive =>
    simp only [apply]
    cases h : s.closeActive with
    | ok s' => exact closeActive_step h
    | error e => exact .refl s
  | createActive =>
    simp only [apply]
    cases h : s.tryCreateActive with
    | ok s' => exact tryCreateActive_step h
    | error e => exact .refl s
  | restoreActive =>
    simp only [apply]
    cases h : s.restoreActive with
    | ok s' => exact restoreActive_step h
    | error e => exact .refl s
  | replaceActive => exact replaceActive_step s
  | settle => exact settle_step s
  | restart lazy => exact absurd rfl (hr lazy)

theorem apply_maint_step {s : Store} (hwf : s.WF) {m : Op} (hm : m.isMaint = true) :
    MaintStep s (s.apply m) := by
  cases m with
  | restart lazy => exact restart_step hwf lazy
  | write k ts mo d => simp [Op.isMaint] at hm
  | delete k ts mo oip => simp [Op.isMaint] at hm
  | closeActive => exact .life (apply_life_step s hm (by intro l h; cases h))
  | createActive => exact .life (apply_life_step s hm (by intro l h; cases h))
  | restoreActive => exact .life (apply_life_step s hm (by intro l h; cases h))
  | replaceActive => exact .life (apply_life_step s hm (by intro l h; cases h))
  | settle => exact .life (apply_life_step s hm (by intro l h; cases h))

/-- maintenance extends the history by empty blobs at the end, and does nothing else to it -/
theorem MaintStep.history_ext {s s' : Store} (h : MaintStep s s') :
    ∃ e : History, s'.history = s.history ++ e ∧ ∀ b ∈ e, b.2 = [] := by
  cases h with
  | life h =>
    cases h with
    | same hh _ => exact ⟨[], by simp [hh], by simp⟩
    | new hh _ => exact ⟨[(s.nextId, [])], hh, by simp⟩
  | restart hh _ => exact ⟨[], by simp [hh], by simp⟩
  | fresh h0 hh _ => exact ⟨[(0, [])], by rw [hh, h0]; rfl, by simp⟩

end Store

/-! ### empty blobs are invisible to the specification -/

theorem positioned_of_all_empty : ∀ {e : History}, (∀ b ∈ e, b.2 = []) → e.positioned = []
  | [], _ => rfl
  | b :: e, h => by
    rw [positioned_cons, positioned_of_all_empty (fun x hx => h x (by simp [hx])), h b (by simp)]
    rfl

theorem positioned_append_empty (h : History) {e : History} (he : ∀ b ∈ e, b.2 = []) :
    (h ++ e).positioned = h.positioned := by
  rw [positioned_append, positioned_of_all_empty he, List.append_nil]

theorem count_append_empty (h : History) {e : History} (he : ∀ b ∈ e, b.2 = []) :
    Spec.count (h ++ e) = Spec.count h := by
  unfold Spec.count
  rw [List.map_append, List.sum_append]
  have : (e.map (fun b => b.2.length)).sum = 0 := by
    induction e with
    | nil => rfl
    | cons b e ih =>
      rw [List.map_cons, List.sum_cons, ih (fun x hx => he x (by simp [hx])), he b (by simp)]
      rfl
  omega

/-- everything the specification says is a function of the positioned records -/
theorem Spec.all_congr {h h' : History} (hp : h.positioned = h'.positioned) (k : Key) :
    Spec.all h k = Spec.all h' k := by
  unfold Spec.all; rw [hp]

theorem Spec.allCut_congr {h h' : History} (hp : h.positioned = h'.positioned) (k : Key) :
    Spec.allCut h k = Spec.allCut h' k := by
  unfold Spec.allCut; rw [Spec.all_congr hp]

theorem Spec.allLive_congr {h h' : History} (hp : h.positioned = h'.positioned) (k : Key) :
    Spec.allLive h k = Spec.allLive h' k := by
  unfold Spec.allLive; rw [Spec.allCut_congr hp]

theorem Spec.latest_congr {h h' : History} (hp : h.positioned = h'.positioned) (k : Key) :
    Spec.latest h k = Spec.latest h' k := by
  unfold Spec.latest; rw [Spec.all_congr hp]

theorem Spec.readWith_congr {h h' : History} (hp : h.positioned = h'.positioned) (k : Key) (m : Meta) :
    Spec.readWith h k m = Spec.readWith h' k m := by
  unfold Spec.readWith; rw [Spec.allCut_congr hp]

/-- … and, with pairwise distinct blob ids, of their multiset only -/
theorem Spec.all_congr_perm {h h' : History} (hn' : (h'.map (·.1)).Nodup)
    (hp : h.positioned.Perm h'.positioned) (k : Key) : Spec.all h k = Spec.all h' k := by
  -- `Spec.all h k` is rank-sorted as soon as the positions of `h` are pairwise distinct, which
  -- follows from those of `h'` being so
  have hd : (h.positioned.filter (fun p => p.r.key == k)).Pairwise PDistinct :=
    ((List.Perm.pairwise_iff (fun hab => PDistinct.symm hab) hp).2 (positioned_distinct hn')).sublist
      List.filter_sublist
  have h1 : (Spec.all h k).Pairwise (fun a b => rankLe a b = true) :=
    List.pairwise_mergeSort rankLe_trans rankLe_total _
  have h2 : (Spec.all h k).Pairwise PDistinct :=
    (List.Perm.pairwise_iff (fun hab => PDistinct.symm hab) (List.mergeSort_perm _ _)).2 hd
  have hs : RankSorted (Spec.all h k) := (h1.and h2).imp (fun hab => rankBefore_of_rankLe hab.1 hab.2)
  exact sortedBy_unique hn' ((List.mergeSort_perm _ _).trans (hp.filter _)) hs

/-! ### blob ids and `nextId` -/

namespace Store

/-- the ids of the blobs, oldest → newest -/
def ids (s : Store) : List Nat := s.blobs.map (·.id)

theorem history_ids (s : Store) : s.history.map (·.1) = s.ids := by
  simp [history, ids, List.map_map, Function.comp_def]

/-- what an operation other than `restart` does to the ids and to `nextId` -/
inductive IdStep (s s' : Store) : Prop
  | same : s'.ids = s.ids → s'.nextId = s.nextId → IdStep s s'
  | new : s'.ids = s.ids ++ [s.nextId] → s'.nextId = s.nextId + 1 → IdStep s s'

theorem LifeStep.toIdStep {s s' : Store} (h : LifeStep s s') : IdStep s s' := by
  cases h with
  | same hh hn => exact .same (by rw [← history_ids, hh, history_ids]) hn
  | new hh hn => exact .new (by rw [← history_ids, hh, List.map_append, history_ids]; rfl) hn

theorem Grow.idStep {s s₁ s₂ : Store} (g : Grow s s₁) (hc : Cont s₁.blobs s₂.blobs)
    (hn : s₂.nextId = s₁.nextId) : IdStep s s₂ := by
  have hids : s₂.ids = s₁.ids := hc.ids
  cases g with
  | same hb hn' => exact .same (by rw [hids]; unfold ids; rw [hb]) (by rw [hn, hn'])
  | new hb hn' => exact .new (by rw [hids]; unfold ids; rw [hb]; simp) (by rw [hn, hn'])

theorem write_cont (s : Store) (k : Key) (ts : Nat) (m : Option Meta) (d : Data) :
    Cont s.ensureActive.blobs (s.write k ts m d).blobs ∧
      (s.write k ts m d).nextId = s.ensureActive.nextId := by
  simp only [write]
  split
  · exact ⟨Cont.refl _, rfl⟩
  · split
    · exact ⟨Cont.refl _, rfl⟩
    · rename_i a ha
      refine ⟨?_, rfl⟩
      simp only [blobs, closed, ha, Option.toList]
      exact cont_append_rec _ _ _

theorem delete_cont (s : Store) (k : Key) (ts : Nat) (m : Option Meta) (oip : Bool) :
    Cont (s.deleteBase oip).blobs (s.delete k ts m oip).1.blobs := by
  rw [delete_blobs]
  conv => lhs; unfold blobs
  exact Cont.append (Cont.map_right (fun b => blobDelete_cont b k ts m true) _)
    (Cont.map_right (fun b => blobDelete_cont b k ts m oip) _)

theorem apply_idStep (s : Store) (op : Op) (hr : ∀ lazy, op ≠ .restart lazy) :
    IdStep s (s.apply op) := by
  cases op with
  | write k ts m d =>
    exact (ensureActive_grow s).idStep (write_cont s k ts m d).1 (write_cont s k ts m d).2
  | delete k ts m oip =>
    exact (deleteBase_grow s oip).idStep (delete_cont s k ts m oip) (delete_nextId s k ts m oip)
  | restart lazy => exact absurd rfl (hr lazy)
  | closeActive => exact (apply_life_step s rfl hr).toIdStep
  | createActive => exact (apply_life_step s rfl hr).toIdStep
  | restoreActive => exact (apply_life_step s rfl hr).toIdStep
  | replaceActive => exact (apply_life_step s rfl hr).toIdStep
  | settle => exact (apply_life_step s rfl hr).toIdStep

/-- with `WF`, the id determines the blob -/
theorem eq_of_id_eq : ∀ {l : List Blob}, (l.map (·.id)).Pairwise (· < ·) →
    ∀ {x y : Blob}, x ∈ l → y ∈ l → x.id = y.id → x = y
  | [], _, _, _, hx, _, _ => by simp at hx
  | b :: l, h, x, y, hx, hy, hid => by
    rw [List.map_cons, List.pairwise_cons] at h
    rcases List.mem_cons.1 hx with hx' | hx' <;> rcases List.mem_cons.1 hy with hy' | hy'
    · rw [hx', hy']
    · have := h.1 y.id (List.mem_map_of_mem hy'); rw [hx'] at hid; omega
    · have := h.1 x.id (List.mem_map_of_mem hx'); rw [hy'] at hid; omega
    · exact eq_of_id_eq h.2 hx' hy' hid

/-- `nextId` is exactly one above some blob id (with `WF`: above the greatest one) -/
def Tight (s : Store) : Prop := ∃ b ∈ s.blobs, s.nextId = b.id + 1

theorem Tight.ne_nil {s : Store} (h : s.Tight) : s.blobs ≠ [] := by
  obtain ⟨b, hb, _⟩ := h
  intro h0; rw [h0] at hb; simp at hb

theorem idBound_eq_nextId {s : Store} (hwf : s.WF) (ht : s.Tight) : s.idBound = s.nextId := by
  obtain ⟨b, hb, hn⟩ := ht
  obtain ⟨b', hb', hn'⟩ := idBound_attained (s := s) (by intro h0; rw [h0] at hb; simp at hb)
  have h1 := idBound_gt s b hb
  have h2 := hwf.2 b' hb'
  omega

theorem mem_ids {s : Store} {n : Nat} : n ∈ s.ids ↔ ∃ b ∈ s.blobs, b.id = n := by
  simp [ids]

theorem init_tight (d : Bool) : (Store.init d).Tight :=
  ⟨{ id := 0, recs := [] }, by simp [init, createActive, blobs, closed], rfl⟩

theorem apply_tight {s : Store} (hwf : s.WF) (ht : s.Tight) (op : Op) : (s.apply op).Tight := by
  have key : ∀ s' : Store, s'.ids = s.ids → s'.nextId = s.nextId → s'.Tight := by
    intro s' hi hn
    obtain ⟨b, hb, hbn⟩ := ht
    obtain ⟨b', hb', hid⟩ := mem_ids.1 (by rw [hi]; exact mem_ids.2 ⟨b, hb, rfl⟩ : b.id ∈ s'.ids)
    exact ⟨b', hb', by rw [hn, hbn, hid]⟩
  by_cases hr : ∃ lazy, op = .restart lazy
  · obtain ⟨lazy, rfl⟩ := hr
    show (s.restart lazy).Tight
    obtain ⟨hh, hn⟩ := restart_of_ne_nil hwf lazy ht.ne_nil
    exact key _ (by rw [← history_ids, hh, history_ids])
      (by rw [hn, ← idBound_eq_maxId ht.ne_nil, idBound_eq_nextId hwf ht])
  · have hr' : ∀ lazy, op ≠ .restart lazy := fun l h => hr ⟨l, h⟩
    cases apply_idStep s op hr' with
    | same hi hn => exact key _ hi hn
    | new hi hn =>
      obtain ⟨b', hb', hid⟩ := mem_ids.1 (by rw [hi]; simp : s.nextId ∈ (s.apply op).ids)
      exact ⟨b', hb', by rw [hn, hid]⟩

theorem run_WF_from {s : Store} (hwf : s.WF) : ∀ ops : List Op, (s.run ops).WF
  | [] => hwf
  | op :: ops => by rw [run_cons]; exact run_WF_from (apply_WF' hwf op) ops

theorem run_tight {s : Store} (hwf : s.WF) (ht : s.Tight) : ∀ ops : List Op, (s.run ops).Tight
  | [] => ht
  | op :: ops => by
    rw [run_cons]
    exact run_tight (apply_WF' hwf op) (apply_tight hwf ht op) ops

/-! ### accounting -/

theorem recordsCount_eq_count (s : Store) : s.recordsCount = Spec.count s.history := by
  simp only [recordsCount, Spec.count, history, List.map_map]
  rfl

theorem Grow.recordsCount {s s₁ : Store} (g : Grow s s₁) : s₁.recordsCount = s.recordsCount := by
  cases g with
  | same hb _ => unfold Store.recordsCount; rw [hb]
  | new hb _ => unfold Store.recordsCount; rw [hb]; simp [Blob.count]

theorem blobDelete_count (b : Blob) (k : Key) (ts : Nat) (m : Option Meta) (oip : Bool) :
    (blobDelete b k ts m oip).1.count = b.count + if (blobDelete b k ts m oip).2 then 1 else 0 := by
  unfold blobDelete; split <;> simp [Blob.count]

theorem sum_count_marked (F : Blob → Blob × Bool)
    (hF : ∀ b, (F b).1.count = b.count + if (F b).2 then 1 else 0) : ∀ l : List Blob,
    ((l.map (fun b => (F b).1)).map Blob.count).sum =
      (l.map Blob.count).sum + (l.filter (fun b => (F b).2)).length
  | [] => rfl
  | b :: l => by
    have ih := sum_count_marked F hF l
    simp only [List.map_cons, List.sum_cons, ih, hF b, List.filter_cons]
    split <;> simp <;> omega

/-- `delete` adds exactly as many records as the number it returns -/
theorem delete_recordsCount (s : Store) (k : Key) (ts : Nat) (m : Option Meta) (oip : Bool) :
    (s.delete k ts m oip).1.recordsCount = s.recordsCount + (s.delete k ts m oip).2 := by
  rw [← (deleteBase_grow s oip).recordsCount, delete_count]
  unfold recordsCount
  rw [delete_blobs, List.map_append, List.sum_append,
    sum_count_marked (fun b => blobDelete b k ts m true) (fun b => blobDelete_count b k ts m true),
    sum_count_marked (fun b => blobDelete b k ts m oip) (fun b => blobDelete_count b k ts m oip)]
  conv => rhs; unfold blobs
  rw [List.map_append, List.sum_append]
  omega

/-- is this write refused as a duplicate? -/
def dedups (s : Store) (k : Key) (m : Option Meta) : Bool :=
  !s.allowDup && (s.ensureActive.getLatestEntry k m).isFound

/-- `write` adds one record unless it is refused as a duplicate -/
theorem write_recordsCount (s : Store) (k : Key) (ts : Nat) (m : Option Meta) (d : Data) :
    (s.write k ts m d).recordsCount = s.recordsCount + if s.dedups k m then 0 else 1 := by
  rw [← (ensureActive_grow s).recordsCount]
  obtain ⟨a, ha⟩ := s.ensureActive_active
  unfold dedups
  rw [← ensureActive_allowDup s]
  simp only [write, ha]
  split
  · simp
  · simp [recordsCount, blobs, closed, ha, Blob.count, Blob.append]
    omega

/-! ### things no operation changes; `ensureActive` as a lifecycle operation -/

theorem ensureActive_eq_apply (s : Store) : s.ensureActive = s.apply .createActive := by
  unfold ensureActive apply tryCreateActive
  cases s.active <;> rfl

theorem apply_allowDup (s : Store) (op : Op) : (s.apply op).allowDup = s.allowDup := by
  cases op with
  | write k ts m d =>
    simp only [apply, write]
    split
    · exact ensureActive_allowDup s
    · split <;> exact ensureActive_allowDup s
  | delete k ts m oip =>
    simp only [apply]
    rw [delete_allowDup]; unfold deleteBase; split
    · rfl
    · exact ensureActive_allowDup s
  | closeActive => simp only [apply, closeActive]; cases s.active <;> rfl
  | createActive => simp only [apply, tryCreateActive]; cases s.active <;> rfl
  | restoreActive =>
    simp only [apply, restoreActive]
    cases s.active with
    | some a => rfl
    | none => cases lastPresent s.slots <;> rfl
  | replaceActive => simp only [apply, replaceActive]; cases s.active <;> rfl
  | settle => rfl
  | restart lazy =>
    simp only [apply, restart]
    split
    · rfl
    · split <;> rfl

/-- without `only_if_presented` the active blob always takes the marker -/
theorem delete_false_pos (s : Store) (k : Key) (ts : Nat) (m : Option Meta) :
    1 ≤ (s.delete k ts m false).2 := by
  rw [delete_count]
  obtain ⟨a, ha⟩ := s.ensureActive_active
  have : s.deleteBase false = s.ensureActive := rfl
  rw [this, ha]
  simp [blobDelete_snd]

/-! ### `nextId` never decreases on tight states; expected counts of a run -/

theorem apply_nextId_le_of_not_restart (s : Store) (op : Op) (hr : ∀ lazy, op ≠ .restart lazy) :
    s.nextId ≤ (s.apply op).nextId := by
  cases apply_idStep s op hr with
  | same _ hn => omega
  | new _ hn => omega

theorem apply_nextId_le {s : Store} (hwf : s.WF) (ht : s.Tight) (op : Op) :
    s.nextId ≤ (s.apply op).nextId := by
  by_cases hr : ∃ lazy, op = .restart lazy
  · obtain ⟨lazy, rfl⟩ := hr
    show s.nextId ≤ (s.restart lazy).nextId
    rw [(restart_of_ne_nil hwf lazy ht.ne_nil).2, ← idBound_eq_maxId ht.ne_nil,
      idBound_eq_nextId hwf ht]
    exact Nat.le_refl _
  · exact apply_nextId_le_of_not_restart s op (fun l h => hr ⟨l, h⟩)

/-- number of records operation `op` appends in state `s` -/
def added (s : Store) : Op → Nat
  | .write k _ m _ => if s.dedups k m then 0 else 1
  | .delete k ts m oip => (s.delete k ts m oip).2
  | _ => 0

/-- number of writes of the run that were not refused as duplicates -/
def storedWrites : Store → List Op → Nat
  | _, [] => 0
  | s, op :: ops =>
    (match op with
      | .write k _ m _ => if s.dedups k m then 0 else 1
      | _ => 0) + storedWrites (s.apply op) ops

/-- sum of the numbers returned by the deletes of the run -/
def deleteMarks : Store → List Op → Nat
  | _, [] => 0
  | s, op :: ops =>
    (match op with
      | .delete k ts m oip => (s.delete k ts m oip).2
      | _ => 0) + deleteMarks (s.apply op) ops

end Store

/-! ### an index regenerated from the blob file -/

/-- the in-memory index rebuilt by scanning the blob file in order: every header is pushed into the
    vector of its key (`Blob::from_file` → `IndexStruct::push` per record) -/
def rebuildIndex (recs : List Rec) : Key → List Rec :=
  recs.foldl (fun idx r => fun k => if r.key == k then push (idx k) r else idx k) (fun _ => [])

theorem foldl_rebuild (k : Key) : ∀ (recs : List Rec) (idx : Key → List Rec),
    (recs.foldl (fun idx r => fun k => if r.key == k then push (idx k) r else idx k) idx) k =
      (recs.filter (fun r => r.key == k)).foldl push (idx k)
  | [], _ => rfl
  | r :: rs, idx => by
    rw [List.foldl_cons, foldl_rebuild k rs]
    by_cases h : (r.key == k) = true
    · simp only [List.filter_cons, h, if_true, List.foldl_cons]
    · simp only [List.filter_cons, h, Bool.false_eq_true, if_false]

/-! ### `restart` twice -/

theorem dumpFlag_idem (b : Blob) : dumpFlag (dumpFlag b) = dumpFlag b := by
  unfold dumpFlag
  by_cases h : b.recs.isEmpty = true <;> simp [h]

theorem dumpFlag_id (b : Blob) : (dumpFlag b).id = b.id := by
  unfold dumpFlag; split <;> rfl

namespace Store

theorem foldl_bound_congr : ∀ (bs cs : List Blob) (m : Nat), bs.map (·.id) = cs.map (·.id) →
    bs.foldl (fun m b => max m (b.id + 1)) m = cs.foldl (fun m b => max m (b.id + 1)) m
  | [], [], _, _ => rfl
  | [], _ :: _, _, h => by simp at h
  | _ :: _, [], _, h => by simp at h
  | b :: bs, c :: cs, m, h => by
    simp only [List.map_cons, List.cons.injEq] at h
    simp only [List.foldl_cons, h.1]
    exact foldl_bound_congr bs cs _ h.2

theorem restart_true_eq {s : Store} (hwf : s.WF) :
    s.restart true =
      { s with active := none, slots := s.blobs.map (fun b => some (dumpFlag b)), nextId := s.idBound } := by
  simp only [restart, sortById_of_sorted s.blobs hwf.1, if_true]
  rfl

theorem restart_false_eq {s : Store} (hwf : s.WF) {ys : List Blob} {a : Blob} (h : s.blobs = ys ++ [a]) :
    s.restart false =
      { s with active := some { a with onDisk := false }
               slots := ys.map (fun b => some (dumpFlag b)), nextId := s.idBound } := by
  have hl : s.blobs.getLast? = some a := by rw [h]; simp
  have hd : s.blobs.dropLast = ys := by rw [h, List.dropLast_concat]
  simp only [restart, sortById_of_sorted s.blobs hwf.1, Bool.false_eq_true, if_false, hl, hd]
  rfl

theorem restart_false_nil {s : Store} (h : s.blobs = []) :
    s.restart false =
      { s with active := some { id := 0, recs := [] }, slots := [], nextId := 1 } := by
  simp only [restart, h, sortById, List.foldr_nil, List.getLast?_nil, Bool.false_eq_true, if_false]
  rfl

/-- restarting twice in the same mode is restarting once -/
theorem restart_restart {s : Store} (hwf : s.WF) (lazy : Bool) :
    (s.restart lazy).restart lazy = s.restart lazy := by
  have hwf' : (s.restart lazy).WF := apply_WF' hwf (.restart lazy)
  cases lazy with
  | true =>
    have hb : (s.restart true).blobs = s.blobs.map dumpFlag := restart_lazy_blobs hwf
    have hi : (s.restart true).idBound = s.idBound := by
      unfold idBound; rw [hb]
      exact foldl_bound_congr _ _ 0 (by simp [List.map_map, Function.comp_def, dumpFlag_id])
    rw [restart_true_eq hwf', hb, hi, restart_true_eq hwf]
    simp [List.map_map, Function.comp_def, dumpFlag_idem]
  | false =>
    cases hl : s.blobs.getLast? with
    | none =>
      have h0 : s.blobs = [] := List.getLast?_eq_none_iff.1 hl
      have h1 := restart_false_nil h0
      have hb : (s.restart false).blobs = [] ++ [{ id := 0, recs := [] }] := by
        rw [h1]; simp [blobs, closed]
      rw [restart_false_eq hwf' hb]
      have hi : (s.restart false).idBound = 1 := by unfold idBound; rw [hb]; rfl
      rw [hi, h1]
      rfl
    | some a =>
      obtain ⟨ys, hys⟩ := List.getLast?_eq_some_iff.1 hl
      have h1 := restart_false_eq hwf hys
      have hb : (s.restart false).blobs = ys.map dumpFlag ++ [{ a with onDisk := false }] := by
        rw [h1]
        simp only [blobs, closed, Option.toList]
        exact congrArg (· ++ _) (filterMap_id_map_some dumpFlag ys)
      have hi : (s.restart false).idBound = s.idBound := by
        unfold idBound; rw [hb, hys]
        exact foldl_bound_congr _ _ 0 (by simp [List.map_map, Function.comp_def, dumpFlag_id])
      rw [restart_false_eq hwf' hb, hi, h1]
      simp [List.map_map, Function.comp_def, dumpFlag_idem]

end Store

/-! ### `delete` with `only_if_presented`: the number of blobs in which the key is live -/

theorem liveIn_nil (id : Nat) (k : Key) : Spec.liveIn id [] k = false := by
  simp [Spec.liveIn, Spec.latest, Spec.all, History.positioned, positionedFrom, ReadResult.isFound]

theorem Store.delete_true_count (s : Store) (k : Key) (ts : Nat) (m : Option Meta) :
    (s.delete k ts m true).2 = (s.history.filter (fun h => Spec.liveIn h.1 h.2 k)).length := by
  rw [Store.delete_count]
  have hb : s.deleteBase true = s := rfl
  rw [hb, Store.history, List.filter_map, List.length_map, Store.blobs, List.filter_append,
    List.length_append, Nat.add_comm]
  congr 2
  · apply List.filter_congr
    intro b _
    simp [Store.blobDelete_snd, Blob.liveIn_eq]
  · apply List.filter_congr
    intro b _
    simp [Store.blobDelete_snd, Blob.liveIn_eq]

end Pearl
