import Pearl.Model.Record
import Pearl.Proofs.BytesLemmas
import Pearl.Proofs.CrcLemmas
/-
Helper lemmas for the record / blob byte layer.
-/
namespace Pearl

/-! ### header serialisation -/

@[simp] theorem serHeaderPre_length (h : RecHeader) : (serHeaderPre h).length = 33 + h.key.length := by
  simp [serHeaderPre]; omega

@[simp] theorem serHeader_length (h : RecHeader) : (serHeader h).length = 57 + h.key.length := by
  simp [serHeader]; omega

theorem serHeader_length_eq_headerSize (h : RecHeader) : (serHeader h).length = headerSize h.key.length :=
  serHeader_length h

/-- the patch of `finalize_with_checksum` on a buffer with the layout
    `pre ++ offset(8) ++ mid ++ checksum(4) ++ rest` -/
theorem finalizeWith_layout (crc : List UInt8 → UInt32) (pre mid rest : List UInt8) (bo off hc n : Nat)
    (hn : n = pre.length + 8 + mid.length + 4) :
    finalizeWith crc (pre ++ (le64 bo ++ (mid ++ (le32 hc ++ rest)))) n off (8 + mid.length + 4) 4 =
      (pre ++ (le64 off ++ (mid ++ (le32 (crc (pre ++ (le64 off ++ (mid ++ le32 0)))).toNat ++ rest))),
       crc (pre ++ (le64 off ++ (mid ++ le32 0)))) := by
  unfold finalizeWith
  have h1 : n - (8 + mid.length + 4) = pre.length := by omega
  have h2 : n - 4 = (pre ++ (le64 off ++ mid)).length := by simp; omega
  simp only [h1]
  rw [patchAt_append rfl (by simp)]
  have e1 : ∀ x : List UInt8, pre ++ (le64 off ++ (mid ++ (x ++ rest))) = (pre ++ (le64 off ++ mid)) ++ (x ++ rest) := by
    intro x; simp [List.append_assoc]
  rw [e1, patchAt_append h2.symm (by simp)]
  have e2 : (pre ++ (le64 off ++ mid)) ++ (le32 0 ++ rest) = ((pre ++ (le64 off ++ mid)) ++ le32 0) ++ rest := by
    simp [List.append_assoc]
  have h3 : ((pre ++ (le64 off ++ mid)) ++ le32 0).length = n := by simp; omega
  have e3 : List.take n ((pre ++ (le64 off ++ mid)) ++ (le32 0 ++ rest)) = pre ++ (le64 off ++ (mid ++ le32 0)) := by
    rw [e2, List.take_left' h3]; simp [List.append_assoc]
  rw [e3, patchAt_append h2.symm (by simp), ← e1]

theorem serHeader_layout (h : RecHeader) :
    serHeader h = serHeaderPre h ++ (le64 h.blobOffset ++ ((le64 h.timestamp ++ le32 h.dataChecksum.toNat) ++
      le32 h.headerChecksum.toNat)) := by
  simp [serHeader, List.append_assoc]

/-- (b) in its general form -/
theorem finalizeWith_serHeader (crc : List UInt8 → UInt32) (h : RecHeader) (rest : List UInt8) (off : Nat) :
    finalizeWith crc (serHeader h ++ rest) (serHeader h).length off =
      (serHeader (h.finalWith crc off) ++ rest, (h.finalWith crc off).headerChecksum) := by
  have hl := finalizeWith_layout crc (serHeaderPre h) (le64 h.timestamp ++ le32 h.dataChecksum.toNat) rest
    h.blobOffset off h.headerChecksum.toNat (serHeader h).length (by simp; omega)
  have hm : 8 + (le64 h.timestamp ++ le32 h.dataChecksum.toNat).length + 4 = 24 := by simp
  rw [hm] at hl
  have e0 : serHeader { h with blobOffset := off, headerChecksum := 0 } =
      serHeaderPre h ++ (le64 off ++ ((le64 h.timestamp ++ le32 h.dataChecksum.toNat) ++ le32 0)) := by
    rw [serHeader_layout]; rfl
  generalize (serHeader h).length = N at hl ⊢
  rw [serHeader_layout h, List.append_assoc, List.append_assoc, List.append_assoc]
  rw [hl, ← e0]
  simp [RecHeader.finalWith, serHeader, serHeaderPre, List.append_assoc]

/-! ### write path -/

theorem writableWith_toPartial (crc : List UInt8 → UInt32) (r : Record) (off maxSP : Nat) :
    (writableWith crc (toPartial r maxSP) off).1.bytes =
        serHeader (r.header.finalWith crc off) ++ serMeta r.mt ++ r.data ∧
      (writableWith crc (toPartial r maxSP) off).2 = (r.header.finalWith crc off).headerChecksum := by
  unfold toPartial
  simp only
  split
  · simp only [writableWith]
    rw [List.append_assoc, finalizeWith_serHeader]
    simp [Writable.bytes]
  · simp only [writableWith]
    rw [finalizeWith_serHeader]
    simp [Writable.bytes]

theorem toPartial_len (r : Record) (maxSP : Nat) :
    (toPartial r maxSP).len = (serHeader r.header).length + (serMeta r.mt).length + r.data.length := by
  unfold toPartial
  simp only
  split <;> simp [Partial.len] <;> omega

theorem finalWith_key (crc : List UInt8 → UInt32) (h : RecHeader) (off : Nat) :
    (h.finalWith crc off).key = h.key := rfl

/-- the double write is a single append when it starts at the end of the file -/
theorem pwrite_end (file b : List UInt8) : pwrite file file.length b = file ++ b := by
  unfold pwrite
  simp [List.drop_eq_nil_of_le]

theorem writeData_end (file : List UInt8) (w : Writable) :
    writeData file file.length w = file ++ w.bytes := by
  cases w with
  | single b => simp [writeData, Writable.bytes, pwrite_end]
  | double b1 b2 =>
    simp only [writeData, Writable.bytes, pwrite_end]
    have : file.length + b1.length = (file ++ b1).length := by simp
    rw [this, pwrite_end]; simp

/-! ### header parsing -/

theorem takeN_append {a r : List UInt8} {n : Nat} (h : a.length = n) : takeN n (a ++ r) = some (a, r) := by
  unfold takeN
  rw [if_neg (by simp; omega), List.take_left' h, List.drop_left' h]

theorem takeN_cons_one (b : UInt8) (r : List UInt8) : takeN 1 (b :: r) = some ([b], r) := by
  simp [takeN]

theorem deserVec_serVec (v r : List UInt8) (h : v.length < 2 ^ 64) :
    deserVec (serVec v ++ r) = some (v, r) := by
  unfold deserVec serVec
  rw [List.append_assoc, takeN_append (le64_length _)]
  simp only [fromLe_le64 h]
  exact takeN_append rfl

theorem deserHeader_serHeader (h : RecHeader) (rest : List UInt8) (hr : h.InRange) :
    deserHeader (serHeader h ++ rest) = some h := by
  obtain ⟨h1, h2, h3, h4, h5, h6⟩ := hr
  unfold deserHeader serHeader serHeaderPre
  simp only [List.append_assoc]
  rw [takeN_append (le64_length _)]
  simp only
  rw [deserVec_serVec _ _ h2]
  simp only
  rw [takeN_append (le64_length _)]
  simp only
  rw [takeN_append (le64_length _)]
  simp only [List.singleton_append, takeN_cons_one]
  rw [takeN_append (le64_length _)]
  simp only
  rw [takeN_append (le64_length _)]
  simp only
  rw [takeN_append (le32_length _)]
  simp only
  rw [takeN_append (le32_length _)]
  simp only [fromLe_le64 h1, fromLe_le64 h3, fromLe_le64 h4, fromLe_le64 h5, fromLe_le64 h6,
    ofNat_fromLe_le32, ofNat_fromLe_singleton]

theorem parseHeader_serHeader (klen : Nat) (h : RecHeader) (rest : List UInt8) (hk : h.key.length = klen)
    (hr : h.InRange) : parseHeader klen (serHeader h ++ rest) = some h := by
  unfold parseHeader headerSize
  have hl : (serHeader h).length = 57 + klen := by rw [serHeader_length, hk]
  rw [if_neg (by simp only [List.length_append]; omega), List.take_left' hl]
  simpa using deserHeader_serHeader h [] hr

theorem parseBlobHeader_ser (b : BlobHeader) (rest : List UInt8) (hr : b.InRange) :
    parseBlobHeader (serBlobHeader b ++ rest) = some b := by
  obtain ⟨h1, h2, h3⟩ := hr
  unfold parseBlobHeader serBlobHeader
  simp only [List.append_assoc]
  rw [takeN_append (le64_length _)]
  simp only
  rw [takeN_append (le32_length _)]
  simp only
  rw [takeN_append (le64_length _)]
  simp only [fromLe_le64 h1, fromLe_le32 h2, fromLe_le64 h3]

/-! ### read path -/

theorem dataChecksumAudit_ok {h : RecHeader} {d : List UInt8} :
    dataChecksumAudit h d = .ok () ↔ crc32c d = h.dataChecksum := by
  unfold dataChecksumAudit
  split <;> simp [*]

theorem headerValidate_ok {h : RecHeader} :
    headerValidate h = .ok () ↔ h.magicByte = RECORD_MAGIC_BYTE ∧ headerCrc h = h.headerChecksum := by
  unfold headerValidate
  split
  · simp [*]
  · split <;> simp_all

/-- everything a successful `Entry::load` has checked -/
theorem entryLoad_ok {file : List UInt8} {h : RecHeader} {m d : List UInt8}
    (hh : entryLoad file h = .ok (m, d)) :
    m = (file.drop h.metaOffset).take h.metaSize ∧ m.length = h.metaSize ∧
    d = (file.drop h.dataOffset).take h.dataSize ∧ d.length = h.dataSize ∧
    (deserMeta m).isSome ∧ headerValidate h = .ok () ∧ crc32c d = h.dataChecksum := by
  unfold entryLoad at hh
  split at hh
  · cases hh
  · next buf hb =>
    obtain ⟨hb1, hb2⟩ := readExactAt_eq_some hb
    simp only at hh
    split at hh
    · cases hh
    · next es hm =>
      split at hh
      · cases hh
      · next hv =>
        split at hh
        · cases hh
        · next ha =>
          simp only [Except.ok.injEq, Prod.mk.injEq] at hh
          obtain ⟨rfl, rfl⟩ := hh
          have hv' : headerValidate h = .ok () := hv
          have ha' := dataChecksumAudit_ok.mp ha
          refine ⟨?_, ?_, ?_, ?_, ?_, hv', ha'⟩
          · rw [hb1, List.take_take]; congr 1; omega
          · rw [List.length_take, hb2]; omega
          · rw [hb1, List.drop_take, List.drop_drop, RecHeader.dataOffset]; congr 1; omega
          · rw [List.length_drop, hb2]; omega
          · rw [hm]; rfl

theorem loadData_ok {file : List UInt8} {h : RecHeader} {d : List UInt8}
    (hh : loadData file h = .ok d) :
    d = (file.drop h.dataOffset).take h.dataSize ∧ d.length = h.dataSize ∧ crc32c d = h.dataChecksum := by
  unfold loadData at hh
  split at hh
  · cases hh
  · next buf hb =>
    obtain ⟨hb1, hb2⟩ := readExactAt_eq_some hb
    split at hh
    · cases hh
    · next ha =>
      simp only [Except.ok.injEq] at hh
      subst hh
      exact ⟨hb1, hb2, dataChecksumAudit_ok.mp ha⟩

/-- a slice that contains the window `w` of `p ++ w ++ s` -/
theorem slice_window (p w s : List UInt8) (o n : Nat) (h1 : o ≤ p.length)
    (h2 : p.length + w.length ≤ o + n) :
    ((p ++ w ++ s).drop o).take n = p.drop o ++ w ++ s.take (o + n - p.length - w.length) := by
  rw [List.append_assoc, List.drop_append, show o - p.length = 0 by omega, List.drop_zero,
    List.take_append, List.take_of_length_le (by simp; omega), List.take_append,
    List.take_of_length_le (by simp; omega), List.length_drop, List.append_assoc]
  congr 3
  omega

/-- a change confined to a window of at most 4 bytes inside a slice changes the checksum of the slice -/
theorem crc32c_slice_window (p w1 w2 s : List UInt8) (o n : Nat) (hl : w1.length = w2.length)
    (h4 : w1.length ≤ 4) (hne : w1 ≠ w2) (h1 : o ≤ p.length) (h2 : p.length + w1.length ≤ o + n) :
    crc32c (((p ++ w1 ++ s).drop o).take n) ≠ crc32c (((p ++ w2 ++ s).drop o).take n) := by
  rw [slice_window p w1 s o n h1 h2, slice_window p w2 s o n h1 (by omega), ← hl]
  exact crc32c_window_split _ _ _ _ hl h4 hne

/-- if the checksum stored in the header is the checksum of the data region of `p ++ w1 ++ s`, a change
    inside a window of at most 4 bytes of that region makes `Entry::load` fail -/
theorem entryLoad_altered (p w1 w2 s : List UInt8) (h : RecHeader) (hl : w1.length = w2.length)
    (h4 : w1.length ≤ 4) (hne : w1 ≠ w2) (hin1 : h.dataOffset ≤ p.length)
    (hin2 : p.length + w1.length ≤ h.dataOffset + h.dataSize)
    (hcrc : crc32c (((p ++ w1 ++ s).drop h.dataOffset).take h.dataSize) = h.dataChecksum) :
    ∃ e, entryLoad (p ++ w2 ++ s) h = .error e := by
  cases hres : entryLoad (p ++ w2 ++ s) h with
  | error e => exact ⟨e, rfl⟩
  | ok md =>
    obtain ⟨m, d⟩ := md
    obtain ⟨_, _, hd, _, _, _, hc⟩ := entryLoad_ok hres
    rw [hd, ← hcrc] at hc
    exact absurd hc.symm (crc32c_slice_window p w1 w2 s _ _ hl h4 hne hin1 hin2)

theorem loadData_altered (p w1 w2 s : List UInt8) (h : RecHeader) (hl : w1.length = w2.length)
    (h4 : w1.length ≤ 4) (hne : w1 ≠ w2) (hin1 : h.dataOffset ≤ p.length)
    (hin2 : p.length + w1.length ≤ h.dataOffset + h.dataSize)
    (hcrc : crc32c (((p ++ w1 ++ s).drop h.dataOffset).take h.dataSize) = h.dataChecksum) :
    ∃ e, loadData (p ++ w2 ++ s) h = .error e := by
  cases hres : loadData (p ++ w2 ++ s) h with
  | error e => exact ⟨e, rfl⟩
  | ok d =>
    obtain ⟨hd, _, hc⟩ := loadData_ok hres
    rw [hd, ← hcrc] at hc
    exact absurd hc.symm (crc32c_slice_window p w1 w2 s _ _ hl h4 hne hin1 hin2)

/-! ### scan -/

theorem rawStart_ok {klen : Nat} {file : List UInt8} {hsz : Nat} (h : rawStart klen file = .ok hsz) :
    hsz = 57 + klen := by
  unfold rawStart at h
  split at h
  · cases h
  · simp only at h
    split at h
    · cases h
    · split at h
      · cases h
      · next hk =>
        simp only [Except.ok.injEq] at h
        have hk' := Decidable.not_not.mp hk
        omega

/-- what the scan has checked for a header read at `pos` -/
def ScanChecked (validateData : Bool) (file : List UInt8) (hsz : Nat) (pos : Nat) (h : RecHeader) : Prop :=
  (∃ buf, readExactAt file hsz pos = some buf ∧ deserHeader buf = some h) ∧
  headerValidate h = .ok () ∧
  (validateData = true → ∃ d, readExactAt file h.dataSize (pos + hsz + h.metaSize) = some d ∧
    crc32c d = h.dataChecksum)

theorem readCurrentRecord_ok {v : Bool} {file : List UInt8} {hsz off : Nat} {h : RecHeader}
    {data : Option (List UInt8)} {off' : Nat}
    (hh : readCurrentRecord v file hsz off = .ok (h, data, off')) :
    (∃ buf, readExactAt file hsz off = some buf ∧ deserHeader buf = some h) ∧
    headerValidate h = .ok () ∧ off' = off + hsz + h.metaSize + h.dataSize ∧
    (v = true → ∃ d, data = some d ∧ readExactAt file h.dataSize (off + hsz + h.metaSize) = some d) ∧
    (v = false → data = none) := by
  unfold readCurrentRecord at hh
  split at hh
  · cases hh
  · next buf hb =>
    split at hh
    · cases hh
    · next h0 hd =>
      split at hh
      · cases hh
      · next hv =>
        simp only at hh
        cases v with
        | true =>
          simp only [↓reduceIte] at hh
          split at hh
          · cases hh
          · next d hrd =>
            simp only [Except.ok.injEq, Prod.mk.injEq] at hh
            obtain ⟨rfl, rfl, rfl⟩ := hh
            exact ⟨⟨buf, hb, hd⟩, hv, rfl, fun _ => ⟨d, rfl, hrd⟩, fun c => by cases c⟩
        | false =>
          simp only [Bool.false_eq_true, ↓reduceIte, Except.ok.injEq, Prod.mk.injEq] at hh
          obtain ⟨rfl, rfl, rfl⟩ := hh
          exact ⟨⟨buf, hb, hd⟩, hv, rfl, (fun c => by cases c), fun _ => rfl⟩

theorem rawLoop_checked (v : Bool) (file : List UInt8) (hsz : Nat) (fuel off : Nat)
    (hs : List (Nat × RecHeader)) (hh : rawLoop v file hsz fuel off = .ok hs) :
    ∀ x ∈ hs, ScanChecked v file hsz x.1 x.2 := by
  induction fuel generalizing off hs with
  | zero =>
    unfold rawLoop at hh
    split at hh
    · cases hh
    · cases hh; simp
  | succ fuel ih =>
    unfold rawLoop at hh
    split at hh
    · split at hh
      · cases hh
      · next h data off' hrc =>
        obtain ⟨hbuf, hv, _, hd1, hd2⟩ := readCurrentRecord_ok hrc
        split at hh
        · cases hh
        · next haud =>
          split at hh
          · cases hh
          · next rest hrest =>
            cases hh
            intro x hx
            rcases List.mem_cons.mp hx with rfl | hx
            · refine ⟨hbuf, hv, fun hvt => ?_⟩
              obtain ⟨d, rfl, hrd⟩ := hd1 hvt
              exact ⟨d, hrd, dataChecksumAudit_ok.mp haud⟩
            · exact ih _ _ hrest x hx
    · cases hh; simp

theorem readCurrentRecord_ne_fuel (v : Bool) (file : List UInt8) (hsz off : Nat) :
    readCurrentRecord v file hsz off ≠ .error .fuel := by
  unfold readCurrentRecord
  split
  · simp
  · split
    · simp
    · split
      · simp
      · simp only
        split
        · split <;> simp
        · simp

/-- the loop bound of the model is never hit -/
theorem rawLoop_ne_fuel (v : Bool) (file : List UInt8) (hsz : Nat) (hpos : 0 < hsz) (fuel off : Nat)
    (hf : file.length ≤ off + fuel) : rawLoop v file hsz fuel off ≠ .error .fuel := by
  induction fuel generalizing off with
  | zero =>
    unfold rawLoop
    rw [if_neg (by omega)]
    intro h; cases h
  | succ fuel ih =>
    unfold rawLoop
    split
    · split
      · next e he =>
        intro h
        cases h
        exact readCurrentRecord_ne_fuel _ _ _ _ he
      · next h data off' hrc =>
        obtain ⟨_, _, hoff', _, _⟩ := readCurrentRecord_ok hrc
        split
        · intro h; cases h
        · split
          · next e he =>
            intro h
            cases h
            exact ih off' (by omega) he
          · intro h; cases h
    · intro h; cases h

theorem rawRecordsScan_ne_fuel (klen : Nat) (v : Bool) (file : List UInt8) :
    rawRecordsScan klen v file ≠ .error .fuel := by
  unfold rawRecordsScan
  split
  · next e he =>
    intro h
    cases h
    unfold rawStart at he
    split at he
    · cases he
    · simp only at he
      split at he
      · cases he
      · split at he <;> cases he
  · next hsz hst =>
    have : 0 < hsz := by
      unfold rawStart at hst
      split at hst
      · cases hst
      · simp only at hst
        split at hst
        · cases hst
        · split at hst
          · cases hst
          · simp only [Except.ok.injEq] at hst
            omega
    exact rawLoop_ne_fuel v file hsz this _ _ (by omega)

/-! ### the validating scan rejects an altered data region -/

theorem readExactAt_of_prefix (p a b : List UInt8) (size off : Nat) (h : off + size ≤ p.length) :
    readExactAt (p ++ a) size off = readExactAt (p ++ b) size off := by
  have : ∀ c : List UInt8, ((p ++ c).drop off).take size = (p.drop off).take size := by
    intro c
    rw [List.drop_append, List.take_append, List.length_drop, show size - (p.length - off) = 0 by omega]
    simp
  unfold readExactAt
  simp only [this]

theorem rawLoop_pos_ge (v : Bool) (file : List UInt8) (hsz : Nat) (fuel off : Nat)
    (hs : List (Nat × RecHeader)) (hh : rawLoop v file hsz fuel off = .ok hs) :
    ∀ x ∈ hs, off ≤ x.1 := by
  induction fuel generalizing off hs with
  | zero =>
    unfold rawLoop at hh
    split at hh
    · cases hh
    · cases hh; simp
  | succ fuel ih =>
    unfold rawLoop at hh
    split at hh
    · split at hh
      · cases hh
      · next h data off' hrc =>
        obtain ⟨_, _, hoff', _, _⟩ := readCurrentRecord_ok hrc
        split at hh
        · cases hh
        · split at hh
          · cases hh
          · next rest hrest =>
            cases hh
            intro x hx
            rcases List.mem_cons.mp hx with rfl | hx
            · exact Nat.le_refl _
            · have := ih _ _ hrest x hx
              omega
    · cases hh; simp

/-- a record that lies entirely before the window is read identically from both files -/
theorem readCurrentRecord_before (p a b : List UInt8) (hsz off : Nat) (h : RecHeader)
    (data : Option (List UInt8)) (off' : Nat)
    (hrc : readCurrentRecord true (p ++ a) hsz off = .ok (h, data, off')) (hle : off' ≤ p.length) :
    readCurrentRecord true (p ++ b) hsz off = .ok (h, data, off') := by
  obtain ⟨⟨buf, hb, hd⟩, hv, hoff', hd1, _⟩ := readCurrentRecord_ok hrc
  obtain ⟨d, rfl, hrd⟩ := hd1 rfl
  rw [readExactAt_of_prefix p a b _ _ (by omega)] at hb hrd
  unfold readCurrentRecord
  simp only [hb, hd, hv, ↓reduceIte, hrd, hoff']

theorem rawLoop_altered (hsz : Nat) (p w1 w2 s : List UInt8) (hl : w1.length = w2.length)
    (h4 : w1.length ≤ 4) (hne : w1 ≠ w2) (fuel off : Nat) (hs : List (Nat × RecHeader))
    (hok : rawLoop true (p ++ (w1 ++ s)) hsz fuel off = .ok hs) (x : Nat × RecHeader) (hx : x ∈ hs)
    (hin1 : x.1 + hsz + x.2.metaSize ≤ p.length)
    (hin2 : p.length + w1.length ≤ x.1 + hsz + x.2.metaSize + x.2.dataSize) :
    ∃ e, rawLoop true (p ++ (w2 ++ s)) hsz fuel off = .error e := by
  have hlen : (p ++ (w2 ++ s)).length = (p ++ (w1 ++ s)).length := by simp [hl]
  induction fuel generalizing off hs with
  | zero =>
    unfold rawLoop at hok
    split at hok
    · cases hok
    · cases hok; simp at hx
  | succ fuel ih =>
    unfold rawLoop at hok
    split at hok
    · next hlt =>
      split at hok
      · cases hok
      · next h data off' hrc =>
        obtain ⟨⟨buf, hb, hd⟩, hv, hoff', hd1, _⟩ := readCurrentRecord_ok hrc
        obtain ⟨d, rfl, hrd⟩ := hd1 rfl
        split at hok
        · cases hok
        · next haud =>
          have hcrc := dataChecksumAudit_ok.mp haud
          split at hok
          · cases hok
          · next rest hrest =>
            cases hok
            unfold rawLoop
            rw [if_pos (by rw [hlen]; exact hlt)]
            rcases List.mem_cons.mp hx with rfl | hx'
            · -- the altered record: same header, different data
              simp only at hin1 hin2
              rw [readExactAt_of_prefix p (w1 ++ s) (w2 ++ s) _ _ (by omega)] at hb
              have hrd' : readExactAt (p ++ (w2 ++ s)) h.dataSize (off + hsz + h.metaSize) =
                  some (((p ++ (w2 ++ s)).drop (off + hsz + h.metaSize)).take h.dataSize) := by
                rw [readExactAt_some_iff]
                refine ⟨rfl, ?_⟩
                have := (readExactAt_eq_some hrd).2
                rw [(readExactAt_eq_some hrd).1] at this
                simp only [List.length_take, List.length_drop] at this ⊢
                rw [hlen]; exact this
              have hrc' : readCurrentRecord true (p ++ (w2 ++ s)) hsz off =
                  .ok (h, some (((p ++ (w2 ++ s)).drop (off + hsz + h.metaSize)).take h.dataSize), off') := by
                unfold readCurrentRecord
                simp only [hb, hd, hv, ↓reduceIte, hrd', hoff']
              rw [hrc']
              have hbad : dataChecksumAudit h
                  (((p ++ (w2 ++ s)).drop (off + hsz + h.metaSize)).take h.dataSize) =
                  .error .recordDataChecksum := by
                unfold dataChecksumAudit
                rw [if_neg]
                rw [← hcrc, (readExactAt_eq_some hrd).1, ← List.append_assoc, ← List.append_assoc]
                exact (crc32c_slice_window p w1 w2 s _ _ hl h4 hne hin1 hin2).symm
              simp only [hbad]
              exact ⟨_, rfl⟩
            · -- a later record: this one is read identically, the rest fails by induction
              have hge := rawLoop_pos_ge _ _ _ _ _ _ hrest x hx'
              rw [readCurrentRecord_before p (w1 ++ s) (w2 ++ s) hsz off h _ off' hrc (by omega)]
              simp only [haud]
              obtain ⟨e, he⟩ := ih off' rest hrest hx'
              rw [he]
              exact ⟨_, rfl⟩
    · cases hok; simp at hx

theorem rawRecordsScan_altered (klen : Nat) (p w1 w2 s : List UInt8) (hl : w1.length = w2.length)
    (h4 : w1.length ≤ 4) (hne : w1 ≠ w2) (hs : List (Nat × RecHeader))
    (hok : rawRecordsScan klen true (p ++ w1 ++ s) = .ok hs) (x : Nat × RecHeader) (hx : x ∈ hs)
    (hin1 : x.1 + headerSize klen + x.2.metaSize ≤ p.length)
    (hin2 : p.length + w1.length ≤ x.1 + headerSize klen + x.2.metaSize + x.2.dataSize) :
    ∃ e, rawRecordsScan klen true (p ++ w2 ++ s) = .error e := by
  rw [List.append_assoc] at hok ⊢
  have hlen : (p ++ (w2 ++ s)).length = (p ++ (w1 ++ s)).length := by simp [hl]
  unfold rawRecordsScan at hok
  split at hok
  · cases hok
  · next hsz hst =>
    have hhsz := rawStart_ok hst
    subst hhsz
    have hge := rawLoop_pos_ge _ _ _ _ _ _ hok x hx
    unfold headerSize at hin1 hin2
    have hst' : rawStart klen (p ++ (w2 ++ s)) = .ok (57 + klen) := by
      rw [← hst]
      unfold rawStart
      rw [readExactAt_of_prefix p (w2 ++ s) (w1 ++ s) _ _ (by unfold blobHeaderSize at *; omega)]
    unfold rawRecordsScan
    rw [hst', hlen]
    exact rawLoop_altered _ p w1 w2 s hl h4 hne _ _ hs hok x hx hin1 hin2

end Pearl
