import Pearl.Proofs.FaultLemmas
/-
Region-by-region description of the blob file a run of (possibly failing) write steps leaves behind, and of
the start-up scan over it (C05 torn tail, C11 items 1 and 2).

Part A: a torn tail stated with the cut as a proper prefix of `serMeta ++ data` (C05).
Part B: `fileBody` (the file after the blob header, region by region), `scanRegions` (what the scan
returns on it), and the theorems tying them to `run` / `rawLoop` / `openBlob` (C11).
-/
namespace Pearl

/-! ## Part A: torn tail, prefix form -/

/-- a header followed by a prefix of `meta ++ data` is a prefix of the image -/
theorem take_image_of_prefix {klen : Nat} (R : Record) (hwf : R.WF klen) (off : Nat) (cut : List UInt8)
    (hp : cut <+: serMeta R.mt ++ R.data) :
    (R.image off).take (57 + klen + cut.length) = serHeader (R.header.final off) ++ cut := by
  obtain ⟨t, ht⟩ := hp
  have hkl : (R.header.final off).key.length = klen := hwf.key
  rw [image_eq, ← ht, List.take_append, serHeader_length, hkl,
    List.take_of_length_le (by rw [serHeader_length, hkl]; omega),
    show 57 + klen + cut.length - (57 + klen) = cut.length by omega, List.take_left' rfl]

theorem prefix_length_lt {α} {a b : List α} (hp : a <+: b) (hne : a ≠ b) : a.length < b.length := by
  obtain ⟨t, ht⟩ := hp
  cases t with
  | nil => rw [List.append_nil] at ht; exact absurd ht hne
  | cons x t => rw [← ht]; simp

/-- general torn tail (finding E8 at the byte level): a blob whose last record has its complete header
    but only a proper prefix `cut` of its meta + data -/
theorem rawRecordsLoad_torn_prefix {klen : Nat} (v : Bool) (Rs : List Record) (R : Record)
    (cut : List UInt8) (hg : GoodRecs klen (Rs ++ [R]))
    (hlen : (appendRecords serBlobHeader (Rs ++ [R])).length < 2 ^ 64)
    (hp : cut <+: serMeta R.mt ++ R.data) (hne : cut ≠ serMeta R.mt ++ R.data) :
    rawRecordsLoad klen v (appendRecords serBlobHeader Rs ++
        serHeader (R.header.final (appendRecords serBlobHeader Rs).length) ++ cut) =
      if v = true ∧ R.data ≠ [] then .error (.load .bincode)
      else .ok (writtenHeaders serBlobHeader (Rs ++ [R])) := by
  have hwf := (hg R (by simp)).1
  have hlt := prefix_length_lt hp hne
  rw [List.length_append] at hlt
  have hrl : Fault.recLen R = 57 + klen + (serMeta R.mt).length + R.data.length := by
    unfold Fault.recLen; rw [hwf.key]
  have hlen' : 20 + (tailOf 20 Rs).length + Fault.recLen R < 2 ^ 64 := by
    rw [Fault.appendRecords_length, serBlobHeader_length, Fault.tailOf_snoc, List.length_append,
      Fault.image_length_recLen] at hlen
    omega
  have h := Fault.rawRecordsLoad_torn_tail v Rs R (57 + klen + cut.length) hg hlen' (by omega)
    (by rw [hrl]; omega)
  rw [take_image_of_prefix R hwf _ cut hp] at h
  rw [Fault.appendRecords_length, serBlobHeader_length, appendRecords_eq, serBlobHeader_length]
  simp only [List.append_assoc] at h ⊢
  exact h

end Pearl


namespace Pearl.Fault
open Pearl

/-! ## Part B: the file after a run of write steps, region by region -/

/-- total reservation of a list of steps (what they add to `FileInner::size`) -/
def regionsLen : List (Record × Outcome) → Nat
  | [] => 0
  | (r, _) :: rest => recLen r + regionsLen rest

theorem regionsLen_append (a b : List (Record × Outcome)) :
    regionsLen (a ++ b) = regionsLen a + regionsLen b := by
  induction a with
  | nil => simp [regionsLen]
  | cons x a ih => obtain ⟨r, o⟩ := x; simp only [List.cons_append, regionsLen, ih]; omega

theorem run_size (maxSP : Nat) (st : BlobSt) (steps : List (Record × Outcome)) :
    (run maxSP st steps).file.size = st.file.size + regionsLen steps := by
  induction steps generalizing st with
  | nil => rfl
  | cons x rest ih =>
    obtain ⟨r, o⟩ := x
    rw [run_cons, ih, writeStep_size]; simp only [regionsLen]; omega

/-- The content of the file from offset `off` on, when the steps are given the reservations
    `off, off + recLen r₁, …`: every step owns the region of `recLen r` bytes it reserved; the region holds
    the first `cut` bytes of the record image; it is zero-filled up to its end IF a later step wrote
    something (a positional write beyond the end of the file fills the hole with zeros), otherwise the file
    ends right after the last byte written. -/
def fileBody (maxSP : Nat) : Nat → List (Record × Outcome) → List UInt8
  | _, [] => []
  | off, (r, o) :: rest =>
    if fileBody maxSP (off + recLen r) rest = [] then (r.image off).take (cut maxSP r o)
    else (r.image off).take (cut maxSP r o) ++ List.replicate (recLen r - cut maxSP r o) 0 ++
      fileBody maxSP (off + recLen r) rest

theorem fileBody_cons (maxSP off : Nat) (r : Record) (o : Outcome) (rest : List (Record × Outcome)) :
    fileBody maxSP off ((r, o) :: rest) =
      if fileBody maxSP (off + recLen r) rest = [] then (r.image off).take (cut maxSP r o)
      else (r.image off).take (cut maxSP r o) ++ List.replicate (recLen r - cut maxSP r o) 0 ++
        fileBody maxSP (off + recLen r) rest := rfl

theorem take_image_ne_nil (r : Record) (off c : Nat) (hc : c ≠ 0) : (r.image off).take c ≠ [] := by
  intro h
  have := congrArg List.length h
  have hp := recLen_pos r
  simp only [List.length_take, image_length_recLen, List.length_nil] at this
  omega

theorem take_image_length (r : Record) (off c : Nat) :
    ((r.image off).take c).length = min c (recLen r) := by
  rw [List.length_take, image_length_recLen]

/-- nothing is left in the file from `off` on iff no step wrote anything -/
theorem fileBody_eq_nil_iff (maxSP off : Nat) (steps : List (Record × Outcome)) :
    fileBody maxSP off steps = [] ↔ ∀ s ∈ steps, cut maxSP s.1 s.2 = 0 := by
  induction steps generalizing off with
  | nil => simp [fileBody]
  | cons x rest ih =>
    obtain ⟨r, o⟩ := x
    simp only [fileBody, List.mem_cons, forall_eq_or_imp]
    by_cases htl : fileBody maxSP (off + recLen r) rest = []
    · rw [if_pos htl]
      constructor
      · intro h
        refine ⟨?_, (ih _).mp htl⟩
        apply Classical.byContradiction
        intro hc
        exact take_image_ne_nil r off _ hc h
      · intro h; rw [h.1, List.take_zero]
    · rw [if_neg htl]
      constructor
      · intro h
        exact absurd (List.append_eq_nil_iff.mp h).2 htl
      · intro h; exact absurd ((ih _).mpr h.2) htl

/-- the file after a run, in terms of `fileBody`: unchanged if nothing was written, otherwise the old
    content, the zero-filled hole up to the old reservation counter, and the regions -/
theorem run_fileBody (maxSP : Nat) (st : BlobSt) (steps : List (Record × Outcome))
    (h : st.file.bytes.length ≤ st.file.size) :
    (run maxSP st steps).file.bytes =
      if fileBody maxSP st.file.size steps = [] then st.file.bytes
      else st.file.bytes ++ List.replicate (st.file.size - st.file.bytes.length) 0 ++
        fileBody maxSP st.file.size steps := by
  induction steps generalizing st with
  | nil => simp [fileBody, run]
  | cons x rest ih =>
    obtain ⟨r, o⟩ := x
    have hle := writeStep_le maxSP st r o h
    have hsz := writeStep_size maxSP st r o
    have hb := writeStep_bytes maxSP st r o h
    rw [run_cons, ih _ hle, hsz]
    by_cases htl : fileBody maxSP (st.file.size + recLen r) rest = []
    · have hfb : fileBody maxSP st.file.size ((r, o) :: rest) =
          (r.image st.file.size).take (cut maxSP r o) := by rw [fileBody_cons, if_pos htl]
      rw [if_pos htl, hb]
      by_cases hc : cut maxSP r o = 0
      · have h0 : fileBody maxSP st.file.size ((r, o) :: rest) = [] := by
          rw [hfb, hc, List.take_zero]
        rw [if_pos hc, if_pos h0]
      · rw [if_neg hc, if_neg (by rw [hfb]; exact take_image_ne_nil r _ _ hc), hfb]
    · have hfb : fileBody maxSP st.file.size ((r, o) :: rest) =
          (r.image st.file.size).take (cut maxSP r o) ++ List.replicate (recLen r - cut maxSP r o) 0 ++
            fileBody maxSP (st.file.size + recLen r) rest := by rw [fileBody_cons, if_neg htl]
      rw [if_neg htl, if_neg (by
        rw [hfb]; intro h0; exact htl (List.append_eq_nil_iff.mp h0).2), hb, hfb]
      by_cases hc : cut maxSP r o = 0
      · rw [if_pos hc, hc, List.take_zero, List.nil_append, Nat.sub_zero]
        have : st.file.size + recLen r - st.file.bytes.length =
            (st.file.size - st.file.bytes.length) + recLen r := by omega
        rw [this, ← List.replicate_append_replicate]
        simp only [List.append_assoc]
      · rw [if_neg hc]
        have hl : (st.file.bytes ++ List.replicate (st.file.size - st.file.bytes.length) 0 ++
            (r.image st.file.size).take (cut maxSP r o)).length =
            st.file.size + min (cut maxSP r o) (recLen r) := by
          simp only [List.length_append, List.length_replicate, take_image_length]; omega
        rw [hl]
        have : st.file.size + recLen r - (st.file.size + min (cut maxSP r o) (recLen r)) =
            recLen r - cut maxSP r o := by omega
        rw [this]
        simp only [List.append_assoc]

/-- the file a restart finds after ANY sequence of steps on a new blob -/
theorem fresh_run_fileBody (maxSP : Nat) (steps : List (Record × Outcome)) :
    (run maxSP fresh steps).file.bytes = serBlobHeader ++ fileBody maxSP 20 steps := by
  rw [run_fileBody maxSP fresh steps (Nat.le_of_eq fresh_le)]
  show (if fileBody maxSP 20 steps = [] then serBlobHeader
    else serBlobHeader ++ List.replicate (20 - (serBlobHeader).length) 0 ++ fileBody maxSP 20 steps) = _
  split
  · next h => rw [h, List.append_nil]
  · rw [serBlobHeader_length]; simp

/-! ### what the scan reads in one region -/

/-- the bytes the scan reads as a header at a region of which only `c` bytes (less than a header) were
    written and which was zero-filled by a later write -/
def paddedHdr (klen : Nat) (r : Record) (off c : Nat) : List UInt8 :=
  (r.image off).take c ++ List.replicate (57 + klen - c) 0

/-- no zero-padding accident: the zero-padded header prefix does not parse to a header that passes
    `Header::validate` -/
def PadBad (klen : Nat) (r : Record) (off c : Nat) : Prop :=
  ∀ h, deserHeader (paddedHdr klen r off c) = some h → headerValidate h ≠ .ok ()

instance (klen : Nat) (r : Record) (off c : Nat) : Decidable (PadBad klen r off c) :=
  match hd : deserHeader (paddedHdr klen r off c) with
  | none => isTrue (by intro h hh; rw [hd] at hh; cases hh)
  | some x =>
    if hv : headerValidate x = .ok () then isFalse (fun hb => hb x hd hv)
    else isTrue (by intro h hh; rw [hd] at hh; cases hh; exact hv)

/-- the error the scan stops with at such a region -/
def stopErr (klen : Nat) (r : Record) (off c : Nat) : LoadErr :=
  match deserHeader (paddedHdr klen r off c) with
  | none => .bincode
  | some h =>
    match headerValidate h with
    | .error e => e
    | .ok _ => .bincode

theorem headerValidate_magic0 (h : RecHeader) (hm : h.magicByte = 0) :
    headerValidate h = .error .recordMagicByte := by
  unfold headerValidate
  rw [if_pos (by rw [hm]; decide)]

/-- a region in which nothing was written (a hole): the header is all zeros, `RecordMagicByte` -/
theorem stop_hole (klen : Nat) (r : Record) (off : Nat) :
    PadBad klen r off 0 ∧ stopErr klen r off 0 = .recordMagicByte := by
  obtain ⟨hd, hp, hm⟩ := deserHeader_zeros (57 + klen) (by omega)
  have hpd : paddedHdr klen r off 0 = List.replicate (57 + klen) 0 := by
    simp [paddedHdr]
  constructor
  · intro h hh
    rw [hpd, hp] at hh
    cases hh
    rw [headerValidate_magic0 _ hm]
    intro h'; cases h'
  · unfold stopErr
    rw [hpd, hp]
    simp only [headerValidate_magic0 _ hm]

theorem stop_padded (v : Bool) (klen : Nat) (P rest : List UInt8) (r : Record) (off c : Nat)
    (hoff : P.length = off) (hc : c ≤ 57 + klen) (hcl : c ≤ recLen r) (hbad : PadBad klen r off c) :
    readCurrentRecord v (P ++ (paddedHdr klen r off c ++ rest)) (57 + klen) off =
      .error (.load (stopErr klen r off c)) := by
  have hl : (paddedHdr klen r off c).length = 57 + klen := by
    unfold paddedHdr
    simp only [List.length_append, take_image_length, List.length_replicate]; omega
  unfold readCurrentRecord stopErr
  rw [readExactAt_append hoff hl]
  cases hd : deserHeader (paddedHdr klen r off c) with
  | none => simp only [hd]
  | some h =>
    cases hv : headerValidate h with
    | error e => simp only [hd, hv]
    | ok u => exact absurd hv (hbad h hd)

/-- the data bytes the validating scan reads for a record of which `c` bytes were written and whose
    region was zero-filled -/
def paddedData (r : Record) (c : Nat) : List UInt8 :=
  r.data.take (c - headLen r) ++ List.replicate (r.data.length - (c - headLen r)) 0

theorem paddedData_length (r : Record) (c : Nat) : (paddedData r c).length = r.data.length := by
  unfold paddedData
  simp only [List.length_append, List.length_take, List.length_replicate]; omega

theorem paddedData_full (r : Record) (c : Nat) (h : recLen r ≤ c) : paddedData r c = r.data := by
  have : r.data.length ≤ c - headLen r := by unfold recLen at h; unfold headLen; omega
  unfold paddedData
  rw [List.take_of_length_le this, show r.data.length - (c - headLen r) = 0 by omega]
  simp

theorem paddedData_nil (r : Record) (c : Nat) (h : r.data = []) : paddedData r c = [] := by
  unfold paddedData; rw [h]; simp

/-- the zero-filled region of a record -/
def paddedImage (r : Record) (off c : Nat) : List UInt8 :=
  (r.image off).take c ++ List.replicate (recLen r - c) 0

theorem paddedImage_length (r : Record) (off c : Nat) : (paddedImage r off c).length = recLen r := by
  unfold paddedImage
  simp only [List.length_append, take_image_length, List.length_replicate]; omega

theorem headMeta_length (r : Record) (off : Nat) :
    (serHeader (r.header.final off) ++ serMeta r.mt).length = headLen r := by
  rw [List.length_append, serHeader_length]; rfl

theorem paddedImage_drop (r : Record) (off c : Nat) :
    (paddedImage r off c).drop (headLen r) = paddedData r c := by
  have hrl : recLen r = headLen r + r.data.length := rfl
  have him : r.image off = (serHeader (r.header.final off) ++ serMeta r.mt) ++ r.data := by
    rw [image_eq, List.append_assoc]
  have hhm := headMeta_length r off
  generalize serHeader (r.header.final off) ++ serMeta r.mt = HM at him hhm
  unfold paddedImage paddedData
  rw [him]
  by_cases hc : c ≤ headLen r
  · rw [List.take_append_of_le_length (by omega), List.drop_append,
      List.drop_eq_nil_of_le (by rw [List.length_take]; omega), List.nil_append, List.length_take,
      List.drop_replicate, show c - headLen r = 0 by omega, List.take_zero, List.nil_append]
    congr 1; omega
  · rw [List.take_append, List.take_of_length_le (by omega), hhm, List.append_assoc, List.drop_left' hhm]
    congr 2; rw [hrl]; omega

theorem paddedImage_take_hdr {klen : Nat} (r : Record) (hwf : r.WF klen) (off c : Nat)
    (hc : 57 + klen ≤ c) :
    (paddedImage r off c).take (57 + klen) = serHeader (r.header.final off) := by
  have hkl : (r.header.final off).key.length = klen := hwf.key
  have hrl : recLen r = 57 + klen + (serMeta r.mt).length + r.data.length := by
    unfold recLen; rw [hwf.key]
  unfold paddedImage
  rw [List.take_append_of_le_length (by rw [take_image_length]; omega), List.take_take,
    Nat.min_eq_left hc, image_eq, List.take_left' (by rw [serHeader_length, hkl])]

theorem readExactAt_zero (f : List UInt8) (off : Nat) : readExactAt f 0 off = some [] := by
  unfold readExactAt; simp

/-- one step of the scan at a region whose header is complete (`57 + klen ≤ c`) and which is followed
    by its zero filling (empty if the record is complete): the header is accepted; with data validation
    the data bytes read are `paddedData` -/
theorem readCurrentRecord_padded {klen : Nat} (v : Bool) (P X : List UInt8) (r : Record)
    (hwf : r.WF klen) (off c : Nat) (hoff : P.length = off) (hr : (r.header.final off).InRange)
    (hc : 57 + klen ≤ c) :
    readCurrentRecord v (P ++ (paddedImage r off c ++ X)) (57 + klen) off =
      .ok (r.header.final off, if v then some (paddedData r c) else none, off + recLen r) := by
  have hms : (r.header.final off).metaSize = (serMeta r.mt).length := hwf.msize
  have hds : (r.header.final off).dataSize = r.data.length := hwf.dsize
  have hrl : recLen r = 57 + klen + (serMeta r.mt).length + r.data.length := by
    unfold recLen; rw [hwf.key]
  have hhl : headLen r = 57 + klen + (serMeta r.mt).length := by unfold headLen; rw [hwf.key]
  have hpl := paddedImage_length r off c
  have h1 : paddedImage r off c = serHeader (r.header.final off) ++ (paddedImage r off c).drop (57 + klen) := by
    conv => lhs; rw [← List.take_append_drop (57 + klen) (paddedImage r off c)]
    rw [paddedImage_take_hdr r hwf off c hc]
  have h2 : paddedImage r off c = (paddedImage r off c).take (headLen r) ++ paddedData r c := by
    conv => lhs; rw [← List.take_append_drop (headLen r) (paddedImage r off c)]
    rw [paddedImage_drop]
  have hhdr : readExactAt (P ++ (paddedImage r off c ++ X)) (57 + klen) off =
      some (serHeader (r.header.final off)) := by
    rw [h1, List.append_assoc]
    exact readExactAt_append hoff (by rw [serHeader_length]; exact congrArg (57 + ·) hwf.key)
  have hdata : readExactAt (P ++ (paddedImage r off c ++ X)) r.data.length
      (off + (57 + klen) + (serMeta r.mt).length) = some (paddedData r c) := by
    have : P ++ (paddedImage r off c ++ X) =
        (P ++ (paddedImage r off c).take (headLen r)) ++ (paddedData r c ++ X) := by
      conv => lhs; rw [h2]
      simp only [List.append_assoc]
    rw [this]
    exact readExactAt_append (by
      rw [List.length_append, List.length_take, hpl, hoff]; omega) (paddedData_length r c)
  have hd := deserHeader_serHeader (r.header.final off) [] hr
  rw [List.append_nil] at hd
  unfold readCurrentRecord
  rw [hhdr]
  simp only [hd, headerValidate_final _ _ hwf.magic, hms, hds]
  have hnext : off + (57 + klen) + (serMeta r.mt).length + r.data.length = off + recLen r := by omega
  cases v with
  | false => simp only [Bool.false_eq_true, ↓reduceIte, hnext]
  | true => simp only [↓reduceIte, hdata, hnext]

theorem rawLoop_end (v : Bool) (file : List UInt8) (hsz fuel off : Nat) (h : file.length ≤ off) :
    rawLoop v file hsz fuel off = .ok [] := by
  cases fuel <;> simp only [rawLoop, if_neg (Nat.not_lt.mpr h)]

/-! ### the scan, region by region -/

/-- with data validation, what stops the scan at a region whose header was accepted (`none` = nothing):
    if the region is complete or was zero-filled by a later write, the data bytes read are `paddedData`
    and must have the checksum of the real data; if the file ends inside the region, reading the data
    hits the end of the file (unless there is no data to read) -/
def dataStop (r : Record) (c : Nat) (more : Prop) [Decidable more] : Option LoadErr :=
  if recLen r ≤ c ∨ more then
    if crc32c (paddedData r c) = crc32c r.data then none else some .recordDataChecksum
  else if r.data = [] then none else some .bincode

/-- What the scan loop returns when it is started at the beginning of the region of the first step, on a
    file that continues with `fileBody maxSP off steps`:
    * nothing was written from here on: the file ends here, the scan is over;
    * less than a header was written in this region: the scan stops with an error — `Bincode` if the file
      ends inside the header, otherwise whatever the zero-padded header gives (`stopErr`;
      `RecordMagicByte` for a hole, see `stop_hole`);
    * at least the header was written: the header is accepted (E8), with data validation subject to
      `dataStop`, and the scan continues at the NEXT REGION `off + recLen r` -/
def scanRegions (klen maxSP : Nat) (v : Bool) :
    Nat → List (Record × Outcome) → Except ScanErr (List (Nat × RecHeader))
  | _, [] => .ok []
  | off, (r, o) :: rest =>
    if cut maxSP r o = 0 ∧ fileBody maxSP (off + recLen r) rest = [] then .ok []
    else if cut maxSP r o < 57 + klen then
      .error (.load (if fileBody maxSP (off + recLen r) rest = [] then .bincode
        else stopErr klen r off (cut maxSP r o)))
    else
      match (if v then dataStop r (cut maxSP r o) (fileBody maxSP (off + recLen r) rest ≠ []) else none) with
      | some e => .error (.load e)
      | none =>
        match scanRegions klen maxSP v (off + recLen r) rest with
        | .error e => .error e
        | .ok l => .ok ((off, r.header.final off) :: l)

/-- The only hypothesis about accidents: AT THE FIRST STEP THAT LEFT LESS THAN A HEADER (the scan never
    gets past it), if it left something and a later step wrote, the zero-padded header prefix must not
    validate. Steps before it (complete headers) and after it are unconstrained. -/
def NoAccident (klen maxSP : Nat) : Nat → List (Record × Outcome) → Prop
  | _, [] => True
  | off, (r, o) :: rest =>
    if cut maxSP r o < 57 + klen then
      0 < cut maxSP r o → fileBody maxSP (off + recLen r) rest ≠ [] → PadBad klen r off (cut maxSP r o)
    else NoAccident klen maxSP (off + recLen r) rest

instance decNoAccident (klen maxSP : Nat) :
    ∀ (off : Nat) (steps : List (Record × Outcome)), Decidable (NoAccident klen maxSP off steps)
  | _, [] => isTrue trivial
  | off, (r, o) :: rest =>
    if h : cut maxSP r o < 57 + klen then
      decidable_of_iff (0 < cut maxSP r o → fileBody maxSP (off + recLen r) rest ≠ [] →
        PadBad klen r off (cut maxSP r o)) (by simp only [NoAccident, if_pos h])
    else
      have := decNoAccident klen maxSP (off + recLen r) rest
      decidable_of_iff (NoAccident klen maxSP (off + recLen r) rest) (by simp only [NoAccident, if_neg h])

theorem scanRegions_of_nil (klen maxSP : Nat) (v : Bool) (off : Nat) (steps : List (Record × Outcome))
    (h : fileBody maxSP off steps = []) : scanRegions klen maxSP v off steps = .ok [] := by
  cases steps with
  | nil => rfl
  | cons x rest =>
    obtain ⟨r, o⟩ := x
    have hall := (fileBody_eq_nil_iff maxSP off _).mp h
    have h1 : cut maxSP r o = 0 := hall (r, o) (List.mem_cons_self ..)
    have h2 : fileBody maxSP (off + recLen r) rest = [] :=
      (fileBody_eq_nil_iff maxSP _ rest).mpr (fun s hs => hall s (List.mem_cons_of_mem _ hs))
    simp only [scanRegions, h1, h2, and_self, ↓reduceIte]

theorem audit_padded {klen : Nat} (r : Record) (hwf : r.WF klen) (off c : Nat) :
    dataChecksumAudit (r.header.final off) (paddedData r c) =
      if crc32c (paddedData r c) = crc32c r.data then .ok () else .error .recordDataChecksum := by
  unfold dataChecksumAudit
  have : (r.header.final off).dataChecksum = crc32c r.data := hwf.dcrc
  rw [this]

/-- MAIN LEMMA: the scan loop on `P ++ fileBody maxSP off steps`, started at `off = |P|`, returns
    `scanRegions … off steps`. `fuel` only has to cover the rest of the file at 57 bytes per record. -/
theorem rawLoop_regions (klen maxSP : Nat) (v : Bool) (steps : List (Record × Outcome)) :
    ∀ (off : Nat) (P : List UInt8) (fuel : Nat), P.length = off →
      GoodRecs klen (steps.map (·.1)) → NoAccident klen maxSP off steps →
      off + regionsLen steps < 2 ^ 64 →
      (P ++ fileBody maxSP off steps).length ≤ off + 57 * fuel →
      rawLoop v (P ++ fileBody maxSP off steps) (57 + klen) fuel off =
        scanRegions klen maxSP v off steps := by
  induction steps with
  | nil =>
    intro off P fuel hoff _ _ _ _
    simp only [fileBody, List.append_nil, scanRegions]
    exact rawLoop_end v P _ fuel off (by omega)
  | cons x rest ih =>
    obtain ⟨r, o⟩ := x
    intro off P fuel hoff hg hna hsz hfuel
    obtain ⟨hwf, hts⟩ := hg r (by simp)
    have hg' : GoodRecs klen (rest.map (·.1)) := fun R hR => hg R (by
      simp only [List.map_cons, List.mem_cons]; exact Or.inr hR)
    simp only [regionsLen] at hsz
    have hrl : recLen r = 57 + klen + (serMeta r.mt).length + r.data.length := by
      unfold recLen; rw [hwf.key]
    have hr : (r.header.final off).InRange :=
      final_inRange hwf off hts (by rw [image_length_recLen]; omega)
    rw [fileBody_cons] at hfuel ⊢
    generalize hcdef : cut maxSP r o = c at hfuel hna ⊢
    have hnaC : NoAccident klen maxSP off ((r, o) :: rest) =
        (if c < 57 + klen then
          0 < c → fileBody maxSP (off + recLen r) rest ≠ [] → PadBad klen r off c
        else NoAccident klen maxSP (off + recLen r) rest) := by
      simp only [NoAccident, hcdef]
    rw [hnaC] at hna
    have hsr : scanRegions klen maxSP v off ((r, o) :: rest) =
        (if c = 0 ∧ fileBody maxSP (off + recLen r) rest = [] then .ok []
        else if c < 57 + klen then
          .error (.load (if fileBody maxSP (off + recLen r) rest = [] then .bincode
            else stopErr klen r off c))
        else
          match (if v then dataStop r c (fileBody maxSP (off + recLen r) rest ≠ []) else none) with
          | some e => .error (.load e)
          | none =>
            match scanRegions klen maxSP v (off + recLen r) rest with
            | .error e => .error e
            | .ok l => .ok ((off, r.header.final off) :: l)) := by
      simp only [scanRegions, hcdef]
    rw [hsr]
    by_cases htl : fileBody maxSP (off + recLen r) rest = []
    · -- the file ends in this region
      rw [if_pos htl] at hfuel ⊢
      have hnil := scanRegions_of_nil klen maxSP v _ rest htl
      by_cases hc0 : c = 0
      · rw [if_pos ⟨hc0, htl⟩, hc0, List.take_zero, List.append_nil]
        exact rawLoop_end v P _ fuel off (by omega)
      · rw [if_neg (by intro h; exact hc0 h.1)]
        have hFl : (P ++ (r.image off).take c).length = off + min c (recLen r) := by
          rw [List.length_append, take_image_length, hoff]
        rw [hFl] at hfuel
        obtain ⟨fuel, rfl⟩ : ∃ f, fuel = f + 1 := ⟨fuel - 1, by omega⟩
        by_cases hch : c < 57 + klen
        · rw [if_pos hch, if_pos htl, rawLoop, if_pos (by rw [hFl]; omega),
            stop_torn_header v P r off c klen hoff hch]
        · rw [if_neg hch]
          by_cases hfull : recLen r ≤ c
          · have himg : (r.image off).take c = paddedImage r off c ++ [] := by
              unfold paddedImage
              rw [show recLen r - c = 0 by omega]; simp
            have hstep := readCurrentRecord_padded v P [] r hwf off c hoff hr (by omega)
            rw [← himg] at hstep
            have hend : rawLoop v (P ++ (r.image off).take c) (57 + klen) fuel (off + recLen r) = .ok [] :=
              rawLoop_end v _ _ fuel _ (by rw [hFl]; omega)
            have hds : dataStop r c (fileBody maxSP (off + recLen r) rest ≠ []) = none := by
              unfold dataStop
              rw [if_pos (Or.inl hfull), paddedData_full r c hfull, if_pos rfl]
            rw [rawLoop, if_pos (by rw [hFl]; omega), hstep]
            have haud : dataChecksumAudit (r.header.final off) (paddedData r c) = .ok () := by
              rw [paddedData_full r c hfull, dataChecksumAudit_ok]; exact hwf.dcrc.symm
            cases v
            · simp only [Bool.false_eq_true, ↓reduceIte, hend, hnil]
            · simp only [↓reduceIte, haud, hend, hnil, hds]
          · have hbody := rawLoop_torn_body v P r hwf off c fuel hoff hr (by omega)
              (by rw [image_length_recLen]; omega)
            rw [hbody, hnil]
            have hds : dataStop r c (fileBody maxSP (off + recLen r) rest ≠ []) =
                if r.data = [] then none else some .bincode := by
              unfold dataStop
              rw [if_neg (by intro h; rcases h with h | h; exact hfull h; exact h htl)]
            rw [hds]
            cases v
            · simp only [Bool.false_eq_true, false_and, ↓reduceIte]
            · by_cases hd : r.data = []
              · simp only [hd, ne_eq, not_true_eq_false, and_false, ↓reduceIte]
              · simp only [hd, ne_eq, not_false_eq_true, and_self, ↓reduceIte]
    · -- a later step wrote: this region is zero-filled and the file continues
      rw [if_neg htl] at hfuel ⊢
      rw [if_neg (by intro h; exact htl h.2)]
      have hpos : 0 < (fileBody maxSP (off + recLen r) rest).length := List.length_pos_iff.mpr htl
      have hpi : (r.image off).take c ++ List.replicate (recLen r - c) 0 = paddedImage r off c := rfl
      rw [hpi] at hfuel ⊢
      have hFl : (P ++ (paddedImage r off c ++ fileBody maxSP (off + recLen r) rest)).length =
          off + recLen r + (fileBody maxSP (off + recLen r) rest).length := by
        simp only [List.length_append, paddedImage_length, hoff]; omega
      rw [hFl] at hfuel
      have hrp := recLen_pos r
      obtain ⟨fuel, rfl⟩ : ∃ f, fuel = f + 1 := ⟨fuel - 1, by omega⟩
      by_cases hch : c < 57 + klen
      · rw [if_pos hch, if_neg htl]
        have hbad : PadBad klen r off c := by
          rw [if_pos hch] at hna
          by_cases hc0 : c = 0
          · rw [hc0]; exact (stop_hole klen r off).1
          · exact hna (by omega) htl
        have hsplit : paddedImage r off c =
            paddedHdr klen r off c ++ List.replicate (recLen r - (57 + klen)) 0 := by
          unfold paddedImage paddedHdr
          rw [List.append_assoc, List.replicate_append_replicate]
          congr 2; omega
        rw [rawLoop, if_pos (by rw [hFl]; omega), hsplit, List.append_assoc,
          stop_padded v klen P _ r off c hoff (by omega) (by omega) hbad]
      · rw [if_neg hch]
        have hstep := readCurrentRecord_padded v P (fileBody maxSP (off + recLen r) rest) r hwf off c hoff hr
          (by omega)
        have hrest := ih (off + recLen r) (P ++ paddedImage r off c) fuel
          (by rw [List.length_append, paddedImage_length, hoff]) hg'
          (by rw [if_neg hch] at hna; exact hna) (by omega)
          (by rw [List.append_assoc, hFl]; omega)
        rw [List.append_assoc] at hrest
        have hds : dataStop r c (fileBody maxSP (off + recLen r) rest ≠ []) =
            if crc32c (paddedData r c) = crc32c r.data then none else some .recordDataChecksum := by
          unfold dataStop
          rw [if_pos (Or.inr htl)]
        rw [rawLoop, if_pos (by rw [hFl]; omega), hstep]
        cases v
        · simp only [Bool.false_eq_true, ↓reduceIte, hrest]
          rfl
        · simp only [↓reduceIte, audit_padded r hwf off c, hrest, hds]
          by_cases hcrc : crc32c (paddedData r c) = crc32c r.data
          · simp only [hcrc, ↓reduceIte]
            rfl
          · simp only [hcrc, ↓reduceIte]

/-! ### a validating scan that succeeds returns what the plain scan returns -/

theorem readCurrentRecord_true_false {file : List UInt8} {hsz off : Nat} {h : RecHeader}
    {d : Option (List UInt8)} {off' : Nat}
    (hh : readCurrentRecord true file hsz off = .ok (h, d, off')) :
    readCurrentRecord false file hsz off = .ok (h, none, off') := by
  obtain ⟨⟨buf, hb, hd⟩, hv, hoff', _, _⟩ := readCurrentRecord_ok hh
  unfold readCurrentRecord
  simp only [hb, hd, hv, hoff']
  rfl

theorem rawLoop_true_false (file : List UInt8) (hsz : Nat) (fuel off : Nat) (hs : List (Nat × RecHeader))
    (hh : rawLoop true file hsz fuel off = .ok hs) : rawLoop false file hsz fuel off = .ok hs := by
  induction fuel generalizing off hs with
  | zero =>
    by_cases hlt : off < file.length
    · rw [rawLoop, if_pos hlt] at hh; cases hh
    · rw [rawLoop, if_neg hlt] at hh ⊢; exact hh
  | succ fuel ih =>
    by_cases hlt : off < file.length
    · rw [rawLoop, if_pos hlt] at hh ⊢
      split at hh
      · cases hh
      · next h data off' hrc =>
        rw [readCurrentRecord_true_false hrc]
        simp only
        split at hh
        · cases hh
        · split at hh
          · cases hh
          · next rest hrest =>
            rw [ih _ _ hrest]
            exact hh
    · rw [rawLoop, if_neg hlt] at hh ⊢; exact hh

theorem rawRecordsLoad_true_false (klen : Nat) (file : List UInt8) (hs : List RecHeader)
    (hh : rawRecordsLoad klen true file = .ok hs) : rawRecordsLoad klen false file = .ok hs := by
  unfold rawRecordsLoad rawRecordsScan at hh ⊢
  cases hst : rawStart klen file with
  | error e => rw [hst] at hh; cases hh
  | ok hsz =>
    rw [hst] at hh
    simp only at hh ⊢
    cases hl : rawLoop true file hsz file.length blobHeaderSize with
    | error e => rw [hl] at hh; cases hh
    | ok l =>
      rw [hl] at hh
      rw [rawLoop_true_false _ _ _ _ _ hl]
      exact hh

theorem classifyClass_ne_ok (c : ErrClass) (hs : List RecHeader) : classifyClass c ≠ .ok hs := by
  unfold classifyClass; split <;> (intro h; cases h)

/-- start-up WITH data validation that opens a blob opens it with exactly the headers start-up WITHOUT
    data validation gives — for every file -/
theorem openBlob_true_false (klen : Nat) (file : List UInt8) (hs : List RecHeader)
    (hh : openBlob klen true file = .ok hs) : openBlob klen false file = .ok hs := by
  unfold openBlob at hh ⊢
  cases hb : blobHeaderFromFile file with
  | error e => rw [hb] at hh; exact absurd hh (classifyClass_ne_ok _ _)
  | ok b =>
    rw [hb] at hh
    simp only at hh ⊢
    by_cases hlt : blobHeaderSize < file.length
    · rw [if_pos hlt] at hh ⊢
      cases hl : rawRecordsLoad klen true file with
      | error e => rw [hl] at hh; exact absurd hh (classifyClass_ne_ok _ _)
      | ok l => rw [hl] at hh; rw [rawRecordsLoad_true_false klen file l hl]; exact hh
    · rw [if_neg hlt] at hh ⊢; exact hh

/-! ### start-up on the file, region by region -/

theorem rawStart_region {klen : Nat} (r : Record) (hwf : r.WF klen) (hk : klen < 2 ^ 64) (c : Nat)
    (hc : 57 + klen ≤ c) (X : List UInt8) :
    rawStart klen (serBlobHeader ++ ((r.image 20).take c ++ X)) = .ok (57 + klen) := by
  have hrl : recLen r = 57 + klen + (serMeta r.mt).length + r.data.length := by
    unfold recLen; rw [hwf.key]
  have h20 : (serBlobHeader).length = 20 := serBlobHeader_length _
  have h1 : (serBlobHeader ++ ((r.image 20).take c ++ X)).take 36 =
      serBlobHeader ++ (r.image 20).take 16 := by
    rw [List.take_append, h20, List.take_of_length_le (l := serBlobHeader) (by rw [h20]; omega),
      show 36 - 20 = 16 from rfl, List.take_append_of_le_length (by rw [take_image_length]; omega),
      List.take_take, Nat.min_eq_left (by omega)]
  have h2 : (serBlobHeader ++ (r.image blobHeaderSize ++ [])).take 36 =
      serBlobHeader ++ (r.image 20).take 16 := by
    rw [List.append_nil, List.take_append, h20,
      List.take_of_length_le (l := serBlobHeader) (by rw [h20]; omega)]
    rfl
  rw [← rawStart_take _ 36 (Nat.le_refl _), h1, ← h2, rawStart_take _ 36 (Nat.le_refl _)]
  exact rawStart_image r hwf hk []

theorem fileBody_ne_nil_first {maxSP off : Nat} {r : Record} {o : Outcome} {rest : List (Record × Outcome)}
    (h : fileBody maxSP off ((r, o) :: rest) ≠ []) :
    ¬ (cut maxSP r o = 0 ∧ fileBody maxSP (off + recLen r) rest = []) := by
  intro ⟨h1, h2⟩
  apply h
  rw [fileBody_cons, if_pos h2, h1, List.take_zero]

/-- START-UP, REGION BY REGION: `Blob::from_file` (no index file) on the file any sequence of steps
    leaves opens the blob with the headers `scanRegions` lists, or quarantines it when `scanRegions`
    stops with an error -/
theorem openBlob_regions (klen maxSP : Nat) (v : Bool) (steps : List (Record × Outcome))
    (hg : GoodRecs klen (steps.map (·.1))) (hna : NoAccident klen maxSP 20 steps)
    (hsz : 20 + regionsLen steps < 2 ^ 64) :
    openBlob klen v (serBlobHeader ++ fileBody maxSP 20 steps) =
      match scanRegions klen maxSP v 20 steps with
      | .error _ => .quarantine
      | .ok l => .ok (l.map (·.2)) := by
  by_cases hnil : fileBody maxSP 20 steps = []
  · rw [hnil, List.append_nil, openBlob_header_only, scanRegions_of_nil klen maxSP v 20 steps hnil]
    rfl
  · cases steps with
    | nil => exact absurd rfl hnil
    | cons x rest =>
      obtain ⟨r, o⟩ := x
      generalize hF : serBlobHeader ++ fileBody maxSP 20 ((r, o) :: rest) = F
      have hloop : rawLoop v F (57 + klen) F.length 20 = scanRegions klen maxSP v 20 ((r, o) :: rest) := by
        rw [← hF]
        exact rawLoop_regions klen maxSP v _ 20 serBlobHeader _ (serBlobHeader_length _) hg hna hsz
          (by omega)
      have hload : ∀ hsz', rawStart klen F = .ok hsz' →
          rawRecordsLoad klen v F = match scanRegions klen maxSP v 20 ((r, o) :: rest) with
            | .error e => .error e
            | .ok l => .ok (l.map (·.2)) := by
        intro hsz' hst
        have := rawStart_ok hst
        subst this
        unfold rawRecordsLoad rawRecordsScan
        rw [hst]
        simp only
        rw [show blobHeaderSize = 20 from rfl, hloop]
        cases scanRegions klen maxSP v 20 ((r, o) :: rest) <;> rfl
      have hquar : ∀ e, rawRecordsLoad klen v F = .error e → openBlob klen v F = .quarantine := by
        intro e he
        rw [← hF] at he ⊢
        exact openBlob_quarantine_of_load_error klen v _ e hnil he
      have hopen : ∀ l, rawRecordsLoad klen v F = .ok l → openBlob klen v F = .ok l := by
        intro l hl
        rw [← hF] at hl ⊢
        rw [openBlob_of_load klen v _ hnil, hl]
      by_cases hch : cut maxSP r o < 57 + klen
      · have hse : ∃ e, scanRegions klen maxSP v 20 ((r, o) :: rest) = .error e := by
          simp only [scanRegions]
          rw [if_neg (fileBody_ne_nil_first hnil), if_pos hch]
          exact ⟨_, rfl⟩
        obtain ⟨e, he⟩ := hse
        rw [he]
        cases hst : rawStart klen F with
        | error e0 =>
          apply hquar e0
          unfold rawRecordsLoad rawRecordsScan
          rw [hst]
        | ok hsz' =>
          apply hquar e
          rw [hload hsz' hst, he]
      · obtain ⟨hwf, _⟩ := hg r (by simp)
        have hk : klen < 2 ^ 64 := by
          simp only [regionsLen] at hsz
          have : recLen r = 57 + klen + (serMeta r.mt).length + r.data.length := by
            unfold recLen; rw [hwf.key]
          omega
        have hst : rawStart klen F = .ok (57 + klen) := by
          rw [← hF, fileBody_cons]
          split
          · have := rawStart_region r hwf hk (cut maxSP r o) (by omega) []
            rw [List.append_nil] at this
            exact this
          · rw [List.append_assoc]
            exact rawStart_region r hwf hk (cut maxSP r o) (by omega) _
        have hl := hload _ hst
        cases hsr : scanRegions klen maxSP v 20 ((r, o) :: rest) with
        | error e => rw [hsr] at hl; exact hquar e hl
        | ok l => rw [hsr] at hl; exact hopen _ hl

/-! ### closed forms -/

theorem tailOf_length_regionsLen (off : Nat) (steps : List (Record × Outcome)) :
    (tailOf off (steps.map (·.1))).length = regionsLen steps := by
  induction steps generalizing off with
  | nil => rfl
  | cons x rest ih =>
    obtain ⟨r, o⟩ := x
    simp only [List.map_cons, tailOf, List.length_append, image_length_recLen, ih, regionsLen]

/-- a run of steps that all left a complete header is walked over by the plain scan as if every one of
    them had been a successful write -/
theorem scanRegions_good_append (klen maxSP : Nat) (good rest : List (Record × Outcome))
    (hgood : ∀ s ∈ good, 57 + klen ≤ cut maxSP s.1 s.2) (off : Nat) :
    scanRegions klen maxSP false off (good ++ rest) =
      match scanRegions klen maxSP false (off + regionsLen good) rest with
      | .error e => .error e
      | .ok l => .ok (scanOf off (good.map (·.1)) ++ l) := by
  induction good generalizing off with
  | nil =>
    simp only [List.nil_append, regionsLen, Nat.add_zero, List.map_nil, scanOf]
    cases scanRegions klen maxSP false off rest <;> rfl
  | cons x good ih =>
    obtain ⟨r, o⟩ := x
    have hc : 57 + klen ≤ cut maxSP r o := hgood (r, o) (List.mem_cons_self ..)
    have ih' := ih (fun s hs => hgood s (List.mem_cons_of_mem _ hs)) (off + recLen r)
    simp only [List.cons_append, scanRegions, List.map_cons, scanOf, regionsLen]
    rw [if_neg (by omega), if_neg (by omega), ih', image_length_recLen, Nat.add_assoc]
    simp only [Bool.false_eq_true, ↓reduceIte]
    cases scanRegions klen maxSP false (off + (recLen r + regionsLen good)) rest <;> rfl

theorem dataStop_none (r : Record) (c : Nat) (more : Prop) [Decidable more]
    (h : recLen r ≤ c ∨ r.data = []) : dataStop r c more = none := by
  unfold dataStop
  rcases h with h | h
  · rw [if_pos (Or.inl h), paddedData_full r c h, if_pos rfl]
  · rw [paddedData_nil r c h, h]
    simp

/-- the same with data validation, when every step of the run left its complete record or a record
    without data (then only meta bytes can be missing, which no scan reads) -/
theorem scanRegions_good_append_v (klen maxSP : Nat) (v : Bool) (good rest : List (Record × Outcome))
    (hgood : ∀ s ∈ good, 57 + klen ≤ cut maxSP s.1 s.2)
    (hdata : v = true → ∀ s ∈ good, recLen s.1 ≤ cut maxSP s.1 s.2 ∨ s.1.data = []) (off : Nat) :
    scanRegions klen maxSP v off (good ++ rest) =
      match scanRegions klen maxSP v (off + regionsLen good) rest with
      | .error e => .error e
      | .ok l => .ok (scanOf off (good.map (·.1)) ++ l) := by
  induction good generalizing off with
  | nil =>
    simp only [List.nil_append, regionsLen, Nat.add_zero, List.map_nil, scanOf]
    cases scanRegions klen maxSP v off rest <;> rfl
  | cons x good ih =>
    obtain ⟨r, o⟩ := x
    have hc : 57 + klen ≤ cut maxSP r o := hgood (r, o) (List.mem_cons_self ..)
    have ih' := ih (fun s hs => hgood s (List.mem_cons_of_mem _ hs))
      (fun hv s hs => hdata hv s (List.mem_cons_of_mem _ hs)) (off + recLen r)
    have hds : (if v = true then
        dataStop r (cut maxSP r o) (fileBody maxSP (off + recLen r) (good ++ rest) ≠ []) else none) = none := by
      cases v
      · rfl
      · simp only [↓reduceIte]
        exact dataStop_none r _ _ (hdata rfl (r, o) (List.mem_cons_self ..))
    simp only [List.cons_append, scanRegions, List.map_cons, scanOf, regionsLen]
    rw [if_neg (by omega), if_neg (by omega), hds, ih', image_length_recLen, Nat.add_assoc]
    simp only
    cases scanRegions klen maxSP v (off + (recLen r + regionsLen good)) rest <;> rfl

/-- with or without validation: after such a run the scan either has failed or continues in `rest` -/
theorem scanRegions_good_append_any (klen maxSP : Nat) (v : Bool) (good rest : List (Record × Outcome))
    (hgood : ∀ s ∈ good, 57 + klen ≤ cut maxSP s.1 s.2) (off : Nat) :
    (∃ e, scanRegions klen maxSP v off (good ++ rest) = .error e) ∨
    scanRegions klen maxSP v off (good ++ rest) =
      match scanRegions klen maxSP v (off + regionsLen good) rest with
      | .error e => .error e
      | .ok l => .ok (scanOf off (good.map (·.1)) ++ l) := by
  induction good generalizing off with
  | nil =>
    right
    simp only [List.nil_append, regionsLen, Nat.add_zero, List.map_nil, scanOf]
    cases scanRegions klen maxSP v off rest <;> rfl
  | cons x good ih =>
    obtain ⟨r, o⟩ := x
    have hc : 57 + klen ≤ cut maxSP r o := hgood (r, o) (List.mem_cons_self ..)
    have ih' := ih (fun s hs => hgood s (List.mem_cons_of_mem _ hs)) (off + recLen r)
    simp only [List.cons_append, scanRegions, List.map_cons, scanOf, regionsLen]
    rw [if_neg (by omega), if_neg (by omega), image_length_recLen]
    cases (if v = true then dataStop r (cut maxSP r o) (fileBody maxSP (off + recLen r) (good ++ rest) ≠ [])
      else none) with
    | some e => left; exact ⟨_, rfl⟩
    | none =>
      simp only
      rcases ih' with ⟨e, he⟩ | heq
      · left; rw [he]; exact ⟨_, rfl⟩
      · right
        rw [heq, Nat.add_assoc]
        cases scanRegions klen maxSP v (off + (recLen r + regionsLen good)) rest <;> rfl

theorem scanRegions_silent (klen maxSP : Nat) (v : Bool) (off : Nat) (steps : List (Record × Outcome))
    (hs : ∀ s ∈ steps, cut maxSP s.1 s.2 = 0) : scanRegions klen maxSP v off steps = .ok [] :=
  scanRegions_of_nil klen maxSP v off steps ((fileBody_eq_nil_iff maxSP off steps).mpr hs)

/-- at a step that left less than a header, with something in the file at or after it, the scan stops -/
theorem scanRegions_stop (klen maxSP : Nat) (v : Bool) (off : Nat) (R : Record) (o : Outcome)
    (later : List (Record × Outcome)) (hc : cut maxSP R o < 57 + klen)
    (hw : cut maxSP R o ≠ 0 ∨ ∃ s ∈ later, cut maxSP s.1 s.2 ≠ 0) :
    ∃ e, scanRegions klen maxSP v off ((R, o) :: later) = .error (.load e) := by
  simp only [scanRegions]
  rw [if_neg (by
    intro ⟨h1, h2⟩
    rcases hw with h | ⟨s, hs, hne⟩
    · exact h h1
    · exact hne ((fileBody_eq_nil_iff maxSP _ later).mp h2 s hs)), if_pos hc]
  exact ⟨_, rfl⟩

/-- the offsets of the headers the scan returns, when a step that left less than a header follows `a` -/
theorem scanRegions_offsets_lt (klen maxSP : Nat) (v : Bool) (a b : List (Record × Outcome)) (R : Record)
    (o : Outcome) (hc : cut maxSP R o < 57 + klen) (off : Nat) (l : List (Nat × RecHeader))
    (h : scanRegions klen maxSP v off (a ++ (R, o) :: b) = .ok l) :
    ∀ x ∈ l, x.2.blobOffset < off + regionsLen a := by
  induction a generalizing off l with
  | nil =>
    simp only [List.nil_append, scanRegions] at h
    split at h
    · cases h; intro x hx; cases hx
    · first | cases h | (rw [if_pos hc] at h; cases h)
  | cons y a ih =>
    obtain ⟨r, o'⟩ := y
    simp only [List.cons_append, scanRegions] at h
    split at h
    · cases h; intro x hx; cases hx
    · split at h
      · cases h
      · split at h
        · cases h
        · split at h
          · cases h
          · next l' hl' =>
            cases h
            intro x hx
            have hp := recLen_pos r
            simp only [regionsLen]
            rcases List.mem_cons.mp hx with rfl | hx
            · show off < _; omega
            · have := ih _ _ hl' x hx; omega

/-- what the scan returns is a prefix of the headers of ALL steps (acknowledged or not) -/
theorem scanRegions_ok_prefix (klen maxSP : Nat) (v : Bool) (steps : List (Record × Outcome)) (off : Nat)
    (l : List (Nat × RecHeader)) (h : scanRegions klen maxSP v off steps = .ok l) :
    l <+: scanOf off (steps.map (·.1)) := by
  induction steps generalizing off l with
  | nil => simp only [scanRegions] at h; cases h; exact List.nil_prefix
  | cons y rest ih =>
    obtain ⟨r, o⟩ := y
    simp only [scanRegions] at h
    split at h
    · cases h; exact List.nil_prefix
    · split at h
      · cases h
      · split at h
        · cases h
        · split at h
          · cases h
          · next l' hl' =>
            cases h
            simp only [List.map_cons, scanOf, image_length_recLen]
            exact (List.cons_prefix_cons).mpr ⟨rfl, ih _ _ hl'⟩

/-! ### sufficient conditions for `NoAccident` -/

theorem noAccident_good_append (klen maxSP : Nat) (good rest : List (Record × Outcome))
    (hgood : ∀ s ∈ good, 57 + klen ≤ cut maxSP s.1 s.2) (off : Nat) :
    NoAccident klen maxSP off (good ++ rest) ↔ NoAccident klen maxSP (off + regionsLen good) rest := by
  induction good generalizing off with
  | nil => simp [regionsLen]
  | cons x good ih =>
    obtain ⟨r, o⟩ := x
    have hc : 57 + klen ≤ cut maxSP r o := hgood (r, o) (List.mem_cons_self ..)
    simp only [List.cons_append, NoAccident, regionsLen]
    rw [if_neg (by omega), ih (fun s hs => hgood s (List.mem_cons_of_mem _ hs)), Nat.add_assoc]

theorem noAccident_silent (klen maxSP : Nat) (off : Nat) (steps : List (Record × Outcome))
    (hs : ∀ s ∈ steps, cut maxSP s.1 s.2 = 0) : NoAccident klen maxSP off steps := by
  cases steps with
  | nil => trivial
  | cons x rest =>
    obtain ⟨r, o⟩ := x
    have h0 : cut maxSP r o = 0 := hs (r, o) (List.mem_cons_self ..)
    simp only [NoAccident]
    rw [if_pos (by omega)]
    intro h; omega

/-- "no zero-padding accident at any failed step": every step that left a non-empty proper prefix of its
    header has a zero-padded prefix that does not validate -/
def NoPadAccidentAll (klen maxSP off : Nat) (steps : List (Record × Outcome)) : Prop :=
  ∀ a r o b, steps = a ++ (r, o) :: b → 0 < cut maxSP r o → cut maxSP r o < 57 + klen →
    PadBad klen r (off + regionsLen a) (cut maxSP r o)

theorem noAccident_of_all_prefix (klen maxSP : Nat) (a b : List (Record × Outcome)) (R : Record) (o : Outcome)
    (hc : cut maxSP R o < 57 + klen) (off : Nat) (hall : NoPadAccidentAll klen maxSP off (a ++ [(R, o)])) :
    NoAccident klen maxSP off (a ++ (R, o) :: b) := by
  induction a generalizing off with
  | nil =>
    simp only [List.nil_append, NoAccident]
    rw [if_pos hc]
    intro h0 _
    have := hall [] R o [] rfl h0 hc
    simpa [regionsLen] using this
  | cons y a ih =>
    obtain ⟨r, o'⟩ := y
    simp only [List.cons_append, NoAccident]
    by_cases hc' : cut maxSP r o' < 57 + klen
    · rw [if_pos hc']
      intro h0 _
      have := hall [] r o' (a ++ [(R, o)]) rfl h0 hc'
      simpa [regionsLen] using this
    · rw [if_neg hc']
      apply ih
      intro a2 r2 o2 b2 heq h0 hlt
      have := hall ((r, o') :: a2) r2 o2 b2 (by rw [List.cons_append, heq]; rfl) h0 hlt
      simpa [regionsLen, Nat.add_assoc] using this

theorem noAccident_of_all (klen maxSP : Nat) (steps : List (Record × Outcome)) (off : Nat)
    (hall : NoPadAccidentAll klen maxSP off steps) : NoAccident klen maxSP off steps := by
  induction steps generalizing off with
  | nil => trivial
  | cons y rest ih =>
    obtain ⟨r, o⟩ := y
    simp only [NoAccident]
    by_cases hc : cut maxSP r o < 57 + klen
    · rw [if_pos hc]
      intro h0 _
      have := hall [] r o rest rfl h0 hc
      simpa [regionsLen] using this
    · rw [if_neg hc]
      apply ih
      intro a2 r2 o2 b2 heq h0 hlt
      have := hall ((r, o) :: a2) r2 o2 b2 (by rw [heq]; rfl) h0 hlt
      simpa [regionsLen, Nat.add_assoc] using this

/-- an `ok` step leaves the complete record, in particular a complete header -/
theorem ok_cut_ge {klen : Nat} (maxSP : Nat) (r : Record) (hwf : r.WF klen) : 57 + klen ≤ cut maxSP r .ok := by
  show 57 + klen ≤ recLen r
  unfold recLen; rw [hwf.key]; omega

/-- the acknowledged headers are among the headers of all steps, in order -/
theorem ackedHeaders_sublist (maxSP : Nat) (st : BlobSt) (steps : List (Record × Outcome)) :
    (ackedHeaders maxSP st steps).Sublist ((scanOf st.file.size (steps.map (·.1))).map (·.2)) := by
  induction steps generalizing st with
  | nil => exact List.Sublist.slnil
  | cons x rest ih =>
    obtain ⟨r, o⟩ := x
    have ih' := ih (writeStep maxSP st r o).1
    rw [writeStep_size] at ih'
    unfold ackedHeaders at ih' ⊢
    simp only [acked, List.map_append, List.map_cons, scanOf, image_length_recLen]
    split
    · simp only [List.map_cons, List.map_nil, List.singleton_append]
      rw [writtenHeader_eq]
      exact List.Sublist.cons_cons _ ih'
    · simp only [List.map_nil, List.nil_append]
      exact List.Sublist.cons _ ih'

end Pearl.Fault
