import Pearl.Spec
/-
Helper lemmas about the specification: `rankBefore` is a strict total order on positioned records
with distinct positions, `Spec.all` (and, generally, `sortedBy q`) is *the* rank-sorted list of the
selected records, and list facts about `cut`.
-/
namespace Pearl

/-! ### the rank order -/

theorem rankBefore_iff {a b : PRec} : rankBefore a b = true ↔
    a.r.ts > b.r.ts ∨ (a.r.ts = b.r.ts ∧ (a.blob > b.blob ∨ (a.blob = b.blob ∧ a.seq > b.seq))) := by
  simp [rankBefore]

theorem rankLe_iff {a b : PRec} : rankLe a b = true ↔ ¬ rankBefore b a = true := by
  simp [rankLe]

theorem rankBefore_irrefl (a : PRec) : ¬ rankBefore a a = true := by
  rw [rankBefore_iff]; omega

theorem rankBefore_asymm {a b : PRec} : rankBefore a b = true → ¬ rankBefore b a = true := by
  rw [rankBefore_iff, rankBefore_iff]; omega

theorem rankBefore_trans {a b c : PRec} :
    rankBefore a b = true → rankBefore b c = true → rankBefore a c = true := by
  rw [rankBefore_iff, rankBefore_iff, rankBefore_iff]; omega

theorem rankBefore_ne {a b : PRec} (h : rankBefore a b = true) : a ≠ b := by
  rintro rfl; exact rankBefore_irrefl a h

theorem rankLe_trans (a b c : PRec) : rankLe a b = true → rankLe b c = true → rankLe a c = true := by
  rw [rankLe_iff, rankLe_iff, rankLe_iff, rankBefore_iff, rankBefore_iff, rankBefore_iff]; omega

theorem rankLe_total (a b : PRec) : (rankLe a b || rankLe b a) = true := by
  rw [Bool.or_eq_true, rankLe_iff, rankLe_iff, rankBefore_iff, rankBefore_iff]; omega

/-- two positioned records occupy different positions -/
def PDistinct (a b : PRec) : Prop := a.blob ≠ b.blob ∨ a.seq ≠ b.seq

theorem PDistinct.symm {a b : PRec} : PDistinct a b → PDistinct b a := by
  unfold PDistinct; omega

/-- `rankBefore` is total on distinct positions -/
theorem rankBefore_total {a b : PRec} (h : PDistinct a b) :
    rankBefore a b = true ∨ rankBefore b a = true := by
  unfold PDistinct at h; rw [rankBefore_iff, rankBefore_iff]; omega

theorem rankBefore_of_rankLe {a b : PRec} (h : rankLe a b = true) (hd : PDistinct a b) :
    rankBefore a b = true := by
  rw [rankLe_iff] at h
  rcases rankBefore_total hd with h' | h'
  · exact h'
  · exact absurd h' h

/-- sorted by rank, strictly -/
abbrev RankSorted (l : List PRec) : Prop := l.Pairwise (fun a b => rankBefore a b = true)

theorem rankSorted_cons {x : PRec} {xs : List PRec} :
    RankSorted (x :: xs) ↔ (∀ p ∈ xs, rankBefore x p = true) ∧ RankSorted xs := List.pairwise_cons

theorem RankSorted.nodup {l : List PRec} (h : RankSorted l) : l.Nodup :=
  List.Pairwise.imp (fun hab => rankBefore_ne hab) h

/-- a rank-sorted list is determined by its multiset of elements -/
theorem RankSorted.eq_of_perm {l₁ l₂ : List PRec} (h₁ : RankSorted l₁) (h₂ : RankSorted l₂)
    (hp : l₁.Perm l₂) : l₁ = l₂ :=
  List.Perm.eq_of_pairwise (fun _ _ _ _ hab hba => absurd hba (rankBefore_asymm hab)) h₁ h₂ hp

/-- a rank-sorted list is determined by its set of elements -/
theorem RankSorted.eq_of_mem_iff {l₁ l₂ : List PRec} (h₁ : RankSorted l₁) (h₂ : RankSorted l₂)
    (hm : ∀ a, a ∈ l₁ ↔ a ∈ l₂) : l₁ = l₂ :=
  h₁.eq_of_perm h₂ ((List.perm_ext_iff_of_nodup h₁.nodup h₂.nodup).2 hm)

theorem RankSorted.head?_eq {l : List PRec} {p : PRec} (hl : RankSorted l) (hp : p ∈ l)
    (hmax : ∀ z ∈ l, z = p ∨ rankBefore p z = true) : l.head? = some p := by
  cases l with
  | nil => simp at hp
  | cons x xs =>
    rw [rankSorted_cons] at hl
    rcases List.mem_cons.1 hp with rfl | hp
    · rfl
    · rcases hmax x (by simp) with rfl | h
      · rfl
      · exact absurd h (rankBefore_asymm (hl.1 p hp))

theorem RankSorted.of_head? {l : List PRec} {p : PRec} (hl : RankSorted l) (hp : l.head? = some p) :
    p ∈ l ∧ ∀ z ∈ l, z = p ∨ rankBefore p z = true := by
  cases l with
  | nil => simp at hp
  | cons x xs =>
    rw [rankSorted_cons] at hl
    simp only [List.head?_cons, Option.some.injEq] at hp
    subst hp
    refine ⟨by simp, fun z hz => ?_⟩
    rcases List.mem_cons.1 hz with rfl | hz
    · exact Or.inl rfl
    · exact Or.inr (hl.1 z hz)

/-! ### positions -/

theorem mem_positionedFrom {id : Nat} : ∀ {rs : List Rec} {i : Nat} {p : PRec},
    p ∈ positionedFrom id i rs → p.blob = id ∧ i ≤ p.seq
  | [], _, _, h => by simp [positionedFrom] at h
  | r :: rs, i, p, h => by
    simp only [positionedFrom, List.mem_cons] at h
    rcases h with rfl | h
    · exact ⟨rfl, Nat.le_refl _⟩
    · have := mem_positionedFrom h; exact ⟨this.1, by omega⟩

theorem positionedFrom_map_r (id : Nat) : ∀ (rs : List Rec) (i : Nat),
    (positionedFrom id i rs).map (·.r) = rs
  | [], _ => rfl
  | r :: rs, i => by simp [positionedFrom, positionedFrom_map_r id rs (i+1)]

theorem positionedFrom_pairwise (id : Nat) : ∀ (rs : List Rec) (i : Nat),
    (positionedFrom id i rs).Pairwise (fun a b => a.blob = b.blob ∧ a.seq < b.seq)
  | [], _ => by simp [positionedFrom]
  | r :: rs, i => by
    simp only [positionedFrom, List.pairwise_cons]
    refine ⟨fun p hp => ?_, positionedFrom_pairwise id rs (i+1)⟩
    have := mem_positionedFrom hp
    exact ⟨this.1.symm, Nat.lt_of_succ_le this.2⟩

theorem positionedFrom_append (id : Nat) : ∀ (rs : List Rec) (r : Rec) (i : Nat),
    positionedFrom id i (rs ++ [r]) = positionedFrom id i rs ++ [⟨r, id, i + rs.length⟩]
  | [], r, i => by simp [positionedFrom]
  | x :: rs, r, i => by
    simp only [List.cons_append, positionedFrom, positionedFrom_append id rs r (i+1), List.length_cons]
    have : i + 1 + rs.length = i + (rs.length + 1) := by omega
    rw [this]

theorem positioned_nil : History.positioned [] = [] := rfl

theorem positioned_cons (b : Nat × List Rec) (h : History) :
    History.positioned (b :: h) = positionedFrom b.1 0 b.2 ++ History.positioned h := by
  simp [History.positioned]

theorem positioned_append (h₁ h₂ : History) :
    History.positioned (h₁ ++ h₂) = History.positioned h₁ ++ History.positioned h₂ := by
  simp [History.positioned]

theorem positioned_singleton (b : Nat × List Rec) :
    History.positioned [b] = positionedFrom b.1 0 b.2 := by
  simp [History.positioned]

theorem mem_positioned {h : History} {p : PRec} :
    p ∈ h.positioned ↔ ∃ b ∈ h, p ∈ positionedFrom b.1 0 b.2 := by
  simp [History.positioned]

theorem blob_mem_of_mem_positioned {h : History} {p : PRec} (hp : p ∈ h.positioned) :
    p.blob ∈ h.map (·.1) := by
  obtain ⟨b, hb, hpb⟩ := mem_positioned.1 hp
  rw [(mem_positionedFrom hpb).1]
  exact List.mem_map_of_mem hb

theorem positioned_perm {h₁ h₂ : History} (hp : h₁.Perm h₂) : h₁.positioned.Perm h₂.positioned :=
  List.Perm.flatMap_right _ hp

/-- blob ids pairwise distinct ⇒ positions pairwise distinct -/
theorem positioned_distinct {h : History} (hn : (h.map (·.1)).Nodup) :
    h.positioned.Pairwise PDistinct := by
  unfold History.positioned
  rw [List.pairwise_flatMap]
  constructor
  · intro b _
    exact (positionedFrom_pairwise b.1 b.2 0).imp (fun hab => Or.inr (by omega))
  · rw [List.Nodup, List.pairwise_map] at hn
    refine hn.imp ?_
    intro b₁ b₂ hne x hx y hy
    left
    rw [(mem_positionedFrom hx).1, (mem_positionedFrom hy).1]
    exact hne

/-! ### `sortedBy q`: the selected records in rank order -/

/-- the records of the history satisfying `q`, in rank order (`Spec.all h k = sortedBy (key == k) h`) -/
def sortedBy (q : PRec → Bool) (h : History) : List PRec := (h.positioned.filter q).mergeSort rankLe

theorem Spec.all_eq_sortedBy (h : History) (k : Key) :
    Spec.all h k = sortedBy (fun p => p.r.key == k) h := rfl

theorem sortedBy_perm (q : PRec → Bool) (h : History) :
    (sortedBy q h).Perm (h.positioned.filter q) := List.mergeSort_perm _ _

theorem mem_sortedBy {q : PRec → Bool} {h : History} {p : PRec} :
    p ∈ sortedBy q h ↔ p ∈ h.positioned ∧ q p = true := by
  rw [(sortedBy_perm q h).mem_iff, List.mem_filter]

theorem sortedBy_sorted (q : PRec → Bool) {h : History} (hn : (h.map (·.1)).Nodup) :
    RankSorted (sortedBy q h) := by
  have h1 : (sortedBy q h).Pairwise (fun a b => rankLe a b = true) :=
    List.pairwise_mergeSort rankLe_trans rankLe_total _
  have h2 : (sortedBy q h).Pairwise PDistinct :=
    (List.Perm.pairwise_iff (fun hab => PDistinct.symm hab) (sortedBy_perm q h)).2
      ((positioned_distinct hn).sublist List.filter_sublist)
  exact (h1.and h2).imp (fun hab => rankBefore_of_rankLe hab.1 hab.2)

theorem sortedBy_unique {q : PRec → Bool} {h : History} (hn : (h.map (·.1)).Nodup) {l : List PRec}
    (hp : l.Perm (h.positioned.filter q)) (hs : RankSorted l) : l = sortedBy q h :=
  hs.eq_of_perm (sortedBy_sorted q hn) (hp.trans (sortedBy_perm q h).symm)

theorem sortedBy_eq_of_mem_iff {q : PRec → Bool} {h : History} (hn : (h.map (·.1)).Nodup)
    {l : List PRec} (hs : RankSorted l) (hm : ∀ p, p ∈ l ↔ p ∈ h.positioned ∧ q p = true) :
    l = sortedBy q h :=
  hs.eq_of_mem_iff (sortedBy_sorted q hn) (fun p => by rw [hm, mem_sortedBy])

theorem sortedBy_congr_perm (q : PRec → Bool) {h₁ h₂ : History} (hn : (h₁.map (·.1)).Nodup)
    (hp : h₁.Perm h₂) : sortedBy q h₁ = sortedBy q h₂ := by
  have hn₂ : (h₂.map (·.1)).Nodup := ((hp.map _).nodup_iff).1 hn
  refine (sortedBy_sorted q hn).eq_of_mem_iff (sortedBy_sorted q hn₂) (fun p => ?_)
  rw [mem_sortedBy, mem_sortedBy, (positioned_perm hp).mem_iff]

theorem filter_sortedBy (q q' : PRec → Bool) {h : History} (hn : (h.map (·.1)).Nodup) :
    (sortedBy q h).filter q' = sortedBy (fun p => q p && q' p) h := by
  refine sortedBy_eq_of_mem_iff hn ((sortedBy_sorted q hn).sublist List.filter_sublist) (fun p => ?_)
  rw [List.mem_filter, mem_sortedBy, Bool.and_eq_true, and_assoc]

theorem sortedBy_eq_nil_iff {q : PRec → Bool} {h : History} :
    sortedBy q h = [] ↔ ∀ p ∈ h.positioned, q p = false := by
  rw [List.eq_nil_iff_forall_not_mem]
  constructor
  · intro hh p hp
    cases hq : q p with
    | false => rfl
    | true => exact absurd (mem_sortedBy.2 ⟨hp, hq⟩) (hh p)
  · intro hh p hp
    have := mem_sortedBy.1 hp
    rw [hh p this.1] at this
    exact absurd this.2 (by simp)

/-- who comes first: `x` from a blob with a smaller id, `y` from blobs with greater ids -/
def pick : Option PRec → Option PRec → Option PRec
  | none, y => y
  | some x, none => some x
  | some x, some y => if x.r.ts > y.r.ts then some x else some y

/-- the first-ranked selected record of a history = the better of the first-ranked one in the
    oldest blob and the first-ranked one in the others -/
theorem head?_sortedBy_cons (q : PRec → Bool) {b : Nat × List Rec} {h : History}
    (hlt : ∀ i ∈ h.map (·.1), b.1 < i) (hn : (h.map (·.1)).Nodup) :
    (sortedBy q (b :: h)).head? = pick (sortedBy q [b]).head? (sortedBy q h).head? := by
  have hn' : (((b :: h) : History).map (·.1)).Nodup := by
    rw [List.map_cons, List.nodup_cons]
    exact ⟨fun hb => Nat.lt_irrefl _ (hlt _ hb), hn⟩
  have hn1 : (([b] : History).map (·.1)).Nodup := by simp
  have hS := sortedBy_sorted q hn'
  have hS1 := sortedBy_sorted q hn1
  have hS2 := sortedBy_sorted q hn
  have hmem : ∀ p, p ∈ sortedBy q (b :: h) ↔ p ∈ sortedBy q [b] ∨ p ∈ sortedBy q h := by
    intro p
    simp only [mem_sortedBy, positioned_cons, positioned_nil, List.mem_append, List.append_nil]
    constructor
    · rintro ⟨h1 | h1, h2⟩
      · exact Or.inl ⟨h1, h2⟩
      · exact Or.inr ⟨h1, h2⟩
    · rintro (⟨h1, h2⟩ | ⟨h1, h2⟩)
      · exact ⟨Or.inl h1, h2⟩
      · exact ⟨Or.inr h1, h2⟩
  have hb1 : ∀ p ∈ sortedBy q [b], p.blob = b.1 := by
    intro p hp
    have := (mem_sortedBy.1 hp).1
    rw [positioned_singleton] at this
    exact (mem_positionedFrom this).1
  have hb2 : ∀ p ∈ sortedBy q h, b.1 < p.blob := by
    intro p hp
    exact hlt _ (blob_mem_of_mem_positioned (mem_sortedBy.1 hp).1)
  cases e1 : (sortedBy q [b]).head? with
  | none =>
    rw [List.head?_eq_none_iff] at e1
    simp only [pick]
    cases e2 : (sortedBy q h).head? with
    | none =>
      rw [List.head?_eq_none_iff] at e2
      rw [List.head?_eq_none_iff, List.eq_nil_iff_forall_not_mem]
      intro p hp
      rcases (hmem p).1 hp with hp | hp
      · rw [e1] at hp; simp at hp
      · rw [e2] at hp; simp at hp
    | some y =>
      obtain ⟨hy, hymax⟩ := hS2.of_head? e2
      refine hS.head?_eq ((hmem y).2 (Or.inr hy)) (fun z hz => ?_)
      rcases (hmem z).1 hz with hz | hz
      · rw [e1] at hz; simp at hz
      · exact hymax z hz
  | some x =>
    obtain ⟨hx, hxmax⟩ := hS1.of_head? e1
    cases e2 : (sortedBy q h).head? with
    | none =>
      rw [List.head?_eq_none_iff] at e2
      simp only [pick]
      refine hS.head?_eq ((hmem x).2 (Or.inl hx)) (fun z hz => ?_)
      rcases (hmem z).1 hz with hz | hz
      · exact hxmax z hz
      · rw [e2] at hz; simp at hz
    | some y =>
      obtain ⟨hy, hymax⟩ := hS2.of_head? e2
      have hxb := hb1 x hx
      have hyb := hb2 y hy
      simp only [pick]
      split
      · rename_i hgt
        have hxy : rankBefore x y = true := rankBefore_iff.2 (Or.inl hgt)
        refine hS.head?_eq ((hmem x).2 (Or.inl hx)) (fun z hz => ?_)
        rcases (hmem z).1 hz with hz | hz
        · exact hxmax z hz
        · rcases hymax z hz with rfl | hyz
          · exact Or.inr hxy
          · exact Or.inr (rankBefore_trans hxy hyz)
      · rename_i hgt
        have hyx : rankBefore y x = true := by rw [rankBefore_iff]; omega
        refine hS.head?_eq ((hmem y).2 (Or.inr hy)) (fun z hz => ?_)
        rcases (hmem z).1 hz with hz | hz
        · rcases hxmax z hz with rfl | hxz
          · exact Or.inr hyx
          · exact Or.inr (rankBefore_trans hyx hxz)
        · exact hymax z hz

/-! ### classification of the first-ranked record -/

/-- `Found` / `Deleted(ts)` / `NotFound` from the first relevant record -/
def classify : Option PRec → ReadResult PRec
  | none => .notFound
  | some p => if p.r.del then .deleted p.r.ts else .found p

theorem Spec.latest_eq (h : History) (k : Key) : Spec.latest h k = classify (Spec.all h k).head? := by
  unfold Spec.latest
  cases Spec.all h k <;> rfl

/-- `read_with` looks at the first record that is a marker or carries the wanted metadata -/
theorem readWith_list_eq (m : Meta) : ∀ l : List PRec,
    (match (Spec.cut l).find? (fun p => !p.r.del && p.r.mt == m) with
      | some p => ReadResult.found p
      | none =>
        match (Spec.cut l).getLast? with
        | some p => if p.r.del then .deleted p.r.ts else .notFound
        | none => .notFound) = classify (l.find? (fun p => p.r.del || p.r.mt == m))
  | [] => rfl
  | x :: xs => by
    have ih := readWith_list_eq m xs
    by_cases hd : x.r.del = true
    · simp [Spec.cut, hd, classify]
    · have hd' : x.r.del = false := by simpa using hd
      by_cases hm : (x.r.mt == m) = true
      · simp [Spec.cut, hd', hm, classify]
      · have hm' : (x.r.mt == m) = false := by simpa using hm
        simp only [Spec.cut, hd', Bool.false_eq_true, if_false, List.find?_cons, Bool.not_false,
          hm', Bool.and_false, Bool.or_false]
        rw [← ih]
        cases hc : Spec.cut xs with
        | nil => simp [hd']
        | cons c cs => simp [List.getLast?_cons_cons]

theorem Spec.readWith_eq (h : History) (k : Key) (m : Meta) :
    Spec.readWith h k m = classify ((Spec.all h k).find? (fun p => p.r.del || p.r.mt == m)) := by
  unfold Spec.readWith Spec.allCut
  exact readWith_list_eq m _

/-! ### `cut` -/

theorem cut_sublist : ∀ l : List PRec, (Spec.cut l).Sublist l
  | [] => List.Sublist.slnil
  | x :: xs => by
    unfold Spec.cut
    split
    · exact (List.Sublist.cons_cons x (List.nil_sublist xs))
    · exact (cut_sublist xs).cons_cons x

theorem cut_eq_nil_iff {l : List PRec} : Spec.cut l = [] ↔ l = [] := by
  cases l with
  | nil => simp [Spec.cut]
  | cons x xs => simp only [Spec.cut]; split <;> simp

theorem cut_eq_self_of_no_del : ∀ {l : List PRec}, (∀ p ∈ l, p.r.del = false) → Spec.cut l = l
  | [], _ => rfl
  | x :: xs, h => by
    simp only [Spec.cut, h x (by simp), Bool.false_eq_true, if_false]
    rw [cut_eq_self_of_no_del (fun p hp => h p (by simp [hp]))]

/-- a marker in a cut list is its last element -/
theorem getLast?_cut_of_del : ∀ {l : List PRec} {d : PRec}, d ∈ Spec.cut l → d.r.del = true →
    (Spec.cut l).getLast? = some d
  | [], d, h, _ => by simp [Spec.cut] at h
  | x :: xs, d, h, hd => by
    unfold Spec.cut at h ⊢
    split
    · rename_i hx; rw [if_pos hx] at h; simp at h; simp [h]
    · rename_i hx
      rw [if_neg hx] at h
      rcases List.mem_cons.1 h with rfl | h
      · exact absurd hd hx
      · have ih := getLast?_cut_of_del h hd
        cases hc : Spec.cut xs with
        | nil => rw [hc] at h; simp at h
        | cons c cs => rw [hc] at ih; rw [List.getLast?_cons_cons]; exact ih

/-- only the last element of a cut list can be a marker -/
theorem cut_cut : ∀ l : List PRec, Spec.cut (Spec.cut l) = Spec.cut l
  | [] => rfl
  | x :: xs => by
    by_cases hx : x.r.del = true
    · simp [Spec.cut, hx]
    · simp [Spec.cut, hx, cut_cut xs]

/-- membership in the cut of a rank-sorted list: no marker is ranked strictly before -/
theorem mem_cut_iff : ∀ {l : List PRec}, RankSorted l → ∀ {p : PRec},
    (p ∈ Spec.cut l ↔ p ∈ l ∧ ∀ d ∈ l, d.r.del = true → ¬ rankBefore d p = true)
  | [], _, p => by simp [Spec.cut]
  | x :: xs, hl, p => by
    rw [rankSorted_cons] at hl
    have ih := mem_cut_iff hl.2 (p := p)
    by_cases hx : x.r.del = true
    · simp only [Spec.cut, hx, if_true, List.mem_singleton]
      constructor
      · rintro rfl
        refine ⟨by simp, fun d hd _ => ?_⟩
        rcases List.mem_cons.1 hd with rfl | hd
        · exact rankBefore_irrefl _
        · exact rankBefore_asymm (hl.1 d hd)
      · rintro ⟨hp, hno⟩
        rcases List.mem_cons.1 hp with rfl | hp
        · rfl
        · exact absurd (hl.1 p hp) (hno x (by simp) hx)
    · simp only [Spec.cut, hx, Bool.false_eq_true, if_false, List.mem_cons]
      constructor
      · rintro (rfl | hp)
        · refine ⟨Or.inl rfl, fun d hd hdd => ?_⟩
          rcases hd with rfl | hd
          · exact absurd hdd hx
          · exact rankBefore_asymm (hl.1 d hd)
        · have := ih.1 hp
          refine ⟨Or.inr this.1, fun d hd hdd => ?_⟩
          rcases hd with rfl | hd
          · exact absurd hdd hx
          · exact this.2 d hd hdd
      · rintro ⟨rfl | hp, hno⟩
        · exact Or.inl rfl
        · exact Or.inr (ih.2 ⟨hp, fun d hd hdd => hno d (Or.inr hd) hdd⟩)

/-- the first marker of a rank-sorted list survives the cut and is ranked no later than any marker -/
theorem exists_del_cut : ∀ {l : List PRec}, RankSorted l → ∀ {d : PRec}, d ∈ l → d.r.del = true →
    ∃ d' ∈ Spec.cut l, d'.r.del = true ∧ (d' = d ∨ rankBefore d' d = true)
  | [], _, d, h, _ => by simp at h
  | x :: xs, hl, d, h, hd => by
    rw [rankSorted_cons] at hl
    by_cases hx : x.r.del = true
    · refine ⟨x, by simp [Spec.cut, hx], hx, ?_⟩
      rcases List.mem_cons.1 h with rfl | h
      · exact Or.inl rfl
      · exact Or.inr (hl.1 d h)
    · rcases List.mem_cons.1 h with rfl | h
      · exact absurd hd hx
      · obtain ⟨d', h1, h2, h3⟩ := exists_del_cut hl.2 h hd
        exact ⟨d', by simp [Spec.cut, hx, h1], h2, h3⟩

theorem cut_map_r_filter : ∀ l : List PRec,
    ((Spec.cut l).filter (fun p => !p.r.del)) = l.takeWhile (fun p => !p.r.del)
  | [] => rfl
  | x :: xs => by
    by_cases hx : x.r.del = true
    · simp [Spec.cut, hx]
    · simp [Spec.cut, hx, cut_map_r_filter xs]

end Pearl
