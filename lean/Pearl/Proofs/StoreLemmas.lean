import Pearl.Model.Ops
import Pearl.Proofs.IndexLemmas
import Pearl.Proofs.SpecLemmas
/-
Helper lemmas connecting the store model (L2) with the specification (L0).
-/
namespace Pearl

/-- the history entry of a blob -/
def Blob.hist (b : Blob) : Nat × List Rec := (b.id, b.recs)

theorem Store.history_eq (s : Store) : s.history = s.blobs.map Blob.hist := rfl

theorem map_hist_ids (bs : List Blob) : (bs.map Blob.hist).map (·.1) = bs.map (·.id) := by
  simp [Blob.hist]

/-! ### one blob: the index vector is the blob's rank order, reversed -/

/-- the index vector with positions attached -/
def pvecOf (id : Nat) (recs : List Rec) (k : Key) : List PRec :=
  ((positionedFrom id 0 recs).filter (fun p => p.r.key == k)).foldl (ins (fun p => p.r.ts)) []

theorem filter_positionedFrom_map_r (id : Nat) (recs : List Rec) (k : Key) (i : Nat) :
    ((positionedFrom id i recs).filter (fun p => p.r.key == k)).map (·.r) =
      recs.filter (fun r => r.key == k) := by
  conv => rhs; rw [← positionedFrom_map_r id recs i]
  rw [List.filter_map]; rfl

theorem pvecOf_map_r (id : Nat) (recs : List Rec) (k : Key) :
    (pvecOf id recs k).map (·.r) = vecOf recs k := by
  unfold pvecOf
  rw [vecOf_eq_foldl_ins, foldl_ins_map (g := PRec.r) (f := Rec.ts), filter_positionedFrom_map_r]
  rfl

theorem pvecOf_pairwise (id : Nat) (recs : List Rec) (k : Key) :
    (pvecOf id recs k).Pairwise
      (AscBy (fun p => p.r.ts) (fun a b => a.blob = b.blob ∧ a.seq < b.seq)) :=
  foldl_ins_pairwise _ [] List.Pairwise.nil
    ((positionedFrom_pairwise id recs 0).sublist List.filter_sublist) (by simp)

theorem pvecOf_perm (id : Nat) (recs : List Rec) (k : Key) :
    (pvecOf id recs k).Perm ((positionedFrom id 0 recs).filter (fun p => p.r.key == k)) := by
  unfold pvecOf
  simpa using foldl_ins_perm (fun p : PRec => p.r.ts)
    ((positionedFrom id 0 recs).filter (fun p => p.r.key == k)) []

theorem all_single (id : Nat) (recs : List Rec) (k : Key) :
    Spec.all [(id, recs)] k = (pvecOf id recs k).reverse := by
  symm
  refine sortedBy_unique (by simp) ?_ ?_
  · rw [positioned_singleton]
    exact (List.reverse_perm _).trans (pvecOf_perm id recs k)
  · unfold RankSorted
    rw [List.pairwise_reverse]
    refine (pvecOf_pairwise id recs k).imp ?_
    intro a b hab
    simp only [AscBy] at hab
    rw [rankBefore_iff]; omega

/-- per blob: spec order = reversed index vector -/
theorem all_single_map_r (id : Nat) (recs : List Rec) (k : Key) :
    (Spec.all [(id, recs)] k).map (·.r) = (vecOf recs k).reverse := by
  rw [all_single, List.map_reverse, pvecOf_map_r]

/-- per-blob rank-ordered list of key `k` -/
def Blob.ranked (b : Blob) (k : Key) : List PRec := Spec.all [b.hist] k

theorem Blob.ranked_map_r (b : Blob) (k : Key) : (b.ranked k).map (·.r) = (b.vec k).reverse :=
  all_single_map_r b.id b.recs k

theorem Blob.ranked_sorted (b : Blob) (k : Key) : RankSorted (b.ranked k) :=
  sortedBy_sorted _ (by simp)

theorem Blob.mem_ranked {b : Blob} {k : Key} {p : PRec} :
    p ∈ b.ranked k ↔ p ∈ positionedFrom b.id 0 b.recs ∧ p.r.key = k := by
  unfold Blob.ranked
  rw [Spec.all_eq_sortedBy, mem_sortedBy, positioned_singleton]
  simp [Blob.hist]

theorem Blob.blob_of_mem_ranked {b : Blob} {k : Key} {p : PRec} (h : p ∈ b.ranked k) :
    p.blob = b.id := (mem_positionedFrom (Blob.mem_ranked.1 h).1).1

theorem mem_positionedFrom_r {id : Nat} : ∀ {rs : List Rec} {i : Nat} {p : PRec},
    p ∈ positionedFrom id i rs → p.r ∈ rs
  | [], _, _, h => by simp [positionedFrom] at h
  | r :: rs, i, p, h => by
    simp only [positionedFrom, List.mem_cons] at h
    rcases h with rfl | h
    · simp
    · exact List.mem_cons_of_mem _ (mem_positionedFrom_r h)

theorem exists_positionedFrom_of_mem {id : Nat} : ∀ {rs : List Rec} {i : Nat} {r : Rec},
    r ∈ rs → ∃ p ∈ positionedFrom id i rs, p.r = r
  | [], _, _, h => by simp at h
  | x :: rs, i, r, h => by
    rcases List.mem_cons.1 h with rfl | h
    · exact ⟨⟨r, id, i⟩, by simp [positionedFrom], rfl⟩
    · obtain ⟨p, hp, hr⟩ := exists_positionedFrom_of_mem (id := id) (i := i + 1) h
      exact ⟨p, by simp [positionedFrom, hp], hr⟩

/-! ### classification -/

def classifyR : Option Rec → ReadResult Rec
  | none => .notFound
  | some r => if r.del then .deleted r.ts else .found r

theorem classify_map (o : Option PRec) : (classify o).map (·.r) = classifyR (o.map (·.r)) := by
  cases o with
  | none => rfl
  | some p => simp only [classify, classifyR, Option.map]; split <;> rfl

theorem latestOfVec_eq (v : List Rec) : latestOfVec v = classifyR v.getLast? := by
  unfold latestOfVec; cases v.getLast? <;> rfl

theorem ts?_classify (o : Option PRec) :
    ((classify o).map (·.r)).ts? = o.map (fun p => p.r.ts) := by
  cases o with
  | none => rfl
  | some p => simp only [classify, Option.map]; split <;> rfl

/-- merging per-blob answers with `ReadResult::latest` = taking the better-ranked first record -/
theorem latest_classify (x y : Option PRec) :
    ((classify y).map (·.r)).latest ((classify x).map (·.r)) = (classify (pick x y)).map (·.r) := by
  unfold ReadResult.latest
  rw [ts?_classify, ts?_classify]
  cases x with
  | none => simp [optGt, pick]
  | some x =>
    cases y with
    | none => simp [optGt, pick]
    | some y =>
      simp only [Option.map, optGt, pick, decide_eq_true_eq]
      split <;> rfl

/-- `Blob::get_latest` answers with the blob's first-ranked record -/
theorem Blob.getLatest_eq (b : Blob) (k : Key) :
    b.getLatest k = (classify (sortedBy (fun p => p.r.key == k) [b.hist]).head?).map (·.r) := by
  unfold Blob.getLatest
  rw [latestOfVec_eq, classify_map, ← List.head?_map]
  have := b.ranked_map_r k
  unfold Blob.ranked at this
  rw [Spec.all_eq_sortedBy] at this
  rw [this, List.head?_reverse]

/-- the body of `Blob::get_entry_with_meta` as a function of the cut header list -/
def withMetaList (m : Meta) (hs : List Rec) : ReadResult Rec :=
  let delTs : Option Nat :=
    match hs.getLast? with
    | some h => if h.del then some h.ts else none
    | none => none
  let hs' := if delTs.isSome then hs.dropLast else hs
  match hs'.find? (fun r => r.mt == m) with
  | some r => .found r
  | none =>
    match delTs with
    | some t => .deleted t
    | none => .notFound

theorem Blob.getWithMeta_def (b : Blob) (k : Key) (m : Meta) :
    b.getWithMeta k m = withMetaList m (b.getAllCut k) := rfl

theorem cutHdrs_eq_nil_iff {l : List Rec} : cutHdrs l = [] ↔ l = [] := by
  cases l with
  | nil => simp [cutHdrs]
  | cons x xs => simp only [cutHdrs]; split <;> simp

theorem withMetaList_cons_cons (m : Meta) (x c : Rec) (cs : List Rec) :
    withMetaList m (x :: c :: cs) =
      if x.mt == m then .found x else withMetaList m (c :: cs) := by
  unfold withMetaList
  simp only [List.getLast?_cons_cons]
  cases hl : (c :: cs).getLast? with
  | none => simp at hl
  | some h =>
    by_cases hd : h.del = true <;> by_cases hm : (x.mt == m) = true <;>
      simp [hd, hm, List.find?_cons, List.dropLast_cons_cons]

/-- first entry above the local marker with the wanted metadata, else `Deleted`, else `NotFound`
    = classification of the first record that is a marker or has the wanted metadata -/
theorem withMetaList_cutHdrs (m : Meta) : ∀ X : List Rec,
    withMetaList m (cutHdrs X) = classifyR (X.find? (fun r => r.del || r.mt == m))
  | [] => rfl
  | x :: xs => by
    have ih := withMetaList_cutHdrs m xs
    by_cases hx : x.del = true
    · simp [cutHdrs, hx, withMetaList, classifyR]
    · have hx' : x.del = false := by simpa using hx
      simp only [cutHdrs, hx', Bool.false_eq_true, if_false, List.find?_cons, Bool.false_or]
      cases hc : cutHdrs xs with
      | nil =>
        have : xs = [] := cutHdrs_eq_nil_iff.1 hc
        subst this
        by_cases hm : (x.mt == m) = true
        · simp [withMetaList, hx', hm, classifyR]
        · simp [withMetaList, hx', hm, classifyR]
      | cons c cs =>
        rw [withMetaList_cons_cons, ← hc, ih]
        by_cases hm : (x.mt == m) = true
        · simp [hm, classifyR, hx']
        · simp [hm]

theorem cutHdrs_map_r : ∀ l : List PRec, cutHdrs (l.map (·.r)) = (Spec.cut l).map (·.r)
  | [] => rfl
  | x :: xs => by
    simp only [List.map_cons, cutHdrs, Spec.cut]
    split
    · rfl
    · rw [List.map_cons, cutHdrs_map_r xs]

theorem Blob.getAllCut_eq (b : Blob) (k : Key) :
    b.getAllCut k = (Spec.cut (b.ranked k)).map (·.r) := by
  unfold Blob.getAllCut allCutOfVec
  rw [← b.ranked_map_r k, cutHdrs_map_r]

/-- `Blob::get_entry_with_meta` answers with the blob's first-ranked relevant record -/
theorem Blob.getWithMeta_eq (b : Blob) (k : Key) (m : Meta) :
    b.getWithMeta k m =
      (classify (sortedBy (fun p => p.r.key == k && (p.r.del || p.r.mt == m)) [b.hist]).head?).map
        (·.r) := by
  rw [Blob.getWithMeta_def, Blob.getAllCut]
  unfold allCutOfVec
  rw [withMetaList_cutHdrs, ← b.ranked_map_r k, List.find?_map, classify_map]
  unfold Blob.ranked
  rw [Spec.all_eq_sortedBy, ← filter_sortedBy _ _ (by simp), List.head?_filter]
  rfl

/-! ### the store: visiting order and merging -/

namespace Store

theorem visit_eq (s : Store) : s.visit = s.blobs.reverse := by
  unfold visit blobs
  cases s.active <;> simp

theorem mem_visit {s : Store} {b : Blob} : b ∈ s.visit ↔ b ∈ s.blobs := by
  rw [visit_eq, List.mem_reverse]

theorem WF.ids_sorted {s : Store} (h : s.WF) : (s.blobs.map (·.id)).Pairwise (· < ·) := h.1

theorem WF.history_nodup {s : Store} (h : s.WF) : (s.history.map (·.1)).Nodup := by
  rw [history_eq, map_hist_ids]
  exact h.1.imp (fun hab => Nat.ne_of_lt hab)

theorem getLatestEntry_eq_foldr (s : Store) (k : Key) (m : Option Meta) :
    s.getLatestEntry k m =
      s.blobs.foldr (fun b acc => acc.latest (b.getLatestEntry k m)) .notFound := by
  unfold getLatestEntry getLatestEntryP
  simp only [Bool.not_false]
  rw [List.filter_eq_self.2 (fun _ _ => rfl), visit_eq, List.foldl_reverse]

end Store

theorem sortedBy_nil (q : PRec → Bool) : sortedBy q [] = [] := by
  simp [sortedBy, positioned_nil]

/-- merging per-blob first-ranked records, oldest blob merged last, gives the global first-ranked one -/
theorem foldr_latest_eq (q : PRec → Bool) (g : Blob → ReadResult Rec)
    (hg : ∀ b, g b = (classify (sortedBy q [b.hist]).head?).map (·.r)) :
    ∀ bs : List Blob, (bs.map (·.id)).Pairwise (· < ·) →
      bs.foldr (fun b acc => acc.latest (g b)) .notFound =
        (classify (sortedBy q (bs.map Blob.hist)).head?).map (·.r)
  | [], _ => by simp [sortedBy_nil, classify, ReadResult.map]
  | b :: bs, hs => by
    rw [List.map_cons, List.pairwise_cons] at hs
    rw [List.foldr_cons, foldr_latest_eq q g hg bs hs.2, hg b, latest_classify, List.map_cons]
    have hlt : ∀ i ∈ (bs.map Blob.hist).map (·.1), b.hist.1 < i := by
      intro i hi
      rw [map_hist_ids] at hi
      exact hs.1 i hi
    have hn : ((bs.map Blob.hist).map (·.1)).Nodup := by
      rw [map_hist_ids]
      exact hs.2.imp (fun hab => Nat.ne_of_lt hab)
    rw [head?_sortedBy_cons q hlt hn]

theorem Store.getLatestEntry_eq_sortedBy {s : Store} (hwf : s.WF) (k : Key) (m : Option Meta)
    (q : PRec → Bool)
    (hg : ∀ b : Blob, b.getLatestEntry k m = (classify (sortedBy q [b.hist]).head?).map (·.r)) :
    s.getLatestEntry k m = (classify (sortedBy q s.history).head?).map (·.r) := by
  rw [Store.getLatestEntry_eq_foldr, Store.history_eq]
  exact foldr_latest_eq q _ hg s.blobs hwf.1


/-! ### state transitions: the log only grows -/

/-- `b'` continues `b`: same id, the records of `b` are a prefix of those of `b'`, at most one more -/
def StepOf (b b' : Blob) : Prop :=
  b'.id = b.id ∧ b.recs <+: b'.recs ∧ b'.recs.length ≤ b.recs.length + 1

theorem StepOf.same {b b' : Blob} (hid : b'.id = b.id) (hr : b'.recs = b.recs) : StepOf b b' :=
  ⟨hid, by rw [hr]; exact List.prefix_refl _, by rw [hr]; omega⟩

theorem StepOf.app {b b' : Blob} {r : Rec} (hid : b'.id = b.id) (hr : b'.recs = b.recs ++ [r]) :
    StepOf b b' :=
  ⟨hid, by rw [hr]; exact List.prefix_append _ _, by rw [hr]; simp⟩

/-- `Cont bs bs'`: position by position, `bs'` continues `bs` -/
inductive Cont : List Blob → List Blob → Prop
  | nil : Cont [] []
  | cons {b b' : Blob} {bs bs' : List Blob} : StepOf b b' → Cont bs bs' → Cont (b :: bs) (b' :: bs')

namespace Cont

theorem refl : ∀ bs : List Blob, Cont bs bs
  | [] => .nil
  | _ :: bs => .cons (.same rfl rfl) (refl bs)

theorem map_right {f : Blob → Blob} (hf : ∀ b, StepOf b (f b)) :
    ∀ bs : List Blob, Cont bs (bs.map f)
  | [] => .nil
  | b :: bs => .cons (hf b) (map_right hf bs)

theorem append {a a' b b' : List Blob} (h1 : Cont a a') (h2 : Cont b b') : Cont (a ++ b) (a' ++ b') := by
  induction h1 with
  | nil => exact h2
  | cons hs _ ih => exact .cons hs ih

theorem ids {a b : List Blob} (h : Cont a b) : b.map (·.id) = a.map (·.id) := by
  induction h with
  | nil => rfl
  | cons hs _ ih => simp [hs.1, ih]

theorem fwd {a b : List Blob} (h : Cont a b) : ∀ x ∈ a, ∃ y ∈ b, StepOf x y := by
  induction h with
  | nil => intro x hx; simp at hx
  | cons hs _ ih =>
    intro x hx
    rcases List.mem_cons.1 hx with rfl | hx
    · exact ⟨_, by simp, hs⟩
    · obtain ⟨y, hy, h1⟩ := ih x hx
      exact ⟨y, by simp [hy], h1⟩

theorem bwd {a b : List Blob} (h : Cont a b) : ∀ y ∈ b, ∃ x ∈ a, StepOf x y := by
  induction h with
  | nil => intro x hx; simp at hx
  | cons hs _ ih =>
    intro y hy
    rcases List.mem_cons.1 hy with rfl | hy
    · exact ⟨_, by simp, hs⟩
    · obtain ⟨x, hx, h1⟩ := ih y hy
      exact ⟨x, by simp [hx], h1⟩

end Cont

/-- what one operation does to the list of blobs -/
inductive OpShape (s s' : Store) : Prop
  /-- no blob appears; existing ones are continued -/
  | same : Cont s.blobs s'.blobs → (∀ b ∈ s'.blobs, b.id < s'.nextId) → OpShape s s'
  /-- one new, empty blob with the next id appears at the end -/
  | new (nb : Blob) : nb.id = s.nextId → nb.recs = [] → Cont (s.blobs ++ [nb]) s'.blobs →
      s'.nextId = s.nextId + 1 → OpShape s s'

/-- restart of a storage without any blob (`init_new`); not reachable from `Store.init` -/
def Fresh (s s' : Store) : Prop :=
  s.blobs = [] ∧ s'.blobs = [{ id := 0, recs := [] }] ∧ s'.nextId = 1

namespace Store

theorem WF_iff (s : Store) :
    s.WF ↔ (s.blobs.map (·.id)).Pairwise (· < ·) ∧ ∀ b ∈ s.blobs, b.id < s.nextId := Iff.rfl

theorem WF_of_shape {s s' : Store} (hwf : s.WF) (h : OpShape s s') : s'.WF := by
  cases h with
  | same hc hlt => exact ⟨by rw [hc.ids]; exact hwf.1, hlt⟩
  | new nb hid hrecs hc hn =>
    have hids := hc.ids
    constructor
    · rw [hids, List.map_append, List.pairwise_append]
      refine ⟨hwf.1, by simp, ?_⟩
      intro a ha b hb
      simp only [List.map_cons, List.map_nil, List.mem_singleton] at hb
      obtain ⟨x, hx, rfl⟩ := List.mem_map.1 ha
      rw [hb, hid]; exact hwf.2 x hx
    · intro b hb
      have : b.id ∈ s'.blobs.map (·.id) := List.mem_map_of_mem hb
      rw [hids, List.map_append, List.mem_append] at this
      rcases this with h1 | h1
      · obtain ⟨x, hx, hxe⟩ := List.mem_map.1 h1
        have := hwf.2 x hx
        omega
      · simp only [List.map_cons, List.map_nil, List.mem_singleton] at h1
        omega

theorem WF_of_fresh {s s' : Store} (h : Fresh s s') : s'.WF := by
  obtain ⟨_, hb, hn⟩ := h
  constructor
  · rw [hb]; simp
  · rw [hb, hn]; simp

/-- an `ensureActive`-like step: records untouched, possibly a new empty active blob -/
inductive Grow (s s₁ : Store) : Prop
  | same : s₁.blobs = s.blobs → s₁.nextId = s.nextId → Grow s s₁
  | new : s₁.blobs = s.blobs ++ [{ id := s.nextId, recs := [] }] → s₁.nextId = s.nextId + 1 → Grow s s₁

theorem Grow.toShape {s s₁ : Store} (hwf : s.WF) (g : Grow s s₁) : OpShape s s₁ := by
  cases g with
  | same hb hn => exact .same (by rw [hb]; exact Cont.refl _) (by rw [hb, hn]; exact hwf.2)
  | new hb hn => exact .new _ rfl rfl (by rw [hb]; exact Cont.refl _) hn

theorem Grow.then_same {s s₁ s₂ : Store} (hwf : s.WF) (g : Grow s s₁) (hc : Cont s₁.blobs s₂.blobs)
    (hn : s₂.nextId = s₁.nextId) : OpShape s s₂ := by
  have hwf₁ := WF_of_shape hwf (g.toShape hwf)
  have hlt : ∀ b ∈ s₂.blobs, b.id < s₂.nextId := by
    intro b hb
    obtain ⟨x, hx, hid, _⟩ := hc.bwd b hb
    rw [hn, hid]; exact hwf₁.2 x hx
  cases g with
  | same hb _ => exact .same (by rw [← hb]; exact hc) hlt
  | new hb hn' => exact .new _ rfl rfl (by rw [← hb]; exact hc) (by rw [hn, hn'])

/-! #### closed blobs under slot manipulations -/

theorem closed_map_option (f : Blob → Blob) : ∀ slots : List (Option Blob),
    (slots.map (Option.map f)).filterMap id = (slots.filterMap id).map f
  | [] => rfl
  | none :: r => by simp [closed_map_option f r]
  | some b :: r => by simp [closed_map_option f r]

theorem closed_map_option' (f : Blob → Blob) (slots : List (Option Blob)) :
    slots.filterMap (fun o => Option.map f o) = (slots.filterMap id).map f := by
  rw [← closed_map_option, List.filterMap_map]; rfl

theorem filterMap_id_map_some (f : Blob → Blob) (bs : List Blob) :
    (bs.map (fun b => some (f b))).filterMap id = bs.map f := by
  simp [List.filterMap_map, Function.comp_def]

theorem lastPresent_none : ∀ {slots : List (Option Blob)}, lastPresent slots = none →
    slots.filterMap id = []
  | [], _ => rfl
  | o :: rest, h => by
    unfold lastPresent at h
    cases hr : lastPresent rest with
    | some p => rw [hr] at h; simp at h
    | none =>
      rw [hr] at h
      cases o with
      | some b => simp at h
      | none => simp [lastPresent_none hr]

theorem lastPresent_some : ∀ {slots : List (Option Blob)} {i : Nat} {b : Blob},
    lastPresent slots = some (i, b) → (slots.set i none).filterMap id ++ [b] = slots.filterMap id
  | [], _, _, h => by simp [lastPresent] at h
  | o :: rest, i, b, h => by
    unfold lastPresent at h
    cases hr : lastPresent rest with
    | some p =>
      obtain ⟨j, b'⟩ := p
      rw [hr] at h
      simp only [Option.some.injEq, Prod.mk.injEq] at h
      obtain ⟨rfl, rfl⟩ := h
      have ih := lastPresent_some hr
      cases o with
      | none => simpa using ih
      | some c => simp [← ih]
    | none =>
      rw [hr] at h
      cases o with
      | none => simp at h
      | some c =>
        simp only [Option.some.injEq, Prod.mk.injEq] at h
        obtain ⟨rfl, rfl⟩ := h
        simp [lastPresent_none hr]

theorem sortById_of_sorted : ∀ l : List Blob, (l.map (·.id)).Pairwise (· < ·) → sortById l = l
  | [], _ => rfl
  | b :: rest, h => by
    rw [List.map_cons, List.pairwise_cons] at h
    have ih := sortById_of_sorted rest h.2
    unfold sortById at ih ⊢
    rw [List.foldr_cons, ih]
    cases rest with
    | nil => rfl
    | cons c cs =>
      have : b.id < c.id := h.1 c.id (by simp)
      simp [insertById, this]

theorem foldl_max_spec : ∀ (bs : List Blob) (m : Nat),
    m ≤ bs.foldl (fun m b => max m (b.id + 1)) m ∧
      ∀ b ∈ bs, b.id < bs.foldl (fun m b => max m (b.id + 1)) m
  | [], m => ⟨Nat.le_refl _, by simp⟩
  | x :: xs, m => by
    have ih := foldl_max_spec xs (max m (x.id + 1))
    simp only [List.foldl_cons]
    refine ⟨by omega, ?_⟩
    intro b hb
    rcases List.mem_cons.1 hb with rfl | hb
    · omega
    · exact ih.2 b hb

/-! #### shapes of the individual operations -/

theorem blobs_createActive {s : Store} (h : s.active = none) :
    s.createActive.blobs = s.blobs ++ [{ id := s.nextId, recs := [] }] := by
  simp [createActive, blobs, closed, h]

theorem createActive_shape {s : Store} (h : s.active = none) : OpShape s s.createActive :=
  .new { id := s.nextId, recs := [] } rfl rfl (by rw [blobs_createActive h]; exact Cont.refl _) rfl

theorem ensureActive_grow (s : Store) : Grow s s.ensureActive := by
  unfold ensureActive
  cases h : s.active with
  | some a => exact .same rfl rfl
  | none => exact .new (blobs_createActive h) rfl

theorem cont_append_rec (bs : List Blob) (a : Blob) (r : Rec) :
    Cont (bs ++ [a]) (bs ++ [a.append r]) :=
  Cont.append (Cont.refl _) (.cons (.app rfl rfl) .nil)

theorem write_shape {s : Store} (hwf : s.WF) (k : Key) (ts : Nat) (m : Option Meta) (d : Data) :
    OpShape s (s.write k ts m d) := by
  have h1 := ensureActive_grow s
  simp only [write]
  split
  · exact h1.toShape hwf
  · split
    · exact h1.toShape hwf
    · rename_i a ha
      refine h1.then_same hwf ?_ rfl
      simp only [blobs, closed, ha, Option.toList]
      exact cont_append_rec _ _ _

/-- the deletion marker -/
def marker (k : Key) (ts : Nat) (m : Option Meta) : Rec :=
  { key := k, ts := ts, del := true, mt := m.getD none, data := ⟨0, 0⟩ }

/-- a blob with the deletion marker appended (its index gets loaded) -/
def mark (k : Key) (ts : Nat) (m : Option Meta) (b : Blob) : Blob :=
  { b with recs := b.recs ++ [marker k ts m], onDisk := false }

theorem blobDelete_fst (b : Blob) (k : Key) (ts : Nat) (m : Option Meta) (oip : Bool) :
    (blobDelete b k ts m oip).1 =
      if !oip || (b.getLatest k).isFound then mark k ts m b else b := by
  unfold blobDelete; split <;> rfl

theorem blobDelete_snd (b : Blob) (k : Key) (ts : Nat) (m : Option Meta) (oip : Bool) :
    (blobDelete b k ts m oip).2 = (!oip || (b.getLatest k).isFound) := by
  unfold blobDelete; split <;> simp_all

theorem blobDelete_cont (b : Blob) (k : Key) (ts : Nat) (m : Option Meta) (oip : Bool) :
    StepOf b (blobDelete b k ts m oip).1 := by
  rw [blobDelete_fst]; split
  · exact .app rfl rfl
  · exact .same rfl rfl

/-- the state `delete` starts from: without `only_if_presented` an active blob is created if missing -/
def deleteBase (s : Store) (oip : Bool) : Store := if oip then s else s.ensureActive

theorem delete_blobs (s : Store) (k : Key) (ts : Nat) (m : Option Meta) (oip : Bool) :
    (s.delete k ts m oip).1.blobs =
      (s.deleteBase oip).closed.map (fun b => (blobDelete b k ts m true).1) ++
        (s.deleteBase oip).active.toList.map (fun b => (blobDelete b k ts m oip).1) := by
  simp only [delete, deleteBase]
  generalize (if oip = true then s else s.ensureActive) = s0
  cases h : s0.active with
  | none => simp [blobs, closed, List.map_map, Function.comp_def, closed_map_option']
  | some a => simp [blobs, closed, List.map_map, Function.comp_def, closed_map_option']

theorem delete_nextId (s : Store) (k : Key) (ts : Nat) (m : Option Meta) (oip : Bool) :
    (s.delete k ts m oip).1.nextId = (s.deleteBase oip).nextId := by
  simp only [delete, deleteBase]

theorem deleteBase_grow (s : Store) (oip : Bool) : Grow s (s.deleteBase oip) := by
  unfold deleteBase; split
  · exact .same rfl rfl
  · exact ensureActive_grow s

theorem delete_shape {s : Store} (hwf : s.WF) (k : Key) (ts : Nat) (m : Option Meta) (oip : Bool) :
    OpShape s (s.delete k ts m oip).1 := by
  refine (deleteBase_grow s oip).then_same hwf ?_ (delete_nextId s k ts m oip)
  rw [delete_blobs]
  conv => lhs; unfold blobs
  exact Cont.append (Cont.map_right (fun b => blobDelete_cont b k ts m true) _)
    (Cont.map_right (fun b => blobDelete_cont b k ts m oip) _)

theorem closeActive_shape {s s' : Store} (hwf : s.WF) (h : s.closeActive = .ok s') : OpShape s s' := by
  unfold closeActive at h
  cases ha : s.active with
  | none => rw [ha] at h; simp at h
  | some a =>
    rw [ha] at h
    simp only [Except.ok.injEq] at h
    subst h
    have hb : ({ s with active := none, slots := s.slots ++ [some a] } : Store).blobs = s.blobs := by
      simp [blobs, closed, ha, List.filterMap_append]
    exact .same (by rw [hb]; exact Cont.refl _) (by rw [hb]; exact hwf.2)

theorem tryCreateActive_shape {s s' : Store} (h : s.tryCreateActive = .ok s') : OpShape s s' := by
  unfold tryCreateActive at h
  cases ha : s.active with
  | some a => rw [ha] at h; simp at h
  | none =>
    rw [ha] at h
    simp only [Except.ok.injEq] at h
    subst h
    exact createActive_shape ha

theorem lt_nextId_of_cont {s s' : Store} (_hwf : s.WF) (hc : Cont s.blobs s'.blobs)
    (hn : ∀ b ∈ s.blobs, b.id < s'.nextId) : ∀ b ∈ s'.blobs, b.id < s'.nextId := by
  intro x hx
  obtain ⟨y, hy, hid, _⟩ := hc.bwd x hx
  rw [hid]; exact hn y hy

theorem restoreActive_shape {s s' : Store} (hwf : s.WF) (h : s.restoreActive = .ok s') :
    OpShape s s' := by
  unfold restoreActive at h
  cases ha : s.active with
  | some a => rw [ha] at h; simp at h
  | none =>
    rw [ha] at h
    cases hl : lastPresent s.slots with
    | none => rw [hl] at h; simp at h
    | some p =>
      obtain ⟨i, b⟩ := p
      rw [hl] at h
      simp only [Except.ok.injEq] at h
      subst h
      have hb : s.blobs = (s.slots.set i none).filterMap id ++ [b] := by
        simp [blobs, closed, ha, lastPresent_some hl]
      have hc : Cont s.blobs
          ({ s with active := some { b with onDisk := false }, slots := s.slots.set i none } : Store).blobs := by
        rw [hb]
        simp only [blobs, closed, Option.toList]
        exact Cont.append (Cont.refl _) (.cons (.same rfl rfl) .nil)
      exact .same hc (lt_nextId_of_cont hwf hc hwf.2)

theorem replaceActive_shape (s : Store) : OpShape s s.replaceActive := by
  unfold replaceActive
  cases ha : s.active with
  | none => exact createActive_shape ha
  | some a =>
    refine .new { id := s.nextId, recs := [] } rfl rfl ?_ rfl
    simp [blobs, closed, createActive, ha, List.filterMap_append]
    exact Cont.refl _

theorem dumpFlag_cont (b : Blob) :
    StepOf b (if b.recs.isEmpty then b else { b with onDisk := true }) := by
  split <;> exact .same rfl rfl

theorem settle_shape {s : Store} (hwf : s.WF) : OpShape s s.settle := by
  have hc : Cont s.blobs s.settle.blobs := by
    simp only [settle, blobs, closed, closed_map_option]
    exact Cont.append (Cont.map_right dumpFlag_cont _) (Cont.refl _)
  exact .same hc (lt_nextId_of_cont hwf hc hwf.2)

theorem restart_shape {s : Store} (hwf : s.WF) (lazy : Bool) :
    OpShape s (s.restart lazy) ∨ Fresh s (s.restart lazy) := by
  have hsort := sortById_of_sorted s.blobs hwf.1
  have hmax := foldl_max_spec s.blobs 0
  cases lazy with
  | true =>
    left
    have hb : (s.restart true).blobs =
        s.blobs.map (fun b => if b.recs.isEmpty then b else { b with onDisk := true }) := by
      simp only [restart, hsort, if_true]
      generalize s.blobs = bs
      simp only [blobs, closed, Option.toList, List.append_nil, filterMap_id_map_some]
    have hn : (s.restart true).nextId = s.blobs.foldl (fun m b => max m (b.id + 1)) 0 := by
      simp only [restart, hsort, if_true]
    have hc : Cont s.blobs (s.restart true).blobs := by
      rw [hb]; exact Cont.map_right dumpFlag_cont _
    exact .same hc (lt_nextId_of_cont hwf hc (by rw [hn]; exact hmax.2))
  | false =>
    cases hl : s.blobs.getLast? with
    | none =>
      right
      have h0 : s.blobs = [] := List.getLast?_eq_none_iff.1 hl
      refine ⟨h0, ?_, ?_⟩
      · simp only [restart, hsort, hl, Bool.false_eq_true, if_false]
        simp [createActive, blobs, closed]
      · simp only [restart, hsort, hl, Bool.false_eq_true, if_false]
        rfl
    | some a =>
      left
      obtain ⟨ys, hys⟩ := List.getLast?_eq_some_iff.1 hl
      have hb : (s.restart false).blobs =
          ys.map (fun b => if b.recs.isEmpty then b else { b with onDisk := true }) ++
            [{ a with onDisk := false }] := by
        simp only [restart, hsort, hl, Bool.false_eq_true, if_false]
        rw [hys, List.dropLast_concat]
        generalize ys = zs
        simp only [blobs, closed, Option.toList, filterMap_id_map_some]
      have hn : (s.restart false).nextId = s.blobs.foldl (fun m b => max m (b.id + 1)) 0 := by
        simp only [restart, hsort, hl, Bool.false_eq_true, if_false]
      have hc : Cont s.blobs (s.restart false).blobs := by
        rw [hb]; conv => lhs; rw [hys]
        exact Cont.append (Cont.map_right dumpFlag_cont _) (.cons (.same rfl rfl) .nil)
      exact .same hc (lt_nextId_of_cont hwf hc (by rw [hn]; exact hmax.2))

theorem apply_shape {s : Store} (hwf : s.WF) (op : Op) :
    OpShape s (s.apply op) ∨ Fresh s (s.apply op) := by
  cases op with
  | write k ts m d => exact Or.inl (write_shape hwf k ts m d)
  | delete k ts m oip => exact Or.inl (delete_shape hwf k ts m oip)
  | closeActive =>
    simp only [apply]
    cases h : s.closeActive with
    | ok s' => exact Or.inl (closeActive_shape hwf h)
    | error e => exact Or.inl (.same (Cont.refl _) hwf.2)
  | createActive =>
    simp only [apply]
    cases h : s.tryCreateActive with
    | ok s' => exact Or.inl (tryCreateActive_shape h)
    | error e => exact Or.inl (.same (Cont.refl _) hwf.2)
  | restoreActive =>
    simp only [apply]
    cases h : s.restoreActive with
    | ok s' => exact Or.inl (restoreActive_shape hwf h)
    | error e => exact Or.inl (.same (Cont.refl _) hwf.2)
  | replaceActive => exact Or.inl (replaceActive_shape s)
  | settle => exact Or.inl (settle_shape hwf)
  | restart lazy => exact restart_shape hwf lazy

theorem apply_WF' {s : Store} (hwf : s.WF) (op : Op) : (s.apply op).WF := by
  rcases apply_shape hwf op with h | h
  · exact WF_of_shape hwf h
  · exact WF_of_fresh h

theorem blobs_ne_nil_of_shape {s s' : Store} (hne : s.blobs ≠ []) (h : OpShape s s') :
    s'.blobs ≠ [] := by
  intro h0
  cases h with
  | same hc _ =>
    have := hc.ids
    rw [h0] at this
    exact hne (List.map_eq_nil_iff.1 this.symm)
  | new nb _ _ hc _ =>
    have := hc.ids
    rw [h0] at this
    have := List.map_eq_nil_iff.1 this.symm
    simp at this

/-! #### runs -/

theorem init_WF' (d : Bool) : (Store.init d).WF := by
  constructor
  · simp [init, createActive, blobs, closed]
  · simp [init, createActive, blobs, closed]

theorem init_blobs_ne_nil (d : Bool) : (Store.init d).blobs ≠ [] := by
  simp [init, createActive, blobs, closed]

theorem run_nil (s : Store) : s.run [] = s := rfl

theorem run_cons (s : Store) (op : Op) (ops : List Op) : s.run (op :: ops) = (s.apply op).run ops := rfl

/-- invariant of all runs: well-formed and at least one blob exists -/
theorem run_inv {s : Store} (hwf : s.WF) (hne : s.blobs ≠ []) :
    ∀ ops : List Op, (s.run ops).WF ∧ (s.run ops).blobs ≠ []
  | [] => ⟨hwf, hne⟩
  | op :: ops => by
    rw [run_cons]
    rcases apply_shape hwf op with h | h
    · exact run_inv (WF_of_shape hwf h) (blobs_ne_nil_of_shape hne h) ops
    · exact absurd h.1 hne

/-! #### membership in the history -/

theorem mem_history_positioned {s : Store} {p : PRec} :
    p ∈ History.positioned s.history ↔ ∃ b ∈ s.blobs, p ∈ positionedFrom b.id 0 b.recs := by
  rw [mem_positioned, history_eq]
  constructor
  · rintro ⟨hb, hmem, hp⟩
    obtain ⟨b, hb', rfl⟩ := List.mem_map.1 hmem
    exact ⟨b, hb', hp⟩
  · rintro ⟨b, hb, hp⟩
    exact ⟨b.hist, List.mem_map_of_mem hb, hp⟩

theorem no_key_iff {s : Store} {k : Key} :
    (∀ p ∈ History.positioned s.history, (p.r.key == k) = false) ↔
      ∀ b ∈ s.blobs, ∀ r ∈ b.recs, r.key ≠ k := by
  constructor
  · intro h b hb r hr
    obtain ⟨p, hp, rfl⟩ := exists_positionedFrom_of_mem (id := b.id) (i := 0) hr
    simpa using h p (mem_history_positioned.2 ⟨b, hb, hp⟩)
  · intro h p hp
    obtain ⟨b, hb, hpb⟩ := mem_history_positioned.1 hp
    simpa using h b hb p.r (mem_positionedFrom_r hpb)

end Store

theorem classify_map_eq_notFound {o : Option PRec} :
    (classify o).map (·.r) = .notFound ↔ o = none := by
  cases o with
  | none => simp [classify, ReadResult.map]
  | some p => simp only [classify]; split <;> simp [ReadResult.map]

theorem ReadResult.map_map {α β γ} (f : α → β) (g : β → γ) (x : ReadResult α) :
    (x.map f).map g = x.map (fun a => g (f a)) := by
  cases x <;> rfl

theorem ReadResult.latest_notFound (acc : ReadResult Rec) : acc.latest .notFound = acc := by
  unfold ReadResult.latest
  cases h : acc.ts? <;> simp [ReadResult.ts?, optGt]

theorem Blob.getLatestEntry_of_no_key {b : Blob} {k : Key} (h : ∀ r ∈ b.recs, r.key ≠ k)
    (m : Option Meta) : b.getLatestEntry k m = .notFound := by
  have hv : b.vec k = [] := vecOf_eq_nil_iff.2 h
  cases m with
  | none => simp [Blob.getLatestEntry, Blob.getLatest, hv, latestOfVec]
  | some m =>
    simp [Blob.getLatestEntry, Blob.getWithMeta, Blob.getAllCut, hv, allCutOfVec, cutHdrs]

theorem foldl_filter_neutral {α β} (f : β → α → β) (p : α → Bool) :
    ∀ (l : List α) (init : β), (∀ a ∈ l, p a = false → ∀ acc, f acc a = acc) →
      (l.filter p).foldl f init = l.foldl f init
  | [], _, _ => rfl
  | a :: l, init, h => by
    have ih := fun i => foldl_filter_neutral f p l i (fun a ha => h a (List.mem_cons_of_mem _ ha))
    cases hp : p a with
    | true => rw [List.filter_cons_of_pos hp, List.foldl_cons, List.foldl_cons, ih]
    | false =>
      rw [List.filter_cons_of_neg (by simp [hp]), List.foldl_cons, h a (by simp) hp init, ih]

/-! ### stable sort by timestamp, descending -/

/-- `Store.insertDesc` for any element type -/
def insertDescBy {α} (f : α → Nat) (x : α) : List α → List α
  | [] => [x]
  | y :: ys => if f x ≥ f y then x :: y :: ys else y :: insertDescBy f x ys

def sortDescBy {α} (f : α → Nat) (l : List α) : List α := l.foldr (insertDescBy f) []

/-- descending by key `f`, ties related by `R` -/
def DescBy {α} (f : α → Nat) (R : α → α → Prop) (a b : α) : Prop := f a > f b ∨ (f a = f b ∧ R a b)

theorem insertDesc_eq (x : Rec) : ∀ l : List Rec, Store.insertDesc x l = insertDescBy Rec.ts x l
  | [] => rfl
  | y :: ys => by simp only [Store.insertDesc, insertDescBy, insertDesc_eq x ys]

theorem sortDesc_eq (l : List Rec) : Store.sortDesc l = sortDescBy Rec.ts l := by
  unfold Store.sortDesc sortDescBy
  induction l with
  | nil => rfl
  | cons x xs ih => rw [List.foldr_cons, List.foldr_cons, ih, insertDesc_eq]

theorem insertDescBy_map {α β} (g : α → β) (f : β → Nat) (x : α) : ∀ l : List α,
    (insertDescBy (fun a => f (g a)) x l).map g = insertDescBy f (g x) (l.map g)
  | [] => rfl
  | y :: ys => by
    simp only [insertDescBy, List.map_cons]
    split
    · rfl
    · rw [List.map_cons, insertDescBy_map g f x ys]

theorem sortDescBy_map {α β} (g : α → β) (f : β → Nat) : ∀ l : List α,
    (sortDescBy (fun a => f (g a)) l).map g = sortDescBy f (l.map g)
  | [] => rfl
  | x :: xs => by
    have ih := sortDescBy_map g f xs
    unfold sortDescBy at ih ⊢
    rw [List.foldr_cons, insertDescBy_map, ih, List.map_cons, List.foldr_cons]

theorem insertDescBy_perm {α} (f : α → Nat) (x : α) : ∀ l : List α, (insertDescBy f x l).Perm (x :: l)
  | [] => List.Perm.refl _
  | y :: ys => by
    simp only [insertDescBy]
    split
    · exact List.Perm.refl _
    · exact ((insertDescBy_perm f x ys).cons y).trans (List.Perm.swap x y ys)

theorem sortDescBy_perm {α} (f : α → Nat) : ∀ l : List α, (sortDescBy f l).Perm l
  | [] => List.Perm.refl _
  | x :: xs => by
    have ih := sortDescBy_perm f xs
    unfold sortDescBy at ih ⊢
    rw [List.foldr_cons]
    exact (insertDescBy_perm f x _).trans (ih.cons x)

theorem insertDescBy_pairwise {α} {f : α → Nat} {R : α → α → Prop} {x : α} : ∀ {l : List α},
    l.Pairwise (DescBy f R) → (∀ y ∈ l, R x y) → (insertDescBy f x l).Pairwise (DescBy f R)
  | [], _, _ => by simp [insertDescBy]
  | y :: ys, hl, hx => by
    simp only [insertDescBy]
    rw [List.pairwise_cons] at hl
    split
    · rename_i hge
      refine List.pairwise_cons.2 ⟨?_, List.pairwise_cons.2 hl⟩
      intro z hz
      have hRz := hx z hz
      rcases List.mem_cons.1 hz with rfl | hz'
      · unfold DescBy
        by_cases h : f x = f z
        · exact Or.inr ⟨h, hRz⟩
        · exact Or.inl (by omega)
      · have := hl.1 z hz'
        unfold DescBy at this ⊢
        by_cases h : f x = f z
        · exact Or.inr ⟨h, hRz⟩
        · exact Or.inl (by omega)
    · rename_i hlt
      refine List.pairwise_cons.2 ⟨?_, insertDescBy_pairwise hl.2 (fun z hz => hx z (by simp [hz]))⟩
      intro w hw
      rcases List.mem_cons.1 ((insertDescBy_perm f x ys).mem_iff.1 hw) with rfl | hw
      · exact Or.inl (by omega)
      · exact hl.1 w hw

/-- a stable descending sort turns "ties are `R`-ordered" into "sorted by (key desc, then `R`)" -/
theorem sortDescBy_pairwise {α} {f : α → Nat} {R : α → α → Prop} : ∀ {l : List α},
    l.Pairwise R → (sortDescBy f l).Pairwise (DescBy f R)
  | [], _ => by simp [sortDescBy]
  | x :: xs, hl => by
    rw [List.pairwise_cons] at hl
    have ih := sortDescBy_pairwise (f := f) hl.2
    have hp := sortDescBy_perm f xs
    unfold sortDescBy at ih hp ⊢
    rw [List.foldr_cons]
    exact insertDescBy_pairwise ih (fun y hy => hl.1 y (hp.mem_iff.1 hy))

/-! ### `read_all_with_deletion_marker` on positioned records -/

/-- body of `Store.readAllMarked` as a function of the per-blob lists -/
def readAllMarkedL (per : List (List Rec)) : List Rec :=
  let affected := (per.filter (fun l => !l.isEmpty)).length
  let delPresent := per.any (fun l => match l.getLast? with | some h => h.del | none => false)
  let all := per.flatten
  if affected > 1 then
    let sorted := Store.sortDesc all
    if delPresent then cutHdrs sorted else sorted
  else all

theorem Store.readAllMarked_def (s : Store) (k : Key) :
    s.readAllMarked k = readAllMarkedL (s.visit.map (fun b => b.getAllCut k)) := rfl

/-- the same on positioned records -/
def readAllMarkedP (per : List (List PRec)) : List PRec :=
  let affected := (per.filter (fun l => !l.isEmpty)).length
  let delPresent := per.any (fun l => match l.getLast? with | some h => h.r.del | none => false)
  let all := per.flatten
  if affected > 1 then
    let sorted := sortDescBy (fun p => p.r.ts) all
    if delPresent then Spec.cut sorted else sorted
  else all

theorem lastDel_map (l : List PRec) :
    (match (l.map (·.r)).getLast? with | some h => h.del | none => false) =
      (match l.getLast? with | some h => h.r.del | none => false) := by
  rw [List.getLast?_map]; cases l.getLast? <;> rfl

theorem readAllMarkedL_map (per : List (List PRec)) :
    readAllMarkedL (per.map (List.map (·.r))) = (readAllMarkedP per).map (·.r) := by
  have h1 : ((per.map (List.map (·.r))).filter (fun l => !l.isEmpty)).length =
      (per.filter (fun l => !l.isEmpty)).length := by
    rw [List.filter_map, List.length_map]
    congr 1
    apply List.filter_congr
    intro l _
    simp
  have h2 : (per.map (List.map (·.r))).any
        (fun l => match l.getLast? with | some h => h.del | none => false) =
      per.any (fun l => match l.getLast? with | some h => h.r.del | none => false) := by
    rw [List.any_map]
    congr 1
    funext l
    exact lastDel_map l
  have h3 : (per.map (List.map (·.r))).flatten = per.flatten.map (·.r) := by
    rw [List.map_flatten]
  unfold readAllMarkedL readAllMarkedP
  simp only [h1, h2, h3, sortDesc_eq]
  rw [← sortDescBy_map (g := PRec.r) (f := Rec.ts), cutHdrs_map_r]
  split
  · split <;> rfl
  · rfl

theorem Store.readAllMarked_eq_P (s : Store) (k : Key) :
    s.readAllMarked k =
      (readAllMarkedP (s.visit.map (fun b => Spec.cut (b.ranked k)))).map (·.r) := by
  rw [Store.readAllMarked_def, ← readAllMarkedL_map, List.map_map]
  congr 1
  apply List.map_congr_left
  intro b _
  exact b.getAllCut_eq k

/-- order in which the per-blob lists are concatenated: newer blob first, rank order inside a blob -/
def VisitR (a b : PRec) : Prop := a.blob > b.blob ∨ (a.blob = b.blob ∧ rankBefore a b = true)

theorem rankBefore_of_descBy_visitR {a b : PRec}
    (h : DescBy (fun p : PRec => p.r.ts) VisitR a b) : rankBefore a b = true := by
  rcases h with h | ⟨h1, h2 | ⟨_, h3⟩⟩
  · exact rankBefore_iff.2 (Or.inl h)
  · exact rankBefore_iff.2 (Or.inr ⟨h1, Or.inl h2⟩)
  · exact h3

section
variable {s : Store} (hwf : s.WF) (k : Key)

/-- the concatenated per-blob lists -/
def Store.perCut (s : Store) (k : Key) : List (List PRec) :=
  s.visit.map (fun b => Spec.cut (b.ranked k))

theorem Store.mem_perCut_flatten {p : PRec} :
    p ∈ (s.perCut k).flatten ↔ ∃ b ∈ s.blobs, p ∈ Spec.cut (b.ranked k) := by
  unfold Store.perCut
  rw [List.mem_flatten]
  constructor
  · rintro ⟨l, hl, hp⟩
    obtain ⟨b, hb, rfl⟩ := List.mem_map.1 hl
    exact ⟨b, Store.mem_visit.1 hb, hp⟩
  · rintro ⟨b, hb, hp⟩
    exact ⟨_, List.mem_map_of_mem (Store.mem_visit.2 hb), hp⟩

include hwf in
theorem Store.perCut_flatten_pairwise : (s.perCut k).flatten.Pairwise VisitR := by
  unfold Store.perCut
  rw [List.pairwise_flatten]
  constructor
  · intro l hl
    obtain ⟨b, _, rfl⟩ := List.mem_map.1 hl
    have h1 : RankSorted (Spec.cut (b.ranked k)) := (b.ranked_sorted k).sublist (cut_sublist _)
    have h2 : (Spec.cut (b.ranked k)).Pairwise (fun x y => x.blob = b.id ∧ y.blob = b.id) :=
      List.pairwise_of_forall_mem_list (fun x hx y hy =>
        ⟨Blob.blob_of_mem_ranked ((cut_sublist _).subset hx),
         Blob.blob_of_mem_ranked ((cut_sublist _).subset hy)⟩)
    exact (h1.and h2).imp (fun h => Or.inr ⟨h.2.1.trans h.2.2.symm, h.1⟩)
  · rw [List.pairwise_map, Store.visit_eq, List.pairwise_reverse]
    have := hwf.1
    rw [List.pairwise_map] at this
    refine this.imp ?_
    intro b₁ b₂ hlt x hx y hy
    left
    rw [Blob.blob_of_mem_ranked ((cut_sublist _).subset hx),
      Blob.blob_of_mem_ranked ((cut_sublist _).subset hy)]
    exact hlt

/-- the sorted concatenation -/
def Store.sortedCut (s : Store) (k : Key) : List PRec :=
  sortDescBy (fun p => p.r.ts) (s.perCut k).flatten

include hwf in
theorem Store.sortedCut_sorted : RankSorted (s.sortedCut k) :=
  (sortDescBy_pairwise (Store.perCut_flatten_pairwise hwf k)).imp rankBefore_of_descBy_visitR

theorem Store.mem_sortedCut {p : PRec} :
    p ∈ s.sortedCut k ↔ ∃ b ∈ s.blobs, p ∈ Spec.cut (b.ranked k) := by
  unfold Store.sortedCut
  rw [(sortDescBy_perm _ _).mem_iff, Store.mem_perCut_flatten]

theorem Store.mem_all {p : PRec} :
    p ∈ Spec.all s.history k ↔ ∃ b ∈ s.blobs, p ∈ b.ranked k := by
  rw [Spec.all_eq_sortedBy, mem_sortedBy, Store.mem_history_positioned]
  constructor
  · rintro ⟨⟨b, hb, hp⟩, hk⟩
    exact ⟨b, hb, Blob.mem_ranked.2 ⟨hp, by simpa using hk⟩⟩
  · rintro ⟨b, hb, hp⟩
    have := Blob.mem_ranked.1 hp
    exact ⟨⟨b, hb, this.1⟩, by simpa using this.2⟩

include hwf in
/-- per-blob cuts lose nothing the global cut keeps -/
theorem Store.cut_sortedCut : Spec.cut (s.sortedCut k) = Spec.cut (Spec.all s.history k) := by
  have hS := Store.sortedCut_sorted hwf k
  have hA : RankSorted (Spec.all s.history k) := sortedBy_sorted _ hwf.history_nodup
  refine RankSorted.eq_of_mem_iff (hS.sublist (cut_sublist _)) (hA.sublist (cut_sublist _)) ?_
  intro p
  rw [mem_cut_iff hS, mem_cut_iff hA]
  constructor
  · rintro ⟨hp, hno⟩
    obtain ⟨b, hb, hpb⟩ := (Store.mem_sortedCut k).1 hp
    refine ⟨(Store.mem_all k).2 ⟨b, hb, (cut_sublist _).subset hpb⟩, ?_⟩
    intro d hd hdd hbefore
    obtain ⟨b', hb', hdb'⟩ := (Store.mem_all k).1 hd
    obtain ⟨d', hd'cut, hd'del, hd'⟩ := exists_del_cut (b'.ranked_sorted k) hdb' hdd
    apply hno d' ((Store.mem_sortedCut k).2 ⟨b', hb', hd'cut⟩) hd'del
    rcases hd' with rfl | h
    · exact hbefore
    · exact rankBefore_trans h hbefore
  · rintro ⟨hp, hno⟩
    obtain ⟨b, hb, hpb⟩ := (Store.mem_all k).1 hp
    have hpc : p ∈ Spec.cut (b.ranked k) :=
      (mem_cut_iff (b.ranked_sorted k)).2
        ⟨hpb, fun d hd hdd => hno d ((Store.mem_all k).2 ⟨b, hb, hd⟩) hdd⟩
    refine ⟨(Store.mem_sortedCut k).2 ⟨b, hb, hpc⟩, fun d hd hdd => ?_⟩
    obtain ⟨b', hb', hdb'⟩ := (Store.mem_sortedCut k).1 hd
    exact hno d ((Store.mem_all k).2 ⟨b', hb', (cut_sublist _).subset hdb'⟩) hdd

end

theorem flatten_eq_nil_of_filter {α} : ∀ {per : List (List α)},
    (per.filter (fun l => !l.isEmpty)).length = 0 → per.flatten = []
  | [], _ => rfl
  | l :: rest, h => by
    cases l with
    | nil => simpa using flatten_eq_nil_of_filter (per := rest) (by simpa using h)
    | cons a l => simp at h

/-- the `affected ≤ 1` shortcut: the concatenation is a single per-blob list -/
theorem flatten_of_le_one {α} : ∀ {per : List (List α)},
    (per.filter (fun l => !l.isEmpty)).length ≤ 1 → per.flatten = [] ∨ per.flatten ∈ per
  | [], _ => Or.inl rfl
  | l :: rest, h => by
    cases l with
    | nil =>
      rcases flatten_of_le_one (per := rest) (by simpa using h) with h' | h'
      · left; simpa using h'
      · right; simpa using Or.inr h'
    | cons a l =>
      have : rest.flatten = [] := flatten_eq_nil_of_filter (by simpa using h)
      right
      simp [this]

theorem Store.readAllMarkedP_eq {s : Store} (hwf : s.WF) (k : Key) :
    readAllMarkedP (s.perCut k) = Spec.cut (Spec.all s.history k) := by
  have hmain := Store.cut_sortedCut hwf k
  have hS := Store.sortedCut_sorted hwf k
  unfold readAllMarkedP
  simp only []
  split
  · -- more than one blob affected: sort, and cut if a marker was seen
    split
    · exact hmain
    · rename_i hdel
      rw [← hmain]
      symm
      apply cut_eq_self_of_no_del
      intro p hp
      obtain ⟨b, hb, hpb⟩ := (Store.mem_sortedCut k).1 hp
      cases hd : p.r.del with
      | false => rfl
      | true =>
        exfalso
        apply hdel
        rw [List.any_eq_true]
        refine ⟨Spec.cut (b.ranked k), List.mem_map_of_mem (Store.mem_visit.2 hb), ?_⟩
        rw [getLast?_cut_of_del hpb hd]
        exact hd
  · -- at most one blob affected: its list is returned as is
    rename_i hle
    have hle' : ((s.perCut k).filter (fun l => !l.isEmpty)).length ≤ 1 := by omega
    have hflat : RankSorted (s.perCut k).flatten ∧ Spec.cut (s.perCut k).flatten = (s.perCut k).flatten := by
      rcases flatten_of_le_one hle' with h | h
      · rw [h]; exact ⟨List.Pairwise.nil, rfl⟩
      · obtain ⟨b, _, hb⟩ := List.mem_map.1 h
        rw [← hb]
        exact ⟨(b.ranked_sorted k).sublist (cut_sublist _), cut_cut _⟩
    have hsort : s.sortedCut k = (s.perCut k).flatten :=
      hS.eq_of_perm hflat.1 (sortDescBy_perm _ _)
    rw [← hflat.2, ← hsort]
    exact hmain

/-! ### `read_all` -/

/-- drop a trailing marker -/
def stripLastR (l : List Rec) : List Rec :=
  match l.getLast? with
  | some h => if h.del then l.dropLast else l
  | none => l

theorem Store.readAll_def (s : Store) (k : Key) : s.readAll k = stripLastR (s.readAllMarked k) := rfl

theorem stripLastR_cutHdrs : ∀ X : List Rec,
    stripLastR (cutHdrs X) = (cutHdrs X).filter (fun r => !r.del)
  | [] => rfl
  | x :: xs => by
    have ih := stripLastR_cutHdrs xs
    by_cases hx : x.del = true
    · simp [cutHdrs, hx, stripLastR]
    · have hx' : x.del = false := by simpa using hx
      simp only [cutHdrs, hx', Bool.false_eq_true, if_false]
      cases hc : cutHdrs xs with
      | nil => simp [stripLastR, hx']
      | cons c cs =>
        rw [hc] at ih
        unfold stripLastR at ih ⊢
        rw [List.getLast?_cons_cons]
        cases hl : (c :: cs).getLast? with
        | none => simp at hl
        | some h =>
          rw [hl] at ih
          by_cases hd : h.del = true
          · simp only [hd, if_true] at ih ⊢
            rw [List.dropLast_cons_cons, ih]
            simp [hx']
          · simp only [hd, Bool.false_eq_true, if_false] at ih ⊢
            rw [List.filter_cons_of_pos (by simp [hx']), ← ih]

/-! ### helpers for `delete` and `write` -/

theorem ReadResult.isFound_map {α β} (f : α → β) (x : ReadResult α) : (x.map f).isFound = x.isFound := by
  cases x <;> rfl

/-- "live in the blob" in the specification's sense = what `Blob::delete` checks -/
theorem Blob.liveIn_eq (b : Blob) (k : Key) : Spec.liveIn b.id b.recs k = (b.getLatest k).isFound := by
  unfold Spec.liveIn
  rw [b.getLatest_eq, ReadResult.isFound_map, Spec.latest_eq, Spec.all_eq_sortedBy]
  rfl

namespace Store

theorem count_marked (F : Blob → Blob × Bool) (P : Option (Blob × Bool) → Bool) (hn : P none = false)
    (hs : ∀ b t, P (some (b, t)) = t) : ∀ slots : List (Option Blob),
    ((slots.map (fun o => o.map F)).filter P).length =
      ((slots.filterMap id).filter (fun b => (F b).2)).length
  | [] => rfl
  | none :: r => by
    have ih := count_marked F P hn hs r
    have e : List.filterMap id (none :: r) = List.filterMap id r := rfl
    rw [e, List.map_cons, Option.map_none, List.filter_cons_of_neg (by simp [hn]), ih]
  | some b :: r => by
    have ih := count_marked F P hn hs r
    have e : List.filterMap id (some b :: r) = b :: List.filterMap id r := rfl
    rw [e, List.map_cons, Option.map_some]
    rcases hF : F b with ⟨b', _ | _⟩
    · rw [List.filter_cons_of_neg (by simp [hs]), List.filter_cons_of_neg (by simp [hF]), ih]
    · rw [List.filter_cons_of_pos (by simp [hs]), List.filter_cons_of_pos (by simp [hF]),
        List.length_cons, List.length_cons, ih]

theorem delete_count (s : Store) (k : Key) (ts : Nat) (m : Option Meta) (oip : Bool) :
    (s.delete k ts m oip).2 =
      ((s.deleteBase oip).active.toList.filter (fun b => (blobDelete b k ts m oip).2)).length +
        ((s.deleteBase oip).closed.filter (fun b => (blobDelete b k ts m true).2)).length := by
  simp only [delete, deleteBase]
  generalize (if oip = true then s else s.ensureActive) = s0
  rw [count_marked]
  · cases h : s0.active with
    | none => simp [closed]
    | some a =>
      simp only [Option.toList, closed]
      cases h2 : (blobDelete a k ts m oip).2 <;> simp [h2]
  · rfl
  · intro b t; cases t <;> rfl

theorem delete_allowDup (s : Store) (k : Key) (ts : Nat) (m : Option Meta) (oip : Bool) :
    (s.delete k ts m oip).1.allowDup = (s.deleteBase oip).allowDup := by
  simp only [delete, deleteBase]

theorem ensureActive_allowDup (s : Store) : s.ensureActive.allowDup = s.allowDup := by
  unfold ensureActive; cases s.active <;> rfl

theorem ensureActive_active (s : Store) : ∃ a, s.ensureActive.active = some a := by
  unfold ensureActive
  cases h : s.active with
  | some a => exact ⟨a, h⟩
  | none => exact ⟨_, rfl⟩

theorem ensureActive_WF {s : Store} (hwf : s.WF) : s.ensureActive.WF :=
  WF_of_shape hwf ((ensureActive_grow s).toShape hwf)

end Store

/-! ### concrete stores used by the non-vacuity examples of the property files -/
namespace Demo

/-- two blobs; key 1 written at ts 5 in blob 0, again at ts 5 in blob 1 (a cross-blob tie), key 2 once -/
def ops1 : List Op :=
  [.write 1 5 none ⟨1, 1⟩, .write 2 6 none ⟨2, 2⟩, .replaceActive, .write 1 5 (some (some [7])) ⟨3, 3⟩]

/-- `ops1`, then key 1 deleted at ts 9 where present, a restart, and a newer write of key 1 -/
def ops2 : List Op :=
  ops1 ++ [.delete 1 9 none true, .restart false, .closeActive, .write 1 12 none ⟨4, 4⟩]

def s1 : Store := (Store.init true).run ops1
def s2 : Store := (Store.init true).run ops2

theorem s1_WF : s1.WF := (Store.run_inv (Store.init_WF' true) (Store.init_blobs_ne_nil true) ops1).1
theorem s2_WF : s2.WF := (Store.run_inv (Store.init_WF' true) (Store.init_blobs_ne_nil true) ops2).1

end Demo

end Pearl
