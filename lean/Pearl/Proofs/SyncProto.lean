import Pearl.Model.SyncProto
/-
Helper lemmas for the sync request protocol (`Pearl/Model/SyncProto.lean`); headline theorems in
`Pearl/Props/C12.lean`.
-/
namespace Pearl
namespace SyncProto

theorem quiescent_iff (s : St) : s.quiescent = true ↔ s.queue = 0 ∧ s.phase = .idle ∧ s.pending = 0 := by
  simp [St.quiescent, and_assoc]

/-! ### schedules -/

@[simp] theorem run_nil (v : Variant) (limit : Nat) (s : St) : run v limit s [] = some s := rfl

@[simp] theorem run_cons (v : Variant) (limit : Nat) (s : St) (e : Ev) (es : List Ev) :
    run v limit s (e :: es) = (step v limit s e).bind fun t => run v limit t es := rfl

theorem run_append (v : Variant) (limit : Nat) (s : St) (es fs : List Ev) :
    run v limit s (es ++ fs) = (run v limit s es).bind fun t => run v limit t fs := by
  induction es generalizing s with
  | nil => simp
  | cons e es ih =>
    simp only [List.cons_append, run_cons]
    cases step v limit s e with
    | none => simp
    | some t => simpa using ih t

/-- an invariant of the steps that satisfy `Q` holds along every schedule made of such steps -/
theorem run_induct {v : Variant} {limit : Nat} {P : St → Prop} {Q : Ev → Prop}
    (hstep : ∀ s e t, P s → Q e → step v limit s e = some t → P t) :
    ∀ (evs : List Ev) (s t : St), P s → (∀ e ∈ evs, Q e) → run v limit s evs = some t → P t := by
  intro evs
  induction evs with
  | nil => intro s t hs _ h; simp at h; exact h ▸ hs
  | cons e es ih =>
    intro s t hs hq h
    simp only [run_cons] at h
    cases hst : step v limit s e with
    | none => simp [hst] at h
    | some u =>
      simp only [hst, Option.bind_some] at h
      exact ih u t (hstep s e u hs (hq e (by simp)) hst) (fun e he => hq e (by simp [he])) h

/-! ### the control invariant: flag, handle and phase -/

/-- the variants that arm the guard right after the compare-exchange (the shipped code, `notReaped`, `publishAlways`) -/
def Variant.guarded (v : Variant) : Bool := v.guardBeforeCheck && v.resetOnError

structure Ctl (s : St) : Prop where
  /-- the flag is set exactly while a task is between its compare-exchange and its (resetting) exit -/
  flag : s.flag = s.phase.owns
  /-- the worker's handle is unfinished exactly while a task body exists -/
  hdl : s.hdl = .running ↔ s.phase ≠ .idle
  /-- no exit path leaves the flag alone -/
  reset : s.phase ≠ .returned false

theorem ctl_init (base : Nat) : Ctl (init base) := by
  constructor <;> simp [init, Phase.owns]

/-- unfold one step into its branches; closes the disabled ones -/
macro "step_split" h:ident : tactic =>
  `(tactic| (simp only [step] at $h:ident <;> (repeat' (split at $h:ident)) <;>
      (try (simp only [reduceCtorEq] at $h:ident; done)) <;>
      (try (simp only [Option.some.injEq] at $h:ident; subst $h:ident))))

theorem ctl_step {v : Variant} (hv : v.guarded = true) {limit : Nat} {s t : St} {e : Ev}
    (hs : Ctl s) (h : step v limit s e = some t) : Ctl t := by
  obtain ⟨hf, hh, hr⟩ := hs
  simp only [Variant.guarded, Bool.and_eq_true] at hv
  obtain ⟨hv1, hv2⟩ := hv
  cases e <;> step_split h <;> constructor <;> simp_all [Phase.owns]

theorem ctl_run {v : Variant} (hv : v.guarded = true) {limit : Nat} {s t : St} {evs : List Ev}
    (hs : Ctl s) (h : run v limit s evs = some t) : Ctl t :=
  run_induct (Q := fun _ => True) (fun _ _ _ hs _ h => ctl_step hv hs h) evs s t hs (fun _ _ => trivial) h

theorem ctl_reach {v : Variant} (hv : v.guarded = true) {limit : Nat} {s : St} (h : Reach v limit s) : Ctl s := by
  obtain ⟨base, evs, h⟩ := h
  exact ctl_run hv (ctl_init base) h

theorem ReachOk.reach {v : Variant} {limit : Nat} {s : St} (h : ReachOk v limit s) : Reach v limit s := by
  obtain ⟨base, evs, _, h⟩ := h
  exact ⟨base, evs, h⟩

/-! ### the counters -/

/-- the size captured by the sync in flight (0 when none is) -/
def Phase.cap : Phase → Nat
  | .syncing cap => cap
  | _ => 0

@[simp] theorem Phase.cap_syncing (c : Nat) : (Phase.syncing c).cap = c := rfl
@[simp] theorem Phase.cap_idle : Phase.idle.cap = 0 := rfl
@[simp] theorem Phase.cap_spawned : Phase.spawned.cap = 0 := rfl
@[simp] theorem Phase.cap_held : Phase.held.cap = 0 := rfl
@[simp] theorem Phase.cap_checked : Phase.checked.cap = 0 := rfl
@[simp] theorem Phase.cap_returned (r : Bool) : (Phase.returned r).cap = 0 := rfl
@[simp] theorem Phase.cap_released : Phase.released.cap = 0 := rfl
@[simp] theorem Phase.cap_done : Phase.done.cap = 0 := rfl

theorem Phase.cap_of_not_locked {p : Phase} (h : ¬ p.locked = true) : p.cap = 0 := by
  cases p <;> simp_all [Phase.locked]

structure Cnt (s : St) : Prop where
  synced_le : s.synced ≤ s.durable
  durable_le : s.durable ≤ s.size
  cap_le : s.phase.cap ≤ s.size

theorem cnt_init (base : Nat) : Cnt (init base) := by
  constructor <;> simp [init]

theorem cnt_step {v : Variant} (hv : v.publishOnlyOnSuccess = true) {limit : Nat} {s t : St} {e : Ev}
    (hs : Cnt s) (h : step v limit s e = some t) : Cnt t := by
  obtain ⟨h1, h2, h3⟩ := hs
  cases e <;> step_split h <;> constructor <;>
    (try (rename_i hl; have := Phase.cap_of_not_locked hl)) <;> simp_all <;> omega

theorem cnt_run {v : Variant} (hv : v.publishOnlyOnSuccess = true) {limit : Nat} {s t : St} {evs : List Ev}
    (hs : Cnt s) (h : run v limit s evs = some t) : Cnt t :=
  run_induct (Q := fun _ => True) (fun _ _ _ hs _ h => cnt_step hv hs h) evs s t hs (fun _ _ => trivial) h

theorem cnt_reach {v : Variant} (hv : v.publishOnlyOnSuccess = true) {limit : Nat} {s : St}
    (h : Reach v limit s) : Cnt s := by
  obtain ⟨base, evs, h⟩ := h
  exact cnt_run hv (cnt_init base) h

/-! ### no request is lost, up to the bytes appended while a task is past its size capture -/

/-- the variants whose flag / handle discipline is the shipped one -/
def Variant.protoOk (v : Variant) : Bool := v.guardBeforeCheck && v.resetOnError && v.reapFinished && !v.recheck

theorem Variant.guarded_of_protoOk {v : Variant} (h : v.protoOk = true) : v.guarded = true := by
  simp only [Variant.protoOk, Bool.and_eq_true] at h
  simp [Variant.guarded, h.1.1.1, h.1.1.2]

theorem Variant.recheck_of_protoOk {v : Variant} (h : v.protoOk = true) : v.recheck = false := by
  simp only [Variant.protoOk, Bool.and_eq_true, Bool.not_eq_true'] at h
  exact h.2

/-- either the un-synced bytes are within `limit + blind`, or something is still going to look at them:
    a queued request with no task in its way, a client call that has not yet decided whether to send one, a task that has not yet captured the size, or a sync in flight
    that covers all but the blind bytes -/
def Cover (limit : Nat) (s : St) : Prop :=
  match s.phase with
  | .idle => 0 < s.queue ∨ 0 < s.pending ∨ s.size ≤ s.synced + limit + s.blind
  | .spawned | .held | .checked => True
  | .syncing cap => s.size ≤ cap + s.blind
  | .returned _ | .released | .done => s.size ≤ s.synced + limit + s.blind

theorem cover_init (limit base : Nat) : Cover limit (init base) := by
  simp [Cover, init]

theorem cover_step {v : Variant} (hv : v.protoOk = true) {limit : Nat} {s t : St} {e : Ev}
    (hc : Ctl s) (hs : Cover limit s) (hq : e.isFailure = false) (h : step v limit s e = some t) :
    Cover limit t := by
  obtain ⟨hf, hh, hr⟩ := hc
  simp only [Variant.protoOk, Bool.and_eq_true, Bool.not_eq_true'] at hv
  obtain ⟨⟨⟨hv1, hv2⟩, hv3⟩, hv4⟩ := hv
  cases e <;> step_split h <;> (cases hp : s.phase) <;>
    simp_all [Cover, Phase.owns, Phase.blind, Phase.locked, shouldTryFsync, tooMany, St.dirty, Ev.isFailure] <;>
    omega

theorem good_run {v : Variant} (hv : v.protoOk = true) {limit : Nat} {s t : St} {evs : List Ev}
    (hc : Ctl s) (hs : Cover limit s) (hq : ∀ e ∈ evs, e.isFailure = false)
    (h : run v limit s evs = some t) : Ctl t ∧ Cover limit t :=
  run_induct (P := fun s => Ctl s ∧ Cover limit s) (Q := fun e => e.isFailure = false)
    (fun _ _ _ hs hq h => ⟨ctl_step (Variant.guarded_of_protoOk hv) hs.1 h, cover_step hv hs.1 hs.2 hq h⟩) evs s t ⟨hc, hs⟩ hq h

theorem cover_reachOk {v : Variant} (hv : v.protoOk = true) {limit : Nat} {s : St} (h : ReachOk v limit s) :
    Cover limit s := by
  obtain ⟨base, evs, hq, h⟩ := h
  exact (good_run hv (ctl_init base) (cover_init limit base) hq h).2

/-! ### the ghost `blind` stays 0 when no write lands in the window -/

theorem blind_step {v : Variant} {limit : Nat} {s t : St} {e : Ev} (h0 : s.blind = 0)
    (hw : ∀ n, e = .write n ∨ e = .append n → s.phase.blind = false ∨ n = 0)
    (h : step v limit s e = some t) : t.blind = 0 := by
  cases e <;> step_split h <;> simp_all

theorem blind_run {v : Variant} {limit : Nat} : ∀ (evs : List Ev) (s t : St), s.blind = 0 →
    noBlindWrite v limit s evs = true → run v limit s evs = some t → t.blind = 0 := by
  intro evs
  induction evs with
  | nil => intro s t h0 _ h; simp at h; exact h ▸ h0
  | cons e es ih =>
    intro s t h0 hn h
    simp only [run_cons] at h
    simp only [noBlindWrite, Bool.and_eq_true] at hn
    cases hst : step v limit s e with
    | none => simp [hst] at h
    | some u =>
      simp only [hst, Option.bind_some] at h
      have hn2 : noBlindWrite v limit u es = true := by simpa [hst] using hn.2
      refine ih u t (blind_step h0 ?_ hst) hn2 h
      intro n hn'
      have := hn.1
      rcases hn' with rfl | rfl <;>
        · simp only [Bool.or_eq_true, Bool.not_eq_true', beq_iff_eq] at this
          exact this

/-! ### progress: the protocol comes to rest by itself -/

theorem next_internal {v : Variant} {s : St} {e : Ev} (h : next v s = some e) :
    e.internal = true ∧ e.isFailure = false := by
  unfold next at h
  split at h
  · simp at h; subst h; simp [Ev.internal, Ev.isFailure]
  · cases hp : s.phase <;> simp only [hp] at h <;> (try split at h) <;> simp at h <;> subst h <;>
      simp [Ev.internal, Ev.isFailure]

theorem next_enabled {v : Variant} (ha : v.awaitRunning = false) (limit : Nat) {s : St} {e : Ev}
    (h : next v s = some e) : (step v limit s e).isSome = true := by
  unfold next at h
  split at h
  · rename_i hpd
    simp at h; subst h
    have : ¬ s.pending = 0 := hpd
    simp [step, this]
  · cases hp : s.phase <;> simp only [hp] at h <;> (try split at h) <;> simp at h <;> subst h <;>
      simp [step, hp]
    · rename_i hq
      simp only [hq, if_false]
      cases s.hdl <;> simp [ha]
      split <;> simp
    · split <;> simp
    · split <;> simp
    · rename_i hr
      simp only [hr, if_true]
      split <;> simp
    · rename_i hr
      simpa using hr

theorem next_none_iff (v : Variant) (s : St) : next v s = none ↔ s.quiescent = true := by
  rw [quiescent_iff]
  unfold next
  by_cases hpd : s.pending = 0 <;> cases s.phase <;> simp [hpd]
  split <;> simp

theorem measure_step {v : Variant} (hr : v.recheck = false) {limit : Nat} {s t : St} {e : Ev}
    (hi : e.internal = true) (h : step v limit s e = some t) : t.measure < s.measure := by
  cases e <;> simp only [Ev.internal, Bool.false_eq_true] at hi <;> step_split h <;>
    simp_all [St.measure, Phase.rank] <;> omega

theorem settle_of_next_none {v : Variant} {limit : Nat} {s : St} (h : next v s = none) (fuel : Nat) :
    settle v limit fuel s = s := by
  cases fuel <;> simp [settle, h]

theorem settle_quiescent {v : Variant} (hr : v.recheck = false) (ha : v.awaitRunning = false) (limit : Nat) :
    ∀ (fuel : Nat) (s : St), s.measure ≤ fuel →
    (settle v limit fuel s).quiescent = true := by
  intro fuel
  induction fuel with
  | zero =>
    intro s h
    have hq : s.queue = 0 := by simp only [St.measure] at h; omega
    have hpd : s.pending = 0 := by simp only [St.measure] at h; omega
    have hp : s.phase = .idle := by
      simp only [St.measure] at h
      cases hp : s.phase <;> simp_all [Phase.rank] <;> omega
    simp [settle, St.quiescent, hq, hp, hpd]
  | succ fuel ih =>
    intro s h
    cases hn : next v s with
    | none => rw [settle_of_next_none hn]; exact (next_none_iff v s).1 hn
    | some e =>
      have hen := next_enabled ha limit hn
      obtain ⟨t, ht⟩ := Option.isSome_iff_exists.1 hen
      have hm := measure_step hr (next_internal hn).1 ht
      simp only [settle, hn, ht]
      exact ih t (by omega)

/-- `settle` is a schedule of internal events, every sync succeeding -/
theorem settle_is_run {v : Variant} (ha : v.awaitRunning = false) (limit : Nat) : ∀ (fuel : Nat) (s : St),
    ∃ evs, (∀ e ∈ evs, e.internal = true ∧ e.isFailure = false) ∧
      run v limit s evs = some (settle v limit fuel s) := by
  intro fuel
  induction fuel with
  | zero => intro s; exact ⟨[], by simp, by simp [settle]⟩
  | succ fuel ih =>
    intro s
    cases hn : next v s with
    | none => exact ⟨[], by simp, by simp [settle_of_next_none hn]⟩
    | some e =>
      obtain ⟨t, ht⟩ := Option.isSome_iff_exists.1 (next_enabled ha limit hn)
      obtain ⟨evs, h1, h2⟩ := ih t
      refine ⟨e :: evs, ?_, ?_⟩
      · intro e' he'
        rcases List.mem_cons.1 he' with rfl | he'
        · exact next_internal hn
        · exact h1 e' he'
      · simp [settle, hn, ht, h2]

theorem settle_add (v : Variant) (limit : Nat) : ∀ (a b : Nat) (s : St),
    settle v limit (a + b) s = settle v limit b (settle v limit a s) := by
  intro a
  induction a with
  | zero => intro b s; simp [settle]
  | succ a ih =>
    intro b s
    rw [show a + 1 + b = (a + b) + 1 by omega]
    cases hn : next v s with
    | none => simp [settle, hn, settle_of_next_none hn]
    | some e =>
      cases ht : step v limit s e with
      | none =>
        simp only [settle, hn, ht]
        cases b <;> simp [settle, hn, ht]
      | some t => simp [settle, hn, ht, ih]

theorem settle_stable {v : Variant} {limit : Nat} {a : Nat} {s : St}
    (h : (settle v limit a s).quiescent = true) {b : Nat} (hab : a ≤ b) :
    settle v limit b s = settle v limit a s := by
  obtain ⟨k, rfl⟩ := Nat.exists_eq_add_of_le hab
  rw [settle_add, settle_of_next_none ((next_none_iff _ _).2 h)]

/-! ### determinism of the internal steps once at most one request is around -/

/-- at most one request, and none while a task body exists -/
def Lone (s : St) : Prop := s.queue ≤ 1 ∧ (s.queue = 0 ∨ s.phase = .idle) ∧ s.pending = 0

theorem det_step {v : Variant} {limit : Nat} {s t : St} {e : Ev} (hl : Lone s)
    (hi : e.internal = true) (hf : e.isFailure = false) (h : step v limit s e = some t) :
    next v s = some e ∧ Lone t := by
  obtain ⟨h1, h2, h3⟩ := hl
  cases e <;> simp only [Ev.internal, Bool.false_eq_true] at hi <;> step_split h <;>
    simp_all [next, Lone, Ev.isFailure] <;> omega

theorem run_eq_settle {v : Variant} {limit : Nat} : ∀ (evs : List Ev) (s t : St), Lone s →
    (∀ e ∈ evs, e.internal = true ∧ e.isFailure = false) → run v limit s evs = some t →
    settle v limit evs.length s = t := by
  intro evs
  induction evs with
  | nil => intro s t _ _ h; simpa [settle] using h
  | cons e es ih =>
    intro s t hl hq h
    simp only [run_cons] at h
    cases hst : step v limit s e with
    | none => simp [hst] at h
    | some u =>
      simp only [hst, Option.bind_some] at h
      have he := hq e (by simp)
      obtain ⟨hn, hlu⟩ := det_step hl he.1 he.2 hst
      simp only [List.length_cons, settle, hn, hst]
      exact ih u t hlu (fun e he => hq e (by simp [he])) h

/-- every internal, failure-free schedule from a `Lone` state that ends at rest ends in the state `settle` computes -/
theorem internal_run_unique {v : Variant} {limit : Nat} {evs : List Ev} {s t : St} (hl : Lone s)
    (hq : ∀ e ∈ evs, e.internal = true ∧ e.isFailure = false) (h : run v limit s evs = some t)
    (ht : t.quiescent = true) {fuel : Nat} (hfuel : evs.length ≤ fuel) : settle v limit fuel s = t := by
  have h1 := run_eq_settle evs s t hl hq h
  rw [← h1] at ht ⊢
  exact settle_stable ht hfuel

/-! ### one write from a state at rest -/

/-- the state after a client write (`step … (.write n)` is always enabled) -/
def afterWrite (limit : Nat) (s : St) (n : Nat) : St :=
  { s with
    size := s.size + n
    queue := if shouldTryFsync limit (s.size + n - s.synced) s.flag then s.queue + 1 else s.queue
    blind := if s.phase.blind then s.blind + n else s.blind }

@[simp] theorem step_write (v : Variant) (limit : Nat) (s : St) (n : Nat) :
    step v limit s (.write n) = some (afterWrite limit s n) := rfl

/-- `write n` is `append n` followed at once, when the append was over the limit, by `decide` -/
theorem write_as_append_decide (v : Variant) (limit : Nat) (s : St) (n : Nat) :
    step v limit s (.write n) =
      if tooMany limit (s.size + n - s.synced) then run v limit s [.append n, .decide]
      else step v limit s (.append n) := by
  cases hov : tooMany limit (s.size + n - s.synced) <;> cases hf : s.flag <;>
    simp [step, run, shouldTryFsync, hov, hf]

theorem lone_afterWrite {limit : Nat} {s : St} (hq : s.quiescent = true) (n : Nat) : Lone (afterWrite limit s n) := by
  rw [quiescent_iff] at hq
  simp only [Lone, afterWrite, hq.1, hq.2.1, hq.2.2]
  split <;> simp

/-- the schedule the protocol follows by itself after a write that passed the limit -/
def syncSchedule : List Ev := [.recv, .cas, .check, .start, .complete true, .release, .finish]

/-- from a state at rest, a write that takes the active blob over the limit is followed, without any further
    client action, by a sync that captures the size including that write -/
theorem write_over_limit_syncs {v : Variant} (hv : v.protoOk = true) {limit : Nat} {s : St} (hc : Ctl s)
    (hq : s.quiescent = true) {n : Nat} (hover : s.size + n - s.synced > limit) :
    ∃ t u, run v limit s [.write n, .recv, .cas, .check, .start] = some t ∧
      t.phase = .syncing (s.size + n) ∧ t.flag = true ∧ t.hdl = .running ∧
      run v limit t [.complete true, .release, .finish] = some u ∧
      u.quiescent = true ∧ u.flag = false ∧ u.hdl = .finished ∧
      u.size = s.size + n ∧ u.synced = max s.synced (s.size + n) ∧ u.blob = s.blob := by
  obtain ⟨hf, hh, hr⟩ := hc
  simp only [Variant.protoOk, Bool.and_eq_true, Bool.not_eq_true'] at hv
  obtain ⟨⟨⟨hv1, hv2⟩, hv3⟩, hv4⟩ := hv
  rw [quiescent_iff] at hq
  obtain ⟨hq1, hq2, hq3⟩ := hq
  obtain ⟨size, synced, flag, hdl, phase, queue, blob, durable, blind, pending⟩ := s
  simp only at hq1 hq2 hq3 hover hf hh
  subst hq1 hq2 hq3
  simp only [Phase.owns] at hf
  subst hf
  have hlt : limit < size + n - synced := hover
  cases hdl
  · simp [run, step, shouldTryFsync, tooMany, St.dirty, Phase.blind, hlt, St.quiescent, hv4]
  · simp at hh
  · simp [run, step, shouldTryFsync, tooMany, St.dirty, Phase.blind, hlt, St.quiescent, hv3, hv4]

/-- … and a write that stays within the limit leaves the state at rest -/
theorem write_within_limit_rests {limit : Nat} {s : St} (hq : s.quiescent = true) {n : Nat}
    (hover : ¬ s.size + n - s.synced > limit) :
    (afterWrite limit s n).quiescent = true ∧ (afterWrite limit s n).synced = s.synced := by
  rw [quiescent_iff] at hq
  have : decide (s.size + n - s.synced > limit) = false := by simpa using hover
  simp [afterWrite, St.quiescent, shouldTryFsync, tooMany, this, hq.1, hq.2.1, hq.2.2]

/-! ### internal steps touch neither the size nor the blob, and cannot enlarge `blind` -/

theorem internal_step_keeps {v : Variant} {limit : Nat} {s t : St} {e : Ev} (hi : e.internal = true)
    (h : step v limit s e = some t) : t.size = s.size ∧ t.blob = s.blob ∧ t.blind ≤ s.blind := by
  cases e <;> simp only [Ev.internal, Bool.false_eq_true] at hi <;> step_split h <;> simp

theorem internal_run_keeps {v : Variant} {limit : Nat} {s t : St} {evs : List Ev}
    (hi : ∀ e ∈ evs, e.internal = true) (h : run v limit s evs = some t) :
    t.size = s.size ∧ t.blob = s.blob ∧ t.blind ≤ s.blind := by
  have := run_induct (v := v) (limit := limit)
    (P := fun u => u.size = s.size ∧ u.blob = s.blob ∧ u.blind ≤ s.blind) (Q := fun e => e.internal = true)
    (fun a e b ha hq hst => by
      have := internal_step_keeps hq hst
      exact ⟨this.1.trans ha.1, this.2.1.trans ha.2.1, Nat.le_trans this.2.2 ha.2.2⟩)
    evs s t ⟨rfl, rfl, Nat.le_refl _⟩ hi h
  exact this

/-! ### a flag nobody owns stays set for ever -/

/-- at rest with `fsync_in_progress` set: what the seeded variants `guardLate` and `resetSkipped` reach -/
def Stuck (s : St) : Prop := s.flag = true ∧ s.phase = .idle ∧ s.queue = 0

theorem stuck_step {v : Variant} {limit : Nat} {s t : St} {e : Ev} (hs : Stuck s)
    (h : step v limit s e = some t) : Stuck t ∧ t.synced ≤ s.synced ∨ Stuck t ∧ ∃ b, e = .rotate b := by
  obtain ⟨h1, h2, h3⟩ := hs
  cases e <;> step_split h <;> simp_all [Stuck, shouldTryFsync, Phase.locked]

theorem stuck_run {v : Variant} {limit : Nat} {s t : St} {evs : List Ev} (hs : Stuck s)
    (h : run v limit s evs = some t) : Stuck t :=
  run_induct (P := Stuck) (Q := fun _ => True)
    (fun _ _ _ ha _ hst => by rcases stuck_step ha hst with h | h <;> exact h.1) evs s t hs (fun _ _ => trivial) h

/-- no event of a schedule from a stuck state starts a sync -/
theorem stuck_never_syncs {v : Variant} {limit : Nat} : ∀ (evs : List Ev) (s t : St), Stuck s →
    run v limit s evs = some t → .start ∉ evs ∧ .recv ∉ evs := by
  intro evs
  induction evs with
  | nil => intro s t _ _; simp
  | cons e es ih =>
    intro s t hs h
    simp only [run_cons] at h
    cases hst : step v limit s e with
    | none => simp [hst] at h
    | some u =>
      simp only [hst, Option.bind_some] at h
      have hu : Stuck u := by rcases stuck_step hs hst with h | h <;> exact h.1
      have := ih u t hu h
      obtain ⟨h1, h2, h3⟩ := hs
      refine ⟨?_, ?_⟩
      · intro hmem
        rcases List.mem_cons.1 hmem with rfl | hmem
        · simp [step, h2] at hst
        · exact this.1 hmem
      · intro hmem
        rcases List.mem_cons.1 hmem with rfl | hmem
        · simp [step, h3] at hst
        · exact this.2 hmem

/-! ### the candidate repair: re-check after the reset, no request dropped -/

def Variant.repairedOk (v : Variant) : Bool :=
  v.guardBeforeCheck && v.resetOnError && v.reapFinished && v.recheck && v.awaitRunning

theorem Variant.guarded_of_repairedOk {v : Variant} (h : v.repairedOk = true) : v.guarded = true := by
  simp only [Variant.repairedOk, Bool.and_eq_true] at h
  simp [Variant.guarded, h.1.1.1.1, h.1.1.1.2]

/-- while no task body exists, or the body has done its last re-check, either the un-synced bytes are within the
    limit or a request is queued / about to be sent; every other phase still has a look at the dirty bytes ahead -/
def CoverR (limit : Nat) (s : St) : Prop :=
  match s.phase with
  | .idle | .done => 0 < s.queue ∨ 0 < s.pending ∨ s.size ≤ s.synced + limit
  | _ => True

theorem coverR_init (limit base : Nat) : CoverR limit (init base) := by
  simp [CoverR, init]

theorem coverR_step {v : Variant} (hv : v.repairedOk = true) {limit : Nat} {s t : St} {e : Ev}
    (hc : Ctl s) (hs : CoverR limit s) (h : step v limit s e = some t) : CoverR limit t := by
  obtain ⟨hf, hh, hr⟩ := hc
  simp only [Variant.repairedOk, Bool.and_eq_true] at hv
  obtain ⟨⟨⟨⟨hv1, hv2⟩, hv3⟩, hv4⟩, hv5⟩ := hv
  cases e <;> step_split h <;> (cases hp : s.phase) <;>
    simp_all [CoverR, Phase.owns, Phase.blind, Phase.locked, shouldTryFsync, tooMany, St.dirty] <;>
    omega

theorem coverR_reach {v : Variant} (hv : v.repairedOk = true) {limit : Nat} {s : St} (h : Reach v limit s) :
    Ctl s ∧ CoverR limit s := by
  obtain ⟨base, evs, h⟩ := h
  exact run_induct (P := fun s => Ctl s ∧ CoverR limit s) (Q := fun _ => True)
    (fun _ _ _ hs _ h => ⟨ctl_step (Variant.guarded_of_repairedOk hv) hs.1 h, coverR_step hv hs.1 hs.2 h⟩)
    evs (init base) s ⟨ctl_init base, coverR_init limit base⟩ (fun _ _ => trivial) h

end SyncProto
end Pearl
