import Pearl.Proofs.SyncProto
/-
The sync request protocol with the re-check of /repo bc65670 (`Variant.recheck`): helper lemmas and the ghost wrapper;
headline theorems at the end of the SyncProto section of `Pearl/Props/C12.lean`.

`Inner::fsyncdata` as /repo had it for a short while (src/storage/core.rs; AMENDED SINCE: in /repo at bc65670 the guarded
scope has no early `return` and the re-check follows both non-failing paths - that third reading is
`Pearl/Proofs/SyncProto3.lean`, `Mode.amended`; the two readings below are its modes `everyExit` / `afterSyncOnly`):

    loop {
        if compare_exchange(false, true).is_err() { return Ok(()) }            -- (x1) no re-check
        {   let _flag = ResetableFlag{..};
            let safe = self.safe.read().await;
            if let Some(ablob) = &safe.active_blob {
                if !too_many_dirty_bytes(ablob.read().await.file_dirty_bytes()) { return Ok(()) }   -- (x2) no re-check
            }
            safe.fsyncdata().await?;                                           -- (x3) `?`: no re-check
        }                                   -- locals dropped: storage lock, then the guard (flag := false)
        let safe = self.safe.read().await;  -- the RE-CHECK: `too_many_dirty_bytes` (the flag is not looked at)
        if !over_limit { return Ok(()) }    -- `Phase.done`, then the end of the task (`finish`)
    }                                       -- over the limit: round the loop, compare-exchange again (`Phase.spawned`)

So the re-check sits AFTER the reset of the flag and BEFORE the end of the task, as `step … .recheck` has it, and it goes
back to the compare-exchange, as `step` has it.  But it is on ONE exit path only, the one after a `safe.fsyncdata()` that
succeeded.  `step` with `recheck := true` puts it after EVERY exit (`.release` always leads to `.released`, from where only
`.recheck` is enabled): after the early return (x2), after a failed sync (x3) and after a lost compare-exchange (x1, not
reachable with one task).  The wrapper below carries the ghost `afterSync` and has both readings:
`c = false` is `step v` itself (`gstep_false_st`), `c = true` is the function shown above (re-check after a successful
sync only).
-/
namespace Pearl
namespace SyncProto

/-! ### variants with the re-check -/

/-- flag / handle discipline of the shipped code, with the re-check (`awaitRunning` is free: `recheckOnly`, `repaired`) -/
def Variant.recheckOk (v : Variant) : Bool := v.guardBeforeCheck && v.resetOnError && v.reapFinished && v.recheck

theorem Variant.guarded_of_recheckOk {v : Variant} (h : v.recheckOk = true) : v.guarded = true := by
  simp only [Variant.recheckOk, Bool.and_eq_true] at h
  simp [Variant.guarded, h.1.1.1, h.1.1.2]

theorem Variant.recheck_of_recheckOk {v : Variant} (h : v.recheckOk = true) : v.recheck = true := by
  simp only [Variant.recheckOk, Bool.and_eq_true] at h
  exact h.2

/-! ### the ghost wrapper -/

structure GSt where
  st : St
  /-- ghost: the task body's latest exit is the one after a `safe.fsyncdata()` that succeeded - the only exit of
      `Inner::fsyncdata` that is followed by the re-check -/
  afterSync : Bool := false
  /-- ghost: bytes appended since the task took its last look at the dirty bytes of this exit path and not yet accounted
      to `late` / `unseen` (meaningful while the task is past that look) -/
  win : Nat := 0
  /-- ghost: bytes appended, since the latest size capture, in window (b) - the task has taken its LAST look at the dirty
      bytes, the flag is clear, the worker's handle is still unfinished - and given up at the moment the worker dropped
      a request in that window (`recv` with `hdl = running`) -/
  late : Nat := 0
  /-- ghost (stays 0 with `c = false`): bytes appended, since the latest size capture, in window (c) - between a look
      that is not followed by a re-check (early return, failed sync) and the reset of the flag by that exit -/
  unseen : Nat := 0
deriving DecidableEq, Repr, Inhabited

def ginit (base : Nat) : GSt := { st := init base }

/-- on the exit path the task is on, the re-check is still ahead.  `c = false`: on every exit (`step` as it is);
    `c = true`: only after a sync that succeeded (the code) -/
def GSt.look (c : Bool) (g : GSt) : Bool := !c || g.afterSync

/-- window (b): the task has taken its last look, the flag is clear, `JoinHandle::is_finished` is still false -/
def GSt.pastLook (c : Bool) (g : GSt) : Bool :=
  match g.st.phase with
  | .done => true
  | .released => !g.look c
  | _ => false

/-- window (c): the task has taken its last look and still holds the flag -/
def GSt.early (c : Bool) (g : GSt) : Bool :=
  match g.st.phase with
  | .returned _ => !g.look c
  | _ => false

/-- the variant whose `step` the task follows in this state: without the re-check when the exit taken has none -/
def GSt.eff (c : Bool) (v : Variant) (g : GSt) : Variant :=
  if g.st.phase = .released ∧ g.look c = false then { v with recheck := false } else v

def ghost (c : Bool) (g : GSt) (e : Ev) (t : St) : GSt :=
  match e with
  | .write n | .append n =>
    { g with st := t, win := if g.pastLook c || g.early c then g.win + n else g.win }
  | .recv =>
    if g.st.hdl = .running ∧ g.pastLook c = true then { g with st := t, late := g.late + g.win, win := 0 }
    else { g with st := t }
  | .cas => { g with st := t, afterSync := false, win := 0 }
  | .check => { g with st := t, win := 0 }
  | .start => { g with st := t, win := 0, late := 0, unseen := 0 }
  | .complete ok => { g with st := t, afterSync := ok, win := 0 }
  | .release =>
    if g.look c then { g with st := t } else { g with st := t, unseen := g.unseen + g.win, win := 0 }
  | .recheck => { g with st := t, win := 0 }
  | .rotate _ => { g with st := t, win := 0, late := 0, unseen := 0 }
  | .decide | .tick | .finish => { g with st := t }

/-- one atomic step of the wrapped protocol -/
def gstep (c : Bool) (v : Variant) (limit : Nat) (g : GSt) (e : Ev) : Option GSt :=
  (step (g.eff c v) limit g.st e).map (ghost c g e)

def grun (c : Bool) (v : Variant) (limit : Nat) (g : GSt) : List Ev → Option GSt
  | [] => some g
  | e :: es => (gstep c v limit g e).bind fun h => grun c v limit h es

def GReach (c : Bool) (v : Variant) (limit : Nat) (g : GSt) : Prop :=
  ∃ base evs, grun c v limit (ginit base) evs = some g

def GReachOk (c : Bool) (v : Variant) (limit : Nat) (g : GSt) : Prop :=
  ∃ base evs, (∀ e ∈ evs, e.isFailure = false) ∧ grun c v limit (ginit base) evs = some g

/-- the ghost `late` of a schedule of `step v` (0 when the schedule is not enabled) -/
def lateOf (v : Variant) (limit base : Nat) (evs : List Ev) : Nat :=
  ((grun false v limit (ginit base) evs).map (·.late)).getD 0

@[simp] theorem grun_nil (c : Bool) (v : Variant) (limit : Nat) (g : GSt) : grun c v limit g [] = some g := rfl

@[simp] theorem grun_cons (c : Bool) (v : Variant) (limit : Nat) (g : GSt) (e : Ev) (es : List Ev) :
    grun c v limit g (e :: es) = (gstep c v limit g e).bind fun h => grun c v limit h es := rfl

theorem grun_append (c : Bool) (v : Variant) (limit : Nat) (g : GSt) (es fs : List Ev) :
    grun c v limit g (es ++ fs) = (grun c v limit g es).bind fun h => grun c v limit h fs := by
  induction es generalizing g with
  | nil => simp
  | cons e es ih =>
    simp only [List.cons_append, grun_cons]
    cases gstep c v limit g e with
    | none => simp
    | some t => simpa using ih t

theorem grun_induct {c : Bool} {v : Variant} {limit : Nat} {P : GSt → Prop} {Q : Ev → Prop}
    (hstep : ∀ g e h, P g → Q e → gstep c v limit g e = some h → P h) :
    ∀ (evs : List Ev) (g h : GSt), P g → (∀ e ∈ evs, Q e) → grun c v limit g evs = some h → P h := by
  intro evs
  induction evs with
  | nil => intro g h hg _ hr; simp at hr; exact hr ▸ hg
  | cons e es ih =>
    intro g h hg hq hr
    simp only [grun_cons] at hr
    cases hst : gstep c v limit g e with
    | none => simp [hst] at hr
    | some u =>
      simp only [hst, Option.bind_some] at hr
      exact ih u h (hstep g e u hg (hq e (by simp)) hst) (fun e he => hq e (by simp [he])) hr

/-! ### the wrapper and `step` -/

@[simp] theorem ghost_st (c : Bool) (g : GSt) (e : Ev) (t : St) : (ghost c g e t).st = t := by
  cases e <;> simp only [ghost] <;> (try split) <;> rfl

theorem gstep_some {c : Bool} {v : Variant} {limit : Nat} {g h : GSt} {e : Ev} (hs : gstep c v limit g e = some h) :
    ∃ t, step (g.eff c v) limit g.st e = some t ∧ h = ghost c g e t := by
  simp only [gstep, Option.map_eq_some_iff] at hs
  obtain ⟨t, ht, rfl⟩ := hs
  exact ⟨t, ht, rfl⟩

@[simp] theorem look_false (g : GSt) : g.look false = true := rfl

@[simp] theorem eff_false (v : Variant) (g : GSt) : g.eff false v = v := by
  simp [GSt.eff]

/-- with `c = false` the wrapper is `step v` with ghost fields on top -/
theorem gstep_false_st (v : Variant) (limit : Nat) (g : GSt) (e : Ev) :
    (gstep false v limit g e).map (·.st) = step v limit g.st e := by
  simp only [gstep, eff_false, Option.map_map]
  cases step v limit g.st e <;> simp

theorem grun_false_st (v : Variant) (limit : Nat) : ∀ (evs : List Ev) (g : GSt),
    (grun false v limit g evs).map (·.st) = run v limit g.st evs := by
  intro evs
  induction evs with
  | nil => intro g; simp
  | cons e es ih =>
    intro g
    have h1 := gstep_false_st v limit g e
    simp only [grun_cons, run_cons]
    cases hs : gstep false v limit g e with
    | none =>
      rw [hs] at h1
      simp [← h1]
    | some u =>
      rw [hs] at h1
      simp only [Option.map_some] at h1
      simp [← h1, ih u]

/-- every schedule of `step v` is a schedule of the wrapper with `c = false`, ending in the same state -/
theorem grun_false_of_run {v : Variant} {limit : Nat} {evs : List Ev} {g : GSt} {s : St}
    (h : run v limit g.st evs = some s) : ∃ g', grun false v limit g evs = some g' ∧ g'.st = s := by
  have := grun_false_st v limit evs g
  rw [h] at this
  cases hg : grun false v limit g evs with
  | none => simp [hg] at this
  | some g' => exact ⟨g', rfl, by simpa [hg] using this⟩

theorem run_of_grun_false {v : Variant} {limit : Nat} {evs : List Ev} {g g' : GSt}
    (h : grun false v limit g evs = some g') : run v limit g.st evs = some g'.st := by
  rw [← grun_false_st, h]; rfl

@[simp] theorem eff_guardBeforeCheck (c : Bool) (v : Variant) (g : GSt) :
    (g.eff c v).guardBeforeCheck = v.guardBeforeCheck := by simp only [GSt.eff]; split <;> rfl
@[simp] theorem eff_resetOnError (c : Bool) (v : Variant) (g : GSt) :
    (g.eff c v).resetOnError = v.resetOnError := by simp only [GSt.eff]; split <;> rfl
@[simp] theorem eff_reapFinished (c : Bool) (v : Variant) (g : GSt) :
    (g.eff c v).reapFinished = v.reapFinished := by simp only [GSt.eff]; split <;> rfl
@[simp] theorem eff_publishOnlyOnSuccess (c : Bool) (v : Variant) (g : GSt) :
    (g.eff c v).publishOnlyOnSuccess = v.publishOnlyOnSuccess := by simp only [GSt.eff]; split <;> rfl
@[simp] theorem eff_awaitRunning (c : Bool) (v : Variant) (g : GSt) :
    (g.eff c v).awaitRunning = v.awaitRunning := by simp only [GSt.eff]; split <;> rfl

theorem eff_recheck (c : Bool) (v : Variant) (g : GSt) :
    (g.eff c v).recheck = (v.recheck && !(decide (g.st.phase = .released) && !g.look c)) := by
  simp only [GSt.eff]
  split
  · rename_i h; simp [h.1, h.2]
  · rename_i h
    by_cases hp : g.st.phase = .released
    · have : g.look c = true := by simpa [hp] using h
      simp [this]
    · simp [hp]

@[simp] theorem eff_guarded (c : Bool) (v : Variant) (g : GSt) : (g.eff c v).guarded = v.guarded := by
  simp [Variant.guarded]

/-! ### control and counter invariants of the wrapper -/

theorem gctl_step {c : Bool} {v : Variant} (hv : v.guarded = true) {limit : Nat} {g h : GSt} {e : Ev}
    (hc : Ctl g.st) (hs : gstep c v limit g e = some h) : Ctl h.st := by
  obtain ⟨t, ht, rfl⟩ := gstep_some hs
  rw [ghost_st]
  exact ctl_step (v := g.eff c v) (by simpa using hv) hc ht

theorem gctl_run {c : Bool} {v : Variant} (hv : v.guarded = true) {limit : Nat} {g h : GSt} {evs : List Ev}
    (hc : Ctl g.st) (hr : grun c v limit g evs = some h) : Ctl h.st :=
  grun_induct (P := fun g => Ctl g.st) (Q := fun _ => True) (fun _ _ _ hg _ hs => gctl_step hv hg hs) evs g h hc
    (fun _ _ => trivial) hr

theorem gctl_reach {c : Bool} {v : Variant} (hv : v.guarded = true) {limit : Nat} {g : GSt}
    (h : GReach c v limit g) : Ctl g.st := by
  obtain ⟨base, evs, h⟩ := h
  exact gctl_run hv (ctl_init base) h

theorem gcnt_step {c : Bool} {v : Variant} (hv : v.publishOnlyOnSuccess = true) {limit : Nat} {g h : GSt} {e : Ev}
    (hc : Cnt g.st) (hs : gstep c v limit g e = some h) : Cnt h.st := by
  obtain ⟨t, ht, rfl⟩ := gstep_some hs
  rw [ghost_st]
  exact cnt_step (v := g.eff c v) (by simpa using hv) hc ht

theorem gcnt_reach {c : Bool} {v : Variant} (hv : v.publishOnlyOnSuccess = true) {limit : Nat} {g : GSt}
    (h : GReach c v limit g) : Cnt g.st := by
  obtain ⟨base, evs, h⟩ := h
  exact grun_induct (P := fun g => Cnt g.st) (Q := fun _ => True) (fun _ _ _ hg _ hs => gcnt_step hv hg hs) evs _ g
    (cnt_init base) (fun _ _ => trivial) h

theorem GReachOk.greach {c : Bool} {v : Variant} {limit : Nat} {g : GSt} (h : GReachOk c v limit g) :
    GReach c v limit g := by
  obtain ⟨base, evs, _, h⟩ := h
  exact ⟨base, evs, h⟩

/-! ### the bound at rest -/

/-- either the un-synced bytes are within `limit + late + unseen`, or something is still going to look at them: a request
    with no task in its way, a client call about to send one, a task with a look at the dirty bytes ahead.  In the two
    windows the bytes appended since the task's last look (`win`) are not yet accounted for. -/
def Cover2 (c : Bool) (limit : Nat) (g : GSt) : Prop :=
  match g.st.phase with
  | .idle => 0 < g.st.queue ∨ 0 < g.st.pending ∨ g.st.size ≤ g.st.synced + limit + (g.late + g.unseen)
  | .spawned | .held | .checked | .syncing _ => True
  | .returned _ => g.look c = true ∨ g.st.size ≤ g.st.synced + limit + (g.late + g.unseen) + g.win
  | .released =>
    g.look c = true ∨ g.st.size ≤ g.st.synced + limit + (g.late + g.unseen) ∨
      ((0 < g.st.queue ∨ 0 < g.st.pending) ∧ g.st.size ≤ g.st.synced + limit + (g.late + g.unseen) + g.win)
  | .done =>
    g.st.size ≤ g.st.synced + limit + (g.late + g.unseen) ∨
      ((0 < g.st.queue ∨ 0 < g.st.pending) ∧ g.st.size ≤ g.st.synced + limit + (g.late + g.unseen) + g.win)

theorem cover2_init (c : Bool) (limit base : Nat) : Cover2 c limit (ginit base) := by
  simp [Cover2, ginit, init]

theorem cover2_step {c : Bool} {v : Variant} (hv : v.recheckOk = true) {limit : Nat} {g h : GSt} {e : Ev}
    (hc : Ctl g.st) (hs : Cover2 c limit g) (hq : e.isFailure = false) (hst : gstep c v limit g e = some h) :
    Cover2 c limit h := by
  obtain ⟨t, ht, rfl⟩ := gstep_some hst
  obtain ⟨hf, hh, hr⟩ := hc
  simp only [Variant.recheckOk, Bool.and_eq_true] at hv
  obtain ⟨⟨⟨hv1, hv2⟩, hv3⟩, hv4⟩ := hv
  obtain ⟨s, as, win, late, unseen⟩ := g
  simp only at hf hh hr ht
  cases c <;> cases as <;> cases e <;> step_split ht <;> (cases hp : s.phase) <;>
    simp_all [Cover2, ghost, GSt.look, GSt.pastLook, GSt.early, eff_recheck, Phase.owns, Phase.blind, Phase.locked,
      shouldTryFsync, tooMany, St.dirty, Ev.isFailure] <;>
    omega

theorem cover2_run {c : Bool} {v : Variant} (hv : v.recheckOk = true) {limit : Nat} {g h : GSt} {evs : List Ev}
    (hc : Ctl g.st) (hs : Cover2 c limit g) (hq : ∀ e ∈ evs, e.isFailure = false)
    (hr : grun c v limit g evs = some h) : Ctl h.st ∧ Cover2 c limit h :=
  grun_induct (P := fun g => Ctl g.st ∧ Cover2 c limit g) (Q := fun e => e.isFailure = false)
    (fun _ _ _ hg hq hs => ⟨gctl_step (Variant.guarded_of_recheckOk hv) hg.1 hs, cover2_step hv hg.1 hg.2 hq hs⟩)
    evs g h ⟨hc, hs⟩ hq hr

theorem cover2_reachOk {c : Bool} {v : Variant} (hv : v.recheckOk = true) {limit : Nat} {g : GSt}
    (h : GReachOk c v limit g) : Cover2 c limit g := by
  obtain ⟨base, evs, hq, h⟩ := h
  exact (cover2_run hv (ctl_init base) (cover2_init c limit base) hq h).2

/-- at rest, after any schedule without a sync failure: the limit, plus the bytes of the two windows -/
theorem gbounded_at_quiescence {c : Bool} {v : Variant} (hv : v.recheckOk = true) {limit : Nat} {g : GSt}
    (h : GReachOk c v limit g) (hq : g.st.quiescent = true) : g.st.dirty ≤ limit + g.late + g.unseen := by
  have hc := cover2_reachOk hv h
  rw [quiescent_iff] at hq
  simp only [Cover2, hq.2.1, hq.1, hq.2.2, Nat.lt_irrefl, false_or] at hc
  simp only [St.dirty]
  omega

/-! ### the two ghosts characterised -/

/-- `unseen` stays 0 when every exit is followed by the re-check -/
theorem unseen_step_false {v : Variant} {limit : Nat} {g h : GSt} {e : Ev} (h0 : g.unseen = 0)
    (hs : gstep false v limit g e = some h) : h.unseen = 0 := by
  obtain ⟨t, _, rfl⟩ := gstep_some hs
  cases e <;> simp only [ghost, look_false, if_true] <;> (try split) <;> simp [h0]

theorem unseen_run_false {v : Variant} {limit : Nat} {g h : GSt} {evs : List Ev} (h0 : g.unseen = 0)
    (hr : grun false v limit g evs = some h) : h.unseen = 0 :=
  grun_induct (P := fun g => g.unseen = 0) (Q := fun _ => True) (fun _ _ _ hg _ hs => unseen_step_false hg hs)
    evs g h h0 (fun _ _ => trivial) hr

theorem late_step {c : Bool} {v : Variant} {limit : Nat} {g h : GSt} {e : Ev}
    (hs : gstep c v limit g e = some h) (hl : h.late ≠ 0) :
    g.late ≠ 0 ∨
      (e = .recv ∧ 0 < g.st.queue ∧ g.st.hdl = .running ∧ g.pastLook c = true ∧ v.awaitRunning = false) := by
  obtain ⟨t, ht, rfl⟩ := gstep_some hs
  cases e
  case recv =>
    simp only [ghost] at hl
    split at hl
    · rename_i hd
      simp only [step, hd.1, eff_awaitRunning] at ht
      split at ht
      · simp at ht
      · refine Or.inr ⟨rfl, by omega, hd.1, hd.2, ?_⟩
        cases ha : v.awaitRunning
        · rfl
        · simp [ha] at ht
    · exact Or.inl hl
  all_goals
    simp only [ghost] at hl
    try split at hl
    all_goals first | exact Or.inl hl | (simp at hl)

/-- `late` is 0 unless the schedule contains a `recv` that meets an unfinished handle while the task is past its last
    look at the dirty bytes (window (b)) -/
theorem late_pos_has_drop {c : Bool} {v : Variant} {limit : Nat} : ∀ (evs : List Ev) (g h : GSt),
    grun c v limit g evs = some h → h.late ≠ 0 →
    g.late ≠ 0 ∨ ∃ pre post k, evs = pre ++ .recv :: post ∧ grun c v limit g pre = some k ∧
      0 < k.st.queue ∧ k.st.hdl = .running ∧ k.pastLook c = true ∧ v.awaitRunning = false := by
  intro evs
  induction evs with
  | nil => intro g h hr hl; simp at hr; subst hr; exact Or.inl hl
  | cons e es ih =>
    intro g h hr hl
    simp only [grun_cons] at hr
    cases hst : gstep c v limit g e with
    | none => simp [hst] at hr
    | some u =>
      simp only [hst, Option.bind_some] at hr
      rcases ih u h hr hl with h1 | ⟨pre, post, k, h1, h2, h3⟩
      · rcases late_step hst h1 with h2 | ⟨rfl, h2⟩
        · exact Or.inl h2
        · exact Or.inr ⟨[], es, g, rfl, rfl, h2⟩
      · refine Or.inr ⟨e :: pre, post, k, by simp [h1], ?_, h3⟩
        simp [hst, h2]

/-- a worker that awaits an unfinished task instead of dropping the request closes window (b) -/
theorem late_zero_of_awaitRunning {c : Bool} {v : Variant} (ha : v.awaitRunning = true) {limit : Nat} {g h : GSt}
    {evs : List Ev} (h0 : g.late = 0) (hr : grun c v limit g evs = some h) : h.late = 0 := by
  apply Classical.byContradiction
  intro hl
  rcases late_pos_has_drop evs g h hr hl with h1 | ⟨_, _, _, _, _, _, _, _, h2⟩
  · exact h1 h0
  · rw [ha] at h2; cases h2

/-- the part of window (c) that matters: `unseen` (and the part of `win` that will become `unseen`) is 0 unless a
    write appends bytes while the task is past a look that has no re-check behind it and still holds the flag -/
theorem unseen_step {c : Bool} {v : Variant} {limit : Nat} {g h : GSt} {e : Ev}
    (hs : gstep c v limit g e = some h) (hl : h.unseen ≠ 0 ∨ (h.early c = true ∧ h.win ≠ 0)) :
    (g.unseen ≠ 0 ∨ (g.early c = true ∧ g.win ≠ 0)) ∨
      (g.early c = true ∧ ∃ n, 0 < n ∧ (e = .write n ∨ e = .append n)) := by
  obtain ⟨t, ht, rfl⟩ := gstep_some hs
  obtain ⟨s, as, win, late, unseen⟩ := g
  simp only at ht
  cases c <;> cases as <;> cases e <;> step_split ht <;> (cases hp : s.phase) <;>
    simp_all [ghost, GSt.look, GSt.pastLook, GSt.early, eff_recheck] <;> omega

theorem unseen_pos_has_early_write {c : Bool} {v : Variant} {limit : Nat} : ∀ (evs : List Ev) (g h : GSt),
    grun c v limit g evs = some h → (h.unseen ≠ 0 ∨ (h.early c = true ∧ h.win ≠ 0)) →
    (g.unseen ≠ 0 ∨ (g.early c = true ∧ g.win ≠ 0)) ∨
      ∃ pre e post k n, evs = pre ++ e :: post ∧ grun c v limit g pre = some k ∧ k.early c = true ∧ 0 < n ∧
        (e = .write n ∨ e = .append n) := by
  intro evs
  induction evs with
  | nil => intro g h hr hl; simp at hr; subst hr; exact Or.inl hl
  | cons e es ih =>
    intro g h hr hl
    simp only [grun_cons] at hr
    cases hst : gstep c v limit g e with
    | none => simp [hst] at hr
    | some u =>
      simp only [hst, Option.bind_some] at hr
      rcases ih u h hr hl with h1 | ⟨pre, e', post, k, n, h1, h2, h3⟩
      · rcases unseen_step hst h1 with h2 | ⟨h2, n, h3, h4⟩
        · exact Or.inl h2
        · exact Or.inr ⟨[], e, es, g, n, rfl, rfl, h2, h3, h4⟩
      · refine Or.inr ⟨e :: pre, e', post, k, n, by simp [h1], ?_, h3⟩
        simp [hst, h2]

/-! ### progress with the re-check: the protocol comes to rest by itself -/

/-- 1 when the task will go round the loop once more (the re-check is ahead and will find the blob over the limit) -/
def jump (limit : Nat) (look : Bool) (s : St) : Nat :=
  match s.phase with
  | .syncing cap => if s.size - max s.synced cap > limit then 1 else 0
  | .returned _ | .released => if look = true ∧ s.size - s.synced > limit then 1 else 0
  | _ => 0

/-- a bound on the number of internal steps (every sync succeeding) from a state, with the re-check -/
def St.measureR (limit : Nat) (s : St) : Nat := 8 * s.queue + 9 * s.pending + s.phase.rank + 6 * jump limit true s

def GSt.measure (c : Bool) (limit : Nat) (g : GSt) : Nat :=
  8 * g.st.queue + 9 * g.st.pending + g.st.phase.rank + 6 * jump limit (g.look c) g.st

/-- the internal event enabled in a state of the wrapper -/
def gnext (c : Bool) (v : Variant) (g : GSt) : Option Ev := next (g.eff c v) g.st

def mu (limit : Nat) (look : Bool) (s : St) : Nat :=
  8 * s.queue + 9 * s.pending + s.phase.rank + 6 * jump limit look s

/-- every internal step that is not a failing `sync_all` lowers the measure; `lk` / `lk'` = "the re-check is ahead" before
    and after the step -/
theorem mu_step {w : Variant} (hw : w.guarded = true) {limit : Nat} {s t : St} {e : Ev} {lk lk' : Bool}
    (hc : Ctl s) (hi : e.internal = true) (hq : e.isFailure = false) (h : step w limit s e = some t)
    (hrel : s.phase = .released → w.recheck = true → lk = true)
    (h1 : e = .complete true → lk' = true) (h2 : (∀ ok, e ≠ .complete ok) → e ≠ .cas → lk' = lk) :
    mu limit lk' t < mu limit lk s := by
  obtain ⟨hf, hh, hr⟩ := hc
  simp only [Variant.guarded, Bool.and_eq_true] at hw
  obtain ⟨hv1, hv2⟩ := hw
  cases e <;> simp only [Ev.internal, Bool.false_eq_true] at hi
  case decide =>
    have := h2 (by simp) (by simp); subst this
    step_split h <;> simp_all [mu, jump, Phase.rank] <;> omega
  case recv =>
    have := h2 (by simp) (by simp); subst this
    step_split h <;> simp_all [mu, jump, Phase.rank] <;> omega
  case cas =>
    step_split h <;> simp_all [mu, jump, Phase.rank, Phase.owns]
  case check =>
    have := h2 (by simp) (by simp); subst this
    step_split h <;> simp_all [mu, jump, Phase.rank, Phase.owns, tooMany, St.dirty] <;> (try split) <;> omega
  case start =>
    have := h2 (by simp) (by simp); subst this
    step_split h <;> simp_all [mu, jump, Phase.rank, Phase.owns] <;> (try split) <;> omega
  case complete ok =>
    cases ok
    · simp [Ev.isFailure] at hq
    · have := h1 rfl; subst this
      simp only [step] at h
      split at h
      · rename_i cap hp
        simp only [if_true, Option.some.injEq] at h
        subst h
        simp only [mu, jump, hp, Phase.rank, true_and]
        omega
      · simp at h
  case release =>
    have := h2 (by simp) (by simp); subst this
    step_split h <;> simp_all [mu, jump, Phase.rank, Phase.owns]
  case recheck =>
    have := h2 (by simp) (by simp); subst this
    step_split h <;> simp_all [mu, jump, Phase.rank, Phase.owns, tooMany, St.dirty, shouldTryFsync] <;>
      (try split) <;> omega
  case finish =>
    have := h2 (by simp) (by simp); subst this
    step_split h <;> simp_all [mu, jump, Phase.rank, Phase.owns] <;> (try split) <;> omega

theorem look_ghost (c : Bool) (g : GSt) (e : Ev) (t : St) :
    (e = .complete true → (ghost c g e t).look c = true) ∧
      ((∀ ok, e ≠ .complete ok) → e ≠ .cas → (ghost c g e t).look c = g.look c) := by
  cases e <;> simp only [ghost] <;> (try split) <;> simp [GSt.look]
  intro h; exact Or.inr h

theorem gmeasure_step {c : Bool} {v : Variant} (hv : v.guarded = true) {limit : Nat} {g h : GSt} {e : Ev}
    (hc : Ctl g.st) (hi : e.internal = true) (hq : e.isFailure = false) (hst : gstep c v limit g e = some h) :
    h.measure c limit < g.measure c limit := by
  obtain ⟨t, ht, rfl⟩ := gstep_some hst
  have hl := look_ghost c g e t
  have := mu_step (w := g.eff c v) (by simpa using hv) (lk := g.look c) (lk' := (ghost c g e t).look c) hc hi hq ht
    (by
      intro hp hre
      rw [eff_recheck] at hre
      simp only [hp, decide_true, Bool.true_and, Bool.not_not, Bool.and_eq_true] at hre
      exact hre.2)
    hl.1 hl.2
  simpa [GSt.measure, mu] using this

theorem g_comes_to_rest {c : Bool} {v : Variant} (hv : v.guarded = true) (ha : v.awaitRunning = false) (limit : Nat) :
    ∀ (n : Nat) (g : GSt), g.measure c limit ≤ n → Ctl g.st →
    ∃ evs h, (∀ e ∈ evs, e.internal = true ∧ e.isFailure = false) ∧ grun c v limit g evs = some h ∧
      h.st.quiescent = true ∧ evs.length ≤ g.measure c limit ∧ h.st.size = g.st.size ∧ h.st.blob = g.st.blob := by
  intro n
  induction n with
  | zero =>
    intro g hm _
    refine ⟨[], g, by simp, rfl, ?_, by simp, rfl, rfl⟩
    have hq : g.st.queue = 0 := by simp only [GSt.measure] at hm; omega
    have hpd : g.st.pending = 0 := by simp only [GSt.measure] at hm; omega
    have hp : g.st.phase = .idle := by
      simp only [GSt.measure] at hm
      cases hp : g.st.phase <;> simp_all [Phase.rank] <;> omega
    simp [St.quiescent, hq, hp, hpd]
  | succ n ih =>
    intro g hm hc
    cases hn : gnext c v g with
    | none => exact ⟨[], g, by simp, rfl, (next_none_iff _ _).1 hn, by simp, rfl, rfl⟩
    | some e =>
      have hen := next_enabled (v := g.eff c v) (by simpa using ha) limit hn
      obtain ⟨t, ht⟩ := Option.isSome_iff_exists.1 hen
      have hst : gstep c v limit g e = some (ghost c g e t) := by simp [gstep, ht]
      have hie := next_internal hn
      have hlt := gmeasure_step hv hc hie.1 hie.2 hst
      have hk := internal_step_keeps hie.1 ht
      obtain ⟨evs, h, h1, h2, h3, h4, h5, h6⟩ := ih (ghost c g e t) (by omega) (gctl_step hv hc hst)
      refine ⟨e :: evs, h, ?_, by simp [hst, h2], h3, by simp only [List.length_cons]; omega, ?_, ?_⟩
      · intro e' he'
        rcases List.mem_cons.1 he' with rfl | he'
        · exact hie
        · exact h1 e' he'
      · rw [h5, ghost_st]; exact hk.1
      · rw [h6, ghost_st]; exact hk.2.1

/-! ### one write from a state at rest, with the re-check -/

/-- the schedule the protocol follows by itself after a write that passed the limit: the sync, then the re-check (which
    finds nothing: the capture included the write) -/
def syncScheduleR : List Ev := [.recv, .cas, .check, .start, .complete true, .release, .recheck, .finish]

/-- from a state at rest, a write that takes the active blob over the limit is followed, without any further client
    action, by a sync that captures the size including that write, then by the re-check and the end of the task;
    the same in both readings of the re-check (`c`) -/
theorem gwrite_over_limit_syncs {c : Bool} {v : Variant} (hv : v.recheckOk = true) {limit : Nat} {g : GSt}
    (hc : Ctl g.st) (hq : g.st.quiescent = true) {n : Nat} (hover : g.st.size + n - g.st.synced > limit) :
    ∃ t u, grun c v limit g [.write n, .recv, .cas, .check, .start] = some t ∧
      t.st.phase = .syncing (g.st.size + n) ∧ t.st.flag = true ∧ t.st.hdl = .running ∧
      grun c v limit t [.complete true, .release, .recheck, .finish] = some u ∧
      u.st.quiescent = true ∧ u.st.flag = false ∧ u.st.hdl = .finished ∧
      u.st.size = g.st.size + n ∧ u.st.synced = max g.st.synced (g.st.size + n) ∧ u.st.blob = g.st.blob ∧
      u.late = 0 ∧ u.unseen = 0 := by
  obtain ⟨hf, hh, hr⟩ := hc
  simp only [Variant.recheckOk, Bool.and_eq_true] at hv
  obtain ⟨⟨⟨hv1, hv2⟩, hv3⟩, hv4⟩ := hv
  rw [quiescent_iff] at hq
  obtain ⟨hq1, hq2, hq3⟩ := hq
  obtain ⟨⟨size, synced, flag, hdl, phase, queue, blob, durable, blind, pending⟩, as, win, late, unseen⟩ := g
  simp only at hq1 hq2 hq3 hover hf hh
  subst hq1 hq2 hq3
  simp only [Phase.owns] at hf
  subst hf
  have hlt : limit < size + n - synced := hover
  have hle3 : ¬ (limit < size + n - max synced (size + n)) := by omega
  cases hdl
  · simp [grun, gstep, ghost, GSt.eff, GSt.look, GSt.pastLook, step, shouldTryFsync, tooMany, St.dirty, Phase.blind, hlt,
      hle3, St.quiescent, hv4]
  · simp at hh
  · simp [grun, gstep, ghost, GSt.eff, GSt.look, GSt.pastLook, step, shouldTryFsync, tooMany, St.dirty, Phase.blind, hlt,
      hle3, St.quiescent, hv3, hv4]

/-- the same for `step v` itself -/
theorem write_over_limit_syncs_recheck {v : Variant} (hv : v.recheckOk = true) {limit : Nat} {s : St} (hc : Ctl s)
    (hq : s.quiescent = true) {n : Nat} (hover : s.size + n - s.synced > limit) :
    ∃ t u, run v limit s [.write n, .recv, .cas, .check, .start] = some t ∧
      t.phase = .syncing (s.size + n) ∧ t.flag = true ∧ t.hdl = .running ∧
      run v limit t [.complete true, .release, .recheck, .finish] = some u ∧
      u.quiescent = true ∧ u.flag = false ∧ u.hdl = .finished ∧
      u.size = s.size + n ∧ u.synced = max s.synced (s.size + n) ∧ u.blob = s.blob := by
  obtain ⟨t, u, h1, h2, h3, h4, h5, h6, h7, h8, h9, h10, h11, _⟩ :=
    gwrite_over_limit_syncs (c := false) (g := { st := s }) hv hc hq hover
  exact ⟨t.st, u.st, run_of_grun_false h1, h2, h3, h4, run_of_grun_false h5, h6, h7, h8, h9, h10, h11⟩

/-! ### schedules without a request received in window (b) -/

/-- no `recv` of the schedule meets an unfinished handle while the task is past its last re-check -/
def noLateDrop (v : Variant) (limit : Nat) : St → List Ev → Bool
  | _, [] => true
  | s, e :: es =>
    (match e with
      | .recv => !(s.hdl == .running && s.phase == .done)
      | _ => true) &&
    (match step v limit s e with
      | some t => noLateDrop v limit t es
      | none => true)

theorem noLateDrop_split {v : Variant} {limit : Nat} : ∀ (pre : List Ev) (s t : St) (post : List Ev),
    noLateDrop v limit s (pre ++ .recv :: post) = true → run v limit s pre = some t →
    ¬ (t.hdl = .running ∧ t.phase = .done) := by
  intro pre
  induction pre with
  | nil =>
    intro s t post hn hr
    simp only [run_nil, Option.some.injEq] at hr
    subst hr
    simp only [List.nil_append, noLateDrop, Bool.and_eq_true, Bool.not_eq_true'] at hn
    intro hd
    simp [hd.1, hd.2] at hn
  | cons e es ih =>
    intro s t post hn hr
    simp only [run_cons] at hr
    cases hst : step v limit s e with
    | none => simp [hst] at hr
    | some u =>
      simp only [hst, Option.bind_some] at hr
      simp only [List.cons_append, noLateDrop, hst, Bool.and_eq_true] at hn
      exact ih u t post hn.2 hr

end SyncProto
end Pearl
