import Pearl.Proofs.SyncProto2
/-
The sync request protocol, THIRD reading of the task body: `Inner::fsyncdata` as it is in /repo at bc65670 (the commit was
amended after `Pearl/Proofs/SyncProto2.lean` was written; that file shows the function as it was for a short while).

`Inner::fsyncdata` at bc65670 (src/storage/core.rs):

    loop {
        if compare_exchange(false, true).is_err() { return Ok(()) }            -- (x1) no re-check (lost compare-exchange)
        {   let _flag = ResetableFlag{..};
            let safe = self.safe.read().await;
            let over_limit = match &safe.active_blob { Some(ablob) => too_many_dirty_bytes(..), None => true };
            if over_limit {
                safe.fsyncdata().await?;                                       -- (x3) `?`: no re-check, the task ends
            }
        }                                   -- BOTH non-failing paths (synced / not over the limit) end the scope here:
                                            -- locals dropped: storage lock, then the guard (flag := false)
        let safe = self.safe.read().await;  -- the RE-CHECK: `too_many_dirty_bytes` (the flag is not looked at)
        if !over_limit { return Ok(()) }    -- `Phase.done`, then the end of the task (`finish`)
    }                                       -- over the limit: round the loop, compare-exchange again (`Phase.spawned`)

There is no early `return` inside the guarded scope any more.  So the re-check follows every release of the flag EXCEPT
the one of a failed sync (x3) (and a lost compare-exchange (x1), which releases nothing and is not reachable with one
task).  A failing sync is not retried in a loop.

The three readings, one wrapper (`MSt` / `mstep m`, `m : Mode`):
* `Mode.everyExit`     = `step v` itself           = `gstep false` of `SyncProto2` (`mstep_ofBool`);
* `Mode.afterSyncOnly` = re-check after a successful sync only (what /repo had for a short while)
                                                   = `gstep true` of `SyncProto2` (`mstep_ofBool`);
* `Mode.amended`       = /repo at bc65670: re-check after every release except after a failed sync.
Nothing of `SyncProto2` is changed; `MSt.toG` maps the new wrapper onto the old one for the first two modes.
-/
namespace Pearl
namespace SyncProto

/-- which exits of the guarded scope of `Inner::fsyncdata` are followed by the re-check -/
inductive Mode where
  /-- every exit: `step` with `recheck := true` as it is -/
  | everyExit
  /-- only the exit after a `safe.fsyncdata()` that succeeded (/repo for a short while; `gstep true`) -/
  | afterSyncOnly
  /-- /repo at bc65670: every exit except the `?` of a failed sync (and the lost compare-exchange) -/
  | amended
deriving DecidableEq, Repr, Inhabited

/-- the two readings of `SyncProto2` as modes -/
def Mode.ofBool : Bool → Mode
  | false => .everyExit
  | true => .afterSyncOnly

/-- the ghost `ahead` right after the compare-exchange (`won` = it was won): in the amended reading the re-check is ahead
    from the moment the guarded scope is entered (it is lost only by a failing sync) -/
def Mode.afterCas (m : Mode) (won : Bool) : Bool :=
  match m with
  | .amended => won
  | _ => false

structure MSt where
  st : St
  /-- ghost: on the exit path the task body is on, the re-check is still ahead (read in the modes `afterSyncOnly` and
      `amended`; in `afterSyncOnly` it is the `afterSync` of `GSt`) -/
  ahead : Bool := false
  /-- ghost: as `GSt.win` -/
  win : Nat := 0
  /-- ghost: as `GSt.late` (window (b)) -/
  late : Nat := 0
  /-- ghost: as `GSt.unseen` (window (c): between a look that is not followed by a re-check and the reset of the flag) -/
  unseen : Nat := 0
deriving DecidableEq, Repr, Inhabited

def minit (base : Nat) : MSt := { st := init base }

/-- the state of the wrapper of `SyncProto2` -/
def MSt.toG (k : MSt) : GSt := { st := k.st, afterSync := k.ahead, win := k.win, late := k.late, unseen := k.unseen }

/-- on the exit path the task is on, the re-check is still ahead -/
def MSt.look (m : Mode) (k : MSt) : Bool :=
  match m with
  | .everyExit => true
  | _ => k.ahead

/-- window (b): the task has taken its last look, the flag is clear, `JoinHandle::is_finished` is still false -/
def MSt.pastLook (m : Mode) (k : MSt) : Bool :=
  match k.st.phase with
  | .done => true
  | .released => !k.look m
  | _ => false

/-- window (c): the task has taken its last look and still holds the flag -/
def MSt.early (m : Mode) (k : MSt) : Bool :=
  match k.st.phase with
  | .returned _ => !k.look m
  | _ => false

/-- the variant whose `step` the task follows in this state: without the re-check when the exit taken has none -/
def MSt.eff (m : Mode) (v : Variant) (k : MSt) : Variant :=
  if k.st.phase = .released ∧ k.look m = false then { v with recheck := false } else v

def mghost (m : Mode) (k : MSt) (e : Ev) (t : St) : MSt :=
  match e with
  | .write n | .append n =>
    { k with st := t, win := if k.pastLook m || k.early m then k.win + n else k.win }
  | .recv =>
    if k.st.hdl = .running ∧ k.pastLook m = true then { k with st := t, late := k.late + k.win, win := 0 }
    else { k with st := t }
  | .cas => { k with st := t, ahead := m.afterCas (!k.st.flag), win := 0 }
  | .check => { k with st := t, win := 0 }
  | .start => { k with st := t, win := 0, late := 0, unseen := 0 }
  | .complete ok => { k with st := t, ahead := ok, win := 0 }
  | .release =>
    if k.look m then { k with st := t } else { k with st := t, unseen := k.unseen + k.win, win := 0 }
  | .recheck => { k with st := t, win := 0 }
  | .rotate _ => { k with st := t, win := 0, late := 0, unseen := 0 }
  | .decide | .tick | .finish => { k with st := t }

/-- one atomic step of the wrapped protocol -/
def mstep (m : Mode) (v : Variant) (limit : Nat) (k : MSt) (e : Ev) : Option MSt :=
  (step (k.eff m v) limit k.st e).map (mghost m k e)

def mrun (m : Mode) (v : Variant) (limit : Nat) (k : MSt) : List Ev → Option MSt
  | [] => some k
  | e :: es => (mstep m v limit k e).bind fun h => mrun m v limit h es

def MReach (m : Mode) (v : Variant) (limit : Nat) (k : MSt) : Prop :=
  ∃ base evs, mrun m v limit (minit base) evs = some k

def MReachOk (m : Mode) (v : Variant) (limit : Nat) (k : MSt) : Prop :=
  ∃ base evs, (∀ e ∈ evs, e.isFailure = false) ∧ mrun m v limit (minit base) evs = some k

@[simp] theorem mrun_nil (m : Mode) (v : Variant) (limit : Nat) (k : MSt) : mrun m v limit k [] = some k := rfl

@[simp] theorem mrun_cons (m : Mode) (v : Variant) (limit : Nat) (k : MSt) (e : Ev) (es : List Ev) :
    mrun m v limit k (e :: es) = (mstep m v limit k e).bind fun h => mrun m v limit h es := rfl

theorem mrun_append (m : Mode) (v : Variant) (limit : Nat) (k : MSt) (es fs : List Ev) :
    mrun m v limit k (es ++ fs) = (mrun m v limit k es).bind fun h => mrun m v limit h fs := by
  induction es generalizing k with
  | nil => simp
  | cons e es ih =>
    simp only [List.cons_append, mrun_cons]
    cases mstep m v limit k e with
    | none => simp
    | some t => simpa using ih t

theorem mrun_induct {m : Mode} {v : Variant} {limit : Nat} {P : MSt → Prop} {Q : Ev → Prop}
    (hstep : ∀ k e h, P k → Q e → mstep m v limit k e = some h → P h) :
    ∀ (evs : List Ev) (k h : MSt), P k → (∀ e ∈ evs, Q e) → mrun m v limit k evs = some h → P h := by
  intro evs
  induction evs with
  | nil => intro k h hk _ hr; simp at hr; exact hr ▸ hk
  | cons e es ih =>
    intro k h hk hq hr
    simp only [mrun_cons] at hr
    cases hst : mstep m v limit k e with
    | none => simp [hst] at hr
    | some u =>
      simp only [hst, Option.bind_some] at hr
      exact ih u h (hstep k e u hk (hq e (by simp)) hst) (fun e he => hq e (by simp [he])) hr

theorem MReachOk.mreach {m : Mode} {v : Variant} {limit : Nat} {k : MSt} (h : MReachOk m v limit k) :
    MReach m v limit k := by
  obtain ⟨base, evs, _, h⟩ := h
  exact ⟨base, evs, h⟩

@[simp] theorem mghost_st (m : Mode) (k : MSt) (e : Ev) (t : St) : (mghost m k e t).st = t := by
  cases e <;> simp only [mghost] <;> (try split) <;> rfl

theorem mstep_some {m : Mode} {v : Variant} {limit : Nat} {k h : MSt} {e : Ev} (hs : mstep m v limit k e = some h) :
    ∃ t, step (k.eff m v) limit k.st e = some t ∧ h = mghost m k e t := by
  simp only [mstep, Option.map_eq_some_iff] at hs
  obtain ⟨t, ht, rfl⟩ := hs
  exact ⟨t, ht, rfl⟩

/-! ### the first two modes are the two readings of `SyncProto2` -/

@[simp] theorem toG_st (k : MSt) : k.toG.st = k.st := rfl

theorem look_ofBool (c : Bool) (k : MSt) : k.look (.ofBool c) = k.toG.look c := by
  cases c <;> simp [MSt.look, Mode.ofBool, GSt.look, MSt.toG]

theorem pastLook_ofBool (c : Bool) (k : MSt) : k.pastLook (.ofBool c) = k.toG.pastLook c := by
  simp only [MSt.pastLook, GSt.pastLook, look_ofBool, toG_st]
  rfl

theorem early_ofBool (c : Bool) (k : MSt) : k.early (.ofBool c) = k.toG.early c := by
  simp only [MSt.early, GSt.early, look_ofBool, toG_st]
  rfl

theorem eff_ofBool (c : Bool) (v : Variant) (k : MSt) : k.eff (.ofBool c) v = k.toG.eff c v := by
  simp only [MSt.eff, GSt.eff, look_ofBool, toG_st]
  rfl

theorem afterCas_ofBool (c : Bool) (w : Bool) : (Mode.ofBool c).afterCas w = false := by
  cases c <;> rfl

theorem mghost_ofBool (c : Bool) (k : MSt) (e : Ev) (t : St) :
    (mghost (.ofBool c) k e t).toG = ghost c k.toG e t := by
  obtain ⟨s, ah, w, l, u⟩ := k
  have hp := pastLook_ofBool c ⟨s, ah, w, l, u⟩
  have he := early_ofBool c ⟨s, ah, w, l, u⟩
  have hl := look_ofBool c ⟨s, ah, w, l, u⟩
  simp only [MSt.toG] at hp he hl
  cases e <;> simp only [mghost, ghost, MSt.toG, hp, he, hl, afterCas_ofBool] <;> (try split) <;>
    first | rfl | (rename_i h; simp [h]; done) | simp_all

/-- `mstep` in the modes `everyExit` / `afterSyncOnly` is `gstep false` / `gstep true` -/
theorem mstep_ofBool (c : Bool) (v : Variant) (limit : Nat) (k : MSt) (e : Ev) :
    (mstep (.ofBool c) v limit k e).map MSt.toG = gstep c v limit k.toG e := by
  simp only [mstep, gstep, eff_ofBool, toG_st, Option.map_map]
  cases step (k.toG.eff c v) limit k.st e with
  | none => rfl
  | some t => simp [mghost_ofBool]

theorem mrun_ofBool (c : Bool) (v : Variant) (limit : Nat) : ∀ (evs : List Ev) (k : MSt),
    (mrun (.ofBool c) v limit k evs).map MSt.toG = grun c v limit k.toG evs := by
  intro evs
  induction evs with
  | nil => intro k; simp
  | cons e es ih =>
    intro k
    have h1 := mstep_ofBool c v limit k e
    simp only [mrun_cons, grun_cons]
    cases hs : mstep (.ofBool c) v limit k e with
    | none =>
      rw [hs] at h1
      simp [← h1]
    | some u =>
      rw [hs] at h1
      simp only [Option.map_some] at h1
      simp [← h1, ih u]

/-- in the mode `everyExit` the wrapper is `step v` with ghost fields on top -/
theorem mrun_everyExit_st (v : Variant) (limit : Nat) (evs : List Ev) (k : MSt) :
    (mrun .everyExit v limit k evs).map (·.st) = run v limit k.st evs := by
  have h1 : (mrun .everyExit v limit k evs).map MSt.toG = grun false v limit k.toG evs := mrun_ofBool false v limit evs k
  have h2 : (grun false v limit k.toG evs).map (·.st) = run v limit k.st evs := grun_false_st v limit evs k.toG
  rw [← h2, ← h1, Option.map_map]
  rfl

/-! ### the effective variant -/

@[simp] theorem meff_guardBeforeCheck (m : Mode) (v : Variant) (k : MSt) :
    (k.eff m v).guardBeforeCheck = v.guardBeforeCheck := by simp only [MSt.eff]; split <;> rfl
@[simp] theorem meff_resetOnError (m : Mode) (v : Variant) (k : MSt) :
    (k.eff m v).resetOnError = v.resetOnError := by simp only [MSt.eff]; split <;> rfl
@[simp] theorem meff_reapFinished (m : Mode) (v : Variant) (k : MSt) :
    (k.eff m v).reapFinished = v.reapFinished := by simp only [MSt.eff]; split <;> rfl
@[simp] theorem meff_publishOnlyOnSuccess (m : Mode) (v : Variant) (k : MSt) :
    (k.eff m v).publishOnlyOnSuccess = v.publishOnlyOnSuccess := by simp only [MSt.eff]; split <;> rfl
@[simp] theorem meff_awaitRunning (m : Mode) (v : Variant) (k : MSt) :
    (k.eff m v).awaitRunning = v.awaitRunning := by simp only [MSt.eff]; split <;> rfl

theorem meff_recheck (m : Mode) (v : Variant) (k : MSt) :
    (k.eff m v).recheck = (v.recheck && !(decide (k.st.phase = .released) && !k.look m)) := by
  simp only [MSt.eff]
  split
  · rename_i h; simp [h.1, h.2]
  · rename_i h
    by_cases hp : k.st.phase = .released
    · have : k.look m = true := by simpa [hp] using h
      simp [this]
    · simp [hp]

@[simp] theorem meff_guarded (m : Mode) (v : Variant) (k : MSt) : (k.eff m v).guarded = v.guarded := by
  simp [Variant.guarded]

/-! ### control and counter invariants -/

theorem mctl_step {m : Mode} {v : Variant} (hv : v.guarded = true) {limit : Nat} {k h : MSt} {e : Ev}
    (hc : Ctl k.st) (hs : mstep m v limit k e = some h) : Ctl h.st := by
  obtain ⟨t, ht, rfl⟩ := mstep_some hs
  rw [mghost_st]
  exact ctl_step (v := k.eff m v) (by simpa using hv) hc ht

theorem mctl_run {m : Mode} {v : Variant} (hv : v.guarded = true) {limit : Nat} {k h : MSt} {evs : List Ev}
    (hc : Ctl k.st) (hr : mrun m v limit k evs = some h) : Ctl h.st :=
  mrun_induct (P := fun k => Ctl k.st) (Q := fun _ => True) (fun _ _ _ hk _ hs => mctl_step hv hk hs) evs k h hc
    (fun _ _ => trivial) hr

theorem mctl_reach {m : Mode} {v : Variant} (hv : v.guarded = true) {limit : Nat} {k : MSt}
    (h : MReach m v limit k) : Ctl k.st := by
  obtain ⟨base, evs, h⟩ := h
  exact mctl_run hv (ctl_init base) h

theorem mcnt_step {m : Mode} {v : Variant} (hv : v.publishOnlyOnSuccess = true) {limit : Nat} {k h : MSt} {e : Ev}
    (hc : Cnt k.st) (hs : mstep m v limit k e = some h) : Cnt h.st := by
  obtain ⟨t, ht, rfl⟩ := mstep_some hs
  rw [mghost_st]
  exact cnt_step (v := k.eff m v) (by simpa using hv) hc ht

theorem mcnt_reach {m : Mode} {v : Variant} (hv : v.publishOnlyOnSuccess = true) {limit : Nat} {k : MSt}
    (h : MReach m v limit k) : Cnt k.st := by
  obtain ⟨base, evs, h⟩ := h
  exact mrun_induct (P := fun k => Cnt k.st) (Q := fun _ => True) (fun _ _ _ hk _ hs => mcnt_step hv hk hs) evs _ k
    (cnt_init base) (fun _ _ => trivial) h

/-! ### the amended reading without failures: the re-check is ahead of every release -/

/-- while the task body is between its compare-exchange and the re-check, the re-check is ahead -/
def Ahead (k : MSt) : Prop :=
  match k.st.phase with
  | .held | .checked | .syncing _ | .returned _ | .released => k.ahead = true
  | _ => True

theorem ahead_init (base : Nat) : Ahead (minit base) := by
  simp [Ahead, minit, init]

/-- in the amended reading only a failing sync (or a lost compare-exchange: excluded by `Ctl`) loses the re-check -/
theorem ahead_step {v : Variant} {limit : Nat} {k h : MSt} {e : Ev} (hc : Ctl k.st) (ha : Ahead k)
    (hq : e.isFailure = false) (hst : mstep .amended v limit k e = some h) : Ahead h := by
  obtain ⟨t, ht, rfl⟩ := mstep_some hst
  obtain ⟨hf, _, _⟩ := hc
  obtain ⟨s, ah, win, late, unseen⟩ := k
  simp only at hf ht
  cases e <;> step_split ht <;> (cases hp : s.phase) <;>
    simp_all [Ahead, mghost, MSt.look, MSt.pastLook, MSt.early, Mode.afterCas, Phase.owns, Ev.isFailure]

/-- window (c) is closed in the amended reading: without a failing sync `unseen` stays 0 -/
theorem unseen_step_amended {v : Variant} {limit : Nat} {k h : MSt} {e : Ev} (ha : Ahead k) (h0 : k.unseen = 0)
    (hst : mstep .amended v limit k e = some h) : h.unseen = 0 := by
  obtain ⟨t, ht, rfl⟩ := mstep_some hst
  cases e
  case release =>
    have hp : ∃ r, k.st.phase = .returned r := by
      simp only [step] at ht
      split at ht
      · rename_i r hp; exact ⟨r, hp⟩
      · simp at ht
    obtain ⟨r, hp⟩ := hp
    have hl : k.look .amended = true := by simpa [Ahead, hp, MSt.look] using ha
    simp [mghost, hl, h0]
  all_goals (simp only [mghost] <;> (try split) <;> simp [h0])

theorem amended_run {v : Variant} (hv : v.guarded = true) {limit : Nat} {k h : MSt} {evs : List Ev}
    (hc : Ctl k.st) (ha : Ahead k) (h0 : k.unseen = 0) (hq : ∀ e ∈ evs, e.isFailure = false)
    (hr : mrun .amended v limit k evs = some h) : Ctl h.st ∧ Ahead h ∧ h.unseen = 0 :=
  mrun_induct (P := fun k => Ctl k.st ∧ Ahead k ∧ k.unseen = 0) (Q := fun e => e.isFailure = false)
    (fun _ _ _ hk hq hs => ⟨mctl_step hv hk.1 hs, ahead_step hk.1 hk.2.1 hq hs, unseen_step_amended hk.2.1 hk.2.2 hs⟩)
    evs k h ⟨hc, ha, h0⟩ hq hr

theorem unseen_zero_amended {v : Variant} (hv : v.guarded = true) {limit : Nat} {k : MSt}
    (h : MReachOk .amended v limit k) : k.unseen = 0 := by
  obtain ⟨base, evs, hq, h⟩ := h
  exact (amended_run hv (ctl_init base) (ahead_init base) rfl hq h).2.2

/-! ### the bound at rest (all three modes) -/

/-- `Cover2` of `SyncProto2` for the three-valued wrapper -/
def Cover3 (m : Mode) (limit : Nat) (k : MSt) : Prop :=
  match k.st.phase with
  | .idle => 0 < k.st.queue ∨ 0 < k.st.pending ∨ k.st.size ≤ k.st.synced + limit + (k.late + k.unseen)
  | .spawned | .held | .checked | .syncing _ => True
  | .returned _ => k.look m = true ∨ k.st.size ≤ k.st.synced + limit + (k.late + k.unseen) + k.win
  | .released =>
    k.look m = true ∨ k.st.size ≤ k.st.synced + limit + (k.late + k.unseen) ∨
      ((0 < k.st.queue ∨ 0 < k.st.pending) ∧ k.st.size ≤ k.st.synced + limit + (k.late + k.unseen) + k.win)
  | .done =>
    k.st.size ≤ k.st.synced + limit + (k.late + k.unseen) ∨
      ((0 < k.st.queue ∨ 0 < k.st.pending) ∧ k.st.size ≤ k.st.synced + limit + (k.late + k.unseen) + k.win)

theorem cover3_init (m : Mode) (limit base : Nat) : Cover3 m limit (minit base) := by
  simp [Cover3, minit, init]

/-- the case analysis of `cover3_step`, one mode at a time -/
macro "cover3_cases" : tactic =>
  `(tactic| (
    intro v hv limit k h e hc hs hq hst
    obtain ⟨t, ht, rfl⟩ := mstep_some hst
    obtain ⟨hf, hh, hr⟩ := hc
    simp only [Variant.recheckOk, Bool.and_eq_true] at hv
    obtain ⟨⟨⟨hv1, hv2⟩, hv3⟩, hv4⟩ := hv
    obtain ⟨s, ah, win, late, unseen⟩ := k
    simp only at hf hh hr ht
    cases ah <;> cases e <;> step_split ht <;> (cases hp : s.phase) <;>
      simp_all [Cover3, mghost, MSt.look, MSt.pastLook, MSt.early, Mode.afterCas, meff_recheck, Phase.owns, Phase.blind,
        Phase.locked, shouldTryFsync, tooMany, St.dirty, Ev.isFailure] <;>
      omega))

theorem cover3_step_everyExit : ∀ {v : Variant} (_ : v.recheckOk = true) {limit : Nat} {k h : MSt} {e : Ev}
    (_ : Ctl k.st) (_ : Cover3 .everyExit limit k) (_ : e.isFailure = false)
    (_ : mstep .everyExit v limit k e = some h), Cover3 .everyExit limit h := by
  cover3_cases

theorem cover3_step_afterSyncOnly : ∀ {v : Variant} (_ : v.recheckOk = true) {limit : Nat} {k h : MSt} {e : Ev}
    (_ : Ctl k.st) (_ : Cover3 .afterSyncOnly limit k) (_ : e.isFailure = false)
    (_ : mstep .afterSyncOnly v limit k e = some h), Cover3 .afterSyncOnly limit h := by
  cover3_cases

theorem cover3_step_amended : ∀ {v : Variant} (_ : v.recheckOk = true) {limit : Nat} {k h : MSt} {e : Ev}
    (_ : Ctl k.st) (_ : Cover3 .amended limit k) (_ : e.isFailure = false)
    (_ : mstep .amended v limit k e = some h), Cover3 .amended limit h := by
  cover3_cases

theorem cover3_step {m : Mode} {v : Variant} (hv : v.recheckOk = true) {limit : Nat} {k h : MSt} {e : Ev}
    (hc : Ctl k.st) (hs : Cover3 m limit k) (hq : e.isFailure = false) (hst : mstep m v limit k e = some h) :
    Cover3 m limit h := by
  cases m
  · exact cover3_step_everyExit hv hc hs hq hst
  · exact cover3_step_afterSyncOnly hv hc hs hq hst
  · exact cover3_step_amended hv hc hs hq hst

theorem cover3_run {m : Mode} {v : Variant} (hv : v.recheckOk = true) {limit : Nat} {k h : MSt} {evs : List Ev}
    (hc : Ctl k.st) (hs : Cover3 m limit k) (hq : ∀ e ∈ evs, e.isFailure = false)
    (hr : mrun m v limit k evs = some h) : Ctl h.st ∧ Cover3 m limit h :=
  mrun_induct (P := fun k => Ctl k.st ∧ Cover3 m limit k) (Q := fun e => e.isFailure = false)
    (fun _ _ _ hk hq hs => ⟨mctl_step (Variant.guarded_of_recheckOk hv) hk.1 hs, cover3_step hv hk.1 hk.2 hq hs⟩)
    evs k h ⟨hc, hs⟩ hq hr

theorem cover3_reachOk {m : Mode} {v : Variant} (hv : v.recheckOk = true) {limit : Nat} {k : MSt}
    (h : MReachOk m v limit k) : Cover3 m limit k := by
  obtain ⟨base, evs, hq, h⟩ := h
  exact (cover3_run hv (ctl_init base) (cover3_init m limit base) hq h).2

/-- at rest, after any schedule without a sync failure, in every mode: the limit, plus the bytes of the two windows -/
theorem mbounded_at_quiescence {m : Mode} {v : Variant} (hv : v.recheckOk = true) {limit : Nat} {k : MSt}
    (h : MReachOk m v limit k) (hq : k.st.quiescent = true) : k.st.dirty ≤ limit + k.late + k.unseen := by
  have hc := cover3_reachOk hv h
  rw [quiescent_iff] at hq
  simp only [Cover3, hq.2.1, hq.1, hq.2.2, Nat.lt_irrefl, false_or] at hc
  simp only [St.dirty]
  omega

/-! ### `late`: window (b) -/

theorem mlate_step {m : Mode} {v : Variant} {limit : Nat} {k h : MSt} {e : Ev}
    (hs : mstep m v limit k e = some h) (hl : h.late ≠ 0) :
    k.late ≠ 0 ∨
      (e = .recv ∧ 0 < k.st.queue ∧ k.st.hdl = .running ∧ k.pastLook m = true ∧ v.awaitRunning = false) := by
  obtain ⟨t, ht, rfl⟩ := mstep_some hs
  cases e
  case recv =>
    simp only [mghost] at hl
    split at hl
    · rename_i hd
      simp only [step, hd.1, meff_awaitRunning] at ht
      split at ht
      · simp at ht
      · refine Or.inr ⟨rfl, by omega, hd.1, hd.2, ?_⟩
        cases ha : v.awaitRunning
        · rfl
        · simp [ha] at ht
    · exact Or.inl hl
  all_goals
    simp only [mghost] at hl
    try split at hl
    all_goals first | exact Or.inl hl | (simp at hl)

/-- `late` is 0 unless the schedule contains a `recv` that meets an unfinished handle while the task is past its last
    look at the dirty bytes (window (b)) -/
theorem mlate_pos_has_drop {m : Mode} {v : Variant} {limit : Nat} : ∀ (evs : List Ev) (k h : MSt),
    mrun m v limit k evs = some h → h.late ≠ 0 →
    k.late ≠ 0 ∨ ∃ pre post j, evs = pre ++ .recv :: post ∧ mrun m v limit k pre = some j ∧
      0 < j.st.queue ∧ j.st.hdl = .running ∧ j.pastLook m = true ∧ v.awaitRunning = false := by
  intro evs
  induction evs with
  | nil => intro k h hr hl; simp at hr; subst hr; exact Or.inl hl
  | cons e es ih =>
    intro k h hr hl
    simp only [mrun_cons] at hr
    cases hst : mstep m v limit k e with
    | none => simp [hst] at hr
    | some u =>
      simp only [hst, Option.bind_some] at hr
      rcases ih u h hr hl with h1 | ⟨pre, post, j, h1, h2, h3⟩
      · rcases mlate_step hst h1 with h2 | ⟨rfl, h2⟩
        · exact Or.inl h2
        · exact Or.inr ⟨[], es, k, rfl, rfl, h2⟩
      · refine Or.inr ⟨e :: pre, post, j, by simp [h1], ?_, h3⟩
        simp [hst, h2]

/-- a worker that awaits an unfinished task instead of dropping the request closes window (b), in every mode -/
theorem mlate_zero_of_awaitRunning {m : Mode} {v : Variant} (ha : v.awaitRunning = true) {limit : Nat} {k h : MSt}
    {evs : List Ev} (h0 : k.late = 0) (hr : mrun m v limit k evs = some h) : h.late = 0 := by
  apply Classical.byContradiction
  intro hl
  rcases mlate_pos_has_drop evs k h hr hl with h1 | ⟨_, _, _, _, _, _, _, _, h2⟩
  · exact h1 h0
  · rw [ha] at h2; cases h2

/-! ### progress: the protocol comes to rest by itself (all three modes) -/

def MSt.measure (m : Mode) (limit : Nat) (k : MSt) : Nat :=
  8 * k.st.queue + 9 * k.st.pending + k.st.phase.rank + 6 * jump limit (k.look m) k.st

/-- the internal event enabled in a state of the wrapper -/
def mnext (m : Mode) (v : Variant) (k : MSt) : Option Ev := next (k.eff m v) k.st

/-- let the wrapped protocol run by itself (every sync succeeding) for at most `fuel` steps -/
def msettle (m : Mode) (v : Variant) (limit : Nat) : Nat → MSt → MSt
  | 0, k => k
  | fuel + 1, k =>
    match mnext m v k with
    | none => k
    | some e =>
      match mstep m v limit k e with
      | some h => msettle m v limit fuel h
      | none => k

theorem look_mghost (m : Mode) (k : MSt) (e : Ev) (t : St) :
    (e = .complete true → (mghost m k e t).look m = true) ∧
      ((∀ ok, e ≠ .complete ok) → e ≠ .cas → (mghost m k e t).look m = k.look m) := by
  cases m <;> cases e <;> simp only [mghost] <;> (try split) <;> simp [MSt.look]

theorem mmeasure_step {m : Mode} {v : Variant} (hv : v.guarded = true) {limit : Nat} {k h : MSt} {e : Ev}
    (hc : Ctl k.st) (hi : e.internal = true) (hq : e.isFailure = false) (hst : mstep m v limit k e = some h) :
    h.measure m limit < k.measure m limit := by
  obtain ⟨t, ht, rfl⟩ := mstep_some hst
  have hl := look_mghost m k e t
  have := mu_step (w := k.eff m v) (by simpa using hv) (lk := k.look m) (lk' := (mghost m k e t).look m) hc hi hq ht
    (by
      intro hp hre
      rw [meff_recheck] at hre
      simp only [hp, decide_true, Bool.true_and, Bool.not_not, Bool.and_eq_true] at hre
      exact hre.2)
    hl.1 hl.2
  simpa [MSt.measure, mu] using this

theorem m_comes_to_rest {m : Mode} {v : Variant} (hv : v.guarded = true) (ha : v.awaitRunning = false) (limit : Nat) :
    ∀ (n : Nat) (k : MSt), k.measure m limit ≤ n → Ctl k.st →
    ∃ evs h, (∀ e ∈ evs, e.internal = true ∧ e.isFailure = false) ∧ mrun m v limit k evs = some h ∧
      h.st.quiescent = true ∧ evs.length ≤ k.measure m limit ∧ h.st.size = k.st.size ∧ h.st.blob = k.st.blob := by
  intro n
  induction n with
  | zero =>
    intro k hm _
    refine ⟨[], k, by simp, rfl, ?_, by simp, rfl, rfl⟩
    have hq : k.st.queue = 0 := by simp only [MSt.measure] at hm; omega
    have hpd : k.st.pending = 0 := by simp only [MSt.measure] at hm; omega
    have hp : k.st.phase = .idle := by
      simp only [MSt.measure] at hm
      cases hp : k.st.phase <;> simp_all [Phase.rank] <;> omega
    simp [St.quiescent, hq, hp, hpd]
  | succ n ih =>
    intro k hm hc
    cases hn : mnext m v k with
    | none => exact ⟨[], k, by simp, rfl, (next_none_iff _ _).1 hn, by simp, rfl, rfl⟩
    | some e =>
      have hen := next_enabled (v := k.eff m v) (by simpa using ha) limit hn
      obtain ⟨t, ht⟩ := Option.isSome_iff_exists.1 hen
      have hst : mstep m v limit k e = some (mghost m k e t) := by simp [mstep, ht]
      have hie := next_internal hn
      have hlt := mmeasure_step hv hc hie.1 hie.2 hst
      have hk := internal_step_keeps hie.1 ht
      obtain ⟨evs, h, h1, h2, h3, h4, h5, h6⟩ := ih (mghost m k e t) (by omega) (mctl_step hv hc hst)
      refine ⟨e :: evs, h, ?_, by simp [hst, h2], h3, by simp only [List.length_cons]; omega, ?_, ?_⟩
      · intro e' he'
        rcases List.mem_cons.1 he' with rfl | he'
        · exact hie
        · exact h1 e' he'
      · rw [h5, mghost_st]; exact hk.1
      · rw [h6, mghost_st]; exact hk.2.1

/-! ### one write from a state at rest -/

/-- from a state at rest, a write that takes the active blob over the limit is followed, without any further client
    action, by a sync that captures the size including that write, then by the re-check and the end of the task; the same
    in the three modes (the exit after a sync that succeeded has the re-check in all of them) -/
theorem mwrite_over_limit_syncs {m : Mode} {v : Variant} (hv : v.recheckOk = true) {limit : Nat} {k : MSt}
    (hc : Ctl k.st) (hq : k.st.quiescent = true) {n : Nat} (hover : k.st.size + n - k.st.synced > limit) :
    ∃ t u, mrun m v limit k [.write n, .recv, .cas, .check, .start] = some t ∧
      t.st.phase = .syncing (k.st.size + n) ∧ t.st.flag = true ∧ t.st.hdl = .running ∧
      mrun m v limit t [.complete true, .release, .recheck, .finish] = some u ∧
      u.st.quiescent = true ∧ u.st.flag = false ∧ u.st.hdl = .finished ∧
      u.st.size = k.st.size + n ∧ u.st.synced = max k.st.synced (k.st.size + n) ∧ u.st.blob = k.st.blob ∧
      u.late = 0 ∧ u.unseen = 0 := by
  obtain ⟨hf, hh, hr⟩ := hc
  simp only [Variant.recheckOk, Bool.and_eq_true] at hv
  obtain ⟨⟨⟨hv1, hv2⟩, hv3⟩, hv4⟩ := hv
  rw [quiescent_iff] at hq
  obtain ⟨hq1, hq2, hq3⟩ := hq
  obtain ⟨⟨size, synced, flag, hdl, phase, queue, blob, durable, blind, pending⟩, ah, win, late, unseen⟩ := k
  simp only at hq1 hq2 hq3 hover hf hh
  subst hq1 hq2 hq3
  simp only [Phase.owns] at hf
  subst hf
  have hlt : limit < size + n - synced := hover
  have hle3 : ¬ (limit < size + n - max synced (size + n)) := by omega
  cases m <;> cases hdl <;>
    first
    | (simp at hh; done)
    | simp [mrun, mstep, mghost, MSt.eff, MSt.look, MSt.pastLook, Mode.afterCas, step, shouldTryFsync, tooMany, St.dirty,
        Phase.blind, hlt, hle3, St.quiescent, hv3, hv4]

/-! ### without a failing sync the amended reading IS `step` -/

/-- what the statements read off a state of either wrapper: the protocol state and the three byte-counting ghosts -/
def MSt.obs (k : MSt) : St × Nat × Nat × Nat := (k.st, k.win, k.late, k.unseen)
def gobs (g : GSt) : St × Nat × Nat × Nat := (g.st, g.win, g.late, g.unseen)

theorem eff_amended_of_ahead {v : Variant} {k : MSt} (ha : Ahead k) : k.eff .amended v = v := by
  simp only [MSt.eff]
  split
  · rename_i h
    simp [Ahead, h.1, MSt.look] at ha h
    simp [ha] at h
  · rfl

theorem mghost_amended_obs {k : MSt} {g : GSt} (ha : Ahead k) (ho : k.obs = gobs g) (e : Ev) (t : St)
    (hrel : e = .release → ∃ r, k.st.phase = .returned r) :
    (mghost .amended k e t).obs = gobs (ghost false g e t) := by
  obtain ⟨s, ah, win, late, unseen⟩ := k
  obtain ⟨s', as, win', late', unseen'⟩ := g
  simp only [MSt.obs, gobs, Prod.mk.injEq] at ho
  obtain ⟨rfl, rfl, rfl, rfl⟩ := ho
  simp only at hrel
  cases ah <;> cases e <;> (cases hp : s.phase) <;>
    simp_all [Ahead, mghost, ghost, MSt.obs, gobs, MSt.look, MSt.pastLook, MSt.early, GSt.look, GSt.pastLook, GSt.early] <;>
    (try split) <;> (try simp_all)

theorem mstep_amended_obs {v : Variant} {limit : Nat} {k : MSt} {g : GSt} (ha : Ahead k) (ho : k.obs = gobs g) (e : Ev) :
    (mstep .amended v limit k e).map MSt.obs = (gstep false v limit g e).map gobs := by
  have hst : k.st = g.st := by simpa [MSt.obs, gobs] using congrArg Prod.fst ho
  simp only [mstep, gstep, eff_amended_of_ahead ha, eff_false, Option.map_map, ← hst]
  cases ht : step v limit k.st e with
  | none => rfl
  | some t =>
    have hrel : e = .release → ∃ r, k.st.phase = .returned r := by
      intro he
      subst he
      simp only [step] at ht
      split at ht
      · rename_i r hp; exact ⟨r, hp⟩
      · simp at ht
    simp [mghost_amended_obs ha ho e t hrel]

/-- schedule by schedule: as long as no sync fails, the code as of bc65670 and `step` (`gstep false`) do the same, ghosts
    `late` / `unseen` included -/
theorem mrun_amended_obs {v : Variant} (hv : v.guarded = true) {limit : Nat} : ∀ (evs : List Ev) (k : MSt) (g : GSt),
    Ctl k.st → Ahead k → k.obs = gobs g → (∀ e ∈ evs, e.isFailure = false) →
    (mrun .amended v limit k evs).map MSt.obs = (grun false v limit g evs).map gobs := by
  intro evs
  induction evs with
  | nil => intro k g _ _ ho _; simp [ho]
  | cons e es ih =>
    intro k g hc ha ho hq
    have h1 := mstep_amended_obs (v := v) (limit := limit) ha ho e
    simp only [mrun_cons, grun_cons]
    cases hm : mstep .amended v limit k e with
    | none =>
      rw [hm] at h1
      cases hg : gstep false v limit g e with
      | none => rfl
      | some u => rw [hg] at h1; simp at h1
    | some k' =>
      rw [hm] at h1
      cases hg : gstep false v limit g e with
      | none => rw [hg] at h1; simp at h1
      | some g' =>
        rw [hg] at h1
        simp only [Option.map_some, Option.some.injEq] at h1
        simp only [Option.bind_some]
        exact ih k' g' (mctl_step hv hc hm) (ahead_step hc ha (hq e (by simp)) hm) h1
          (fun e he => hq e (by simp [he]))

/-- from a fresh active blob, without a failing sync: the amended reading ends where `step` ends (or is not enabled where
    `step` is not), with `late = lateOf` and `unseen = 0` -/
theorem mrun_amended_eq_run {v : Variant} (hv : v.guarded = true) {limit base : Nat} {evs : List Ev}
    (hok : ∀ e ∈ evs, e.isFailure = false) :
    (mrun .amended v limit (minit base) evs).map (·.st) = run v limit (init base) evs ∧
      ∀ k, mrun .amended v limit (minit base) evs = some k → k.late = lateOf v limit base evs ∧ k.unseen = 0 := by
  have h := mrun_amended_obs hv (limit := limit) evs (minit base) (ginit base) (ctl_init base) (ahead_init base) rfl hok
  have h2 := grun_false_st v limit evs (ginit base)
  constructor
  · have : (mrun .amended v limit (minit base) evs).map (·.st) = (grun false v limit (ginit base) evs).map (·.st) := by
      have := congrArg (Option.map Prod.fst) h
      simpa [Option.map_map, Function.comp_def, MSt.obs, gobs] using this
    rw [this, h2]; rfl
  · intro k hk
    rw [hk] at h
    cases hg : grun false v limit (ginit base) evs with
    | none => rw [hg] at h; simp at h
    | some g =>
      rw [hg] at h
      simp only [Option.map_some, Option.some.injEq, MSt.obs, gobs, Prod.mk.injEq] at h
      refine ⟨by simp [lateOf, hg, h.2.2.1], ?_⟩
      rw [h.2.2.2]
      exact unseen_run_false (g := ginit base) rfl hg

/-! ### schedules without a request received in window (b) -/

/-- no `recv` of the schedule meets an unfinished handle while the task is past its last re-check -/
def mnoLateDrop (m : Mode) (v : Variant) (limit : Nat) : MSt → List Ev → Bool
  | _, [] => true
  | k, e :: es =>
    (match e with
      | .recv => !(k.st.hdl == .running && k.st.phase == .done)
      | _ => true) &&
    (match mstep m v limit k e with
      | some h => mnoLateDrop m v limit h es
      | none => true)

theorem mnoLateDrop_split {m : Mode} {v : Variant} {limit : Nat} : ∀ (pre : List Ev) (k j : MSt) (post : List Ev),
    mnoLateDrop m v limit k (pre ++ .recv :: post) = true → mrun m v limit k pre = some j →
    ¬ (j.st.hdl = .running ∧ j.st.phase = .done) := by
  intro pre
  induction pre with
  | nil =>
    intro k j post hn hr
    simp only [mrun_nil, Option.some.injEq] at hr
    subst hr
    simp only [List.nil_append, mnoLateDrop, Bool.and_eq_true, Bool.not_eq_true'] at hn
    intro hd
    simp [hd.1, hd.2] at hn
  | cons e es ih =>
    intro k j post hn hr
    simp only [mrun_cons] at hr
    cases hst : mstep m v limit k e with
    | none => simp [hst] at hr
    | some u =>
      simp only [hst, Option.bind_some] at hr
      simp only [List.cons_append, mnoLateDrop, hst, Bool.and_eq_true] at hn
      exact ih u j post hn.2 hr

end SyncProto
end Pearl
